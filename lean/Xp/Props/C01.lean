import Xp.Proofs.C01PT
import Xp.Proofs.C01Quiet
import Xp.Proofs.C01QuietPT
import Xp.Proofs.C01Cache
import Xp.Proofs.C01Probe
import Xp.Proofs.C01Stale
import Xp.Gen.C01Skel
/-
C01 — composed resources are never leaked or duplicated, whatever fails mid-reconcile.

The model (Xp/Model/C01.lean) is `Reconciler.Reconcile` with the function composer or
the P&T composer (named templates), call by call, over an abstract API server; a
reconcile runs under an arbitrary fault plan (`Plan`: every call index × {ok, error,
conflict, crash before, crash after}). `reach` is the list of all stores visible at
any instant of that run. The invariant `Good` packs: object keys are unique and
named, NoLeak, and "referenced objects have pairwise distinct composition resource
names" (needed because both composers key their observations by that name).

Informer cache. The reconciler reads composed resources through a cache and repeats a cached
NotFound against the API server (`Req.getCached` / `Req.getObj`). `St.miss` is the set of
composed resources that exist but are missing from the cache while the reconcile runs; no request
writes it. Every theorem below holds FOR EVERY such set: the store `s` (hence `s.miss`) is
universally quantified, and `…_every_miss_set` / `invariant_every_history_every_miss_set` spell the
quantifier out, the latter with a different set for every reconcile of a history. Two hypotheses
mention the cache: `FreshAvoids` (part of `ModeOK`: the name generator does not propose the name of
an object that exists but is missing from the cache — the code probes the cache only and accepts
that risk; `fresh_names_must_avoid_cache_misses_witness`: without it a leak is reachable) and, for `quiescent_pt` only, that no referenced resource is missing from the cache
(`quiescent_pt_needs_cache_witness` shows the P&T composer is not quiescent otherwise).
-/
namespace Xp.C01

/-- what a reconcile is allowed to assume about its nondeterministic inputs, `miss` being the
set of composed resources missing from the informer cache while it runs -/
def ModeOK (miss : List Ref) : Mode → Prop
  -- the function output is a map with stable kinds (H1); names generated are non-empty and none is
  -- the name of an object missing from the cache; loop orders enumerate their map
  | .fn out ch => OutOK out ∧ ChOK ch ∧ FreshAvoids miss ch.fresh
  -- template names are distinct; names generated are non-empty and none is the name of an object
  -- missing from the cache
  | .pt tmpl fresh _ => TmplOK tmpl fresh ∧ FreshAvoids miss fresh

theorem safe_reconcile {s : St} (hg : Good s) (m : Mode) (hm : ModeOK s.miss m) : Safe sem Good (reconcile m) s := by
  cases m with
  | fn out ch => exact safe_reconcile_fn hg out ch hm.1 hm.2.1 hm.2.2
  | pt tmpl fresh ver => exact safe_reconcile_pt hg tmpl fresh ver hm.1 hm.2

/-- **At every instant** of a reconcile — after any prefix of its API calls, under any
fault plan (error, conflict, crash before / after the call took effect at any call
index), for every function output / template list, every generated name and every map
iteration order, and whatever composed resources are missing from the informer cache (`s.miss`
is arbitrary) — the invariant holds. -/
theorem invariant_every_instant (s : St) (hg : Good s) (m : Mode) (hm : ModeOK s.miss m) (plan : Plan) :
    ∀ s' ∈ reach sem plan 0 (reconcile m) s, Good s' :=
  reach_safe sem Good plan 0 (reconcile m) s hg (safe_reconcile hg m hm)

/-- NoLeak, spelled out: every live composed resource controlled by the XR is listed in
spec.resourceRefs at every instant, including right after a crash or failed call. -/
theorem noLeak_every_instant (s : St) (hg : Good s) (m : Mode) (hm : ModeOK s.miss m) (plan : Plan) :
    ∀ s' ∈ reach sem plan 0 (reconcile m) s, ∀ o ∈ s'.objs,
      o.ctrl = .xr → o.deleting = false → (⟨o.kind, o.name⟩ : Ref) ∈ s'.refs := by
  intro s' hs' o ho hc hd
  exact (invariant_every_instant s hg m hm plan s' hs').noLeak o ho hc hd

/-- At most one live composed resource per desired resource name, at every instant. -/
theorem at_most_one_per_name_every_instant (s : St) (hg : Good s) (m : Mode) (hm : ModeOK s.miss m) (plan : Plan) :
    ∀ s' ∈ reach sem plan 0 (reconcile m) s, ∀ o1 ∈ s'.objs, ∀ o2 ∈ s'.objs,
      o1.ctrl = .xr → o1.deleting = false → o2.ctrl = .xr → o2.deleting = false →
      o1.annot = o2.annot → o1.annot ≠ "" → o1 = o2 := by
  intro s' hs' o1 h1 o2 h2 c1 d1 c2 d2 ha hne
  have hg' := invariant_every_instant s hg m hm plan s' hs'
  exact hg'.obsUniq o1 h1 o2 h2 (hg'.noLeak o1 h1 c1 d1) (hg'.noLeak o2 h2 c2 d2) ha hne

/-- No API call ever renames an object: whatever is in the store after a call is either
an object that was there before under the same kind/name, or a newly created one. -/
theorem objects_never_renamed (s : St) (r : Req) :
    ∀ o' ∈ (exec s r).1.objs, (∃ o ∈ s.objs, key o = key o') ∨ findObj s.objs o'.kind o'.name = none := by
  intro o' ho'
  by_cases h : ∃ o ∈ s.objs, key o = key o'
  · exact Or.inl h
  · right
    cases hf : findObj s.objs o'.kind o'.name with
    | none => rfl
    | some o =>
      obtain ⟨hm, hk, hn⟩ := findObj_some hf
      exact absurd ⟨o, hm, by simp [key, hk, hn]⟩ h

/-- no reconcile writes the set of cache misses -/
theorem miss_unchanged (s : St) (m : Mode) (plan : Plan) :
    ∀ s' ∈ reach sem plan 0 (reconcile m) s, s'.miss = s.miss := by
  apply reach_inv sem (fun x => x.miss = s.miss) (fun _ => True)
  · intro s1 r h1 _; rw [← h1]; exact exec_miss s1 r
  · exact issues_true _
  · rfl
where
  issues_true : ∀ (p : P), Issues (fun _ => True) p := by
    intro p
    induction p with
    | ret a => exact Issues.ret a
    | call r c ih => exact Issues.call r c trivial ih

/-- The same for every finite history of faulty reconciles (each with its own plan,
function output, names and orders), with controller-local state lost in between
(restart / requeue): the invariant holds at every instant of the whole history. (Here the set
of cache misses is the same — arbitrary — set throughout; `invariant_every_history_every_miss_set`
lets it differ from reconcile to reconcile.) -/
theorem invariant_every_history (h : List (Plan × Mode)) (s : St) (hok : ∀ pm ∈ h, ModeOK s.miss pm.2) (hg : Good s) :
    ∀ s' ∈ reachHistory sem (h.map fun pm => (pm.1, reconcile pm.2)) s, Good s' := by
  induction h generalizing s with
  | nil => intro s' hs'; simp [reachHistory] at hs'; subst hs'; exact hg
  | cons pm rest ih =>
    intro s' hs'
    simp only [List.map_cons, reachHistory, List.mem_append] at hs'
    have hm := hok pm (List.mem_cons_self ..)
    rcases hs' with hs' | hs'
    · exact invariant_every_instant s hg pm.2 hm pm.1 s' hs'
    · have hmem := run_mem_reach sem pm.1 0 (reconcile pm.2) s
      have hmiss := miss_unchanged s pm.2 pm.1 _ hmem
      apply ih _ (fun x hx => hmiss ▸ hok x (List.mem_cons_of_mem _ hx)) _ s' hs'
      exact invariant_every_instant s hg pm.2 hm pm.1 _ hmem

/-! ### informer-cache misses, spelled out -/

/-- **NoLeak and at-most-one-per-name for every set of cache misses.** Take any good store and
declare ANY set `miss` of composed resources missing from the informer cache: at every instant of
the reconcile, under every fault plan, every live composed resource controlled by the XR is in
spec.resourceRefs, and no two live XR-controlled resources carry the same (non-empty) composition
resource name. -/
theorem noLeak_and_unique_every_instant_every_miss_set (s : St) (hg : Good s) (miss : List Ref)
    (m : Mode) (hm : ModeOK miss m) (plan : Plan) :
    ∀ s' ∈ reach sem plan 0 (reconcile m) { s with miss := miss },
      (∀ o ∈ s'.objs, o.ctrl = .xr → o.deleting = false → (⟨o.kind, o.name⟩ : Ref) ∈ s'.refs) ∧
      (∀ o1 ∈ s'.objs, ∀ o2 ∈ s'.objs, o1.ctrl = .xr → o1.deleting = false → o2.ctrl = .xr → o2.deleting = false →
        o1.annot = o2.annot → o1.annot ≠ "" → o1 = o2) := by
  intro s' hs'
  have hg0 : Good { s with miss := miss } := hg.withMiss miss
  exact ⟨noLeak_every_instant _ hg0 m hm plan s' hs',
    at_most_one_per_name_every_instant _ hg0 m hm plan s' hs'⟩

/-- **Histories with a different set of cache misses in every reconcile.** Every reconcile of the
history runs under its own fault plan, with its own inputs and its own set of cache misses
(`reachRounds` sets `St.miss` when the reconcile starts): the invariant — NoLeak, at most one
resource per name, foreign objects untouched — holds at every instant of the whole history. -/
theorem invariant_every_history_every_miss_set (h : List (List Ref × Plan × Mode))
    (hok : ∀ x ∈ h, ModeOK x.1 x.2.2) (s : St) (hg : Good s) :
    ∀ s' ∈ reachRounds h s, Good s' :=
  reachRounds_inv Good ModeOK (fun _ ms hs => hs.withMiss ms)
    (fun s pl m hs hm => invariant_every_instant s hs m hm pl) h hok s hg

/-- **The live fallback makes the observation complete.** For every set `miss` of cache misses:
on a fault-free run `ObserveComposedResources` hands to its continuation an observation `obs`
(the pure observation of the store, which does not depend on the cache) in which every existing,
referenced composed resource controlled by the XR is recorded under its composition resource name —
in particular the ones missing from the cache — and which records nothing else than existing,
referenced, non-foreign resources; or the store holds a referenced unannotated resource and the
observation errors (also independently of the cache). -/
theorem observation_complete_every_miss_set (s : St) (hg : Good s) (miss : List Ref) (lrv : Nat) (k : Obs → P) :
    (∃ obs, observePure s.objs s.refs [] = some obs ∧
      run sem Plan.allOk 0 (observeFn lrv s.refs [] k) { s with miss := miss } =
        run sem Plan.allOk 0 (k obs) { s with miss := miss } ∧
      (∀ o ∈ s.objs, (⟨o.kind, o.name⟩ : Ref) ∈ s.refs → o.ctrl = .xr →
        o.annot ≠ "" ∧ obsLookup obs o.annot = some o) ∧
      (∀ a o, obsLookup obs a = some o →
        o ∈ s.objs ∧ (⟨o.kind, o.name⟩ : Ref) ∈ s.refs ∧ o.ctrl ≠ .other ∧ o.annot = a ∧ a ≠ "")) ∨
    (observePure s.objs s.refs [] = none ∧
      run sem Plan.allOk 0 (observeFn lrv s.refs [] k) { s with miss := miss } =
        run sem Plan.allOk 0 (onError lrv) { s with miss := miss }) := by
  have hrun := runOk_observeFn_pure { s with miss := miss } lrv k s.refs []
  simp only [runOk] at hrun
  cases hobs : observePure s.objs s.refs [] with
  | none =>
    right
    simp only [hobs] at hrun
    exact ⟨rfl, hrun⟩
  | some obs =>
    left
    simp only [hobs] at hrun
    have h0 : ObsOKp s [] [] := by
      refine ⟨?_, ?_, ?_⟩
      · intro o _ h; cases h
      · intro a o h; simp [obsLookup] at h
      · intro p h; cases h
    have hok : ObsOKp s ([] ++ s.refs) obs :=
      observePure_complete hg s.refs [] [] obs (fun _ hr => hr) (by intro r h; cases h) h0 hobs
    refine ⟨obs, rfl, hrun, ?_, ?_⟩
    · intro o ho hr hc
      exact hok.1 o ho (by simpa [key] using hr) (by rw [hc]; decide)
    · intro a o hl
      obtain ⟨h1, h2, h3, h4, h5⟩ := hok.2.1 a o hl
      exact ⟨h1, by simpa [key] using h2, h3, h4, h5⟩

/-- the same at the level of one reference: whatever is missing from the cache, the cached read
or — after a cached NotFound — the live read returns the object the store holds -/
theorem fallback_read_finds_existing (s : St) (kind name : String) (o : CObj)
    (hf : findObj s.objs kind name = some o) :
    exec s (.getCached kind name) = (s, .found o) ∨
    (exec s (.getCached kind name) = (s, .notFound) ∧ exec s (.getObj kind name) = (s, .found o)) :=
  double_read_finds hf

/-- **Quiescence** (function pipeline). Once the composed state matches the desired state —
every desired resource has its object with the desired content under the XR's control and
field manager, and spec.resourceRefs is exactly the sorted list of those objects — a
fault-free reconcile, in whatever order it iterates its maps and whatever composed resources are
missing from the informer cache (`s.miss` is arbitrary: the live fallback read finds them, and no
name is generated, so the cache is asked nothing else), succeeds and changes no
object: the store it leaves is identical (references, objects, the XR's resourceVersion).
(The P&T composer: `quiescent_pt` below.) -/
theorem quiescent (s : St) (names : List Named) (h : Settled s names) (ch : Choices) (hc : ChOK ch)
    (hv : ch.ver = s.refsVer) :
    run sem Plan.allOk 0 (reconcile (.fn (fun _ => .desired (names.map (·.d))) ch)) s = (s, some .success) :=
  quiescent_fn h ch hc hv

/-- Quiescence of the function composer with the quantifier over the cache misses spelled out. -/
theorem quiescent_every_miss_set (s : St) (names : List Named) (h : Settled s names) (ch : Choices) (hc : ChOK ch)
    (hv : ch.ver = s.refsVer) (miss : List Ref) :
    run sem Plan.allOk 0 (reconcile (.fn (fun _ => .desired (names.map (·.d))) ch)) { s with miss := miss } =
      ({ s with miss := miss }, some .success) :=
  quiescent_fn (h.withMiss miss) ch hc hv

/-- **Quiescence** (patch-and-transform templates). Once the composed state matches the
templates — every template has its object (right kind, the referenced name, annotated with
the template name, controlled by the XR, content as rendered) and spec.resourceRefs is exactly
the list of those objects in template order, in the API version the composition emits — a
fault-free reconcile succeeds and changes no object: the store it leaves is identical
(references, objects, the XR's resourceVersion), whatever names `fresh` the generator would
propose (none is probed or consumed). `hcached`: no referenced composed resource is missing from
the informer cache (resources that are not referenced may be). Unlike the function composer the
P&T composer needs this: `quiescent_pt_needs_cache_witness`. -/
theorem quiescent_pt (s : St) (tmpl : List Desired) (names : List String) (h : SettledPT s tmpl names)
    (fresh : List String) (ver : String) (hv : s.refs = [] ∨ ver = s.refsVer)
    (hcached : ∀ r ∈ s.refs, r ∉ s.miss) :
    run sem Plan.allOk 0 (reconcile (.pt tmpl fresh ver)) s = (s, some .success) :=
  QuietPT.quiescent_pt h fresh ver hv hcached

/-! ### the name generator's availability loop (`names.nameGenerator.GenerateName`)

`reconcileT tries` is the reconcile whose name generator probes up to `tries` candidates through the
cache before it gives up (Model/C01.lean `probeName`); the driver runs `reconcileT maxTries`, and
`skeleton_generate_name` ties `maxTries` to the `maxTries := 10` of the source. Every theorem above
is re-stated for EVERY number of tries; `reconcile` is the instance with one try. What is left of
the name oracle as a hypothesis is `FreshAvoids`: no candidate is the name of an object that exists
but is missing from the cache — that a generated name is free in the CACHE is proved
(`generated_name_free_in_cache`), that it is free in the store follows under `FreshAvoids`
(`generated_name_free_unless_missed`). -/

/-- the reconcile of the theorems above = one try -/
theorem reconcileT_one (m : Mode) : reconcileT 1 m = reconcile m := reconcileT_one' m

theorem safe_reconcileT {s : St} (hg : Good s) (tries : Nat) (m : Mode) (hm : ModeOK s.miss m) :
    Safe sem Good (reconcileT tries m) s := by
  cases m with
  | fn out ch => exact safe_reconcileT_fn hg tries out ch hm.1 hm.2.1 hm.2.2
  | pt tmpl fresh ver => exact safe_reconcileT_pt hg tries tmpl fresh ver hm.1 hm.2

/-- **The invariant at every instant, the name generator retrying.** `invariant_every_instant` for
every bound `tries` on the generator's availability loop (the code: 10): after any prefix of the API
calls of a reconcile — the probes of the loop included — under any fault plan, whatever candidates
the generator draws (as long as none is the name of an object missing from the cache), however many
of them are taken by objects the cache shows. -/
theorem invariant_every_instant_retry (tries : Nat) (s : St) (hg : Good s) (m : Mode) (hm : ModeOK s.miss m) (plan : Plan) :
    ∀ s' ∈ reach sem plan 0 (reconcileT tries m) s, Good s' :=
  reach_safe sem Good plan 0 (reconcileT tries m) s hg (safe_reconcileT hg tries m hm)

/-- NoLeak and at-most-one-per-name, spelled out, for every number of tries and every set of cache misses -/
theorem noLeak_and_unique_every_instant_retry (tries : Nat) (s : St) (hg : Good s) (miss : List Ref)
    (m : Mode) (hm : ModeOK miss m) (plan : Plan) :
    ∀ s' ∈ reach sem plan 0 (reconcileT tries m) { s with miss := miss },
      (∀ o ∈ s'.objs, o.ctrl = .xr → o.deleting = false → (⟨o.kind, o.name⟩ : Ref) ∈ s'.refs) ∧
      (∀ o1 ∈ s'.objs, ∀ o2 ∈ s'.objs, o1.ctrl = .xr → o1.deleting = false → o2.ctrl = .xr → o2.deleting = false →
        o1.annot = o2.annot → o1.annot ≠ "" → o1 = o2) := by
  intro s' hs'
  have hg' := invariant_every_instant_retry tries _ (hg.withMiss miss) m hm plan s' hs'
  exact ⟨fun o ho hc hd => hg'.noLeak o ho hc hd,
    fun o1 h1 o2 h2 c1 d1 c2 d2 ha hne => hg'.obsUniq o1 h1 o2 h2 (hg'.noLeak o1 h1 c1 d1) (hg'.noLeak o2 h2 c2 d2) ha hne⟩

/-- every finite history of faulty reconciles, each with its own plan, inputs and set of cache
misses, the name generator retrying up to `tries` times in each -/
theorem invariant_every_history_every_miss_set_retry (tries : Nat) (h : List (List Ref × Plan × Mode))
    (hok : ∀ x ∈ h, ModeOK x.1 x.2.2) (s : St) (hg : Good s) :
    ∀ s' ∈ reachRoundsT tries h s, Good s' :=
  reachRoundsT_inv tries Good ModeOK (fun _ ms hs => hs.withMiss ms)
    (fun s pl m hs hm => invariant_every_instant_retry tries s hs m hm pl) h hok s hg

/-- quiescence of the function composer does not depend on the number of tries: no name is generated -/
theorem quiescent_retry (tries : Nat) (s : St) (names : List Named) (h : Settled s names) (ch : Choices) (hc : ChOK ch)
    (hv : ch.ver = s.refsVer) :
    run sem Plan.allOk 0 (reconcileT tries (.fn (fun _ => .desired (names.map (·.d))) ch)) s = (s, some .success) :=
  quiescent_fnT tries h ch hc hv

/-- quiescence of the P&T composer, for every number of tries -/
theorem quiescent_pt_retry (tries : Nat) (s : St) (tmpl : List Desired) (names : List String) (h : SettledPT s tmpl names)
    (fresh : List String) (ver : String) (hv : s.refs = [] ∨ ver = s.refsVer)
    (hcached : ∀ r ∈ s.refs, r ∉ s.miss) :
    run sem Plan.allOk 0 (reconcileT tries (.pt tmpl fresh ver)) s = (s, some .success) :=
  QuietPT.quiescent_ptT tries h fresh ver hv hcached

/-- **A generated name is free in the cache.** The fault-free availability loop behaves as the pure
function `probePure` of the store; when it hands a name `n` to the composer, `n` is one of the drawn
candidates, fewer than `tries` candidates were drawn before it, each of those is the name of an
object of that kind the cache shows, and the cache does not show `n`: no such object exists, or it
is missing from the cache. When it gives up, `tries` candidates were all taken (or the candidates
ran out); without a fault it never fails otherwise. -/
theorem generated_name_free_in_cache (s : St) (kind : String) (tries : Nat) (fresh : List String)
    (k : Probed → List String → P) :
    run sem Plan.allOk 0 (probeName kind tries fresh k) s =
      run sem Plan.allOk 0 (k (probePure s kind tries fresh).1 (probePure s kind tries fresh).2) s ∧
    (∀ n rest, probePure s kind tries fresh = (.name n, rest) →
      ∃ skipped, fresh = skipped ++ n :: rest ∧ skipped.length < tries ∧
        (∀ x ∈ skipped, (⟨kind, x⟩ : Ref) ∉ s.miss ∧ (findObj s.objs kind x).isSome) ∧
        ((⟨kind, n⟩ : Ref) ∈ s.miss ∨ findObj s.objs kind n = none)) ∧
    (∀ rest, probePure s kind tries fresh = (.gaveUp, rest) →
      ∃ skipped, fresh = skipped ++ rest ∧ (skipped.length = tries ∨ rest = []) ∧
        (∀ x ∈ skipped, (⟨kind, x⟩ : Ref) ∉ s.miss ∧ (findObj s.objs kind x).isSome)) ∧
    (probePure s kind tries fresh).1 ≠ .failed :=
  ⟨runOk_probeName s kind k tries fresh, probePure_name tries fresh, probePure_gaveUp tries fresh,
    probePure_not_failed tries fresh⟩

/-- … and free in the store unless it is the name of an object missing from the cache: under
`FreshAvoids` the name the loop hands over is carried by no object of that kind -/
theorem generated_name_free_unless_missed (s : St) (kind : String) (tries : Nat) (fresh : List String)
    (hfm : FreshAvoids s.miss fresh) (n : String) (rest : List String)
    (h : probePure s kind tries fresh = (.name n, rest)) : findObj s.objs kind n = none := by
  obtain ⟨sk, hsk, _, _, hl⟩ := probePure_name tries fresh n rest h
  rcases hl with hm | hn
  · exact absurd rfl (hfm n (by rw [hsk]; simp) ⟨kind, n⟩ hm)
  · exact hn

/-- **At most `tries` probes.** Under every fault plan one name generation issues at most `tries`
API calls (cached Gets) — with `tries = maxTries` the "≤ 10 Gets" of the source -/
theorem at_most_tries_probes (kind : String) (a : Probed → List String → Result) (tries : Nat)
    (fresh : List String) (plan : Plan) (i : Nat) (s : St) :
    calls sem plan i (probeName kind tries fresh fun p r => .ret (a p r)) s ≤ tries :=
  probeName_calls_le kind a tries fresh plan i s

/-- **An existing composed resource keeps its identity.** A desired resource whose name has an
observed resource is rendered under the observed resource's model name — which stands for the
whole identity (namespace, name) of the composed resource: the harness shows namespaced resources
under the qualified name `<name>@<namespace>` — whatever else the function output says (e.g.
another metadata.namespace), no candidate is drawn and no probe is issued for it. This is
`cd.SetNamespace(or.Resource.GetNamespace()); cd.SetName(or.Resource.GetName())` of
FunctionComposer.Compose (skeleton entries `cd.SetNamespace`, `cd.SetName`). -/
theorem observed_identity_inherited (tries lrv : Nat) (obs : Obs) (d : Desired) (ds : List Desired) (fresh : List String)
    (acc : List Named) (k : List Named → P) (o : CObj) (h : obsLookup obs d.rname = some o) :
    renderFnT tries lrv obs (d :: ds) fresh acc k = renderFnT tries lrv obs ds fresh (⟨d, o.name, false⟩ :: acc) k := by
  simp [renderFnT, h]

/-! ### an outdated first read of the XR (lagging informer cache)

`reconcileStaleT tries m fin rv refs` is the reconcile whose first read of the XR returned an EARLIER
version (finalizer `fin`, resourceVersion `rv`, references `refs`) while the store has moved on;
later reads and all writes see the store. The P&T composer persists the references with an
`Update` that carries the resourceVersion it read, and so does `AddFinalizer`: decided from an
outdated XR the reconcile writes no reference and creates nothing. The function composer persists
them with a server-side apply that carries no resourceVersion: `stale_xr_read_fn_loses_reference_witness`
(recorded finding D35, outside the property's quantifier). -/

/-- **The rv-checked Update protects the references (P&T).** From a good store, for ANY templates,
candidate names, cache misses, number of tries and fault plan, and any outdated version of the XR
(its resourceVersion differs from the current one): at every instant of the reconcile the invariant
holds, spec.resourceRefs, the XR's resourceVersion and finalizer are exactly what they were, and no
object was created or modified — objects the outdated references point to may have been garbage
collected (removed, or marked terminating), never one controlled by someone else. -/
theorem stale_xr_read_pt_writes_no_reference (tries : Nat) (s : St) (hg : Good s) (tmpl : List Desired)
    (fresh : List String) (ver : String) (fin : Bool) (rv : Nat) (refs : List Ref) (hrv : rv ≠ s.xrRv) (plan : Plan) :
    ∀ s' ∈ reach sem plan 0 (reconcileStaleT tries (.pt tmpl fresh ver) fin rv refs) s,
      Good s' ∧ s'.refs = s.refs ∧ s'.xrRv = s.xrRv ∧ s'.xrFin = s.xrFin ∧
      (∀ o' ∈ s'.objs, ∃ o ∈ s.objs, key o' = key o ∧ (o'.deleting = false → o' = o)) ∧
      (∀ o ∈ s.objs, o.ctrl = .other → o ∈ s'.objs) := by
  intro s' hs'
  have h := reach_safe sem (StaleInv s) plan 0 _ s (StaleInv.rfl' hg)
    (safe_reconcileStaleT_pt hg tries tmpl fresh ver fin rv refs hrv) s' hs'
  refine ⟨h.sh.good hg, h.sh.refs, h.rv, h.fin, ?_, h.sh.keepForeign⟩
  intro o' ho'
  obtain ⟨o, ho, hk, _, _, hd⟩ := h.sh.sub o' ho'
  exact ⟨o, ho, hk, hd⟩

/-- a "lagging" read that returns the current version is the ordinary reconcile -/
theorem stale_read_of_current_version (tries : Nat) (m : Mode) (s : St) (plan : Plan) (k : Nat) :
    run sem plan k (reconcileStaleT tries m s.xrFin s.xrRv s.refs) s = run sem plan k (reconcileT tries m) s := by
  have hgx : sem.exec s .getXR = (s, .xr s.xrFin s.xrRv s.refs) := exec_getXR s
  have hf : sem.errResp .fail .getXR = .err := rfl
  have hc : sem.errResp .conflict .getXR = .err := rfl
  unfold reconcileStaleT reconcileT
  simp only [run, hgx, hf, hc]

/-- the outdated version: no references yet, one resourceVersion behind -/
def staleStore : St :=
  { xrFin := true, xrRv := 4, refs := [⟨"KA", "xr-x"⟩],
    objs := [⟨"KA", "xr-x", "a", .xr, false, false, 1, true⟩] }

/-- **Without the resourceVersion check a reference is lost (function composer, D35).** The store
holds the composed resource `xr-x` for "a", referenced; the reconcile is served the XR as it was
before that reference was written (`refs = []`, resourceVersion 3 instead of 4). It observes nothing,
generates `xr-y`, server-side applies the references `[xr-y]` — accepted, the apply carries no
resourceVersion — and creates `xr-y`: `xr-x` is live, controlled by the XR and unreferenced, and
"a" has two live resources. The same inputs through the P&T composer leave the store untouched
(`stale_xr_read_pt_writes_no_reference`; here by evaluation). -/
theorem stale_xr_read_fn_loses_reference_witness :
    Good staleStore ∧
    (∃ o ∈ (run sem Plan.allOk 0 (reconcileStaleT maxTries (.fn (fun _ => .desired [⟨"a", "KA", 1, true⟩]) ⟨"v1", ["xr-y"], id, id⟩) true 3 []) staleStore).1.objs,
      o.ctrl = .xr ∧ o.deleting = false ∧
      (⟨o.kind, o.name⟩ : Ref) ∉ (run sem Plan.allOk 0 (reconcileStaleT maxTries (.fn (fun _ => .desired [⟨"a", "KA", 1, true⟩]) ⟨"v1", ["xr-y"], id, id⟩) true 3 []) staleStore).1.refs) ∧
    run sem Plan.allOk 0 (reconcileStaleT maxTries (.pt [⟨"a", "KA", 1, true⟩] ["xr-y"] "v1") true 3 []) staleStore = (staleStore, some .handled) := by
  refine ⟨⟨by decide, by decide, by decide, ?_, by intro o h; cases h⟩, ?_, ?_⟩
  · intro o1 h1 o2 h2 _ _ _ _
    simp only [staleStore, List.mem_cons, List.mem_nil_iff, or_false] at h1 h2
    rw [h1, h2]
  · refine ⟨⟨"KA", "xr-x", "a", .xr, false, false, 1, true⟩, ?_, rfl, rfl, ?_⟩ <;>
    simp [run, reconcileStaleT, recContT, composeFnT, observeFn, renderFnT, probeName, maxTries, gcFn, applyFn, refsOf, nkey,
      wcall, finish, sem, exec, staleStore, findObj, obsLookup, obsInsert, mapObj, Plan.allOk, invalidContent,
      List.mergeSort, List.MergeSort.Internal.splitInTwo, refLt]
  · simp [run, reconcileStaleT, recContT, composePTT, associatePT, renderPTT, probeName, maxTries, assocLookup, wcall, onConflict,
      sem, exec, staleStore, findObj, Plan.allOk]

/-! ### regenerated call skeletons (tie to the source)

`Xp.Gen.c01Skel*` are extracted with go/ast from the current tree on every run; the right-hand sides
are declared in Model/C01.lean next to the definitions that mirror the functions, entry by entry. -/

theorem skeleton_reconcile : Xp.Gen.c01SkelReconcile = skelReconcile := by decide
theorem skeleton_handle_result : Xp.Gen.c01SkelHandleResult = skelHandleResult := by decide
theorem skeleton_fn_compose : Xp.Gen.c01SkelFnCompose = skelFnCompose := by decide
theorem skeleton_observe : Xp.Gen.c01SkelObserve = skelObserve := by decide
theorem skeleton_gc : Xp.Gen.c01SkelGC = skelGC := by decide
theorem skeleton_update_refs : Xp.Gen.c01SkelUpdateRefs = skelUpdateRefs ∧ Xp.Gen.c01RefsSortLess = skelRefsSortLess := by decide
theorem skeleton_upgrade : Xp.Gen.c01SkelUpgrade = skelUpgrade := by decide
theorem skeleton_pt_compose : Xp.Gen.c01SkelPTCompose = skelPTCompose := by decide
theorem skeleton_associate : Xp.Gen.c01SkelAssociate = skelAssociate := by decide
theorem skeleton_render_metadata : Xp.Gen.c01SkelRenderMeta = skelRenderMeta := by decide
theorem skeleton_render_from_json : Xp.Gen.c01SkelRenderFromJSON = skelRenderFromJSON := by decide
/-- the name generator: its calls, its retry bound and the shape of its loop -/
theorem skeleton_generate_name :
    Xp.Gen.c01SkelGenerateName = skelGenerateName ∧ Xp.Gen.c01NameMaxTries = maxTries ∧
    Xp.Gen.c01NameLoop = "for range maxTries" := by decide

/-- **References are persisted before any composed resource is created, and garbage collection runs
before the references are rewritten** — read off the regenerated skeletons themselves (not the
declared ones): in `FunctionComposer.Compose` the first `client.Patch` (the references) comes after
`GarbageCollectComposedResources`/`UpdateResourceRefs` and before the second `client.Patch` (the
apply loop); in `PTComposer.Compose` `client.Update` (the references) precedes the first
`client.Apply`. -/
theorem refs_persisted_before_apply_in_source :
    (Xp.Gen.c01SkelFnCompose.filter fun c => c ∈ ["composite.GenerateName", "composite.GarbageCollectComposedResources", "UpdateResourceRefs", "client.Patch", "client.Status.Patch"]) =
      ["composite.GenerateName", "composite.GarbageCollectComposedResources", "UpdateResourceRefs", "client.Patch", "client.Patch", "client.Status.Patch"] ∧
    (Xp.Gen.c01SkelPTCompose.filter fun c => c ∈ ["composition.AssociateTemplates", "composed.GenerateName", "client.Update", "client.Apply", "client.Create", "client.Patch"]) =
      ["composition.AssociateTemplates", "composed.GenerateName", "client.Update", "client.Apply", "client.Apply"] := by decide

/-! ### the declared skeletons are what the model does

`skel…A` (Model/C01.lean) annotate every skeleton entry with the API calls the mirroring model step
issues on the designated full path. Their first components are the declared skeletons (hence, by
`skeleton_*`, the regenerated ones), and their annotations, concatenated in source order with the
callee skeletons inlined, are exactly the requests the model applies on that path. -/

theorem annotated_skeletons_are_the_declared :
    skelObserveA.map (·.1) = skelObserve ∧ skelGCA.map (·.1) = skelGC ∧ skelGenerateNameA.map (·.1) = skelGenerateName ∧
    skelFnComposeA.map (·.1) = skelFnCompose ∧ skelAssociateA.map (·.1) = skelAssociate ∧
    skelPTComposeA.map (·.1) = skelPTCompose ∧ (∀ c, (skelReconcileA c).map (·.1) = skelReconcile) := by
  refine ⟨by decide, by decide, by decide, by decide, by decide, by decide, fun _ => rfl⟩

/-- function composer: the calls of the model on its full path = the annotations of
Reconcile ∘ FunctionComposer.Compose ∘ (ObserveComposedResources, GenerateName, GarbageCollect…) -/
theorem model_path_matches_skeleton_fn :
    (applied sem Plan.allOk 0 (reconcileT maxTries pathModeFn) (pathStore "KA")).map reqVerb =
      stepsOf (skelReconcileA (stepsOf skelFnComposeA)) := by
  simp [applied, reconcileT, recContT, pathModeFn, pathStore, composeFnT, observeFn, renderFnT, probeName, maxTries, gcFn,
    applyFn, refsOf, nkey, wcall, finish, sem, exec, findObj, obsLookup, obsInsert, removeObj, Plan.allOk, invalidContent,
    refLt, reqVerb, stepsOf, skelReconcileA, skelFnComposeA,
    skelObserveA, skelGenerateNameA, skelGCA]

/-- P&T composer: the same for Reconcile ∘ PTComposer.Compose ∘ (AssociateTemplates, GenerateName) -/
theorem model_path_matches_skeleton_pt :
    (applied sem Plan.allOk 0 (reconcileT maxTries pathModePT) (pathStore "KB")).map reqVerb =
      stepsOf (skelReconcileA (stepsOf skelPTComposeA)) := by
  simp [applied, reconcileT, recContT, pathModePT, pathStore, composePTT, associatePT, renderPTT, probeName, maxTries, applyPT,
    assocLookup, rkey, wcall, finish, sem, exec, findObj, removeObj, Plan.allOk, invalidContent,
    reqVerb, stepsOf, skelReconcileA, skelPTComposeA, skelAssociateA, skelGenerateNameA]

/-! ### non-vacuity: the hypotheses are met by non-trivial states and inputs -/

def settledStore : St :=
  { xrFin := true, xrRv := 3,
    refs := [⟨"KA", "xr-abc"⟩, ⟨"KB", "xr-def"⟩],
    objs := [⟨"KB", "xr-def", "b", .xr, true, false, 0, true⟩, ⟨"KA", "xr-abc", "a", .xr, false, false, 1, true⟩] }

example : Settled settledStore [⟨⟨"a", "KA", 1, true⟩, "xr-abc", false⟩, ⟨⟨"b", "KB", 0, false⟩, "xr-def", false⟩] := by
  refine ⟨⟨by decide, by decide, by decide, ?_, by intro o h; cases h⟩, rfl, by decide, by decide, by decide, by decide, ?_,
    by simp [settledStore, refsOf, nkey, List.mergeSort, List.MergeSort.Internal.splitInTwo, refLt], rfl⟩
  · intro o1 h1 o2 h2 _ _ ha _
    simp only [settledStore, List.mem_cons, List.mem_nil_iff, or_false] at h1 h2
    rcases h1 with rfl | rfl <;> rcases h2 with rfl | rfl <;> first | rfl | (simp at ha)
  · intro n hn
    simp only [List.mem_cons, List.mem_nil_iff, or_false] at hn
    rcases hn with rfl | rfl
    · exact ⟨⟨"KA", "xr-abc", "a", .xr, false, false, 1, true⟩, by decide, rfl, rfl, rfl, rfl, rfl⟩
    · exact ⟨⟨"KB", "xr-def", "b", .xr, true, false, 0, true⟩, by decide, rfl, rfl, rfl, rfl, rfl⟩

/-- two templates of different kinds; the references are in template order (not sorted); the
store also holds a bystander controlled by someone else -/
def settledStorePT : St :=
  { xrFin := true, xrRv := 5,
    refs := [⟨"KB", "xr-def"⟩, ⟨"KA", "xr-abc"⟩],
    objs := [⟨"KA", "xr-abc", "a", .xr, false, false, 1, false⟩, ⟨"KA", "other", "", .other, false, false, 4, false⟩,
      ⟨"KB", "xr-def", "b", .xr, true, false, 0, false⟩] }

def settledTmplPT : List Desired := [⟨"b", "KB", 0, false⟩, ⟨"a", "KA", 1, true⟩]

example : SettledPT settledStorePT settledTmplPT ["xr-def", "xr-abc"] := by
  refine ⟨rfl, by decide, rfl, by decide, by decide, by decide, by decide, ?_, rfl⟩
  intro p hp
  simp only [settledTmplPT, List.zip_cons_cons, List.zip_nil_right, List.mem_cons, List.mem_nil_iff, or_false] at hp
  rcases hp with rfl | rfl
  · exact ⟨⟨"KB", "xr-def", "b", .xr, true, false, 0, false⟩, by decide, rfl, rfl, rfl, rfl, rfl⟩
  · exact ⟨⟨"KA", "xr-abc", "a", .xr, false, false, 1, false⟩, by decide, rfl, rfl, rfl, rfl, rfl⟩

/-- the version hypothesis is met too, and the generator's proposals are left untouched -/
example (h : SettledPT settledStorePT settledTmplPT ["xr-def", "xr-abc"]) :
    run sem Plan.allOk 0 (reconcile (.pt settledTmplPT ["xr-new", "xr-new2"] "v1")) settledStorePT =
      (settledStorePT, some .success) :=
  quiescent_pt _ _ _ h _ _ (Or.inr rfl) (by intro r _ h; cases h)

/-- **The P&T composer is not quiescent when a composed resource is missing from the cache.** The
same settled store with `xr-def` missing from the informer cache: AssociateTemplates finds it (live
fallback), but `Apply` reads through the cache only, takes the Create branch, the API server answers
AlreadyExists, and the fault-free reconcile ends in the error epilogue (`handled`: Synced=False is
written to the XR's status) instead of `success`. No composed resource is written. -/
theorem quiescent_pt_needs_cache_witness :
    SettledPT { settledStorePT with miss := [⟨"KB", "xr-def"⟩] } settledTmplPT ["xr-def", "xr-abc"] ∧
    run sem Plan.allOk 0 (reconcile (.pt settledTmplPT [] "v1")) { settledStorePT with miss := [⟨"KB", "xr-def"⟩] } =
      ({ settledStorePT with miss := [⟨"KB", "xr-def"⟩] }, some .handled) ∧
    applied sem Plan.allOk 0 (reconcile (.pt settledTmplPT [] "v1")) { settledStorePT with miss := [⟨"KB", "xr-def"⟩] } =
      [.getXR, .getCached "KB" "xr-def", .getObj "KB" "xr-def", .getCached "KA" "xr-abc",
       .updateXR 5 "v1" [⟨"KB", "xr-def"⟩, ⟨"KA", "xr-abc"⟩],
       .getCached "KB" "xr-def", .create "KB" "xr-def" "b" 0, .statusUpdate (some 5)] := by
  refine ⟨?_, rfl, rfl⟩
  refine ⟨rfl, by decide, rfl, by decide, by decide, by decide, by decide, ?_, rfl⟩
  intro p hp
  simp only [settledTmplPT, List.zip_cons_cons, List.zip_nil_right, List.mem_cons, List.mem_nil_iff, or_false] at hp
  rcases hp with rfl | rfl
  · exact ⟨⟨"KB", "xr-def", "b", .xr, true, false, 0, false⟩, by decide, rfl, rfl, rfl, rfl, rfl⟩
  · exact ⟨⟨"KA", "xr-abc", "a", .xr, false, false, 1, false⟩, by decide, rfl, rfl, rfl, rfl, rfl⟩

/-- the function composer on its settled store with BOTH composed resources missing from the
cache: every reference is read twice (cache, then live), nothing is written, `success` -/
example : applied sem Plan.allOk 0
      (reconcile (.fn (fun _ => .desired [⟨"a", "KA", 1, true⟩, ⟨"b", "KB", 0, false⟩]) ⟨"v1", [], id, id⟩))
      { settledStore with miss := [⟨"KA", "xr-abc"⟩, ⟨"KB", "xr-def"⟩] } =
    [.getXR, .getCached "KA" "xr-abc", .getObj "KA" "xr-abc", .getCached "KB" "xr-def", .getObj "KB" "xr-def",
     .patchRefs "v1" [⟨"KA", "xr-abc"⟩, ⟨"KB", "xr-def"⟩],
     .apply "KA" "xr-abc" "a" 1, .apply "KB" "xr-def" "b" 0, .statusPatch, .statusUpdate (some 3)] := by
  simp [applied, reconcile, composeFn, observeFn, renderFn, gcFn, applyFn, refsOf, nkey, wcall, finish, sem, exec,
    settledStore, findObj, obsLookup, obsInsert, mapObj, Plan.allOk, invalidContent,
    List.mergeSort, List.MergeSort.Internal.splitInTwo, refLt]

/-! ### the hypothesis on generated names is necessary

`xr-x` is the XR's composed resource for "a"; `xr-z` is an unreferenced, uncontrolled left-over that
is missing from the informer cache. Reconcile 1 wants a new resource "c", the generator proposes
`xr-z`, the cache says the name is free, the references `[xr-x, xr-z]` are persisted, and the
process dies. Reconcile 2 (nothing missing from the cache, a really fresh name) observes both
objects under the name "a", keeps the later one, and drops `xr-x` from the references: a leak. -/

def collideStore : St :=
  { xrFin := true, xrRv := 1,
    refs := [⟨"KA", "xr-x"⟩],
    objs := [⟨"KA", "xr-x", "a", .xr, false, false, 1, true⟩, ⟨"KA", "xr-z", "a", .none, false, false, 0, false⟩] }

def collideOut : Obs → FnOut := fun obs =>
  if (obsLookup obs "a").all (·.kind = "KA") ∧ (obsLookup obs "c").all (·.kind = "KA")
  then .desired [⟨"a", "KA", 1, true⟩, ⟨"c", "KA", 0, true⟩] else .failed

def collideHistory : List (List Ref × Plan × Mode) :=
  [([⟨"KA", "xr-z"⟩], Plan.at 3 .crashAfter, .fn collideOut ⟨"v1", ["xr-z"], id, id⟩),
   ([], Plan.allOk, .fn collideOut ⟨"v1", ["xr-n"], id, id⟩)]

theorem collideOut_ok : OutOK collideOut := by
  refine ⟨?_, ?_⟩
  · intro obs ds h
    unfold collideOut at h
    split at h
    · simp only [FnOut.desired.injEq] at h; subst h; decide
    · cases h
  · intro obs ds h d hd o hl
    unfold collideOut at h
    split at h
    · rename_i hc
      simp only [FnOut.desired.injEq] at h; subst h
      simp only [List.mem_cons, List.mem_nil_iff, or_false] at hd
      rcases hd with rfl | rfl
      · have := hc.1; simp [hl] at this; exact this
      · have := hc.2; simp [hl] at this; exact this
    · cases h

/-- **Without `FreshAvoids` NoLeak fails.** Every hypothesis of
`invariant_every_history_every_miss_set` holds of `collideHistory` except that the name generated in
the first reconcile is the name of an object missing from the cache; the history ends in a store
with a live composed resource controlled by the XR that spec.resourceRefs does not list. -/
theorem fresh_names_must_avoid_cache_misses_witness :
    Good collideStore ∧
    (∀ x ∈ collideHistory, match x.2.2 with
      | .fn out ch => OutOK out ∧ ChOK ch
      | .pt tmpl fresh _ => TmplOK tmpl fresh) ∧
    ¬ FreshAvoids [⟨"KA", "xr-z"⟩] ["xr-z"] ∧ FreshAvoids [] ["xr-n"] ∧
    ∃ s' ∈ reachRounds collideHistory collideStore, ∃ o ∈ s'.objs,
      o.ctrl = .xr ∧ o.deleting = false ∧ (⟨o.kind, o.name⟩ : Ref) ∉ s'.refs := by
  refine ⟨?_, ?_, ?_, FreshAvoids.nil _, ?_⟩
  · refine ⟨by decide, by decide, by decide, ?_, by intro o h; cases h⟩
    intro o1 h1 o2 h2 k1 k2 _ _
    simp only [collideStore, List.mem_cons, List.mem_nil_iff, or_false] at h1 h2 k1 k2
    rcases h1 with rfl | rfl <;> rcases h2 with rfl | rfl <;> first | rfl | (simp [key] at k1 k2)
  · intro x hx
    simp only [collideHistory, List.mem_cons, List.mem_nil_iff, or_false] at hx
    rcases hx with rfl | rfl
    · exact ⟨collideOut_ok, by decide, fun _ _ => Iff.rfl, fun _ _ => Iff.rfl⟩
    · exact ⟨collideOut_ok, by decide, fun _ _ => Iff.rfl, fun _ _ => Iff.rfl⟩
  · intro h; exact h "xr-z" (by simp) ⟨"KA", "xr-z"⟩ (by simp) rfl
  · refine ⟨_, runRounds_mem_reachRounds collideHistory collideStore, ⟨"KA", "xr-x", "a", .xr, false, false, 1, true⟩, ?_, rfl, rfl, ?_⟩
    · simp [runRounds, collideHistory, collideStore, collideOut, run, Plan.at, Plan.allOk, reconcile, composeFn, observeFn,
        renderFn, gcFn, applyFn, refsOf, nkey, wcall, finish, sem, exec, findObj, obsLookup, obsInsert, mapObj,
        invalidContent, List.mergeSort, List.MergeSort.Internal.splitInTwo, refLt]
    · simp [runRounds, collideHistory, collideStore, collideOut, run, Plan.at, Plan.allOk, reconcile, composeFn, observeFn,
        renderFn, gcFn, applyFn, refsOf, nkey, wcall, finish, sem, exec, findObj, obsLookup, obsInsert, mapObj,
        invalidContent, List.mergeSort, List.MergeSort.Internal.splitInTwo, refLt]

/-- an XR with one live composed resource `xr-abc` for name "a", one terminating for "b" -/
def exampleStore : St :=
  { xrFin := true, xrRv := 7,
    refs := [⟨"KA", "xr-abc"⟩, ⟨"KB", "xr-def"⟩],
    objs := [⟨"KA", "xr-abc", "a", .xr, false, false, 1, true⟩, ⟨"KB", "xr-def", "b", .xr, true, true, 0, true⟩] }

example : Good exampleStore := by
  refine ⟨by decide, by decide, by decide, ?_, by intro o h; cases h⟩
  intro o1 h1 o2 h2 _ _ ha _
  simp only [exampleStore, List.mem_cons, List.mem_nil_iff, or_false] at h1 h2
  rcases h1 with rfl | rfl <;> rcases h2 with rfl | rfl <;> first | rfl | (simp at ha)

/-- a pipeline that desires "a" (kept) and a new "c", drops "b" -/
def exampleOut : Obs → FnOut := fun _ => .desired [⟨"a", "KA", 2, true⟩, ⟨"c", "KA", 0, false⟩]

/-- `xr-abc` is missing from the cache; the generated name `xr-new` is not the name of a missed object -/
example : ModeOK [⟨"KA", "xr-abc"⟩] (.fn (fun obs => if (obsLookup obs "a").all (·.kind = "KA") ∧ (obsLookup obs "c").all (·.kind = "KA")
    then exampleOut obs else .failed) ⟨"v1", ["xr-new"], id, id⟩) := by
  refine ⟨⟨?_, ?_⟩, ⟨by decide, fun _ _ => Iff.rfl, fun _ _ => Iff.rfl⟩, by unfold FreshAvoids; decide⟩
  · intro obs ds h
    split at h
    · simp only [exampleOut, FnOut.desired.injEq] at h; subst h; decide
    · cases h
  · intro obs ds h d hd o hl
    split at h
    · rename_i hc
      simp only [exampleOut, FnOut.desired.injEq] at h; subst h
      simp only [List.mem_cons, List.mem_nil_iff, or_false] at hd
      rcases hd with rfl | rfl
      · have := hc.1; simp [hl] at this; exact this
      · have := hc.2; simp [hl] at this; exact this
    · cases h

example : ModeOK [⟨"KA", "xr-abc"⟩, ⟨"KB", "xr-def"⟩] (.pt [⟨"a", "KA", 2, true⟩, ⟨"c", "KA", 0, false⟩] ["xr-new"]) :=
  ⟨⟨by decide, by decide⟩, by unfold FreshAvoids; decide⟩

/-! ### the retry loop at work -/

/-- `xr-abc` exists (for "a", kind KA) and the cache shows it; "c" (kind KA) needs a name -/
def retryStore : St :=
  { xrFin := true, xrRv := 2, refs := [⟨"KA", "xr-abc"⟩],
    objs := [⟨"KA", "xr-abc", "a", .xr, false, false, 1, true⟩] }

def retryOut : Obs → FnOut := fun _ => .desired [⟨"a", "KA", 1, true⟩, ⟨"c", "KA", 0, true⟩]

/-- the generator first draws the taken name `xr-abc`, then `xr-new`: with `maxTries` tries the
second candidate is probed and used; the composition succeeds -/
example : applied sem Plan.allOk 0 (reconcileT maxTries (.fn retryOut ⟨"v1", ["xr-abc", "xr-new"], id, id⟩)) retryStore =
    [.getXR, .getCached "KA" "xr-abc", .getCached "KA" "xr-abc", .getCached "KA" "xr-new",
     .patchRefs "v1" [⟨"KA", "xr-abc"⟩, ⟨"KA", "xr-new"⟩],
     .apply "KA" "xr-abc" "a" 1, .apply "KA" "xr-new" "c" 0, .statusPatch, .statusUpdate (some 3)] := by
  simp [applied, reconcileT, recContT, composeFnT, observeFn, renderFnT, probeName, maxTries, gcFn, applyFn, refsOf, nkey, wcall, finish, sem, exec,
    retryStore, retryOut, findObj, obsLookup, obsInsert, mapObj, Plan.allOk, invalidContent,
    List.mergeSort, List.MergeSort.Internal.splitInTwo, refLt]

/-- with ONE try (`reconcile`) the same inputs end in the error epilogue after the first probe -/
example : applied sem Plan.allOk 0 (reconcile (.fn retryOut ⟨"v1", ["xr-abc", "xr-new"], id, id⟩)) retryStore =
    [.getXR, .getCached "KA" "xr-abc", .getCached "KA" "xr-abc", .statusUpdate (some 2)] := by
  simp [applied, reconcile, composeFn, observeFn, renderFn, onError, onErrorO, sem, exec,
    retryStore, retryOut, findObj, obsLookup, obsInsert, Plan.allOk]

/-- the hypotheses of the retry theorems are met by this store and these inputs -/
example : Good retryStore ∧ probePure retryStore "KA" maxTries ["xr-abc", "xr-new"] = (.name "xr-new", []) := by
  refine ⟨⟨by decide, by decide, by decide, ?_, by intro o h; cases h⟩, by decide⟩
  intro o1 h1 o2 h2 _ _ _ _
  simp only [retryStore, List.mem_cons, List.mem_nil_iff, or_false] at h1 h2
  rw [h1, h2]

/-- eleven taken candidates: the generator gives up after ten probes -/
example : (probePure retryStore "KA" maxTries (List.replicate 11 "xr-abc")).1 = .gaveUp ∧
    (probePure retryStore "KA" maxTries (List.replicate 11 "xr-abc")).2 = ["xr-abc"] := by decide

end Xp.C01

import Xp.Proofs.C01PT
import Xp.Proofs.C01Quiet
import Xp.Proofs.C01QuietPT
/-
C01 — composed resources are never leaked or duplicated, whatever fails mid-reconcile.

The model (Xp/Model/C01.lean) is `Reconciler.Reconcile` with the function composer or
the P&T composer (named templates), call by call, over an abstract API server; a
reconcile runs under an arbitrary fault plan (`Plan`: every call index × {ok, error,
conflict, crash before, crash after}). `reach` is the list of all stores visible at
any instant of that run. The invariant `Good` packs: object keys are unique and
named, NoLeak, and "referenced objects have pairwise distinct composition resource
names" (needed because both composers key their observations by that name).
-/
namespace Xp.C01

/-- what a reconcile is allowed to assume about its nondeterministic inputs -/
def ModeOK : Mode → Prop
  | .fn out ch => OutOK out ∧ ChOK ch     -- the function output is a map with stable kinds (H1); names generated are non-empty; loop orders enumerate their map
  | .pt tmpl fresh _ => TmplOK tmpl fresh   -- template names are distinct; names generated are non-empty

theorem safe_reconcile {s : St} (hg : Good s) (m : Mode) (hm : ModeOK m) : Safe sem Good (reconcile m) s := by
  cases m with
  | fn out ch => exact safe_reconcile_fn hg out ch hm.1 hm.2
  | pt tmpl fresh ver => exact safe_reconcile_pt hg tmpl fresh ver hm

/-- **At every instant** of a reconcile — after any prefix of its API calls, under any
fault plan (error, conflict, crash before / after the call took effect at any call
index), for every function output / template list, every generated name and every map
iteration order — the invariant holds. -/
theorem invariant_every_instant (s : St) (hg : Good s) (m : Mode) (hm : ModeOK m) (plan : Plan) :
    ∀ s' ∈ reach sem plan 0 (reconcile m) s, Good s' :=
  reach_safe sem Good plan 0 (reconcile m) s hg (safe_reconcile hg m hm)

/-- NoLeak, spelled out: every live composed resource controlled by the XR is listed in
spec.resourceRefs at every instant, including right after a crash or failed call. -/
theorem noLeak_every_instant (s : St) (hg : Good s) (m : Mode) (hm : ModeOK m) (plan : Plan) :
    ∀ s' ∈ reach sem plan 0 (reconcile m) s, ∀ o ∈ s'.objs,
      o.ctrl = .xr → o.deleting = false → (⟨o.kind, o.name⟩ : Ref) ∈ s'.refs := by
  intro s' hs' o ho hc hd
  exact (invariant_every_instant s hg m hm plan s' hs').noLeak o ho hc hd

/-- At most one live composed resource per desired resource name, at every instant. -/
theorem at_most_one_per_name_every_instant (s : St) (hg : Good s) (m : Mode) (hm : ModeOK m) (plan : Plan) :
    ∀ s' ∈ reach sem plan 0 (reconcile m) s, ∀ o1 ∈ s'.objs, ∀ o2 ∈ s'.objs,
      o1.ctrl = .xr → o1.deleting = false → o2.ctrl = .xr → o2.deleting = false →
      o1.annot = o2.annot → o1.annot ≠ "" → o1 = o2 := by
  intro s' hs' o1 h1 o2 h2 c1 d1 c2 d2 ha hne
  have hg' := invariant_every_instant s hg m hm plan s' hs'
  exact hg'.obsUniq o1 h1 o2 h2 (hg'.noLeak o1 h1 c1 d1) (hg'.noLeak o2 h2 c2 d2) ha hne

/-- No API call ever renames an object: whatever is in the store after a call is either
an object that was there before under the same kind/name, or a newly created one. -/
theorem objects_never_renamed (s : St) (r : Req) :
    ∀ o' ∈ (exec s r).1.objs, (∃ o ∈ s.objs, key o = key o') ∨ findObj s.objs o'.kind o'.name = none := by
  intro o' ho'
  by_cases h : ∃ o ∈ s.objs, key o = key o'
  · exact Or.inl h
  · right
    cases hf : findObj s.objs o'.kind o'.name with
    | none => rfl
    | some o =>
      obtain ⟨hm, hk, hn⟩ := findObj_some hf
      exact absurd ⟨o, hm, by simp [key, hk, hn]⟩ h

/-- The same for every finite history of faulty reconciles (each with its own plan,
function output, names and orders), with controller-local state lost in between
(restart / requeue): the invariant holds at every instant of the whole history. -/
theorem invariant_every_history (h : List (Plan × Mode)) (hok : ∀ pm ∈ h, ModeOK pm.2) (s : St) (hg : Good s) :
    ∀ s' ∈ reachHistory sem (h.map fun pm => (pm.1, reconcile pm.2)) s, Good s' := by
  induction h generalizing s with
  | nil => intro s' hs'; simp [reachHistory] at hs'; subst hs'; exact hg
  | cons pm rest ih =>
    intro s' hs'
    simp only [List.map_cons, reachHistory, List.mem_append] at hs'
    have hm := hok pm (List.mem_cons_self ..)
    rcases hs' with hs' | hs'
    · exact invariant_every_instant s hg pm.2 hm pm.1 s' hs'
    · apply ih (fun x hx => hok x (List.mem_cons_of_mem _ hx)) _ _ s' hs'
      exact invariant_every_instant s hg pm.2 hm pm.1 _ (run_mem_reach sem pm.1 0 (reconcile pm.2) s)

/-- **Quiescence** (function pipeline). Once the composed state matches the desired state —
every desired resource has its object with the desired content under the XR's control and
field manager, and spec.resourceRefs is exactly the sorted list of those objects — a
fault-free reconcile, in whatever order it iterates its maps, succeeds and changes no
object: the store it leaves is identical (references, objects, the XR's resourceVersion).
(The P&T composer: `quiescent_pt` below.) -/
theorem quiescent (s : St) (names : List Named) (h : Settled s names) (ch : Choices) (hc : ChOK ch)
    (hv : ch.ver = s.refsVer) :
    run sem Plan.allOk 0 (reconcile (.fn (fun _ => .desired (names.map (·.d))) ch)) s = (s, some .success) :=
  quiescent_fn h ch hc hv

/-- **Quiescence** (patch-and-transform templates). Once the composed state matches the
templates — every template has its object (right kind, the referenced name, annotated with
the template name, controlled by the XR, content as rendered) and spec.resourceRefs is exactly
the list of those objects in template order, in the API version the composition emits — a
fault-free reconcile succeeds and changes no object: the store it leaves is identical
(references, objects, the XR's resourceVersion), whatever names `fresh` the generator would
propose (none is probed or consumed). -/
theorem quiescent_pt (s : St) (tmpl : List Desired) (names : List String) (h : SettledPT s tmpl names)
    (fresh : List String) (ver : String) (hv : s.refs = [] ∨ ver = s.refsVer) :
    run sem Plan.allOk 0 (reconcile (.pt tmpl fresh ver)) s = (s, some .success) :=
  QuietPT.quiescent_pt h fresh ver hv

/-! ### non-vacuity: the hypotheses are met by non-trivial states and inputs -/

def settledStore : St :=
  { xrFin := true, xrRv := 3,
    refs := [⟨"KA", "xr-abc"⟩, ⟨"KB", "xr-def"⟩],
    objs := [⟨"KB", "xr-def", "b", .xr, true, false, 0, true⟩, ⟨"KA", "xr-abc", "a", .xr, false, false, 1, true⟩] }

example : Settled settledStore [⟨⟨"a", "KA", 1, true⟩, "xr-abc", false⟩, ⟨⟨"b", "KB", 0, false⟩, "xr-def", false⟩] := by
  refine ⟨⟨by decide, by decide, by decide, ?_, by intro o h; cases h⟩, rfl, by decide, by decide, by decide, by decide, ?_,
    by simp [settledStore, refsOf, nkey, List.mergeSort, List.MergeSort.Internal.splitInTwo, refLt], rfl⟩
  · intro o1 h1 o2 h2 _ _ ha _
    simp only [settledStore, List.mem_cons, List.mem_nil_iff, or_false] at h1 h2
    rcases h1 with rfl | rfl <;> rcases h2 with rfl | rfl <;> first | rfl | (simp at ha)
  · intro n hn
    simp only [List.mem_cons, List.mem_nil_iff, or_false] at hn
    rcases hn with rfl | rfl
    · exact ⟨⟨"KA", "xr-abc", "a", .xr, false, false, 1, true⟩, by decide, rfl, rfl, rfl, rfl, rfl⟩
    · exact ⟨⟨"KB", "xr-def", "b", .xr, true, false, 0, true⟩, by decide, rfl, rfl, rfl, rfl, rfl⟩

/-- two templates of different kinds; the references are in template order (not sorted); the
store also holds a bystander controlled by someone else -/
def settledStorePT : St :=
  { xrFin := true, xrRv := 5,
    refs := [⟨"KB", "xr-def"⟩, ⟨"KA", "xr-abc"⟩],
    objs := [⟨"KA", "xr-abc", "a", .xr, false, false, 1, false⟩, ⟨"KA", "other", "", .other, false, false, 4, false⟩,
      ⟨"KB", "xr-def", "b", .xr, true, false, 0, false⟩] }

def settledTmplPT : List Desired := [⟨"b", "KB", 0, false⟩, ⟨"a", "KA", 1, true⟩]

example : SettledPT settledStorePT settledTmplPT ["xr-def", "xr-abc"] := by
  refine ⟨rfl, by decide, rfl, by decide, by decide, by decide, by decide, ?_, rfl⟩
  intro p hp
  simp only [settledTmplPT, List.zip_cons_cons, List.zip_nil_right, List.mem_cons, List.mem_nil_iff, or_false] at hp
  rcases hp with rfl | rfl
  · exact ⟨⟨"KB", "xr-def", "b", .xr, true, false, 0, false⟩, by decide, rfl, rfl, rfl, rfl, rfl⟩
  · exact ⟨⟨"KA", "xr-abc", "a", .xr, false, false, 1, false⟩, by decide, rfl, rfl, rfl, rfl, rfl⟩

/-- the version hypothesis is met too, and the generator's proposals are left untouched -/
example (h : SettledPT settledStorePT settledTmplPT ["xr-def", "xr-abc"]) :
    run sem Plan.allOk 0 (reconcile (.pt settledTmplPT ["xr-new", "xr-new2"] "v1")) settledStorePT =
      (settledStorePT, some .success) :=
  quiescent_pt _ _ _ h _ _ (Or.inr rfl)

/-- an XR with one live composed resource `xr-abc` for name "a", one terminating for "b" -/
def exampleStore : St :=
  { xrFin := true, xrRv := 7,
    refs := [⟨"KA", "xr-abc"⟩, ⟨"KB", "xr-def"⟩],
    objs := [⟨"KA", "xr-abc", "a", .xr, false, false, 1, true⟩, ⟨"KB", "xr-def", "b", .xr, true, true, 0, true⟩] }

example : Good exampleStore := by
  refine ⟨by decide, by decide, by decide, ?_, by intro o h; cases h⟩
  intro o1 h1 o2 h2 _ _ ha _
  simp only [exampleStore, List.mem_cons, List.mem_nil_iff, or_false] at h1 h2
  rcases h1 with rfl | rfl <;> rcases h2 with rfl | rfl <;> first | rfl | (simp at ha)

/-- a pipeline that desires "a" (kept) and a new "c", drops "b" -/
def exampleOut : Obs → FnOut := fun _ => .desired [⟨"a", "KA", 2, true⟩, ⟨"c", "KA", 0, false⟩]

example : ModeOK (.fn (fun obs => if (obsLookup obs "a").all (·.kind = "KA") ∧ (obsLookup obs "c").all (·.kind = "KA")
    then exampleOut obs else .failed) ⟨"v1", ["xr-new"], id, id⟩) := by
  refine ⟨⟨?_, ?_⟩, ⟨by decide, fun _ _ => Iff.rfl, fun _ _ => Iff.rfl⟩⟩
  · intro obs ds h
    split at h
    · simp only [exampleOut, FnOut.desired.injEq] at h; subst h; decide
    · cases h
  · intro obs ds h d hd o hl
    split at h
    · rename_i hc
      simp only [exampleOut, FnOut.desired.injEq] at h; subst h
      simp only [List.mem_cons, List.mem_nil_iff, or_false] at hd
      rcases hd with rfl | rfl
      · have := hc.1; simp [hl] at this; exact this
      · have := hc.2; simp [hl] at this; exact this
    · cases h

example : ModeOK (.pt [⟨"a", "KA", 2, true⟩, ⟨"c", "KA", 0, false⟩] ["xr-new"]) :=
  ⟨by decide, by decide⟩

end Xp.C01

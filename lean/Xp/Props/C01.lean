import Xp.Model.C01
namespace Xp.C01
theorem placeholder : True := trivial
end Xp.C01

import Xp.Proofs.C15
import Xp.Proofs.C15Ext
import Xp.Proofs.C15Tee
import Xp.Proofs.C15Split
import Xp.Model.C15Skel
/-
C15 — a package revision installs exactly what its image declares, and only
permitted kinds.

Only the property theorems (and examples showing their hypotheses are met by
non-trivial states).  `fixed = true` (the tree with fixes/D6.diff and fixes/D18.diff)
everywhere except in the three `…_fails_on_unfixed_…witness` theorems, which exhibit
defects D6 and D18 on the model of the pinned (unrepaired) code.

Vocabulary (Xp/Proofs/C15.lean):
  `EntryOK r e`  – cache entry `e` is revision `r`'s full package stream, or a file
                   that cannot be read to EOF (truncated / corrupt gzip);
  `Inv revs c`   – every entry a revision of `revs` would find under the id it looks
                   up (`Has`) is `EntryOK` for it;
  `Compat revs`  – revisions whose cache paths coincide carry the same image.

The theorems are per call (`recStep`, `sigStep`) and per history (`World.run`); the
controllers of the real run are long-lived (one revision reconciler, one signature
reconciler, one parser, linter, image backend per package type, one cache), so any state
they carry from one call to the next shows as a difference to this per-call model.
A fault plan `f : Faults` also fixes the class of every API error (`getE`, `fin`, `upd`,
`stat`, `estConflict`) and what a third party did to the revision between the reconciler's
read and its first write (`env`; equivalently a stale cached read).  All theorems
quantify over all of it.
-/
namespace Xp.C15

/-! ### table obligations: the real linters accept nothing the specification forbids -/

/-- Every object kind and every meta kind the three real linters accept (tables
`Xp.Gen.c15*Kinds`, regenerated from the tree by running the real parser and the real
linters on one probe per scheme kind) is allowed for that package type by
contributing/specifications/xpkg.md.  False on the pinned tree for Function packages
(D7: `NewFunctionLinter` has no object linter). -/
theorem lint_tables_within_spec (t : PType) :
    (lintObjKinds t).all (fun k => (specObjKinds t).contains k) = true ∧
    (lintMetaKinds t).all (fun k => (specMetaKinds t).contains k) = true := by
  cases t <;> decide

/-- A package the real linter of its type passes is installable as the specification words it. -/
theorem lint_within_spec (t : PType) (p : Pkg) (h : lint t p = true) : specOK t p = true := by
  have ⟨ho, hm⟩ := lint_tables_within_spec t
  have ho' := List.all_eq_true.mp ho
  have hm' := List.all_eq_true.mp hm
  simp only [lint, Bool.and_eq_true, List.all_eq_true] at h
  simp only [specOK, Bool.and_eq_true, List.all_eq_true]
  obtain ⟨⟨h1, h2⟩, h3⟩ := h
  refine ⟨⟨h1, ?_⟩, ?_⟩
  · intro m hmm
    have := h2 m hmm
    exact ⟨hm' _ (by simpa using this.1), this.2⟩
  · intro o hoo
    exact ho' _ (by simpa using h3 o hoo)

/-! ### the linters as lint.go composes them

The reconciler model lints with `lintS`, computed from the composition of the three
constructors (`Xp.Gen.c15Lint*`, read from the source by go/ast) and the per-check acceptance
tables (`Xp.Gen.c15CheckAccepts`, every exported check called on every scheme kind). -/

/-- Table obligation: every linter has object checks, and what its checks accept – on objects
and on meta objects – is allowed by the specification.  False when a linter loses its object
checks (D7) or an `Or` gains a member that accepts a foreign kind. -/
theorem lint_structure_within_spec (t : PType) :
    objFnsWithin t (specObjKinds t) = true ∧ metaFnsWithin t (specMetaKinds t) = true ∧
    lintPkgFns t = ["OneMeta"] ∧ (lintMetaFns t).contains "PackageValidSemver" = true := by
  cases t <;> decide

/-- The composition read from the source and the whole-linter probe (real parser + real linter
on one stream per scheme kind) agree on every kind of the two schemes: two independent
readings of lint.go. -/
theorem lint_structure_matches_probe (t : PType) :
    Xp.Gen.c15ObjectKinds.all (fun k => objKindOk t k == (lintObjKinds t).contains k) = true ∧
    Xp.Gen.c15MetaKinds.all (fun k => metaKindOk t k == (lintMetaKinds t).contains k) = true := by
  cases t <;> decide

/-- A package the structural linter passes – ANY kinds, not only scheme kinds – is installable
as the specification words it. -/
theorem lintS_within_spec (t : PType) (p : Pkg) (h : lintS t p = true) : specOK t p = true := by
  obtain ⟨ho, hm, hp, hv⟩ := lint_structure_within_spec t
  simp only [lintS, Bool.and_eq_true, List.all_eq_true] at h
  obtain ⟨⟨h1, h2⟩, h3⟩ := h
  simp only [specOK, Bool.and_eq_true, List.all_eq_true]
  refine ⟨⟨?_, ?_⟩, ?_⟩
  · have := h1 "OneMeta" (by rw [hp]; simp)
    simpa [pkgCheck] using this
  · intro m hmm
    have hall : (lintMetaFns t).all (fun fn => metaCheck fn m) = true := List.all_eq_true.mpr (h2 m hmm)
    refine ⟨metaKindOk_within t _ hm m hall, ?_⟩
    have hpv := (List.all_eq_true.mp hall) "PackageValidSemver" (by simpa using hv)
    simp only [metaCheck, Bool.and_eq_true] at hpv
    simpa using hpv.2
  · intro o hoo
    exact objKindOk_within t _ ho o.gvk (h3 o hoo)

/-! ### installed = declared -/

/-- Whenever `Establish` is reached, its object list is exactly the object list of the
full package stream of the image – whether the content came from the cache or from the
registry, for every cache state allowed by the invariant (cold, warm, truncated/corrupt
entry) and every fault plan (source failing at any byte, `Store` failing at any byte seen
or unseen by the parser, failing `Get`, failing `Delete`, failing `Update`/`Establish`). -/
theorem installed_eq_declared (feature : Bool) (r : Rev) (f : Faults) (c : Cache) (st : RevSt)
    (hinv : ∀ e, c r.id = some e → EntryOK r e) (objs : List Obj)
    (h : (recStep true feature r f c st).2.2.est = some objs) :
    ∃ p, parse r.docs = some p ∧ objs = p.objs := by
  obtain ⟨_, _, _, p, hf, ho, _⟩ := recStep_est feature r f c st objs h
  exact ⟨p, fetch_parsed r f c hinv p hf, ho⟩

/-- What one establish of a history must satisfy. -/
def Installs (revs : List Rev) (s : Step) (o : Out) : Prop :=
  ∀ objs, o.est = some objs →
    ∃ r p, revs[s.idx]? = some r ∧ parse r.docs = some p ∧ objs = p.objs ∧
      specOK r.ptype p = true ∧ (r.ignore = true ∨ compatible p = true)

/-- The same over all histories: in every history of reconciles (of any of the
revisions, in any order, each under its own fault plan, interleaved with signature
reconciles, activations, deactivations and deletions) that starts from a cache
satisfying the invariant, every `Establish` installs exactly the declared objects of a
package that is installable per the specification and compatible with the running
Crossplane version (unless told to ignore that). -/
theorem installed_eq_declared_history (feature : Bool) (revs : List Rev) (hc : Compat revs)
    (w : World) (hinv : Inv revs w.cache) (steps : List Step) :
    ∀ so ∈ steps.zip (World.run true feature revs w steps).2, Installs revs so.1 so.2 := by
  apply run_forall feature revs hc (Installs revs) _ steps w hinv
  intro w hw s objs hest
  cases s with
  | configs cfgs => simp only [World.step] at hest; cases hest
  | verify i sf =>
    simp only [World.step] at hest
    split at hest <;> cases hest
  | reconcile i active deleted f =>
    simp only [World.step] at hest
    split at hest
    · rename_i r st hr hst
      dsimp only at hest
      obtain ⟨_, _, _, p, hf, ho, hl, hcmp, _⟩ := recStep_est feature r f w.cache _ objs hest
      have hmem : r ∈ revs := List.mem_of_getElem? hr
      exact ⟨r, p, hr, fetch_parsed r f w.cache (hw r hmem) p hf, ho, lintS_within_spec _ _ hl, hcmp⟩
    · cases hest

/-- The cache invariant holds after every prefix of every history: an entry that `Has`
reports is the full package stream (or is unreadable, so that nothing is ever installed
from it). -/
theorem cache_entry_complete (feature : Bool) (revs : List Rev) (hc : Compat revs)
    (w : World) (hinv : Inv revs w.cache) (steps : List Step) (n : Nat) :
    Inv revs (World.run true feature revs w (steps.take n)).1.cache :=
  run_inv feature revs hc (steps.take n) w hinv

/-- … in particular a single reconcile, under every fault plan, leaves under the
revision's own name nothing but the full stream or an unreadable file. -/
theorem cache_entry_complete_step (feature : Bool) (r : Rev) (f : Faults) (c : Cache) (st : RevSt)
    (hinv : ∀ e, c r.key = some e → EntryOK r e) :
    ∀ e, (recStep true feature r f c st).1 r.key = some e → EntryOK r e := by
  intro e he
  rcases recStep_cache feature r f c st r.key with h1 | h1 | ⟨_, _, e', he', hok⟩
  · rw [h1] at he; exact hinv e he
  · rw [h1] at he; cases he
  · rw [he'] at he; cases he; exact hok

/-! ### schedules: reconciles sharing the cache do not interfere -/

/-- A reconcile touches no cache path but the two of its own revision (that of its name,
that of its source), under every fault plan. -/
theorem reconcile_frame (fixed feature : Bool) (r : Rev) (f : Faults) (c : Cache) (st : RevSt) (k : String)
    (h1 : k ≠ r.key) (h2 : k ≠ r.id) : (recStep fixed feature r f c st).1 k = c k :=
  recStep_frame fixed feature r f c st k h1 h2

/-- Reconciles of two revisions whose cache paths are disjoint commute: either order gives
the same outcomes, the same revision states and the same cache.  (`FsPackageCache`
serialises `Get`/`Store`/`Delete` with a mutex and controller-runtime never reconciles one
revision concurrently with itself, so every concurrent schedule of two reconciles is
equivalent to one of the two sequential orders.) -/
theorem reconciles_commute (fixed feature : Bool) (r1 r2 : Rev) (f1 f2 : Faults) (c : Cache) (st1 st2 : RevSt)
    (d1 : r1.key ≠ r2.key) (d2 : r1.key ≠ r2.id) (d3 : r1.id ≠ r2.key) (d4 : r1.id ≠ r2.id) :
    (recStep fixed feature r1 f1 c st1).2 = (recStep fixed feature r1 f1 (recStep fixed feature r2 f2 c st2).1 st1).2 ∧
    (recStep fixed feature r2 f2 c st2).2 = (recStep fixed feature r2 f2 (recStep fixed feature r1 f1 c st1).1 st2).2 ∧
    ∀ k, (recStep fixed feature r2 f2 (recStep fixed feature r1 f1 c st1).1 st2).1 k =
         (recStep fixed feature r1 f1 (recStep fixed feature r2 f2 c st2).1 st1).1 k := by
  have fr1 := fun k => recStep_frame fixed feature r1 f1 c st1 k
  have fr2 := fun k => recStep_frame fixed feature r2 f2 c st2 k
  have l1 := recStep_local fixed feature r1 f1 c (recStep fixed feature r2 f2 c st2).1 st1
    (fr2 r1.id d3 d4).symm (fr2 r1.key d1 d2).symm
  have l2 := recStep_local fixed feature r2 f2 c (recStep fixed feature r1 f1 c st1).1 st2
    (fr1 r2.id (Ne.symm d2) (Ne.symm d4)).symm (fr1 r2.key (Ne.symm d1) (Ne.symm d3)).symm
  refine ⟨l1.1, l2.1, ?_⟩
  intro k
  by_cases h1 : k = r1.key
  · subst h1
    rw [recStep_frame fixed feature r2 f2 _ st2 _ d1 d2]
    exact l1.2.2
  · by_cases h2 : k = r1.id
    · subst h2
      rw [recStep_frame fixed feature r2 f2 _ st2 _ d3 d4]
      exact l1.2.1
    · rw [recStep_frame fixed feature r1 f1 _ st1 k h1 h2]
      by_cases h3 : k = r2.key
      · subst h3; exact l2.2.2.symm
      · by_cases h4 : k = r2.id
        · subst h4; exact l2.2.1.symm
        · rw [recStep_frame fixed feature r2 f2 _ st2 k h3 h4, recStep_frame fixed feature r2 f2 _ st2 k h3 h4]
          exact fr1 k h1 h2

/-! ### gates -/

/-- A package whose stream does not parse, has no or several meta objects, a meta of
another type, malformed constraints, or an object of a kind the specification does not
allow for the revision's type, is never established. -/
theorem lint_gate (feature : Bool) (r : Rev) (f : Faults) (c : Cache) (st : RevSt)
    (hinv : ∀ e, c r.id = some e → EntryOK r e)
    (hbad : ∀ p, parse r.docs = some p → specOK r.ptype p = false) :
    (recStep true feature r f c st).2.2.est = none := by
  cases hest : (recStep true feature r f c st).2.2.est with
  | none => rfl
  | some objs =>
    obtain ⟨_, _, _, p, hf, _, hl, _⟩ := recStep_est feature r f c st objs hest
    have := hbad p (fetch_parsed r f c hinv p hf)
    rw [lintS_within_spec _ _ hl] at this
    cases this

/-- A package whose Crossplane version constraints exclude the running version is never
established unless the revision says to ignore them. -/
theorem version_gate (feature : Bool) (r : Rev) (f : Faults) (c : Cache) (st : RevSt)
    (hinv : ∀ e, c r.id = some e → EntryOK r e) (hign : r.ignore = false)
    (hver : ∀ p, parse r.docs = some p → compatible p = false) :
    (recStep true feature r f c st).2.2.est = none := by
  cases hest : (recStep true feature r f c st).2.2.est with
  | none => rfl
  | some objs =>
    obtain ⟨_, _, _, p, hf, _, _, hcmp, _⟩ := recStep_est feature r f c st objs hest
    have := hver p (fetch_parsed r f c hinv p hf)
    rcases hcmp with h | h
    · rw [hign] at h; cases h
    · rw [this] at h; cases h

/-- With signature verification enabled a revision whose Verified condition is not True
establishes nothing, leaves the cache alone (unless it is being deleted) and does not
become Healthy. -/
theorem verify_gate (r : Rev) (f : Faults) (c : Cache) (st : RevSt) (hv : st.verif.isTrue = false) :
    (recStep true true r f c st).2.2.est = none ∧
    (st.deleting = false → (recStep true true r f c st).1 = c) ∧
    ((recStep true true r f c st).2.1.health = .healthy → st.health = .healthy) := by
  unfold recStep
  split
  · exact ⟨rfl, fun _ => rfl, id⟩
  · split
    · exact ⟨rfl, fun _ => rfl, id⟩
    · split
      · rename_i hd
        split
        · exact ⟨rfl, fun _ => rfl, id⟩
        · split <;> (refine ⟨rfl, fun h => ?_, ?_⟩ <;> simp_all)
      · simp only [hv, Bool.not_false, Bool.and_self, if_true]
        split
        · split
          · exact ⟨rfl, fun _ => rfl, id⟩
          · refine ⟨rfl, fun _ => rfl, ?_⟩; intro h; cases h
        · exact ⟨rfl, fun _ => rfl, id⟩

/-! ### interference and stale reads -/

/-- When the revision object the reconciler read is not the live one – a third party
(package manager, signature controller, user, restore tool) wrote to it after the read, or
the informer cache served an older version – for ANY such write (`f.env ≠ none`) and every
other fault: `Establish` is not reached and nothing the reconciler writes to the revision
lands (the state it returns is the state it read; the live object is what the third party
made of it, see `World.step`). -/
theorem stale_never_establishes (fixed feature : Bool) (r : Rev) (f : Faults) (c : Cache) (st : RevSt)
    (hs : f.env ≠ .none) :
    (recStep fixed feature r f c st).2.2.est = none ∧ (recStep fixed feature r f c st).2.1 = st := by
  have : f.stale = true := by simp [Faults.stale, hs]
  exact ⟨(recStep_stale fixed feature r f c st this).2, (recStep_stale fixed feature r f c st this).1⟩

/-- The verification gate holds for the LIVE object: with verification enabled, if the
revision as the third party left it (`applyEnv f.env st`: status wiped, re-created under the
same name, …) is not Verified, nothing is established – whatever the reconciler read. -/
theorem verify_gate_live (r : Rev) (f : Faults) (c : Cache) (st : RevSt)
    (hv : (applyEnv f.env st).verif.isTrue = false) :
    (recStep true true r f c st).2.2.est = none := by
  by_cases he : f.env = .none
  · rw [he] at hv
    exact (verify_gate r f c st hv).1
  · exact (stale_never_establishes true true r f c st he).1

/-- `Establish` is reached only by a reconcile whose every API call on the revision
succeeded up to there: the read was served and fresh, and the metadata update went through. -/
theorem establish_needs_fresh_object (feature : Bool) (r : Rev) (f : Faults) (c : Cache) (st : RevSt)
    (h : (recStep true feature r f c st).2.2.est ≠ none) :
    f.env = .none ∧ f.getE = .ok ∧ f.upd = .ok ∧ st.present = true ∧ st.deleting = false := by
  cases hest : (recStep true feature r f c st).2.2.est with
  | none => exact absurd hest h
  | some objs =>
    obtain ⟨hp, hd, _, p, _, _, _, _, hu, hs, hg, _⟩ := recStep_est feature r f c st objs hest
    refine ⟨?_, hg, hu, hp, hd⟩
    cases he : f.env <;> simp [Faults.stale, he] at hs ⊢

/-! ### error classes -/

/-- A failed `Establish` – of whatever error class (Conflict is requeued, everything else
reported) – never makes the revision Healthy and never changes its object references. -/
theorem establish_failure_not_healthy (fixed feature : Bool) (r : Rev) (f : Faults) (c : Cache) (st : RevSt)
    (hf : f.est = true) :
    ((recStep fixed feature r f c st).2.1.health = .healthy → st.health = .healthy ∨ (st.active = false ∧ st.refs > 0)) ∧
    (recStep fixed feature r f c st).2.1.refs = st.refs := by
  constructor
  · intro h
    rcases recStep_health fixed feature r f c st h with h1 | ⟨h1, h2, _⟩ | ⟨_, h2, _⟩
    · exact Or.inl h1
    · exact Or.inr ⟨h1, h2⟩
    · rw [hf] at h2; cases h2
  · rcases recStep_refs fixed feature r f c st with h1 | ⟨_, h2, _⟩
    · exact h1
    · rw [hf] at h2; cases h2

/-- A revision becomes Healthy, or its recorded object references change, only in a
reconcile that reached `Establish` without error on a fresh object and whose status update
landed – or, for Healthy, on the inactive-with-references shortcut. -/
theorem healthy_only_via_establish (fixed feature : Bool) (r : Rev) (f : Faults) (c : Cache) (st : RevSt) :
    ((recStep fixed feature r f c st).2.1.health = .healthy → st.health ≠ .healthy →
      ((recStep fixed feature r f c st).2.2.est ≠ none ∧ f.est = false ∧ f.stat = false ∧ f.env = .none) ∨
      (st.active = false ∧ st.refs > 0)) ∧
    ((recStep fixed feature r f c st).2.1.refs ≠ st.refs →
      (recStep fixed feature r f c st).2.2.est ≠ none ∧ f.est = false ∧ f.stat = false ∧ f.env = .none) := by
  have key : f.statO = false → f.stat = false ∧ f.env = .none := by
    intro h
    simp only [Faults.statO, Faults.stale, Bool.or_eq_false_iff] at h
    refine ⟨h.2, ?_⟩
    cases he : f.env <;> simp [he] at h ⊢
  constructor
  · intro hh hn
    rcases recStep_health fixed feature r f c st hh with h1 | ⟨h1, h2, _⟩ | ⟨h1, h2, h3⟩
    · exact absurd h1 hn
    · exact Or.inr ⟨h1, h2⟩
    · exact Or.inl ⟨h1, h2, (key h3).1, (key h3).2⟩
  · intro hr
    rcases recStep_refs fixed feature r f c st with h1 | ⟨h1, h2, h3⟩
    · exact absurd h1 hr
    · exact ⟨h1, h2, (key h3).1, (key h3).2⟩

/-! ### the signature controller -/

/-- The signature controller turns Verified to True only when no verification config
matches the image (skipped) or the configured validator accepted the signature – whatever
the read and the status update do. -/
theorem verified_only_by_validation (cfg : SigCfg) (valid : Bool) (sf : SigF) (st : RevSt)
    (h : (sigStep cfg valid sf st).1.verif.isTrue = true) :
    st.verif.isTrue = true ∨ cfg = .none ∨ (cfg = .some ∧ valid = true) := by
  unfold sigStep at h
  repeat' split at h
  all_goals first
    | exact Or.inl h
    | (simp [Verif.isTrue] at h; done)
    | skip
  all_goals simp_all

/-- `ImageVerificationConfigFor` answers "no config" exactly when no ImageConfig that
carries a verification section declares a non-empty prefix of the image … -/
theorem no_config_iff_none_matches (cfgs : List ImgCfg) (image : String) :
    (verifCfgFor cfgs image false).1 = .none ↔
      ∀ c ∈ cfgs, c.verifies = true → ∀ p ∈ c.prefixes, p.isPrefixOf image = true → p.utf8ByteSize = 0 := by
  have hok := scanCfgs_ok ImgCfg.verifies image cfgs cfgs (fun _ h => h) (0, none) (Or.inl rfl)
  constructor
  · intro h c hc hv p hp hm
    have hge := scanCfgs_ge ImgCfg.verifies image cfgs (0, none) c hc hv p hp hm
    unfold verifCfgFor bestMatch at h
    simp only [Bool.false_eq_true, if_false] at h
    rcases hok with h0 | ⟨c', hc', _⟩
    · rw [h0] at hge; exact Nat.le_zero.mp hge
    · rw [hc'] at h; simp only at h; split at h <;> cases h
  · intro h
    unfold verifCfgFor bestMatch
    simp only [Bool.false_eq_true, if_false]
    rcases hok with h0 | ⟨c', hc', hm, hv, p, hp, hpre, hlen, hpos⟩
    · rw [h0]
    · have := h c' hm hv p hp hpre
      omega

/-- … and otherwise selects a config that carries a verification section, matches the
image, and whose matching prefix is at least as long as every matching prefix of every
config with a verification section: the verdict that counts is the best match's. -/
theorem selected_config_is_longest_match (cfgs : List ImgCfg) (image : String) (v : Bool)
    (h : verifCfgFor cfgs image false = (.some, v)) :
    ∃ c ∈ cfgs, c.verif = .cosign ∧ c.ok = v ∧ ∃ p ∈ c.prefixes, p.isPrefixOf image = true ∧
      ∀ c' ∈ cfgs, c'.verifies = true → ∀ p' ∈ c'.prefixes, p'.isPrefixOf image = true →
        p'.utf8ByteSize ≤ p.utf8ByteSize := by
  have hok := scanCfgs_ok ImgCfg.verifies image cfgs cfgs (fun _ h => h) (0, none) (Or.inl rfl)
  unfold verifCfgFor bestMatch at h
  simp only [Bool.false_eq_true, if_false] at h
  rcases hok with h0 | ⟨c, hc, hm, hv, p, hp, hpre, hlen, _⟩
  · rw [h0] at h; cases h
  · rw [hc] at h
    simp only at h
    split at h
    · cases h
    · rename_i hnc
      simp only [Prod.mk.injEq, true_and] at h
      refine ⟨c, hm, ?_, h, p, hp, hpre, ?_⟩
      · have hnc' : c.verif ≠ .nocosign := by simpa using hnc
        have hv' : c.verif ≠ .none := by simpa [ImgCfg.verifies] using hv
        cases hcv : c.verif <;> simp_all
      · intro c' hc' hv' p' hp' hm'
        rw [hlen]
        exact scanCfgs_ge ImgCfg.verifies image cfgs (0, none) c' hc' hv' p' hp' hm'

/-- step `m` of the history is a signature reconcile of revision `i` that may
legitimately verify it: in the world it was taken from, no ImageConfig with a verification
section matches the revision's source, or the best match's validator accepted the image -/
def AuthorizedAt (revs : List Rev) (w : World) (steps : List Step) (i m : Nat) : Prop :=
  ∃ sf r, steps[m]? = some (.verify i sf) ∧ revs[i]? = some r ∧
    ((verifCfgFor (worldAt true true revs w steps m).cfgs r.source sf.listErr).1 = .none ∨
     ((verifCfgFor (worldAt true true revs w steps m).cfgs r.source sf.listErr).1 = .some ∧
      (verifCfgFor (worldAt true true revs w steps m).cfgs r.source sf.listErr).2 = true))

/-- a step leaves a revision Verified only if it was Verified before or the step is an
authorizing signature reconcile of it -/
theorem step_verified (revs : List Rev) (w : World) (s : Step) (i : Nat) (st : RevSt)
    (hst : (w.step true true revs s).1.sts[i]? = some st) (hv : st.verif.isTrue = true) :
    (∃ st0, w.sts[i]? = some st0 ∧ st0.verif.isTrue = true) ∨
    (∃ sf r, s = .verify i sf ∧ revs[i]? = some r ∧
      ((verifCfgFor w.cfgs r.source sf.listErr).1 = .none ∨
       ((verifCfgFor w.cfgs r.source sf.listErr).1 = .some ∧ (verifCfgFor w.cfgs r.source sf.listErr).2 = true))) := by
  cases s with
  | configs cfgs => exact Or.inl ⟨st, hst, hv⟩
  | verify j sf =>
    simp only [World.step] at hst
    split at hst
    · rename_i r st0 hr hst0
      dsimp only at hst
      by_cases hij : j = i
      · subst hij
        rw [List.getElem?_set] at hst
        simp only [if_true] at hst
        split at hst
        · simp only [Option.some.injEq] at hst
          subst hst
          rcases verified_only_by_validation _ _ sf st0 hv with h1 | h1 | h1
          · exact Or.inl ⟨st0, hst0, h1⟩
          · exact Or.inr ⟨sf, r, rfl, hr, Or.inl h1⟩
          · exact Or.inr ⟨sf, r, rfl, hr, Or.inr h1⟩
        · cases hst
      · rw [List.getElem?_set_ne hij] at hst
        exact Or.inl ⟨st, hst, hv⟩
    · exact Or.inl ⟨st, hst, hv⟩
  | reconcile j active deleted f =>
    simp only [World.step] at hst
    split at hst
    · rename_i r st0 hr hst0
      dsimp only at hst
      by_cases hij : j = i
      · subst hij
        rw [List.getElem?_set] at hst
        simp only [if_true] at hst
        split at hst
        · simp only [Option.some.injEq] at hst
          subst hst
          have hvv : st0.verif.isTrue = true := by
            split at hv
            · have := applyEnv_verif _ _ hv
              rw [recStep_verif, envStep_verif] at this; exact this
            · rw [recStep_verif, envStep_verif] at hv; exact hv
          exact Or.inl ⟨st0, hst0, hvv⟩
        · cases hst
      · rw [List.getElem?_set_ne hij] at hst
        exact Or.inl ⟨st, hst, hv⟩
    · exact Or.inl ⟨st, hst, hv⟩

/-- Over all histories with verification enabled, starting with no revision verified –
reconciles of any revisions under any fault plans, third-party writes that wipe the status
or re-create a revision, edits of the ImageConfigs: an `Establish` of revision `i` at step
`n` is preceded by a signature reconcile of `i` that found no matching verification config
among the ImageConfigs of that moment, or whose best match's validator accepted the image. -/
theorem verify_gate_history (revs : List Rev) (w : World)
    (hw : ∀ (i : Nat) (st : RevSt), w.sts[i]? = some st → st.verif.isTrue = false) (steps : List Step) :
    ∀ n s o, steps[n]? = some s → (World.run true true revs w steps).2[n]? = some o → o.est ≠ none →
      ∃ m, m < n ∧ AuthorizedAt revs w steps s.idx m := by
  have inv : ∀ k, k ≤ steps.length → ∀ i st, (worldAt true true revs w steps k).sts[i]? = some st →
      st.verif.isTrue = true → ∃ m, m < k ∧ AuthorizedAt revs w steps i m := by
    intro k
    induction k with
    | zero =>
      intro _ i st hst hv
      simp only [worldAt, List.take_zero, World.run] at hst
      rw [hw i st hst] at hv; cases hv
    | succ k ih =>
      intro hk i st hst hv
      have hk' : k < steps.length := hk
      have hs : steps[k]? = some steps[k] := List.getElem?_eq_getElem hk'
      rw [worldAt_succ true true revs w steps k _ hs] at hst
      rcases step_verified revs _ _ i st hst hv with ⟨st0, h0, hv0⟩ | ⟨sf, r, hsv, hr, hc⟩
      · obtain ⟨m, hm, ha⟩ := ih (Nat.le_of_lt hk') i st0 h0 hv0
        exact ⟨m, Nat.lt_succ_of_lt hm, ha⟩
      · exact ⟨k, Nat.lt_succ_self k, sf, r, by rw [hs, hsv], hr, hc⟩
  intro n s o hs ho he
  have hn : n < steps.length := by
    rcases Nat.lt_or_ge n steps.length with h | h
    · exact h
    · rw [List.getElem?_eq_none h] at hs; cases hs
  have ho' := run_out true true revs w steps n s o hs ho
  subst ho'
  cases s with
  | configs cfgs => simp [World.step] at he
  | verify i sf =>
    simp only [World.step] at he
    split at he <;> simp at he
  | reconcile i active deleted f =>
    simp only [World.step] at he
    split at he
    · rename_i r st hr hst
      dsimp only at he
      cases hest : (recStep true true r f (worldAt true true revs w steps n).cache (envStep active deleted st)).2.2.est with
      | none => exact absurd hest he
      | some objs =>
        obtain ⟨_, _, hv, _⟩ := recStep_est true r f _ _ objs hest
        have hv' : st.verif.isTrue = true := by
          have := hv rfl
          rw [envStep_verif] at this
          exact this
        exact inv n (Nat.le_of_lt hn) i st hst hv'
    · simp at he

/-! ### the image: which stream `ImageBackend.Init` selects -/

/-- `ImageBackend.Init` hands the parser a stream iff the image has at most `maxLayers`
layers and either exactly ONE layer is annotated `io.crossplane.xpkg: base` and that layer's
tarball holds package.yaml – the stream is that file, whatever the other layers hold – or NO
layer is annotated and the flattened file system holds package.yaml (the last layer's that has
one).  Two annotated layers, too many layers, no package.yaml: an error. -/
theorem init_selects (ls : List Layer) (ds : List Doc) :
    initSel ls = some ds ↔
      ls.length ≤ maxLayers ∧
      ((∃ l, ls.filter Layer.isBase = [l] ∧ l.file = some ds) ∨
       (ls.filter Layer.isBase = [] ∧ flatFile ls = some ds)) := by
  unfold initSel
  rw [scanBase_spec]
  simp only [Option.toList_none, List.nil_append]
  by_cases hl : ls.length > maxLayers
  · simp only [hl, if_true]
    constructor
    · intro h; cases h
    · intro h; omega
  · simp only [hl, if_false]
    have hl' : ls.length ≤ maxLayers := by omega
    match hf : ls.filter Layer.isBase with
    | [] => simp [hl']
    | [l] => simp [hl']
    | l1 :: l2 :: rest => simp

/-- The stream taken from a tarball is the content of its FIRST entry named exactly
`package.yaml`; no entry before it has that name. -/
theorem tar_lookup_exact (es : List (String × List Doc)) (ds : List Doc) (h : tarFind es = some ds) :
    ∃ a b, es = a ++ (streamFile, ds) :: b ∧ ∀ e ∈ a, e.1 ≠ streamFile := by
  induction es with
  | nil => cases h
  | cons e es ih =>
    obtain ⟨n, d⟩ := e
    unfold tarFind at h
    by_cases hn : (n == streamFile) = true
    · simp only [hn, if_true, Option.some.injEq] at h
      subst h
      exact ⟨[], es, by simp [beq_iff_eq.mp hn], by simp⟩
    · simp only [hn, if_false] at h
      obtain ⟨a, b, hab, hne⟩ := ih h
      refine ⟨(n, d) :: a, b, by simp [hab], ?_⟩
      intro e he
      simp only [List.mem_cons] at he
      rcases he with rfl | he
      · simpa using hn
      · exact hne e he

/-- Entries of any other name – `.package.yaml`, `..package.yaml`, `package.yaml.bak`,
`dir/package.yaml`, wherever they stand in the tarball and whatever they hold – do not
matter: removing them all leaves the selected stream, hence what `ImageBackend.Init` selects
from the whole image, unchanged. -/
theorem tar_lookup_ignores_lookalikes (es : List (String × List Doc)) :
    tarFind (es.filter fun e => e.1 == streamFile) = tarFind es := by
  induction es with
  | nil => rfl
  | cons e es ih =>
    obtain ⟨n, d⟩ := e
    by_cases hn : (n == streamFile) = true
    · simp [List.filter_cons, hn, tarFind]
    · simp only [List.filter_cons, hn, tarFind]
      simpa using ih

theorem init_ignores_lookalikes (ls : List (Ann × List (String × List Doc))) :
    initSel (ls.map fun l => Layer.ofTar l.1 (l.2.filter fun e => e.1 == streamFile)) =
    initSel (ls.map fun l => Layer.ofTar l.1 l.2) := by
  simp only [Layer.ofTar, tar_lookup_ignores_lookalikes]

/-- look-alikes in front of the real file, in the annotated base layer -/
example : initSel [Layer.ofTar .base [("README.md", [.bad]), (".package.yaml", [.empty]), ("package.yaml.bak", [.empty]),
    ("dir/package.yaml", [.empty]), ("package.yaml", [])]] = some [] := by decide
/-- nothing but look-alikes: rejected -/
example : initSel [Layer.ofTar .base [(".package.yaml", [.empty]), ("../package.yaml", [.empty])]] = none := by decide

/-- What a revision declares is the stream `Init` selects from its image. -/
theorem declared_is_selected_stream (r : Rev) (h : r.imgOk = true) : initSel r.layers = some r.docs := by
  unfold Rev.imgOk at h
  unfold Rev.docs
  cases hi : initSel r.layers with
  | none => rw [hi] at h; cases h
  | some ds => rfl

/-- An image the specification calls invalid (two base layers, more than `maxLayers` layers,
no package.yaml where it has to be) is never installed from: with nothing cached, under every
fault plan, `Establish` is not reached and the cache stays as it is. -/
theorem invalid_image_never_installed (feature : Bool) (r : Rev) (f : Faults) (c : Cache) (st : RevSt)
    (himg : initSel r.layers = none) (hcold : c r.id = none) :
    (recStep true feature r f c st).2.2.est = none ∧
    (st.deleting = false → ∀ k, (recStep true feature r f c st).1 k = c k) := by
  have hok : r.imgOk = false := by simp [Rev.imgOk, himg]
  have hfetch : fetch true r f c = (c, .stop (if r.never then "err:pullnever" else "err:init") true) := by
    unfold fetch
    simp only [hcold, hok, Bool.not_false, Bool.or_true, if_true]
    split <;> rfl
  constructor
  · cases hest : (recStep true feature r f c st).2.2.est with
    | none => rfl
    | some objs =>
      obtain ⟨_, _, _, p, hf, _⟩ := recStep_est feature r f c st objs hest
      rw [hfetch] at hf
      cases hf
  · intro hd k
    rcases recStep_cache_nodelete true feature r f c st hd with h | h
    · rw [h]
    · rw [h, hfetch]

/-! ### every step before `Establish` succeeded -/

/-- `Establish` is reached only if `PullSecretFor` succeeded, an inactive revision released
its objects, and – when dependencies are resolved – `lock.Resolve` succeeded: a failure of any
collaborator in front of it, of whatever error class, stops the reconcile. -/
theorem establish_needs_every_step (feature : Bool) (r : Rev) (f : Faults) (c : Cache) (st : RevSt)
    (h : (recStep true feature r f c st).2.2.est ≠ none) :
    f.pullCfg = false ∧ (st.active = false → f.rel = .ok) ∧ (r.resolve = true → f.dep = .ok) := by
  cases hest : (recStep true feature r f c st).2.2.est with
  | none => exact absurd hest h
  | some objs =>
    obtain ⟨_, _, _, p, _, _, _, _, _, _, _, he, hdep⟩ := recStep_est feature r f c st objs hest
    refine ⟨?_, ?_, hdep⟩
    · cases hp : f.pullCfg
      · rfl
      · simp [early, hp] at he
    · intro ha
      cases hp : f.pullCfg
      · cases hr : f.rel <;> simp [early, hp, ha, hr] at he ⊢
      · simp [early, hp] at he

/-! ### the tee into the cache (`teeReadCloser`, reader.go)

For every source script (bytes and ok / EOF / failure per read, in any order), every byte at
which the writer – the pipe into `cache.Store` – starts failing, and every consumer (any
number of reads, also one that overlooks errors and reads on, as the YAML line reader does). -/

/-- Once a read reported a failure – of the source or of the writer – every later read reports
the same failure and hands out nothing: a consumer that overlooks the error cannot carry on
with the rest of the stream, nor see a clean EOF. -/
theorem tee_error_sticky (t : Tee) (h : t.err = none) (he : (t.read true).1.2.isErr = true) (n : Nat) :
    ∀ r ∈ (Tee.reads true n (t.read true).2).1, r = ([], (t.read true).1.2) := by
  rcases read_err_cases t h with ⟨hc, _⟩ | ⟨_, hs⟩
  · rw [hc] at he; cases he
  · exact (reads_of_err _ _ hs n).2

/-- The consumer is handed exactly the bytes the writer accepted, read by read (also by the
reader without the fix). -/
theorem tee_seen_eq_written (sticky : Bool) (n : Nat) (t : Tee) :
    (Tee.reads sticky n t).2.out = t.out ++ seenBytes (Tee.reads sticky n t).1 :=
  reads_out sticky n t

/-- A consumer that reaches a clean EOF with its `k+1`-th read was handed – and the cache was
handed – exactly the bytes of the first `k+1` reads of the source, none of which failed: the
parser ends normally only on the whole stream, whatever it overlooked on the way. -/
theorem tee_clean_eof_complete (k : Nat) (t : Tee) (h : t.err = none) (d : List Nat)
    (hl : (Tee.reads true (k + 1) t).1.getLast? = some (d, .eof)) :
    seenBytes (Tee.reads true (k + 1) t).1 = srcBytes (t.src.take (k + 1)) ∧
    (Tee.reads true (k + 1) t).2.out = t.out ++ srcBytes (t.src.take (k + 1)) ∧
    (∀ e ∈ t.src.take (k + 1), e.res.isErr = false) := by
  obtain ⟨h1, h2⟩ := reads_eof k t h d hl
  exact ⟨h1, by rw [reads_out, h1], h2⟩

/-- a five-byte stream in two reads and an EOF, the writer failing at its third byte -/
def wTee : Tee := { src := [⟨[1, 2, 3], .ok⟩, ⟨[4, 5], .ok⟩, ⟨[], .eof⟩], cap := some 2 }

/-- D18 on the model of the reader without the fix: a consumer that overlooks the write error
twice reaches a clean EOF having seen two of five bytes; with the fix its third read still
reports the write error. -/
theorem tee_clean_eof_fails_on_unfixed_witness :
    (Tee.reads false 3 wTee).1.getLast? = some ([], .eof) ∧ seenBytes (Tee.reads false 3 wTee).1 = [1, 2] ∧
    (Tee.reads true 3 wTee).1.getLast? = some ([], .writeErr) := by decide

/-- the hypotheses are met: a clean EOF after three reads of an unfailing writer -/
example : (Tee.reads true 3 { wTee with cap := none }).1.getLast? = some ([], .eof) ∧
    seenBytes (Tee.reads true 3 { wTee with cap := none }).1 = [1, 2, 3, 4, 5] := by decide
example : ((wTee.read true).1.2.isErr = true) := by decide

/-! ### how the stream falls into documents (YAML reader + `isEmptyYAML`)

The revisions of the correspondence run get their document list from the LINES of the rendered
stream (`docsOfLines`, classified by a tokenizer of the harness that knows nothing of how the
stream was rendered). -/

/-- At a separator line the reader hands out the lines it collected – one document – and
starts afresh with what follows. -/
theorem split_at_separator (tbl : List Doc) (g b : List Line) (p : Bool)
    (hg : ∀ l ∈ g, l.isSep = false) (hne : g ≠ []) :
    docsOfLines tbl (g ++ .sep p :: b) =
      (docsOfLines tbl b).map fun ds => (if chunkEmpty g then [] else [docOfChunk tbl g]) ++ ds := by
  unfold docsOfLines
  rw [chunks_at_sep g b [] p hg (by simpa using hne)]
  cases chunks b [] with
  | none => rfl
  | some cs => by_cases he : chunkEmpty g <;> simp [List.filter_cons, he]

/-- Lines that are only blanks and comments are no document. -/
theorem split_skips_empty (tbl : List Doc) (cs : List Line) (h : ∀ l ∈ cs, l = .comment ∨ l = .blank) :
    docsOfLines tbl cs = some [] :=
  docs_empty tbl cs h

/-- The payload lines of document `i`, with comments and blank lines among them, are document `i`. -/
theorem split_one_document (tbl : List Doc) (c : List Line) (i : Nat)
    (hc : ∀ l ∈ c, l = .comment ∨ l = .blank ∨ l = .body i) (hb : Line.body i ∈ c) :
    docsOfLines tbl c = some [(tbl[i]?).getD .bad] :=
  docs_one tbl c i hc hb

/-- Hence a document of blanks and comments between two documents never changes what is parsed. -/
theorem parse_ignores_empty_documents (tbl : List Doc) (g cs b : List Line) (p q : Bool)
    (hg : ∀ l ∈ g, l.isSep = false) (hne : g ≠ [])
    (h : ∀ l ∈ cs, l = .comment ∨ l = .blank) (hcs : cs ≠ []) :
    parseLines tbl (g ++ .sep p :: (cs ++ .sep q :: b)) = parseLines tbl (g ++ .sep p :: b) := by
  unfold parseLines
  rw [split_at_separator tbl g _ p hg hne, split_at_separator tbl g b p hg hne,
    split_at_separator tbl cs b q (by intro l hl; rcases h l hl with rfl | rfl <;> rfl) hcs]
  have : chunkEmpty cs = true := by
    simp only [chunkEmpty, List.all_eq_true]
    intro l hl
    rcases h l hl with rfl | rfl <;> rfl
  cases docsOfLines tbl b <;> simp [this]

/-- a malformed separator makes the whole stream undecodable -/
theorem split_bad_separator (tbl : List Doc) (a b : List Line) (h : ∀ l ∈ a, l.isSep = false) :
    parseLines tbl (a ++ .badsep :: b) = none := by
  have : chunks (a ++ .badsep :: b) [] = none := by
    rw [chunks_nosep_append a _ [] h]
    simp [chunks]
  simp [parseLines, docsOfLines, this]

/-- a stream with a leading bare separator and comment, a doubled separator, a comment-only
document and a trailing separator: two documents -/
example : docsOfLines [.md ⟨"m", "a", .none⟩, .ob ⟨"k", "b"⟩]
    [.sep true, .comment, .body 0, .body 0, .sep true, .sep true, .blank, .comment, .sep false, .body 1, .sep true] =
    some [.md ⟨"m", "a", .none⟩, .ob ⟨"k", "b"⟩] := by decide

/-- What the code does with a separator line that carries a comment and has nothing in front of
it (first line of the stream, or behind another separator): the reader collects the line itself,
`isEmptyYAML` does not pass over it, and when only comments follow the chunk does not decode –
the package fails to parse (found by the correspondence; it fails closed). -/
theorem commented_separator_before_comments_is_undecodable :
    parseLines [.md ⟨"m", "a", .none⟩] [.sep false, .comment, .sep true, .body 0] = none ∧
    parseLines [.md ⟨"m", "a", .none⟩] [.sep true, .comment, .sep true, .body 0] = some ⟨[⟨"m", "a", .none⟩], []⟩ := by
  decide

/-! ### the call skeletons the model mirrors are those of the current tree

`Xp.Gen.c15Skel*` are regenerated from the Go source on every run (go/ast,
harness/main/c15_dump.go); the right-hand sides are declared in Xp/Model/C15Skel.lean with,
per entry, the model step that mirrors it. -/

/-- revision `Reconciler.Reconcile`: Get, pause, deletion (cache.Delete, RemoveSelf, RemoveFinalizer),
verification gate, AddFinalizer, PullSecretFor, deactivation + inactive shortcut, cache.Has/Get/Delete,
backend.Init, tee into cache.Store, Parse, CloseWithError, Delete, Lint, one-meta, Update, version gate,
Resolve, hooks, Establish, SetObjects, Healthy -/
theorem skeleton_reconcile : Xp.Gen.c15SkelReconcile = skelReconcile := by decide
theorem skeleton_deactivate : Xp.Gen.c15SkelDeactivate = skelDeactivate := by decide
/-- `ImageBackend.Init`: layer limit, one annotated base layer or the flattened file system, package.yaml -/
theorem skeleton_image_init : Xp.Gen.c15SkelImageInit = skelImageInit := by decide
theorem skeleton_cache_has : Xp.Gen.c15SkelCacheHas = skelCacheHas := by decide
theorem skeleton_cache_get : Xp.Gen.c15SkelCacheGet = skelCacheGet := by decide
theorem skeleton_cache_store : Xp.Gen.c15SkelCacheStore = skelCacheStore := by decide
theorem skeleton_cache_delete : Xp.Gen.c15SkelCacheDelete = skelCacheDelete := by decide
theorem skeleton_gzip_reader : Xp.Gen.c15SkelGzipReadCloser = skelGzipReadCloser ∧
    Xp.Gen.c15SkelGzipRead = skelGzipRead ∧ Xp.Gen.c15SkelGzipClose = skelGzipClose := by decide
/-- `teeReadCloser`: Read returns a recorded error first (sticky), Close closes source then writer -/
theorem skeleton_tee : Xp.Gen.c15SkelTeeNew = skelTeeNew ∧ Xp.Gen.c15SkelTeeRead = skelTeeRead ∧
    Xp.Gen.c15SkelTeeClose = skelTeeClose := by decide
theorem skeleton_sig_reconcile : Xp.Gen.c15SkelSigReconcile = skelSigReconcile := by decide
theorem skeleton_config_store : Xp.Gen.c15SkelVerifCfgFor = skelVerifCfgFor ∧
    Xp.Gen.c15SkelBestMatch = skelBestMatch := by decide
/-- the checks the version / constraint gates are made of -/
theorem skeleton_lint_checks : Xp.Gen.c15SkelOneMeta = skelOneMeta ∧ Xp.Gen.c15SkelCompatible = skelCompatible ∧
    Xp.Gen.c15SkelValidSemver = skelValidSemver ∧ Xp.Gen.c15SkelTryConvert = skelTryConvert ∧
    Xp.Gen.c15SkelTryConvertToPkg = skelTryConvertToPkg ∧ Xp.Gen.c15SkelInConstraints = skelInConstraints := by decide
/-- every conversion of package metadata goes to hubs allocated at the call site -/
theorem hubs_are_fresh_literals : Xp.Gen.c15HubArgs = hubArgs := by decide

/-! ### the pinned tree (without fixes/D6.diff) violates the property -/

def wCRD : String := "apiextensions.k8s.io/v1/CustomResourceDefinition"

/-- a Provider package declaring four CRDs -/
def wRev : Rev :=
  { ptype := .provider, key := "/cache/pkg-d6.gz", skey := "/cache/src.gz",
    layers := [⟨.base, some [.md ⟨"meta.pkg.crossplane.io/v1/Provider", "pkg", .none⟩,
             .ob ⟨wCRD, "a"⟩, .ob ⟨wCRD, "b"⟩, .ob ⟨wCRD, "c"⟩, .ob ⟨wCRD, "d"⟩]⟩],
    never := false, ignore := false }

/-- first pull: the registry connection breaks on the document boundary in front of the
third CRD; second reconcile: no fault at all -/
def wSteps : List Step :=
  [.reconcile 0 true false { read := true, cut := wRev.docs.take 3 },
   .reconcile 0 true false {}]

def wWorld : World := { cache := Cache.empty, sts := [{}] }

/-- D6 on the model of the pinned reconciler: the second, fault-free reconcile
establishes two of the four declared CRDs, reports success (Healthy), … -/
theorem installed_eq_declared_fails_on_unfixed_witness :
    (World.run false false [wRev] wWorld wSteps).2.map (fun o => (o.res, o.est.map List.length)) =
      [("err:parse", none), ("ok", some 2)] ∧
    ((World.run false false [wRev] wWorld wSteps).1.sts.map (·.health)) = [.healthy] := by
  decide

/-- … and the cache entry that `Has` reports after the failed first pull is not the full stream. -/
theorem cache_entry_complete_fails_on_unfixed_witness :
    (World.run false false [wRev] wWorld (wSteps.take 1)).1.cache wRev.key = some (.content (wRev.docs.take 3)) ∧
    wRev.docs.take 3 ≠ wRev.docs := by
  decide

/-- D18 on the model of the pinned tree: the cache write fails while the last chunk is
copied, the parser overlooks the error and ends on a stream that lacks the last two
CRDs; the reconcile establishes two of four and reports success. -/
theorem installed_eq_declared_fails_on_unfixed_store_witness :
    (recStep false false wRev { store := true, seen := true, lost := some (wRev.docs.take 3) } Cache.empty {}).2.2.est.map List.length = some 2 ∧
    (recStep false false wRev { store := true, seen := true, lost := some (wRev.docs.take 3) } Cache.empty {}).2.1.health = .healthy ∧
    (recStep true false wRev { store := true, seen := true, lost := some (wRev.docs.take 3) } Cache.empty {}).2.2 = { res := "err:parse" } := by
  decide

/-- the same history on the fixed reconciler: nothing is kept after the failed pull, the
second reconcile pulls again and establishes all four -/
theorem fixed_on_witness :
    (World.run true false [wRev] wWorld wSteps).2.map (fun o => (o.res, o.est.map List.length)) =
      [("err:parse", none), ("ok", some 4)] ∧
    (World.run true false [wRev] wWorld (wSteps.take 1)).1.cache wRev.key = none := by
  decide

/-! ### the hypotheses are satisfiable by non-trivial states -/

/-- cold cache -/
example (revs : List Rev) : Inv revs Cache.empty := by intro r _ e he; cases he

/-- warm cache, and a truncated entry for a second revision sharing the cache -/
example : Inv [wRev, { wRev with key := "/cache/other.gz" }]
    ((Cache.empty.put wRev.key (.content wRev.docs)).put "/cache/other.gz" (.broken true)) := by
  intro r hr e he
  simp only [List.mem_cons, List.not_mem_nil, or_false] at hr
  rcases hr with rfl | rfl
  · simp [Rev.id, wRev, Cache.put] at he; subst he; exact Or.inl rfl
  · simp [Rev.id, wRev, Cache.put] at he; subst he; exact Or.inr ⟨_, rfl⟩

example : Compat [wRev, { wRev with key := "/cache/other.gz" }] := by
  intro r hr r' hr' _ hk
  simp only [List.mem_cons, List.not_mem_nil, or_false] at hr hr'
  rcases hr with rfl | rfl <;> rcases hr' with rfl | rfl <;> simp_all [Rev.id, wRev]

/-- `Establish` is reached from a cold cache, from a warm cache, and after a failed pull -/
example : ((recStep true false wRev {} Cache.empty {}).2.2.est.map List.length) = some 4 := by decide
example : ((recStep true false wRev {} (Cache.empty.put wRev.key (.content wRev.docs)) {}).2.2.est.map List.length) = some 4 := by decide
/-- with verification enabled: not before, but after a signature reconcile that finds no
verification config for the image -/
example : ((World.run true true [wRev] wWorld [.reconcile 0 true false {}, .verify 0 {}, .reconcile 0 true false {}]).2.map
    (fun o => o.est.map List.length)) = [none, none, some 4] := by decide
/-- a third party wipes the status between the read and the metadata update: nothing is
established, and the next reconcile waits for verification again -/
example : ((World.run true true [wRev] { wWorld with sts := [{ verif := .skipped }] }
    [.reconcile 0 true false { env := .wipe }, .reconcile 0 true false {}]).2.map
    (fun o => (o.res, o.est.map List.length))) = [("requeue", none), ("ok", none)] := by decide

example : (recStep true false wRev { pullCfg := true } Cache.empty {}).2.2 = { res := "err:pullcfg" } := by decide
example : (recStep true false wRev { rel := .conflict } Cache.empty { active := false }).2.2 = { res := "requeue" } := by decide
example : (recStep true false { wRev with resolve := true } { dep := .err } Cache.empty {}).2 =
    ({ finalizer := true, health := .unknown }, { res := "err:deps" }) := by decide
/-- an annotated base layer LAST, behind unannotated layers that carry other package.yaml files -/
example : initSel [⟨.none, some [.bad]⟩, ⟨.other, some []⟩, ⟨.base, some [.empty]⟩] = some [.empty] := by decide
example : initSel [⟨.none, some [.bad]⟩, ⟨.other, some [.empty]⟩, ⟨.none, none⟩] = some [.empty] := by decide
example : initSel [⟨.base, some [.bad]⟩, ⟨.base, some []⟩] = none := by decide

/-- the structural linter passes an installable Provider package -/
example : lintS .provider ⟨[⟨"meta.pkg.crossplane.io/v1/Provider", "p", .none⟩], [⟨wCRD, "a"⟩]⟩ = true := by decide
example : lintS .function ⟨[⟨"meta.pkg.crossplane.io/v1/Function", "p", .none⟩], [⟨"apiextensions.crossplane.io/v1/Composition", "a"⟩]⟩ = false := by decide
/-- the witness revision's image is valid: one annotated base layer holding package.yaml -/
example : wRev.imgOk = true ∧ (parse wRev.docs).isSome = true := by decide
example : tarFind [(".package.yaml", [.bad]), ("package.yaml", [.empty]), ("package.yaml", [])] = some [.empty] := by decide
end Xp.C15

import Xp.Proofs.C06Run
import Xp.Gen.C06
/-
C06 — a claim binds exactly one XR and never hijacks another claim's XR.

System (Xp/Model/C06.lean): one claim-controller thread running `reconcile cfg`
(both syncers; `cfg` = syncer, which cached version of the claim the read returns,
name oracle, managed-fields oracle), interleaved at API-call granularity with the
environment `Env` (XR controller / GC / user rewriting or removing XRs without ever
changing spec.claimRef or creating an XR; user editing or deleting the claim without
changing spec.resourceRef), every call possibly failing (`callErr`: server error or
conflict; `callLost`: applied but the reply is lost), and crashes/restarts at any point
(`start` drops the in-flight reconcile and begins a new one with arbitrary `cfg`;
crash-after = `callOk` then `start`).
`Reach s0 sys` = `sys` is reachable from the store `s0`. The theorems hold for every
reachable state, i.e. over ALL schedules, fault plans, cache lags and histories.

All reads go through the cache, as in the real controller (`engine.GetCached()`): the claim
read may return ANY version the claim ever had (`pick`), and every XR read — the Get in
Reconcile, the Get inside the client-side Apply, the availability Gets of the name
generator — may return ANY earlier state of that name, including "absent" (`xpick`). So the
hypothesis `xrReadFresh` of DESIGN.md 6/C06 is NOT needed in the environment the property
fixes: an XR bound to another claim has been so in every state its name ever had (nobody but
this controller creates XRs or sets a claimRef, and it only writes its own), hence a stale
read that shows "absent / unbound / ours" still proves "not foreign now" (`Inv.xfor`,
`not_foreign_of_hist`). What remains outside is an environment in which ANOTHER claim's
controller binds XRs: there, between any read and the forced apply of the server-side
syncer, the XR can become foreign (recorded limit, outside the property's quantifier).

`Init s0` (Xp/Proofs/C06Run.lean) = admissible initial store: empty ghost trace; the
claim's version history is well formed (strictly increasing rv, set-once reference, the
stored version is the newest); an XR already bound to this claim is one the claim
references or referenced; XR state histories are consistent (`xcur`, `xfor`).
`Init.single` builds it from a claim with a single version and XRs without history.
-/
namespace Xp.C06

/-! ### key lemma: spec.resourceRef is set-once -/

/-- A claim update carries the resourceVersion of the version that was read; if that is
not the stored version (stale cache), the update is rejected and nothing changes. -/
theorem stale_update_rejected (s : St) (cur c : Claim) (hc : s.claim = some cur) (hrv : c.rv ≠ cur.rv) :
    exec s (.updClaim c) = (s, .err .conflict) := by
  simp [exec, hc, hrv]

/-- `spec.resourceRef` is set-once: in every reachable state, a newer stored version of
the claim keeps the reference of every older one, and any two versions that carry a
reference carry the same one. -/
theorem ref_set_once {s0 : St} (h0 : Init s0) {sys : Sys} (hr : Reach s0 sys) :
    (∀ a ∈ sys.st.hist, ∀ b ∈ sys.st.hist, a.rv < b.rv → ∀ n, a.ref = some n → b.ref = some n) ∧
    (∀ a ∈ sys.st.hist, ∀ b ∈ sys.st.hist, ∀ n m, a.ref = some n → b.ref = some m → n = m) := by
  have hi := (reach_inv h0.inv hr).1
  refine ⟨?_, fun a ha b hb n m hn hm => hist_ref_unique hi.mono ha hb hn hm⟩
  intro a ha b hb hlt n hn
  rcases pairwise_mem_cases hi.mono ha hb with e | ⟨h, _⟩ | ⟨_, h⟩
  · subst e; omega
  · omega
  · exact h n hn

/-! ### one_xr -/

/-- At every instant of every execution at most one XR is bound to the claim, and it is
the one the claim's stored `spec.resourceRef` names. -/
theorem one_xr {s0 : St} (h0 : Init s0) {sys : Sys} (hr : Reach s0 sys) :
    (∀ n m, boundAt sys.st n → boundAt sys.st m → n = m) ∧
    (∀ c r, sys.st.claim = some c → c.ref = some r → ∀ n, boundAt sys.st n → n = r) := by
  have hi := (reach_inv h0.inv hr).1
  refine ⟨fun n m hn hm => acked_unique hi (hi.bound n hn) (hi.bound m hm), ?_⟩
  intro c r hc hr' n hn
  exact acked_unique hi (hi.bound n hn) ⟨c, cur_mem hi hc, hr'⟩

/-- the same as a count: among any duplicate-free list of XR names at most one is bound -/
theorem one_xr_count {s0 : St} (h0 : Init s0) {sys : Sys} (hr : Reach s0 sys) (names : List Name) (hnd : names.Nodup) :
    (names.filter (isBound sys.st)).length ≤ 1 := by
  have huniq := (one_xr h0 hr).1
  have hnd' : (names.filter (isBound sys.st)).Nodup := hnd.sublist List.filter_sublist
  match hl : names.filter (isBound sys.st) with
  | [] => simp
  | [_] => simp
  | a :: b :: rest =>
    exfalso
    have ha : a ∈ names.filter (isBound sys.st) := by rw [hl]; simp
    have hb : b ∈ names.filter (isBound sys.st) := by rw [hl]; simp
    have hab : a = b := huniq a b ((isBound_iff _ _).mp (List.mem_filter.mp ha).2) ((isBound_iff _ _).mp (List.mem_filter.mp hb).2)
    rw [hl] at hnd'
    subst hab
    simp at hnd'

/-- Every XR the claim controller ever creates, over the whole history (all retries after
all interruptions, all stale reads), has one and the same name, and that is the name
durably recorded in the claim's `spec.resourceRef`: a retry reuses it. -/
theorem created_names_unique {s0 : St} (h0 : Init s0) {sys : Sys} (hr : Reach s0 sys) :
    (∀ n m, Ev.create n ∈ sys.st.trace → Ev.create m ∈ sys.st.trace → n = m) ∧
    (∀ n c r, Ev.create n ∈ sys.st.trace → sys.st.claim = some c → c.ref = some r → n = r) := by
  have hi := (reach_inv h0.inv hr).1
  have key : ∀ n, Ev.create n ∈ sys.st.trace → acked sys.st n := by
    intro n hn
    have : ∀ tr, TraceOk (acked s0) tr → (∀ m, Ev.ack m ∈ tr → acked sys.st m) → Ev.create n ∈ tr → acked sys.st n := by
      intro tr
      induction tr with
      | nil => intro _ _ h; cases h
      | cons e t ih =>
        intro htr hack hmem
        rcases List.mem_cons.mp hmem with rfl | hmem
        · rcases htr.2.1 n rfl with h | h
          · exact hack n (List.mem_cons_of_mem _ h)
          · exact hi.p0 n h
        · exact ih htr.1 (fun m hm => hack m (List.mem_cons_of_mem _ hm)) hmem
    exact this _ hi.trace hi.ackHist hn
  refine ⟨fun n m hn hm => acked_unique hi (key n hn) (key m hm), ?_⟩
  intro n c r hn hc hr'
  exact acked_unique hi (key n hn) ⟨c, cur_mem hi hc, hr'⟩

/-! ### ref_before_create -/

/-- In every execution prefix, the creation of XR `n` (Create by the client-side syncer,
apply-create by the server-side one) is preceded by an acknowledged claim update carrying
`spec.resourceRef.name = n` — or the claim already carried that reference in a version
stored before the start. (The trace is newest-first: `pre` is what happened before.) -/
theorem ref_before_create {s0 : St} (h0 : Init s0) {sys : Sys} (hr : Reach s0 sys)
    (post pre : List Ev) (n : Name) (hsplit : sys.st.trace = post ++ Ev.create n :: pre) :
    Ev.ack n ∈ pre ∨ acked s0 n := by
  have hi := (reach_inv h0.inv hr).1
  have : ∀ tr post, TraceOk (acked s0) tr → tr = post ++ Ev.create n :: pre → Ev.ack n ∈ pre ∨ acked s0 n := by
    intro tr
    induction tr with
    | nil => intro post _ h; cases post <;> cases h
    | cons e t ih =>
      intro post htr h
      cases post with
      | nil =>
        simp only [List.nil_append, List.cons.injEq] at h
        obtain ⟨rfl, rfl⟩ := h
        exact htr.2.1 n rfl
      | cons p ps =>
        simp only [List.cons_append, List.cons.injEq] at h
        exact ih ps htr.1 h.2
  exact this _ post hi.trace hsplit

/-! ### no_hijack -/

/-- No write and no delete of the claim controller ever takes effect on an XR whose stored
`spec.claimRef` names another claim (in the environment the property fixes; XR reads may be
stale). -/
theorem no_hijack {s0 : St} (h0 : Init s0) {sys : Sys} (hr : Reach s0 sys) (n : Name) :
    Ev.xrWrite n true ∉ sys.st.trace := by
  have hi := (reach_inv h0.inv hr).1
  have : ∀ tr, TraceOk (acked s0) tr → Ev.xrWrite n true ∉ tr := by
    intro tr
    induction tr with
    | nil => intro _ h; cases h
    | cons e t ih =>
      intro htr h
      rcases List.mem_cons.mp h with rfl | h
      · exact htr.2.2 n rfl
      · exact ih htr.1 h
  exact this _ hi.trace

/-- The same, stated on the requests: whenever a call of the in-flight reconcile is about
to be applied to the store, it is not addressed to a foreign-bound XR, and if it creates
or (re)binds an XR then that XR's name is durably recorded in the claim. -/
theorem next_call_safe {s0 : St} (h0 : Init s0) {s : St} {r : Req} {k : Resp → P}
    (hr : Reach s0 ⟨s, some (.call r k)⟩) : G s r :=
  ((reach_inv h0.inv hr).2 _ rfl s (Fut.refl s) (reach_inv h0.inv hr).1).1

/-! ### regenerated facts: the modelled Go functions still have the modelled call skeleton -/

/-- `Reconcile`: Get claim, Get XR, unbound check, Upgrade, [Delete, RemoveFinalizer] | [AddFinalizer, Sync], … -/
theorem skeleton_reconcile : Xp.Gen.c06SkelReconcile = skelReconcile := by decide

/-- server-side `Sync`: GenerateName, Update(claim), then Patch(XR), then Status().Update(claim) -/
theorem skeleton_ssa_sync : Xp.Gen.c06SkelSsaSync = skelSsaSync := by decide

/-- client-side `Sync`: GenerateName, Update(claim), then Apply(XR), Status().Update(claim), Update(claim) -/
theorem skeleton_csa_sync : Xp.Gen.c06SkelCsaSync = skelCsaSync := by decide

theorem skeleton_upgrade : Xp.Gen.c06SkelUpgrade = skelUpgrade := by decide

theorem skeleton_generate_name : Xp.Gen.c06SkelGenerateName = skelGenerateName := by decide

/-! ### the correspondence driver's schedules are executions of this system -/

/-- Running a reconcile under any fault plan with scripted environment actions after each
call (what `Xp.Drv.C06` does to replay a run of the real code) yields a reachable state. -/
theorem driver_runs_are_executions {s0 : St} (cfg : Cfg) (plan : Plan) (env : Nat → List EnvAct) (s : St)
    (t : Option P) (h : Reach s0 ⟨s, t⟩) : ∃ t', Reach s0 ⟨(runRec plan env 0 (reconcile cfg) s).1, t'⟩ :=
  runRec_reach plan env 0 _ s (Reach.step _ _ h (Step.start s t cfg))

/-! ### non-vacuity -/

/-- a new claim (no reference, no finalizer), a foreign-bound XR `x-a`, an unbound XR `x-b` -/
def exClaim : Claim := ⟨1, none, false, false, false⟩
def exStore : St :=
  { claim := some exClaim, hist := [exClaim],
    xrs := fun n => if n = "x-a" then some ⟨2, some .other, false, true, false, true, 0⟩
                    else if n = "x-b" then some ⟨3, none, false, false, false, false, 0⟩ else none,
    xhist := fun n => [if n = "x-a" then some ⟨2, some .other, false, true, false, true, 0⟩
                       else if n = "x-b" then some ⟨3, none, false, false, false, false, 0⟩ else none],
    nextRv := 10, trace := [] }

example : Init exStore := by
  refine Init.single (c := exClaim) rfl rfl (by decide) rfl ?_ (fun n => rfl)
  intro n ⟨x, hx, hc⟩
  simp only [exStore] at hx
  split at hx
  · cases hx; cases hc
  · split at hx
    · cases hx; cases hc
    · cases hx

/-- a complete server-side reconcile of `exStore` whose first candidate name collides with the
foreign XR: get claim, add finalizer, Get x-a (taken), Get c-1 (free), update claim, apply -/
def exRun : Sys :=
  stepOk (stepOk (stepOk (stepOk (stepOk (stepOk
    ⟨exStore, some (reconcile { ssa := true, pick := none, xpick := fun _ => none, cands := ["x-a", "c-1"], up := none })⟩)))))

example : Reach exStore exRun :=
  stepOk_reach (stepOk_reach (stepOk_reach (stepOk_reach (stepOk_reach (stepOk_reach
    (Reach.step _ _ Reach.init (Step.start _ _ _)))))))

/-- the hypotheses are met by an execution that really creates and binds an XR -/
example : exRun.st.trace = [.create "c-1", .ack "c-1"] ∧ isBound exRun.st "c-1" = true ∧
    (exRun.st.claim.map (·.ref)) = some (some "c-1") := by decide

/-! ### recorded limit (outside the property's quantifier)

If ANOTHER claim's controller may bind XRs (not an `Env` step), the window between the read of
the XR and the server-side syncer's forced apply is unprotected: the apply carries no
resourceVersion. Witness: claim statically referencing the unbound XR `x-b`; the reconcile
reads it (unbound), updates the claim; then `x-b` is bound to another claim; the pending apply
rebinds it. (The client-side syncer's merge patch carries the rv of the XR read and is rejected.) -/

def exClaim2 : Claim := ⟨1, some "x-b", true, false, false⟩
def exStore2 : St := { exStore with claim := some exClaim2, hist := [exClaim2] }

/-- something that is not an environment step of this model: another claim takes the XR -/
def bindOther (s : St) (n : Name) : St :=
  match s.xrs n with
  | some x => (putXR s n { x with cref := some .other }).1
  | none => s

def exRun2 (ssa : Bool) : Sys :=
  let cfg : Cfg := { ssa := ssa, pick := none, xpick := fun _ => none, cands := [], up := none }
  -- get claim, get XR x-b, (csa: get XR again) then the foreign bind, then the pending write
  let a := stepOk (stepOk ⟨exStore2, some (reconcile cfg)⟩)
  let b := if ssa then stepOk a else a      -- ssa: Update(claim) comes first
  let c := if ssa then b else stepOk b      -- csa: the Get of Apply
  stepOk ⟨bindOther c.st "x-b", c.thread⟩

example : Ev.xrWrite "x-b" true ∈ (exRun2 true).st.trace := by decide
example : Ev.xrWrite "x-b" true ∉ (exRun2 false).st.trace := by decide

end Xp.C06

import Xp.Proofs.C06Race
import Xp.Proofs.C06Mf
import Xp.Gen.C06
/-
C06 — a claim binds exactly one XR and never hijacks another claim's XR.

System (Xp/Model/C06.lean): one claim-controller thread running `reconcile cfg`
(both syncers; `cfg` = syncer, which cached version of the claim the read returns,
name oracle, managed-fields oracle), interleaved at API-call granularity with the
environment `Env` (XR controller / GC / user rewriting or removing XRs without ever
changing spec.claimRef or creating an XR; user editing or deleting the claim, possibly
rewriting apiVersion/kind of spec.resourceRef, without changing spec.resourceRef.name), every call possibly failing (`callErr`: server error or
conflict; `callLost`: applied but the reply is lost), and crashes/restarts at any point
(`start` drops the in-flight reconcile and begins a new one with arbitrary `cfg` — including
another XR version `cfg.xrt` of the controller; crash-after = `callOk` then `start`).
`Reach s0 sys` = `sys` is reachable from the store `s0`. The theorems hold for every
reachable state, i.e. over ALL schedules, fault plans, cache lags and histories.

All reads go through the cache, as in the real controller (`engine.GetCached()`): the claim
read may return ANY version the claim ever had (`pick`), and every XR read — the Get in
Reconcile, the Get inside the client-side Apply, the availability Gets of the name
generator — may return ANY earlier state of that name, including "absent" (`xpick`). So the
hypothesis `xrReadFresh` of DESIGN.md 6/C06 is NOT needed in the environment the property
fixes: an XR bound to another claim has been so in every state its name ever had (nobody but
this controller creates XRs or sets a claimRef, and it only writes its own), hence a stale
read that shows "absent / unbound / ours" still proves "not foreign now" (`Inv.xfor`,
`not_foreign_of_hist`). What remains outside is an environment in which ANOTHER claim's
controller binds XRs: there, between any read and the forced apply of the server-side
syncer, the XR can become foreign (recorded limit, outside the property's quantifier).

References are full references. A claim's `spec.resourceRef` is (name, group, version, kind); an
XR's `spec.claimRef` and the claim's own identity `St.me` (= `cm.GetReference()`) are (name,
namespace, group, version, kind). "The claim references an XR" is a function of the reference's
NAME only, as in the code (`Claim.refName`), so the one-XR theorems hold whatever group, version
or kind the recorded reference carries — also when the controller's XR version (`Cfg.xrt`,
arbitrary at every `start`) changes between reconciles and when somebody rewrites the type of the
reference (`Env.claimWrite` only fixes the name). "The XR is bound to this claim" is equality of
all five components (`cmp.Equal` on reference.Claim): `no_hijack` speaks about every XR whose
claimRef differs from `St.me` in ANY of them (`no_hijack_components`), e.g. the claim with the
same name in another namespace. A `uid` key in a claimRef is not a component the code looks at
(`unbound_ignores_uid`). Not varied: the claim's own apiVersion (`St.me` is fixed; if the claim
version is switched the pinned code refuses its own XR — no second XR, nothing written).

Hardening round (what the quantifiers below now also range over).
* ERROR CLASSES / LOST REPLIES: `Step.callErr` lets ANY call of the reconcile return an error of ANY class
  (`Err`: NotFound, Conflict, Invalid, AlreadyExists, other — Forbidden, transport timeouts and context
  deadlines are `other`: the code has no branch for them) without being applied, and `Step.callLost` lets it
  take effect and still return any error; the one exclusion is `admissible`: an XR read answers NotFound
  only where the name really was absent (stored state, or an older one served by the cache).
* OTHER CLAIMS: `St.others` holds the other claims of the kind; the same long-lived controller reconciles
  them (`swap`), and `other_claims_reconcile_is_environment` shows that, seen from any one claim, a
  reconcile of another claim is a sequence of environment steps of a world with peers (`St.peers = true`,
  `Env.peerWrite`: XRs created, rebound, unbound by another claim's controller at any moment; never bound to
  the viewing claim). Every theorem that does not assume `peers = false` therefore holds for each claim
  of such a world: `ref_set_once`, `one_xr`, `one_xr_count`, `created_names_unique`,
  `created_name_any_ref_type`, `ref_before_create`, `next_call_safe`, and `no_hijack_guarded` (the writes
  that carry the XR's resourceVersion never hit a foreign-bound XR). `no_hijack` for ALL writes needs
  `peers = false` (the environment the property fixes); `raced_*_hijacks_with_peers` show that with peers
  each of the three unconditional requests does rebind / delete another claim's XR (finding).
* The environment may also create unbound XRs (`Env.xrCreate`: AlreadyExists on the client-side Create).

`Init s0` (Xp/Proofs/C06Run.lean) = admissible initial store: empty ghost trace; the
claim's version history is well formed (strictly increasing rv, set-once reference name, every
version is the object `St.me`, the stored version is the newest); an XR already bound to this claim is one the claim
references or referenced; XR state histories are consistent (`xcur`, `xfor`, resourceVersions below the
counter and identifying the claimRef: `xrvLt`, `rvU`).
`Init.single` builds it from a claim with a single version and XRs without history.
-/
namespace Xp.C06

/-! ### key lemma: spec.resourceRef is set-once -/

/-- A claim update carries the resourceVersion of the version that was read; if that is
not the stored version (stale cache), the update is rejected and nothing changes. -/
theorem stale_update_rejected (s : St) (cur c : Claim) (hc : s.claim = some cur) (hrv : c.rv ≠ cur.rv) :
    exec s (.updClaim c) = (s, .err .conflict) := by
  simp [exec, hc, hrv]

/-- The NAME in `spec.resourceRef` is set-once: in every reachable state, a newer stored version of
the claim references an XR of the same name as every older one, and any two versions that carry a
reference name the same XR — whatever group, version and kind the two references carry (those
may differ: the syncers rewrite them to the controller's current XR type). -/
theorem ref_set_once {s0 : St} (h0 : Init s0) {sys : Sys} (hr : Reach s0 sys) :
    (∀ a ∈ sys.st.hist, ∀ b ∈ sys.st.hist, a.rv < b.rv → ∀ r, a.ref = some r → ∃ r', b.ref = some r' ∧ r'.name = r.name) ∧
    (∀ a ∈ sys.st.hist, ∀ b ∈ sys.st.hist, ∀ r r', a.ref = some r → b.ref = some r' → r.name = r'.name) := by
  have hi := (reach_inv h0.inv hr).1
  refine ⟨?_, fun a ha b hb r r' hn hm => hist_ref_unique hi.mono ha hb (refName_of_ref hn) (refName_of_ref hm)⟩
  intro a ha b hb hlt r hn
  have key : b.refName = some r.name := by
    rcases pairwise_mem_cases hi.mono ha hb with e | ⟨h, _⟩ | ⟨_, h⟩
    · subst e; omega
    · omega
    · exact h _ (refName_of_ref hn)
  unfold Claim.refName at key
  cases hb' : b.ref with
  | none => rw [hb'] at key; cases key
  | some r' => rw [hb'] at key; exact ⟨r', rfl, Option.some.inj key⟩

/-! ### the recorded name is what is looked up and reused, whatever type the reference carries -/

/-- the request a program issues first -/
def firstReq : P → Option Req
  | .call r _ => some r
  | .ret _ => none

/-- A claim whose `spec.resourceRef` carries the name `n` under ANY group `g`, version `v` and kind
`k` — the controller's current XR apiVersion, another served version of the same kind (the XRD's
referenceable version was switched and the controller restarted for `cfg.xrt`), another group,
another kind, or none at all — is treated as bound to `n`: Reconcile reads XR `n`; the server-side
syncer updates the claim with, then applies, `n`; the client-side syncer applies `n`, after an
Update(claim) that records `n` again if the stored reference is not literally the proposed one.
No path draws a fresh name. -/
theorem recorded_name_reused (cfg : Cfg) (cm : Claim) (xr : Option XR) (n : Name) (g v k : String) :
    firstReq (withClaim cfg { cm with ref := some ⟨n, g, v, k⟩ }) = some (.getXR n (cfg.xpick 0)) ∧
    syncSSA cfg { cm with ref := some ⟨n, g, v, k⟩ } = ssaBind cfg { cm with ref := some ⟨n, g, v, k⟩ } n ∧
    (syncCSA cfg { cm with ref := some ⟨n, g, v, k⟩ } xr = csaApply cfg xr { cm with ref := some ⟨n, g, v, k⟩ } n ∨
     syncCSA cfg { cm with ref := some ⟨n, g, v, k⟩ } xr = csaBindNew cfg xr { cm with ref := some ⟨n, g, v, k⟩ } n) := by
  refine ⟨rfl, rfl, ?_⟩
  simp only [syncCSA]
  split
  · exact Or.inl rfl
  · exact Or.inr rfl

/-! ### one_xr -/

/-- At every instant of every execution at most one XR is bound to the claim (carries a claimRef
equal to the claim's reference in name, namespace, group, version and kind), and it is the one the
claim's stored `spec.resourceRef` names — whatever group, version and kind that reference carries. -/
theorem one_xr {s0 : St} (h0 : Init s0) {sys : Sys} (hr : Reach s0 sys) :
    (∀ n m, boundAt sys.st n → boundAt sys.st m → n = m) ∧
    (∀ c (r : XRef), sys.st.claim = some c → c.ref = some r → ∀ n, boundAt sys.st n → n = r.name) := by
  have hi := (reach_inv h0.inv hr).1
  refine ⟨fun n m hn hm => acked_unique hi (hi.bound n hn) (hi.bound m hm), ?_⟩
  intro c r hc hr' n hn
  exact acked_unique hi (hi.bound n hn) ⟨c, cur_mem hi hc, refName_of_ref hr'⟩

/-- the same as a count: among any duplicate-free list of XR names at most one is bound -/
theorem one_xr_count {s0 : St} (h0 : Init s0) {sys : Sys} (hr : Reach s0 sys) (names : List Name) (hnd : names.Nodup) :
    (names.filter (isBound sys.st)).length ≤ 1 := by
  have huniq := (one_xr h0 hr).1
  have hnd' : (names.filter (isBound sys.st)).Nodup := hnd.sublist List.filter_sublist
  match hl : names.filter (isBound sys.st) with
  | [] => simp
  | [_] => simp
  | a :: b :: rest =>
    exfalso
    have ha : a ∈ names.filter (isBound sys.st) := by rw [hl]; simp
    have hb : b ∈ names.filter (isBound sys.st) := by rw [hl]; simp
    have hab : a = b := huniq a b ((isBound_iff _ _).mp (List.mem_filter.mp ha).2) ((isBound_iff _ _).mp (List.mem_filter.mp hb).2)
    rw [hl] at hnd'
    subst hab
    simp at hnd'

/-- Every XR the claim controller ever creates, over the whole history (all retries after
all interruptions, all stale reads, all restarts of the controller under another XR version), has
one and the same name, and that is the name durably recorded in the claim's `spec.resourceRef`:
a retry reuses it, whatever group, version and kind the recorded reference carries. -/
theorem created_names_unique {s0 : St} (h0 : Init s0) {sys : Sys} (hr : Reach s0 sys) :
    (∀ n m, Ev.create n ∈ sys.st.trace → Ev.create m ∈ sys.st.trace → n = m) ∧
    (∀ n c (r : XRef), Ev.create n ∈ sys.st.trace → sys.st.claim = some c → c.ref = some r → n = r.name) := by
  have hi := (reach_inv h0.inv hr).1
  have key : ∀ n, Ev.create n ∈ sys.st.trace → acked sys.st n := by
    intro n hn
    have : ∀ tr, TraceOk (acked s0) (sys.st.peers = false) sys.st.me tr → (∀ m, Ev.ack m ∈ tr → acked sys.st m) → Ev.create n ∈ tr → acked sys.st n := by
      intro tr
      induction tr with
      | nil => intro _ _ h; cases h
      | cons e t ih =>
        intro htr hack hmem
        rcases List.mem_cons.mp hmem with rfl | hmem
        · rcases htr.2.1 n rfl with h | h
          · exact hack n (List.mem_cons_of_mem _ h)
          · exact hi.p0 n h
        · exact ih htr.1 (fun m hm => hack m (List.mem_cons_of_mem _ hm)) hmem
    exact this _ hi.trace hi.ackHist hn
  refine ⟨fun n m hn hm => acked_unique hi (key n hn) (key m hm), ?_⟩
  intro n c r hn hc hr'
  exact acked_unique hi (key n hn) ⟨c, cur_mem hi hc, refName_of_ref hr'⟩

/-- the same with the components spelled out: if the stored claim records the name `nm` under ANY
group `g`, version `v` and kind `k`, every XR ever created is called `nm` -/
theorem created_name_any_ref_type {s0 : St} (h0 : Init s0) {sys : Sys} (hr : Reach s0 sys)
    (c : Claim) (nm : Name) (g v k : String) (hc : sys.st.claim = some c) (href : c.ref = some ⟨nm, g, v, k⟩)
    (n : Name) (hn : Ev.create n ∈ sys.st.trace) : n = nm :=
  (created_names_unique h0 hr).2 n c _ hn hc href

/-! ### ref_before_create -/

/-- In every execution prefix, the creation of XR `n` (Create by the client-side syncer,
apply-create by the server-side one) is preceded by an acknowledged claim update carrying
`spec.resourceRef.name = n` — or the claim already carried that reference in a version
stored before the start. (The trace is newest-first: `pre` is what happened before.) -/
theorem ref_before_create {s0 : St} (h0 : Init s0) {sys : Sys} (hr : Reach s0 sys)
    (post pre : List Ev) (n : Name) (hsplit : sys.st.trace = post ++ Ev.create n :: pre) :
    Ev.ack n ∈ pre ∨ acked s0 n := by
  have hi := (reach_inv h0.inv hr).1
  have : ∀ tr post, TraceOk (acked s0) (sys.st.peers = false) sys.st.me tr → tr = post ++ Ev.create n :: pre → Ev.ack n ∈ pre ∨ acked s0 n := by
    intro tr
    induction tr with
    | nil => intro post _ h; cases post <;> cases h
    | cons e t ih =>
      intro post htr h
      cases post with
      | nil =>
        simp only [List.nil_append, List.cons.injEq] at h
        obtain ⟨rfl, rfl⟩ := h
        exact htr.2.1 n rfl
      | cons p ps =>
        simp only [List.cons_append, List.cons.injEq] at h
        exact ih ps htr.1 h.2
  exact this _ post hi.trace hsplit

/-! ### no_hijack -/

/-- In a world without other claims' controllers (`s0.peers = false`: the environment the property
fixes; XR reads may be stale): no write and no delete of the claim controller ever takes effect on an
XR whose stored `spec.claimRef` is not exactly this claim's reference: whenever such a call — conditional
on the resourceVersion (`xrWriteG`) or not (`xrWrite`) — was applied to an XR carrying a claimRef `r`,
then `r` is the claim's own reference. -/
theorem no_hijack {s0 : St} (h0 : Init s0) (hp : s0.peers = false) {sys : Sys} (hr : Reach s0 sys) (n : Name) (r : CRef) :
    Ev.xrWrite n (some r) ∈ sys.st.trace ∨ Ev.xrWriteG n (some r) ∈ sys.st.trace → r = s0.me := by
  have hi := (reach_inv h0.inv hr).1
  have hp' : sys.st.peers = false := (reach_me_peers hr).2.trans hp
  rw [← reach_me hr]
  have : ∀ tr, TraceOk (acked s0) (sys.st.peers = false) sys.st.me tr →
      Ev.xrWrite n (some r) ∈ tr ∨ Ev.xrWriteG n (some r) ∈ tr → r = sys.st.me := by
    intro tr
    induction tr with
    | nil => intro _ h; rcases h with h | h <;> cases h
    | cons e t ih =>
      intro htr h
      rcases h with h | h
      · rcases List.mem_cons.mp h with rfl | h
        · exact htr.2.2.1 n r rfl hp'
        · exact ih htr.1 (Or.inl h)
      · rcases List.mem_cons.mp h with rfl | h
        · exact htr.2.2.2 n r rfl
        · exact ih htr.1 (Or.inr h)
  exact this _ hi.trace

/-- In EVERY world — also one in which other claims' controllers create XRs and bind XRs to their
claims at any moment (`s0.peers = true`, `Env.peerWrite`) — the writes that carry the resourceVersion of
the XR as read (the managed-fields JSON patch; the client-side syncer's merge patch of an XR that
Reconcile's Get found) never take effect on an XR whose stored claimRef names another claim: the bound
check passed on the state with that resourceVersion, and the server accepts the write only on a state
with the same claimRef. What is NOT protected there is exactly the unconditional requests (`xrWrite`:
Delete, the server-side syncer's forced apply, the client-side merge patch of an XR that Reconcile's Get
did not find): see `raced_*` below. -/
theorem no_hijack_guarded {s0 : St} (h0 : Init s0) {sys : Sys} (hr : Reach s0 sys) (n : Name) (r : CRef) :
    Ev.xrWriteG n (some r) ∈ sys.st.trace → r = s0.me := by
  have hi := (reach_inv h0.inv hr).1
  rw [← reach_me hr]
  have : ∀ tr, TraceOk (acked s0) (sys.st.peers = false) sys.st.me tr → Ev.xrWriteG n (some r) ∈ tr → r = sys.st.me := by
    intro tr
    induction tr with
    | nil => intro _ h; cases h
    | cons e t ih =>
      intro htr h
      rcases List.mem_cons.mp h with rfl | h
      · exact htr.2.2.2 n r rfl
      · exact ih htr.1 h
  exact this _ hi.trace

/-- component-wise: an XR whose claimRef differs from this claim's reference in ANY component
`cmp.Equal` looks at — the name, the namespace (the same-named claim of another namespace), the
group, the version or the kind — is never written or deleted by this claim's controller. -/
theorem no_hijack_components {s0 : St} (h0 : Init s0) (hp : s0.peers = false) {sys : Sys} (hr : Reach s0 sys) (n : Name) (r : CRef)
    (hdiff : r.name ≠ s0.me.name ∨ r.ns ≠ s0.me.ns ∨ r.group ≠ s0.me.group ∨ r.version ≠ s0.me.version ∨
      r.kind ≠ s0.me.kind) : Ev.xrWrite n (some r) ∉ sys.st.trace ∧ Ev.xrWriteG n (some r) ∉ sys.st.trace := by
  have key : ¬ (Ev.xrWrite n (some r) ∈ sys.st.trace ∨ Ev.xrWriteG n (some r) ∈ sys.st.trace) := by
    intro h
    have := no_hijack h0 hp hr n r h
    subst this
    rcases hdiff with h | h | h | h | h <;> exact h rfl
  exact ⟨fun h => key (Or.inl h), fun h => key (Or.inr h)⟩

/-- the bound check of Reconcile as a function of the five components -/
theorem unbound_iff_components (cm : Claim) (x : XR) :
    unbound cm x = true ↔ ∃ r, x.cref = some r ∧ (r.name ≠ cm.id.name ∨ r.ns ≠ cm.id.ns ∨ r.group ≠ cm.id.group ∨
      r.version ≠ cm.id.version ∨ r.kind ≠ cm.id.kind) := by
  unfold unbound
  cases hc : x.cref with
  | none => simp
  | some r =>
    obtain ⟨a, b, c, d, e⟩ := r
    cases hid : cm.id with
    | mk a' b' c' d' e' =>
      simp only [bne_iff_ne, ne_eq, Option.some.injEq, CRef.mk.injEq, exists_eq_left']
      constructor
      · intro h
        by_cases h1 : a = a'
        · by_cases h2 : b = b'
          · by_cases h3 : c = c'
            · by_cases h4 : d = d'
              · by_cases h5 : e = e'
                · exact absurd ⟨h1, h2, h3, h4, h5⟩ h
                · exact Or.inr (Or.inr (Or.inr (Or.inr h5)))
              · exact Or.inr (Or.inr (Or.inr (Or.inl h4)))
            · exact Or.inr (Or.inr (Or.inl h3))
          · exact Or.inr (Or.inl h2)
        · exact Or.inl h1
      · rintro (h | h | h | h | h) ⟨h1, h2, h3, h4, h5⟩ <;> exact h (by assumption)

/-- a `uid` (or any other key reference.Claim has no field for) in the XR's claimRef is not part of
the comparison: it neither makes the XR foreign nor bound -/
theorem unbound_ignores_uid (cm : Claim) (x : XR) (b : Bool) : unbound cm { x with crefUid := b } = unbound cm x := rfl

/-- The same, stated on the requests: whenever a call of the in-flight reconcile is about
to be applied to the store, it is not addressed to a foreign-bound XR, and if it creates
or (re)binds an XR then that XR's name is durably recorded in the claim. -/
theorem next_call_safe {s0 : St} (h0 : Init s0) {s : St} {r : Req} {k : Resp → P}
    (hr : Reach s0 ⟨s, some (.call r k)⟩) : G s r :=
  ((reach_inv h0.inv hr).2 _ rfl s (Fut.refl s) (reach_inv h0.inv hr).1).1

/-- the XR a write or delete request is addressed to -/
def xrTarget : Req → Option Name
  | .upgradeXR n _ _ | .deleteXR n _ | .createXR n _ _ | .patchXR n _ _ | .applyXR n _ => some n
  | _ => none

/-- Clause "a retry reuses that name", on the requests (monitor C06:write-off-ref as a theorem): whenever ANY write
or delete of the in-flight reconcile — the managed-fields patch, Delete, Create, merge patch, forced apply — is
about to be applied, the XR it is addressed to is the one whose name is durably recorded in the claim: some stored
version of the claim carries that name, and it is the name of the stored `spec.resourceRef` (whatever group,
version and kind that reference carries) if the claim still has one. In every world, over all schedules, fault
plans, cache lags (a stale claim read included) and histories. -/
theorem writes_only_to_recorded_name {s0 : St} (h0 : Init s0) {s : St} {r : Req} {k : Resp → P}
    (hr : Reach s0 ⟨s, some (.call r k)⟩) (n : Name) (hw : xrTarget r = some n) :
    acked s n ∧ ∀ c (ref : XRef), s.claim = some c → c.ref = some ref → ref.name = n := by
  have hg := next_call_safe h0 hr
  have hi := (reach_inv h0.inv hr).1
  have hack : acked s n := by
    cases r with
    | upgradeXR m rv d => cases hw; exact hg.2
    | deleteXR m fg => cases hw; exact hg.2
    | createXR m b c => cases hw; exact hg.1
    | patchXR m rv c => cases hw; exact hg.1.1.1
    | applyXR m c => cases hw; exact hg.1.1
    | _ => cases hw
  refine ⟨hack, fun c ref hc href => ?_⟩
  exact acked_unique hi ⟨c, cur_mem hi hc, refName_of_ref href⟩ hack

/-! ### server-side wiring: no XR write without an accepted, resourceVersion-checked claim write before it -/

/-- ServerSideCompositeSyncer.Sync, for EVERY configuration, claim copy (however stale), name oracle and EVERY
sequence of replies (errors of any class at any call): the forced apply of the XR — the only XR write of the
server-side Sync, which creates the XR or rebinds it — is issued only after an `Update(claim)` of the same Sync
that the server accepted. That Update carries the resourceVersion of the copy read (`stale_update_rejected`: a
stale copy is answered Conflict, a copy of a claim that is gone NotFound), so a reconcile working on a stale
copy of the claim — also one from before the claim's deletion or re-creation — never writes an XR. This is the
optimistic-concurrency check of the whole reconcile; the seeded change C06-9 (Update skipped when the claim looks
unchanged) removes the call and with it this theorem's premise `skeleton_ssa_sync`-independent content: it is caught
by the monitors C06:xr-for-nonexistent-claim / C06:second-xr. (The CLIENT-side Sync has no such property on the
pinned tree: finding C06:xr-created-from-stale-claim-without-claim-write.) -/
theorem ssa_sync_writes_xr_only_after_accepted_claim_update (reply : Req → Resp) (fuel : Nat) (cfg : Cfg) (cm : Claim) :
    applyAfterUpd reply fuel false (syncSSA cfg cm) = true := by
  unfold syncSSA
  cases cm.refName with
  | some n => exact applyAfterUpd_ssaBind reply fuel cfg cm n
  | none =>
    refine applyAfterUpd_genName reply cfg.xpick _ ?_ 10 fuel 2 cfg.cands
    intro f o
    cases o with
    | some n => exact applyAfterUpd_ssaBind reply f cfg cm n
    | none => exact applyAfterUpd_statusThen reply f false cm .requeue

/-! ### regenerated facts: the modelled Go functions still have the modelled call skeleton -/

/-- `Reconcile`: Get claim, Get XR, unbound check, Upgrade, [Delete, RemoveFinalizer] | [AddFinalizer, Sync], … -/
theorem skeleton_reconcile : Xp.Gen.c06SkelReconcile = skelReconcile := by decide

/-- server-side `Sync`: GenerateName, Update(claim), then Patch(XR), then Status().Update(claim) -/
theorem skeleton_ssa_sync : Xp.Gen.c06SkelSsaSync = skelSsaSync := by decide

/-- client-side `Sync`: GenerateName, Update(claim), then Apply(XR), Status().Update(claim), Update(claim) -/
theorem skeleton_csa_sync : Xp.Gen.c06SkelCsaSync = skelCsaSync := by decide

theorem skeleton_upgrade : Xp.Gen.c06SkelUpgrade = skelUpgrade := by decide

theorem skeleton_generate_name : Xp.Gen.c06SkelGenerateName = skelGenerateName := by decide

/-- crossplane-runtime `APIPatchingApplicator.Apply` (the module source the harness is linked against): [Create
for a nameless object,] Get, Create on NotFound, [ApplyOptions,] Patch — what `csaApply` mirrors -/
theorem skeleton_apply : Xp.Gen.c06SkelApply = skelApply := by decide

/-- crossplane-runtime `APIFinalizer.AddFinalizer` / `RemoveFinalizer`: one Update each -/
theorem skeleton_add_finalizer : Xp.Gen.c06SkelAddFinalizer = skelAddFinalizer := by decide

theorem skeleton_remove_finalizer : Xp.Gen.c06SkelRemoveFinalizer = skelRemoveFinalizer := by decide

/-- offered/reconciler.go: under features.EnableBetaClaimSSA exactly the server-side syncer AND the patching
managed-fields upgrader are wired (`Cfg.ssa` stands for both: `syncWith`, `upgradeOf`) … -/
theorem wiring_ssa : Xp.Gen.c06WiringSSA = wiringSSA := by decide

/-- … and claim.NewReconciler's defaults are the client-side syncer and the Nop upgrader -/
theorem wiring_default : Xp.Gen.c06WiringDefault = wiringDefault := by decide

/-- the field manager `Upgrade` looks for is claim.FieldOwnerXR -/
theorem field_owner_tied : Xp.Gen.c06FieldOwnerXR = ssaManager := by decide

/-! #### the declared skeletons of the syncers are the request sequences of the model's programs

`pathReqs (okReply …)` lists the requests a model program issues when every call succeeds; mapped to client
verbs they ARE the declared (and hence, by `skeleton_*`, the regenerated) skeletons, for every configuration,
claim, XR and name. -/

/-- server-side `Sync` = GenerateName, then the three requests of `ssaBind` -/
theorem skeleton_ssa_sync_from_model (cfg : Cfg) (cm : Claim) (x : XR) (n : Name) :
    skelSsaSync = "names.GenerateName" :: (pathReqs (okReply cm x true) 3 (ssaBind cfg cm n)).map reqVerb := rfl

/-- client-side `Sync` = GenerateName, the Update of `csaBindNew`, Apply, the two requests of `csaPost` -/
theorem skeleton_csa_sync_from_model (cfg : Cfg) (xr : Option XR) (cm : Claim) (x : XR) (n : Name) :
    skelCsaSync = "names.GenerateName" :: (pathReqs (okReply cm x false) 1 (csaBindNew cfg xr cm n)).map reqVerb ++
      "client.Apply" :: (pathReqs (okReply cm x false) 2 (csaPost cm)).map reqVerb := rfl

/-- `Apply` = [the nameless-object Create,] the two paths of `csaApply`: Get + Create (NotFound), Get + Patch -/
theorem skeleton_apply_from_model (cfg : Cfg) (cm : Claim) (x : XR) (n : Name) :
    skelApply = "client.Create" :: ((pathReqs (okReply cm x false) 2 (csaApply cfg none cm n)).map reqVerb ++
      ((pathReqs (okReply cm x true) 2 (csaApply cfg none cm n)).map reqVerb).drop 1) := rfl

/-- `Upgrade` = one Patch per constructor of `UpDec`, the removal first (source order of the switch) -/
theorem skeleton_upgrade_from_model (n : Name) (rv i : Nat) :
    skelUpgrade = [UpDec.removeAt i, UpDec.clear].map fun d => reqVerb (.upgradeXR n rv d) := rfl

/-! ### the client-side syncer's Apply: its options as model steps -/

/-- the object the client-side syncer asks Apply for, built from the XR as read: claimRef and claim labels
set to this claim's (SetClaimReference replaces the whole reference: a uid key goes), everything else —
including the resourceVersion — as read -/
def csaDesired (me : CRef) (x : XR) : XR := { x with cref := some me, crefUid := false, lbl := some (me.name, me.ns) }

/-- `AllowUpdateIf(func(old, obj) bool { return !cmp.Equal(old, obj) })` refuses the update (`csaNoop`: no patch
is sent) iff the desired object changes nothing of the XR as read AND that is the current state (same
resourceVersion); an XR that was not read is always patched. -/
theorem csa_allow_update_if (me : CRef) (xr : Option XR) (cur : XR) :
    csaNoop me xr cur = true ↔ ∃ x, xr = some x ∧ csaDesired me x = x ∧ x.rv = cur.rv := by
  cases xr with
  | none => simp [csaNoop]
  | some x =>
    obtain ⟨rv, cref, uid, lbl, fin, del, st, gen, mf⟩ := x
    simp only [csaNoop, csaDesired, Bool.and_eq_true, beq_iff_eq, Bool.not_eq_true', Option.some.injEq, exists_eq_left', XR.mk.injEq,
      and_true, true_and]
    constructor
    · rintro ⟨⟨⟨h1, h2⟩, h3⟩, h4⟩; exact ⟨⟨h2.symm, h3.symm, h4.symm⟩, h1⟩
    · rintro ⟨⟨h2, h3, h4⟩, h1⟩; exact ⟨⟨⟨h1, h2.symm⟩, h3.symm⟩, h4.symm⟩

/-- `APIPatchingApplicator.Apply` as the client-side syncer calls it, step by step: Get; on NotFound a Create
that still carries the resourceVersion of the XR as read if there was one (the server rejects it); otherwise,
unless AllowUpdateIf refuses, ONE merge patch that carries the resourceVersion of the XR as read — the rv
precondition — and no resourceVersion at all if Reconcile's Get did not find the XR. -/
theorem csa_apply_steps (cfg : Cfg) (xr : Option XR) (cm1 : Claim) (n : Name) :
    ∃ k, csaApply cfg xr cm1 n = .call (.getXR n (cfg.xpick 1)) k ∧
      firstReq (k (.err .notFound)) = some (.createXR n xr.isSome cm1.id) ∧
      ∀ cur, firstReq (k (.xr cur)) =
        if csaNoop cm1.id xr cur then firstReq (csaPost cm1) else some (.patchXR n (xr.map XR.rv) cm1.id) := by
  refine ⟨_, rfl, rfl, fun cur => ?_⟩
  dsimp only
  split <;> rfl

/-! ### managed fields: the upgrader's decision and its two JSON patches (no oracle)

`PatchingManagedFieldsUpgrader.Upgrade` is inside the model: `upgradeDecision` is its loop and switch over the
manager names of the XR as read, `applyUpDec` the server's answer to the patch on the stored managers. -/

/-- the decision, for ALL manager lists: nothing to do iff the claim manager is there and no before-first-apply
entry is; clear iff the claim manager is not there; otherwise remove the LAST before-first-apply entry -/
theorem upgrade_decision_spec (ssa : String) (mf : List String) :
    (upgradeDecision ssa mf = none ↔ ssa ∈ mf ∧ bfaManager ∉ mf) ∧
    (upgradeDecision ssa mf = some .clear ↔ ssa ∉ mf) ∧
    (∀ i, upgradeDecision ssa mf = some (.removeAt i) ↔
      ssa ∈ mf ∧ mf[i]? = some bfaManager ∧ ∀ k, i < k → mf[k]? ≠ some bfaManager) :=
  ⟨decision_none_iff ssa mf, decision_clear_iff ssa mf,
    fun i => ⟨decision_remove ssa mf i, fun h => decision_remove_of ssa mf i h.1 h.2.1 h.2.2⟩⟩

/-- the patch computed from a state is applicable to THAT state unless it has no managers at all: an XR whose
managers were cleared and that was not applied yet (the reconcile was interrupted between `Upgrade` and the
apply) is answered Invalid by every later `Upgrade` until somebody records a manager -/
theorem upgrade_patch_applicable_iff (ssa : String) (mf : List String) (d : UpDec) (h : upgradeDecision ssa mf = some d) :
    (applyUpDec d mf).isSome = true ↔ mf ≠ [] := by
  cases d with
  | clear => cases mf <;> simp [applyUpDec]
  | removeAt i =>
    obtain ⟨_, hget, _⟩ := decision_remove ssa mf i h
    have hlt : i < mf.length := (List.getElem?_eq_some_iff.mp hget).1
    have hne : mf ≠ [] := by intro e; rw [e] at hlt; exact absurd hlt (by simp)
    simp [applyUpDec, hlt, hne]

theorem upgrade_rejected_without_managers (ssa : String) :
    upgradeDecision ssa [] = some .clear ∧ applyUpDec .clear [] = none := ⟨rfl, rfl⟩

/-- Whatever the store, the resourceVersion and the patch: the managed-fields patch changes neither the claim
(spec.resourceRef) nor any XR's claimRef, uid key, claim labels, finalizers, deletionTimestamp or status; it
creates and removes no XR. -/
theorem upgrade_keeps_refs (s : St) (n : Name) (rv : Nat) (d : UpDec) :
    (exec s (.upgradeXR n rv d)).1.claim = s.claim ∧ (exec s (.upgradeXR n rv d)).1.hist = s.hist ∧
    ∀ m, ((exec s (.upgradeXR n rv d)).1.xrs m).map (fun x => (x.cref, x.crefUid, x.lbl, x.fin, x.deleting, x.status, x.gen)) =
      (s.xrs m).map (fun x => (x.cref, x.crefUid, x.lbl, x.fin, x.deleting, x.status, x.gen)) := by
  simp only [exec]
  split
  · exact ⟨rfl, rfl, fun _ => rfl⟩
  · rename_i x hx
    split
    · exact ⟨rfl, rfl, fun _ => rfl⟩
    · split
      · exact ⟨rfl, rfl, fun _ => rfl⟩
      · refine ⟨rfl, rfl, fun m => ?_⟩
        simp only [emit, putXR]
        by_cases hm : m = n
        · subst hm; simp [hx]
        · simp [hm]

/-- the client-side wiring never issues the patch … -/
theorem upgrade_only_in_ssa_wiring (cfg : Cfg) (cm : Claim) (xr : Option (Name × XR)) (h : cfg.ssa = false) :
    afterCheck cfg cm xr = restOf cfg cm xr := by
  unfold afterCheck upgradeOf
  cases xr with
  | none => rfl
  | some p => simp [h]

/-- … and the server-side one issues exactly the patch decided on the managers of the XR as read, carrying the
resourceVersion read -/
theorem upgrade_request_is_decision (cfg : Cfg) (cm : Claim) (n : Name) (x : XR) (d : UpDec) (hs : cfg.ssa = true)
    (h : upgradeDecision ssaManager x.mf = some d) :
    firstReq (afterCheck cfg cm (some (n, x))) = some (.upgradeXR n x.rv d) := by
  unfold afterCheck upgradeOf
  simp [hs, h, firstReq]

/-- the forced apply records the claim manager, so after it `Upgrade` never clears again … -/
theorem upgrade_never_clears_after_apply (mf : List String) : upgradeDecision ssaManager (applyMf mf) ≠ some .clear := by
  intro h
  exact ((decision_clear_iff _ _).mp h) (ssa_mem_applyMf mf)

/-- … and each removal is accepted on the state it was decided on, keeps the claim manager and shortens the list:
after at most (number of before-first-apply entries) further patches the decision is "nothing to do" -/
theorem upgrade_remove_progress (mf : List String) (i : Nat) (h : upgradeDecision ssaManager mf = some (.removeAt i)) :
    ∃ mf', applyUpDec (.removeAt i) mf = some mf' ∧ ssaManager ∈ mf' ∧ mf'.length + 1 = mf.length := by
  obtain ⟨hs, hget, _⟩ := decision_remove _ mf i h
  have hlt : i < mf.length := (List.getElem?_eq_some_iff.mp hget).1
  refine ⟨mf.eraseIdx i, by simp [applyUpDec, hlt], ?_, ?_⟩
  · obtain ⟨j, hj⟩ := List.getElem?_of_mem hs
    refine List.mem_eraseIdx_iff_getElem?.mpr ⟨j, ?_, hj⟩
    intro e
    subst e
    rw [hget] at hj
    exact absurd (Option.some.inj hj) (by decide)
  · rw [List.length_eraseIdx_of_lt hlt]; omega

/-- the migration path of an XR that the client-side syncer created: clear, apply (the server records
before-first-apply), remove that entry, done; and the loop looks at ALL entries (the last before-first-apply
index, managers in any order) -/
example : upgradeDecision ssaManager ["crossplane"] = some .clear ∧ applyUpDec .clear ["crossplane"] = some [] ∧
    applyMf [] = [ssaManager, bfaManager] ∧ upgradeDecision ssaManager [ssaManager, bfaManager] = some (.removeAt 1) ∧
    applyUpDec (.removeAt 1) [ssaManager, bfaManager] = some [ssaManager] ∧ upgradeDecision ssaManager [ssaManager] = none := by decide

example : upgradeDecision ssaManager ["kubectl", bfaManager, ssaManager, "apiextensions.crossplane.io/composite"] = some (.removeAt 1) ∧
    upgradeDecision ssaManager [bfaManager, ssaManager, bfaManager] = some (.removeAt 2) ∧
    upgradeDecision ssaManager [ssaManager, "crossplane", "apiextensions.crossplane.io/composite"] = none := by decide

/-! ### the correspondence driver's schedules are executions of this system -/

/-- Running a reconcile under any fault plan with scripted environment actions after each
call (what `Xp.Drv.C06` does to replay a run of the real code) yields a reachable state. -/
theorem driver_runs_are_executions {s0 : St} (cfg : Cfg) (plan : Nat → Flt) (env : Nat → List EnvAct)
    (henv : ∀ k, ∀ a ∈ env k, a.adm s0.peers s0.me) (s : St)
    (t : Option P) (h : Reach s0 ⟨s, t⟩) : ∃ t', Reach s0 ⟨(runRec plan env 0 (reconcile cfg) s).1, t'⟩ :=
  runRec_reach plan env henv 0 _ s (Reach.step _ _ h (Step.start s t cfg))

/-! ### non-vacuity -/

/-- this claim: example.org/v1 Thing ns/c -/
def exMe : CRef := ⟨"c", "ns", "example.org", "v1", "Thing"⟩
/-- the claim of the same kind and NAME in another namespace -/
def exTwin : CRef := ⟨"c", "other-ns", "example.org", "v1", "Thing"⟩
def exXRT : GVK := ⟨"example.org", "v1", "XThing"⟩

/-- a new claim (no reference, no finalizer), an XR `x-a` bound to the same-named claim of another
namespace, an unbound XR `x-b` -/
def exClaim : Claim := ⟨1, exMe, none, false, false, false⟩
def exStore : St :=
  { me := exMe, claim := some exClaim, hist := [exClaim],
    xrs := fun n => if n = "x-a" then some ⟨2, some exTwin, false, some ("c", "other-ns"), true, false, true, 0, ["crossplane"]⟩
                    else if n = "x-b" then some ⟨3, none, false, none, false, false, false, 0, [ssaManager]⟩ else none,
    xhist := fun n => [if n = "x-a" then some ⟨2, some exTwin, false, some ("c", "other-ns"), true, false, true, 0, ["crossplane"]⟩
                       else if n = "x-b" then some ⟨3, none, false, none, false, false, false, 0, [ssaManager]⟩ else none],
    nextRv := 10, trace := [] }

example : Init exStore := by
  refine Init.single (c := exClaim) rfl rfl (by decide) rfl rfl ?_ (fun n => rfl) ?_
  · intro n ⟨x, hx, hc⟩
    simp only [exStore] at hx
    split at hx
    · cases hx; exact absurd hc (by decide)
    · split at hx
      · cases hx; cases hc
      · cases hx
  · intro n x hx
    simp only [exStore] at hx ⊢
    split at hx
    · cases hx; decide
    · split at hx
      · cases hx; decide
      · cases hx

/-- a complete server-side reconcile of `exStore` whose first candidate name collides with the
foreign XR: get claim, add finalizer, Get x-a (taken), Get c-1 (free), update claim, apply -/
def exRun : Sys :=
  stepOk (stepOk (stepOk (stepOk (stepOk (stepOk
    ⟨exStore, some (reconcile { ssa := true, xrt := exXRT, pick := none, xpick := fun _ => none, cands := ["x-a", "c-1"] })⟩)))))

example : Reach exStore exRun :=
  stepOk_reach (stepOk_reach (stepOk_reach (stepOk_reach (stepOk_reach (stepOk_reach
    (Reach.step _ _ Reach.init (Step.start _ _ _)))))))

/-- the hypotheses are met by an execution that really creates and binds an XR -/
example : exRun.st.trace = [.create "c-1", .ack "c-1"] ∧ isBound exRun.st "c-1" = true ∧
    (exRun.st.claim.map (·.ref)) = some (some ⟨"c-1", "example.org", "v1", "XThing"⟩) := by decide

/-! #### the recorded reference carries another served version than the controller's

The claim was bound while the XRD's referenceable version was `v1alpha1`; the controller was
restarted for `v1`. Both syncers keep the one XR `x-b` (no `create` event, no new name) and rewrite
the reference's apiVersion. -/

def exClaim3 : Claim := ⟨1, exMe, some ⟨"x-b", "example.org", "v1alpha1", "XThing"⟩, true, false, false⟩
def exStore3 : St :=
  { me := exMe, claim := some exClaim3, hist := [exClaim3],
    xrs := fun n => if n = "x-b" then some ⟨3, some exMe, false, some ("c", "ns"), false, false, false, 0, [ssaManager]⟩ else none,
    xhist := fun n => [if n = "x-b" then some ⟨3, some exMe, false, some ("c", "ns"), false, false, false, 0, [ssaManager]⟩ else none],
    nextRv := 10, trace := [] }

example : Init exStore3 := by
  refine Init.single (c := exClaim3) rfl rfl (by decide) rfl rfl ?_ (fun n => rfl) ?_
  · intro n ⟨x, hx, _⟩
    simp only [exStore3] at hx
    split at hx
    · rename_i h; subst h; rfl
    · cases hx
  · intro n x hx
    simp only [exStore3] at hx ⊢
    split at hx
    · cases hx; decide
    · cases hx

def exRun3 (ssa : Bool) : Sys :=
  stepOk (stepOk (stepOk (stepOk (stepOk (stepOk (stepOk
    ⟨exStore3, some (reconcile { ssa := ssa, xrt := exXRT, pick := none, xpick := fun _ => none, cands := ["c-1"] })⟩))))))

/-- server-side: the claim update (same name, apiVersion rewritten), then the apply of `x-b`; no create -/
example : (exRun3 true).st.trace = [.xrWrite "x-b" (some exMe), .ack "x-b"] ∧
    isBound (exRun3 true).st "x-b" = true ∧ isBound (exRun3 true).st "c-1" = false ∧
    ((exRun3 true).st.claim.bind (·.ref)) = some ⟨"x-b", "example.org", "v1", "XThing"⟩ := by decide

/-- client-side: `!cmp.Equal(existing, proposed)` → the claim update; the XR is already as desired; no create -/
example : (exRun3 false).st.trace = [.ack "x-b", .ack "x-b"] ∧
    isBound (exRun3 false).st "x-b" = true ∧ isBound (exRun3 false).st "c-1" = false ∧
    ((exRun3 false).st.claim.bind (·.ref)) = some ⟨"x-b", "example.org", "v1", "XThing"⟩ := by decide

/-! #### managed fields: a legacy XR -/

/-- a legacy XR bound to this claim, server-side wiring: the first request after the bound check is the 'clear'
patch carrying the resourceVersion read (`upgrade_request_is_decision`); applied to the store it empties the manager
list and leaves claimRef and labels alone (`upgrade_keeps_refs`); the client-side wiring goes straight on -/
def exLegacy : XR := ⟨3, some exMe, false, some ("c", "ns"), false, false, false, 0, ["crossplane"]⟩
def exStore6 : St := { exStore3 with xrs := fun n => if n = "x-b" then some exLegacy else none,
                                     xhist := fun n => [if n = "x-b" then some exLegacy else none] }

example : firstReq (afterCheck { ssa := true, xrt := exXRT, pick := none, xpick := fun _ => none, cands := [] } exClaim3 (some ("x-b", exLegacy))) =
    some (.upgradeXR "x-b" 3 .clear) := rfl

example : ((exec exStore6 (.upgradeXR "x-b" 3 .clear)).1.xrs "x-b").map (fun x => (x.mf, x.cref, x.lbl)) =
    some ([], some exMe, some ("c", "ns")) := by decide

example : ∃ c, firstReq (afterCheck { ssa := false, xrt := exXRT, pick := none, xpick := fun _ => none, cands := [] } exClaim3 (some ("x-b", exLegacy))) =
    some (.updClaim c) := ⟨_, rfl⟩

/-! #### the referenced XR is bound to the same-named claim of another namespace

A manifest of `other-ns/c` copied into `ns` together with its `spec.resourceRef`: the reconcile of
`ns/c` reads `x-a`, finds a claimRef that differs in the namespace only, and ends without a single
write to or delete of the XR — also when `ns/c` is being deleted. -/

def exClaim4 (deleting : Bool) : Claim := ⟨1, exMe, some ⟨"x-a", "example.org", "v1", "XThing"⟩, true, deleting, false⟩
def exStore4 (deleting : Bool) : St := { exStore with claim := some (exClaim4 deleting), hist := [exClaim4 deleting] }

def exRun4 (ssa deleting : Bool) : Sys :=
  stepOk (stepOk (stepOk (stepOk
    ⟨exStore4 deleting, some (reconcile { ssa := ssa, xrt := exXRT, pick := none, xpick := fun _ => none, cands := ["c-1"] })⟩)))

def isDone : Option P → Bool
  | some (.ret _) => true
  | _ => false

example : (exRun4 true false).st.trace = [] ∧ (exRun4 true false).st.xrs "x-a" = exStore.xrs "x-a" ∧ isDone (exRun4 true false).thread = true := by decide
example : (exRun4 false false).st.trace = [] ∧ (exRun4 false false).st.xrs "x-a" = exStore.xrs "x-a" ∧ isDone (exRun4 false false).thread = true := by decide
example : (exRun4 true true).st.trace = [] ∧ (exRun4 true true).st.xrs "x-a" = exStore.xrs "x-a" ∧ isDone (exRun4 true true).thread = true := by decide
example : (exRun4 false true).st.trace = [] ∧ (exRun4 false true).st.xrs "x-a" = exStore.xrs "x-a" ∧ isDone (exRun4 false true).thread = true := by decide

example : unbound (exClaim4 false) ⟨2, some exTwin, false, none, true, false, true, 0, []⟩ = true := by decide
example : unbound (exClaim4 false) ⟨2, some exMe, true, none, true, false, true, 0, []⟩ = false := by decide

/-! ### several claims of the kind: the other claims' reconciles are environment steps -/

/-- ONE applied call of the reconcile of the claim that is current in `s`, in a world with other claims
(`s.peers`), seen from the claim in slot `j` of `s.others` (`swap s j`; a different claim): a finite
sequence of environment steps `Env` (`peerWrite`: an XR created / rewritten / bound by ANOTHER claim's
controller, never bound to the viewing claim; `xrRemove`/`xrSet`/`xrWrite` for its deletes; `tick` for
its writes to its own claim object), provided a claimRef the call writes is its own (its guarantee). -/
theorem other_claims_call_is_environment (s : St) (r : Req) (j : Nat) (d : Side) (hd : s.others[j]? = some d)
    (hp : s.peers = true) (hne : d.me ≠ s.me) (hg : G s r) : Envs (swap s j) (swap (exec s r).1 j) :=
  peer_call_is_env s r j d hd hp hne (reqCref_of_G hg)

/-- A whole scheduled reconcile of the CURRENT claim — any fault plan: every error class at every call,
lost replies, crashes — started in a reachable state of its own system, is for every OTHER claim of the
world (slot `j`) a finite sequence of environment steps … -/
theorem other_claims_reconcile_is_environment {s0 : St} (h0 : Init s0) (plan : Nat → Flt) (k : Nat) (p : P) (s : St)
    (h : Reach s0 ⟨s, some p⟩) (hp : s0.peers = true) (j : Nat) (d : Side) (hd : s.others[j]? = some d) (hne : d.me ≠ s0.me) :
    Envs (swap s j) (swap (runRec plan (fun _ => []) k p s).1 j) :=
  peer_reconcile_is_env h0 plan k p s h hp j d hd hne

/-- … and therefore keeps every reachable state of THAT claim's own system reachable: `ref_set_once`,
`one_xr`, `one_xr_count`, `created_names_unique`, `ref_before_create` and `no_hijack_guarded` (all stated
for every `Init` store and every `Reach`able state, in particular with `peers = true`) hold for EACH claim
of a world in which one long-lived controller reconciles several claims one after the other, whatever the
other claims' reconciles did in between (created XRs under a name this claim is about to use, bound the XR
this claim references, …). -/
theorem other_claims_reconcile_keeps_reachable {s0 t0 : St} (h0 : Init s0) (plan : Nat → Flt) (k : Nat) (p : P) (s : St)
    (h : Reach s0 ⟨s, some p⟩) (hp : s0.peers = true) (j : Nat) (d : Side) (hd : s.others[j]? = some d) (hne : d.me ≠ s0.me)
    (t : Option P) (hv : Reach t0 ⟨swap s j, t⟩) : Reach t0 ⟨swap (runRec plan (fun _ => []) k p s).1 j, t⟩ :=
  reach_envs hv (peer_reconcile_is_env h0 plan k p s h hp j d hd hne)

/-! ### with other claims' controllers around, exactly the unconditional requests are unprotected

`no_hijack` needs `peers = false`; `no_hijack_guarded` does not. The three theorems below show that the gap
is real for each of the three requests that carry no resourceVersion: in a world with peers
(`Env.peerWrite` between the read the bound check decides on and the request) the pinned code rebinds or
deletes the XR of another claim. These are findings about the unchanged code in a dimension the property's
quantifier does not name (monitor `C06:foreign-xr-written-after-raced-read`, corpus/C06/raced.jsonl). -/

/-- `exStore` (XR `x-a` bound to the twin claim, `x-b` unbound) with the claim `c`, in a world with peers -/
def exStoreP (c : Claim) : St := { exStore with claim := some c, hist := [c], peers := true }

/-- the claim statically references the unbound XR `x-b` -/
def exClaim2 (deleting : Bool) : Claim := ⟨1, exMe, some ⟨"x-b", "example.org", "v1", "XThing"⟩, true, deleting, false⟩
/-- the claim references the XR `x-n`, which does not exist (yet) -/
def exClaim5 : Claim := ⟨1, exMe, some ⟨"x-n", "example.org", "v1", "XThing"⟩, true, false, false⟩

theorem exStoreP_init (c : Claim) (hrv : c.rv = 1) (hid : c.id = exMe) : Init (exStoreP c) := by
  refine Init.single (c := c) rfl rfl (by simp [exStoreP, exStore, hrv]) rfl hid ?_ (fun n => rfl) ?_
  · intro n ⟨x, hx, hc⟩
    simp only [exStoreP, exStore] at hx
    split at hx
    · cases hx
      have hc' : some exTwin = some exMe := hc
      exact absurd hc' (by decide)
    · split at hx
      · cases hx; cases hc
      · cases hx
  · intro n x hx
    simp only [exStoreP, exStore] at hx ⊢
    split at hx
    · cases hx; decide
    · split at hx
      · cases hx; decide
      · cases hx

example : Init (exStoreP (exClaim2 false)) ∧ (exStoreP (exClaim2 false)).peers = true := ⟨exStoreP_init _ rfl rfl, rfl⟩

/-- the twin claim's controller binds (or creates, bound) XR `n` -/
def peerBind (s : St) (n : Name) : St := (putXR s n ⟨0, some exTwin, false, some ("c", "other-ns"), false, false, false, 0, ["crossplane"]⟩).1

def peerStep (sys : Sys) (n : Name) : Sys := ⟨peerBind sys.st n, sys.thread⟩

theorem peerStep_reach {s0 : St} {sys : Sys} (h : Reach s0 sys) (n : Name) (hp : sys.st.peers = true) (hme : sys.st.me = exMe) :
    Reach s0 (peerStep sys n) :=
  Reach.step _ _ h (Step.env sys.st _ sys.thread (Env.peerWrite sys.st n _ hp (fun hc => by
    rw [hme] at hc; exact absurd (Option.some.inj hc) (by decide))))

def exCfg (ssa : Bool) : Cfg := { ssa := ssa, xrt := exXRT, pick := none, xpick := fun _ => none, cands := [] }

/-- server-side syncer: get claim, get `x-b` (unbound: the bound check passes), Update(claim); the twin
claim's controller binds `x-b`; the pending forced apply rebinds it -/
def exRacedApply : Sys := stepOk (peerStep (stepOk (stepOk (stepOk ⟨exStoreP (exClaim2 false), some (reconcile (exCfg true))⟩))) "x-b")

theorem raced_apply_hijacks_with_peers :
    Reach (exStoreP (exClaim2 false)) exRacedApply ∧ Ev.xrWrite "x-b" (some exTwin) ∈ exRacedApply.st.trace ∧
      (exRacedApply.st.xrs "x-b").bind (·.cref) = some exMe := by
  refine ⟨?_, by decide, by decide⟩
  exact stepOk_reach (peerStep_reach (stepOk_reach (stepOk_reach (stepOk_reach
    (Reach.step _ _ Reach.init (Step.start _ _ _))))) "x-b" (by decide) (by decide))

/-- either syncer, the claim is being deleted: get claim, get `x-b` (unbound); the twin claim's controller
binds `x-b`; the pending Delete removes the twin claim's XR -/
def exRacedDelete (ssa : Bool) : Sys := stepOk (peerStep (stepOk (stepOk ⟨exStoreP (exClaim2 true), some (reconcile (exCfg ssa))⟩)) "x-b")

theorem raced_delete_hijacks_with_peers (ssa : Bool) :
    Reach (exStoreP (exClaim2 true)) (exRacedDelete ssa) ∧ Ev.xrWrite "x-b" (some exTwin) ∈ (exRacedDelete ssa).st.trace ∧
      (exRacedDelete ssa).st.xrs "x-b" = none := by
  refine ⟨?_, by cases ssa <;> decide, by cases ssa <;> decide⟩
  exact stepOk_reach (peerStep_reach (stepOk_reach (stepOk_reach
    (Reach.step _ _ Reach.init (Step.start _ _ _)))) "x-b" (by cases ssa <;> decide) (by cases ssa <;> decide))

/-- client-side syncer: get claim, get `x-n` (NotFound: nothing to check); the twin claim's controller
creates `x-n`; Apply's own Get finds it, and the merge patch — built from an XR that was never read, so
without a resourceVersion — rebinds it -/
def exRacedPatch : Sys := stepOk (stepOk (peerStep (stepOk (stepOk ⟨exStoreP exClaim5, some (reconcile (exCfg false))⟩)) "x-n"))

theorem raced_patch_hijacks_with_peers :
    Reach (exStoreP exClaim5) exRacedPatch ∧ Ev.xrWrite "x-n" (some exTwin) ∈ exRacedPatch.st.trace ∧
      (exRacedPatch.st.xrs "x-n").bind (·.cref) = some exMe := by
  refine ⟨?_, by decide, by decide⟩
  exact stepOk_reach (stepOk_reach (peerStep_reach (stepOk_reach (stepOk_reach
    (Reach.step _ _ Reach.init (Step.start _ _ _)))) "x-n" (by decide) (by decide)))

/-! #### the window of the finding, exactly

`raced_*` above are witnesses; the three theorems below say that they are the ONLY shape a hijack by the
pinned code can have, in every world, over all schedules, fault plans, cache lags and histories:

* `hijack_needs_unconditional_request`: a write that took effect on a foreign-bound XR was one of the three
  requests that carry no resourceVersion (never the managed-fields patch, never the merge patch of an XR
  that Reconcile's Get found), in a world with other claims' controllers;
* `unconditional_request_window`: such a request is only ever issued for a name of which the reconcile (or
  the informer cache it reads through) has seen a state — absent, unbound, or bound to this very claim — that
  was NOT foreign; so the XR it hits can be foreign only if it BECAME foreign after that state;
* `becomes_foreign_only_by_peer_write`: the only step of the whole system that makes an XR foreign is a
  write of ANOTHER claim's controller to that XR (`Env.peerWrite`) — not the XR controller, not the user, not
  a fault, a crash, a lost reply or a retry of this claim's reconcile.

Hence: claim A's reconcile rebinds or deletes claim B's XR `n` iff B's controller bound (or created) `n`
between the state of `n` that A's deciding read served and A's unconditional request. -/

/-- In EVERY world: a write of the claim controller that took effect on an XR whose claimRef named another
claim was unconditional (`xrWrite`: Delete, forced apply, merge patch of an unread XR), and the world has
other claims' controllers. -/
theorem hijack_needs_unconditional_request {s0 : St} (h0 : Init s0) {sys : Sys} (hr : Reach s0 sys) (n : Name) (r : CRef)
    (hne : r ≠ s0.me) :
    Ev.xrWriteG n (some r) ∉ sys.st.trace ∧ (Ev.xrWrite n (some r) ∈ sys.st.trace → s0.peers = true) := by
  refine ⟨fun h => hne (no_hijack_guarded h0 hr n r h), fun h => ?_⟩
  cases hp : s0.peers with
  | true => rfl
  | false => exact absurd (no_hijack h0 hp hr n r (Or.inl h)) hne

/-- Whenever a request without resourceVersion is about to be applied to XR `n`: some state the name `n` had
since the start was absent, unbound or bound to THIS claim (the state the deciding read served); and if the XR
stored at that instant names another claim, the world has other claims' controllers. -/
theorem unconditional_request_window {s0 : St} (h0 : Init s0) {s : St} {r : Req} {k : Resp → P}
    (hr : Reach s0 ⟨s, some (.call r k)⟩) (n : Name) (hu : unconditionalOn r = some n) :
    SeenNF s n ∧ (foreignNow s n → s0.peers = true) := by
  have hg := next_call_safe h0 hr
  have hp : s.peers = s0.peers := (reach_me_peers hr).2
  have key : NF s n := by
    cases r with
    | deleteXR m fg => cases hu; exact hg.1
    | applyXR m c => cases hu; exact hg.1.2
    | patchXR m rv c =>
      cases rv with
      | none => cases hu; exact hg.1.1.2
      | some v => cases hu
    | _ => cases hu
  refine ⟨key.2, fun hf => ?_⟩
  cases hq : s0.peers with
  | true => rfl
  | false => exact absurd ⟨hp.trans hq, hf⟩ key.1

/-- The only step of the system — environment, call (applied, failed with any error class, reply lost),
start/crash/restart, return — after which an XR names another claim that did not do so before is a write of
ANOTHER claim's controller to that very XR, in a world with peers; the reconcile in flight is untouched. -/
theorem becomes_foreign_only_by_peer_write {s0 : St} (h0 : Init s0) {a b : Sys} (ha : Reach s0 a) (hstep : Step a b)
    (n : Name) (hnf : ¬ foreignNow a.st n) (hf : foreignNow b.st n) :
    s0.peers = true ∧ b.thread = a.thread ∧ ∃ x', Env a.st b.st ∧ b.st = (putXR a.st n x').1 := by
  have hp : a.st.peers = s0.peers := (reach_me_peers ha).2
  cases hstep with
  | env s s' t he =>
    obtain ⟨hpe, x', hx'⟩ := env_foreign_only_peer he n hnf hf
    exact ⟨hp ▸ hpe, rfl, x', he, hx'⟩
  | start s t cfg => exact absurd hf hnf
  | done s r => exact absurd hf hnf
  | callErr s r k e he => exact absurd hf hnf
  | callOk s r k => exact absurd hf (exec_keeps_not_foreign (next_call_safe h0 ha) n hnf)
  | callLost s r k e he => exact absurd hf (exec_keeps_not_foreign (next_call_safe h0 ha) n hnf)

/-- … and nothing on the server side stops it: an unconditional request that reaches the store while XR `n`
carries ANY claimRef `r` takes effect on it (the ghost trace records `xrWrite n (some r)`): the forced apply
and the merge patch without resourceVersion rebind the XR to the requester, the Delete removes it or marks it
for deletion. Together with the three theorems above: the hijack happens IF AND ONLY IF another claim's
controller bound the XR inside the window. -/
theorem unconditional_request_always_applies (s : St) (n : Name) (x : XR) (r c : CRef) (fg : Bool)
    (hx : s.xrs n = some x) (hr : x.cref = some r) :
    ((exec s (.applyXR n c)).1.trace = Ev.xrWrite n (some r) :: s.trace ∧
      ((exec s (.applyXR n c)).1.xrs n).bind (·.cref) = some c) ∧
    ((exec s (.patchXR n none c)).1.trace = Ev.xrWrite n (some r) :: s.trace ∧
      ((exec s (.patchXR n none c)).1.xrs n).bind (·.cref) = some c) ∧
    (exec s (.deleteXR n fg)).1.trace = Ev.xrWrite n (some r) :: s.trace := by
  refine ⟨?_, ?_, ?_⟩
  · simp [exec, hx, hr, emit, putXR, applyBindXR]
  · simp [exec, hx, hr, emit, putXR, bindXR]
  · simp only [exec, hx, emit, hr]
    have : ∀ x1 : XR, (delState s n x x1).trace = s.trace := by
      intro x1
      unfold delState
      split
      · split
        · split <;> rfl
        · rfl
      · rfl
    rw [this]

/-- the hypotheses of `unconditional_request_window` and `becomes_foreign_only_by_peer_write` are met by the
witness of `raced_apply_hijacks_with_peers`: the forced apply is pending on `x-b`, which the twin claim's
controller has just bound — `x-b` was unbound (not foreign) in the state the reconcile read -/
def exRacedApplyPre : Sys := stepOk (stepOk (stepOk ⟨exStoreP (exClaim2 false), some (reconcile (exCfg true))⟩))

example : ((peerStep exRacedApplyPre "x-b").thread.bind firstReq).bind unconditionalOn = some "x-b" := by decide

example : ((exRacedApplyPre.st.xrs "x-b").bind (·.cref)) = none ∧
    (((peerStep exRacedApplyPre "x-b").st.xrs "x-b").bind (·.cref)) = some exTwin ∧ exTwin ≠ exMe := by decide

/-- `writes_only_to_recorded_name` on the same state: the pending Update/apply go to `x-b`, the name the stored
claim records -/
example : (exRacedApplyPre.thread.bind firstReq).bind xrTarget = some "x-b" ∧
    (exRacedApplyPre.st.claim.bind (·.ref)).map (·.name) = some "x-b" := by decide

/-- `unconditional_request_always_applies`: `exStore` holds `x-a` bound to the twin claim -/
example : ∃ x, exStore.xrs "x-a" = some x ∧ x.cref = some exTwin := ⟨_, rfl, rfl⟩

/-- the client-side merge patch of an XR that WAS read carries its resourceVersion: the same race ends in
a conflict and the twin claim's XR is untouched (cf. `no_hijack_guarded`) -/
def exRacedPatchRead : Sys := stepOk (stepOk (peerStep (stepOk (stepOk ⟨exStoreP (exClaim2 false), some (reconcile (exCfg false))⟩)) "x-b"))

example : exRacedPatchRead.st.trace = [] ∧ (exRacedPatchRead.st.xrs "x-b").bind (·.cref) = some exTwin := by decide

/-! ### the claim is gone, the cache still serves its last bound copy (finding D41)

`ssa_sync_writes_xr_only_after_accepted_claim_update` has no client-side counterpart on the pinned tree:
ClientSideCompositeSyncer.Sync updates the claim only if the proposed reference differs from the stored one, and
AddFinalizer writes nothing if the copy has the finalizer. So a STALE copy of a claim that is bound reaches Apply's
Create without any resourceVersion-checked claim write. Monitor C06:xr-created-from-stale-claim-without-claim-write,
corpus/C06/stale_gone.jsonl. -/

/-- `applyAfterUpd` is not vacuous: false for a program that applies the XR first (what the server-side Sync would be
without its Update) -/
example : applyAfterUpd (okReply exClaim ⟨3, none, false, none, false, false, false, 0, []⟩ true) 5 false
    (.call (.applyXR "x-b" exMe) fun _ => .ret .ok) = false := rfl

/-- the claim `exClaim5` (bound to `x-n`, which was deleted with it) is GONE; the cache serves its last copy
(`pick := some 0`); four calls of the reconcile -/
def exGone (ssa : Bool) : Sys :=
  stepOk (stepOk (stepOk (stepOk
    ⟨{ exStoreP exClaim5 with claim := none }, some (reconcile { exCfg ssa with pick := some 0 })⟩)))

theorem exGone_reach (ssa : Bool) : Reach (exStoreP exClaim5) (exGone ssa) :=
  stepOk_reach (stepOk_reach (stepOk_reach (stepOk_reach
    (Reach.step _ _ (Reach.step _ _ Reach.init (Step.env _ _ none (Env.claimGone _))) (Step.start _ _ _)))))

/-- CLIENT-side syncer, unchanged code: get claim (stale copy), get `x-n` (NotFound), Apply's Get (NotFound), Create —
an XR bound to a claim that does not exist, and no claim write was even attempted (no `ack`): the clause "the
reference is durably recorded before the XR is created" holds only through the OLD incarnation's record. -/
theorem stale_copy_of_deleted_claim_creates_xr_fails_on_unfixed_witness :
    Reach (exStoreP exClaim5) (exGone false) ∧ (exGone false).st.claim = none ∧
      (exGone false).st.trace = [.create "x-n"] ∧ isBound (exGone false).st "x-n" = true := by
  refine ⟨exGone_reach false, by decide, by decide, by decide⟩

/-- SERVER-side syncer, same schedule: the unconditional Update(claim) is answered NotFound and nothing is written -/
example : Reach (exStoreP exClaim5) (exGone true) ∧ (exGone true).st.trace = [] ∧ ((exGone true).st.xrs "x-n").isNone = true :=
  ⟨exGone_reach true, by decide, by decide⟩

end Xp.C06

import Xp.Model.C17
import Xp.Proofs.C17Dag
import Xp.Proofs.C17Init
import Xp.Proofs.C17Ver
import Xp.Proofs.C17Res
import Xp.Proofs.C17Env
import Xp.Gen.C17Tables
/-
C17 property theorems: dependency resolution.

Vocabulary (Xp/Model/C17.lean, Xp/Proofs/C17Init.lean):
* `lockNb pkgs` is the dependency graph read off the lock contents `pkgs`: a lock package
  points at the packages it depends on; a dependency that is not in the lock is a node
  without neighbours ("implied").  `init` (MapDag.Init / MapUpgradingDag.Init) builds a DAG
  whose neighbour function is exactly `lockNb pkgs` (`Proofs.C17Init.init_spec`), so the
  theorems below speak about the lock, not about an internal data structure.
* `Reach nb a b`: `b` is reachable from `a` by at least one edge; `HasCycle nb`: some node
  reaches itself (self loops and cycles through implied nodes included).
* `order` is the iteration order of Go's node map in `Sort`; it is universally quantified.
* `o : Oracle` carries the verdicts of Masterminds/semver and go-containerregistry; every
  theorem holds for every oracle.
-/
namespace Xp.C17

/-! ### Sort: errors iff the lock's dependency graph has a cycle; otherwise dependencies first -/

/-- `Sort` (of either DAG implementation, after `Init` on the lock contents `pkgs`), for every
iteration order of the node map:
* it fails iff the dependency graph of the lock has a cycle;
* when it fails, the error is the cycle error and the node it names lies on a cycle
  (never "node does not exist", never out of fuel);
* when it succeeds, the result lists every node of the graph exactly once and every package
  after all the packages it depends on. -/
theorem sort_ok_iff_acyclic {o : Oracle} {upg : Bool} {pkgs : List Pkg} {d : Dag} {imp : List Dep}
    (h : init o upg pkgs = .ok (d, imp)) (order : List String)
    (hord : ∀ n, n ∈ order ↔ (lockNb pkgs n).isSome = true) (hne : lockNb pkgs "" = none) :
    ((∃ e, sort d order = .error e) ↔ HasCycle (lockNb pkgs)) ∧
    (∀ e, sort d order = .error e → ∃ c, e = .cycle c ∧ Reach (lockNb pkgs) c c) ∧
    (∀ res, sort d order = .ok res →
      res.Nodup ∧ (∀ n, n ∈ res ↔ (lockNb pkgs n).isSome = true) ∧ DepsFirst (lockNb pkgs) res) := by
  obtain ⟨hnb, hnodup, _, _⟩ := init_spec h
  have nbeq : d.nb = lockNb pkgs := funext hnb
  have hks : ∀ n, (lockNb pkgs n).isSome = true ↔ n ∈ d.keys := by
    intro n; rw [← nbeq]; exact d.nb_isSome_iff n
  have hlen : d.keys.length = d.length := by unfold Dag.keys; exact List.length_map ..
  have inv0 : Inv (lockNb pkgs) d.keys ⟨[], [], []⟩ :=
    ⟨(fun _ h => by cases h), (fun _ h => by cases h), (fun _ h => by cases h), trivial, (fun _ h => by cases h)⟩
  have spec := sortFrom_spec (lockNb pkgs) d.keys hks (lockNb_closed pkgs) hne (d.length + 1) order ⟨[], [], []⟩
    (fun n hn => (hks n).1 ((hord n).1 hn)) inv0 rfl (by omega)
  unfold sort sortG
  rw [nbeq]
  cases hs : sortFrom (lockNb pkgs) (d.length + 1) order ⟨[], [], []⟩ with
  | error e =>
    rw [hs] at spec
    cases e with
    | missing _ => exact spec.elim
    | fuel => exact spec.elim
    | cycle c =>
      have hc : Reach (lockNb pkgs) c c := spec
      refine ⟨⟨fun _ => ⟨c, hc⟩, fun _ => ⟨_, rfl⟩⟩, ?_, ?_⟩
      · intro e he
        cases he
        exact ⟨c, rfl, hc⟩
      · intro res he; cases he
  | ok st =>
    rw [hs] at spec
    obtain ⟨inv, _, _, hall⟩ : Inv (lockNb pkgs) d.keys st ∧ st.stack = [] ∧ _ ∧ ∀ n ∈ order, n ∈ st.results := spec
    have hsub : ∀ x ∈ st.results, x ∈ d.keys := fun x hx => inv.vis_keys x (inv.res_vis x hx).1
    have hsup : ∀ x ∈ d.keys, x ∈ st.results := fun x hx => hall x ((hord x).2 ((hks x).2 hx))
    have hnd : st.results.Nodup := nodup_of_reverse (TopoRev.nodup _ inv.topo)
    have hperm : st.results.Perm d.keys :=
      (List.perm_ext_iff_of_nodup hnd hnodup).2 (fun a => ⟨hsub a, hsup a⟩)
    have hpad : st.results ++ List.replicate (d.length - st.results.length) "" = st.results := by
      rw [hperm.length_eq, hlen, Nat.sub_self]; simp
    simp only [hpad]
    refine ⟨⟨(fun ⟨e, he⟩ => by cases he), ?_⟩, (fun e he => by cases he), ?_⟩
    · rintro ⟨c, hc⟩
      have hcs : (lockNb pkgs c).isSome = true := by
        cases hc with
        | edge e => exact e.isSome
        | step e _ => exact e.isSome
      have hcr : c ∈ st.results.reverse := List.mem_reverse.2 (hsup c ((hks c).1 hcs))
      exact absurd hc (TopoRev.acyclic _ inv.topo c hcr)
    · intro res he
      cases he
      exact ⟨hnd, fun n => ⟨fun hn => (hks n).2 (hsub n hn), fun hn => hsup n ((hks n).1 hn)⟩,
        TopoRev.depsFirst _ inv.topo⟩

/-! ### TraceNode: exactly the transitive closure -/

/-- `TraceNode id` on the DAG built from the lock returns exactly the packages reachable from
`id` by one or more dependency edges (and fails with "missing node" iff `id` is not a node). -/
theorem trace_is_closure {o : Oracle} {upg : Bool} {pkgs : List Pkg} {d : Dag} {imp : List Dep}
    (h : init o upg pkgs = .ok (d, imp)) (id : String) :
    ((lockNb pkgs id).isSome = true → ∃ t, trace d id = .ok t ∧ ∀ m, m ∈ t ↔ Reach (lockNb pkgs) id m) ∧
    (lockNb pkgs id = none → trace d id = .error .missing) := by
  obtain ⟨hnb, _, _, _⟩ := init_spec h
  have nbeq : d.nb = lockNb pkgs := funext hnb
  have hks : ∀ n, (lockNb pkgs n).isSome = true ↔ n ∈ d.keys := by
    intro n; rw [← nbeq]; exact d.nb_isSome_iff n
  have hlen : d.keys.length = d.length := by unfold Dag.keys; exact List.length_map ..
  unfold trace
  rw [nbeq, ← hlen]
  refine ⟨fun hid => traceG_spec (lockNb pkgs) d.keys hks (lockNb_closed pkgs) id ((hks id).1 hid), ?_⟩
  intro hnone
  simp [traceG, traceNode, hnone]

/-! ### implied nodes = dependencies absent from the lock -/

/-- MapDag.Init returns as implied exactly the dependencies that are not lock packages, each
once; MapUpgradingDag.Init returns at least those (it also returns present packages whose
version does not satisfy an incoming constraint). -/
theorem implied_eq_missing {o : Oracle} {upg : Bool} {pkgs : List Pkg} {d : Dag} {imp : List Dep}
    (h : init o upg pkgs = .ok (d, imp)) :
    (∀ e ∈ pkgs.flatMap (·.deps), e.pkg ∉ pkgs.map (·.source) → e.pkg ∈ imp.map (·.pkg)) ∧
    (upg = false → (imp.map (·.pkg)).Nodup ∧
      ∀ x, x ∈ imp.map (·.pkg) ↔ (x ∈ (pkgs.flatMap (·.deps)).map (·.pkg) ∧ x ∉ pkgs.map (·.source))) :=
  ⟨(init_spec h).2.2.1, (init_spec h).2.2.2⟩

/-! ### the SemVer precedence order used for "highest" / "lowest" is a total preorder -/

theorem semver_order_total (a b : Ver) : a.le b = true ∨ b.le a = true := Ver.le_total a b

theorem semver_order_trans (a b c : Ver) (h1 : a.le b = true) (h2 : b.le c = true) : a.le c = true :=
  Ver.le_trans h1 h2

/-- regenerated from the library in /repo's module graph on every run: the empty string is not
a semantic version (so "no version selected", which the Go code encodes as "", is unambiguous) -/
theorem semver_rejects_empty : Xp.Gen.c17SemverParsesEmpty = false := by decide

/-! ### findDependencyVersionToInstall -/

/-- A digest constraint pins exactly that digest, whatever the tags are (they are not even
fetched); an unparsable constraint or a failing tag fetch installs nothing. -/
theorem install_guards (o : Oracle) (con : String) (fetch : Option (List String)) :
    (∀ dg, o.digest con = some dg → toInstall o con fetch = .ok dg) ∧
    (o.digest con = none → o.conOk con = false → toInstall o con fetch = .error .invalidConstraint) ∧
    (o.digest con = none → o.conOk con = true → fetch = none → toInstall o con fetch = .error .fetchTags) := by
  refine ⟨?_, ?_, ?_⟩
  · intro dg h; simp [toInstall, h]
  · intro h1 h2; simp [toInstall, h1, h2]
  · intro h1 h2 h3; simp [toInstall, h1, h2, h3]

/-- For a version constraint: the selected version is a tag of the repository, is a semantic
version, satisfies the constraint, and no tag that satisfies the constraint is higher; nothing
is selected (`""`) iff no tag is a semantic version satisfying the constraint. Tags that are
not semantic versions never matter. For every tag list (any order), every `sat`. -/
theorem install_max (o : Oracle) (con : String) (tags : List String) (r : String)
    (hempty : o.ver "" = none) (hd : o.digest con = none)
    (h : toInstall o con (some tags) = .ok r) :
    (r = "" ↔ ∀ t ∈ tags, (o.ver t).isSome = true → o.sat con t = false) ∧
    (r ≠ "" → r ∈ tags ∧ o.sat con r = true ∧ ∃ v, o.ver r = some v ∧
      ∀ t ∈ tags, ∀ w, o.ver t = some w → o.sat con t = true → w.le v = true) := by
  unfold toInstall at h
  rw [hd] at h
  simp only [] at h
  split at h
  · cases h
  · simp only [Except.ok.injEq] at h
    have key := lastSat_spec (o.sat con) (sortTags (parseTags o tags)) "" (sortTags_sorted _)
    rw [h] at key
    have memP : ∀ v : VTag, v ∈ sortTags (parseTags o tags) ↔ v.tag ∈ tags ∧ o.ver v.tag = some v.ver :=
      fun v => mem_sortTags.trans mem_parseTags
    rcases key with ⟨hr, none⟩ | ⟨v, hv, hr, hs, hmax⟩
    · refine ⟨⟨fun _ t ht hsome => ?_, fun _ => hr⟩, fun hne => absurd hr hne⟩
      cases hver : o.ver t with
      | none => rw [hver] at hsome; cases hsome
      | some w => exact none ⟨t, w⟩ ((memP ⟨t, w⟩).2 ⟨ht, hver⟩)
    · obtain ⟨hvt, hvv⟩ := (memP v).1 hv
      have hrne : r ≠ "" := by
        intro e
        rw [hr] at e
        rw [e, hempty] at hvv
        cases hvv
      refine ⟨⟨fun e => absurd e hrne, fun hall => ?_⟩, fun _ => ?_⟩
      · have := hall v.tag hvt (by rw [hvv]; rfl)
        rw [hs] at this; cases this
      · rw [hr]
        refine ⟨hvt, hs, v.ver, hvv, ?_⟩
        intro t ht w hw hsat
        exact hmax ⟨t, w⟩ ((memP ⟨t, w⟩).2 ⟨ht, hw⟩) hsat

/-! ### findDependencyVersionToUpdate -/

/-- findDigestToUpdate: a non-empty result means every parent constraint is that same digest;
an empty result means no parent constraint is a digest. (Mixed digests / digest and version
constraints are errors.) -/
theorem update_digest (o : Oracle) (hdig : ∀ c dg, o.digest c = some dg → dg ≠ "")
    (parents : List String) (dg : String) (h : digestToUpdate o parents = .ok dg) :
    (dg ≠ "" → ∀ c ∈ parents, o.digest c = some dg) ∧ (dg = "" → ∀ c ∈ parents, o.digest c = none) := by
  have := digestLoop_spec o hdig parents "" false dg h (by simp)
  exact ⟨fun hne => (this.1 hne).2.2, fun he => (this.2 he).2⟩

/-- Guards of findDependencyVersionToUpdate, in the order of the code: digest errors, pinned
digest, fetch error, unparsable parent constraint, and the `semver.MustParse(insVer)` panic on
an installed identifier that is not a semantic version (an observation: the property does not
demand totality there). -/
theorem update_guards (o : Oracle) (parents : List String) (installed : String) (down : Bool)
    (fetch : Option (List String)) :
    (∀ e, digestToUpdate o parents = .error e → toUpdate o parents installed down fetch = .err e) ∧
    (∀ dg, digestToUpdate o parents = .ok dg → dg ≠ "" → toUpdate o parents installed down fetch = .ok dg) ∧
    (toUpdate o parents installed down fetch = .panic ↔
      digestToUpdate o parents = .ok "" ∧ fetch.isSome = true ∧ parents.all o.conOk = true ∧ o.ver installed = none) := by
  refine ⟨?_, ?_, ?_⟩
  · intro e h; simp [toUpdate, h]
  · intro dg h hne; simp [toUpdate, h, hne]
  · unfold toUpdate
    cases hdg : digestToUpdate o parents with
    | error e => simp
    | ok dg =>
      by_cases hne : dg = ""
      · subst hne
        cases fetch with
        | none => simp
        | some tags =>
          cases hc : parents.all o.conOk with
          | false => simp
          | true =>
            cases hv : o.ver installed with
            | none => simp
            | some cur =>
              simp only [ne_eq, not_true_eq_false, if_false, Bool.not_true, Bool.false_eq_true]
              split <;> simp
      · simp [hne]

/-- With upgrades enabled, no digest pinned and an installed version `cur`: the selected version
is a tag, a semantic version, and satisfies **every** parent constraint; and either
* it is not older than `cur`, and is the lowest such admissible tag, or
* downgrades are enabled, no admissible tag is not-older than `cur`, and it is the highest
  admissible (hence older) tag. -/
theorem update_min_not_older_or_max_older (o : Oracle) (parents : List String) (installed : String)
    (down : Bool) (tags : List String) (cur : Ver) (r : String)
    (hdg : digestToUpdate o parents = .ok "") (hcur : o.ver installed = some cur)
    (h : toUpdate o parents installed down (some tags) = .ok r) :
    r ∈ tags ∧ satAll o parents r = true ∧ ∃ v, o.ver r = some v ∧
      ((cur.le v = true ∧
          ∀ t ∈ tags, ∀ w, o.ver t = some w → satAll o parents t = true → cur.le w = true → v.le w = true) ∨
       (down = true ∧
          (∀ t ∈ tags, ∀ w, o.ver t = some w → satAll o parents t = true → cur.le w = false) ∧
          ∀ t ∈ tags, ∀ w, o.ver t = some w → satAll o parents t = true → w.le v = true)) := by
  unfold toUpdate at h
  rw [hdg] at h
  simp only [ne_eq, not_true_eq_false, if_false] at h
  split at h
  · cases h
  · rw [hcur] at h
    simp only [] at h
    have memP : ∀ v : VTag, v ∈ sortTags (parseTags o tags) ↔ v.tag ∈ tags ∧ o.ver v.tag = some v.ver :=
      fun v => mem_sortTags.trans mem_parseTags
    have key := pickUpdate_spec (satAll o parents) cur down (sortTags (parseTags o tags)) none (sortTags_sorted _)
    cases hp : pickUpdate (satAll o parents) cur down (sortTags (parseTags o tags)) none with
    | none => rw [hp] at h; cases h
    | some x =>
      rw [hp] at h key
      simp only [UpdRes.ok.injEq] at h
      subst h
      rcases key with ⟨v, hv, e, h1, h2, hmin⟩ | ⟨hnone, ⟨hd, v, hv, e, h2, hmax⟩ | ⟨_, e⟩⟩
      · obtain ⟨hvt, hvv⟩ := (memP v).1 hv
        simp only [Option.some.injEq] at e
        subst e
        refine ⟨hvt, h2, v.ver, hvv, Or.inl ⟨h1, ?_⟩⟩
        intro t ht w hw hs hc
        exact hmin ⟨t, w⟩ ((memP ⟨t, w⟩).2 ⟨ht, hw⟩) hc hs
      · obtain ⟨hvt, hvv⟩ := (memP v).1 hv
        simp only [Option.some.injEq] at e
        subst e
        refine ⟨hvt, h2, v.ver, hvv, Or.inr ⟨hd, ?_, ?_⟩⟩
        · intro t ht w hw hs
          cases hc : cur.le w with
          | false => rfl
          | true =>
            have := hnone ⟨t, w⟩ ((memP ⟨t, w⟩).2 ⟨ht, hw⟩) hc
            rw [hs] at this; cases this
        · intro t ht w hw hs
          exact hmax ⟨t, w⟩ ((memP ⟨t, w⟩).2 ⟨ht, hw⟩) hs
      · cases e

/-- ... and it reports "no valid version" exactly when no tag qualifies: none is admissible and
not older, and (unless downgrades are disabled) none is admissible at all. -/
theorem update_none_iff (o : Oracle) (parents : List String) (installed : String)
    (down : Bool) (tags : List String) (cur : Ver)
    (hdg : digestToUpdate o parents = .ok "") (hcon : parents.all o.conOk = true)
    (hcur : o.ver installed = some cur) :
    toUpdate o parents installed down (some tags) = .err .noValidVersion ↔
      (∀ t ∈ tags, ∀ w, o.ver t = some w → satAll o parents t = true → cur.le w = false ∧ down = false) := by
  unfold toUpdate
  rw [hdg]
  simp only [ne_eq, not_true_eq_false, if_false, hcon, Bool.not_true, Bool.false_eq_true, hcur]
  have memP : ∀ v : VTag, v ∈ sortTags (parseTags o tags) ↔ v.tag ∈ tags ∧ o.ver v.tag = some v.ver :=
    fun v => mem_sortTags.trans mem_parseTags
  have key := pickUpdate_spec (satAll o parents) cur down (sortTags (parseTags o tags)) none (sortTags_sorted _)
  cases hp : pickUpdate (satAll o parents) cur down (sortTags (parseTags o tags)) none with
  | some x =>
    rw [hp] at key
    simp only [reduceCtorEq, false_iff]
    intro hall
    rcases key with ⟨v, hv, _, h1, h2, _⟩ | ⟨_, ⟨hd, v, hv, _, h2, _⟩ | ⟨_, e⟩⟩
    · obtain ⟨hvt, hvv⟩ := (memP v).1 hv
      have := (hall v.tag hvt v.ver hvv h2).1
      rw [h1] at this; cases this
    · obtain ⟨hvt, hvv⟩ := (memP v).1 hv
      have := (hall v.tag hvt v.ver hvv h2).2
      rw [hd] at this; cases this
    · cases e
  | none =>
    rw [hp] at key
    simp only [true_iff]
    intro t ht w hw hs
    have hin := (memP ⟨t, w⟩).2 ⟨ht, hw⟩
    rcases key with ⟨v, _, e, _⟩ | ⟨hnone, ⟨_, v, _, e, _⟩ | ⟨hcond, _⟩⟩
    · cases e
    · cases e
    · refine ⟨?_, ?_⟩
      · cases hc : cur.le w with
        | false => rfl
        | true =>
          have := hnone ⟨t, w⟩ hin hc
          rw [hs] at this; cases this
      · rcases hcond with hdn | hno
        · exact hdn
        · have := hno ⟨t, w⟩ hin
          rw [hs] at this; cases this

/-! ### a broken graph stops installation -/

/-- The lock reconciler writes no package (neither create nor update) and reports
`Resolved = False` whenever the lock's dependency graph has a cycle (for every iteration
order of the node map) or the DAG cannot be built (duplicate sources): Sort runs before, and
independently of, any version lookup. -/
theorem cycle_blocks_install (o : Oracle) (upg down : Bool) (lock : List Pkg) (order : List String)
    (installed : String → Option String) (fetch : String → Option (List String))
    (hord : ∀ n, n ∈ order ↔ (lockNb lock n).isSome = true) (hne : lockNb lock "" = none)
    (hbroken : HasCycle (lockNb lock) ∨ ∃ e, init o upg lock = .error e) :
    (reconcile o upg down lock order installed fetch).act = .nothing ∧
    (reconcile o upg down lock order installed fetch).resolved = some false := by
  unfold reconcile
  cases hi : init o upg lock with
  | error e => exact ⟨rfl, rfl⟩
  | ok r =>
    obtain ⟨d, imp⟩ := r
    simp only []
    have hcyc : HasCycle (lockNb lock) := by
      rcases hbroken with h | ⟨e, h⟩
      · exact h
      · rw [hi] at h; cases h
    obtain ⟨e, he⟩ := ((sort_ok_iff_acyclic hi order hord hne).1).2 hcyc
    rw [he]
    exact ⟨rfl, rfl⟩

/-- Whatever the reconciler writes is what the two selection functions returned: a created
package carries the (non-empty) result of findDependencyVersionToInstall for the constraint of
the first implied dependency, an updated one the result of findDependencyVersionToUpdate for
the installed version and the node's parent constraints; so `install_max` and
`update_min_not_older_or_max_older` apply to every write. -/
theorem reconcile_writes_selected (o : Oracle) (upg down : Bool) (lock : List Pkg) (order : List String)
    (installed : String → Option String) (fetch : String → Option (List String)) :
    match (reconcile o upg down lock order installed fetch).act with
    | .nothing => True
    | .create id v => ∃ con, toInstall o con (fetch id) = .ok v ∧ v ≠ ""
    | .update id v => ∃ parents ins, upg = true ∧ installed id = some ins ∧ toUpdate o parents ins down (fetch id) = .ok v := by
  unfold reconcile
  cases hi : init o upg lock with
  | error e => trivial
  | ok r =>
    obtain ⟨d, imp⟩ := r
    simp only []
    cases hs : sort d order with
    | error e => trivial
    | ok res =>
      simp only []
      cases imp with
      | nil => trivial
      | cons dep rest =>
        simp only []
        cases hinst : (if upg = true then installed dep.pkg else none) with
        | none =>
          simp only []
          cases ht : toInstall o dep.con (fetch dep.pkg) with
          | error e => trivial
          | ok v =>
            by_cases hv : v = ""
            · subst hv; trivial
            · simp only [hv, if_false]
              exact ⟨dep.con, ht, hv⟩
        | some ins =>
          simp only []
          have hu : upg = true := by
            cases upg with
            | true => rfl
            | false => simp at hinst
          subst hu
          simp only [if_true] at hinst
          cases ht : toUpdate o ((Option.map (fun x => x.parents) (d.get dep.pkg)).getD []) ins down (fetch dep.pkg) with
          | err e => trivial
          | panic => trivial
          | ok v => exact ⟨_, ins, rfl, hinst, ht⟩

/-! ### Resolve: "dependencies satisfied" is sound -/

/-- PackageDependencyManager.Resolve (as repaired by fixes/D21.diff) returns no error for an
active revision `self` only if, in the lock it leaves behind,
* the revision is recorded with its declared dependencies,
* every direct dependency is a lock package whose version is the pinned digest, resp. a
  semantic version admitted by the declared constraint, and
* every package reachable from the revision through dependency edges is a lock package
for every well-formed lock (`LockWF`), both DAG implementations, every oracle. -/
theorem satisfied_sound (o : Oracle) (upg : Bool) (lock : List Pkg) (self : Pkg) (wf : LockWF lock self)
    (h : (resolve o upg lock self).err = .none) :
    lockNb (resolve o upg lock self).lock self.source = some (self.deps.map (·.pkg)) ∧
    (∀ e ∈ self.deps, ∃ p ∈ (resolve o upg lock self).lock, p.source = e.pkg ∧ VersionOk o e p.version) ∧
    (∀ m, Reach (lockNb (resolve o upg lock self).lock) self.source m →
      m ∈ (resolve o upg lock self).lock.map (·.source)) :=
  resolve_sound o upg lock self wf h

/-- D21 witness: before the repair, a revision moved to another repository that depends on its
old location was reported satisfied although the old entry had just been removed from the
lock (the DAG was still the one built before the removal). `resolveG false` is the model of
the unrepaired code; the same input is in corpus/C17. -/
def wOracle : Oracle :=
  ⟨fun t => if t == "2.0.1" then some ⟨2, 0, 1, []⟩ else none, fun c => c == "*", fun c t => c == "*" && t == "2.0.1", fun _ => none⟩
def wLock : List Pkg := [⟨"p0", "xpkg.io/o/a", "2.0.1", [], false⟩]
def wSelf : Pkg := ⟨"p0", "xpkg.io/moved/p0", "1.0.0", [⟨"xpkg.io/o/a", "*"⟩], false⟩

theorem satisfied_sound_fails_on_unfixed_witness :
    LockWF wLock wSelf ∧ (resolveG false wOracle false wLock wSelf).err = .none ∧
    ¬ (∀ e ∈ wSelf.deps, ∃ p ∈ (resolveG false wOracle false wLock wSelf).lock, p.source = e.pkg) := by
  refine ⟨⟨by decide, by decide, by decide⟩, by decide, by decide⟩

/-- ... and the repaired code reports the dependency missing on that input -/
example : (resolve wOracle false wLock wSelf).err = .missingDirect := by decide

/-! ### Resolve next to other writers of the Lock

`resolveI retry o upg lock self env` (Model) is Resolve with an environment `env : Interf` that may
replace the stored Lock right before each of Resolve's API calls after its first Get (before
RemoveSelf's Get, before RemoveSelf's Update, before the refreshing Get, before the Update that
adds the revision). A write right before an Update makes that Update fail with a conflict (the
resourceVersion moved); `retry = false` is the code as it is (the conflict error is returned),
`.lock` is the Lock as stored when Resolve returns. -/

/-- Without other writers `resolveI` is `resolve`: the theorems above are the interference-free
special case (for both values of `retry`: no conflict, nothing to retry). -/
theorem resolve_is_interference_free_case (retry : Bool) (o : Oracle) (upg : Bool) (lock : List Pkg) (self : Pkg) :
    resolveI retry o upg lock self Interf.quiet = resolve o upg lock self :=
  resolveI_quiet retry o upg lock self

/-- **Satisfied is sound next to concurrent writers.** For every lock, revision, DAG
implementation, oracle and EVERY interference `env` (arbitrary lock contents stored by other
writers at each of the four points; only the two writes Resolve reads back must leave the
revision's own entries alone, `EnvWF`): if Resolve returns no error then, in the Lock AS STORED
WHEN RESOLVE RETURNS,
* the revision is recorded with its declared dependencies,
* every direct dependency is a lock package at the pinned digest / an admitted version,
* every package reachable from the revision is a lock package. -/
theorem satisfied_sound_under_interference (o : Oracle) (upg : Bool) (lock : List Pkg) (self : Pkg) (env : Interf)
    (wf : LockWF lock self) (ewf : EnvWF env self)
    (h : (resolveI false o upg lock self env).err = .none) :
    lockNb (resolveI false o upg lock self env).lock self.source = some (self.deps.map (·.pkg)) ∧
    (∀ e ∈ self.deps, ∃ p ∈ (resolveI false o upg lock self env).lock, p.source = e.pkg ∧ VersionOk o e p.version) ∧
    (∀ m, Reach (lockNb (resolveI false o upg lock self env).lock) self.source m →
      m ∈ (resolveI false o upg lock self env).lock.map (·.source)) :=
  resolveI_sound o upg lock self env wf ewf h

/-- ... and the reason: a run that ends without error has no window between its last read and
its write. The stored Lock is exactly what Resolve's last Get returned (`lastRead`) when the
revision was already recorded, and otherwise that plus the revision's entry, in which case
nobody wrote between that Get and the Update (`env.upd = none`). For every `env`, no
assumption on it. -/
theorem satisfied_has_no_stale_window (o : Oracle) (upg : Bool) (lock : List Pkg) (self : Pkg) (env : Interf)
    (h : (resolveI false o upg lock self env).err = .none) :
    ((lastRead lock self env).any (fun lp => lp.name == self.name) = true ∧
      (resolveI false o upg lock self env).lock = lastRead lock self env) ∨
    ((lastRead lock self env).any (fun lp => lp.name == self.name) = false ∧ env.upd = none ∧
      (resolveI false o upg lock self env).lock = lastRead lock self env ++ [self]) :=
  resolveI_ok_lock h

/-- The conflict is the consequence of the interference: Resolve returns the conflict error iff
another writer stored something right before an Update that Resolve sends on its path (the
Update of RemoveSelf when an entry with the revision's name is there; the Update adding the
revision when the lock as last read does not have it and the DAG could be built). -/
theorem conflict_iff_interference_before_a_write (o : Oracle) (upg : Bool) (lock : List Pkg) (self : Pkg) (env : Interf)
    (hinit : ∀ e, init o upg lock ≠ .error e) :
    (resolveI false o upg lock self env).err = .conflict ↔
      (lock.any (movedEntry self) = true ∧ (env.rmGet.getD lock).any (fun lp => lp.name == self.name) = true ∧
        env.rmUpd.isSome = true) ∨
      ((∀ e, init o upg (lastRead lock self env) ≠ .error e) ∧
        (lastRead lock self env).any (fun lp => lp.name == self.name) = false ∧ env.upd.isSome = true ∧
        (lock.any (movedEntry self) = true → (env.rmGet.getD lock).any (fun lp => lp.name == self.name) = true → env.rmUpd = none)) :=
  resolveI_conflict_iff o upg lock self env hinit

/-- On a conflict nothing is claimed and nothing is overwritten: the stored Lock is what the
other writer left, `installed` and `invalid` are 0. -/
theorem conflict_claims_nothing (o : Oracle) (upg : Bool) (lock : List Pkg) (self : Pkg) (env : Interf)
    (h : (resolveI false o upg lock self env).err = .conflict) :
    (env.rmUpd = some (resolveI false o upg lock self env).lock ∨ env.upd = some (resolveI false o upg lock self env).lock) ∧
    (resolveI false o upg lock self env).installed = 0 ∧ (resolveI false o upg lock self env).invalid = 0 :=
  resolveI_conflict_out h

/-! #### the trigger: all dependencies present at the read, one removed before the Update -/

/-- b is in the lock when the new revision a (depending on b) reads it; b's revision removes
itself before a's Update -/
def iLock : List Pkg := [⟨"pb", "b", "2.0.1", [], false⟩]
def iSelf : Pkg := ⟨"pa", "a", "2.0.1", [⟨"b", "*"⟩], false⟩
def iEnv : Interf := { upd := some [] }

/-- the code as it is returns the conflict error on the trigger ... -/
example : (resolveI false wOracle false iLock iSelf iEnv).err = .conflict := by decide
example : LockWF iLock iSelf ∧ EnvWF iEnv iSelf :=
  ⟨⟨by decide, by decide, by decide⟩, ⟨fun w h => (by cases h), fun w h => (by cases h)⟩⟩

/-- ... whereas the variant that retries the Update on a conflict (`retry = true`: re-read,
re-append, update again, keep the DAG built from the first read) reports the dependencies
satisfied with the direct dependency b absent from the stored Lock: `satisfied_sound_under_interference`
rests on the conflict ending the call. -/
theorem satisfied_sound_fails_with_conflict_retry_witness :
    LockWF iLock iSelf ∧ EnvWF iEnv iSelf ∧ (resolveI true wOracle false iLock iSelf iEnv).err = .none ∧
    (resolveI true wOracle false iLock iSelf iEnv).installed = (resolveI true wOracle false iLock iSelf iEnv).found ∧
    ¬ (∀ e ∈ iSelf.deps, ∃ p ∈ (resolveI true wOracle false iLock iSelf iEnv).lock, p.source = e.pkg) := by
  refine ⟨⟨by decide, by decide, by decide⟩, ⟨fun w h => (by cases h), fun w h => (by cases h)⟩, by decide, by decide, by decide⟩

/-! #### laws of the interference-free Resolve that do not survive other writers -/

/-- (1) Unless the DAG cannot be built, the revision is recorded in the lock after Resolve. -/
theorem recorded_without_interference (o : Oracle) (upg : Bool) (lock : List Pkg) (self : Pkg)
    (h : (resolve o upg lock self).err ≠ .initDag) : ∃ p ∈ (resolve o upg lock self).lock, p.name = self.name := by
  unfold resolve at h ⊢
  obtain ⟨lock1, _, hshape⟩ := resolveG_lock o upg lock self
  rcases hshape with ⟨he, _⟩ | hl
  · exact absurd he h
  · rw [hl]
    cases hpe : lock1.any (fun lp => lp.name == self.name) with
    | true =>
      obtain ⟨q, hq, hqn⟩ := List.any_eq_true.1 hpe
      exact ⟨q, by simpa using hq, by simpa using hqn⟩
    | false => exact ⟨self, by simp, rfl⟩

/-- ... next to another writer it is not (conflict on the trigger above) -/
theorem recorded_fails_under_interference_witness :
    (resolveI false wOracle false iLock iSelf iEnv).err ≠ .initDag ∧
    ¬ ∃ p ∈ (resolveI false wOracle false iLock iSelf iEnv).lock, p.name = iSelf.name := by
  refine ⟨by decide, by decide⟩

/-- (2) Resolve removes nothing but the revision's own stale entry: every other revision's
entry of the lock it read is in the lock it leaves. (This is the law a cached graph relies on.) -/
theorem frame_without_interference (o : Oracle) (upg : Bool) (lock : List Pkg) (self : Pkg) :
    ∀ p ∈ lock, p.name ≠ self.name → p ∈ (resolve o upg lock self).lock := by
  intro p hp hn
  unfold resolve
  obtain ⟨lock1, hl1, hshape⟩ := resolveG_lock o upg lock self
  have h1 : p ∈ lock1 := by
    rw [hl1]
    split
    · exact mem_removeSelf_of_ne hn lock hp
    · exact hp
  rcases hshape with ⟨_, hl | hl⟩ | hl
  · rw [hl]; exact hp
  · rw [hl]; exact h1
  · rw [hl]
    split
    · exact h1
    · exact List.mem_append_left _ h1

/-- ... next to another writer an entry read by Resolve can be gone when Resolve returns, even
when Resolve returns no error (here: the writer empties the lock between RemoveSelf and the
refreshing Get) -/
def fLock : List Pkg := [⟨"pa", "old/a", "2.0.1", [], false⟩, ⟨"pc", "c", "2.0.1", [], false⟩]
def fSelf : Pkg := ⟨"pa", "a", "2.0.1", [], false⟩
def fEnv : Interf := { refresh := some [] }

theorem frame_fails_under_interference_witness :
    LockWF fLock fSelf ∧ EnvWF fEnv fSelf ∧ (resolveI false wOracle false fLock fSelf fEnv).err = .none ∧
    ¬ (∀ p ∈ fLock, p.name ≠ fSelf.name → p ∈ (resolveI false wOracle false fLock fSelf fEnv).lock) := by
  refine ⟨⟨by decide, by decide, by decide⟩, ⟨fun w h => (by cases h), ?_⟩, by decide, by decide⟩
  intro w h
  cases h
  exact ⟨fun p hp => (by cases hp), fun p hp => (by cases hp)⟩

/-- (3) "Satisfied" speaks about the lock Resolve was called on: every direct dependency is a
package of that lock (or the revision itself). -/
theorem satisfied_refers_to_lock_read_first (o : Oracle) (upg : Bool) (lock : List Pkg) (self : Pkg) (wf : LockWF lock self)
    (h : (resolve o upg lock self).err = .none) : ∀ e ∈ self.deps, e.pkg ∈ (lock ++ [self]).map (·.source) := by
  intro e he
  obtain ⟨p, hp, hs, _⟩ := (satisfied_sound o upg lock self wf h).2.1 e he
  unfold resolve at hp h
  obtain ⟨lock1, hl1, hshape⟩ := resolveG_lock o upg lock self
  have hsub : ∀ q ∈ lock1, q ∈ lock := by
    intro q hq
    rw [hl1] at hq
    split at hq
    · exact removeSelf_sub _ _ _ hq
    · exact hq
  refine List.mem_map.2 ⟨p, ?_, hs⟩
  rcases hshape with ⟨hi, _⟩ | hl
  · rw [h] at hi; cases hi
  · rw [hl] at hp
    split at hp
    · exact List.mem_append_left _ (hsub p hp)
    · rcases List.mem_append.1 hp with h' | h'
      · exact List.mem_append_left _ (hsub p h')
      · exact List.mem_append_right _ h'

/-- ... next to another writer it speaks about the lock as last read: here b is added between
RemoveSelf and the refreshing Get, and Resolve (rightly) reports satisfied although the lock it
was called on does not hold b -/
def rLock : List Pkg := [⟨"pa", "old/a", "2.0.1", [], false⟩]
def rEnv : Interf := { refresh := some [⟨"pb", "b", "2.0.1", [], false⟩] }

theorem satisfied_refers_to_lock_read_first_fails_under_interference_witness :
    LockWF rLock iSelf ∧ EnvWF rEnv iSelf ∧ (resolveI false wOracle false rLock iSelf rEnv).err = .none ∧
    ¬ (∀ e ∈ iSelf.deps, e.pkg ∈ (rLock ++ [iSelf]).map (·.source)) := by
  refine ⟨⟨by decide, by decide, by decide⟩, ⟨fun w h => (by cases h), ?_⟩, by decide, by decide⟩
  intro w h
  cases h
  exact ⟨by decide, by decide⟩

/-- The assumption of `satisfied_sound_under_interference` on the write read back by the
refreshing Get cannot be dropped: a writer that puts the revision's stale entry back right
after RemoveSelf removed it makes Resolve find "itself" in the lock, skip the Update, trace
from a source that is only an implied node, and report satisfied while the revision is not
recorded under its source (and c, needed by b, is absent). -/
def nLock : List Pkg :=
  [⟨"pa", "old/a", "2.0.1", [], false⟩, ⟨"px", "x", "2.0.1", [⟨"a", "*"⟩], false⟩, ⟨"pb", "b", "2.0.1", [⟨"c", "*"⟩], false⟩]

theorem stale_entry_put_back_witness :
    LockWF nLock iSelf ∧ (resolveI false wOracle false nLock iSelf { refresh := some nLock }).err = .none ∧
    lockNb (resolveI false wOracle false nLock iSelf { refresh := some nLock }).lock iSelf.source ≠ some (iSelf.deps.map (·.pkg)) := by
  refine ⟨⟨by decide, by decide, by decide⟩, by decide, by decide⟩

/-! ### non-vacuity -/

def o0 : Oracle := ⟨fun _ => none, fun _ => false, fun _ _ => false, fun _ => none⟩

/-- a → b → c → a, plus a dependency on the absent package x -/
def cyc : List Pkg :=
  [⟨"pa", "a", "1.0.0", [⟨"b", "*"⟩], false⟩, ⟨"pb", "b", "1.0.0", [⟨"c", "*"⟩, ⟨"x", "*"⟩], false⟩,
   ⟨"pc", "c", "1.0.0", [⟨"a", "*"⟩], false⟩]

/-- diamond a → {b, c} → d -/
def dia : List Pkg :=
  [⟨"pa", "a", "1.0.0", [⟨"b", "*"⟩, ⟨"c", "*"⟩], false⟩, ⟨"pb", "b", "1.0.0", [⟨"d", "*"⟩], false⟩,
   ⟨"pc", "c", "1.0.0", [⟨"d", "*"⟩], false⟩, ⟨"pd", "d", "1.0.0", [], false⟩]

example : (match init o0 false cyc with
    | .ok (d, imp) => (match sort d ["x", "c", "b", "a"] with | .error (.cycle c) => some c | _ => none, imp.map (·.pkg))
    | .error _ => (none, [])) = (some "c", ["x"]) := by decide
example : (match init o0 true dia with
    | .ok (d, _) => ((sort d ["c", "a", "d", "b"]).toOption, (trace d "a").toOption)
    | .error _ => (none, none)) = (some ["d", "c", "b", "a"], some ["c", "d", "b"]) := by decide

/-- tags 1.0.0, 2.0.0-rc.1, 1.5.0, latest; constraint admits everything below 2.0.0 -/
def o1 : Oracle :=
  { ver := fun t => match t with
      | "1.0.0" => some ⟨1, 0, 0, []⟩ | "1.5.0" => some ⟨1, 5, 0, []⟩
      | "2.0.0-rc.1" => some ⟨2, 0, 0, [.alnum "rc", .num 1]⟩ | "2.0.0" => some ⟨2, 0, 0, []⟩
      | _ => none
    conOk := fun c => c == "<2.0.0" || c == ">=1.0.0"
    sat := fun c t => (c == "<2.0.0" && (t == "1.0.0" || t == "1.5.0")) || (c == ">=1.0.0" && t != "latest")
    digest := fun _ => none }

/-- the same tags parsed and in precedence order (what `sortTags (parseTags o1 ·)` yields) -/
def sorted1 : List VTag :=
  [⟨"1.0.0", ⟨1, 0, 0, []⟩⟩, ⟨"1.5.0", ⟨1, 5, 0, []⟩⟩, ⟨"2.0.0-rc.1", ⟨2, 0, 0, [.alnum "rc", .num 1]⟩⟩, ⟨"2.0.0", ⟨2, 0, 0, []⟩⟩]

example : ∃ r, toInstall o1 "<2.0.0" (some ["1.0.0", "2.0.0-rc.1", "latest", "1.5.0"]) = .ok r := ⟨_, rfl⟩
example : lastSat (o1.sat "<2.0.0") sorted1 "" = "1.5.0" := by decide
example : digestToUpdate o1 ["<2.0.0", ">=1.0.0"] = .ok "" := rfl
-- stay on the installed version when it is admissible; move up to the lowest admissible otherwise
example : pickUpdate (satAll o1 ["<2.0.0", ">=1.0.0"]) ⟨1, 0, 0, []⟩ false sorted1 none = some "1.0.0" := by decide
example : pickUpdate (satAll o1 [">=1.0.0"]) ⟨1, 7, 0, []⟩ false sorted1 none = some "2.0.0-rc.1" := by decide
-- installed 2.0.0-rc.1 violates <2.0.0: highest older one with downgrades, nothing without
example : pickUpdate (satAll o1 ["<2.0.0"]) ⟨2, 0, 0, [.alnum "rc", .num 1]⟩ true sorted1 none = some "1.5.0" := by decide
example : pickUpdate (satAll o1 ["<2.0.0"]) ⟨2, 0, 0, [.alnum "rc", .num 1]⟩ false sorted1 none = none := by decide
example : toUpdate o1 [">=1.0.0"] "latest" false (some ["2.0.0"]) = .panic := by decide
example : (⟨2, 0, 0, [.alnum "rc", .num 1]⟩ : Ver).le ⟨2, 0, 0, []⟩ = true ∧ (⟨2, 0, 0, []⟩ : Ver).le ⟨2, 0, 0, [.alnum "rc", .num 1]⟩ = false := by decide

/-- a satisfied Resolve: c is in the lock at 2.0.1, b depends on it, the new revision a depends on b -/
example : (resolve wOracle true
    [⟨"pc", "c", "2.0.1", [], false⟩, ⟨"pb", "b", "2.0.1", [⟨"c", "*"⟩], false⟩]
    ⟨"pa", "a", "2.0.1", [⟨"b", "*"⟩], false⟩).err = .none := by decide
example : LockWF [⟨"pc", "c", "2.0.1", [], false⟩, ⟨"pb", "b", "2.0.1", [⟨"c", "*"⟩], false⟩]
    ⟨"pa", "a", "2.0.1", [⟨"b", "*"⟩], false⟩ := ⟨by decide, by decide, by decide⟩
/-- satisfied next to writers that do not touch the closure: a status write before RemoveSelf's
Get, an unrelated package added before the refreshing Get -/
example : (resolveI false wOracle true rLock iSelf
    { rmGet := some rLock, refresh := some [⟨"pb", "b", "2.0.1", [], false⟩, ⟨"pz", "z", "2.0.1", [], false⟩] }).err = .none := by decide
example : (reconcile o0 false false cyc ["x", "c", "b", "a"] (fun _ => none) (fun _ => some [])).act = .nothing := by decide

end Xp.C17

import Xp.Model.C17
import Xp.Proofs.C17Dag
import Xp.Proofs.C17SortE
import Xp.Proofs.C17Init
import Xp.Proofs.C17Ver
import Xp.Proofs.C17Res
import Xp.Proofs.C17Env
import Xp.Proofs.C17Rec
import Xp.Proofs.C17ResF
import Xp.Proofs.C17Glue
import Xp.Proofs.C17Parents
import Xp.Gen.C17Tables
import Xp.Gen.C17Skel
import Xp.Model.C17Skel
/-
C17 property theorems: dependency resolution.

Vocabulary (Xp/Model/C17.lean, Xp/Proofs/C17Init.lean):
* `lockNb pkgs` is the dependency graph read off the lock contents `pkgs`: a lock package
  points at the packages it depends on; a dependency that is not in the lock is a node
  without neighbours ("implied").  `init` (MapDag.Init / MapUpgradingDag.Init) builds a DAG
  whose neighbour function is exactly `lockNb pkgs` (`Proofs.C17Init.init_spec`), so the
  theorems below speak about the lock, not about an internal data structure.
* `Reach nb a b`: `b` is reachable from `a` by at least one edge; `HasCycle nb`: some node
  reaches itself (self loops and cycles through implied nodes included).
* `order` is the iteration order of Go's node map in `Sort`; it is universally quantified.
* `o : Oracle` carries the verdicts of Masterminds/semver and go-containerregistry; every
  theorem holds for every oracle.
-/
namespace Xp.C17

/-! ### Sort: errors iff the lock's dependency graph has a cycle; otherwise dependencies first -/

/-- `Sort` (of either DAG implementation, after `Init` on the lock contents `pkgs`), for every
iteration order of the node map:
* it fails iff the dependency graph of the lock has a cycle;
* when it fails, the error is the cycle error and the node it names lies on a cycle
  (never "node does not exist", never out of fuel);
* when it succeeds, the result lists every node of the graph exactly once and every package
  after all the packages it depends on. -/
theorem sort_ok_iff_acyclic {o : Oracle} {upg : Bool} {pkgs : List Pkg} {d : Dag} {imp : List Dep}
    (h : init o upg pkgs = .ok (d, imp)) (order : List String)
    (hord : ∀ n, n ∈ order ↔ (lockNb pkgs n).isSome = true) (hne : lockNb pkgs "" = none) :
    ((∃ e, sort d order = .error e) ↔ HasCycle (lockNb pkgs)) ∧
    (∀ e, sort d order = .error e → ∃ c, e = .cycle c ∧ Reach (lockNb pkgs) c c) ∧
    (∀ res, sort d order = .ok res →
      res.Nodup ∧ (∀ n, n ∈ res ↔ (lockNb pkgs n).isSome = true) ∧ DepsFirst (lockNb pkgs) res) := by
  obtain ⟨hnb, hnodup, _, _⟩ := init_spec h
  have nbeq : d.nb = lockNb pkgs := funext hnb
  have hks : ∀ n, (lockNb pkgs n).isSome = true ↔ n ∈ d.keys := by
    intro n; rw [← nbeq]; exact d.nb_isSome_iff n
  have hlen : d.keys.length = d.length := by unfold Dag.keys; exact List.length_map ..
  have inv0 : Inv (lockNb pkgs) d.keys ⟨[], [], []⟩ :=
    ⟨(fun _ h => by cases h), (fun _ h => by cases h), (fun _ h => by cases h), trivial, (fun _ h => by cases h)⟩
  have spec := sortFrom_spec (lockNb pkgs) d.keys hks (lockNb_closed pkgs) hne (d.length + 1) order ⟨[], [], []⟩
    (fun n hn => (hks n).1 ((hord n).1 hn)) inv0 rfl (by omega)
  unfold sort sortG
  rw [nbeq]
  cases hs : sortFrom (lockNb pkgs) (d.length + 1) order ⟨[], [], []⟩ with
  | error e =>
    rw [hs] at spec
    cases e with
    | missing _ => exact spec.elim
    | fuel => exact spec.elim
    | cycle c =>
      have hc : Reach (lockNb pkgs) c c := spec
      refine ⟨⟨fun _ => ⟨c, hc⟩, fun _ => ⟨_, rfl⟩⟩, ?_, ?_⟩
      · intro e he
        cases he
        exact ⟨c, rfl, hc⟩
      · intro res he; cases he
  | ok st =>
    rw [hs] at spec
    obtain ⟨inv, _, _, hall⟩ : Inv (lockNb pkgs) d.keys st ∧ st.stack = [] ∧ _ ∧ ∀ n ∈ order, n ∈ st.results := spec
    have hsub : ∀ x ∈ st.results, x ∈ d.keys := fun x hx => inv.vis_keys x (inv.res_vis x hx).1
    have hsup : ∀ x ∈ d.keys, x ∈ st.results := fun x hx => hall x ((hord x).2 ((hks x).2 hx))
    have hnd : st.results.Nodup := nodup_of_reverse (TopoRev.nodup _ inv.topo)
    have hperm : st.results.Perm d.keys :=
      (List.perm_ext_iff_of_nodup hnd hnodup).2 (fun a => ⟨hsub a, hsup a⟩)
    have hpad : st.results ++ List.replicate (d.length - st.results.length) "" = st.results := by
      rw [hperm.length_eq, hlen, Nat.sub_self]; simp
    simp only [hpad]
    refine ⟨⟨(fun ⟨e, he⟩ => by cases he), ?_⟩, (fun e he => by cases he), ?_⟩
    · rintro ⟨c, hc⟩
      have hcs : (lockNb pkgs c).isSome = true := by
        cases hc with
        | edge e => exact e.isSome
        | step e _ => exact e.isSome
      have hcr : c ∈ st.results.reverse := List.mem_reverse.2 (hsup c ((hks c).1 hcs))
      exact absurd hc (TopoRev.acyclic _ inv.topo c hcr)
    · intro res he
      cases he
      exact ⟨hnd, fun n => ⟨fun hn => (hks n).2 (hsub n hn), fun hn => hsup n ((hks n).1 hn)⟩,
        TopoRev.depsFirst _ inv.topo⟩

/-- **Sort without any assumption on the identifiers** (the empty string included). Go's `visit`
stores a finished node in the first slot of the pre-sized results slice that still holds "", so
a node whose identifier is "" never occupies a slot (`finish`). For every lock, both DAG
implementations and every iteration order of the node map:
* Sort fails iff the dependency graph has a cycle, with the cycle error naming a node on a cycle
  (the empty identifier does not disturb cycle detection);
* on success there is a duplicate-free, dependencies-first order `full` of ALL nodes such that
  the result is `full` with the empty identifier taken out and "" appended in its place: the
  result still has one entry per node, but the empty identifier, if it is a node, is listed
  last whatever depends on it (`sort_empty_identifier_listed_last_witness`);
* if the empty string is not a node the result is `full` itself (`sort_ok_iff_acyclic`). -/
theorem sort_any_identifier {o : Oracle} {upg : Bool} {pkgs : List Pkg} {d : Dag} {imp : List Dep}
    (h : init o upg pkgs = .ok (d, imp)) (order : List String)
    (hord : ∀ n, n ∈ order ↔ (lockNb pkgs n).isSome = true) :
    ((∃ e, sort d order = .error e) ↔ HasCycle (lockNb pkgs)) ∧
    (∀ e, sort d order = .error e → ∃ c, e = .cycle c ∧ Reach (lockNb pkgs) c c) ∧
    (∀ res, sort d order = .ok res → ∃ full : List String,
      full.Nodup ∧ (∀ n, n ∈ full ↔ (lockNb pkgs n).isSome = true) ∧ DepsFirst (lockNb pkgs) full ∧
      res = noE full ++ List.replicate (full.length - (noE full).length) "" ∧
      (lockNb pkgs "" = none → res = full)) := by
  obtain ⟨hnb, hnodup, _, _⟩ := init_spec h
  have nbeq : d.nb = lockNb pkgs := funext hnb
  have hks : ∀ n, (lockNb pkgs n).isSome = true ↔ n ∈ d.keys := by
    intro n; rw [← nbeq]; exact d.nb_isSome_iff n
  have hlen : d.keys.length = d.length := by unfold Dag.keys; exact List.length_map ..
  have spec := sortG_spec (lockNb pkgs) d.keys hks (lockNb_closed pkgs) hnodup order
    (fun n => (hord n).trans (hks n))
  unfold sort
  rw [nbeq, ← hlen]
  cases hs : sortG (lockNb pkgs) d.keys.length order with
  | error e =>
    rw [hs] at spec
    obtain ⟨c, rfl, hc⟩ := spec
    refine ⟨⟨fun _ => ⟨c, hc⟩, fun _ => ⟨_, rfl⟩⟩, ?_, ?_⟩
    · intro e he; cases he; exact ⟨c, rfl, hc⟩
    · intro res he; cases he
  | ok res =>
    rw [hs] at spec
    obtain ⟨hac, full, hnd, hmem, hdf, hres⟩ := spec
    refine ⟨⟨(fun ⟨e, he⟩ => by cases he), fun hc => absurd hc hac⟩, (fun e he => by cases he), ?_⟩
    intro r he
    cases he
    refine ⟨full, hnd, fun n => (hmem n).trans (hks n).symm, hdf, hres, ?_⟩
    intro hne
    have hno : "" ∉ full := by
      intro hm
      have := (hks "").2 ((hmem "").1 hm)
      rw [hne] at this
      cases this
    rw [hres, noE_eq_self hno]
    simp

/-! ### TraceNode: exactly the transitive closure -/

/-- `TraceNode id` on the DAG built from the lock returns exactly the packages reachable from
`id` by one or more dependency edges (and fails with "missing node" iff `id` is not a node). -/
theorem trace_is_closure {o : Oracle} {upg : Bool} {pkgs : List Pkg} {d : Dag} {imp : List Dep}
    (h : init o upg pkgs = .ok (d, imp)) (id : String) :
    ((lockNb pkgs id).isSome = true → ∃ t, trace d id = .ok t ∧ ∀ m, m ∈ t ↔ Reach (lockNb pkgs) id m) ∧
    (lockNb pkgs id = none → trace d id = .error .missing) := by
  obtain ⟨hnb, _, _, _⟩ := init_spec h
  have nbeq : d.nb = lockNb pkgs := funext hnb
  have hks : ∀ n, (lockNb pkgs n).isSome = true ↔ n ∈ d.keys := by
    intro n; rw [← nbeq]; exact d.nb_isSome_iff n
  have hlen : d.keys.length = d.length := by unfold Dag.keys; exact List.length_map ..
  unfold trace
  rw [nbeq, ← hlen]
  refine ⟨fun hid => traceG_spec (lockNb pkgs) d.keys hks (lockNb_closed pkgs) id ((hks id).1 hid), ?_⟩
  intro hnone
  simp [traceG, traceNode, hnone]

/-! ### implied nodes = dependencies absent from the lock -/

/-- MapDag.Init returns as implied exactly the dependencies that are not lock packages, each
once; MapUpgradingDag.Init returns at least those (it also returns present packages whose
version does not satisfy an incoming constraint). -/
theorem implied_eq_missing {o : Oracle} {upg : Bool} {pkgs : List Pkg} {d : Dag} {imp : List Dep}
    (h : init o upg pkgs = .ok (d, imp)) :
    (∀ e ∈ pkgs.flatMap (·.deps), e.pkg ∉ pkgs.map (·.source) → e.pkg ∈ imp.map (·.pkg)) ∧
    (upg = false → (imp.map (·.pkg)).Nodup ∧
      ∀ x, x ∈ imp.map (·.pkg) ↔ (x ∈ (pkgs.flatMap (·.deps)).map (·.pkg) ∧ x ∉ pkgs.map (·.source))) :=
  ⟨(init_spec h).2.2.1, (init_spec h).2.2.2⟩

/-! ### the SemVer precedence order used for "highest" / "lowest" is a total preorder -/

theorem semver_order_total (a b : Ver) : a.le b = true ∨ b.le a = true := Ver.le_total a b

theorem semver_order_trans (a b c : Ver) (h1 : a.le b = true) (h2 : b.le c = true) : a.le c = true :=
  Ver.le_trans h1 h2

/-- regenerated from the library in /repo's module graph on every run: the empty string is not
a semantic version (so "no version selected", which the Go code encodes as "", is unambiguous) -/
theorem semver_rejects_empty : Xp.Gen.c17SemverParsesEmpty = false := by decide

/-! ### findDependencyVersionToInstall -/

/-- A digest constraint pins exactly that digest, whatever the tags are (they are not even
fetched); an unparsable constraint or a failing tag fetch installs nothing. -/
theorem install_guards (o : Oracle) (con : String) (fetch : Option (List String)) :
    (∀ dg, o.digest con = some dg → toInstall o con fetch = .ok dg) ∧
    (o.digest con = none → o.conOk con = false → toInstall o con fetch = .error .invalidConstraint) ∧
    (o.digest con = none → o.conOk con = true → fetch = none → toInstall o con fetch = .error .fetchTags) := by
  refine ⟨?_, ?_, ?_⟩
  · intro dg h; simp [toInstall, h]
  · intro h1 h2; simp [toInstall, h1, h2]
  · intro h1 h2 h3; simp [toInstall, h1, h2, h3]

/-- For a version constraint: the selected version is a tag of the repository, is a semantic
version, satisfies the constraint, and no tag that satisfies the constraint is higher; nothing
is selected (`""`) iff no tag is a semantic version satisfying the constraint. Tags that are
not semantic versions never matter. For every tag list (any order), every `sat`. -/
theorem install_max (o : Oracle) (con : String) (tags : List String) (r : String)
    (hempty : o.ver "" = none) (hd : o.digest con = none)
    (h : toInstall o con (some tags) = .ok r) :
    (r = "" ↔ ∀ t ∈ tags, (o.ver t).isSome = true → o.sat con t = false) ∧
    (r ≠ "" → r ∈ tags ∧ o.sat con r = true ∧ ∃ v, o.ver r = some v ∧
      ∀ t ∈ tags, ∀ w, o.ver t = some w → o.sat con t = true → w.le v = true) := by
  unfold toInstall at h
  rw [hd] at h
  simp only [] at h
  split at h
  · cases h
  · simp only [Except.ok.injEq] at h
    have key := lastSat_spec (o.sat con) (sortTags (parseTags o tags)) "" (sortTags_sorted _)
    rw [h] at key
    have memP : ∀ v : VTag, v ∈ sortTags (parseTags o tags) ↔ v.tag ∈ tags ∧ o.ver v.tag = some v.ver :=
      fun v => mem_sortTags.trans mem_parseTags
    rcases key with ⟨hr, none⟩ | ⟨v, hv, hr, hs, hmax⟩
    · refine ⟨⟨fun _ t ht hsome => ?_, fun _ => hr⟩, fun hne => absurd hr hne⟩
      cases hver : o.ver t with
      | none => rw [hver] at hsome; cases hsome
      | some w => exact none ⟨t, w⟩ ((memP ⟨t, w⟩).2 ⟨ht, hver⟩)
    · obtain ⟨hvt, hvv⟩ := (memP v).1 hv
      have hrne : r ≠ "" := by
        intro e
        rw [hr] at e
        rw [e, hempty] at hvv
        cases hvv
      refine ⟨⟨fun e => absurd e hrne, fun hall => ?_⟩, fun _ => ?_⟩
      · have := hall v.tag hvt (by rw [hvv]; rfl)
        rw [hs] at this; cases this
      · rw [hr]
        refine ⟨hvt, hs, v.ver, hvv, ?_⟩
        intro t ht w hw hsat
        exact hmax ⟨t, w⟩ ((memP ⟨t, w⟩).2 ⟨ht, hw⟩) hsat

/-! ### findDependencyVersionToUpdate -/

/-- findDigestToUpdate: a non-empty result means every parent constraint is that same digest;
an empty result means no parent constraint is a digest. (Mixed digests / digest and version
constraints are errors.) -/
theorem update_digest (o : Oracle) (hdig : ∀ c dg, o.digest c = some dg → dg ≠ "")
    (parents : List String) (dg : String) (h : digestToUpdate o parents = .ok dg) :
    (dg ≠ "" → ∀ c ∈ parents, o.digest c = some dg) ∧ (dg = "" → ∀ c ∈ parents, o.digest c = none) := by
  have := digestLoop_spec o hdig parents "" false dg h (by simp)
  exact ⟨fun hne => (this.1 hne).2.2, fun he => (this.2 he).2⟩

/-- Guards of findDependencyVersionToUpdate, in the order of the code: digest errors, pinned
digest, fetch error, unparsable parent constraint, and the `semver.MustParse(insVer)` panic on
an installed identifier that is not a semantic version (an observation: the property does not
demand totality there). -/
theorem update_guards (o : Oracle) (parents : List String) (installed : String) (down : Bool)
    (fetch : Option (List String)) :
    (∀ e, digestToUpdate o parents = .error e → toUpdate o parents installed down fetch = .err e) ∧
    (∀ dg, digestToUpdate o parents = .ok dg → dg ≠ "" → toUpdate o parents installed down fetch = .ok dg) ∧
    (toUpdate o parents installed down fetch = .panic ↔
      digestToUpdate o parents = .ok "" ∧ fetch.isSome = true ∧ parents.all o.conOk = true ∧ o.ver installed = none) := by
  refine ⟨?_, ?_, ?_⟩
  · intro e h; simp [toUpdate, h]
  · intro dg h hne; simp [toUpdate, h, hne]
  · unfold toUpdate
    cases hdg : digestToUpdate o parents with
    | error e => simp
    | ok dg =>
      by_cases hne : dg = ""
      · subst hne
        cases fetch with
        | none => simp
        | some tags =>
          cases hc : parents.all o.conOk with
          | false => simp
          | true =>
            cases hv : o.ver installed with
            | none => simp
            | some cur =>
              simp only [ne_eq, not_true_eq_false, if_false, Bool.not_true, Bool.false_eq_true]
              split <;> simp
      · simp [hne]

/-- With upgrades enabled, no digest pinned and an installed version `cur`: the selected version
is a tag, a semantic version, and satisfies **every** parent constraint; and either
* it is not older than `cur`, and is the lowest such admissible tag, or
* downgrades are enabled, no admissible tag is not-older than `cur`, and it is the highest
  admissible (hence older) tag. -/
theorem update_min_not_older_or_max_older (o : Oracle) (parents : List String) (installed : String)
    (down : Bool) (tags : List String) (cur : Ver) (r : String)
    (hdg : digestToUpdate o parents = .ok "") (hcur : o.ver installed = some cur)
    (h : toUpdate o parents installed down (some tags) = .ok r) :
    r ∈ tags ∧ satAll o parents r = true ∧ ∃ v, o.ver r = some v ∧
      ((cur.le v = true ∧
          ∀ t ∈ tags, ∀ w, o.ver t = some w → satAll o parents t = true → cur.le w = true → v.le w = true) ∨
       (down = true ∧
          (∀ t ∈ tags, ∀ w, o.ver t = some w → satAll o parents t = true → cur.le w = false) ∧
          ∀ t ∈ tags, ∀ w, o.ver t = some w → satAll o parents t = true → w.le v = true)) := by
  unfold toUpdate at h
  rw [hdg] at h
  simp only [ne_eq, not_true_eq_false, if_false] at h
  split at h
  · cases h
  · rw [hcur] at h
    simp only [] at h
    have memP : ∀ v : VTag, v ∈ sortTags (parseTags o tags) ↔ v.tag ∈ tags ∧ o.ver v.tag = some v.ver :=
      fun v => mem_sortTags.trans mem_parseTags
    have key := pickUpdate_spec (satAll o parents) cur down (sortTags (parseTags o tags)) none (sortTags_sorted _)
    cases hp : pickUpdate (satAll o parents) cur down (sortTags (parseTags o tags)) none with
    | none => rw [hp] at h; cases h
    | some x =>
      rw [hp] at h key
      simp only [UpdRes.ok.injEq] at h
      subst h
      rcases key with ⟨v, hv, e, h1, h2, hmin⟩ | ⟨hnone, ⟨hd, v, hv, e, h2, hmax⟩ | ⟨_, e⟩⟩
      · obtain ⟨hvt, hvv⟩ := (memP v).1 hv
        simp only [Option.some.injEq] at e
        subst e
        refine ⟨hvt, h2, v.ver, hvv, Or.inl ⟨h1, ?_⟩⟩
        intro t ht w hw hs hc
        exact hmin ⟨t, w⟩ ((memP ⟨t, w⟩).2 ⟨ht, hw⟩) hc hs
      · obtain ⟨hvt, hvv⟩ := (memP v).1 hv
        simp only [Option.some.injEq] at e
        subst e
        refine ⟨hvt, h2, v.ver, hvv, Or.inr ⟨hd, ?_, ?_⟩⟩
        · intro t ht w hw hs
          cases hc : cur.le w with
          | false => rfl
          | true =>
            have := hnone ⟨t, w⟩ ((memP ⟨t, w⟩).2 ⟨ht, hw⟩) hc
            rw [hs] at this; cases this
        · intro t ht w hw hs
          exact hmax ⟨t, w⟩ ((memP ⟨t, w⟩).2 ⟨ht, hw⟩) hs
      · cases e

/-- ... and it reports "no valid version" exactly when no tag qualifies: none is admissible and
not older, and (unless downgrades are disabled) none is admissible at all. -/
theorem update_none_iff (o : Oracle) (parents : List String) (installed : String)
    (down : Bool) (tags : List String) (cur : Ver)
    (hdg : digestToUpdate o parents = .ok "") (hcon : parents.all o.conOk = true)
    (hcur : o.ver installed = some cur) :
    toUpdate o parents installed down (some tags) = .err .noValidVersion ↔
      (∀ t ∈ tags, ∀ w, o.ver t = some w → satAll o parents t = true → cur.le w = false ∧ down = false) := by
  unfold toUpdate
  rw [hdg]
  simp only [ne_eq, not_true_eq_false, if_false, hcon, Bool.not_true, Bool.false_eq_true, hcur]
  have memP : ∀ v : VTag, v ∈ sortTags (parseTags o tags) ↔ v.tag ∈ tags ∧ o.ver v.tag = some v.ver :=
    fun v => mem_sortTags.trans mem_parseTags
  have key := pickUpdate_spec (satAll o parents) cur down (sortTags (parseTags o tags)) none (sortTags_sorted _)
  cases hp : pickUpdate (satAll o parents) cur down (sortTags (parseTags o tags)) none with
  | some x =>
    rw [hp] at key
    simp only [reduceCtorEq, false_iff]
    intro hall
    rcases key with ⟨v, hv, _, h1, h2, _⟩ | ⟨_, ⟨hd, v, hv, _, h2, _⟩ | ⟨_, e⟩⟩
    · obtain ⟨hvt, hvv⟩ := (memP v).1 hv
      have := (hall v.tag hvt v.ver hvv h2).1
      rw [h1] at this; cases this
    · obtain ⟨hvt, hvv⟩ := (memP v).1 hv
      have := (hall v.tag hvt v.ver hvv h2).2
      rw [hd] at this; cases this
    · cases e
  | none =>
    rw [hp] at key
    simp only [true_iff]
    intro t ht w hw hs
    have hin := (memP ⟨t, w⟩).2 ⟨ht, hw⟩
    rcases key with ⟨v, _, e, _⟩ | ⟨hnone, ⟨_, v, _, e, _⟩ | ⟨hcond, _⟩⟩
    · cases e
    · cases e
    · refine ⟨?_, ?_⟩
      · cases hc : cur.le w with
        | false => rfl
        | true =>
          have := hnone ⟨t, w⟩ hin hc
          rw [hs] at this; cases this
      · rcases hcond with hdn | hno
        · exact hdn
        · have := hno ⟨t, w⟩ hin
          rw [hs] at this; cases this

/-! ### a broken graph stops installation -/

/-- The lock reconciler writes no package (neither create nor update) and reports
`Resolved = False` whenever the lock's dependency graph has a cycle (for every iteration
order of the node map) or the DAG cannot be built (duplicate sources): Sort runs before, and
independently of, any version lookup. -/
theorem cycle_blocks_install (o : Oracle) (upg down : Bool) (lock : List Pkg) (order : List String)
    (installed : String → Option String) (fetch : String → Option (List String))
    (hord : ∀ n, n ∈ order ↔ (lockNb lock n).isSome = true) (hne : lockNb lock "" = none)
    (hbroken : HasCycle (lockNb lock) ∨ ∃ e, init o upg lock = .error e) :
    (reconcile o upg down lock order installed fetch).act = .nothing ∧
    (reconcile o upg down lock order installed fetch).resolved = some false := by
  unfold reconcile
  cases hi : init o upg lock with
  | error e => exact ⟨rfl, rfl⟩
  | ok r =>
    obtain ⟨d, imp⟩ := r
    simp only []
    have hcyc : HasCycle (lockNb lock) := by
      rcases hbroken with h | ⟨e, h⟩
      · exact h
      · rw [hi] at h; cases h
    obtain ⟨e, he⟩ := ((sort_ok_iff_acyclic hi order hord hne).1).2 hcyc
    rw [he]
    exact ⟨rfl, rfl⟩

/-- Whatever the reconciler writes is what the two selection functions returned: a created
package carries the (non-empty) result of findDependencyVersionToInstall for the constraint of
the first implied dependency, an updated one the result of findDependencyVersionToUpdate for
the installed version and the node's parent constraints; so `install_max` and
`update_min_not_older_or_max_older` apply to every write. -/
theorem reconcile_writes_selected (o : Oracle) (upg down : Bool) (lock : List Pkg) (order : List String)
    (installed : String → Option String) (fetch : String → Option (List String)) :
    match (reconcile o upg down lock order installed fetch).act with
    | .nothing => True
    | .create id v => ∃ con, toInstall o con (fetch id) = .ok v ∧ v ≠ ""
    | .update id v => ∃ parents ins, upg = true ∧ installed id = some ins ∧ toUpdate o parents ins down (fetch id) = .ok v := by
  unfold reconcile
  cases hi : init o upg lock with
  | error e => trivial
  | ok r =>
    obtain ⟨d, imp⟩ := r
    simp only []
    cases hs : sort d order with
    | error e => trivial
    | ok res =>
      simp only []
      cases imp with
      | nil => trivial
      | cons dep rest =>
        simp only []
        cases hinst : (if upg = true then installed dep.pkg else none) with
        | none =>
          simp only []
          cases ht : toInstall o dep.con (fetch dep.pkg) with
          | error e => trivial
          | ok v =>
            by_cases hv : v = ""
            · subst hv; trivial
            · simp only [hv, if_false]
              exact ⟨dep.con, ht, hv⟩
        | some ins =>
          simp only []
          have hu : upg = true := by
            cases upg with
            | true => rfl
            | false => simp at hinst
          subst hu
          simp only [if_true] at hinst
          cases ht : toUpdate o ((Option.map (fun x => x.parents) (d.get dep.pkg)).getD []) ins down (fetch dep.pkg) with
          | err e => trivial
          | panic => trivial
          | ok v => exact ⟨_, ins, rfl, hinst, ht⟩

/-! ### the lock reconciler next to other clients, behind an informer cache, with failing calls

`Xp/Model/C17Rec.lean`: `reconcileP` is Reconcile call by call (Get of the Lock and List of the
packages answered by the cache; Update / Status().Update / Create answered by the API server with
its resourceVersion check; pull-secret lookup and tag fetch), run by `runE` next to an arbitrary
environment `env` (what other clients, the informer and the registry do right before each call:
only `RelyW` is asked of it — it keeps resourceVersions coherent and cannot touch the ghost record
`seen` of what this Reconcile was served) and under every fault plan; any call can moreover come
back with an error of any class (`inject`, part of the world and set by the environment).
`ownE` lists the calls the API server applied, each with the world at that moment. `reconcile`
(above) is the decision taken on what was served; `Guar` says which served data justify a write. -/

/-- the scripts the harness plays (third-party writes, cache syncs, registry changes, injected
error classes before the k-th call) are environments of the kind quantified over below -/
theorem rec_scripts_obey_the_rely (acts : List (Nat × WAct)) (k : Nat) (w : RWorld) :
    RelyW w (scriptEnvW acts k w) := scriptEnvW_rely acts k w

/-- **Every write is justified by what THIS Reconcile was served.** From any coherent world in
which nothing has been served yet, for every environment, every fault plan and every error
class on every call: whenever the API server applies a call of the reconciler, the
resourceVersions are coherent and the guarantee `Guar` holds of the world at that moment — a
package is created / updated only for the first implied node of a sortable DAG of the Lock
served by this Reconcile's Get, with the version the selection functions return on the tag list
served by this Reconcile's fetch, (upgrades) after this Reconcile's List and for the object and
resourceVersion that List served; the Lock is only ever written back as served. When Reconcile
returns, at most one package write was applied, and if it returns no error although a Create was
answered AlreadyExists (`NameOk`), the object that holds the name - as this Reconcile's Get was
served it - is the package (kind, name) of the first implied dependency's own repository
(registry and repository): a name taken by a package of another repository is an error. -/
theorem rec_every_call_justified (cfg : RCfg) (w : RWorld) (hc : Coh w) (hs : w.seen = {})
    (env : Env RWorld) (henv : ∀ k s, RelyW s (env k s)) (plan : Plan) :
    (∀ x ∈ ownE recSem env plan 0 (reconcileP cfg) w, Coh x.1 ∧ Guar cfg x.1 x.2) ∧
    (∀ a, (runE recSem env plan 0 (reconcileP cfg) w).2 = some a →
      Coh (runE recSem env plan 0 (reconcileP cfg) w).1 ∧
      (runE recSem env plan 0 (reconcileP cfg) w).1.seen.writes ≤ 1 ∧
      (a.err = .none → NameOk cfg (runE recSem env plan 0 (reconcileP cfg) w).1.seen)) :=
  wpE_sound recSem RelyW (GuarC cfg) env henv plan 0 (reconcileP cfg) (RPost cfg) w (reconcileP_wp cfg w hc hs)

/-- the coherence of resourceVersions survives a whole Reconcile, also one that crashes -/
theorem rec_keeps_coherence (cfg : RCfg) (w : RWorld) (hc : Coh w)
    (env : Env RWorld) (henv : ∀ k s, RelyW s (env k s)) (plan : Plan) :
    Coh (runE recSem env plan 0 (reconcileP cfg) w).1 := by
  have hall : ∀ (p : RProg), Issues (fun _ : Req => True) p := by
    intro p
    induction p with
    | ret a => exact .ret a
    | call r c ih => exact .call r c trivial ih
  exact runE_inv recSem Coh (fun _ => True) (fun s r h _ => coh_exec h r) env (fun k s h => (henv k s).2 h)
    plan 0 (reconcileP cfg) (hall _) w hc

/-- **A cycle (or a Lock whose DAG cannot be built) stops installation, whatever happens around
the reconciler**: if the API server applied a package create / update of this Reconcile, then
the Lock its Get was served has a DAG that could be built and (no node having the empty
identifier) no dependency cycle. -/
theorem rec_broken_graph_writes_nothing (cfg : RCfg) (w : RWorld) (hc : Coh w) (hs : w.seen = {})
    (env : Env RWorld) (henv : ∀ k s, RelyW s (env k s)) (plan : Plan)
    (x : RWorld × Req) (hx : x ∈ ownE recSem env plan 0 (reconcileP cfg) w) (hw : x.2.isPkgWrite = true) :
    ∃ l d imp, x.1.seen.lock = some l ∧ init cfg.o cfg.upg l.pkgs = .ok (d, imp) ∧
      (lockNb l.pkgs "" = none → ¬ HasCycle (lockNb l.pkgs)) := by
  have hg := ((rec_every_call_justified cfg w hc hs env henv plan).1 x hx).2
  have key : ∀ d dep, ServedDep cfg x.1.seen d dep → ∃ l d imp, x.1.seen.lock = some l ∧
      init cfg.o cfg.upg l.pkgs = .ok (d, imp) ∧ (lockNb l.pkgs "" = none → ¬ HasCycle (lockNb l.pkgs)) := by
    rintro d dep ⟨l, rest, hl, hi, res, hsort⟩
    refine ⟨l, d, dep :: rest, hl, hi, fun hne hcyc => ?_⟩
    have hord : ∀ n, n ∈ d.keys ↔ (lockNb l.pkgs n).isSome = true := by
      intro n; rw [← (init_spec hi).1 n]; exact (d.nb_isSome_iff n).symm
    obtain ⟨e, he⟩ := ((sort_ok_iff_acyclic hi d.keys hord hne).1).2 hcyc
    rw [hsort] at he; cases he
  cases hr : x.2 with
  | createPkg kind name image =>
    rw [hr] at hg; unfold Guar at hg
    obtain ⟨_, d, dep, _, _, hsd, _⟩ := hg
    exact key d dep hsd
  | updatePkg kind name image rv =>
    rw [hr] at hg; unfold Guar at hg
    obtain ⟨_, _, d, dep, _, _, _, _, _, hsd, _⟩ := hg
    exact key d dep hsd
  | getLock => rw [hr] at hw; cases hw
  | updateLock _ _ _ => rw [hr] at hw; cases hw
  | statusLock _ _ => rw [hr] at hw; cases hw
  | listPkgs _ => rw [hr] at hw; cases hw
  | pullSecret _ => rw [hr] at hw; cases hw
  | tags _ => rw [hr] at hw; cases hw
  | getPkg _ _ => rw [hr] at hw; cases hw

/-- **The quiet decision skeleton is the special case**: a justified package write is exactly the
write `reconcile` (the model of the sixteen theorems above) decides on the data this Reconcile
was served — the Lock of its Get, the installed version in the list of its List, the tag list
of its fetch. So `install_max`, `update_min_not_older_or_max_older`, `cycle_blocks_install`
and `reconcile_writes_selected` speak about every write under interference, cache lag and
failing calls. -/
theorem rec_write_is_skeleton_decision (cfg : RCfg) (s : RWorld) :
    (∀ kind name image, Guar cfg s (.createPkg kind name image) →
      ∃ (l : LockObj) (d : Dag) (dep : Dep) (ref : RefInfo) (v : String), s.seen.lock = some l ∧ cfg.refOf dep.pkg = some ref ∧ image = fmtImage ref.str v ∧
        kind = cfg.kindOf dep.pkg ∧ name = ref.pkgName ∧
        reconcile cfg.o cfg.upg cfg.down l.pkgs d.keys (servedInstalled cfg s.seen) (fun _ => s.seen.tags)
          = ⟨.create dep.pkg v, .none, some true⟩) ∧
    (∀ kind name image rv, Guar cfg s (.updatePkg kind name image rv) →
      ∃ (l : LockObj) (d : Dag) (dep : Dep) (ref : RefInfo) (v : String) (ps : List PkgObj) (p : PkgObj) (pref : RefInfo), s.seen.lock = some l ∧ cfg.refOf dep.pkg = some ref ∧ image = fmtImage ref.str v ∧
        s.seen.pkgs = some ps ∧ p ∈ ps ∧ p.image.bind cfg.refOf = some pref ∧ pref.repo = ref.repo ∧
        kind = p.kind ∧ name = p.name ∧ rv = p.rv ∧
        reconcile cfg.o cfg.upg cfg.down l.pkgs d.keys (servedInstalled cfg s.seen) (fun _ => s.seen.tags)
          = ⟨.update dep.pkg v, .none, some true⟩) := by
  constructor
  · intro kind name image hg
    unfold Guar at hg
    obtain ⟨_, d, dep, ref, v, ⟨l, rest, hl, hi, res, hsort⟩, href, hk, hn, himg, hv0, hv, hu⟩ := hg
    refine ⟨l, d, dep, ref, v, hl, href, himg, hk, hn, ?_⟩
    have hinst : (if cfg.upg = true then servedInstalled cfg s.seen dep.pkg else none) = none := by
      by_cases hupg : cfg.upg = true
      · obtain ⟨ps, hps, hm⟩ := hu hupg
        simp [hupg, servedInstalled, href, hps, hm]
      · simp [hupg]
    unfold reconcile
    simp only [hi, hsort, hinst, hv, hv0, if_false]
  · intro kind name image rv hg
    unfold Guar at hg
    obtain ⟨_, hupg, d, dep, ref, ps, p, pref, v, ⟨l, rest, hl, hi, res, hsort⟩, href, hps, hm, hk, hn, hrv, himg, hv⟩ := hg
    have hspec : p ∈ ps ∧ p.image.bind cfg.refOf = some pref ∧ pref.repo = ref.repo := by
      rcases lastMatch_spec cfg.refOf ref.repo ps none p pref hm with h | h
      · cases h
      · exact h
    refine ⟨l, d, dep, ref, v, ps, p, pref, hl, href, himg, hps, hspec.1, hspec.2.1, hspec.2.2, hk, hn, hrv, ?_⟩
    have hinst : (if cfg.upg = true then servedInstalled cfg s.seen dep.pkg else none) = some pref.ident := by
      simp [hupg, servedInstalled, href, hps, hm]
    unfold reconcile
    unfold parentsOf at hv
    simp only [hi, hsort, hinst, hv]

/-- **No write based on a stale read lands.** If the API server accepted the reconciler's Update
of a package, then the object stored at that moment IS the object this Reconcile's List served
(same spec.package, so the installed version the selection started from is the version
installed at the moment of the write): an older cached copy, a package changed or re-created by
somebody else between the List and the Update make the Update fail instead. -/
theorem rec_update_lands_on_what_was_served (cfg : RCfg) (w : RWorld) (hc : Coh w) (hs : w.seen = {})
    (env : Env RWorld) (henv : ∀ k s, RelyW s (env k s)) (plan : Plan)
    (x : RWorld × Req) (hx : x ∈ ownE recSem env plan 0 (reconcileP cfg) w)
    (kind name image : String) (rv : Nat) (hr : x.2 = .updatePkg kind name image rv)
    (rv' : Nat) (hok : (execRec x.1 x.2).2 = .ok rv') :
    ∃ ps p, x.1.seen.pkgs = some ps ∧ p ∈ ps ∧ x.1.pkgs.find? (sameKey kind name) = some p := by
  obtain ⟨hcx, hg⟩ := (rec_every_call_justified cfg w hc hs env henv plan).1 x hx
  rw [hr] at hg hok
  unfold Guar at hg
  obtain ⟨_, _, d, dep, ref, ps, p, pref, v, _, _, hps, hm, hk, hn, hrv, _, _⟩ := hg
  have hp : p ∈ ps := by
    rcases lastMatch_spec cfg.refOf ref.repo ps none p pref hm with h | h
    · cases h
    · exact h.1
  refine ⟨ps, p, hps, hp, ?_⟩
  unfold execRec at hok
  cases hi : x.1.inject with
  | some e => rw [hi] at hok; cases hok
  | none =>
    rw [hi] at hok
    simp only [] at hok
    cases hf : x.1.pkgs.find? (sameKey kind name) with
    | none => rw [hf] at hok; cases hok
    | some q =>
      rw [hf] at hok
      simp only [] at hok
      by_cases hq : q.rv ≠ rv
      · rw [if_pos hq] at hok; cases hok
      · have hq' : q.rv = rv := Decidable.not_not.mp hq
        have : p = q := hcx.seenPkgEq ps hps p hp q (List.mem_of_find?_eq_some hf) (by rw [hq', hrv])
        rw [this]

/-- **The resolver never modifies the Lock's packages**: whatever the cache served and whatever
the others did, no call of the reconciler the API server applies changes the packages stored in
the Lock (its Update of the finalizer writes the packages back only when nobody wrote the Lock
since it was read; its status updates do not carry packages). -/
theorem rec_never_changes_lock_packages (cfg : RCfg) (w : RWorld) (hc : Coh w) (hs : w.seen = {})
    (env : Env RWorld) (henv : ∀ k s, RelyW s (env k s)) (plan : Plan)
    (x : RWorld × Req) (hx : x ∈ ownE recSem env plan 0 (reconcileP cfg) w) :
    (execRec x.1 x.2).1.lock.map (·.pkgs) = x.1.lock.map (·.pkgs) := by
  obtain ⟨hcx, hg⟩ := (rec_every_call_justified cfg w hc hs env henv plan).1 x hx
  cases hi : x.1.inject with
  | some e => rw [exec_inject hi]
  | none =>
    cases hr : x.2 with
    | getLock => unfold execRec; rw [hi]; simp only []; cases x.1.clock <;> rfl
    | listPkgs k => unfold execRec; rw [hi]
    | pullSecret r => unfold execRec; rw [hi]
    | tags r => unfold execRec; rw [hi]; simp only []; cases lookupTags r x.1.tags <;> rfl
    | getPkg k n => unfold execRec; rw [hi]; simp only []; cases x.1.cpkgs.find? (sameKey k n) <;> rfl
    | createPkg k n i =>
      unfold execRec; rw [hi]; simp only []
      by_cases h : x.1.pkgs.any (sameKey k n) = true <;> simp [h]
    | updatePkg k n i rv =>
      unfold execRec; rw [hi]; simp only []
      cases x.1.pkgs.find? (sameKey k n) with
      | none => rfl
      | some q => by_cases h : q.rv ≠ rv <;> simp [h]
    | statusLock c rv =>
      cases hlive : x.1.lock with
      | none => simp [execRec, hi, hlive]
      | some l => by_cases h : l.rv ≠ rv <;> simp [execRec, hi, hlive, h]
    | updateLock pkgs fin rv =>
      rw [hr] at hg
      unfold Guar at hg
      obtain ⟨l, hl, hp, hrv, _⟩ := hg
      cases hlive : x.1.lock with
      | none => simp [execRec, hi, hlive]
      | some l' =>
        by_cases h : l'.rv ≠ rv
        · simp [execRec, hi, hlive, h]
        · have h' : l'.rv = rv := Decidable.not_not.mp h
          have : l = l' := hcx.seenLockEq l l' hl hlive (by rw [h', hrv])
          simp [execRec, hi, hlive, h', hp, this]

/-- **The long-lived reconciler carries nothing from one Reconcile to the next**: in every
sequence of Reconciles of the one reconciler (each next to its own environment and fault plan,
each on the world its predecessors and the others left behind), every call the API server applies
is justified by what was served to the Reconcile that issues it (`fresh`: the ghost record starts
empty in every Reconcile) — not by a Lock, a package list or a tag list served earlier. -/
theorem rec_sequence_every_call_justified (cfg : RCfg) (steps : List (Env RWorld × Plan))
    (henv : ∀ st ∈ steps, ∀ k s, RelyW s (st.1 k s)) (w : RWorld) (hc : Coh w) :
    ∀ x ∈ ownSteps cfg steps w, Coh x.1 ∧ Guar cfg x.1 x.2 := by
  induction steps generalizing w with
  | nil => intro x hx; cases hx
  | cons st rest ih =>
    obtain ⟨env, plan⟩ := st
    have he : ∀ k s, RelyW s (env k s) := henv (env, plan) (List.mem_cons_self ..)
    have hfresh : Coh w.fresh := hc.fresh
    intro x hx
    unfold ownSteps at hx
    rcases List.mem_append.mp hx with hx | hx
    · exact (rec_every_call_justified cfg w.fresh hfresh rfl env he plan).1 x hx
    · exact ih (fun st hst => henv st (List.mem_cons_of_mem _ hst)) _
        (rec_keeps_coherence cfg w.fresh hfresh env he plan) x hx

/-! ### Resolve: "dependencies satisfied" is sound -/

/-- PackageDependencyManager.Resolve (as repaired by fixes/D21.diff) returns no error for an
active revision `self` only if, in the lock it leaves behind,
* the revision is recorded with its declared dependencies,
* every direct dependency is a lock package whose version is the pinned digest, resp. a
  semantic version admitted by the declared constraint, and
* every package reachable from the revision through dependency edges is a lock package
for every well-formed lock (`LockWF`), both DAG implementations, every oracle. -/
theorem satisfied_sound (o : Oracle) (upg : Bool) (lock : List Pkg) (self : Pkg) (wf : LockWF lock self)
    (h : (resolve o upg lock self).err = .none) :
    lockNb (resolve o upg lock self).lock self.source = some (self.deps.map (·.pkg)) ∧
    (∀ e ∈ self.deps, ∃ p ∈ (resolve o upg lock self).lock, p.source = e.pkg ∧ VersionOk o e p.version) ∧
    (∀ m, Reach (lockNb (resolve o upg lock self).lock) self.source m →
      m ∈ (resolve o upg lock self).lock.map (·.source)) :=
  resolve_sound o upg lock self wf h

/-- D21 witness: before the repair, a revision moved to another repository that depends on its
old location was reported satisfied although the old entry had just been removed from the
lock (the DAG was still the one built before the removal). `resolveG false` is the model of
the unrepaired code; the same input is in corpus/C17. -/
def wOracle : Oracle :=
  ⟨fun t => if t == "2.0.1" then some ⟨2, 0, 1, []⟩ else none, fun c => c == "*", fun c t => c == "*" && t == "2.0.1", fun _ => none⟩
def wLock : List Pkg := [⟨"p0", "xpkg.io/o/a", "2.0.1", [], false⟩]
def wSelf : Pkg := ⟨"p0", "xpkg.io/moved/p0", "1.0.0", [⟨"xpkg.io/o/a", "*"⟩], false⟩

theorem satisfied_sound_fails_on_unfixed_witness :
    LockWF wLock wSelf ∧ (resolveG false wOracle false wLock wSelf).err = .none ∧
    ¬ (∀ e ∈ wSelf.deps, ∃ p ∈ (resolveG false wOracle false wLock wSelf).lock, p.source = e.pkg) := by
  refine ⟨⟨by decide, by decide, by decide⟩, by decide, by decide⟩

/-- ... and the repaired code reports the dependency missing on that input -/
example : (resolve wOracle false wLock wSelf).err = .missingDirect := by decide

/-! ### Resolve next to other writers of the Lock

`resolveI retry o upg lock self env` (Model) is Resolve with an environment `env : Interf` that may
replace the stored Lock right before each of Resolve's API calls after its first Get (before
RemoveSelf's Get, before RemoveSelf's Update, before the refreshing Get, before the Update that
adds the revision). A write right before an Update makes that Update fail with a conflict (the
resourceVersion moved); `retry = false` is the code as it is (the conflict error is returned),
`.lock` is the Lock as stored when Resolve returns. -/

/-- Without other writers `resolveI` is `resolve`: the theorems above are the interference-free
special case (for both values of `retry`: no conflict, nothing to retry). -/
theorem resolve_is_interference_free_case (retry : Bool) (o : Oracle) (upg : Bool) (lock : List Pkg) (self : Pkg) :
    resolveI retry o upg lock self Interf.quiet = resolve o upg lock self :=
  resolveI_quiet retry o upg lock self

/-- **Satisfied is sound next to concurrent writers.** For every lock, revision, DAG
implementation, oracle and EVERY interference `env` (arbitrary lock contents stored by other
writers at each of the four points; only the two writes Resolve reads back must leave the
revision's own entries alone, `EnvWF`): if Resolve returns no error then, in the Lock AS STORED
WHEN RESOLVE RETURNS,
* the revision is recorded with its declared dependencies,
* every direct dependency is a lock package at the pinned digest / an admitted version,
* every package reachable from the revision is a lock package. -/
theorem satisfied_sound_under_interference (o : Oracle) (upg : Bool) (lock : List Pkg) (self : Pkg) (env : Interf)
    (wf : LockWF lock self) (ewf : EnvWF env self)
    (h : (resolveI false o upg lock self env).err = .none) :
    lockNb (resolveI false o upg lock self env).lock self.source = some (self.deps.map (·.pkg)) ∧
    (∀ e ∈ self.deps, ∃ p ∈ (resolveI false o upg lock self env).lock, p.source = e.pkg ∧ VersionOk o e p.version) ∧
    (∀ m, Reach (lockNb (resolveI false o upg lock self env).lock) self.source m →
      m ∈ (resolveI false o upg lock self env).lock.map (·.source)) :=
  resolveI_sound o upg lock self env wf ewf h

/-- ... and the reason: a run that ends without error has no window between its last read and
its write. The stored Lock is exactly what Resolve's last Get returned (`lastRead`) when the
revision was already recorded, and otherwise that plus the revision's entry, in which case
nobody wrote between that Get and the Update (`env.upd = none`). For every `env`, no
assumption on it. -/
theorem satisfied_has_no_stale_window (o : Oracle) (upg : Bool) (lock : List Pkg) (self : Pkg) (env : Interf)
    (h : (resolveI false o upg lock self env).err = .none) :
    ((lastRead lock self env).any (fun lp => lp.name == self.name) = true ∧
      (resolveI false o upg lock self env).lock = lastRead lock self env) ∨
    ((lastRead lock self env).any (fun lp => lp.name == self.name) = false ∧ env.upd = none ∧
      (resolveI false o upg lock self env).lock = lastRead lock self env ++ [self]) :=
  resolveI_ok_lock h

/-- The conflict is the consequence of the interference: Resolve returns the conflict error iff
another writer stored something right before an Update that Resolve sends on its path (the
Update of RemoveSelf when an entry with the revision's name is there; the Update adding the
revision when the lock as last read does not have it and the DAG could be built). -/
theorem conflict_iff_interference_before_a_write (o : Oracle) (upg : Bool) (lock : List Pkg) (self : Pkg) (env : Interf)
    (hinit : ∀ e, init o upg lock ≠ .error e) :
    (resolveI false o upg lock self env).err = .conflict ↔
      (lock.any (movedEntry self) = true ∧ (env.rmGet.getD lock).any (fun lp => lp.name == self.name) = true ∧
        env.rmUpd.isSome = true) ∨
      ((∀ e, init o upg (lastRead lock self env) ≠ .error e) ∧
        (lastRead lock self env).any (fun lp => lp.name == self.name) = false ∧ env.upd.isSome = true ∧
        (lock.any (movedEntry self) = true → (env.rmGet.getD lock).any (fun lp => lp.name == self.name) = true → env.rmUpd = none)) :=
  resolveI_conflict_iff o upg lock self env hinit

/-- On a conflict nothing is claimed and nothing is overwritten: the stored Lock is what the
other writer left, `installed` and `invalid` are 0. -/
theorem conflict_claims_nothing (o : Oracle) (upg : Bool) (lock : List Pkg) (self : Pkg) (env : Interf)
    (h : (resolveI false o upg lock self env).err = .conflict) :
    (env.rmUpd = some (resolveI false o upg lock self env).lock ∨ env.upd = some (resolveI false o upg lock self env).lock) ∧
    (resolveI false o upg lock self env).installed = 0 ∧ (resolveI false o upg lock self env).invalid = 0 :=
  resolveI_conflict_out h

/-! #### the trigger: all dependencies present at the read, one removed before the Update -/

/-- b is in the lock when the new revision a (depending on b) reads it; b's revision removes
itself before a's Update -/
def iLock : List Pkg := [⟨"pb", "b", "2.0.1", [], false⟩]
def iSelf : Pkg := ⟨"pa", "a", "2.0.1", [⟨"b", "*"⟩], false⟩
def iEnv : Interf := { upd := some [] }

/-- the code as it is returns the conflict error on the trigger ... -/
example : (resolveI false wOracle false iLock iSelf iEnv).err = .conflict := by decide
example : LockWF iLock iSelf ∧ EnvWF iEnv iSelf :=
  ⟨⟨by decide, by decide, by decide⟩, ⟨fun w h => (by cases h), fun w h => (by cases h)⟩⟩

/-- ... whereas the variant that retries the Update on a conflict (`retry = true`: re-read,
re-append, update again, keep the DAG built from the first read) reports the dependencies
satisfied with the direct dependency b absent from the stored Lock: `satisfied_sound_under_interference`
rests on the conflict ending the call. -/
theorem satisfied_sound_fails_with_conflict_retry_witness :
    LockWF iLock iSelf ∧ EnvWF iEnv iSelf ∧ (resolveI true wOracle false iLock iSelf iEnv).err = .none ∧
    (resolveI true wOracle false iLock iSelf iEnv).installed = (resolveI true wOracle false iLock iSelf iEnv).found ∧
    ¬ (∀ e ∈ iSelf.deps, ∃ p ∈ (resolveI true wOracle false iLock iSelf iEnv).lock, p.source = e.pkg) := by
  refine ⟨⟨by decide, by decide, by decide⟩, ⟨fun w h => (by cases h), fun w h => (by cases h)⟩, by decide, by decide, by decide⟩

/-! #### laws of the interference-free Resolve that do not survive other writers -/

/-- (1) Unless the DAG cannot be built, the revision is recorded in the lock after Resolve. -/
theorem recorded_without_interference (o : Oracle) (upg : Bool) (lock : List Pkg) (self : Pkg)
    (h : (resolve o upg lock self).err ≠ .initDag) : ∃ p ∈ (resolve o upg lock self).lock, p.name = self.name := by
  unfold resolve at h ⊢
  obtain ⟨lock1, _, hshape⟩ := resolveG_lock o upg lock self
  rcases hshape with ⟨he, _⟩ | hl
  · exact absurd he h
  · rw [hl]
    cases hpe : lock1.any (fun lp => lp.name == self.name) with
    | true =>
      obtain ⟨q, hq, hqn⟩ := List.any_eq_true.1 hpe
      exact ⟨q, by simpa using hq, by simpa using hqn⟩
    | false => exact ⟨self, by simp, rfl⟩

/-- ... next to another writer it is not (conflict on the trigger above) -/
theorem recorded_fails_under_interference_witness :
    (resolveI false wOracle false iLock iSelf iEnv).err ≠ .initDag ∧
    ¬ ∃ p ∈ (resolveI false wOracle false iLock iSelf iEnv).lock, p.name = iSelf.name := by
  refine ⟨by decide, by decide⟩

/-- (2) Resolve removes nothing but the revision's own stale entry: every other revision's
entry of the lock it read is in the lock it leaves. (This is the law a cached graph relies on.) -/
theorem frame_without_interference (o : Oracle) (upg : Bool) (lock : List Pkg) (self : Pkg) :
    ∀ p ∈ lock, p.name ≠ self.name → p ∈ (resolve o upg lock self).lock := by
  intro p hp hn
  unfold resolve
  obtain ⟨lock1, hl1, hshape⟩ := resolveG_lock o upg lock self
  have h1 : p ∈ lock1 := by
    rw [hl1]
    split
    · exact mem_removeSelf_of_ne hn lock hp
    · exact hp
  rcases hshape with ⟨_, hl | hl⟩ | hl
  · rw [hl]; exact hp
  · rw [hl]; exact h1
  · rw [hl]
    split
    · exact h1
    · exact List.mem_append_left _ h1

/-- ... next to another writer an entry read by Resolve can be gone when Resolve returns, even
when Resolve returns no error (here: the writer empties the lock between RemoveSelf and the
refreshing Get) -/
def fLock : List Pkg := [⟨"pa", "old/a", "2.0.1", [], false⟩, ⟨"pc", "c", "2.0.1", [], false⟩]
def fSelf : Pkg := ⟨"pa", "a", "2.0.1", [], false⟩
def fEnv : Interf := { refresh := some [] }

theorem frame_fails_under_interference_witness :
    LockWF fLock fSelf ∧ EnvWF fEnv fSelf ∧ (resolveI false wOracle false fLock fSelf fEnv).err = .none ∧
    ¬ (∀ p ∈ fLock, p.name ≠ fSelf.name → p ∈ (resolveI false wOracle false fLock fSelf fEnv).lock) := by
  refine ⟨⟨by decide, by decide, by decide⟩, ⟨fun w h => (by cases h), ?_⟩, by decide, by decide⟩
  intro w h
  cases h
  exact ⟨fun p hp => (by cases hp), fun p hp => (by cases hp)⟩

/-- (3) "Satisfied" speaks about the lock Resolve was called on: every direct dependency is a
package of that lock (or the revision itself). -/
theorem satisfied_refers_to_lock_read_first (o : Oracle) (upg : Bool) (lock : List Pkg) (self : Pkg) (wf : LockWF lock self)
    (h : (resolve o upg lock self).err = .none) : ∀ e ∈ self.deps, e.pkg ∈ (lock ++ [self]).map (·.source) := by
  intro e he
  obtain ⟨p, hp, hs, _⟩ := (satisfied_sound o upg lock self wf h).2.1 e he
  unfold resolve at hp h
  obtain ⟨lock1, hl1, hshape⟩ := resolveG_lock o upg lock self
  have hsub : ∀ q ∈ lock1, q ∈ lock := by
    intro q hq
    rw [hl1] at hq
    split at hq
    · exact removeSelf_sub _ _ _ hq
    · exact hq
  refine List.mem_map.2 ⟨p, ?_, hs⟩
  rcases hshape with ⟨hi, _⟩ | hl
  · rw [h] at hi; cases hi
  · rw [hl] at hp
    split at hp
    · exact List.mem_append_left _ (hsub p hp)
    · rcases List.mem_append.1 hp with h' | h'
      · exact List.mem_append_left _ (hsub p h')
      · exact List.mem_append_right _ h'

/-- ... next to another writer it speaks about the lock as last read: here b is added between
RemoveSelf and the refreshing Get, and Resolve (rightly) reports satisfied although the lock it
was called on does not hold b -/
def rLock : List Pkg := [⟨"pa", "old/a", "2.0.1", [], false⟩]
def rEnv : Interf := { refresh := some [⟨"pb", "b", "2.0.1", [], false⟩] }

theorem satisfied_refers_to_lock_read_first_fails_under_interference_witness :
    LockWF rLock iSelf ∧ EnvWF rEnv iSelf ∧ (resolveI false wOracle false rLock iSelf rEnv).err = .none ∧
    ¬ (∀ e ∈ iSelf.deps, e.pkg ∈ (rLock ++ [iSelf]).map (·.source)) := by
  refine ⟨⟨by decide, by decide, by decide⟩, ⟨fun w h => (by cases h), ?_⟩, by decide, by decide⟩
  intro w h
  cases h
  exact ⟨by decide, by decide⟩

/-- The assumption of `satisfied_sound_under_interference` on the write read back by the
refreshing Get cannot be dropped: a writer that puts the revision's stale entry back right
after RemoveSelf removed it makes Resolve find "itself" in the lock, skip the Update, trace
from a source that is only an implied node, and report satisfied while the revision is not
recorded under its source (and c, needed by b, is absent). -/
def nLock : List Pkg :=
  [⟨"pa", "old/a", "2.0.1", [], false⟩, ⟨"px", "x", "2.0.1", [⟨"a", "*"⟩], false⟩, ⟨"pb", "b", "2.0.1", [⟨"c", "*"⟩], false⟩]

theorem stale_entry_put_back_witness :
    LockWF nLock iSelf ∧ (resolveI false wOracle false nLock iSelf { refresh := some nLock }).err = .none ∧
    lockNb (resolveI false wOracle false nLock iSelf { refresh := some nLock }).lock iSelf.source ≠ some (iSelf.deps.map (·.pkg)) := by
  refine ⟨⟨by decide, by decide, by decide⟩, by decide, by decide⟩

/-! ### non-vacuity -/

def o0 : Oracle := ⟨fun _ => none, fun _ => false, fun _ _ => false, fun _ => none⟩

/-- a → b → c → a, plus a dependency on the absent package x -/
def cyc : List Pkg :=
  [⟨"pa", "a", "1.0.0", [⟨"b", "*"⟩], false⟩, ⟨"pb", "b", "1.0.0", [⟨"c", "*"⟩, ⟨"x", "*"⟩], false⟩,
   ⟨"pc", "c", "1.0.0", [⟨"a", "*"⟩], false⟩]

/-- diamond a → {b, c} → d -/
def dia : List Pkg :=
  [⟨"pa", "a", "1.0.0", [⟨"b", "*"⟩, ⟨"c", "*"⟩], false⟩, ⟨"pb", "b", "1.0.0", [⟨"d", "*"⟩], false⟩,
   ⟨"pc", "c", "1.0.0", [⟨"d", "*"⟩], false⟩, ⟨"pd", "d", "1.0.0", [], false⟩]

example : (match init o0 false cyc with
    | .ok (d, imp) => (match sort d ["x", "c", "b", "a"] with | .error (.cycle c) => some c | _ => none, imp.map (·.pkg))
    | .error _ => (none, [])) = (some "c", ["x"]) := by decide
example : (match init o0 true dia with
    | .ok (d, _) => ((sort d ["c", "a", "d", "b"]).toOption, (trace d "a").toOption)
    | .error _ => (none, none)) = (some ["d", "c", "b", "a"], some ["c", "d", "b"]) := by decide


/-- package a depends on a package whose identifier is the empty string (absent from the lock) -/
def eLock : List Pkg := [⟨"pa", "a", "1.0.0", [⟨"", "*"⟩, ⟨"b", "*"⟩], false⟩]

/-- the hypotheses of `sort_any_identifier` hold for a lock with the empty identifier, and there
`a` depends on "" and on b, yet Sort lists "" after a: the empty identifier is not listed
dependencies-first (while b is) -/
theorem sort_empty_identifier_listed_last_witness :
    (match init o0 false eLock with
      | .ok (d, imp) => ((sort d ["a", "", "b"]).toOption, (sort d ["b", "", "a"]).toOption, imp.map (·.pkg))
      | .error _ => (none, none, [])) = (some ["b", "a", ""], some ["b", "a", ""], ["", "b"]) ∧
    lockNb eLock "a" = some ["", "b"] ∧ (lockNb eLock "").isSome = true := by decide

/-- tags 1.0.0, 2.0.0-rc.1, 1.5.0, latest; constraint admits everything below 2.0.0 -/
def o1 : Oracle :=
  { ver := fun t => match t with
      | "1.0.0" => some ⟨1, 0, 0, []⟩ | "1.5.0" => some ⟨1, 5, 0, []⟩
      | "2.0.0-rc.1" => some ⟨2, 0, 0, [.alnum "rc", .num 1]⟩ | "2.0.0" => some ⟨2, 0, 0, []⟩
      | _ => none
    conOk := fun c => c == "<2.0.0" || c == ">=1.0.0"
    sat := fun c t => (c == "<2.0.0" && (t == "1.0.0" || t == "1.5.0")) || (c == ">=1.0.0" && t != "latest")
    digest := fun _ => none }

/-- the same tags parsed and in precedence order (what `sortTags (parseTags o1 ·)` yields) -/
def sorted1 : List VTag :=
  [⟨"1.0.0", ⟨1, 0, 0, []⟩⟩, ⟨"1.5.0", ⟨1, 5, 0, []⟩⟩, ⟨"2.0.0-rc.1", ⟨2, 0, 0, [.alnum "rc", .num 1]⟩⟩, ⟨"2.0.0", ⟨2, 0, 0, []⟩⟩]

example : ∃ r, toInstall o1 "<2.0.0" (some ["1.0.0", "2.0.0-rc.1", "latest", "1.5.0"]) = .ok r := ⟨_, rfl⟩
example : lastSat (o1.sat "<2.0.0") sorted1 "" = "1.5.0" := by decide
example : digestToUpdate o1 ["<2.0.0", ">=1.0.0"] = .ok "" := rfl
-- stay on the installed version when it is admissible; move up to the lowest admissible otherwise
example : pickUpdate (satAll o1 ["<2.0.0", ">=1.0.0"]) ⟨1, 0, 0, []⟩ false sorted1 none = some "1.0.0" := by decide
example : pickUpdate (satAll o1 [">=1.0.0"]) ⟨1, 7, 0, []⟩ false sorted1 none = some "2.0.0-rc.1" := by decide
-- installed 2.0.0-rc.1 violates <2.0.0: highest older one with downgrades, nothing without
example : pickUpdate (satAll o1 ["<2.0.0"]) ⟨2, 0, 0, [.alnum "rc", .num 1]⟩ true sorted1 none = some "1.5.0" := by decide
example : pickUpdate (satAll o1 ["<2.0.0"]) ⟨2, 0, 0, [.alnum "rc", .num 1]⟩ false sorted1 none = none := by decide
example : toUpdate o1 [">=1.0.0"] "latest" false (some ["2.0.0"]) = .panic := by decide
example : (⟨2, 0, 0, [.alnum "rc", .num 1]⟩ : Ver).le ⟨2, 0, 0, []⟩ = true ∧ (⟨2, 0, 0, []⟩ : Ver).le ⟨2, 0, 0, [.alnum "rc", .num 1]⟩ = false := by decide

/-- a satisfied Resolve: c is in the lock at 2.0.1, b depends on it, the new revision a depends on b -/
example : (resolve wOracle true
    [⟨"pc", "c", "2.0.1", [], false⟩, ⟨"pb", "b", "2.0.1", [⟨"c", "*"⟩], false⟩]
    ⟨"pa", "a", "2.0.1", [⟨"b", "*"⟩], false⟩).err = .none := by decide
example : LockWF [⟨"pc", "c", "2.0.1", [], false⟩, ⟨"pb", "b", "2.0.1", [⟨"c", "*"⟩], false⟩]
    ⟨"pa", "a", "2.0.1", [⟨"b", "*"⟩], false⟩ := ⟨by decide, by decide, by decide⟩
/-- satisfied next to writers that do not touch the closure: a status write before RemoveSelf's
Get, an unrelated package added before the refreshing Get -/
example : (resolveI false wOracle true rLock iSelf
    { rmGet := some rLock, refresh := some [⟨"pb", "b", "2.0.1", [], false⟩, ⟨"pz", "z", "2.0.1", [], false⟩] }).err = .none := by decide
example : (reconcile o0 false false cyc ["x", "c", "b", "a"] (fun _ => none) (fun _ => some [])).act = .nothing := by decide

end Xp.C17

/-! ### a moved revision does not leave its old entry behind -/
namespace Xp.C17

/-- Without other writers and unless the DAG cannot be built, every entry of the Lock that carries
the revision's name after Resolve is recorded under the revision's source: the entry from before
the revision moved to another repository is gone (other revisions' dependencies on the old
source are then reported missing, not counted as present). -/
theorem moved_entry_is_removed (o : Oracle) (upg : Bool) (lock : List Pkg) (self : Pkg) (wf : LockWF lock self)
    (h : (resolve o upg lock self).err ≠ .initDag) :
    ∀ p ∈ (resolve o upg lock self).lock, p.name = self.name → p.source = self.source := by
  obtain ⟨lock1, hl1, hcase⟩ := resolveG_lock o upg lock self
  rcases hcase with ⟨he, _⟩ | hlock
  · exact absurd he h
  · have key : ∀ q ∈ lock1, q.name = self.name → q.source = self.source := by
      intro q hq hqn
      subst hl1
      by_cases hm : lock.any (movedEntry self) = true
      · rw [if_pos hm] at hq
        exact absurd hqn (removeSelf_name lock self.name wf.names q hq)
      · rw [if_neg hm] at hq
        have hq' : movedEntry self q = false := by
          cases hx : movedEntry self q with
          | false => rfl
          | true => exact absurd (List.any_eq_true.2 ⟨q, hq, hx⟩) hm
        have ht := wf.untyped q hq hqn
        unfold movedEntry at hq'
        simp [hqn, ht] at hq'
        exact hq'
    intro p hp hn
    have hp' : p ∈ (if lock1.any (fun lp => lp.name == self.name) then lock1 else lock1 ++ [self]) := by
      rw [← hlock]; exact hp
    split at hp'
    · exact key p hp' hn
    · rcases List.mem_append.mp hp' with hp' | hp'
      · exact key p hp' hn
      · simp at hp'; rw [hp']

end Xp.C17

/-! ### Resolve: a missing Lock, a failing call (every error class on every call) -/
namespace Xp.C17

/-- With a Lock and no failing call `resolveF` is `resolveI`: the theorems on Resolve above are
the fault-free special case. -/
theorem resolveF_without_faults (o : Oracle) (upg : Bool) (lock : List Pkg) (self : Pkg) (env : Interf) :
    resolveF o upg (some lock) self env none = (resolveI false o upg lock self env).lift := by
  unfold resolveF
  simp only [failAt_none]
  exact restF_nofault ..

/-- No Lock object: Resolve creates it and goes on exactly as on a Lock without packages. -/
theorem absent_lock_is_the_empty_lock (o : Oracle) (upg : Bool) (self : Pkg) (env : Interf) :
    resolveF o upg none self env none = (resolveI false o upg [] self env).lift := by
  unfold resolveF
  simp only [failAt_none]
  exact restF_nofault ..

/-- **Satisfied is sound whichever call fails with whichever class** (and next to the other
writers, and with or without a Lock to begin with): Resolve returns no error only if, in the
Lock as stored when it returns, the revision is recorded with its dependencies, every direct
dependency is a lock package at an admitted version and every reachable package is a lock
package — provided every lock content one of its Gets may have returned holds only the
revision's own entries under its name / source (`OwnEntry`; `readsF` lists them: the Lock as first
read, and what the refreshing Get returns after RemoveSelf did / did not remove an entry). In
particular no error class is mistaken for success: a failed Create, RemoveSelf or Update never
leads to "satisfied". -/
theorem satisfied_sound_with_failing_calls (o : Oracle) (upg : Bool) (lock : Option (List Pkg)) (self : Pkg)
    (env : Interf) (f : Option Fault) (hown : ∀ l1 ∈ readsF lock self env, OwnEntry l1 self)
    (h : (resolveF o upg lock self env f).err = .res .none) :
    ∃ L, (resolveF o upg lock self env f).lock = some L ∧
      lockNb L self.source = some (self.deps.map (·.pkg)) ∧
      (∀ e ∈ self.deps, ∃ p ∈ L, p.source = e.pkg ∧ VersionOk o e p.version) ∧
      (∀ m, Reach (lockNb L) self.source m → m ∈ L.map (·.source)) := by
  obtain ⟨l1, d, imp, hmem, hi, he⟩ := resolveF_ok h
  rw [he] at h ⊢
  have h' : (resolveTail o upg self l1 d imp).err = .none := by
    simpa [ResOut.lift] using h
  exact ⟨_, rfl, resolveTail_sound o upg self l1 d imp hi (hown l1 hmem) h'⟩

/-- every error class on the first Get but NotFound is "cannot get or create lock"; NotFound while
the Lock exists ends in AlreadyExists from the Create -/
example (o : Oracle) (upg : Bool) (lock : List Pkg) (self : Pkg) (env : Interf) (c : ErrClass) :
    (resolveF o upg (some lock) self env (some ⟨0, c⟩)).err = .getOrCreate (if c = .notFound then .alreadyExists else c) := by
  cases c <;> rfl

end Xp.C17

/-! ### the lock reconciler's world: non-vacuity and witnesses -/
namespace Xp.C17

/-- digests only: package a depends on b pinned to the digest "sha256:d" -/
def oD : Oracle := ⟨fun _ => none, fun _ => false, fun _ _ => false, fun c => if c == "sha256:d" then some "sha256:d" else none⟩
def cfgD (upg : Bool) : RCfg :=
  { o := oD, refOf := fun s => if s == "b" then some ⟨"r/b", "latest", "b", "b"⟩
                               else if s == "b@sha256:old" then some ⟨"r/b", "sha256:old", "b@sha256:old", "b"⟩ else none,
    kindOf := fun _ => "Provider", upg := upg, down := false }
def lockD : LockObj := ⟨[⟨"pa", "a", "1.0.0", [⟨"b", "sha256:d"⟩], false⟩], true, none, 1⟩
/-- quiet: the Lock cached as stored, b not installed -/
def wq : RWorld := { lock := some lockD, clock := some lockD, next := 2 }
def bLive : PkgObj := ⟨"Provider", "b", some "b@sha256:old", 5⟩
def bOld : PkgObj := ⟨"Provider", "b", some "b@sha256:old", 3⟩
/-- b installed; the cache still holds an older copy of it -/
def wStale : RWorld := { lock := some lockD, clock := some lockD, pkgs := [bLive], cpkgs := [bOld], next := 6 }
def wFresh : RWorld := { lock := some lockD, clock := some lockD, pkgs := [bLive], cpkgs := [bLive], next := 6 }

example : Coh wq ∧ wq.seen = {} := ⟨by constructor <;> simp [wq, lockD], rfl⟩
example : Coh wStale ∧ wStale.seen = {} := ⟨by constructor <;> simp [wStale, lockD, bLive, bOld], rfl⟩
example : Coh wFresh ∧ wFresh.seen = {} := ⟨by constructor <;> simp [wFresh, lockD, bLive], rfl⟩

/-- quiet world: the missing dependency is created, one write, no error -/
example : (runE recSem Env.none Plan.allOk 0 (reconcileP (cfgD false)) wq).1.pkgs.map (·.name) = ["b"] ∧
    (runE recSem Env.none Plan.allOk 0 (reconcileP (cfgD false)) wq).1.seen.writes = 1 ∧
    (runE recSem Env.none Plan.allOk 0 (reconcileP (cfgD false)) wq).2 = some ⟨.none, false⟩ := by decide

/-- upgrades on, cache up to date: the installed b is moved to the pinned digest -/
example : (runE recSem Env.none Plan.allOk 0 (reconcileP (cfgD true)) wFresh).1.pkgs.map (·.rv) = [6] ∧
    (runE recSem Env.none Plan.allOk 0 (reconcileP (cfgD true)) wFresh).2 = some ⟨.none, false⟩ := by decide

/-- `rec_update_lands_on_what_was_served` at work, cache lag: the List serves an older copy of b;
the Update computed from it is refused (Conflict), b stays as stored -/
theorem rec_stale_cached_package_update_is_refused_witness :
    (runE recSem Env.none Plan.allOk 0 (reconcileP (cfgD true)) wStale).1.pkgs = [bLive] ∧
    (runE recSem Env.none Plan.allOk 0 (reconcileP (cfgD true)) wStale).2 = some ⟨.update .conflict, false⟩ := by decide

/-- ... and interference: somebody changes b between the reconciler's List (call 1) and its Update
(call 2); the Update is refused, the other writer's b stays -/
theorem rec_package_changed_between_list_and_update_is_refused_witness :
    (runE recSem (scriptEnvW [(2, .setPkg "Provider" "b" (some "b@sha256:other"))]) Plan.allOk 0 (reconcileP (cfgD true)) wFresh).1.pkgs
      = [⟨"Provider", "b", some "b@sha256:other", 6⟩] ∧
    (runE recSem (scriptEnvW [(2, .setPkg "Provider" "b" (some "b@sha256:other"))]) Plan.allOk 0 (reconcileP (cfgD true)) wFresh).2
      = some ⟨.update .conflict, false⟩ := by decide

/-- the name b is taken by a package of another repository (r/other): the dependency is not
installed and Reconcile says so (`createTaken`), it does not report success -/
def bOther : PkgObj := ⟨"Provider", "b", some "b@sha256:old", 5⟩
def cfgOther : RCfg := { cfgD false with refOf := fun s => if s == "b" then some ⟨"r/b", "latest", "b", "b"⟩
                                                  else if s == "b@sha256:old" then some ⟨"r/other", "sha256:old", "b@sha256:old", "b"⟩ else none }
def wTaken : RWorld := { lock := some lockD, clock := some lockD, pkgs := [bOther], cpkgs := [bOther], next := 6 }

theorem rec_name_taken_by_another_repository_is_an_error_witness :
    (runE recSem Env.none Plan.allOk 0 (reconcileP cfgOther) wTaken).2 = some ⟨.createTaken, false⟩ ∧
    (runE recSem Env.none Plan.allOk 0 (reconcileP cfgOther) wTaken).1.pkgs = [bOther] ∧
    -- ... whereas a package of the dependency's own repository under that name is fine
    (runE recSem Env.none Plan.allOk 0 (reconcileP (cfgD false)) wTaken).2 = some ⟨.none, false⟩ := by decide

/-- every error class on the Get of the Lock but NotFound is returned; NotFound is not an error -/
example : ∀ e : ErrClass, (runE recSem (scriptEnvW [(0, .err e)]) Plan.allOk 0 (reconcileP (cfgD false)) wq).2
    = some ⟨if e = .notFound then .none else .getLock e, false⟩ := by
  intro e; cases e <;> decide




/-! ### finding (candidate): a later duplicate entry of one parent takes no part in the upgrade selection

`LockPackage.AddNeighbors` hands the DAG node the constraint of the FIRST dependency entry with
the neighbour's identifier (`neighborCons`, once per entry), while `isValidConstraints`
(`validCon`) judges every entry by its own constraint. A parent that lists a package twice,
the later entry violated, therefore makes the package "implied" (to be upgraded) but the
selection sees the first constraint only: the package is "moved" to a version that violates a
declared constraint although a tag admitted by every entry exists, and Reconcile reports
Resolved=True — on every Reconcile. Monitor: C17:update-ignores-later-duplicate-constraint. -/

def dupOracle : Oracle :=
  { ver := fun t => match t with
      | "1.0.0" => some ⟨1, 0, 0, []⟩ | "2.0.0" => some ⟨2, 0, 0, []⟩ | _ => none
    conOk := fun c => c == ">=1.0.0" || c == ">=2.0.0"
    sat := fun c t => (c == ">=1.0.0" && (t == "1.0.0" || t == "2.0.0")) || (c == ">=2.0.0" && t == "2.0.0")
    digest := fun _ => none }

/-- a depends on d twice: `>=1.0.0` and `>=2.0.0`; d is installed at 1.0.0 -/
def dupLock : List Pkg :=
  [⟨"pa", "a", "1.0.0", [⟨"d", ">=1.0.0"⟩, ⟨"d", ">=2.0.0"⟩], false⟩, ⟨"pd", "d", "1.0.0", [], false⟩]

/-- the DAG node of d carries `>=1.0.0` twice and `>=2.0.0` not at all, while d is returned as
implied because of `>=2.0.0`; on the tags 1.0.0 < 2.0.0 (in precedence order, what
`sortTags (parseTags · )` yields) the selection for the installed 1.0.0 answers 1.0.0: the
reconciler writes d = 1.0.0 again and reports success (`reconcile`: `.update "d" "1.0.0"`,
observed on the real code, corpus/C17/duplicate_entry_upgrade.jsonl); 1.0.0 violates the declared
`>=2.0.0`, 2.0.0 is admitted by both entries -/
theorem update_satisfies_every_declared_constraint_fails_on_duplicate_entries_witness :
    (match init dupOracle true dupLock with
      | .ok (d, imp) => (parentsOf d "d", imp.map (·.con))
      | .error _ => ([], [])) = ([">=1.0.0", ">=1.0.0"], [">=2.0.0"]) ∧
    digestToUpdate dupOracle [">=1.0.0", ">=1.0.0"] = .ok "" ∧
    pickUpdate (satAll dupOracle [">=1.0.0", ">=1.0.0"]) ⟨1, 0, 0, []⟩ false
      [⟨"1.0.0", ⟨1, 0, 0, []⟩⟩, ⟨"2.0.0", ⟨2, 0, 0, []⟩⟩] none = some "1.0.0" ∧
    dupOracle.sat ">=2.0.0" "1.0.0" = false ∧
    satAll dupOracle [">=1.0.0", ">=2.0.0"] "2.0.0" = true :=
  ⟨by decide, rfl, by decide, by decide, by decide⟩

/-! ### the parent constraints of the upgrading DAG, in terms of the lock -/

/-- **What "every parent's constraint" is, for every lock.** After MapUpgradingDag.Init the
ParentConstraints of the node of a lock package `x` are `lockParents pkgs x`: one contribution
per dependency entry pointing at `x`, in lock order, each the constraint of the FIRST entry of
its parent for `x` (LockPackage.AddNeighbors). As a set: exactly the constraints of the first
entry for `x` of every lock package that depends on `x`. -/
theorem upgrade_parents_of_lock_package {o : Oracle} {pkgs : List Pkg} {d : Dag} {imp : List Dep}
    (h : init o true pkgs = .ok (d, imp)) (x : String) (hx : x ∈ pkgs.map (·.source)) :
    parentsOf d x = lockParents pkgs x ∧
    ∀ c, c ∈ parentsOf d x ↔ ∃ p ∈ pkgs, ∃ e, p.deps.find? (fun e => e.pkg == x) = some e ∧ e.con = c := by
  have hp := init_parents h x hx
  refine ⟨hp, ?_⟩
  intro c
  rw [hp]
  unfold lockParents
  simp only [List.mem_flatMap, List.mem_filter]
  constructor
  · rintro ⟨p, hpm, e0, ⟨he0, hb⟩, hc⟩
    unfold neighborCons pkgNode at hc
    simp only [if_true] at hc
    cases hf : p.deps.find? (fun e => e.pkg == x) with
    | none => rw [hf] at hc; cases hc
    | some e =>
      rw [hf] at hc
      simp only [List.mem_singleton] at hc
      exact ⟨p, hpm, e, hf, hc.symm⟩
  · rintro ⟨p, hpm, e, hf, rfl⟩
    refine ⟨p, hpm, e, ⟨List.mem_of_find?_eq_some hf, by simpa using List.find?_some hf⟩, ?_⟩
    unfold neighborCons pkgNode
    simp only [if_true, hf, List.mem_singleton]

/-- ... hence the version an installed dependency is moved to (no digest pinned) satisfies the
first entry for it of EVERY lock package that depends on it — and only the first entries: the
later entries of a parent that lists it twice take no part
(`update_satisfies_every_declared_constraint_fails_on_duplicate_entries_witness`). -/
theorem update_satisfies_first_entry_of_every_parent {o : Oracle} {pkgs : List Pkg} {d : Dag} {imp : List Dep}
    (hi : init o true pkgs = .ok (d, imp)) (x : String) (hx : x ∈ pkgs.map (·.source))
    (installed : String) (down : Bool) (tags : List String) (cur : Ver) (r : String)
    (hdg : digestToUpdate o (parentsOf d x) = .ok "") (hcur : o.ver installed = some cur)
    (h : toUpdate o (parentsOf d x) installed down (some tags) = .ok r) :
    r ∈ tags ∧ ∀ p ∈ pkgs, ∀ e, p.deps.find? (fun e => e.pkg == x) = some e → o.sat e.con r = true := by
  obtain ⟨hr, hs, _⟩ := update_min_not_older_or_max_older o _ installed down tags cur r hdg hcur h
  refine ⟨hr, ?_⟩
  intro p hp e he
  have hm : e.con ∈ parentsOf d x := ((upgrade_parents_of_lock_package hi x hx).2 e.con).2 ⟨p, hp, e, he, rfl⟩
  unfold satAll at hs
  exact (List.all_eq_true.1 hs) e.con hm

example : (match init dupOracle true dupLock with
    | .ok (d, _) => parentsOf d "d" | .error _ => []) = lockParents dupLock "d" ∧ "d" ∈ dupLock.map (·.source) := by decide


/-! ### the repository's glue: meta dependsOn ↦ lock dependencies ↦ package objects

`metaToLock` / `metaDepsToLock` mirror the switch at the top of PackageDependencyManager.Resolve,
`selfEntry` the lock entry it records, `parseSource` xpkg.ParsePackageSourceFromReference,
`depKind` / `newPackage` the switch of resolver.NewPackage / NewPackageList (constants regenerated
into Xp.Gen.C17Tables); compared with the real code on the `glue` scenarios. -/

/-- **Every declared constraint is recorded.** When Resolve accepts a package's dependsOn list,
the lock entry holds exactly one dependency per declared entry, in the declared order, each the
conversion of its own entry and carrying its own version constraint: nothing is merged, dropped
or de-duplicated (a package declared twice keeps both constraints, and `checkDeps` checks both). -/
theorem declared_constraints_all_recorded (ms : List MetaDep) (ds : List LockDep)
    (h : metaDepsToLock ms = some ds) :
    ms.map metaToLock = ds.map some ∧ ds.length = ms.length ∧ ds.map (·.con) = ms.map (·.version) := by
  have hm := metaDepsToLock_map ms ds h
  have hl : ds.length = ms.length := by
    have := congrArg List.length hm
    simpa using this.symm
  refine ⟨hm, hl, ?_⟩
  clear hl h
  induction ms generalizing ds with
  | nil => cases ds with
    | nil => rfl
    | cons _ _ => simp at hm
  | cons m ms ih =>
    cases ds with
    | nil => simp at hm
    | cons d ds =>
      simp only [List.map_cons, List.cons.injEq] at hm ⊢
      exact ⟨metaToLock_con hm.1, ih ds hm.2⟩

example : metaDepsToLock [⟨none, none, none, some "xpkg.io/o/a", none, none, ">=1.0.0"⟩,
      ⟨some "pkg.crossplane.io/v1", some "Provider", some "xpkg.io/o/a", none, none, none, "<1.0.0"⟩] =
    some [⟨"xpkg.io/o/a", none, none, some "Provider", ">=1.0.0"⟩,
      ⟨"xpkg.io/o/a", some "pkg.crossplane.io/v1", some "Provider", none, "<1.0.0"⟩] := by decide

/-- Resolve refuses the list ("encountered an invalid dependency") iff some entry names neither
apiVersion + kind + package nor one of configuration / provider / function. -/
theorem invalid_dependency_iff (ms : List MetaDep) :
    metaDepsToLock ms = none ↔
      ∃ m ∈ ms, (m.apiVersion = none ∨ m.kind = none ∨ m.pkg = none) ∧
        m.configuration = none ∧ m.provider = none ∧ m.function = none := by
  rw [metaDepsToLock_none_iff]
  constructor
  · rintro ⟨m, hm, h⟩
    refine ⟨m, hm, ?_⟩
    obtain ⟨a, k, p, pr, c, f, v⟩ := m
    cases a <;> cases k <;> cases p <;> cases c <;> cases pr <;> cases f <;> simp [metaToLock] at h ⊢
  · rintro ⟨m, hm, h1, h2, h3, h4⟩
    refine ⟨m, hm, ?_⟩
    obtain ⟨a, k, p, pr, c, f, v⟩ := m
    simp only at h1 h2 h3 h4
    subst h2 h3 h4
    cases a <;> cases k <;> cases p <;> simp [metaToLock] at h1 ⊢

example : metaDepsToLock [⟨some "pkg.crossplane.io/v1", some "Provider", none, none, none, none, "*"⟩] = none := by decide

/-- **A recorded dependency can always be constructed, as the kind its entry declared.** For
every dependency Resolve records, the switch of NewPackage / NewPackageList (over the kind table
regenerated from the tree) finds an apiVersion and kind: the explicit ones when the entry gave
apiVersion + kind + package, otherwise the package kind named by the deprecated field that was
set (configuration before provider before function). -/
theorem recorded_dependency_is_constructible (m : MetaDep) (d : LockDep) (h : metaToLock m = some d) :
    ∃ a k, depKind Xp.Gen.c17KindTable d.fields = some (a, k) ∧
      (d.type = none → some a = m.apiVersion ∧ some k = m.kind ∧ some d.pkg = m.pkg) ∧
      (∀ t, d.type = some t → k = t ∧
        ((t = "Configuration" ∧ some d.pkg = m.configuration) ∨
         (t = "Provider" ∧ m.configuration = none ∧ some d.pkg = m.provider) ∨
         (t = "Function" ∧ m.configuration = none ∧ m.provider = none ∧ some d.pkg = m.function))) := by
  obtain ⟨a, k, p, pr, c, f, v⟩ := m
  cases a <;> cases k <;> cases p <;> cases c <;> cases pr <;> cases f <;>
    simp [metaToLock] at h <;> subst h <;>
    simp [depKind, LockDep.fields, Xp.Gen.c17KindTable, Xp.Gen.c17TypeConfiguration, Xp.Gen.c17TypeProvider,
      Xp.Gen.c17TypeFunction]

example : newPackage Xp.Gen.c17KindTable ⟨none, none, some "Function"⟩ "v1.2.0" "xpkg.io/o/f" =
    some ("pkg.crossplane.io/v1", "Function", "xpkg.io/o/f:v1.2.0") := by decide

/-- xpkg.ParsePackageSourceFromReference, for every reference string: the digest is cut off
first, then a tag (a ':' after the last '/'); a reference with neither is kept as it is, a
registry port included; the result never carries a digest. -/
theorem parse_source_spec :
    (∀ repo tag : List Char, '@' ∉ repo → (∀ c ∈ tag, c ≠ ':' ∧ c ≠ '/' ∧ c ≠ '@') →
      parseSourceL (repo ++ ':' :: tag) = repo) ∧
    (∀ x dg : List Char, '@' ∉ x → parseSourceL (x ++ '@' :: dg) = parseSourceL x) ∧
    (∀ s : List Char, '@' ∉ s → lastIdx ':' s ≤ lastIdx '/' s → parseSourceL s = s) ∧
    (∀ s : List Char, '@' ∉ parseSourceL s) :=
  ⟨parseSourceL_tag, parseSourceL_digest, parseSourceL_bare, parseSourceL_no_at⟩

example : parseSource "localhost:5000/o/a:v1.0.0@sha256:aa" = "localhost:5000/o/a" ∧
    parseSource "localhost:5000/a" = "localhost:5000/a" ∧ parseSource "a:1" = "a" := by decide

/-- **The package created (or updated) for a dependency is a package of that dependency**: its
revision records, as Source, the identifier the dependant declared — for every identifier `r`
without tag and digest and every selected version `v` that is a digest or a tag. (So after the
package manager has installed it the implied node is a lock package: the dependency is no
longer missing, and the next Reconcile moves on.) -/
theorem created_package_records_the_dependency_source (r v : List Char) (hr : '@' ∉ r)
    (hb : lastIdx ':' r ≤ lastIdx '/' r)
    (hv : "sha256:".toList.isPrefixOf v = true ∨ ∀ c ∈ v, c ≠ ':' ∧ c ≠ '/' ∧ c ≠ '@') :
    parseSourceL (fmtImageL r v) = r := created_package_source r v hr hb hv

example : parseSourceL (fmtImageL "reg.io:443/o/a".toList "v1.2.3".toList) = "reg.io:443/o/a".toList ∧
    parseSourceL (fmtImageL "o/a".toList "sha256:ab".toList) = "o/a".toList := by decide

/-- the hypotheses on the identifier are needed: an identifier that itself carries a tag, pinned
to a digest, or one that carries a digest, yields a package whose source is not the identifier -/
theorem created_package_source_fails_for_tagged_identifier_witness :
    parseSourceL (fmtImageL "xpkg.io/o/a:v1".toList "sha256:ab".toList) ≠ "xpkg.io/o/a:v1".toList ∧
    parseSourceL (fmtImageL "xpkg.io/o/a@sha256:ab".toList "v2".toList) ≠ "xpkg.io/o/a@sha256:ab".toList := by decide

/-! ### regenerated call skeletons (tie "a")

`Xp.Gen.c17Skel…` is extracted with go/ast from the current tree on every run
(harness/main/c17_dump.go); `skel…` (Model/C17Skel.lean) is the skeleton the model's definitions
mirror, entry by entry. MapDag and MapUpgradingDag share every method but AddEdge and
AddOrUpdateNodes, hence one declared skeleton for both. -/

theorem skeleton_dag_Init : Xp.Gen.c17SkelDagInit = skelInit := by decide
theorem skeleton_upg_Init : Xp.Gen.c17SkelUpgInit = skelInit := by decide
theorem skeleton_dag_AddNodes : Xp.Gen.c17SkelDagAddNodes = skelAddNodes := by decide
theorem skeleton_upg_AddNodes : Xp.Gen.c17SkelUpgAddNodes = skelAddNodes := by decide
theorem skeleton_dag_AddNode : Xp.Gen.c17SkelDagAddNode = skelAddNode := by decide
theorem skeleton_upg_AddNode : Xp.Gen.c17SkelUpgAddNode = skelAddNode := by decide
theorem skeleton_dag_AddOrUpdateNodes : Xp.Gen.c17SkelDagAddOrUpdateNodes = skelDagAddOrUpdateNodes := by decide
theorem skeleton_upg_AddOrUpdateNodes : Xp.Gen.c17SkelUpgAddOrUpdateNodes = skelUpgAddOrUpdateNodes := by decide
theorem skeleton_dag_NodeExists : Xp.Gen.c17SkelDagNodeExists = skelNodeExists := by decide
theorem skeleton_upg_NodeExists : Xp.Gen.c17SkelUpgNodeExists = skelNodeExists := by decide
theorem skeleton_dag_TraceNode : Xp.Gen.c17SkelDagTraceNode = skelTraceNode := by decide
theorem skeleton_upg_TraceNode : Xp.Gen.c17SkelUpgTraceNode = skelTraceNode := by decide
theorem skeleton_dag_traceNode : Xp.Gen.c17SkelDagTraceNodeRec = skelTraceNodeRec := by decide
theorem skeleton_upg_traceNode : Xp.Gen.c17SkelUpgTraceNodeRec = skelTraceNodeRec := by decide
theorem skeleton_dag_GetNode : Xp.Gen.c17SkelDagGetNode = skelGetNode := by decide
theorem skeleton_upg_GetNode : Xp.Gen.c17SkelUpgGetNode = skelGetNode := by decide
theorem skeleton_dag_AddEdges : Xp.Gen.c17SkelDagAddEdges = skelAddEdges := by decide
theorem skeleton_upg_AddEdges : Xp.Gen.c17SkelUpgAddEdges = skelAddEdges := by decide
theorem skeleton_dag_AddEdge : Xp.Gen.c17SkelDagAddEdge = skelDagAddEdge := by decide
theorem skeleton_upg_AddEdge : Xp.Gen.c17SkelUpgAddEdge = skelUpgAddEdge := by decide
theorem skeleton_dag_Sort : Xp.Gen.c17SkelDagSort = skelSort := by decide
theorem skeleton_upg_Sort : Xp.Gen.c17SkelUpgSort = skelSort := by decide
theorem skeleton_dag_visit : Xp.Gen.c17SkelDagVisit = skelVisit := by decide
theorem skeleton_upg_visit : Xp.Gen.c17SkelUpgVisit = skelVisit := by decide
theorem skeleton_isValidConstraints : Xp.Gen.c17SkelIsValidConstraints = skelIsValidConstraints := by decide
theorem skeleton_ToNodes : Xp.Gen.c17SkelToNodes = skelToNodes := by decide
theorem skeleton_LockPackage_Neighbors : Xp.Gen.c17SkelLockPackageNeighbors = skelLockPackageNeighbors := by decide
theorem skeleton_Dependency_Neighbors : Xp.Gen.c17SkelDependencyNeighbors = skelDependencyNeighbors := by decide
theorem skeleton_LockPackage_AddNeighbors : Xp.Gen.c17SkelLockPackageAddNeighbors = skelLockPackageAddNeighbors := by decide
theorem skeleton_Dependency_AddNeighbors : Xp.Gen.c17SkelDependencyAddNeighbors = skelDependencyAddNeighbors := by decide
theorem skeleton_LockPackage_AddParentConstraints : Xp.Gen.c17SkelLockPackageAddParentConstraints = skelAddParentConstraints := by decide
theorem skeleton_Dependency_AddParentConstraints : Xp.Gen.c17SkelDependencyAddParentConstraints = skelAddParentConstraints := by decide
theorem skeleton_Reconcile : Xp.Gen.c17SkelReconcile = skelReconcile := by decide
theorem skeleton_findDependencyVersionToInstall : Xp.Gen.c17SkelFindInstall = skelFindInstall := by decide
theorem skeleton_checkExistingPackage : Xp.Gen.c17SkelCheckExisting = skelCheckExisting := by decide
theorem skeleton_findDependencyVersionToUpdate : Xp.Gen.c17SkelFindUpdate = skelFindUpdate := by decide
theorem skeleton_findDigestToUpdate : Xp.Gen.c17SkelFindDigest = skelFindDigest := by decide
theorem skeleton_NewPackage : Xp.Gen.c17SkelNewPackage = skelNewPackage := by decide
theorem skeleton_NewPackageList : Xp.Gen.c17SkelNewPackageList = skelNewPackageList := by decide
theorem skeleton_Resolve : Xp.Gen.c17SkelResolve = skelResolve := by decide
theorem skeleton_RemoveSelf : Xp.Gen.c17SkelRemoveSelf = skelRemoveSelf := by decide
theorem skeleton_ParsePackageSourceFromReference : Xp.Gen.c17SkelParseSource = skelParseSource := by decide

end Xp.C17

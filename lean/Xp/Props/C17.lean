import Xp.Model.C17
import Xp.Proofs.C17Dag
import Xp.Proofs.C17Init
import Xp.Gen.C17Tables
/-
C17 property theorems: dependency resolution.

Vocabulary (Xp/Model/C17.lean, Xp/Proofs/C17Init.lean):
* `lockNb pkgs` is the dependency graph read off the lock contents `pkgs`: a lock package
  points at the packages it depends on; a dependency that is not in the lock is a node
  without neighbours ("implied").  `init` (MapDag.Init / MapUpgradingDag.Init) builds a DAG
  whose neighbour function is exactly `lockNb pkgs` (`Proofs.C17Init.init_spec`), so the
  theorems below speak about the lock, not about an internal data structure.
* `Reach nb a b`: `b` is reachable from `a` by at least one edge; `HasCycle nb`: some node
  reaches itself (self loops and cycles through implied nodes included).
* `order` is the iteration order of Go's node map in `Sort`; it is universally quantified.
* `o : Oracle` carries the verdicts of Masterminds/semver and go-containerregistry; every
  theorem holds for every oracle.
-/
namespace Xp.C17

/-! ### Sort: errors iff the lock's dependency graph has a cycle; otherwise dependencies first -/

/-- `Sort` (of either DAG implementation, after `Init` on the lock contents `pkgs`), for every
iteration order of the node map:
* it fails iff the dependency graph of the lock has a cycle;
* when it fails, the error is the cycle error and the node it names lies on a cycle
  (never "node does not exist", never out of fuel);
* when it succeeds, the result lists every node of the graph exactly once and every package
  after all the packages it depends on. -/
theorem sort_ok_iff_acyclic {o : Oracle} {upg : Bool} {pkgs : List Pkg} {d : Dag} {imp : List Dep}
    (h : init o upg pkgs = .ok (d, imp)) (order : List String)
    (hord : ∀ n, n ∈ order ↔ (lockNb pkgs n).isSome = true) (hne : lockNb pkgs "" = none) :
    ((∃ e, sort d order = .error e) ↔ HasCycle (lockNb pkgs)) ∧
    (∀ e, sort d order = .error e → ∃ c, e = .cycle c ∧ Reach (lockNb pkgs) c c) ∧
    (∀ res, sort d order = .ok res →
      res.Nodup ∧ (∀ n, n ∈ res ↔ (lockNb pkgs n).isSome = true) ∧ DepsFirst (lockNb pkgs) res) := by
  obtain ⟨hnb, hnodup, _, _⟩ := init_spec h
  have nbeq : d.nb = lockNb pkgs := funext hnb
  have hks : ∀ n, (lockNb pkgs n).isSome = true ↔ n ∈ d.keys := by
    intro n; rw [← nbeq]; exact d.nb_isSome_iff n
  have hlen : d.keys.length = d.length := by unfold Dag.keys; exact List.length_map ..
  have inv0 : Inv (lockNb pkgs) d.keys ⟨[], [], []⟩ :=
    ⟨(fun _ h => by cases h), (fun _ h => by cases h), (fun _ h => by cases h), trivial, (fun _ h => by cases h)⟩
  have spec := sortFrom_spec (lockNb pkgs) d.keys hks (lockNb_closed pkgs) hne (d.length + 1) order ⟨[], [], []⟩
    (fun n hn => (hks n).1 ((hord n).1 hn)) inv0 rfl (by omega)
  unfold sort sortG
  rw [nbeq]
  cases hs : sortFrom (lockNb pkgs) (d.length + 1) order ⟨[], [], []⟩ with
  | error e =>
    rw [hs] at spec
    cases e with
    | missing _ => exact spec.elim
    | fuel => exact spec.elim
    | cycle c =>
      have hc : Reach (lockNb pkgs) c c := spec
      refine ⟨⟨fun _ => ⟨c, hc⟩, fun _ => ⟨_, rfl⟩⟩, ?_, ?_⟩
      · intro e he
        cases he
        exact ⟨c, rfl, hc⟩
      · intro res he; cases he
  | ok st =>
    rw [hs] at spec
    obtain ⟨inv, _, _, hall⟩ : Inv (lockNb pkgs) d.keys st ∧ st.stack = [] ∧ _ ∧ ∀ n ∈ order, n ∈ st.results := spec
    have hsub : ∀ x ∈ st.results, x ∈ d.keys := fun x hx => inv.vis_keys x (inv.res_vis x hx).1
    have hsup : ∀ x ∈ d.keys, x ∈ st.results := fun x hx => hall x ((hord x).2 ((hks x).2 hx))
    have hnd : st.results.Nodup := nodup_of_reverse (TopoRev.nodup _ inv.topo)
    have hperm : st.results.Perm d.keys :=
      (List.perm_ext_iff_of_nodup hnd hnodup).2 (fun a => ⟨hsub a, hsup a⟩)
    have hpad : st.results ++ List.replicate (d.length - st.results.length) "" = st.results := by
      rw [hperm.length_eq, hlen, Nat.sub_self]; simp
    simp only [hpad]
    refine ⟨⟨(fun ⟨e, he⟩ => by cases he), ?_⟩, (fun e he => by cases he), ?_⟩
    · rintro ⟨c, hc⟩
      have hcs : (lockNb pkgs c).isSome = true := by
        cases hc with
        | edge e => exact e.isSome
        | step e _ => exact e.isSome
      have hcr : c ∈ st.results.reverse := List.mem_reverse.2 (hsup c ((hks c).1 hcs))
      exact absurd hc (TopoRev.acyclic _ inv.topo c hcr)
    · intro res he
      cases he
      exact ⟨hnd, fun n => ⟨fun hn => (hks n).2 (hsub n hn), fun hn => hsup n ((hks n).1 hn)⟩,
        TopoRev.depsFirst _ inv.topo⟩

/-! ### TraceNode: exactly the transitive closure -/

/-- `TraceNode id` on the DAG built from the lock returns exactly the packages reachable from
`id` by one or more dependency edges (and fails with "missing node" iff `id` is not a node). -/
theorem trace_is_closure {o : Oracle} {upg : Bool} {pkgs : List Pkg} {d : Dag} {imp : List Dep}
    (h : init o upg pkgs = .ok (d, imp)) (id : String) :
    ((lockNb pkgs id).isSome = true → ∃ t, trace d id = .ok t ∧ ∀ m, m ∈ t ↔ Reach (lockNb pkgs) id m) ∧
    (lockNb pkgs id = none → trace d id = .error .missing) := by
  obtain ⟨hnb, _, _, _⟩ := init_spec h
  have nbeq : d.nb = lockNb pkgs := funext hnb
  have hks : ∀ n, (lockNb pkgs n).isSome = true ↔ n ∈ d.keys := by
    intro n; rw [← nbeq]; exact d.nb_isSome_iff n
  have hlen : d.keys.length = d.length := by unfold Dag.keys; exact List.length_map ..
  unfold trace
  rw [nbeq, ← hlen]
  refine ⟨fun hid => traceG_spec (lockNb pkgs) d.keys hks (lockNb_closed pkgs) id ((hks id).1 hid), ?_⟩
  intro hnone
  simp [traceG, traceNode, hnone]

/-! ### implied nodes = dependencies absent from the lock -/

/-- MapDag.Init returns as implied exactly the dependencies that are not lock packages, each
once; MapUpgradingDag.Init returns at least those (it also returns present packages whose
version does not satisfy an incoming constraint). -/
theorem implied_eq_missing {o : Oracle} {upg : Bool} {pkgs : List Pkg} {d : Dag} {imp : List Dep}
    (h : init o upg pkgs = .ok (d, imp)) :
    (∀ e ∈ pkgs.flatMap (·.deps), e.pkg ∉ pkgs.map (·.source) → e.pkg ∈ imp.map (·.pkg)) ∧
    (upg = false → (imp.map (·.pkg)).Nodup ∧
      ∀ x, x ∈ imp.map (·.pkg) ↔ (x ∈ (pkgs.flatMap (·.deps)).map (·.pkg) ∧ x ∉ pkgs.map (·.source))) :=
  ⟨(init_spec h).2.2.1, (init_spec h).2.2.2⟩

/-! ### non-vacuity -/

def o0 : Oracle := ⟨fun _ => none, fun _ => false, fun _ _ => false, fun _ => none⟩

/-- a → b → c → a, plus a dependency on the absent package x -/
def cyc : List Pkg :=
  [⟨"pa", "a", "1.0.0", [⟨"b", "*"⟩], false⟩, ⟨"pb", "b", "1.0.0", [⟨"c", "*"⟩, ⟨"x", "*"⟩], false⟩,
   ⟨"pc", "c", "1.0.0", [⟨"a", "*"⟩], false⟩]

/-- diamond a → {b, c} → d -/
def dia : List Pkg :=
  [⟨"pa", "a", "1.0.0", [⟨"b", "*"⟩, ⟨"c", "*"⟩], false⟩, ⟨"pb", "b", "1.0.0", [⟨"d", "*"⟩], false⟩,
   ⟨"pc", "c", "1.0.0", [⟨"d", "*"⟩], false⟩, ⟨"pd", "d", "1.0.0", [], false⟩]

example : (match init o0 false cyc with
    | .ok (d, imp) => (match sort d ["x", "c", "b", "a"] with | .error (.cycle c) => some c | _ => none, imp.map (·.pkg))
    | .error _ => (none, [])) = (some "c", ["x"]) := by decide
example : (match init o0 true dia with
    | .ok (d, _) => ((sort d ["c", "a", "d", "b"]).toOption, (trace d "a").toOption)
    | .error _ => (none, none)) = (some ["d", "c", "b", "a"], some ["c", "d", "b"]) := by decide

end Xp.C17

import Xp.Model.C05
/-
C05 property theorems. Statements only paraphrase the property; helper lemmas
live above each theorem only when trivial, otherwise in Xp/Proofs.
-/
namespace Xp.C05

/-! ### helper lemmas about `setCond` (kept here because they are tiny) -/

theorem statusOf_setCond_self (cs : List Cond) (c : Cond) : statusOf (setCond cs c) c.type = some c.status := by
  induction cs with
  | nil => simp [setCond, statusOf]
  | cons x xs ih =>
    unfold setCond
    split
    · simp [statusOf, List.find?]
    · rename_i h
      simp only [statusOf, List.find?, h, decide_false] at ih ⊢
      exact ih

theorem find_replaceAll_ne (xs : List Cond) (c : Cond) (t : String) (h : t ≠ c.type) :
    (setCond.replaceAll xs c).find? (·.type = t) = xs.find? (·.type = t) := by
  induction xs with
  | nil => rfl
  | cons x xs ih =>
    unfold setCond.replaceAll
    by_cases hx : x.type = c.type
    · have : ¬ x.type = t := fun e => h (e ▸ hx)
      simp [List.find?, hx, Ne.symm h, ih]
    · simp only [hx, if_false, List.find?]
      split <;> simp_all

theorem statusOf_setCond_ne (cs : List Cond) (c : Cond) (t : String) (h : t ≠ c.type) :
    statusOf (setCond cs c) t = statusOf cs t := by
  induction cs with
  | nil => simp [setCond, statusOf, List.find?, Ne.symm h]
  | cons x xs ih =>
    unfold setCond
    split
    · rename_i hx
      have hxt : ¬ x.type = t := fun e => h (e ▸ hx)
      simp only [statusOf, List.find?, Ne.symm h, hxt, decide_false]
      rw [find_replaceAll_ne xs c t h]
    · simp only [statusOf, List.find?] at ih ⊢
      split
      · rfl
      · exact ih

/-- function conditions never touch a system condition type -/
theorem applyFnConds_system (st : St) (fn : List FnCond) (t : String) (ht : isSystem t = true) :
    statusOf (applyFnConds st fn).1.conds t = statusOf st.conds t := by
  induction fn generalizing st with
  | nil => rfl
  | cons f fs ih =>
    unfold applyFnConds
    split
    · exact ih st
    · rename_i hf
      simp only []
      rw [ih]
      apply statusOf_setCond_ne
      intro e; rw [e] at ht; exact hf ht

theorem ready_isSystem : isSystem "Ready" = true := by decide
theorem synced_isSystem : isSystem "Synced" = true := by decide

/-! ### the property -/

/-- Ready=True after a successful reconcile iff the pipeline marked the XR ready, or
did not mark it unready and every desired composed resource is ready. -/
theorem ready_true_iff (old : St) (composed : List Res) (explicit : Option Bool) (fn : List FnCond) (st : St)
    (h : reconcile old composed explicit fn .none = some st) :
    statusOf st.conds "Ready" = some "True" ↔
      (explicit = some true ∨ (explicit = none ∧ ∀ r ∈ composed, r.ready = true)) := by
  simp only [reconcile, Option.some.injEq] at h
  subst h
  have := statusOf_setCond_self (setCond (applyFnConds old fn).1.conds (syncedCond composed)) (readyCond composed explicit)
  have ht : (readyCond composed explicit).type = "Ready" := by
    unfold readyCond; cases explicit with
    | none => simp only []; split <;> rfl
    | some b => cases b <;> rfl
  rw [ht] at this
  simp only [this, Option.some.injEq]
  unfold readyCond
  cases explicit with
  | none =>
    simp only [List.all_eq_true]
    split <;> simp_all [available, creating]
  | some b => cases b <;> simp [available, creating]

/-- Synced=True after a successful reconcile iff every desired composed resource was
rendered and applied successfully (none unsynced). -/
theorem synced_true_iff (old : St) (composed : List Res) (explicit : Option Bool) (fn : List FnCond) (st : St)
    (h : reconcile old composed explicit fn .none = some st) :
    statusOf st.conds "Synced" = some "True" ↔ ∀ r ∈ composed, r.synced = true := by
  simp only [reconcile, Option.some.injEq] at h
  subst h
  have hr : (readyCond composed explicit).type = "Ready" := by
    unfold readyCond; cases explicit with
    | none => simp only []; split <;> rfl
    | some b => cases b <;> rfl
  rw [statusOf_setCond_ne _ _ "Synced" (by rw [hr]; decide)]
  have hs : (syncedCond composed).type = "Synced" := by unfold syncedCond; split <;> rfl
  have := statusOf_setCond_self (applyFnConds old fn).1.conds (syncedCond composed)
  rw [hs] at this
  rw [this]
  unfold syncedCond
  simp only [List.all_eq_true]
  split <;> simp_all [reconcileSuccess, reconcileError]

/-- Functions cannot forge Ready/Synced: whatever conditions they return, the system
conditions are those of a run in which they returned none. -/
theorem no_forge (old : St) (composed : List Res) (explicit : Option Bool) (fn : List FnCond) (t : String)
    (ht : t = "Ready" ∨ t = "Synced") :
    (reconcile old composed explicit fn .none).map (fun st => statusOf st.conds t) =
    (reconcile old composed explicit [] .none).map (fun st => statusOf st.conds t) := by
  have hr : (readyCond composed explicit).type = "Ready" := by
    unfold readyCond; cases explicit with
    | none => simp only []; split <;> rfl
    | some b => cases b <;> rfl
  have hs : (syncedCond composed).type = "Synced" := by unfold syncedCond; split <;> rfl
  simp only [reconcile, Option.map_some, applyFnConds, Option.some.injEq]
  rcases ht with rfl | rfl
  · have h1 := statusOf_setCond_self (setCond (applyFnConds old fn).1.conds (syncedCond composed)) (readyCond composed explicit)
    have h2 := statusOf_setCond_self (setCond old.conds (syncedCond composed)) (readyCond composed explicit)
    rw [hr] at h1 h2; rw [h1, h2]
  · have hne : "Synced" ≠ (readyCond composed explicit).type := by rw [hr]; decide
    have a1 := statusOf_setCond_ne (setCond (applyFnConds old fn).1.conds (syncedCond composed)) _ "Synced" hne
    have a2 := statusOf_setCond_ne (setCond old.conds (syncedCond composed)) _ "Synced" hne
    have h1 := statusOf_setCond_self (applyFnConds old fn).1.conds (syncedCond composed)
    have h2 := statusOf_setCond_self old.conds (syncedCond composed)
    rw [hs] at h1 h2
    rw [a1, a2, h1, h2]

theorem markUnknown_system (seen : List String) (snap cs : List Cond) (t : String) (ht : isSystem t = true) :
    statusOf (markUnknown seen snap cs) t = statusOf cs t := by
  unfold markUnknown
  induction snap generalizing cs with
  | nil => rfl
  | cons c rest ih =>
    simp only [List.foldl]
    split
    · exact ih cs
    · rename_i h
      rw [ih]
      apply statusOf_setCond_ne
      intro e
      simp only [Bool.or_eq_true, not_or] at h
      rw [e] at ht; exact h.1 ht

/-- A failing reconcile never reports Ready=True on its own account (Ready is left as
it was) and always reports Synced=False; a conflict writes nothing at all. Function
conditions cannot change that either. -/
theorem error_never_overstates (old : St) (composed : List Res) (explicit : Option Bool) (fn : List FnCond) (e : Err)
    (he : e ≠ .none) :
    match reconcile old composed explicit fn e with
    | none => e = .conflict
    | some st => statusOf st.conds "Ready" = statusOf old.conds "Ready" ∧ statusOf st.conds "Synced" = some "False" := by
  cases e with
  | none => exact absurd rfl he
  | conflict => simp [reconcile]
  | generic =>
    simp only [reconcile]
    refine ⟨?_, ?_⟩
    · rw [markUnknown_system _ _ _ _ ready_isSystem, applyFnConds_system _ _ _ ready_isSystem]
      exact statusOf_setCond_ne _ _ _ (by decide)
    · rw [markUnknown_system _ _ _ _ synced_isSystem, applyFnConds_system _ _ _ synced_isSystem]
      exact statusOf_setCond_self old.conds reconcileError
  | invalid =>
    simp only [reconcile]
    refine ⟨?_, ?_⟩
    · rw [markUnknown_system _ _ _ _ ready_isSystem, applyFnConds_system _ _ _ ready_isSystem]
      exact statusOf_setCond_ne _ _ _ (by decide)
    · rw [markUnknown_system _ _ _ _ synced_isSystem, applyFnConds_system _ _ _ synced_isSystem]
      exact statusOf_setCond_self old.conds reconcileError

/-- The claim is reported Ready=True only when the XR it observed was Ready=True. -/
theorem claim_ready_only_if_xr_ready (xr : Option String) :
    (claimReady xr).status = "True" → xr = some "True" := by
  unfold claimReady
  split
  · intro _; assumption
  · intro h; simp at h

/-- End to end for the claim reconcile: whatever the claim's previous conditions, whatever
conditions the XR carries and whatever condition types the XR asks to copy to the claim
(even a forged "Ready" entry in status.claimConditionTypes), the claim ends Ready=True iff
the XR it observed is Ready=True. -/
theorem claim_ready_iff (old xrConds : List Cond) (claimTypes : List String) :
    statusOf (claimReconcile old xrConds claimTypes) "Ready" = some "True" ↔ statusOf xrConds "Ready" = some "True" := by
  unfold claimReconcile
  have ht : (claimReady (statusOf xrConds "Ready")).type = "Ready" := by unfold claimReady; split <;> rfl
  have := statusOf_setCond_self
    (claimTypes.foldl (fun acc t => setCond acc (getCond xrConds t)) (setCond old reconcileSuccess))
    (claimReady (statusOf xrConds "Ready"))
  rw [ht] at this
  rw [this]
  unfold claimReady
  split <;> simp_all [available]

/-! ### non-vacuity -/
example : (reconcile ⟨[⟨"Ready", "False", "Creating"⟩], []⟩ [⟨"a", true, true⟩] none
    [⟨⟨"Ready", "True", "Forged"⟩, false⟩] .none).map (fun st => statusOf st.conds "Ready") = some (some "True") := by decide
example : (reconcile ⟨[], []⟩ [⟨"a", true, false⟩] none
    [⟨⟨"Ready", "True", "Forged"⟩, false⟩] .none).map (fun st => statusOf st.conds "Ready") = some (some "False") := by decide

end Xp.C05

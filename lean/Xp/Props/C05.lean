import Xp.Model.C05
import Xp.Model.C05Fn
import Xp.Model.C05Claim
import Xp.Model.C05Ready
import Xp.Proofs.C05
import Xp.Gen.C05Skel
/-
C05 property theorems. Statements only paraphrase the property; helper lemmas
live above each theorem only when trivial, otherwise in Xp/Proofs.
-/
namespace Xp.C05

/-! ### the property -/

/-- Ready=True after a successful reconcile iff the pipeline marked the XR ready, or
did not mark it unready and every desired composed resource is ready. -/
theorem ready_true_iff (old : St) (composed : List Res) (explicit : Option Bool) (fn : List FnCond) (st : St)
    (h : reconcile old composed explicit fn .none = some st) :
    statusOf st.conds "Ready" = some "True" ↔
      (explicit = some true ∨ (explicit = none ∧ ∀ r ∈ composed, r.ready = true)) := by
  simp only [reconcile, Option.some.injEq] at h
  subst h
  have := statusOf_setCond_self (setCond (applyFnConds old fn).1.conds (syncedCond composed)) (readyCond composed explicit)
  have ht : (readyCond composed explicit).type = "Ready" := by
    unfold readyCond; cases explicit with
    | none => simp only []; split <;> rfl
    | some b => cases b <;> rfl
  rw [ht] at this
  simp only [this, Option.some.injEq]
  unfold readyCond
  cases explicit with
  | none =>
    simp only [List.all_eq_true]
    split <;> simp_all [available, creating]
  | some b => cases b <;> simp [available, creating]

/-- Synced=True after a successful reconcile iff every desired composed resource was
rendered and applied successfully (none unsynced). -/
theorem synced_true_iff (old : St) (composed : List Res) (explicit : Option Bool) (fn : List FnCond) (st : St)
    (h : reconcile old composed explicit fn .none = some st) :
    statusOf st.conds "Synced" = some "True" ↔ ∀ r ∈ composed, r.synced = true := by
  simp only [reconcile, Option.some.injEq] at h
  subst h
  have hr : (readyCond composed explicit).type = "Ready" := by
    unfold readyCond; cases explicit with
    | none => simp only []; split <;> rfl
    | some b => cases b <;> rfl
  rw [statusOf_setCond_ne _ _ "Synced" (by rw [hr]; decide)]
  have hs : (syncedCond composed).type = "Synced" := by unfold syncedCond; split <;> rfl
  have := statusOf_setCond_self (applyFnConds old fn).1.conds (syncedCond composed)
  rw [hs] at this
  rw [this]
  unfold syncedCond
  simp only [List.all_eq_true]
  split <;> simp_all [reconcileSuccess, reconcileError]

/-- Functions cannot forge Ready/Synced: whatever conditions they return, the system
conditions are those of a run in which they returned none. -/
theorem no_forge (old : St) (composed : List Res) (explicit : Option Bool) (fn : List FnCond) (t : String)
    (ht : t = "Ready" ∨ t = "Synced") :
    (reconcile old composed explicit fn .none).map (fun st => statusOf st.conds t) =
    (reconcile old composed explicit [] .none).map (fun st => statusOf st.conds t) := by
  have hr : (readyCond composed explicit).type = "Ready" := by
    unfold readyCond; cases explicit with
    | none => simp only []; split <;> rfl
    | some b => cases b <;> rfl
  have hs : (syncedCond composed).type = "Synced" := by unfold syncedCond; split <;> rfl
  simp only [reconcile, Option.map_some, applyFnConds, Option.some.injEq]
  rcases ht with rfl | rfl
  · have h1 := statusOf_setCond_self (setCond (applyFnConds old fn).1.conds (syncedCond composed)) (readyCond composed explicit)
    have h2 := statusOf_setCond_self (setCond old.conds (syncedCond composed)) (readyCond composed explicit)
    rw [hr] at h1 h2; rw [h1, h2]
  · have hne : "Synced" ≠ (readyCond composed explicit).type := by rw [hr]; decide
    have a1 := statusOf_setCond_ne (setCond (applyFnConds old fn).1.conds (syncedCond composed)) _ "Synced" hne
    have a2 := statusOf_setCond_ne (setCond old.conds (syncedCond composed)) _ "Synced" hne
    have h1 := statusOf_setCond_self (applyFnConds old fn).1.conds (syncedCond composed)
    have h2 := statusOf_setCond_self old.conds (syncedCond composed)
    rw [hs] at h1 h2
    rw [a1, a2, h1, h2]

/-- A failing reconcile never reports Ready=True on its own account (Ready is left as
it was) and always reports Synced=False; a conflict writes nothing at all. Function
conditions cannot change that either. -/
theorem error_never_overstates (old : St) (composed : List Res) (explicit : Option Bool) (fn : List FnCond) (e : Err)
    (he : e ≠ .none) :
    match reconcile old composed explicit fn e with
    | none => e = .conflict
    | some st => statusOf st.conds "Ready" = statusOf old.conds "Ready" ∧ statusOf st.conds "Synced" = some "False" := by
  cases e with
  | none => exact absurd rfl he
  | conflict => simp [reconcile]
  | generic =>
    simp only [reconcile]
    refine ⟨?_, ?_⟩
    · rw [markUnknown_system _ _ _ _ ready_isSystem, applyFnConds_system _ _ _ ready_isSystem]
      exact statusOf_setCond_ne _ _ _ (by decide)
    · rw [markUnknown_system _ _ _ _ synced_isSystem, applyFnConds_system _ _ _ synced_isSystem]
      exact statusOf_setCond_self old.conds reconcileError
  | invalid =>
    simp only [reconcile]
    refine ⟨?_, ?_⟩
    · rw [markUnknown_system _ _ _ _ ready_isSystem, applyFnConds_system _ _ _ ready_isSystem]
      exact statusOf_setCond_ne _ _ _ (by decide)
    · rw [markUnknown_system _ _ _ _ synced_isSystem, applyFnConds_system _ _ _ synced_isSystem]
      exact statusOf_setCond_self old.conds reconcileError

/-- The claim is reported Ready=True only when the XR it observed was Ready=True. -/
theorem claim_ready_only_if_xr_ready (xr : Option String) :
    (claimReady xr).status = "True" → xr = some "True" := by
  unfold claimReady
  split
  · intro _; assumption
  · intro h; simp at h

/-- End to end for the claim reconcile: whatever the claim's previous conditions, whatever
conditions the XR carries and whatever condition types the XR asks to copy to the claim
(even a forged "Ready" entry in status.claimConditionTypes), the claim ends Ready=True iff
the XR it observed is Ready=True. -/
theorem claim_ready_iff (old xrConds : List Cond) (claimTypes : List String) :
    statusOf (claimReconcile old xrConds claimTypes) "Ready" = some "True" ↔ statusOf xrConds "Ready" = some "True" := by
  unfold claimReconcile
  have ht : (claimReady (statusOf xrConds "Ready")).type = "Ready" := by unfold claimReady; split <;> rfl
  have := statusOf_setCond_self
    (claimTypes.foldl (fun acc t => setCond acc (getCond xrConds t)) (setCond old reconcileSuccess))
    (claimReady (statusOf xrConds "Ready"))
  rw [ht] at this
  rw [this]
  unfold claimReady
  split <;> simp_all [available]

/-! ### one reconcile in full: every phase, every error class, lost writes -/

/-- the reconcile completes: it fails nowhere, is not paused and its status update takes effect -/
def Call.clean (c : Call) : Prop := c.lost = false ∧ c.paused = false ∧ c.fault = none

/-- the pipeline marked the XR ready, or did not mark it unready and every desired resource is ready -/
def Call.mayReady (c : Call) : Prop :=
  c.explicit = some true ∨ (c.explicit = none ∧ ∀ r ∈ c.composed, r.ready = true)

/-- every desired composed resource was rendered and applied successfully -/
def Call.allSynced (c : Call) : Prop := ∀ r ∈ c.composed, r.synced = true

/-- whether a status write takes effect depends on the call alone, never on what is stored -/
def Call.writes (c : Call) : Bool :=
  !c.lost && match c.fault with
    | some (.get, _) => false
    | some (p, e) => c.paused || !(p.conflictAware && e == .conflict)
    | none => true

/-- `reconcile` is the special case of a Compose failure (or none) with an effective status write. -/
theorem reconcile_eq_call (old : St) (composed : List Res) (explicit : Option Bool) (fn : List FnCond) (e : Err) :
    reconcile old composed explicit fn e =
      reconcileCall old ⟨false, composed, explicit, fn,
        (match e with | .none => none | .generic => some (.compose, .generic)
                      | .invalid => some (.compose, .invalid) | .conflict => some (.compose, .conflict)), false⟩ := by
  cases e <;> rfl

theorem call_clean_eq (old : St) (c : Call) (h : c.clean) :
    reconcileCall old c = some (composeOk old c.composed c.explicit c.fn) := by
  obtain ⟨h1, h2, h3⟩ := h
  simp [reconcileCall, h1, h2, h3]

theorem call_writes_iff (old : St) (c : Call) : (reconcileCall old c).isSome = c.writes := by
  unfold reconcileCall Call.writes
  cases hl : c.lost with
  | true => simp
  | false =>
    cases hf : c.fault with
    | none => cases hp : c.paused <;> simp
    | some pe =>
      obtain ⟨p, e⟩ := pe
      cases hp : c.paused <;> cases p <;> cases e <;> simp [Phase.conflictAware]

/-- A reconcile that completes reports Ready=True iff the pipeline marked the XR ready, or did
not mark it unready and every desired composed resource is ready - whatever was stored before and
whatever conditions the functions returned. -/
theorem call_ready_true_iff (old : St) (c : Call) (hc : c.clean) (st : St) (h : reconcileCall old c = some st) :
    statusOf st.conds "Ready" = some "True" ↔ c.mayReady := by
  rw [call_clean_eq old c hc, Option.some.injEq] at h
  subst h
  rw [statusOf_eq, findC_composeOk_ready]
  simp only [Option.map_some, Option.some.injEq]
  exact readyCond_true_iff _ _

/-- A reconcile that completes reports Synced=True iff every desired composed resource was rendered
and applied successfully in that reconcile. -/
theorem call_synced_true_iff (old : St) (c : Call) (hc : c.clean) (st : St) (h : reconcileCall old c = some st) :
    statusOf st.conds "Synced" = some "True" ↔ c.allSynced := by
  rw [call_clean_eq old c hc, Option.some.injEq] at h
  subst h
  rw [statusOf_eq, findC_composeOk_synced]
  simp only [Option.map_some, Option.some.injEq]
  exact syncedCond_true_iff _

/-- A reconcile that does not complete - paused, or failing in ANY phase with ANY error class -
either writes nothing or leaves Ready as it was and reports Synced=False. -/
theorem call_failing_never_overstates (old : St) (c : Call) (hc : c.paused = true ∨ c.fault ≠ none) (st : St)
    (h : reconcileCall old c = some st) :
    statusOf st.conds "Ready" = statusOf old.conds "Ready" ∧ statusOf st.conds "Synced" = some "False" := by
  unfold reconcileCall at h
  cases hl : c.lost with
  | true => simp [hl] at h
  | false =>
    simp only [hl, Bool.false_eq_true, if_false] at h
    have paused_case : ∀ st, some ({ old with conds := setCond old.conds reconcilePaused } : St) = some st →
        statusOf st.conds "Ready" = statusOf old.conds "Ready" ∧ statusOf st.conds "Synced" = some "False" := by
      intro st e
      rw [Option.some.injEq] at e; subst e
      exact ⟨statusOf_setCond_ne _ _ _ (by decide), statusOf_setCond_self old.conds reconcilePaused⟩
    have err_case : ∀ st, some ({ old with conds := setCond old.conds reconcileError } : St) = some st →
        statusOf st.conds "Ready" = statusOf old.conds "Ready" ∧ statusOf st.conds "Synced" = some "False" := by
      intro st e
      rw [Option.some.injEq] at e; subst e
      exact ⟨statusOf_setCond_ne _ _ _ (by decide), statusOf_setCond_self old.conds reconcileError⟩
    cases hf : c.fault with
    | none =>
      rcases hc with hp | hn
      · simp only [hf, hp, if_true] at h
        exact paused_case st h
      · exact absurd hf hn
    | some pe =>
      obtain ⟨p, e⟩ := pe
      cases hp : c.paused with
      | true =>
        cases p <;> simp only [hf, hp, if_true] at h <;> first | exact paused_case st h | (simp at h)
      | false =>
        cases p <;> simp only [hf, hp, Bool.false_eq_true, if_false] at h
        all_goals first
          | (simp at h; done)
          | (split at h
             · simp at h
             · first
               | exact err_case st h
               | (split at h
                  · rw [Option.some.injEq] at h; subst h
                    rw [statusOf_eq, statusOf_eq, statusOf_eq, findC_composeError_ready, findC_composeError_synced]
                    exact ⟨rfl, rfl⟩
                  · exact err_case st h))

/-- Functions cannot forge: the WHOLE stored Ready and Synced conditions (status and reason) after
any reconcile - completing, paused, failing in any phase with any error class - are those of the
same reconcile with the function conditions removed. -/
theorem call_no_forge (old : St) (c : Call) (t : String) (ht : t = "Ready" ∨ t = "Synced") :
    (reconcileCall old c).map (fun st => findC st.conds t) =
    (reconcileCall old { c with fn := [] }).map (fun st => findC st.conds t) := by
  have hsys : isSystem t = true := by rcases ht with rfl | rfl <;> decide
  have hok : findC (composeOk old c.composed c.explicit c.fn).conds t = findC (composeOk old c.composed c.explicit []).conds t := by
    rcases ht with rfl | rfl
    · rw [findC_composeOk_ready, findC_composeOk_ready]
    · rw [findC_composeOk_synced, findC_composeOk_synced]
  have herr : findC (composeError old c.fn).conds t = findC (composeError old []).conds t := by
    rcases ht with rfl | rfl
    · rw [findC_composeError_ready, findC_composeError_ready]
    · rw [findC_composeError_synced, findC_composeError_synced]
  unfold reconcileCall
  cases hl : c.lost with
  | true => simp
  | false =>
    simp only [Bool.false_eq_true, if_false]
    cases hf : c.fault with
    | none => cases hp : c.paused <;> simp [hok]
    | some pe =>
      obtain ⟨p, e⟩ := pe
      cases hp : c.paused <;> cases p <;> simp <;> (try split) <;> simp [herr]

/-- Custom conditions not re-asserted because of a fatal Compose error become Unknown (reason
FatalError): every non-system condition the XR carried for which the functions returned no
condition before the failure. -/
theorem unknown_on_fatal (old : St) (fn : List FnCond) (c : Cond) (hc : c ∈ old.conds)
    (hs : isSystem c.type = false) (hn : lastFn fn c.type = none) :
    findC (composeError old fn).conds c.type = some ⟨c.type, "Unknown", "FatalError"⟩ := by
  unfold composeError
  simp only []
  apply findC_markUnknown_unknown _ _ _ _ hs
  · rw [applyFnConds_seen, hn]; rfl
  · rw [findC_applyFnConds, hn]
    simp only [Option.orElse]
    exact findC_setCond_isSome _ _ _ (findC_isSome_of_mem _ _ hc)

/-- ... and the custom conditions the functions did return before the fatal error keep the
functions' (last) value. -/
theorem reasserted_on_fatal (old : St) (fn : List FnCond) (t : String) (f : Cond) (hl : lastFn fn t = some f) :
    findC (composeError old fn).conds t = some f := by
  unfold composeError
  simp only []
  rw [findC_markUnknown_other _ _ _ _ (Or.inr (by rw [applyFnConds_seen, hl]; rfl)), findC_applyFnConds, hl]
  rfl

/-- Functions never get a system condition type into status.claimConditionTypes (from where the
claim reconciler copies conditions to the claim), whatever a reconcile does. -/
theorem claim_types_never_system (old : St) (c : Call) (st : St) (h : reconcileCall old c = some st)
    (hold : ∀ t ∈ old.claimTypes, isSystem t = false) : ∀ t ∈ st.claimTypes, isSystem t = false := by
  have key : ∀ fn (base : St), base.claimTypes = old.claimTypes →
      ∀ t ∈ (applyFnConds base fn).1.claimTypes, isSystem t = false := by
    intro fn base hb t ht
    rcases applyFnConds_claimTypes base fn t ht with h1 | h1
    · rw [hb] at h1; exact hold t h1
    · exact h1
  unfold reconcileCall at h
  cases hl : c.lost with
  | true => simp [hl] at h
  | false =>
    simp only [hl, Bool.false_eq_true, if_false] at h
    cases hf : c.fault with
    | none =>
      cases hp : c.paused <;> simp only [hf, hp, if_true, Bool.false_eq_true, if_false, Option.some.injEq] at h <;> subst h
      · exact key c.fn old rfl
      · exact hold
    | some pe =>
      obtain ⟨p, e⟩ := pe
      cases hp : c.paused with
      | true =>
        cases p <;> simp only [hf, hp, if_true] at h <;> first | (simp at h; done) | (rw [Option.some.injEq] at h; subst h; exact hold)
      | false =>
        cases p <;> simp only [hf, hp, Bool.false_eq_true, if_false] at h
        all_goals first
          | (simp at h; done)
          | (split at h
             · simp at h
             · first
               | (rw [Option.some.injEq] at h; subst h; exact hold)
               | (split at h
                  · rw [Option.some.injEq] at h; subst h
                    exact key c.fn { old with conds := setCond old.conds reconcileError } rfl
                  · rw [Option.some.injEq] at h; subst h; exact hold))

/-! ### sequences: one long-lived reconciler, several XRs, any interleaving -/

instance (c : Call) : Decidable c.clean := by unfold Call.clean; infer_instance

/-- XR number `x` is stored with Ready=True -/
def readyAt (sts : List St) (x : Nat) : Prop := ∃ st, sts[x]? = some st ∧ statusOf st.conds "Ready" = some "True"
/-- XR number `x` is stored with Synced=True -/
def syncedAt (sts : List St) (x : Nat) : Prop := ∃ st, sts[x]? = some st ∧ statusOf st.conds "Synced" = some "True"

/-- the last reconcile of XR `x` in the sequence that completed -/
def lastClean : List Step → Nat → Option Call
  | [], _ => none
  | s :: ss, x =>
    match lastClean ss x with
    | some c => some c
    | none => if s.xr = x ∧ s.call.clean then some s.call else none

/-- the last reconcile of XR `x` in the sequence whose status write took effect -/
def lastWrite : List Step → Nat → Option Call
  | [], _ => none
  | s :: ss, x =>
    match lastWrite ss x with
    | some c => some c
    | none => if s.xr = x ∧ s.call.writes = true then some s.call else none

theorem stepSeq_length (sts : List St) (s : Step) : (stepSeq sts s).1.length = sts.length := by
  unfold stepSeq
  split
  · rfl
  · split
    · rfl
    · simp

/-- Isolation: reconciling one XR never changes what is stored for another, however many
reconciles of however many XRs the (long-lived) reconciler has served before. -/
theorem seq_isolation (sts : List St) (s : Step) (j : Nat) (hj : j ≠ s.xr) : (stepSeq sts s).1[j]? = sts[j]? := by
  unfold stepSeq
  split
  · rfl
  · split
    · rfl
    · simp only []
      exact List.getElem?_set_ne (Ne.symm hj)

theorem step_ready (sts : List St) (s : Step) (x : Nat) (hx : x < sts.length) :
    readyAt (stepSeq sts s).1 x ↔ if s.xr = x ∧ s.call.clean then s.call.mayReady else readyAt sts x := by
  by_cases hsx : s.xr = x
  · subst hsx
    obtain ⟨old, hold⟩ : ∃ old, sts[s.xr]? = some old := ⟨sts[s.xr], by simp [hx]⟩
    cases hr : reconcileCall old s.call with
    | none =>
      have hst : (stepSeq sts s).1 = sts := by simp [stepSeq, hold, hr]
      rw [hst]
      have hnc : ¬ s.call.clean := by
        intro hc; rw [call_clean_eq old s.call hc] at hr; simp at hr
      simp [hnc]
    | some st =>
      have hst : (stepSeq sts s).1 = sts.set s.xr st := by simp [stepSeq, hold, hr]
      have hget : (stepSeq sts s).1[s.xr]? = some st := by rw [hst]; simp [hx]
      by_cases hc : s.call.clean
      · simp only [hc, and_self, if_true]
        rw [← call_ready_true_iff old s.call hc st hr]
        unfold readyAt
        rw [hget]
        simp
      · simp only [hc, and_false, if_false]
        have hw : s.call.writes = true := by rw [← call_writes_iff old, hr]; rfl
        have hfail : s.call.paused = true ∨ s.call.fault ≠ none := by
          unfold Call.clean at hc
          unfold Call.writes at hw
          cases hl : s.call.lost with
          | true => simp [hl] at hw
          | false =>
            cases hp : s.call.paused with
            | true => exact Or.inl rfl
            | false =>
              right; intro hf; exact hc ⟨hl, hp, hf⟩
        have := (call_failing_never_overstates old s.call hfail st hr).1
        unfold readyAt
        rw [hget, hold]
        simp [this]
  · have hiso := seq_isolation sts s x (Ne.symm hsx)
    simp only [hsx, false_and, if_false]
    unfold readyAt
    rw [hiso]

theorem step_synced (sts : List St) (s : Step) (x : Nat) (hx : x < sts.length) :
    syncedAt (stepSeq sts s).1 x ↔
      if s.xr = x ∧ s.call.writes = true then (s.call.clean ∧ s.call.allSynced) else syncedAt sts x := by
  by_cases hsx : s.xr = x
  · subst hsx
    obtain ⟨old, hold⟩ : ∃ old, sts[s.xr]? = some old := ⟨sts[s.xr], by simp [hx]⟩
    cases hr : reconcileCall old s.call with
    | none =>
      have hst : (stepSeq sts s).1 = sts := by simp [stepSeq, hold, hr]
      rw [hst]
      have hw : s.call.writes = false := by rw [← call_writes_iff old, hr]; rfl
      simp [hw]
    | some st =>
      have hst : (stepSeq sts s).1 = sts.set s.xr st := by simp [stepSeq, hold, hr]
      have hget : (stepSeq sts s).1[s.xr]? = some st := by rw [hst]; simp [hx]
      have hw : s.call.writes = true := by rw [← call_writes_iff old, hr]; rfl
      simp only [hw, and_self, if_true]
      by_cases hc : s.call.clean
      · simp only [hc, true_and]
        rw [← call_synced_true_iff old s.call hc st hr]
        unfold syncedAt
        rw [hget]
        simp
      · have hfail : s.call.paused = true ∨ s.call.fault ≠ none := by
          unfold Call.clean at hc
          unfold Call.writes at hw
          cases hl : s.call.lost with
          | true => simp [hl] at hw
          | false =>
            cases hp : s.call.paused with
            | true => exact Or.inl rfl
            | false =>
              right; intro hf; exact hc ⟨hl, hp, hf⟩
        have := (call_failing_never_overstates old s.call hfail st hr).2
        unfold syncedAt
        rw [hget]
        simp [this, hc]
  · have hiso := seq_isolation sts s x (Ne.symm hsx)
    simp only [hsx, false_and, if_false]
    unfold syncedAt
    rw [hiso]

/-- Over ANY sequence of reconciles of any number of XRs (completing, paused, failing in any phase
with any error class, losing their status write, interleaved in any order), an XR is stored
Ready=True at the end iff its last COMPLETED reconcile had the pipeline mark the XR ready, or not
mark it unready with every desired composed resource ready - or, if none completed, it was
Ready=True to begin with. Nothing else in the history matters. -/
theorem seq_ready_reflects_last_completed (sts : List St) (steps : List Step) (x : Nat) (hx : x < sts.length) :
    readyAt (runSeq sts steps) x ↔
      match lastClean steps x with
      | some c => c.mayReady
      | none => readyAt sts x := by
  induction steps generalizing sts with
  | nil => simp [runSeq, lastClean]
  | cons s ss ih =>
    have hx' : x < (stepSeq sts s).1.length := by rw [stepSeq_length]; exact hx
    have := ih (stepSeq sts s).1 hx'
    unfold runSeq lastClean
    rw [this]
    cases lastClean ss x with
    | some c => rfl
    | none =>
      simp only []
      rw [step_ready sts s x hx]
      split <;> rfl

/-- ... and it is stored Synced=True at the end iff the last reconcile whose status write took
effect completed and had every desired composed resource rendered and applied - or, if no write
took effect, it was Synced=True to begin with. -/
theorem seq_synced_reflects_last_write (sts : List St) (steps : List Step) (x : Nat) (hx : x < sts.length) :
    syncedAt (runSeq sts steps) x ↔
      match lastWrite steps x with
      | some c => c.clean ∧ c.allSynced
      | none => syncedAt sts x := by
  induction steps generalizing sts with
  | nil => simp [runSeq, lastWrite]
  | cons s ss ih =>
    have hx' : x < (stepSeq sts s).1.length := by rw [stepSeq_length]; exact hx
    have := ih (stepSeq sts s).1 hx'
    unfold runSeq lastWrite
    rw [this]
    cases lastWrite ss x with
    | some c => rfl
    | none =>
      simp only []
      rw [step_synced sts s x hx]
      split <;> rfl

/-! ### production of the outcomes by the function pipeline (real FunctionComposer) -/

/-- the desired state of `s` lets the XR be ready -/
def FnStep.mayReady (s : FnStep) : Prop :=
  s.xrReady = some true ∨ (s.xrReady = none ∧ ∀ x ∈ s.res, x.ready = some true)

/-- A pipeline completes iff no step fails or returns a FATAL result; its conditions are those of
all steps in order and its desired state is the LAST step's. -/
theorem runPipe_ok_iff (steps : List FnStep) (acc : List FnCond) (l : Option FnStep) (conds : List FnCond) (last : Option FnStep) :
    runPipe steps acc l = .ok conds last ↔
      (∀ s ∈ steps, s.err = false ∧ s.fatal = false) ∧ conds = acc ++ steps.flatMap (·.conds) ∧
      last = (match steps.getLast? with | some s => some s | none => l) := by
  induction steps generalizing acc l with
  | nil => simp [runPipe]; constructor <;> (intro h; exact ⟨h.1.symm, h.2.symm⟩)
  | cons s ss ih =>
    unfold runPipe
    cases he : s.err with
    | true => simp [he]
    | false =>
      cases hf : s.fatal with
      | true => simp [he, hf]
      | false =>
        simp only [Bool.false_eq_true, if_false]
        rw [ih]
        simp only [List.mem_cons, forall_eq_or_imp, he, hf, and_self, true_and, List.flatMap_cons, List.append_assoc]
        cases hss : ss.getLast? with
        | none =>
          have : ss = [] := by simpa using hss
          subst this
          simp
        | some z =>
          have : (s :: ss).getLast? = some z := by
            rw [List.getLast?_cons]; simp [hss]
          simp [this]

/-- The real pipeline, end to end: a reconcile whose pipeline completes, whose connection details
are published and whose final status update takes effect reports Ready=True iff the LAST step's
desired state marks the XR ready, or does not mark it unready and marks every desired resource
READY_TRUE - whatever conditions any step returned, in the response or in the desired XR status. -/
theorem fn_ready_true_iff (old : St) (r : FnRec) (conds : List FnCond) (last : FnStep)
    (hp : runPipe r.steps [] none = .ok conds (some last)) (hpub : r.publish = none) (hl : r.lost = false) :
    statusOf (fnReconcile old r).1.conds "Ready" = some "True" ↔ last.mayReady := by
  unfold fnReconcile
  simp only [hp, hpub, hl, Bool.false_eq_true, if_false, Option.map_some, Option.getD_some, Option.bind_some]
  rw [statusOf_eq, findC_composeOk_ready]
  simp only [Option.map_some, Option.some.injEq]
  rw [readyCond_true_iff]
  unfold FnStep.mayReady composedOf
  simp

/-- ... and Synced=True iff the API server accepted the apply of every desired resource. -/
theorem fn_synced_true_iff (old : St) (r : FnRec) (conds : List FnCond) (last : FnStep)
    (hp : runPipe r.steps [] none = .ok conds (some last)) (hpub : r.publish = none) (hl : r.lost = false) :
    statusOf (fnReconcile old r).1.conds "Synced" = some "True" ↔ ∀ x ∈ last.res, x.invalid = false := by
  unfold fnReconcile
  simp only [hp, hpub, hl, Bool.false_eq_true, if_false, Option.map_some, Option.getD_some, Option.bind_some]
  rw [statusOf_eq, findC_composeOk_synced]
  simp only [Option.map_some, Option.some.injEq]
  rw [syncedCond_true_iff]
  unfold composedOf
  simp

/-- the same step with every condition the function supplied removed: those returned in the
response AND those placed in the desired XR's status.conditions -/
def FnStep.strip (s : FnStep) : FnStep := { s with conds := [], statusConds := [] }
def FnRec.strip (r : FnRec) : FnRec := { r with steps := r.steps.map FnStep.strip }

theorem runPipe_strip (steps : List FnStep) (acc : List FnCond) (l : Option FnStep) :
    runPipe (steps.map FnStep.strip) [] (l.map FnStep.strip) =
      match runPipe steps acc l with
      | .error => .error
      | .fatal _ => .fatal []
      | .ok _ l2 => .ok [] (l2.map FnStep.strip) := by
  induction steps generalizing acc l with
  | nil => rfl
  | cons s ss ih =>
    simp only [List.map_cons]
    unfold runPipe
    have h1 : s.strip.err = s.err := rfl
    have h2 : s.strip.fatal = s.fatal := rfl
    have h3 : s.strip.conds = [] := rfl
    rw [h1, h2, h3]
    cases s.err with
    | true => rfl
    | false =>
      cases s.fatal with
      | true => rfl
      | false =>
        simp only [Bool.false_eq_true, if_false, List.append_nil]
        exact ih (acc ++ s.conds) (some s)

/-- the stored Ready / Synced condition after a function reconcile, whatever the functions supplied -/
theorem findC_fnReconcile (old : St) (r : FnRec) (t : String) (ht : t = "Ready" ∨ t = "Synced") :
    findC (fnReconcile old r).1.conds t =
      match runPipe r.steps [] none with
      | .error => if r.lost then findC old.conds t else findC (composeError old []).conds t
      | .fatal _ => if r.lost then findC old.conds t else findC (composeError old []).conds t
      | .ok _ last =>
        match r.publish with
        | some .conflict => findC old.conds t
        | some _ => if r.lost then findC old.conds t else findC (setCond old.conds reconcileError) t
        | none => if r.lost then findC old.conds t
                  else findC (composeOk old ((last.map composedOf).getD []) (last.bind (·.xrReady)) []).conds t := by
  have hsys : isSystem t = true := by rcases ht with rfl | rfl <;> decide
  have hm : ∀ sc, findC (mergeStatus old.conds (customOnly sc)) t = findC old.conds t :=
    fun sc => findC_mergeStatus_system _ _ _ hsys
  have hok : ∀ (m : St) composed explicit c1, findC m.conds t = findC old.conds t →
      findC (composeOk m composed explicit c1).conds t = findC (composeOk old composed explicit []).conds t := by
    intro m composed explicit c1 _
    rcases ht with rfl | rfl
    · rw [findC_composeOk_ready, findC_composeOk_ready]
    · rw [findC_composeOk_synced, findC_composeOk_synced]
  have herr : ∀ c1, findC (composeError old c1).conds t = findC (composeError old []).conds t := by
    intro c1
    rcases ht with rfl | rfl
    · rw [findC_composeError_ready, findC_composeError_ready]
    · rw [findC_composeError_synced, findC_composeError_synced]
  have hre : ∀ sc, findC (setCond (mergeStatus old.conds (customOnly sc)) reconcileError) t = findC (setCond old.conds reconcileError) t := by
    intro sc
    rcases ht with rfl | rfl
    · rw [findC_setCond_ne _ _ _ (by decide), findC_setCond_ne _ _ _ (by decide), hm]
    · exact (findC_setCond_self _ reconcileError).trans (findC_setCond_self _ reconcileError).symm
  unfold fnReconcile
  cases hp : runPipe r.steps [] none with
  | error => simp only []; split <;> first | rfl | exact herr _
  | fatal conds => simp only []; split <;> first | rfl | exact herr _
  | ok conds last =>
    simp only []
    cases hpub : r.publish with
    | none =>
      simp only []
      split
      · exact hm _
      · exact hok _ _ _ _ (hm _)
    | some e =>
      cases e <;> simp only [] <;> first
        | exact hm _
        | (split
           · exact hm _
           · exact hre _)

/-- Functions cannot forge, across the REAL pipeline and through BOTH channels: the whole stored
Ready and Synced conditions after any reconcile (completing, FATAL, runner error, publish error of
any class, lost status update) are those of the same reconcile with every condition the functions
returned in their responses and every condition they placed in the desired XR's status removed. -/
theorem fn_no_forge (old : St) (r : FnRec) (t : String) (ht : t = "Ready" ∨ t = "Synced") :
    findC (fnReconcile old r).1.conds t = findC (fnReconcile old r.strip).1.conds t := by
  rw [findC_fnReconcile old r t ht, findC_fnReconcile old r.strip t ht]
  have hs := runPipe_strip r.steps [] none
  simp only [Option.map_none] at hs
  have hst : r.strip.steps = r.steps.map FnStep.strip := rfl
  have hl : r.strip.lost = r.lost := rfl
  have hpb : r.strip.publish = r.publish := rfl
  rw [hst, hs, hl, hpb]
  cases runPipe r.steps [] none with
  | error => rfl
  | fatal conds => rfl
  | ok conds last =>
    simp only []
    have e1 : ((last.map FnStep.strip).map composedOf).getD [] = (last.map composedOf).getD [] := by cases last <;> rfl
    have e2 : (last.map FnStep.strip).bind (·.xrReady) = last.bind (·.xrReady) := by cases last <;> rfl
    rw [e1, e2]

/-- Whatever the functions return and whatever they put into the desired XR's status, an XR is
Ready=True after a reconcile only if it was so before, or the reconcile completed and the last
step's desired state lets the XR be ready. (A pipeline has at least one step.) -/
theorem fn_ready_only_if (old : St) (r : FnRec) (hne : r.steps ≠ [])
    (h : statusOf (fnReconcile old r).1.conds "Ready" = some "True") :
    statusOf old.conds "Ready" = some "True" ∨
      ∃ conds last, runPipe r.steps [] none = .ok conds (some last) ∧ r.publish = none ∧ r.lost = false ∧ last.mayReady := by
  rw [statusOf_eq, findC_fnReconcile old r "Ready" (Or.inl rfl)] at h
  have herr : (findC (composeError old []).conds "Ready").map (·.status) = statusOf old.conds "Ready" := by
    rw [findC_composeError_ready]; rfl
  cases hp : runPipe r.steps [] none with
  | error =>
    left
    simp only [hp] at h
    split at h
    · exact h
    · rw [herr] at h; exact h
  | fatal conds =>
    left
    simp only [hp] at h
    split at h
    · exact h
    · rw [herr] at h; exact h
  | ok conds last =>
    have hlast := ((runPipe_ok_iff r.steps [] none conds last).mp hp).2.2
    obtain ⟨z, hz⟩ : ∃ z, r.steps.getLast? = some z := by
      cases hg : r.steps.getLast? with
      | none => exact absurd (by simpa using hg) hne
      | some z => exact ⟨z, rfl⟩
    rw [hz] at hlast
    simp only [] at hlast
    subst hlast
    simp only [hp] at h
    cases hpub : r.publish with
    | some e =>
      left
      rw [hpub] at h
      cases e <;> simp only [] at h <;> first
        | exact h
        | (split at h
           · exact h
           · rw [findC_setCond_ne _ _ _ (by decide)] at h; exact h)
    | none =>
      rw [hpub] at h
      simp only [] at h
      cases hl : r.lost with
      | true => left; rw [hl] at h; exact h
      | false =>
        right
        refine ⟨conds, z, rfl, rfl, rfl, ?_⟩
        rw [hl] at h
        simp only [Bool.false_eq_true, if_false, Option.map_some, Option.getD_some, Option.bind_some, findC_composeOk_ready,
          Option.some.injEq] at h
        have := (readyCond_true_iff (composedOf z) z.xrReady).mp h
        unfold FnStep.mayReady
        unfold composedOf at this
        simpa using this

/-- ... and Synced=True only if it was so before (and nothing was written), or the reconcile
completed and the API server accepted the apply of every desired resource of the last step. -/
theorem fn_synced_only_if (old : St) (r : FnRec) (hne : r.steps ≠ [])
    (h : statusOf (fnReconcile old r).1.conds "Synced" = some "True") :
    (statusOf old.conds "Synced" = some "True" ∧ (fnReconcile old r).2 = false) ∨
      ∃ conds last, runPipe r.steps [] none = .ok conds (some last) ∧ r.publish = none ∧ r.lost = false ∧
        ∀ x ∈ last.res, x.invalid = false := by
  have h0 := h
  rw [statusOf_eq, findC_fnReconcile old r "Synced" (Or.inr rfl)] at h
  have herr : (findC (composeError old []).conds "Synced").map (·.status) = some "False" := by
    rw [findC_composeError_synced]; rfl
  have hre : (findC (setCond old.conds reconcileError) "Synced").map (·.status) = some "False" := by
    rw [show "Synced" = reconcileError.type from rfl, findC_setCond_self]; rfl
  cases hp : runPipe r.steps [] none with
  | error =>
    left
    simp only [hp] at h
    cases hl : r.lost with
    | true => rw [hl] at h; exact ⟨h, by unfold fnReconcile; simp [hp, hl]⟩
    | false => rw [hl] at h; simp only [Bool.false_eq_true, if_false] at h; rw [herr] at h; simp at h
  | fatal conds =>
    left
    simp only [hp] at h
    cases hl : r.lost with
    | true => rw [hl] at h; exact ⟨h, by unfold fnReconcile; simp [hp, hl]⟩
    | false => rw [hl] at h; simp only [Bool.false_eq_true, if_false] at h; rw [herr] at h; simp at h
  | ok conds last =>
    have hlast := ((runPipe_ok_iff r.steps [] none conds last).mp hp).2.2
    obtain ⟨z, hz⟩ : ∃ z, r.steps.getLast? = some z := by
      cases hg : r.steps.getLast? with
      | none => exact absurd (by simpa using hg) hne
      | some z => exact ⟨z, rfl⟩
    rw [hz] at hlast
    simp only [] at hlast
    subst hlast
    simp only [hp] at h
    cases hpub : r.publish with
    | some e =>
      left
      rw [hpub] at h
      cases hl : r.lost <;> cases e <;> simp only [hl, Bool.false_eq_true, if_false, if_true] at h <;> first
        | (rw [hre] at h; simp at h; done)
        | exact ⟨h, by unfold fnReconcile; simp [hp, hpub, hl]⟩
    | none =>
      rw [hpub] at h
      simp only [] at h
      cases hl : r.lost with
      | true => left; rw [hl] at h; exact ⟨h, by unfold fnReconcile; simp [hp, hpub, hl]⟩
      | false =>
        right
        refine ⟨conds, z, rfl, rfl, rfl, ?_⟩
        rw [hl] at h
        simp only [Bool.false_eq_true, if_false, Option.map_some, Option.getD_some, Option.bind_some, findC_composeOk_synced,
          Option.some.injEq] at h
        have := (syncedCond_true_iff (composedOf z)).mp h
        unfold composedOf at this
        simpa using this

/-! ### the claim reconcile in full: both syncers, cache lag and misses, interference, every error class -/

theorem getCond_type (cs : List Cond) (t : String) : (getCond cs t).type = t := by
  unfold getCond
  cases hf : cs.find? (·.type = t) with
  | none => rfl
  | some x => simpa using List.find?_some hf

/-- copying the listed XR conditions leaves the claim's Ready as it was, or makes it the XR's -/
theorem statusOf_copy_ready (v : XRView) (base : List Cond) (types : List String) :
    statusOf (types.foldl (fun acc t => setCond acc (getCond v.conds t)) base) "Ready" = statusOf base "Ready" ∨
    statusOf (types.foldl (fun acc t => setCond acc (getCond v.conds t)) base) "Ready" = some (getCond v.conds "Ready").status := by
  induction types generalizing base with
  | nil => exact Or.inl rfl
  | cons t ts ih =>
    simp only [List.foldl_cons]
    rcases ih (setCond base (getCond v.conds t)) with h | h
    · by_cases e : t = "Ready"
      · subst e
        have := statusOf_setCond_self base (getCond v.conds "Ready")
        rw [getCond_type] at this
        right; rw [h, this]
      · left; rw [h, statusOf_setCond_ne _ _ _ (by rw [getCond_type]; exact fun h => e h.symm)]
    · exact Or.inr h

theorem getCond_ready_status (cs : List Cond) (h : statusOf cs "Ready" = some "True") : (getCond cs "Ready").status = "True" := by
  unfold statusOf at h
  unfold getCond
  cases hf : cs.find? (·.type = "Ready") with
  | none => simp [hf] at h
  | some x => simpa [hf] using h

/-- the two exits on which the XR counts as ready are taken only when the XR exists, is not bound
to another claim, and is Ready=True as stored when the syncer's write returned -/
theorem claimPath_ready_exits (xr : XRObj) (c : ClaimCall)
    (h : claimPath xr c = .available ∨ claimPath xr c = .propagateFailed) :
    statusOf (c.decides xr).conds "Ready" = some "True" ∧ xr.present = true ∧ (c.sees xr && c.foreign xr) = false := by
  have hpres : statusOf (c.decides xr).conds "Ready" = some "True" → xr.present = true := by
    intro hr
    cases hp : xr.present with
    | true => rfl
    | false => simp [ClaimCall.decides, hp, emptyView, statusOf] at hr
  unfold claimPath at h
  repeat' (split at h)
  all_goals first
    | (simp at h; done)
    | (refine ⟨by assumption, hpres (by assumption), ?_⟩; simp_all)

/-- A claim reconcile - either syncer, whatever the cache served or missed, whatever the XR
controller wrote meanwhile, whichever API call failed with whichever error class - stores
Ready=True only if the claim was Ready=True already, or the XR exists, is not bound to another
claim (all four components of the reference compared) and was Ready=True AS STORED WHEN THE
SYNCER'S WRITE RETURNED. -/
theorem claimCall_ready_true_only_if (old : List Cond) (xr : XRObj) (c : ClaimCall) (cs : List Cond)
    (h : claimCall old xr c = some cs) (hr : statusOf cs "Ready" = some "True") :
    statusOf old "Ready" = some "True" ∨
      (statusOf (c.decides xr).conds "Ready" = some "True" ∧ xr.present = true ∧ (c.sees xr && c.foreign xr) = false) := by
  unfold claimCall at h
  split at h
  · simp at h
  · cases hp : claimPath xr c with
    | nothing => simp [hp, pathConds] at h
    | paused =>
      simp only [hp, pathConds, Option.some.injEq] at h; subst h
      left; rw [← hr]; exact (statusOf_setCond_ne _ _ _ (by decide)).symm
    | failed =>
      simp only [hp, pathConds, Option.some.injEq] at h; subst h
      left; rw [← hr]; exact (statusOf_setCond_ne _ _ _ (by decide)).symm
    | waiting =>
      simp only [hp, pathConds, Option.some.injEq] at h; subst h
      have := statusOf_setCond_self (copied old (c.decides xr)) ⟨"Ready", "False", "Waiting"⟩
      rw [this] at hr; simp at hr
    | available => exact Or.inr (claimPath_ready_exits xr c (Or.inl hp))
    | propagateFailed => exact Or.inr (claimPath_ready_exits xr c (Or.inr hp))

/-- On the path where nothing fails, the full model is the per-reconcile model `claimReconcile` run
on the view stored when the syncer's write returned: hence (claim_ready_iff) the claim is
Ready=True iff THAT view is - the XR controller's latest word wins over what the reconciler read
earlier, and the lagging cache never decides. -/
theorem claimCall_completing (old : List Cond) (xr : XRObj) (c : ClaimCall)
    (hf : c.fault = none) (hp : c.paused = false) (hb : (c.sees xr && c.foreign xr) = false) (hc : c.csaConflict xr = false) :
    claimCall old xr c = some (claimReconcile old (c.decides xr).conds (c.decides xr).claimTypes) := by
  unfold claimCall claimPath ClaimCall.syncFault
  simp only [hf, hp, hb, hc, Bool.false_eq_true, if_false]
  unfold claimReconcile claimReady
  split <;> rfl

theorem claimCall_completing_ready_iff (old : List Cond) (xr : XRObj) (c : ClaimCall) (cs : List Cond)
    (hf : c.fault = none) (hp : c.paused = false) (hb : (c.sees xr && c.foreign xr) = false) (hc : c.csaConflict xr = false)
    (h : claimCall old xr c = some cs) :
    statusOf cs "Ready" = some "True" ↔ statusOf (c.decides xr).conds "Ready" = some "True" := by
  rw [claimCall_completing old xr c hf hp hb hc, Option.some.injEq] at h
  subst h
  exact claim_ready_iff _ _ _

/-- A client-side sync based on a version of the XR that is no longer the stored one (served by a
lagging cache, or overtaken by the XR controller) never reaches a verdict: nothing is written. -/
theorem claimCall_csa_conflict_writes_nothing (old : List Cond) (xr : XRObj) (c : ClaimCall)
    (hc : c.csaConflict xr = true) (hp : c.paused = false) (hf : c.fault = none) (hb : (c.sees xr && c.foreign xr) = false) :
    claimCall old xr c = none := by
  unfold claimCall claimPath ClaimCall.syncFault
  simp [hf, hp, hb, hc, pathConds]

/-- Isolation on the claim side: a reconcile of one claim never changes the stored conditions of
another, whatever the long-lived reconciler served before. -/
theorem cstep_other_claims_unchanged (w : CWorld) (s : CStep) (j : Nat) (hj : j ≠ s.claim) :
    (cstep w s).1.claims[j]? = w.claims[j]? := by
  unfold cstep
  split
  · simp only []
    split
    · exact List.getElem?_set_ne (Ne.symm hj)
    · rfl
  · rfl

/-! ### when a composed resource counts as ready (P&T readiness checks) -/

/-- A composed resource with readiness checks counts as ready iff EVERY ONE of its checks holds
(no check is invalid, points at a field of the wrong type, or is unmet) - however many checks
there are and in whatever order. -/
theorem checksHold_true_iff (o : RObj) (cs : List RCheck) :
    checksHold o cs = some true ↔ ∀ c ∈ cs, evalCheck o c = some true := by
  induction cs with
  | nil => simp [checksHold]
  | cons c rest ih =>
    unfold checksHold
    cases h : evalCheck o c with
    | none => simp [h]
    | some b =>
      cases b with
      | false => simp [h]
      | true => simp [h, ih]

theorem isReady_true_iff (o : RObj) (cs : List RCheck) :
    isReady o cs = some true ↔
      (cs = [] ∧ statusOf o.conds "Ready" = some "True") ∨ (cs ≠ [] ∧ ∀ c ∈ cs, evalCheck o c = some true) := by
  unfold isReady
  cases cs with
  | nil => simp
  | cons c rest =>
    simp only [List.isEmpty_cons, Bool.false_eq_true, if_false]
    rw [checksHold_true_iff]
    simp

/-! ### production of the outcomes by the P&T composer -/

/-- what the third loop of Compose reports: every resource Synced iff every template was rendered
and its apply accepted; every resource Ready iff, in addition, its readiness checks hold -/
theorem ptObserve_all (rs : List PTRes) (composed : List Res) (h : ptObserve rs = some composed) :
    ((∀ c ∈ composed, c.synced = true) ↔ ∀ x ∈ rs, x.observed = true) ∧
    ((∀ c ∈ composed, c.ready = true) ↔ ∀ x ∈ rs, x.observed = true ∧ isReady x.obj x.checks = some true) := by
  induction rs generalizing composed with
  | nil => simp [ptObserve] at h; subst h; simp
  | cons r rest ih =>
    unfold ptObserve at h
    cases ho : r.observed with
    | false =>
      simp only [ho, Bool.false_eq_true, if_false, Option.map_eq_some_iff] at h
      obtain ⟨tl, htl, rfl⟩ := h
      simp [ho]
    | true =>
      simp only [ho, if_true] at h
      cases hr : isReady r.obj r.checks with
      | none => simp [hr] at h
      | some b =>
        simp only [hr, Option.map_eq_some_iff] at h
        obtain ⟨tl, htl, rfl⟩ := h
        have := ih tl htl
        simp only [List.mem_cons, forall_eq_or_imp, ho, hr, true_and, Option.some.injEq]
        exact ⟨by rw [this.1], by rw [this.2]⟩

/-- the reconcile completes: Compose fails nowhere, every readiness check can be run, the connection
details are published and the final status update takes effect -/
def PTRec.completes (r : PTRec) (composed : List Res) : Prop :=
  r.early = none ∧ ptObserve r.effRes = some composed ∧ r.late = none ∧ r.publish = none ∧ r.lost = false

instance (r : PTRec) (composed : List Res) : Decidable (r.completes composed) := by
  unfold PTRec.completes; infer_instance

theorem pt_completes_eq (old : St) (r : PTRec) (composed : List Res) (h : r.completes composed) :
    ptReconcile old r = (composeOk (r.patched old) composed none [], true) := by
  obtain ⟨h1, h2, h3, h4, h5⟩ := h
  simp [ptReconcile, h1, h2, h3, h4, h5]

/-- The real P&T composer, end to end: a reconcile that completes reports Ready=True iff EVERY
template was rendered, its apply was accepted by the API server and every one of its readiness
checks holds on the applied resource - whatever a ToCompositeFieldPath patch wrote into the XR's
status.conditions. -/
theorem pt_ready_true_iff (old : St) (r : PTRec) (composed : List Res) (h : r.completes composed) :
    statusOf (ptReconcile old r).1.conds "Ready" = some "True" ↔
      ∀ x ∈ r.effRes, x.rendered = true ∧ x.invalid = false ∧ isReady x.obj x.checks = some true := by
  rw [pt_completes_eq old r composed h, statusOf_eq, findC_composeOk_ready]
  simp only [Option.map_some, Option.some.injEq]
  rw [readyCond_true_iff, (ptObserve_all _ _ h.2.1).2]
  simp [PTRes.observed, and_assoc]

/-- ... and Synced=True iff every template was rendered and no apply was rejected. -/
theorem pt_synced_true_iff (old : St) (r : PTRec) (composed : List Res) (h : r.completes composed) :
    statusOf (ptReconcile old r).1.conds "Synced" = some "True" ↔
      ∀ x ∈ r.effRes, x.rendered = true ∧ x.invalid = false := by
  rw [pt_completes_eq old r composed h, statusOf_eq, findC_composeOk_synced]
  simp only [Option.map_some, Option.some.injEq]
  rw [syncedCond_true_iff, (ptObserve_all _ _ h.2.1).1]
  simp [PTRes.observed]

/-- WHICH FIELD PATHS A P&T PATCH REACHES: a ToCompositeFieldPath patch onto
status.conditions[k].status / .reason changes that one field of that one EXISTING entry - it adds
no condition, removes none, renames none, and leaves every other entry alone. -/
theorem patchAt_reach (cs : List Cond) (k : Nat) (f : CField) (v : String) :
    (patchAt cs k f v).map (·.type) = cs.map (·.type) ∧
    (∀ j, j ≠ k → (patchAt cs k f v)[j]? = cs[j]?) ∧
    (∀ c, (patchAt cs k f v)[k]? = some c → ∃ c0, cs[k]? = some c0 ∧ c.type = c0.type ∧
      (f = .status → c.reason = c0.reason) ∧ (f = .reason → c.status = c0.status)) := by
  unfold patchAt
  cases hk : cs[k]? with
  | none => simp [hk]
  | some c0 =>
    have hlt : k < cs.length := by
      rcases Nat.lt_or_ge k cs.length with h | h
      · exact h
      · rw [List.getElem?_eq_none h] at hk; cases hk
    refine ⟨?_, ?_, ?_⟩
    · simp only []
      apply List.ext_getElem?
      intro i
      rw [List.getElem?_map, List.getElem?_map]
      by_cases hi : i = k
      · subst hi
        rw [List.getElem?_set_self hlt, hk]
        cases f <;> rfl
      · rw [List.getElem?_set_ne (Ne.symm hi)]
    · intro j hj
      simp only []
      exact List.getElem?_set_ne (Ne.symm hj)
    · intro c hc
      simp only [List.getElem?_set_self hlt, Option.some.injEq] at hc
      refine ⟨c0, rfl, ?_⟩
      subst hc
      cases f <;> simp

/-- THE SYSTEM CONDITION Synced IS RE-ASSERTED ON EVERY PATH THAT REACHES A STATUS UPDATE: whatever
the patch wrote into the XR held in memory, the stored Synced condition (status and reason) after
ANY P&T reconcile - completing, failing anywhere with any class, losing its update - is that of the
same reconcile without the patch. -/
theorem pt_synced_patch_independent (old : St) (r : PTRec) :
    findC (ptReconcile old r).1.conds "Synced" = findC (ptReconcile old { r with patch := none }).1.conds "Synced" := by
  have hfail : ∀ (m1 m2 : St) e, findC (composeFail old m1 e r.lost).1.conds "Synced" = findC (composeFail old m2 e r.lost).1.conds "Synced" := by
    intro m1 m2 e
    unfold composeFail
    split
    · rfl
    · simp only []; rw [findC_composeError_synced, findC_composeError_synced]
  have he : ({ r with patch := none } : PTRec).early = r.early := rfl
  have hr : ({ r with patch := none } : PTRec).effRes = r.effRes := rfl
  have hl : ({ r with patch := none } : PTRec).late = r.late := rfl
  unfold ptReconcile
  rw [he, hr, hl]
  cases r.early with
  | some e => rfl
  | none =>
    simp only []
    cases ptObserve r.effRes with
    | none => exact hfail _ _ _
    | some composed =>
      simp only []
      cases r.late with
      | some e => exact hfail _ _ _
      | none =>
        simp only []
        cases hp : r.publish with
        | none =>
          simp only []
          split
          · rfl
          · simp only []; rw [findC_composeOk_synced, findC_composeOk_synced]
        | some e =>
          cases e <;> simp only [] <;> first
            | rfl
            | (split
               · rfl
               · exact (findC_setCond_self _ reconcileError).trans (findC_setCond_self _ reconcileError).symm)

/-- ... and so is Ready on the path that completes: the stored Ready condition is the one derived
from the resources, whatever the patch wrote. -/
theorem pt_ready_patch_independent_on_completion (old : St) (r : PTRec) (composed : List Res) (h : r.completes composed) :
    findC (ptReconcile old r).1.conds "Ready" = some (readyCond composed none) := by
  rw [pt_completes_eq old r composed h, findC_composeOk_ready]

/-- THE PRECISE EXTENT OF D26. A P&T reconcile that does NOT complete never derives Ready: the
stored Ready condition is the one of the XR as held in memory when the reconcile gave up - the
previously stored one, except for what the patch wrote into it (`PTRec.patched`: only when the first
template was rendered, applied and observed, and Compose did not fail before that). -/
theorem pt_failing_ready_is_memory (old : St) (r : PTRec) (hf : ∀ composed, ¬ r.completes composed) :
    findC (ptReconcile old r).1.conds "Ready" = findC old.conds "Ready" ∨
    ((ptReconcile old r).2 = true ∧ r.early = none ∧
      findC (ptReconcile old r).1.conds "Ready" = findC (r.patched old).conds "Ready") := by
  have hfail : ∀ (m : St) e, findC (composeFail old m e r.lost).1.conds "Ready" = findC old.conds "Ready" ∨
      ((composeFail old m e r.lost).2 = true ∧ findC (composeFail old m e r.lost).1.conds "Ready" = findC m.conds "Ready") := by
    intro m e
    unfold composeFail
    split
    · left; rfl
    · right; exact ⟨rfl, findC_composeError_ready _ _⟩
  unfold ptReconcile
  cases he : r.early with
  | some e =>
    simp only []
    rcases hfail old e with h | h
    · left; exact h
    · left; exact h.2
  | none =>
    simp only []
    cases ho : ptObserve r.effRes with
    | none =>
      simp only []
      rcases hfail (r.patched old) .generic with h | h
      · left; exact h
      · right; exact ⟨h.1, (by first | rfl | trivial), h.2⟩
    | some composed =>
      simp only []
      cases hl : r.late with
      | some e =>
        simp only []
        rcases hfail (r.patched old) e with h | h
        · left; exact h
        · right; exact ⟨h.1, (by first | rfl | trivial), h.2⟩
      | none =>
        simp only []
        cases hp : r.publish with
        | none =>
          simp only []
          cases hlo : r.lost with
          | true => left; rfl
          | false => exact absurd ⟨he, ho, hl, hp, hlo⟩ (hf composed)
        | some e =>
          cases e <;> simp only [] <;> first
            | (left; first | rfl | trivial)
            | (split
               · left; rfl
               · right; exact ⟨rfl, (by first | rfl | trivial), findC_setCond_ne _ _ _ (by decide)⟩)

/-- Without such a patch a P&T reconcile that does not complete leaves Ready as it was. -/
theorem pt_failing_keeps_ready (old : St) (r : PTRec) (hp : r.patch = none) (hf : ∀ composed, ¬ r.completes composed) :
    statusOf (ptReconcile old r).1.conds "Ready" = statusOf old.conds "Ready" := by
  have hpatched : r.patched old = old := by unfold PTRec.patched; rw [hp]
  rw [statusOf_eq, statusOf_eq]
  rcases pt_failing_ready_is_memory old r hf with h | h
  · rw [h]
  · rw [h.2.2, hpatched]

/-- A P&T reconcile whose Compose fails (a failing call of any non-conflict class, or a readiness
check that cannot be run) and whose status update takes effect reports Synced=False and turns
every custom condition Unknown - P&T has no functions to re-assert them. -/
theorem pt_compose_failure_synced_false (old mem : St) (e : EC) (he : e ≠ .conflict) :
    (composeFail old mem e false).2 = true ∧
    statusOf (composeFail old mem e false).1.conds "Synced" = some "False" := by
  have : (e == EC.conflict) = false := by cases e <;> first | rfl | exact absurd rfl he
  unfold composeFail
  simp only [this, Bool.or_false, Bool.false_eq_true, if_false, true_and]
  rw [statusOf_eq, findC_composeError_synced]; rfl

/-- THE UNCHANGED CODE LETS A COMPOSITION SET A SYSTEM CONDITION THROUGH THE XR'S STATUS: the model of
the existing P&T path on a concrete witness - a ToCompositeFieldPath patch onto
status.conditions[0].status (the stored Ready=False), the only desired resource NOT ready,
PublishConnection failing - stores Ready=True after the reconcile (monitor
`C05:system-condition-set-via-xr-status-patch`, corpus/C05/pt-status-conditions-patch.jsonl). -/
theorem system_condition_via_xr_status_patch_fails_on_unfixed_witness :
    statusOf (ptReconcile ⟨[⟨"Ready", "False", "Creating"⟩], []⟩
      ⟨[⟨"a", true, false, ⟨.absent, .absent, .absent, []⟩, [⟨"NonEmpty", "status.s", "", 0, false, "", ""⟩]⟩],
       some (0, .status, "True"), none, some .generic, false⟩).1.conds "Ready" = some "True" := by
  decide

/-- ... and the same through the OTHER exits that store the XR held in memory without deriving
Ready: Compose failing after the patch was rendered - here the final Apply of the XR (any
non-conflict class), or a readiness check of a later template that cannot be run. -/
theorem system_condition_via_xr_status_patch_on_compose_failure_witness :
    statusOf (ptReconcile ⟨[⟨"Ready", "False", "Creating"⟩], []⟩
      ⟨[⟨"a", true, false, ⟨.absent, .absent, .absent, []⟩, [⟨"NonEmpty", "status.s", "", 0, false, "", ""⟩]⟩],
       some (0, .status, "True"), some (.xrApply, .forbidden), none, false⟩).1.conds "Ready" = some "True" ∧
    statusOf (ptReconcile ⟨[⟨"Ready", "False", "Creating"⟩], []⟩
      ⟨[⟨"a", true, false, ⟨.absent, .absent, .absent, []⟩, [⟨"None", "", "", 0, false, "", ""⟩]⟩,
        ⟨"b", true, false, ⟨.absent, .absent, .absent, []⟩, [⟨"Bogus", "", "", 0, false, "", ""⟩]⟩],
       some (0, .status, "True"), none, none, false⟩).1.conds "Ready" = some "True" := by
  decide

/-! ### Compose failing after the function pipeline completed -/

theorem fnF_no_fault (old : St) (r : FnRec) (stale : Bool) : fnReconcileF old r none stale = fnReconcile old r := by
  unfold fnReconcileF
  cases runPipe r.steps [] none <;> rfl

/-- the fault is reached: the pipeline completed and the call is issued -/
def FnRec.faulted (r : FnRec) (p : FnPoint) : Prop :=
  ∃ conds last, runPipe r.steps [] none = .ok conds last ∧ p.fires last = true

theorem fnF_faulted_eq (old : St) (r : FnRec) (p : FnPoint) (e : EC) (stale : Bool) (h : r.faulted p) :
    fnReconcileF old r (some (p, e)) stale = fnFaultOutcome old p e r.lost stale := by
  obtain ⟨conds, last, h1, h2⟩ := h
  unfold fnReconcileF
  simp [h1, h2]

theorem fnF_not_faulted_eq (old : St) (r : FnRec) (p : FnPoint) (e : EC) (stale : Bool) (h : ¬ r.faulted p) :
    fnReconcileF old r (some (p, e)) stale = fnReconcile old r := by
  unfold fnReconcileF
  cases hp : runPipe r.steps [] none with
  | error => rfl
  | fatal c => rfl
  | ok conds last =>
    simp only []
    cases hf : p.fires last with
    | true => exact absurd ⟨conds, last, hp, hf⟩ h
    | false => simp

/-- A Compose failure AFTER the pipeline (persisting the resource references, applying a composed
resource with a non-invalid error, applying the desired XR status) never overstates: nothing is
written (conflict, lost update, the XR held by the reconciler outdated by the reference apply or
replaced by the desired XR), or Ready is left as it was, Synced is False, and EVERY custom
condition the XR carried becomes Unknown - the conditions the pipeline returned are dropped with
the rest of the result, however many steps re-asserted them. -/
theorem fnF_fault_never_overstates (old : St) (r : FnRec) (p : FnPoint) (e : EC) (stale : Bool) (h : r.faulted p) :
    fnReconcileF old r (some (p, e)) stale = (old, false) ∨
    ((fnReconcileF old r (some (p, e)) stale).2 = true ∧
     findC (fnReconcileF old r (some (p, e)) stale).1.conds "Ready" = findC old.conds "Ready" ∧
     statusOf (fnReconcileF old r (some (p, e)) stale).1.conds "Synced" = some "False" ∧
     ∀ c ∈ old.conds, isSystem c.type = false →
       findC (fnReconcileF old r (some (p, e)) stale).1.conds c.type = some ⟨c.type, "Unknown", "FatalError"⟩) := by
  rw [fnF_faulted_eq old r p e stale h]
  have key : ∀ lost, composeFail old old e lost = (old, false) ∨
      ((composeFail old old e lost).2 = true ∧
       findC (composeFail old old e lost).1.conds "Ready" = findC old.conds "Ready" ∧
       statusOf (composeFail old old e lost).1.conds "Synced" = some "False" ∧
       ∀ c ∈ old.conds, isSystem c.type = false →
         findC (composeFail old old e lost).1.conds c.type = some ⟨c.type, "Unknown", "FatalError"⟩) := by
    intro lost
    unfold composeFail
    split
    · left; rfl
    · right
      refine ⟨rfl, findC_composeError_ready _ _, ?_, ?_⟩
      · rw [statusOf_eq, findC_composeError_synced]; rfl
      · intro c hc hs
        exact unknown_on_fatal old [] c hc hs rfl
  unfold fnFaultOutcome
  cases p with
  | refs => exact key _
  | apply => exact key _
  | statusPatch => left; rfl

/-- a failing apply of a composed resource after the reference apply changed the XR, and a failing
apply of the desired XR status, store NOTHING: the XR keeps whatever it reported before -/
theorem fnF_stale_writes_nothing (old : St) (r : FnRec) (p : FnPoint) (e : EC) (stale : Bool) (h : r.faulted p)
    (hs : p = .statusPatch ∨ (p = .apply ∧ stale = true)) :
    fnReconcileF old r (some (p, e)) stale = (old, false) := by
  rw [fnF_faulted_eq old r p e stale h]
  unfold fnFaultOutcome
  rcases hs with rfl | ⟨rfl, rfl⟩
  · rfl
  · simp [composeFail]

/-- Functions cannot forge through a reconcile whose Compose fails late either: the stored Ready
and Synced conditions are those of the same reconcile with every function-supplied condition
removed (responses and desired XR status). -/
theorem fnF_no_forge (old : St) (r : FnRec) (f : Option (FnPoint × EC)) (stale : Bool) (t : String) (ht : t = "Ready" ∨ t = "Synced") :
    findC (fnReconcileF old r f stale).1.conds t = findC (fnReconcileF old r.strip f stale).1.conds t := by
  cases f with
  | none => rw [fnF_no_fault, fnF_no_fault]; exact fn_no_forge old r t ht
  | some pe =>
    obtain ⟨p, e⟩ := pe
    have hs := runPipe_strip r.steps [] none
    simp only [Option.map_none] at hs
    have hst : r.strip.steps = r.steps.map FnStep.strip := rfl
    have hiff : r.strip.faulted p ↔ r.faulted p := by
      unfold FnRec.faulted
      rw [hst, hs]
      cases hp : runPipe r.steps [] none with
      | error => simp
      | fatal c => simp
      | ok conds last =>
        have hfire : p.fires (last.map FnStep.strip) = p.fires last := by
          cases p <;> cases last <;> rfl
        constructor
        · rintro ⟨c2, l2, h1, h2⟩
          simp only [PipeOut.ok.injEq] at h1
          obtain ⟨_, rfl⟩ := h1
          exact ⟨conds, last, rfl, hfire ▸ h2⟩
        · rintro ⟨c2, l2, h1, h2⟩
          simp only [PipeOut.ok.injEq] at h1
          obtain ⟨_, rfl⟩ := h1
          exact ⟨[], _, rfl, hfire.symm ▸ h2⟩
    by_cases hf : r.faulted p
    · rw [fnF_faulted_eq old r p e stale hf, fnF_faulted_eq old r.strip p e stale (hiff.mpr hf)]; rfl
    · rw [fnF_not_faulted_eq old r p e stale hf, fnF_not_faulted_eq old r.strip p e stale (fun h => hf (hiff.mp h))]
      exact fn_no_forge old r t ht

/-- With Compose failing anywhere: an XR is Ready=True after a function reconcile only if it was so
before, or the reconcile completed - no late failure was reached - and the last step's desired
state lets the XR be ready. -/
theorem fnF_ready_only_if (old : St) (r : FnRec) (f : Option (FnPoint × EC)) (stale : Bool) (hne : r.steps ≠ [])
    (h : statusOf (fnReconcileF old r f stale).1.conds "Ready" = some "True") :
    statusOf old.conds "Ready" = some "True" ∨
      ((∀ p e, f = some (p, e) → ¬ r.faulted p) ∧
       ∃ conds last, runPipe r.steps [] none = .ok conds (some last) ∧ r.publish = none ∧ r.lost = false ∧ last.mayReady) := by
  cases f with
  | none =>
    rw [fnF_no_fault] at h
    rcases fn_ready_only_if old r hne h with h1 | h1
    · left; exact h1
    · right; exact ⟨(by intro p e he; cases he), h1⟩
  | some pe =>
    obtain ⟨p, e⟩ := pe
    by_cases hf : r.faulted p
    · left
      rcases fnF_fault_never_overstates old r p e stale hf with h1 | h1
      · rw [h1] at h; exact h
      · rw [statusOf_eq, h1.2.1] at h; exact h
    · rw [fnF_not_faulted_eq old r p e stale hf] at h
      rcases fn_ready_only_if old r hne h with h1 | h1
      · left; exact h1
      · right
        refine ⟨?_, h1⟩
        intro p' e' he
        simp only [Option.some.injEq, Prod.mk.injEq] at he
        rw [← he.1]; exact hf

/-- The world around the conditions (resource references, live composed resources) never decides
WHAT a function reconcile stores, only whether a late failure's status update goes through: the
stored state and the write flag of a step of the XR world are those of `fnReconcileF` for some
value of `stale`. All the theorems above therefore hold for every step of every sequence. -/
theorem fnWorldStep_is_reconcileF (x : FnXR) (r : FnRec) (f : Option (FnPoint × EC)) :
    ∃ stale, ((fnWorldStep x r f).1.st, (fnWorldStep x r f).2) = fnReconcileF x.st r f stale := by
  unfold fnWorldStep
  cases hp : runPipe r.steps [] none with
  | error => exact ⟨false, rfl⟩
  | fatal c => exact ⟨false, rfl⟩
  | ok conds last =>
    simp only []
    refine ⟨!x.applied || !((((last.map (·.res)).getD []).map (·.name)).all (x.live.contains ·) &&
      x.refs.all ((((last.map (·.res)).getD []).map (·.name)).contains ·)), ?_⟩
    cases f with
    | none => rfl
    | some pe =>
      obtain ⟨p, e⟩ := pe
      cases p with
      | refs => rfl
      | apply => simp only []; split <;> rfl
      | statusPatch => rfl

/-! ### the deletion branch -/

/-- the deletion went through: connection details unpublished and the finalizer removed (or not
there any more / already gone with the object) -/
def DelCall.succeeds (c : DelCall) (fin : Bool) : Prop :=
  c.fault = none ∨ ∃ e, c.fault = some (.removeFinalizer, e) ∧ (fin = false ∨ e = .notFound)

/-- An XR being deleted is never SET Ready=True, whatever was stored and wherever the reconcile
fails: every status a (non-paused) reconcile of the deletion branch stores carries
Ready=False/Deleting - or, in the code as it is (`re = false`), on the one path where
RemoveFinalizer's Update went through, the Ready condition the XR had before. -/
theorem del_ready_deleting_or_left (re : Bool) (old : St) (fin : Bool) (c : DelCall) (hp : c.paused = false) (st : St)
    (h : reconcileDeleted re old fin c = some st) :
    findC st.conds "Ready" = some deleting ∨
      (re = false ∧ fin = true ∧ c.fault = none ∧ findC st.conds "Ready" = findC old.conds "Ready") := by
  have key : ∀ x : Cond, x.type = "Synced" →
      findC (setCond (setCond old.conds deleting) x) "Ready" = some deleting := by
    intro x hx
    rw [findC_setCond_ne _ _ _ (by rw [hx]; decide)]
    exact findC_setCond_self old.conds deleting
  unfold reconcileDeleted at h
  simp only [hp, Bool.false_eq_true, if_false] at h
  split at h
  · cases h
  · split at h
    · rw [Option.some.injEq] at h; subst h; left; exact key _ rfl
    · split at h
      · rw [Option.some.injEq] at h; subst h; left; exact key _ rfl
      · split at h
        · cases h
        · rw [Option.some.injEq] at h; subst h; left; exact key _ rfl
    · rename_i hf
      split at h
      · rename_i hc
        rw [Option.some.injEq] at h; subst h
        right
        simp only [Bool.and_eq_true, Bool.not_eq_true'] at hc
        exact ⟨hc.2, hc.1, hf, findC_setCond_ne _ _ _ (by decide)⟩
      · rw [Option.some.injEq] at h; subst h; left; exact key _ rfl

/-- With the Deleting condition set again after RemoveFinalizer (the proposed repair) an XR being
deleted is NEVER reported Ready=True: every status stored carries Ready=False/Deleting. -/
theorem del_ready_is_deleting (old : St) (fin : Bool) (c : DelCall) (hp : c.paused = false) (st : St)
    (h : reconcileDeleted true old fin c = some st) : findC st.conds "Ready" = some deleting := by
  rcases del_ready_deleting_or_left true old fin c hp st h with h1 | h1
  · exact h1
  · exact absurd h1.1 (by decide)

/-- THE UNCHANGED CODE KEEPS Ready=True ON AN XR BEING DELETED: the model of the existing deletion
branch on a concrete witness - a ready XR with a deletion timestamp, held by another finalizer,
UnpublishConnection and RemoveFinalizer succeed - stores Ready=True/Available and Synced=True
(monitor `C05:deleting-condition-lost-on-finalizer-removal`, corpus/C05/deleting-condition-lost.jsonl). -/
theorem deleting_condition_lost_fails_on_unfixed_witness :
    (reconcileDeleted false ⟨[⟨"Ready", "True", "Available"⟩], []⟩ true ⟨false, false, none, false⟩).map
      (fun st => (findC st.conds "Ready", statusOf st.conds "Synced")) =
      some (some ⟨"Ready", "True", "Available"⟩, some "True") := by
  decide

/-- ... and Synced=True iff the deletion went through. -/
theorem del_synced_true_iff (re : Bool) (old : St) (fin : Bool) (c : DelCall) (hp : c.paused = false) (st : St)
    (h : reconcileDeleted re old fin c = some st) :
    statusOf st.conds "Synced" = some "True" ↔ c.succeeds fin := by
  have ok : ∀ base : List Cond, statusOf (setCond base reconcileSuccess) "Synced" = some "True" :=
    fun base => statusOf_setCond_self base reconcileSuccess
  have bad : ∀ base : List Cond, statusOf (setCond base reconcileError) "Synced" = some "False" :=
    fun base => statusOf_setCond_self base reconcileError
  unfold reconcileDeleted at h
  unfold DelCall.succeeds
  simp only [hp, Bool.false_eq_true, if_false] at h
  split at h
  · cases h
  · cases hf : c.fault with
    | none =>
      simp only [hf] at h
      split at h <;> (rw [Option.some.injEq] at h; subst h; simp [ok])
    | some pe =>
      obtain ⟨p, e⟩ := pe
      cases p with
      | unpublish =>
        simp only [hf, Option.some.injEq] at h; subst h
        simp [bad]
      | removeFinalizer =>
        simp only [hf] at h
        split at h
        · rename_i hc
          rw [Option.some.injEq] at h; subst h
          simp only [ok, true_iff]
          right
          refine ⟨e, rfl, ?_⟩
          cases fin <;> cases e <;> simp_all
        · rename_i hc
          split at h
          · cases h
          · rw [Option.some.injEq] at h; subst h
            simp only [bad]
            constructor
            · intro hh; exact absurd hh (by decide)
            · rintro (hh | ⟨e', he', hh⟩)
              · cases hh
              · simp only [Option.some.injEq, Prod.mk.injEq, true_and] at he'
                subst he'
                cases fin <;> cases e <;> simp_all

/-- the deletion branch never touches a custom condition, and functions play no part in it -/
theorem del_custom_untouched (re : Bool) (old : St) (fin : Bool) (c : DelCall) (st : St)
    (h : reconcileDeleted re old fin c = some st) (t : String) (ht : t ≠ "Ready" ∧ t ≠ "Synced") :
    findC st.conds t = findC old.conds t ∧ st.claimTypes = old.claimTypes := by
  have one : ∀ x : Cond, x.type = "Synced" → findC (setCond old.conds x) t = findC old.conds t :=
    fun x hx => findC_setCond_ne _ _ _ (by rw [hx]; exact ht.2)
  have two : ∀ x : Cond, x.type = "Synced" →
      findC (setCond (setCond old.conds deleting) x) t = findC old.conds t := by
    intro x hx
    rw [findC_setCond_ne _ _ _ (by rw [hx]; exact ht.2)]
    exact findC_setCond_ne _ _ _ ht.1
  unfold reconcileDeleted at h
  split at h
  · cases h
  · split at h
    · rw [Option.some.injEq] at h; subst h; exact ⟨one _ rfl, rfl⟩
    · split at h
      · rw [Option.some.injEq] at h; subst h; exact ⟨two _ rfl, rfl⟩
      · split at h
        · rw [Option.some.injEq] at h; subst h; exact ⟨two _ rfl, rfl⟩
        · split at h
          · cases h
          · rw [Option.some.injEq] at h; subst h; exact ⟨two _ rfl, rfl⟩
      · split at h
        · rw [Option.some.injEq] at h; subst h; exact ⟨one _ rfl, rfl⟩
        · rw [Option.some.injEq] at h; subst h; exact ⟨two _ rfl, rfl⟩

theorem reconcileDeleted_ready_not_true (re : Bool) (old : St) (fin : Bool) (c : DelCall) (st : St)
    (h : reconcileDeleted re old fin c = some st) (h0 : statusOf old.conds "Ready" ≠ some "True") :
    statusOf st.conds "Ready" ≠ some "True" := by
  cases hp : c.paused with
  | true =>
    unfold reconcileDeleted at h
    simp only [hp, if_true] at h
    split at h
    · cases h
    · rw [Option.some.injEq] at h; subst h
      rw [statusOf_setCond_ne _ _ _ (by decide)]; exact h0
  | false =>
    rcases del_ready_deleting_or_left re old fin c hp st h with h1 | h1
    · rw [statusOf_eq, h1]; decide
    · rw [statusOf_eq, h1.2.2.2, ← statusOf_eq]; exact h0

theorem delStep_ready_not_true (re : Bool) (x : DelXR) (c : DelCall) (h0 : statusOf x.st.conds "Ready" ≠ some "True")
    (x' : DelXR) (h : (delStep re (some x) c).1 = some x') : statusOf x'.st.conds "Ready" ≠ some "True" := by
  unfold delStep at h
  simp only [] at h
  split at h
  · split at h
    · cases hr : reconcileDeleted re x.st x.fin c with
      | none => simp only [hr, Option.some.injEq] at h; subst h; exact h0
      | some st =>
        simp only [hr, Option.some.injEq] at h; subst h
        exact reconcileDeleted_ready_not_true re _ _ _ _ hr h0
    · cases h
  · cases hr : reconcileDeleted re x.st x.fin c with
    | none => simp only [hr, Option.some.injEq] at h; subst h; exact h0
    | some st =>
      simp only [hr, Option.some.injEq] at h; subst h
      exact reconcileDeleted_ready_not_true re _ _ _ _ hr h0

theorem delTrace_gone (re : Bool) (cs : List DelCall) : ∀ p ∈ delTrace re none cs, p.1 = none := by
  induction cs with
  | nil => intro p hp; simp [delTrace] at hp
  | cons c rest ih =>
    intro p hp
    simp only [delTrace, delStep, List.mem_cons] at hp
    rcases hp with rfl | hp
    · rfl
    · exact ih p hp

/-- Through ANY sequence of reconciles of an XR being deleted - paused or not, failing anywhere
with any class, losing status updates, with or without the repair: an XR that was not Ready=True
when its deletion began is never reported Ready=True again. -/
theorem del_trace_ready_never_becomes_true (re : Bool) (x : DelXR) (cs : List DelCall)
    (h0 : statusOf x.st.conds "Ready" ≠ some "True") :
    ∀ p ∈ delTrace re (some x) cs, ∀ st, p.1 = some st → statusOf st.conds "Ready" ≠ some "True" := by
  induction cs generalizing x with
  | nil => intro p hp; simp [delTrace] at hp
  | cons c rest ih =>
    intro p hp st hst
    simp only [delTrace, List.mem_cons] at hp
    rcases hp with rfl | hp
    · simp only [Option.map_eq_some_iff] at hst
      obtain ⟨x', hx', rfl⟩ := hst
      exact delStep_ready_not_true re x c h0 x' hx'
    · cases hx' : (delStep re (some x) c).1 with
      | none =>
        rw [hx'] at hp
        have := delTrace_gone re rest p hp
        rw [this] at hst; cases hst
      | some x' =>
        rw [hx'] at hp
        exact ih x' (delStep_ready_not_true re x c h0 x' hx') p hp st hst

/-- ... and with the repair, from the first status update that takes effect on: whatever the XR
reported when its deletion began, every non-paused reconcile that stores a status stores
Ready=False/Deleting. -/
theorem del_step_repaired_ready_is_deleting (x : DelXR) (c : DelCall) (hp : c.paused = false)
    (hw : (delStep true (some x) c).2 = true) :
    ∃ x', (delStep true (some x) c).1 = some x' ∧ findC x'.st.conds "Ready" = some deleting := by
  unfold delStep at hw ⊢
  simp only [] at hw ⊢
  split
  · rename_i hrm
    simp only [hrm, if_true] at hw
    split
    · rename_i hh
      simp only [hh, if_true] at hw
      cases hr : reconcileDeleted true x.st x.fin c with
      | none => simp [hr] at hw
      | some st => exact ⟨_, rfl, del_ready_is_deleting _ _ _ hp st hr⟩
    · rename_i hh
      simp [hh] at hw
  · rename_i hrm
    simp only [hrm, Bool.false_eq_true, if_false] at hw
    cases hr : reconcileDeleted true x.st x.fin c with
    | none => simp [hr] at hw
    | some st => exact ⟨_, rfl, del_ready_is_deleting _ _ _ hp st hr⟩

/-! ### the deletion branch of the claim reconcile -/

/-- A claim being deleted is never SET Ready=True: every status a (non-paused) reconcile of a claim
with a deletion timestamp stores carries Ready=False/Deleting, or leaves Ready as it was - when the
read of the XR failed (ReconcileError before the branch is entered) or, in the code as it is
(`re = false`), on the path where RemoveFinalizer's Update went through. -/
theorem cdel_ready_deleting_or_left (re : Bool) (w : CDelWorld) (c : CDelCall) (hp : c.paused = false) (cs : List Cond)
    (h : claimDeleted re w c = some cs) :
    findC cs "Ready" = some deleting ∨
      (findC cs "Ready" = findC w.conds "Ready" ∧ (c.xrReadFails w = true ∨ (re = false ∧ w.fin = true))) := by
  have key : ∀ x : Cond, x.type = "Synced" →
      findC (setCond (setCond w.conds deleting) x) "Ready" = some deleting := by
    intro x hx
    rw [findC_setCond_ne _ _ _ (by rw [hx]; decide)]
    exact findC_setCond_self w.conds deleting
  have done : findC (claimDelDone re w) "Ready" = some deleting ∨
      (findC (claimDelDone re w) "Ready" = findC w.conds "Ready" ∧ (c.xrReadFails w = true ∨ (re = false ∧ w.fin = true))) := by
    unfold claimDelDone
    split
    · rename_i hc
      simp only [Bool.and_eq_true, Bool.not_eq_true'] at hc
      right; exact ⟨findC_setCond_ne _ _ _ (by decide), Or.inr ⟨hc.2, hc.1⟩⟩
    · left; exact key _ rfl
  unfold claimDeleted at h
  simp only [hp, Bool.false_eq_true, if_false] at h
  split at h
  · cases h
  · split at h
    · rename_i hx
      rw [Option.some.injEq] at h; subst h
      right; exact ⟨findC_setCond_ne _ _ _ (by decide), Or.inl hx⟩
    · split at h
      · split at h
        · rw [Option.some.injEq] at h; subst h; left; exact key _ rfl
        · rw [Option.some.injEq] at h; subst h; exact done
      · rw [Option.some.injEq] at h; subst h; left; exact key _ rfl
      · split at h <;> (rw [Option.some.injEq] at h; subst h; left; exact key _ rfl)
      · rw [Option.some.injEq] at h; subst h; exact done

/-- A reconcile of a claim being deleted never reports Ready=True on its own account, with or
without the repair, whatever fails: Ready=True afterwards means Ready=True before. (The claim clause
of the property - Ready=True only by a reconcile that observed its XR Ready=True - is not weakened by
the deletion branch: it never produces Ready=True.) -/
theorem cdel_ready_true_only_if_before (re : Bool) (w : CDelWorld) (c : CDelCall) (cs : List Cond)
    (h : claimDeleted re w c = some cs) (ht : statusOf cs "Ready" = some "True") :
    statusOf w.conds "Ready" = some "True" := by
  cases hp : c.paused with
  | true =>
    unfold claimDeleted at h
    simp only [hp, if_true] at h
    split at h
    · cases h
    · rw [Option.some.injEq] at h; subst h
      rw [statusOf_setCond_ne _ _ _ (by decide)] at ht; exact ht
  | false =>
    rcases cdel_ready_deleting_or_left re w c hp cs h with h1 | h1
    · rw [statusOf_eq, h1] at ht; exact absurd ht (by decide)
    · rw [statusOf_eq, h1.1, ← statusOf_eq] at ht; exact ht

/-- With Deleting set again after RemoveFinalizer (the proposed repair) every status the deletion
branch proper stores - the XR could be read or does not exist - carries Ready=False/Deleting. -/
theorem cdel_ready_is_deleting (w : CDelWorld) (c : CDelCall) (hp : c.paused = false) (hx : c.xrReadFails w = false)
    (cs : List Cond) (h : claimDeleted true w c = some cs) : findC cs "Ready" = some deleting := by
  rcases cdel_ready_deleting_or_left true w c hp cs h with h1 | h1
  · exact h1
  · rcases h1.2 with h2 | h2
    · rw [hx] at h2; cases h2
    · exact absurd h2.1 (by decide)

/-- THE UNCHANGED CODE KEEPS Ready=True ON A CLAIM BEING DELETED: the model of the existing branch on
a concrete witness - a ready claim with a deletion timestamp, held by another finalizer, its XR
deleted, everything succeeds - stores Ready=True/Available and Synced=True (monitor
`C05:claim-deleting-condition-lost-on-finalizer-removal`, corpus/C05/deleting-condition-lost.jsonl). -/
theorem claim_deleting_condition_lost_fails_on_unfixed_witness :
    (claimDeleted false ⟨[⟨"Ready", "True", "Available"⟩], true, true, true⟩ ⟨false, false, none, none, false⟩).map
      (fun cs => (findC cs "Ready", statusOf cs "Synced")) =
      some (some ⟨"Ready", "True", "Available"⟩, some "True") := by
  decide

theorem cdelStep_ready_not_true (re : Bool) (w : CDelWorld) (c : CDelCall) (h0 : statusOf w.conds "Ready" ≠ some "True")
    (w' : CDelWorld) (h : (cdelStep re (some w) c).1 = some w') : statusOf w'.conds "Ready" ≠ some "True" := by
  unfold cdelStep at h
  simp only [] at h
  split at h
  · split at h
    · cases hr : claimDeleted re w c with
      | none => simp only [hr, Option.some.injEq] at h; subst h; exact h0
      | some cs =>
        simp only [hr, Option.some.injEq] at h; subst h
        exact fun ht => h0 (cdel_ready_true_only_if_before re w c cs hr ht)
    · cases h
  · cases hr : claimDeleted re w c with
    | none => simp only [hr, Option.some.injEq] at h; subst h; exact h0
    | some cs =>
      simp only [hr, Option.some.injEq] at h; subst h
      exact fun ht => h0 (cdel_ready_true_only_if_before re w c cs hr ht)

theorem cdelTrace_gone (re : Bool) (cs : List CDelCall) : ∀ p ∈ cdelTrace re none cs, p.1 = none := by
  induction cs with
  | nil => intro p hp; simp [cdelTrace] at hp
  | cons c rest ih =>
    intro p hp
    simp only [cdelTrace, cdelStep, List.mem_cons] at hp
    rcases hp with rfl | hp
    · rfl
    · exact ih p hp

/-- Through ANY sequence of reconciles of a claim being deleted: a claim that was not Ready=True
when its deletion began is never reported Ready=True again. -/
theorem cdel_trace_ready_never_becomes_true (re : Bool) (w : CDelWorld) (cs : List CDelCall)
    (h0 : statusOf w.conds "Ready" ≠ some "True") :
    ∀ p ∈ cdelTrace re (some w) cs, ∀ st, p.1 = some st → statusOf st "Ready" ≠ some "True" := by
  induction cs generalizing w with
  | nil => intro p hp; simp [cdelTrace] at hp
  | cons c rest ih =>
    intro p hp st hst
    simp only [cdelTrace, List.mem_cons] at hp
    rcases hp with rfl | hp
    · simp only [Option.map_eq_some_iff] at hst
      obtain ⟨w', hw', rfl⟩ := hst
      exact cdelStep_ready_not_true re w c h0 w' hw'
    · cases hw' : (cdelStep re (some w) c).1 with
      | none =>
        rw [hw'] at hp
        have := cdelTrace_gone re rest p hp
        rw [this] at hst; cases hst
      | some w' =>
        rw [hw'] at hp
        exact ih w' (cdelStep_ready_not_true re w c h0 w' hw') p hp st hst

/-! ### the models read the Go functions as they are (regenerated call skeletons) -/

/-- composite `Reconciler.Reconcile`: Get, pause branch, deletion branch, then per phase the call,
its conflict test where `Phase.conflictAware`, ReconcileError + status update; Compose's fatal tail;
StartWatches; PublishConnection; handleCommonCompositionResult, updateXRConditions, status update -/
theorem skeleton_reconcile : Xp.Gen.c05SkelReconcile = skelReconcile := by decide
theorem skeleton_update_xr_conditions : Xp.Gen.c05SkelUpdateXRConditions = skelUpdateXRConditions := by decide
theorem skeleton_handle_common : Xp.Gen.c05SkelHandleCommon = skelHandleCommon := by decide
theorem skeleton_fn_compose : Xp.Gen.c05SkelFnCompose = skelFnCompose := by decide
theorem skeleton_remove_system_conditions : Xp.Gen.c05SkelRemoveSystemConditions = skelRemoveSystemConditions := by decide
theorem skeleton_pt_compose : Xp.Gen.c05SkelPTCompose = skelPTCompose := by decide
theorem skeleton_is_ready : Xp.Gen.c05SkelIsReady = skelIsReady := by decide
theorem skeleton_check_is_ready : Xp.Gen.c05SkelCheckIsReady = skelCheckIsReady := by decide
theorem skeleton_check_validate : Xp.Gen.c05SkelCheckValidate = skelCheckValidate := by decide
theorem skeleton_check_from_v1 : Xp.Gen.c05SkelCheckFromV1 = skelCheckFromV1 := by decide
theorem skeleton_checks_from_template : Xp.Gen.c05SkelChecksFromTemplate = skelChecksFromTemplate := by decide
theorem skeleton_claim_reconcile : Xp.Gen.c05SkelClaimReconcile = skelClaimReconcile := by decide

/-- every phase the model knows is a call of `Reconcile`, and the conflict-aware ones are exactly
those followed by an IsConflict test in the source -/
theorem skeleton_phase_conflict_tests (p : Phase) (hp : p ≠ .get) :
    (p.skel.take 2 = [p.callName, "kerrors.IsConflict"]) ↔ p.conflictAware = true := by
  cases p <;> first | exact absurd rfl hp | decide

/-! ### non-vacuity -/
example : (reconcile ⟨[⟨"Ready", "False", "Creating"⟩], []⟩ [⟨"a", true, true⟩] none
    [⟨⟨"Ready", "True", "Forged"⟩, false⟩] .none).map (fun st => statusOf st.conds "Ready") = some (some "True") := by decide
example : (reconcile ⟨[], []⟩ [⟨"a", true, false⟩] none
    [⟨⟨"Ready", "True", "Forged"⟩, false⟩] .none).map (fun st => statusOf st.conds "Ready") = some (some "False") := by decide

/-- two XRs, one long-lived reconciler: XR 0 completes with everything ready, then XR 1 fails in
Compose with a wrapped AlreadyExists while its functions try to forge Ready=True -/
example : (runSeq [⟨[⟨"Ready", "False", "Creating"⟩], []⟩, ⟨[⟨"Ready", "False", "Creating"⟩], []⟩]
    [⟨0, ⟨false, [⟨"a", true, true⟩, ⟨"a", true, true⟩], none, [], none, false⟩⟩,
     ⟨1, ⟨false, [⟨"a", true, true⟩], some true, [⟨⟨"Ready", "True", "Forged"⟩, true⟩], some (.compose, .alreadyExists), false⟩⟩]).map
      (fun st => statusOf st.conds "Ready") = [some "True", some "False"] := by decide

/-- a claim reconcile overtaken by the XR controller (the XR turns unready between the read and the
server-side syncer's write): the claim waits -/
example : (claimCall [] ⟨true, some ⟨"example.org/v1", "Thing", "ns", "claim"⟩, ⟨[⟨"Ready", "True", "Available"⟩], []⟩⟩
    ⟨true, ⟨"example.org/v1", "Thing", "ns", "claim"⟩, false, false, some ⟨[⟨"Ready", "False", "Creating"⟩], []⟩, none⟩).map
      (fun cs => statusOf cs "Ready") = some (some "False") := by decide

/-- ... the client-side syncer's write conflicts instead, and nothing is written -/
example : claimCall [] ⟨true, some ⟨"example.org/v1", "Thing", "ns", "claim"⟩, ⟨[⟨"Ready", "True", "Available"⟩], []⟩⟩
    ⟨false, ⟨"example.org/v1", "Thing", "ns", "claim"⟩, false, false, some ⟨[⟨"Ready", "False", "Creating"⟩], []⟩, none⟩ = none := by decide

/-- the same claim name in another namespace is another claim -/
example : (claimCall [] ⟨true, some ⟨"example.org/v1", "Thing", "ns2", "claim"⟩, ⟨[⟨"Ready", "True", "Available"⟩], []⟩⟩
    ⟨true, ⟨"example.org/v1", "Thing", "ns", "claim"⟩, false, false, none, none⟩).map
      (fun cs => (statusOf cs "Ready", statusOf cs "Synced")) = some (none, some "False") := by decide

/-- a function that puts Ready=True into the desired XR status while its only resource is unready
and publishing fails: Ready stays as it was -/
example : statusOf (fnReconcile ⟨[⟨"Ready", "False", "Creating"⟩], []⟩
    ⟨[{ conds := [], fatal := false, err := false, res := [⟨"a", some false, false⟩], xrReady := none,
        statusConds := [⟨"Ready", "True", "InStatus"⟩, ⟨"Custom", "True", "InStatus"⟩] }], some .generic, false⟩).1.conds "Ready"
      = some "False" := by decide

/-- two readiness checks, the second one unmet -/
example : isReady ⟨.str "ok", .absent, .absent, []⟩
    [⟨"MatchString", "status.s", "ok", 0, false, "", ""⟩, ⟨"NonEmpty", "status.n", "", 0, false, "", ""⟩] = some false := by decide

/-- a P&T reconcile that completes: two templates, the second not rendered -/
example : (⟨[⟨"a", true, false, ⟨.str "ok", .absent, .absent, []⟩, [⟨"MatchString", "status.s", "ok", 0, false, "", ""⟩]⟩,
            ⟨"b", false, false, ⟨.absent, .absent, .absent, []⟩, []⟩], none, none, none, false⟩ : PTRec).completes
          [⟨"a", true, true⟩, ⟨"b", false, false⟩] := by decide

/-- a P&T reconcile that does not complete (a readiness check of an unknown type) -/
example : ∀ composed, ¬ (⟨[⟨"a", true, false, ⟨.absent, .absent, .absent, []⟩, [⟨"Bogus", "", "", 0, false, "", ""⟩]⟩],
            none, none, none, false⟩ : PTRec).completes composed := by
  intro composed h
  have e : ptObserve (⟨[⟨"a", true, false, ⟨.absent, .absent, .absent, []⟩, [⟨"Bogus", "", "", 0, false, "", ""⟩]⟩],
            none, none, none, false⟩ : PTRec).effRes = none := by decide
  have := h.2.1
  rw [e] at this
  cases this

/-- a late Compose failure that is reached: one step desiring one resource, its apply forbidden -/
example : (⟨[{ conds := [⟨⟨"Custom", "True", "Fn"⟩, false⟩], fatal := false, err := false, res := [⟨"a", some true, false⟩],
               xrReady := none, statusConds := [] }], none, false⟩ : FnRec).faulted .apply :=
  ⟨_, _, rfl, rfl⟩

example : statusOf (fnReconcileF ⟨[⟨"Custom", "True", "Old"⟩], []⟩
    ⟨[{ conds := [⟨⟨"Custom", "True", "Fn"⟩, false⟩], fatal := false, err := false, res := [⟨"a", some true, false⟩],
        xrReady := some true, statusConds := [] }], none, false⟩ (some (.apply, .forbidden)) false).1.conds "Custom" = some "Unknown" := by decide

/-- the same failure in the FIRST reconcile of the XR: the reference apply changed the XR, the
reconciler's status update conflicts, nothing is stored -/
example : (fnWorldStep ⟨⟨[⟨"Custom", "True", "Old"⟩], []⟩, [], [], false⟩
    ⟨[{ conds := [⟨⟨"Custom", "True", "Fn"⟩, false⟩], fatal := false, err := false, res := [⟨"a", some true, false⟩],
        xrReady := some true, statusConds := [] }], none, false⟩ (some (.apply, .forbidden))).2 = false := by decide

/-- deleting: unpublish fails, then everything goes through while another finalizer holds the XR -/
example : (delTrace true (some ⟨⟨[⟨"Ready", "True", "Available"⟩], []⟩, true, true⟩)
    [⟨false, false, some (.unpublish, .generic), false⟩, ⟨false, false, none, false⟩]).map
      (fun p => (p.1.map fun st => (statusOf st.conds "Ready", statusOf st.conds "Synced"), p.2)) =
    [(some (some "False", some "False"), true), (some (some "False", some "True"), true)] := by decide

/-- the code as it is: the same XR, everything going through at once - Ready=True is stored again;
the next reconcile (no finalizer left to remove) stores Deleting -/
example : (delTrace false (some ⟨⟨[⟨"Ready", "True", "Available"⟩], []⟩, true, true⟩)
    [⟨false, false, none, false⟩, ⟨false, false, none, false⟩]).map
      (fun p => (p.1.map fun st => (statusOf st.conds "Ready", statusOf st.conds "Synced"), p.2)) =
    [(some (some "True", some "True"), true), (some (some "False", some "True"), true)] := by decide

example : (⟨false, false, some (.removeFinalizer, .notFound), false⟩ : DelCall).succeeds true :=
  Or.inr ⟨_, rfl, Or.inr rfl⟩

/-- a claim being deleted, code as it is: the Delete of the XR is forbidden (ReconcileError, Deleting
stored), then everything goes through while another finalizer holds the claim (Deleting is still
there: it was stored), the third reconcile has no finalizer left to remove -/
example : (cdelTrace false (some ⟨[⟨"Ready", "True", "Available"⟩], true, true, true⟩)
    [⟨false, false, none, some (.deleteXR, .forbidden), false⟩, ⟨false, false, none, none, false⟩]).map
      (fun p => (p.1.map fun cs => (statusOf cs "Ready", statusOf cs "Synced"), p.2)) =
    [(some (some "False", some "False"), true), (some (some "False", some "True"), true)] := by decide

end Xp.C05

import Xp.Proofs.C08Trace
import Xp.Proofs.C08Live
import Xp.Proofs.C08Worlds
import Xp.Gen.C08Skel
/-
C08 — teardown happens in dependency order.

Two layers.

LOCAL theorems (`*_after_*`, `*_before_*`, `usage_waits_using`): about ONE reconcile
of one controller, for every server semantics `sm` (so also a server whose store is
changed by others between two calls), every fault plan (error, conflict, crash
before/after at any call index) and every start store: a teardown write is issued
only after the reconcile has itself seen the reply that licenses it.  `h` is the
history of (request, reply) pairs the reconcile had seen when it issued the request.

TRACE theorems (`trace_*`): about every configuration reachable in the interleaved
system `Sys` (any number of reconciles of the six controllers in flight, each taking
its next API call with any fault outcome, each read answered by the API server or by an
informer cache that lags behind by any number of steps, interleaved with user
deletions, third-party edits of claims / XRs / Usages, garbage collection steps,
third-party finalizer removals and process crashes): at the moment a controller's
teardown write is applied, the state-based ordering constraint holds.
The alphabet of the `trace_*` theorems contains the deletion branches only (no creation
of objects); the `trace_*_all` theorems add every creation (users, and the creating writes
of the live branches of the same reconcilers) and hold for every schedule outside the
windows of the recorded findings (`Calm`).  `WF st0` says that the resourceVersions of the
initial store were issued before the next one.

SKELETON theorems (`skeleton_*`): the Go functions the programs mirror still make exactly
the declared calls in the declared order (regenerated from the source on every run), and
the programs issue exactly the marked requests along their designated paths.
-/
namespace Xp.C08
open Xp.Gen

/-! ## local theorems: one faulty reconcile -/

/-- On every path of every modelled reconcile (every possible reply to every call),
each request is issued only when its guard holds of what was seen so far. -/
theorem every_path_guarded (c : Ctl) (n : String) : Always (guardH c n) [] (program c n) :=
  always_program c n

/-- The claim finalizer is removed only in a reconcile that read the claim and then read
its XR as NotFound (or the claim references none), or — policy not Foreground — had its
Delete(XR) acknowledged. With Foreground only the NotFound read counts. The removal is
issued under the resourceVersion of the claim as read (`rv = cm.rv`): if anybody edited
the claim since, it is rejected (`stale_write_not_applied`). -/
theorem claim_fin_after_xr (sm : Sem St Req Resp) (plan : Plan) (s : St) (n : String)
    (h : Hist) (k : Key) (rv : Nat)
    (hi : (h, Req.removeFin k rv c08ClaimFinalizer) ∈ issued sm plan 0 [] (claimRec n) s) :
    ∃ cm, (Req.get ⟨.claim, n⟩, Resp.obj cm) ∈ h ∧ rv = cm.rv ∧
      (cm.ref = "" ∨ (Req.get ⟨.xr, cm.ref⟩, Resp.notFound) ∈ h ∨
        (cm.flag = false ∧ ((Req.delete ⟨.xr, cm.ref⟩ false, Resp.ok) ∈ h ∨
                            (Req.delete ⟨.xr, cm.ref⟩ false, Resp.notFound) ∈ h))) :=
  (always_issued sm plan _ 0 [] _ s (always_claimRec n) _ hi rfl).2

/-- The definition controller deletes a CRD only after, in the same reconcile and in this
order, List(XR) returned no instance and engine.Stop(composite controller) returned nil. -/
theorem crd_after_instances_and_stop (sm : Sem St Req Resp) (plan : Plan) (s : St) (n : String)
    (h : Hist) (crd : String) (fg : Bool)
    (hi : (h, Req.delete ⟨.crd, crd⟩ fg) ∈ issued sm plan 0 [] (definedRec n) s) :
    Before h (Req.list .xr, Resp.list []) (Req.stop (compositeCtrl n), Resp.ok) :=
  always_issued sm plan _ 0 [] _ s (always_definedRec n) _ hi rfl

/-- The offered controller deletes a CRD only after, in the same reconcile and in this
order, List(claims) returned no instance and engine.Stop(claim controller) returned nil. -/
theorem crd_after_instances_and_stop_offered (sm : Sem St Req Resp) (plan : Plan) (s : St) (n : String)
    (h : Hist) (crd : String) (fg : Bool)
    (hi : (h, Req.delete ⟨.crd, crd⟩ fg) ∈ issued sm plan 0 [] (offeredRec n) s) :
    Before h (Req.list .claim, Resp.list []) (Req.stop (claimCtrl n), Resp.ok) :=
  always_issued sm plan _ 0 [] _ s (always_offeredRec n) _ hi rfl

/-- engine.Stop is only ever asked for this XRD's composite controller, and — unless the
reconcile read the CRD as NotFound or as not controlled by this XRD — only after
List(XR) returned no instance. -/
theorem stop_after_instances (sm : Sem St Req Resp) (plan : Plan) (s : St) (n : String)
    (h : Hist) (ctl : String)
    (hi : (h, Req.stop ctl) ∈ issued sm plan 0 [] (definedRec n) s) :
    ctl = compositeCtrl n ∧ ∃ d, (Req.get ⟨.xrd, n⟩, Resp.obj d) ∈ h ∧
      (CRDNotOursSeen h d.ref d.uid ∨ (Req.list .xr, Resp.list []) ∈ h) :=
  always_issued sm plan _ 0 [] _ s (always_definedRec n) _ hi

theorem stop_after_instances_offered (sm : Sem St Req Resp) (plan : Plan) (s : St) (n : String)
    (h : Hist) (ctl : String)
    (hi : (h, Req.stop ctl) ∈ issued sm plan 0 [] (offeredRec n) s) :
    ctl = claimCtrl n ∧ ∃ d, (Req.get ⟨.xrd, n⟩, Resp.obj d) ∈ h ∧
      (CRDNotOursSeen h d.of d.uid ∨ (Req.list .claim, Resp.list []) ∈ h) :=
  always_issued sm plan _ 0 [] _ s (always_offeredRec n) _ hi

/-- The XRD's `defined` finalizer is removed only in a reconcile that read the composite
CRD as NotFound or as not controlled by this XRD. -/
theorem xrd_fin_after_crd (sm : Sem St Req Resp) (plan : Plan) (s : St) (n : String)
    (h : Hist) (k : Key) (rv : Nat)
    (hi : (h, Req.removeFin k rv c08DefinedFinalizer) ∈ issued sm plan 0 [] (definedRec n) s) :
    ∃ d, (Req.get ⟨.xrd, n⟩, Resp.obj d) ∈ h ∧ CRDNotOursSeen h d.ref d.uid :=
  (always_issued sm plan _ 0 [] _ s (always_definedRec n) _ hi rfl).2

theorem xrd_fin_after_crd_offered (sm : Sem St Req Resp) (plan : Plan) (s : St) (n : String)
    (h : Hist) (k : Key) (rv : Nat)
    (hi : (h, Req.removeFin k rv c08OfferedFinalizer) ∈ issued sm plan 0 [] (offeredRec n) s) :
    ∃ d, (Req.get ⟨.xrd, n⟩, Resp.obj d) ∈ h ∧ CRDNotOursSeen h d.of d.uid :=
  (always_issued sm plan _ 0 [] _ s (always_offeredRec n) _ hi rfl).2

/-- A deleted package revision removes its finalizer only in a reconcile that saw that it
is not in the Lock: the Lock was NotFound, or was read without it, or the update that
removes it was acknowledged. This holds whatever revision object the reconcile read — in
particular for every value of `spec.desiredState` (`inactive`) and
`spec.skipDependencyResolution` (`skipDeps`): the licence comes from the Lock, never from
the revision's own spec. -/
theorem rev_lock_before_fin (sm : Sem St Req Resp) (plan : Plan) (s : St) (n : String)
    (h : Hist) (k : Key) (rv : Nat)
    (hi : (h, Req.removeFin k rv c08RevisionFinalizer) ∈ issued sm plan 0 [] (revRec n) s) :
    (Req.get lockKey, Resp.notFound) ∈ h ∨ (∃ l, (Req.get lockKey, Resp.obj l) ∈ h ∧ n ∉ l.pkgs) ∨
      ∃ rv' l, (Req.lockRemove rv' n, Resp.obj l) ∈ h :=
  (always_issued sm plan _ 0 [] _ s (always_revRec n) _ hi rfl).2

/-- The deletion branch of the revision reconciler does not depend on the revision's
`desiredState` / `skipDependencyResolution`: after reading the revision it continues in
exactly the same way whatever those two fields are. -/
theorem rev_deletion_ignores_spec (n : String) (pr : Obj) (a b : Bool) :
    ∃ f, revRec n = .call (.get ⟨.rev, n⟩) f ∧
      f (.obj { pr with inactive := a, skipDeps := b }) = f (.obj pr) :=
  ⟨_, rfl, rfl⟩

/-- The claim reconciler looks its XR up by NAME: after reading the claim it continues in
exactly the same way whatever API version, group or kind `spec.resourceRef` carries
(`refVer`: the same as the controller's XR kind, another version of it — the XRD's
referenceable version changed since the reference was written —, or another kind).  A claim
whose reference is stale in that sense still deletes its XR before it is finalized
(`claim_fin_after_xr` quantifies over every claim object, hence over every `refVer`). -/
theorem claim_lookup_ignores_ref_version (n : String) (cm : Obj) (v : String) :
    ∃ f, claimRec n = .call (.get ⟨.claim, n⟩) f ∧ f (.obj { cm with refVer := v }) = f (.obj cm) :=
  ⟨_, rfl, rfl⟩

/-- a claim with a stale reference version is torn down like any other: XR deleted, then finalized -/
example : (let w : St := { claimWorld false with objs := (claimWorld false).objs.map fun o => { o with refVer := "old" } }
    let s := reach w [.spawn .claim "ns/c", .step 0 .ok, .step 0 .ok, .step 0 .ok, .step 0 .ok]
    ((find s.st ⟨.claim, "ns/c"⟩).isNone, (find s.st ⟨.xr, "x"⟩).map (·.del))) = (true, some true) := by decide

/-- A Usage that is part of a composition (carries the composite label and names a using
resource) removes its finalizer only in a reconcile that read the using resource — the
object of exactly the API group, kind and name `spec.by` gives — as NotFound, and under
the resourceVersion of the Usage as read. -/
theorem usage_waits_using (sm : Sem St Req Resp) (plan : Plan) (s : St) (n : String)
    (h : Hist) (k : Key) (rv : Nat)
    (hi : (h, Req.removeFin k rv c08UsageFinalizer) ∈ issued sm plan 0 [] (usageRec n) s) :
    ∃ u, (Req.get ⟨.usage, n⟩, Resp.obj u) ∈ h ∧ rv = u.rv ∧
      (u.ref = "" ∨ u.flag = false ∨ (Req.get ⟨u.refKind, u.ref⟩, Resp.notFound) ∈ h) :=
  (always_issued sm plan _ 0 [] _ s (always_usageRec n) _ hi rfl).2

/-- A write that carries the resourceVersion of a copy read earlier (finalizer removal,
status update, Lock update, label removal) is not applied when the stored object has
another resourceVersion: the store is unchanged and the reply is Conflict. -/
theorem stale_write_not_applied (s : St) (k : Key) (rv : Nat) (f : Obj → Obj) (o : Obj)
    (ho : find s k = some o) (hrv : o.rv ≠ rv) : withObj s k rv f = (s, .conflict) := by
  simp [withObj, ho, hrv]

/-! ## regenerated facts: the modelled Go functions still have the modelled call skeleton

`Xp.Gen.c08Skel…` is extracted from the current source tree by go/ast on every check run;
`skel…` is declared in Xp/Model/C08.lean next to the programs, one entry per call with the
model step that mirrors it.  `skeleton_X`: the Go function has exactly the declared calls
in the declared order.  `skeleton_X_pathI`: the requests the model's program issues along
its designated path I are exactly the declared entries marked with that path, in source
order — the declared skeleton is a function of the `Prog` tree on those paths. -/

theorem skeleton_claim : Xp.Gen.c08SkelClaim = calls skelClaim := by decide
theorem skeleton_xr : Xp.Gen.c08SkelXR = calls skelXR := by decide
theorem skeleton_defined : Xp.Gen.c08SkelDefined = calls skelDefined := by decide
theorem skeleton_offered : Xp.Gen.c08SkelOffered = calls skelOffered := by decide
theorem skeleton_revision : Xp.Gen.c08SkelRevision = calls skelRevision := by decide
theorem skeleton_remove_self : Xp.Gen.c08SkelRemoveSelf = calls skelRemoveSelf := by decide
theorem skeleton_resolve : Xp.Gen.c08SkelResolve = calls skelResolve := by decide
theorem skeleton_usage : Xp.Gen.c08SkelUsage = calls skelUsage := by decide
theorem skeleton_sel_resolve : Xp.Gen.c08SkelSelResolve = calls skelSelResolve := by decide
theorem skeleton_sel_resolve_one : Xp.Gen.c08SkelSelResolveOne = calls skelSelResolveOne := by decide
theorem skeleton_engine_stop : Xp.Gen.c08SkelEngineStop = calls skelEngineStop := by decide
theorem skeleton_engine_start : Xp.Gen.c08SkelEngineStart = calls skelEngineStart := by decide

/-- claim, Background with a bound XR: Get, Get(XR), Delete(XR), RemoveFinalizer, Status().Update;
Foreground with a terminating XR: Get, Get(XR), Status().Update -/
theorem skeleton_claim_paths :
    pathTags (claimRec "n") claimPaths 0 = onPath 0 skelClaim ∧
    pathTags (claimRec "n") claimPaths 1 = onPath 1 skelClaim := by decide

theorem skeleton_xr_paths :
    pathTags (xrRec "n") xrPaths 0 = onPath 0 skelXR ∧ pathTags (xrRec "n") xrPaths 1 = onPath 1 skelXR := by decide

/-- definition, CRD ours and no XR left: Get, Status().Update, Get(CRD), DeleteAllOf, List,
Stop, Delete(CRD); CRD gone: Get, Status().Update, Get(CRD), Stop, RemoveFinalizer -/
theorem skeleton_defined_paths :
    pathTags (definedRec "n") definedPaths 0 = onPath 0 skelDefined ∧
    pathTags (definedRec "n") definedPaths 1 = onPath 1 skelDefined := by decide

theorem skeleton_offered_paths :
    pathTags (offeredRec "n") offeredPaths 0 = onPath 0 skelOffered ∧
    pathTags (offeredRec "n") offeredPaths 1 = onPath 1 skelOffered ∧
    pathTags (offeredRec "n") offeredPaths 2 = onPath 2 skelOffered := by decide

/-- revision: Get, cache.Delete, [RemoveSelf: Get(Lock), Update(Lock)], RemoveFinalizer -/
theorem skeleton_revision_paths :
    pathTags (revRec "n") revPaths 0 =
      (onPath 0 skelRevision).flatMap (fun t => if t = "RemoveSelf" then onPath 0 skelRemoveSelf else [t]) := by decide

theorem skeleton_usage_paths :
    pathTags (usageRec "n") usagePaths 0 = onPath 0 skelUsage ∧
    pathTags (usageRec "n") usagePaths 1 = onPath 1 skelUsage ∧
    pathTags (usageRec "n") usagePaths 2 = onPath 2 skelUsage ∧
    pathTags (usageRec "n") usagePaths 2 = ["get"] ++ onPath 2 skelSelResolve ∧
    onPath 2 skelSelResolve = onPath 2 skelSelResolveOne := by decide

/-- the designated paths are real: each one ends in a teardown write or a wait -/
example : pathTags (definedRec "n") definedPaths 0 = ["get", "setStatus", "get", "deleteAll", "list", "stop", "delete"] ∧
    pathTags (claimRec "n") claimPaths 0 = ["get", "get", "delete", "removeFin", "setStatus"] ∧
    pathTags (revRec "n") revPaths 0 = ["get", "cacheDelete", "get", "lockRemove", "removeFin"] ∧
    pathTags (usageRec "n") usagePaths 0 = ["get", "get", "get", "listUsagesOf", "unlabel", "removeFin"] := by decide

/-! ## trace theorems: every interleaving -/

/- `reach st0 acts` is the configuration reached from store `st0` with no reconcile in
flight by schedule `acts`; `NoCreate acts` says the schedule has no creation step (both in
Xp.Model.C08). -/

/-- General form: in every reachable configuration the next request of every in-flight
reconcile satisfies `safeReq` in the current store. -/
theorem trace_order (st0 : St) (hw : WF st0) (acts : List Act) (hn : NoCreate acts) (t : Thread) (r : Req) (k : Resp → P)
    (ht : t ∈ (reach st0 acts).ths) (hp : t.prog = .call r k) :
    safeReq (reach st0 acts).st t.ctl t.name r = true :=
  safe_reachable st0 hw acts hn t r k ht hp

/-- What a lagging informer cache can show: every store in `past` of a reachable
configuration is an earlier store of the same run, i.e. the current store is a teardown
successor of it (nothing was created, no deletionTimestamp unset, no controller started,
the Lock only lost packages since). This is why a decision taken on a stale read is still
right when the write it licenses is applied. -/
theorem lagged_reads_show_earlier_stores (st0 : St) (hw : WF st0) (acts : List Act) (hn : NoCreate acts) :
    ∀ p ∈ (reach st0 acts).past, Le p (reach st0 acts).st :=
  past_le_reachable st0 hw acts hn

/-- When a claim reconcile is about to remove the claim finalizer and the removal will be
applied (the stored claim still has the resourceVersion the request carries), the XR the
stored claim references — by its CURRENT `spec.resourceRef`, under its CURRENT delete
policy — is gone, or — policy not Foreground — is already being deleted. -/
theorem trace_claim_fin_after_xr (st0 : St) (hw : WF st0) (acts : List Act) (hn : NoCreate acts) (t : Thread) (kk : Key) (rv : Nat) (k : Resp → P)
    (ht : t ∈ (reach st0 acts).ths) (hc : t.ctl = .claim)
    (hp : t.prog = .call (.removeFin kk rv c08ClaimFinalizer) k)
    (cm : Obj) (hcm : find (reach st0 acts).st kk = some cm) (hrv : cm.rv = rv) (href : cm.ref ≠ "")
    (x : Obj) (hx : find (reach st0 acts).st ⟨.xr, cm.ref⟩ = some x) :
    x.del = true ∧ cm.flag = false := by
  have := trace_order st0 hw acts hn t _ k ht hp
  rw [hc] at this
  simp only [safeReq, hcm, claimXRGone, hx] at this
  simpa [href, hrv] using this

/-- When the definition reconcile of XRD `n` is about to delete a CRD, no XR exists and
the composite controller of `n` is not running. -/
theorem trace_crd_after_instances_and_stop (st0 : St) (hw : WF st0) (acts : List Act) (hn : NoCreate acts) (t : Thread) (crd : String) (fg : Bool) (k : Resp → P)
    (ht : t ∈ (reach st0 acts).ths) (hc : t.ctl = .defined)
    (hp : t.prog = .call (.delete ⟨.crd, crd⟩ fg) k) :
    (∀ o ∈ (reach st0 acts).st.objs, o.key.kind ≠ .xr) ∧ compositeCtrl t.name ∉ (reach st0 acts).st.running := by
  have := trace_order st0 hw acts hn t _ k ht hp
  rw [hc] at this
  simp only [safeReq, noneOf, bne_self_eq_false, Bool.false_or, Bool.and_eq_true, List.all_eq_true,
    Bool.not_eq_true'] at this
  refine ⟨fun o ho => by simpa using this.1 o ho, ?_⟩
  simpa using this.2

theorem trace_crd_after_instances_and_stop_offered (st0 : St) (hw : WF st0) (acts : List Act) (hn : NoCreate acts) (t : Thread) (crd : String) (fg : Bool) (k : Resp → P)
    (ht : t ∈ (reach st0 acts).ths) (hc : t.ctl = .offered)
    (hp : t.prog = .call (.delete ⟨.crd, crd⟩ fg) k) :
    (∀ o ∈ (reach st0 acts).st.objs, o.key.kind ≠ .claim) ∧ claimCtrl t.name ∉ (reach st0 acts).st.running := by
  have := trace_order st0 hw acts hn t _ k ht hp
  rw [hc] at this
  simp only [safeReq, noneOf, bne_self_eq_false, Bool.false_or, Bool.and_eq_true, List.all_eq_true,
    Bool.not_eq_true'] at this
  refine ⟨fun o ho => by simpa using this.1 o ho, ?_⟩
  simpa using this.2

/-- When the definition reconcile is about to stop the composite controller while the
XRD still exists, either the CRD is gone or not controlled by the XRD ("never ours"), or
no XR exists. -/
theorem trace_stop_after_instances (st0 : St) (hw : WF st0) (acts : List Act) (hn : NoCreate acts) (t : Thread) (ctl : String) (k : Resp → P)
    (ht : t ∈ (reach st0 acts).ths) (hc : t.ctl = .defined) (hp : t.prog = .call (.stop ctl) k)
    (d : Obj) (hd : find (reach st0 acts).st ⟨.xrd, t.name⟩ = some d) :
    crdNotOurs (reach st0 acts).st d.ref d.uid = true ∨ ∀ o ∈ (reach st0 acts).st.objs, o.key.kind ≠ .xr := by
  have := trace_order st0 hw acts hn t _ k ht hp
  rw [hc] at this
  simp only [safeReq, hd, Bool.or_eq_true] at this
  rcases this with h | h
  · exact .inl h
  · right
    simp only [noneOf, List.all_eq_true] at h
    exact fun o ho => by simpa using h o ho

theorem trace_stop_after_instances_offered (st0 : St) (hw : WF st0) (acts : List Act) (hn : NoCreate acts) (t : Thread) (ctl : String) (k : Resp → P)
    (ht : t ∈ (reach st0 acts).ths) (hc : t.ctl = .offered) (hp : t.prog = .call (.stop ctl) k)
    (d : Obj) (hd : find (reach st0 acts).st ⟨.xrd, t.name⟩ = some d) :
    crdNotOurs (reach st0 acts).st d.of d.uid = true ∨ ∀ o ∈ (reach st0 acts).st.objs, o.key.kind ≠ .claim := by
  have := trace_order st0 hw acts hn t _ k ht hp
  rw [hc] at this
  simp only [safeReq, hd, Bool.or_eq_true] at this
  rcases this with h | h
  · exact .inl h
  · right
    simp only [noneOf, List.all_eq_true] at h
    exact fun o ho => by simpa using h o ho

/-- When an XRD finalizer is about to be removed, the corresponding CRD is gone or not
controlled by the stored XRD. -/
theorem trace_xrd_fin_after_crd (st0 : St) (hw : WF st0) (acts : List Act) (hn : NoCreate acts) (t : Thread) (kk : Key) (rv : Nat) (k : Resp → P)
    (ht : t ∈ (reach st0 acts).ths) (hc : t.ctl = .defined)
    (hp : t.prog = .call (.removeFin kk rv c08DefinedFinalizer) k)
    (d : Obj) (hd : find (reach st0 acts).st kk = some d) :
    crdNotOurs (reach st0 acts).st d.ref d.uid = true := by
  have := trace_order st0 hw acts hn t _ k ht hp
  rw [hc] at this
  simpa [safeReq, hd] using this

theorem trace_xrd_fin_after_crd_offered (st0 : St) (hw : WF st0) (acts : List Act) (hn : NoCreate acts) (t : Thread) (kk : Key) (rv : Nat) (k : Resp → P)
    (ht : t ∈ (reach st0 acts).ths) (hc : t.ctl = .offered)
    (hp : t.prog = .call (.removeFin kk rv c08OfferedFinalizer) k)
    (d : Obj) (hd : find (reach st0 acts).st kk = some d) :
    crdNotOurs (reach st0 acts).st d.of d.uid = true := by
  have := trace_order st0 hw acts hn t _ k ht hp
  rw [hc] at this
  simpa [safeReq, hd] using this

/-- When a revision's finalizer is about to be removed, the Lock (if any) does not list it. -/
theorem trace_rev_lock_before_fin (st0 : St) (hw : WF st0) (acts : List Act) (hn : NoCreate acts) (t : Thread) (kk : Key) (rv : Nat) (k : Resp → P)
    (ht : t ∈ (reach st0 acts).ths) (hc : t.ctl = .rev)
    (hp : t.prog = .call (.removeFin kk rv c08RevisionFinalizer) k)
    (l : Obj) (hl : find (reach st0 acts).st lockKey = some l) : kk.name ∉ l.pkgs := by
  have := trace_order st0 hw acts hn t _ k ht hp
  rw [hc] at this
  simpa [safeReq, hl] using this

/-- When the finalizer of a composed Usage that names a using resource is about to be
removed and the removal will be applied, that using resource (of the API group and kind
the stored Usage names) is gone. -/
theorem trace_usage_waits_using (st0 : St) (hw : WF st0) (acts : List Act) (hn : NoCreate acts) (t : Thread) (kk : Key) (rv : Nat) (k : Resp → P)
    (ht : t ∈ (reach st0 acts).ths) (hc : t.ctl = .usage)
    (hp : t.prog = .call (.removeFin kk rv c08UsageFinalizer) k)
    (u : Obj) (hu : find (reach st0 acts).st kk = some u) (hrv : u.rv = rv) (hf : u.flag = true) (hr : u.ref ≠ "") :
    find (reach st0 acts).st ⟨u.refKind, u.ref⟩ = none := by
  have := trace_order st0 hw acts hn t _ k ht hp
  rw [hc] at this
  simp only [safeReq, hu, present, hf] at this
  cases hfd : find (reach st0 acts).st ⟨u.refKind, u.ref⟩ with
  | none => rfl
  | some o => simp [hfd, hr, hrv] at this

/-! ## every schedule, creations included, minus the windows

The live (not deleted) branches of the same `Reconcile` functions create things: a live
claim creates / binds its XR (`Live.syncXR`), a live XRD applies its CRD and starts its
controller (`Live.applyCRD`, `Live.start`), a live revision adds itself to the Lock
(`Live.lockAdd`), every live object gets its finalizer (`Live.addFin`), a live Usage its
owner reference and the used resource its label (`Live.usageOwn`, `Live.usageLabel`); users
create anything (`Act.create`).  These steps are part of the alphabet below, at any moment.
`Calm` (Xp/Model/C08.lean) excludes exactly this: a creating step taken while an in-flight
reconcile holds a fact its births threaten (`Birth.threatens`: an object appearing under a
key read as NotFound / a kind listed as empty; a controller started after it was stopped;
the owner references of a CRD read as "not ours" replaced; a package added to a Lock read
without it), and a read answered from a cache older than such a birth.  Those are the
windows of the recorded findings and their analogues; everything else is inside. -/

/-- General form for ALL schedules: in every configuration reachable by any schedule that
stays outside the windows — creations by users and creating writes of the live branches
included — the next request of every in-flight reconcile satisfies `safeReq`. -/
theorem trace_order_all (st0 : St) (hw : WF st0) (acts : List Act) (hc : Calm { st := st0, ths := [] } acts)
    (t : Thread) (r : Req) (k : Resp → P)
    (ht : t ∈ (reach st0 acts).ths) (hp : t.prog = .call r k) :
    safeReq (reach st0 acts).st t.ctl t.name r = true :=
  safe_calm st0 hw acts hc t r k ht hp

/-- `trace_order_all` generalises `trace_order`: a creation-free schedule is calm. -/
theorem creation_free_is_calm (st0 : St) (acts : List Act) (hn : NoCreate acts) : Calm { st := st0, ths := [] } acts :=
  calm_of_noCreate _ (by intro bs hbs; cases hbs) acts hn

/-- Adding a finalizer and labelling the used resource bring nothing into the world that any
fact is about: these live steps are calm wherever a schedule takes them. -/
theorem finalizer_and_label_steps_always_calm (s : Sys) (l : Live)
    (hl : (∃ k fin, l = .addFin k fin) ∨ (∃ u, l = .usageLabel u) ∨ (∃ k cs, l = .status k cs)) : s.calm (.live l) := by
  have hb : (Act.live l).births s = [] := by
    rcases hl with ⟨k, fin, rfl⟩ | ⟨u, rfl⟩ | ⟨k, cs, rfl⟩ <;> rfl
  refine ⟨?_, fun i j h => by cases h⟩
  intro t _ _ f _ b hbm; rw [hb] at hbm; cases hbm

/-- What ONE whole live reconcile (`liveActs`) can bring into the world, per controller: a
live claim only an XR; a live XRD (either controller) only a CRD (new, or with replaced owner
references) and its own controller; a live revision only the Lock and itself in it; a live
Usage only an owner reference on itself; the XR reconciler nothing.  Hence the only windows
a live reconcile can open are about exactly these (`Birth.threatens`), whatever the store. -/
theorem live_reconcile_births (s : St) (c : Ctl) (n : String) (l : Live) (hl : l ∈ liveActs s c n)
    (st : St) (b : Birth) (hb : b ∈ l.births st) :
    match c with
    | .claim => ∃ x, b = .obj ⟨.xr, x⟩
    | .xr => False
    | .defined => (∃ k : Key, k.kind = .crd ∧ (b = .obj k ∨ b = .owners k)) ∨ b = .start (ctrlOf n false)
    | .offered => (∃ k : Key, k.kind = .crd ∧ (b = .obj k ∨ b = .owners k)) ∨ b = .start (ctrlOf n true)
    | .rev => b = .obj lockKey ∨ b = .lock n
    | .usage => b = .owners ⟨.usage, n⟩ := by
  cases c <;> exact births_of _ n l (liveActs_of s _ n l hl) st b hb

/-- the live reconciles do create things (claim: its XR; revision: its Lock entry) -/
example : (liveActs (claimWorld false) .claim "ns/c").length = 3 ∧
    (let s := reach { missWorld with objs := missWorld.objs.map fun o => { o with del := false } } [.live (.addFin ⟨.claim, "ns/c"⟩ c08ClaimFinalizer), .live (.syncXR "ns/c" "x")]
     (find s.st ⟨.xr, "x"⟩).map (·.ref)) = some "ns/c" ∧
    (let s := reach revWorld [.live (.lockAdd "p3")]; (find s.st lockKey).map (·.pkgs)) = some ["p1", "p2", "p3"] := by decide

/-- A creating step threatens only the facts about what it creates: a live claim creating
XR `x` is calm unless an in-flight reconcile has read `x` as NotFound / had Delete(`x`)
acknowledged / read `x` itself / listed the XRs as empty. -/
theorem sync_xr_window (s : Sys) (c x : String)
    (h : ∀ t ∈ s.ths, t.inFlight = true → ∀ f ∈ facts t.hist,
      f ≠ .gone ⟨.xr, x⟩ ∧ f ≠ .goneOrDel ⟨.xr, x⟩ ∧ f ≠ .noneOf .xr ∧ (∀ a, f ≠ .immut ⟨.xr, x⟩ a)) :
    s.calm (.live (.syncXR c x)) := by
  refine ⟨?_, fun i j h => by cases h⟩
  intro t ht hfl f hf b hbm
  simp only [Act.births, Live.births, List.mem_singleton] at hbm
  subst hbm
  obtain ⟨h1, h2, h3, h4⟩ := h t ht hfl f hf
  cases f with
  | gone k => simp only [Birth.threatens, decide_eq_false_iff_not]; intro e; exact h1 (by rw [e])
  | goneOrDel k => simp only [Birth.threatens, decide_eq_false_iff_not]; intro e; exact h2 (by rw [e])
  | noneOf kd => simp only [Birth.threatens, decide_eq_false_iff_not]; intro e; exact h3 (by rw [← e])
  | immut k a => simp only [Birth.threatens, decide_eq_false_iff_not]; intro e; exact h4 a (by rw [e])
  | stopped c => rfl
  | pkgsSub ps => simp [Birth.threatens, lockKey]
  | notInLock n => simp [Birth.threatens, lockKey]

/-- the six readings of `trace_order_all` (same statements as the `trace_*` theorems below,
for every calm schedule) -/
theorem trace_claim_fin_after_xr_all (st0 : St) (hw : WF st0) (acts : List Act) (hc : Calm { st := st0, ths := [] } acts)
    (t : Thread) (kk : Key) (rv : Nat) (k : Resp → P)
    (ht : t ∈ (reach st0 acts).ths) (hct : t.ctl = .claim)
    (hp : t.prog = .call (.removeFin kk rv c08ClaimFinalizer) k)
    (cm : Obj) (hcm : find (reach st0 acts).st kk = some cm) (hrv : cm.rv = rv) (href : cm.ref ≠ "")
    (x : Obj) (hx : find (reach st0 acts).st ⟨.xr, cm.ref⟩ = some x) :
    x.del = true ∧ cm.flag = false := by
  have := trace_order_all st0 hw acts hc t _ k ht hp
  rw [hct] at this
  simp only [safeReq, hcm, claimXRGone, hx] at this
  simpa [href, hrv] using this

theorem trace_crd_after_instances_and_stop_all (st0 : St) (hw : WF st0) (acts : List Act) (hc : Calm { st := st0, ths := [] } acts)
    (t : Thread) (crd : String) (fg : Bool) (k : Resp → P)
    (ht : t ∈ (reach st0 acts).ths) (hct : t.ctl = .defined)
    (hp : t.prog = .call (.delete ⟨.crd, crd⟩ fg) k) :
    (∀ o ∈ (reach st0 acts).st.objs, o.key.kind ≠ .xr) ∧ compositeCtrl t.name ∉ (reach st0 acts).st.running := by
  have := trace_order_all st0 hw acts hc t _ k ht hp
  rw [hct] at this
  simp only [safeReq, noneOf, bne_self_eq_false, Bool.false_or, Bool.and_eq_true, List.all_eq_true,
    Bool.not_eq_true'] at this
  refine ⟨fun o ho => by simpa using this.1 o ho, ?_⟩
  simpa using this.2

theorem trace_crd_after_instances_and_stop_offered_all (st0 : St) (hw : WF st0) (acts : List Act) (hc : Calm { st := st0, ths := [] } acts)
    (t : Thread) (crd : String) (fg : Bool) (k : Resp → P)
    (ht : t ∈ (reach st0 acts).ths) (hct : t.ctl = .offered)
    (hp : t.prog = .call (.delete ⟨.crd, crd⟩ fg) k) :
    (∀ o ∈ (reach st0 acts).st.objs, o.key.kind ≠ .claim) ∧ claimCtrl t.name ∉ (reach st0 acts).st.running := by
  have := trace_order_all st0 hw acts hc t _ k ht hp
  rw [hct] at this
  simp only [safeReq, noneOf, bne_self_eq_false, Bool.false_or, Bool.and_eq_true, List.all_eq_true,
    Bool.not_eq_true'] at this
  refine ⟨fun o ho => by simpa using this.1 o ho, ?_⟩
  simpa using this.2

theorem trace_stop_after_instances_all (st0 : St) (hw : WF st0) (acts : List Act) (hc : Calm { st := st0, ths := [] } acts)
    (t : Thread) (ctl : String) (k : Resp → P)
    (ht : t ∈ (reach st0 acts).ths) (hct : t.ctl = .defined) (hp : t.prog = .call (.stop ctl) k)
    (d : Obj) (hd : find (reach st0 acts).st ⟨.xrd, t.name⟩ = some d) :
    crdNotOurs (reach st0 acts).st d.ref d.uid = true ∨ ∀ o ∈ (reach st0 acts).st.objs, o.key.kind ≠ .xr := by
  have := trace_order_all st0 hw acts hc t _ k ht hp
  rw [hct] at this
  simp only [safeReq, hd, Bool.or_eq_true] at this
  rcases this with h | h
  · exact .inl h
  · right
    simp only [noneOf, List.all_eq_true] at h
    exact fun o ho => by simpa using h o ho

theorem trace_stop_after_instances_offered_all (st0 : St) (hw : WF st0) (acts : List Act) (hc : Calm { st := st0, ths := [] } acts)
    (t : Thread) (ctl : String) (k : Resp → P)
    (ht : t ∈ (reach st0 acts).ths) (hct : t.ctl = .offered) (hp : t.prog = .call (.stop ctl) k)
    (d : Obj) (hd : find (reach st0 acts).st ⟨.xrd, t.name⟩ = some d) :
    crdNotOurs (reach st0 acts).st d.of d.uid = true ∨ ∀ o ∈ (reach st0 acts).st.objs, o.key.kind ≠ .claim := by
  have := trace_order_all st0 hw acts hc t _ k ht hp
  rw [hct] at this
  simp only [safeReq, hd, Bool.or_eq_true] at this
  rcases this with h | h
  · exact .inl h
  · right
    simp only [noneOf, List.all_eq_true] at h
    exact fun o ho => by simpa using h o ho

theorem trace_xrd_fin_after_crd_all (st0 : St) (hw : WF st0) (acts : List Act) (hc : Calm { st := st0, ths := [] } acts)
    (t : Thread) (kk : Key) (rv : Nat) (k : Resp → P)
    (ht : t ∈ (reach st0 acts).ths) (hct : t.ctl = .defined)
    (hp : t.prog = .call (.removeFin kk rv c08DefinedFinalizer) k)
    (d : Obj) (hd : find (reach st0 acts).st kk = some d) :
    crdNotOurs (reach st0 acts).st d.ref d.uid = true := by
  have := trace_order_all st0 hw acts hc t _ k ht hp
  rw [hct] at this
  simpa [safeReq, hd] using this

theorem trace_xrd_fin_after_crd_offered_all (st0 : St) (hw : WF st0) (acts : List Act) (hc : Calm { st := st0, ths := [] } acts)
    (t : Thread) (kk : Key) (rv : Nat) (k : Resp → P)
    (ht : t ∈ (reach st0 acts).ths) (hct : t.ctl = .offered)
    (hp : t.prog = .call (.removeFin kk rv c08OfferedFinalizer) k)
    (d : Obj) (hd : find (reach st0 acts).st kk = some d) :
    crdNotOurs (reach st0 acts).st d.of d.uid = true := by
  have := trace_order_all st0 hw acts hc t _ k ht hp
  rw [hct] at this
  simpa [safeReq, hd] using this

theorem trace_rev_lock_before_fin_all (st0 : St) (hw : WF st0) (acts : List Act) (hc : Calm { st := st0, ths := [] } acts)
    (t : Thread) (kk : Key) (rv : Nat) (k : Resp → P)
    (ht : t ∈ (reach st0 acts).ths) (hct : t.ctl = .rev)
    (hp : t.prog = .call (.removeFin kk rv c08RevisionFinalizer) k)
    (l : Obj) (hl : find (reach st0 acts).st lockKey = some l) : kk.name ∉ l.pkgs := by
  have := trace_order_all st0 hw acts hc t _ k ht hp
  rw [hct] at this
  simpa [safeReq, hl] using this

theorem trace_usage_waits_using_all (st0 : St) (hw : WF st0) (acts : List Act) (hc : Calm { st := st0, ths := [] } acts)
    (t : Thread) (kk : Key) (rv : Nat) (k : Resp → P)
    (ht : t ∈ (reach st0 acts).ths) (hct : t.ctl = .usage)
    (hp : t.prog = .call (.removeFin kk rv c08UsageFinalizer) k)
    (u : Obj) (hu : find (reach st0 acts).st kk = some u) (hrv : u.rv = rv) (hf : u.flag = true) (hr : u.ref ≠ "") :
    find (reach st0 acts).st ⟨u.refKind, u.ref⟩ = none := by
  have := trace_order_all st0 hw acts hc t _ k ht hp
  rw [hct] at this
  simp only [safeReq, hu, present, hf] at this
  cases hfd : find (reach st0 acts).st ⟨u.refKind, u.ref⟩ with
  | none => rfl
  | some o => simp [hfd, hr, hrv] at this

/-- `Calm` is satisfiable by schedules that do create things while a teardown is in flight:
the XRD teardown of `xrdWorld` interleaved with a finalizer added to the XR, a package
joining a newly created Lock, another XRD's controller being started and a live claim
getting its XR — up to the point where the definition reconcile lists the XRs. -/
example : Calm { st := { xrdWorld with objs := xrdWorld.objs ++ [{ mk ⟨.claim, "ns/c"⟩ 4 [] false with ref := "y" }], nextRv := 5 }, ths := [] }
    [.spawn .defined "xs.example.org", .step 0 .ok, .live (.addFin ⟨.xr, "x"⟩ "example.com/hold"), .step 0 .ok,
     .live (.lockAdd "p9"), .step 0 .ok, .live (.start "other.example.org" false), .live (.syncXR "ns/c" "y"), .step 0 .ok] := by
  refine ⟨⟨by decide, fun _ _ h => by cases h⟩, ⟨by decide, fun _ _ h => by cases h⟩, ⟨by decide, fun _ _ h => by cases h⟩,
    ⟨by decide, fun _ _ h => by cases h⟩, ⟨by decide, fun _ _ h => by cases h⟩, ⟨by decide, fun _ _ h => by cases h⟩,
    ⟨by decide, fun _ _ h => by cases h⟩, ⟨by decide, fun _ _ h => by cases h⟩, ⟨by decide, fun _ _ h => by cases h⟩, trivial⟩

/-- The recreation finding through the live branch itself: the definition reconcile has
listed the XRs as empty; the LIVE claim `ns/c` then syncs (creates) its XR `x`
(`Live.syncXR`); the reconcile goes on to stop the controller, and to delete the CRD, with
an instance present.  The step is outside `Calm` (it threatens the fact `noneOf xr` the
in-flight reconcile holds), which is why `trace_order_all` does not apply. -/
theorem trace_stop_after_instances_fails_with_live_claim_witness :
    (reach raceWorld [.spawn .defined "xs.example.org", .step 0 .ok, .step 0 .ok, .step 0 .ok, .step 0 .ok, .step 0 .ok,
      .live (.syncXR "ns/c" "x")]).violatesAt 0 = true ∧
    (reach raceWorld [.spawn .defined "xs.example.org", .step 0 .ok, .step 0 .ok, .step 0 .ok, .step 0 .ok, .step 0 .ok,
      .live (.syncXR "ns/c" "x"), .step 0 .ok]).violatesAt 0 = true ∧
    ((reach raceWorld [.spawn .defined "xs.example.org", .step 0 .ok, .step 0 .ok, .step 0 .ok, .step 0 .ok, .step 0 .ok]).ths.all
      fun t => (facts t.hist).any fun f => (Birth.obj ⟨.xr, "x"⟩).threatens f) = true := by decide

/-- The analogous windows of the other births, which need two reconciles of one key at a
time or a restart in the middle of a teardown: a live definition reconcile of the same XRD
(working on a copy older than the deletion) starts the controller again after the teardown
reconcile stopped it and before it deletes the CRD. -/
theorem trace_crd_after_stop_fails_with_restart_witness :
    (reach { xrdWorld with objs := xrdWorld.objs.take 2 }
      [.spawn .defined "xs.example.org", .step 0 .ok, .step 0 .ok, .step 0 .ok, .step 0 .ok, .step 0 .ok, .step 0 .ok,
       .live (.start "xs.example.org" false)]).violatesAt 0 = true := by decide

/-! ## the restriction to creation-free schedules is necessary -/

/-- The definition reconcile reads "no XR left"; a reconcile of the still-live claim then
re-creates the claim's XR (modelled as a creation step; reproduced on the real claim
reconciler, see corpus/C08/recreate-race.jsonl); the definition reconcile goes on
to stop the composite controller although an instance exists and the CRD is ours. The
same happens for Delete(crd) one call later. This is why the trace theorems assume
`NoCreate` — and a genuine time-of-check/time-of-use window of the unchanged code. -/
theorem trace_stop_after_instances_fails_with_recreation_witness :
    (reach raceWorld [.spawn .defined "xs.example.org", .step 0 .ok, .step 0 .ok, .step 0 .ok, .step 0 .ok, .step 0 .ok,
      .create (mk ⟨.xr, "x"⟩ 9 [] false)]).violatesAt 0 = true ∧
    (reach raceWorld [.spawn .defined "xs.example.org", .step 0 .ok, .step 0 .ok, .step 0 .ok, .step 0 .ok, .step 0 .ok,
      .create (mk ⟨.xr, "x"⟩ 9 [] false), .step 0 .ok]).violatesAt 0 = true := by decide

/-- without the creation step the same schedule is safe at both points -/
example :
    (reach raceWorld [.spawn .defined "xs.example.org", .step 0 .ok, .step 0 .ok, .step 0 .ok, .step 0 .ok, .step 0 .ok]).violatesAt 0 = false ∧
    (reach raceWorld [.spawn .defined "xs.example.org", .step 0 .ok, .step 0 .ok, .step 0 .ok, .step 0 .ok, .step 0 .ok, .step 0 .ok]).violatesAt 0 = false := by decide

/-- The same restriction is what makes lagging caches harmless: a cache that is OLDER than
the creation of an object ("the informer has not seen the XR yet") answers NotFound for an
object that exists. Here the XR is created (step 0), the claim reconcile reads the claim
and then reads the XR from the cache as it was before step 0: it goes on to remove the
claim's finalizer although the XR exists and is not being deleted (reproduced on the real
claim reconciler: corpus/C08/cache-miss.jsonl, recorded finding
C08:claim-finalized-xr-missing-from-cache). Without the creation step — whatever the lag —
`trace_order` applies. -/
theorem trace_claim_fin_fails_with_cache_miss_witness :
    (reach missWorld [.create { mk ⟨.xr, "x"⟩ 9 [c08XRFinalizer] false with ref := "ns/c" },
      .spawn .claim "ns/c", .step 0 .ok, .lagStep 0 0]).violatesAt 0 = true := by decide

/-- with a fresh read at the same point the reconcile deletes the XR first -/
example :
    (reach missWorld [.create { mk ⟨.xr, "x"⟩ 9 [c08XRFinalizer] false with ref := "ns/c" },
      .spawn .claim "ns/c", .step 0 .ok, .step 0 .ok]).violatesAt 0 = false := by decide

/-- the hypothesis `WF` holds of the example worlds (and of every store the harness builds:
object i carries resourceVersion i+1, the next one is n+1) -/
example : WF raceWorld ∧ WF (claimWorld true) ∧ WF xrdWorld ∧ WF revWorld ∧ WF usageWorld ∧ WF missWorld := by
  refine ⟨?_, ?_, ?_, ?_, ?_, ?_⟩ <;> (intro o ho; revert o ho; decide)

/-! ## third-party edits and lagging reads -/

/-- Background claim: the reconcile read the claim, read the XR, had Delete(XR)
acknowledged; then a third party switches the claim to Foreground. The pending finalizer
removal carries the old resourceVersion: it is safe (it will not be applied), the API
server answers Conflict and the claim keeps its finalizer while the XR exists. -/
example : (let s := reach (claimWorld false) [.spawn .claim "ns/c", .step 0 .ok, .step 0 .ok, .step 0 .ok,
      .edit ⟨.claim, "ns/c"⟩ .flip]
    let s' := s.act (.step 0 .ok)
    (s.violatesAt 0, (find s'.st ⟨.claim, "ns/c"⟩).map (fun c => (c.flag, c.fins)), (find s'.st ⟨.xr, "x"⟩).isSome)) =
    (false, some (true, [c08ClaimFinalizer]), true) := by decide

/-- a Usage reconcile that reads its using resource from a cache lagging behind the
resource's deletion waits once more (stale, but safe) -/
example : (let s := reach usageWorld [.del ⟨.res, "using"⟩, .spawn .usage "u", .step 0 .ok, .lagStep 0 0]
    ((find s.st ⟨.res, "using"⟩).isNone, (s.ths[0]?).map (fun t => match t.prog with | .ret r => r == .requeue | _ => false))) =
    (true, some true) := by decide

/-- the using resource is looked up under the API group and kind `spec.by` names: an object
of another kind with the same name does not make the Usage wait, nor does its absence
release a Usage whose own using resource exists -/
example : (let w : St := { usageWorld with objs := usageWorld.objs ++ [mk ⟨.res2, "using"⟩ 7 [] false], nextRv := 8 }
    let s := reach w [.del ⟨.res2, "using"⟩, .spawn .usage "u", .step 0 .ok, .step 0 .ok]
    (s.ths[0]?).map (fun t => match t.prog with | .ret r => r == .requeue | _ => false)) = some true := by decide

/-! ## non-vacuity: the guarded writes do happen -/

/-- Background: get claim, get XR, delete XR, remove finalizer: the claim is gone, the XR is terminating. -/
example : (let s := reach (claimWorld false) [.spawn .claim "ns/c", .step 0 .ok, .step 0 .ok, .step 0 .ok, .step 0 .ok]
    ((find s.st ⟨.claim, "ns/c"⟩).isNone, (find s.st ⟨.xr, "x"⟩).map (·.del))) = (true, some true) := by decide

/-- Foreground: the first reconcile deletes the XR and waits; the claim keeps its finalizer
until the XR reconciler and the garbage collector have removed the XR. -/
example : (let s := reach (claimWorld true) [.spawn .claim "ns/c", .step 0 .ok, .step 0 .ok, .step 0 .ok]
    ((find s.st ⟨.claim, "ns/c"⟩).map (·.fins), (find s.st ⟨.xr, "x"⟩).map (·.fins))) =
    (some [c08ClaimFinalizer], some [c08XRFinalizer, fgFin]) := by decide

example : (let s := reach (claimWorld true) [.spawn .claim "ns/c", .step 0 .ok, .step 0 .ok, .step 0 .ok,
      .spawn .xr "x", .step 1 .ok, .step 1 .ok, .gc,
      .spawn .claim "ns/c", .step 2 .ok, .step 2 .ok, .step 2 .ok]
    ((find s.st ⟨.claim, "ns/c"⟩).isNone, (find s.st ⟨.xr, "x"⟩).isNone)) = (true, true) := by decide

/-- XRD teardown: first reconcile deletes the instance and waits; after the XR reconciler
finalized it the second reconcile stops the controller and deletes the CRD; the third
removes the finalizer. -/
example : (let s := reach xrdWorld [.spawn .defined "xs.example.org", .step 0 .ok, .step 0 .ok, .step 0 .ok, .step 0 .ok, .step 0 .ok,
      .spawn .xr "x", .step 1 .ok, .step 1 .ok,
      .spawn .defined "xs.example.org", .step 2 .ok, .step 2 .ok, .step 2 .ok, .step 2 .ok, .step 2 .ok, .step 2 .ok, .step 2 .ok,
      .spawn .defined "xs.example.org", .step 3 .ok, .step 3 .ok, .step 3 .ok, .step 3 .ok, .step 3 .ok]
    (s.st.objs.length, s.st.running)) = (0, []) := by decide

/-- an Inactive, skipDependencyResolution revision that is still in the Lock leaves it before it is finalized -/
example : (let s := reach staleRevWorld [.spawn .rev "p1", .step 0 .ok, .step 0 .ok, .step 0 .ok, .step 0 .ok, .step 0 .ok]
    ((find s.st ⟨.rev, "p1"⟩).isNone, (find s.st lockKey).map (·.pkgs))) = (true, some ["p2"]) := by decide

example : (let s := reach revWorld [.spawn .rev "p1", .step 0 .ok, .step 0 .ok, .step 0 .ok, .step 0 .ok, .step 0 .ok]
    ((find s.st ⟨.rev, "p1"⟩).isNone, (find s.st lockKey).map (·.pkgs))) = (true, some ["p2"]) := by decide

/-- the Usage waits while the using resource exists, and is finalized once it is gone -/
example : (let s := reach usageWorld [.spawn .usage "u", .step 0 .ok, .step 0 .ok, .del ⟨.res, "using"⟩,
      .spawn .usage "u", .step 1 .ok, .step 1 .ok, .step 1 .ok, .step 1 .ok, .step 1 .ok, .step 1 .ok]
    ((s.ths[0]?).map (fun t => match t.prog with | .ret r => r == .requeue | _ => false),
     (find s.st ⟨.usage, "u"⟩).isNone, (find s.st ⟨.res, "used"⟩).map (·.inuse))) = (some true, true, some false) := by decide

end Xp.C08

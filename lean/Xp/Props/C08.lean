import Xp.Model.C08
/-
C08 property theorems (placeholder while the correspondence is brought up).
-/
namespace Xp.C08

theorem placeholder_stop_removes (s : St) (c : String) : c ∉ (exec s (.stop c)).1.running := by
  simp [exec]

end Xp.C08

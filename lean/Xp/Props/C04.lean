import Xp.Model.C04
import Xp.Model.C04Conn
/-
C04 — every pipeline step sees exactly the state the function contract promises.
Theorems about the reference interpreter (Xp/Model/C04.lean), for ALL functions
(`Fn = Request → Option Response`), pipelines, cluster contents and observed states.
-/
namespace Xp.C04

/-! ### the requirements loop (FetchingFunctionRunner.RunFunction) -/

def nextReq (cluster : List ClusterObj) (req : Request) (rsp : Response) : Request :=
  { req with extra := rsp.reqs.map (fun p => (p.1, fetch cluster p.2)), ctx := rsp.ctx }

theorem runFetching_zero (cluster : List ClusterObj) (f : Fn) (req : Request) (prev : List (String × Sel)) :
    runFetching cluster f 0 req prev = ([], .err) := rfl

theorem runFetching_none (cluster : List ClusterObj) (f : Fn) (n : Nat) (req : Request) (prev : List (String × Sel))
    (h : f req = none) : runFetching cluster f (n+1) req prev = ([req], .err) := by
  simp [runFetching, h]

theorem runFetching_fatal (cluster : List ClusterObj) (f : Fn) (n : Nat) (req : Request) (prev : List (String × Sel))
    (rsp : Response) (h : f req = some rsp) (hf : hasFatal rsp.results = true) :
    runFetching cluster f (n+1) req prev = ([req], .ok rsp) := by
  simp [runFetching, h, hf]

theorem runFetching_stable (cluster : List ClusterObj) (f : Fn) (n : Nat) (req : Request) (prev : List (String × Sel))
    (rsp : Response) (h : f req = some rsp) (hf : hasFatal rsp.results = false) (hs : rsp.reqs = prev) :
    runFetching cluster f (n+1) req prev = ([req], .ok rsp) := by
  simp [runFetching, h, hf, hs]

theorem runFetching_more (cluster : List ClusterObj) (f : Fn) (n : Nat) (req : Request) (prev : List (String × Sel))
    (rsp : Response) (h : f req = some rsp) (hf : hasFatal rsp.results = false) (hs : rsp.reqs ≠ prev) :
    runFetching cluster f (n+1) req prev =
      (req :: (runFetching cluster f n (nextReq cluster req rsp) rsp.reqs).1,
       (runFetching cluster f n (nextReq cluster req rsp) rsp.reqs).2) := by
  simp [runFetching, h, hf, hs, nextReq]

/-- case analysis of one round -/
theorem runFetching_cases (cluster : List ClusterObj) (f : Fn) (n : Nat) (req : Request) (prev : List (String × Sel)) :
    (f req = none ∧ runFetching cluster f (n+1) req prev = ([req], .err)) ∨
    (∃ rsp, f req = some rsp ∧ (hasFatal rsp.results = true ∨ rsp.reqs = prev) ∧
      runFetching cluster f (n+1) req prev = ([req], .ok rsp)) ∨
    (∃ rsp, f req = some rsp ∧ hasFatal rsp.results = false ∧ rsp.reqs ≠ prev ∧
      runFetching cluster f (n+1) req prev =
        (req :: (runFetching cluster f n (nextReq cluster req rsp) rsp.reqs).1,
         (runFetching cluster f n (nextReq cluster req rsp) rsp.reqs).2)) := by
  cases h : f req with
  | none => exact Or.inl ⟨rfl, runFetching_none cluster f n req prev h⟩
  | some rsp =>
    cases hf : hasFatal rsp.results with
    | true => exact Or.inr (Or.inl ⟨rsp, rfl, Or.inl hf, runFetching_fatal cluster f n req prev rsp h hf⟩)
    | false =>
      by_cases hs : rsp.reqs = prev
      · exact Or.inr (Or.inl ⟨rsp, rfl, Or.inr hs, runFetching_stable cluster f n req prev rsp h hf hs⟩)
      · exact Or.inr (Or.inr ⟨rsp, rfl, hf, hs, runFetching_more cluster f n req prev rsp h hf hs⟩)

/-- A function is called at most `fuel` times; with the initial fuel
`MaxRequirementsIterations + 1` that is the bound of the property. -/
theorem rounds_bounded (cluster : List ClusterObj) (f : Fn) (fuel : Nat) (req : Request) (prev : List (String × Sel)) :
    (runFetching cluster f fuel req prev).1.length ≤ fuel := by
  induction fuel generalizing req prev with
  | zero => simp [runFetching]
  | succ n ih =>
    rcases runFetching_cases cluster f n req prev with ⟨_, h⟩ | ⟨_, _, _, h⟩ | ⟨rsp, _, _, _, h⟩
    · rw [h]; simp
    · rw [h]; simp
    · rw [h]; simp only [List.length_cons]; exact Nat.succ_le_succ (ih _ _)

/-- Within the rounds of one step only `extra_resources` and `context` change: the
observed state, the desired state, the input and the credentials a function sees are
the same in every round. -/
theorem rounds_keep_contract (cluster : List ClusterObj) (f : Fn) (fuel : Nat) (req : Request) (prev : List (String × Sel)) :
    ∀ q ∈ (runFetching cluster f fuel req prev).1,
      q.observed = req.observed ∧ q.desired = req.desired ∧ q.xrReady = req.xrReady ∧
      q.input = req.input ∧ q.creds = req.creds := by
  induction fuel generalizing req prev with
  | zero => intro q hq; simp [runFetching] at hq
  | succ n ih =>
    intro q hq
    rcases runFetching_cases cluster f n req prev with ⟨_, h⟩ | ⟨_, _, _, h⟩ | ⟨rsp, _, _, _, h⟩
    · rw [h] at hq; simp at hq; subst hq; exact ⟨rfl, rfl, rfl, rfl, rfl⟩
    · rw [h] at hq; simp at hq; subst hq; exact ⟨rfl, rfl, rfl, rfl, rfl⟩
    · rw [h] at hq
      simp only [List.mem_cons] at hq
      rcases hq with rfl | hq
      · exact ⟨rfl, rfl, rfl, rfl, rfl⟩
      · have := ih (nextReq cluster req rsp) rsp.reqs q hq
        simpa [nextReq] using this

/-- The first call of a step receives the request the composer built. -/
theorem first_round_request (cluster : List ClusterObj) (f : Fn) (fuel : Nat) (req : Request) (prev : List (String × Sel)) :
    (runFetching cluster f (fuel + 1) req prev).1.head? = some req := by
  rcases runFetching_cases cluster f fuel req prev with ⟨_, h⟩ | ⟨_, _, _, h⟩ | ⟨rsp, _, _, _, h⟩ <;> rw [h] <;> rfl

/-- Round `r+1` is supplied exactly the resources matching the requirements returned in
round `r` (same keys, fetched contents, nothing left over from earlier rounds) and the
context returned in round `r`. -/
theorem round_inputs (cluster : List ClusterObj) (f : Fn) (fuel : Nat) (req : Request) (prev : List (String × Sel)) (r : Nat)
    (q q' : Request) (hq : (runFetching cluster f fuel req prev).1[r]? = some q)
    (hq' : (runFetching cluster f fuel req prev).1[r+1]? = some q') :
    ∃ rsp, f q = some rsp ∧ q' = nextReq cluster q rsp := by
  induction fuel generalizing req prev r with
  | zero => simp [runFetching] at hq
  | succ n ih =>
    rcases runFetching_cases cluster f n req prev with ⟨_, h⟩ | ⟨_, _, _, h⟩ | ⟨rsp, hf, _, _, h⟩
    · rw [h] at hq'; simp at hq'
    · rw [h] at hq'; simp at hq'
    · rw [h] at hq hq'
      cases r with
      | zero =>
        simp only [List.getElem?_cons_zero, Option.some.injEq] at hq
        subst hq
        simp only [List.getElem?_cons_succ] at hq'
        refine ⟨rsp, hf, ?_⟩
        cases n with
        | zero => simp [runFetching] at hq'
        | succ m =>
          have := first_round_request cluster f m (nextReq cluster req rsp) rsp.reqs
          rw [List.head?_eq_getElem?] at this
          rw [this] at hq'
          exact (Option.some.inj hq').symm
      | succ r' =>
        simp only [List.getElem?_cons_succ] at hq hq'
        exact ih _ _ r' hq hq'

/-- The loop returns a response only if it is the function's answer to the last request
and either carries a fatal result or repeats the requirements of the previous round
(`prev` when it is the first round). It errors when the function errors or the rounds
are exhausted. -/
theorem returns_when_stable (cluster : List ClusterObj) (f : Fn) (fuel : Nat) (req : Request) (prev : List (String × Sel))
    (rsp : Response) (h : (runFetching cluster f fuel req prev).2 = .ok rsp) :
    ∃ q p, (runFetching cluster f fuel req prev).1.getLast? = some q ∧ f q = some rsp ∧
      (hasFatal rsp.results = true ∨ rsp.reqs = p) ∧
      ((runFetching cluster f fuel req prev).1.length = 1 → p = prev) := by
  induction fuel generalizing req prev with
  | zero => simp [runFetching] at h
  | succ n ih =>
    rcases runFetching_cases cluster f n req prev with ⟨_, he⟩ | ⟨r, hf, hor, he⟩ | ⟨r, hf, _, _, he⟩
    · rw [he] at h; cases h
    · rw [he] at h ⊢
      cases h
      exact ⟨req, prev, rfl, hf, hor, fun _ => rfl⟩
    · rw [he] at h ⊢
      obtain ⟨q, p, hl, hfq, hor, _⟩ := ih _ _ h
      refine ⟨q, p, ?_, hfq, hor, ?_⟩
      · simp only [List.getLast?_cons]
        rw [hl]; rfl
      · intro hlen
        simp only [List.length_cons] at hlen
        have : (runFetching cluster f n (nextReq cluster req r) r.reqs).1 = [] := List.length_eq_zero_iff.mp (by omega)
        rw [this] at hl; simp at hl

/-! ### the pipeline loop (FunctionComposer.Compose) -/

/-- The first step starts from empty desired state and empty context. -/
theorem first_step_starts_empty (observed : List Res) (s : Step) :
    (stepRequest observed initState s).desired = [] ∧ (stepRequest observed initState s).ctx = [] ∧
    (stepRequest observed initState s).xrReady = none := ⟨rfl, rfl, rfl⟩

/-- Threading: when a step returns (non-fatal) response `rsp`, the rest of the pipeline
runs from the state whose desired, XR readiness and context are exactly `rsp`'s — so the
next step's request carries the previous step's output — and conditions / events are
appended in pipeline order. -/
theorem threading (cluster : List ClusterObj) (observed : List Res) (s : Step) (ss : List Step) (i : Nat) (st : PipeState)
    (hc : s.creds.any (·.2.isNone) = false) (rsp : Response)
    (hr : (runFetching cluster s.fn (Xp.Gen.maxRequirementsIterations + 1) (stepRequest observed st s) []).2 = .ok rsp)
    (hnf : (eventsUntilFatal s.name rsp.results).2 = false) :
    runPipeline cluster observed (s :: ss) i st =
      runPipeline cluster observed ss (i + 1)
        { desired := rsp.desired, xrReady := rsp.xrReady, ctx := rsp.ctx,
          events := st.events ++ (eventsUntilFatal s.name rsp.results).1,
          conds := st.conds ++ rsp.conds,
          trace := st.trace ++ (runFetching cluster s.fn (Xp.Gen.maxRequirementsIterations + 1) (stepRequest observed st s) []).1.map (fun r => (i, r)) } := by
  conv => lhs; unfold runPipeline
  simp only [hc, Bool.false_eq_true, if_false, hr, hnf]

/-- the trace of a pipeline result -/
def traceOf : PipeResult → List (Nat × Request)
  | .done s => s.trace
  | .failed s _ => s.trace

/-- Every request any function receives during a pipeline run carries the same observed
state. -/
theorem observed_same_for_all (cluster : List ClusterObj) (observed : List Res) (ss : List Step) (i : Nat) (st : PipeState)
    (hst : ∀ p ∈ st.trace, p.2.observed = observed) :
    ∀ p ∈ traceOf (runPipeline cluster observed ss i st), p.2.observed = observed := by
  induction ss generalizing i st with
  | nil => simpa [runPipeline, traceOf] using hst
  | cons s ss ih =>
    unfold runPipeline
    by_cases hc : s.creds.any (·.2.isNone) = true
    · simp only [hc, if_true, traceOf]; exact hst
    · simp only [hc, Bool.false_eq_true, if_false]
      have htr : ∀ q ∈ (runFetching cluster s.fn (Xp.Gen.maxRequirementsIterations + 1) (stepRequest observed st s) []).1,
          q.observed = observed := by
        intro q hq
        exact (rounds_keep_contract cluster s.fn _ _ [] q hq).1
      have hst1 : ∀ p ∈ st.trace ++ (runFetching cluster s.fn (Xp.Gen.maxRequirementsIterations + 1)
          (stepRequest observed st s) []).1.map (fun q => (i, q)), p.2.observed = observed := by
        intro p hp
        rcases List.mem_append.mp hp with hp | hp
        · exact hst p hp
        · obtain ⟨q, hq, rfl⟩ := List.mem_map.mp hp
          exact htr q hq
      cases ho : (runFetching cluster s.fn (Xp.Gen.maxRequirementsIterations + 1) (stepRequest observed st s) []).2 with
      | err => simp only [traceOf]; exact hst1
      | ok rsp =>
        simp only []
        by_cases hf : (eventsUntilFatal s.name rsp.results).2 = true
        · simp only [hf, if_true, traceOf]; exact hst1
        · simp only [hf, Bool.false_eq_true, if_false]
          exact ih _ _ hst1

/-- Results are surfaced in pipeline order and none before the first fatal one is dropped:
the events of one response are exactly its non-fatal results, in order, up to the first
fatal result. -/
theorem events_in_order (step : String) (rs : List Result) :
    (eventsUntilFatal step rs).1 = (rs.takeWhile (fun r => decide (r.sev ≠ .fatal))).map (evOf step) ∧
    ((eventsUntilFatal step rs).2 = true ↔ ∃ r ∈ rs, r.sev = .fatal) := by
  induction rs with
  | nil => simp [eventsUntilFatal]
  | cons r rs ih =>
    unfold eventsUntilFatal
    by_cases h : r.sev = .fatal
    · simp only [h, if_true, List.takeWhile_cons, ne_eq, not_true_eq_false, decide_false]
      refine ⟨by simp, ?_⟩
      constructor
      · intro _; exact ⟨r, List.mem_cons_self .., h⟩
      · intro _; trivial
    · simp only [h, if_false, List.takeWhile_cons, ne_eq, not_false_eq_true, decide_true]
      refine ⟨by simp [ih.1], ?_⟩
      rw [ih.2]
      constructor
      · rintro ⟨x, hx, hf⟩; exact ⟨x, List.mem_cons_of_mem _ hx, hf⟩
      · rintro ⟨x, hx, hf⟩
        rcases List.mem_cons.mp hx with rfl | hx
        · exact absurd hf h
        · exact ⟨x, hx, hf⟩

/-! ### which function instance a step is sent to (PackagedFunctionRunner) -/

section Conn
open Xp.C04Conn

theorem cget_append_new (c : Conns) (fn ep : String) : cget (cerase c fn ++ [(fn, ep)]) fn = some ep := by
  have h : (cerase c fn).find? (fun p => decide (p.1 = fn)) = none := by
    apply List.find?_eq_none.mpr
    intro p hp
    have := (List.mem_filter.mp hp).2
    simpa using this
  simp [cget, List.find?_append, h]

theorem cget_other (c : Conns) (fn ep m : String) (hm : m ≠ fn) :
    cget (cerase c fn ++ [(fn, ep)]) m = cget c m := by
  have h2 : ([(fn, ep)] : Conns).find? (fun p => decide (p.1 = m)) = none := by simp [Ne.symm hm]
  have h1 : (cerase c fn).find? (fun p => decide (p.1 = m)) = c.find? (fun p => decide (p.1 = m)) := by
    unfold cerase
    rw [List.find?_filter]
    congr 1
    funext a
    by_cases h : a.1 = m
    · simp [h, hm]
    · simp [h]
  simp only [cget, List.find?_append, h1, h2]
  cases List.find? (fun p => decide (p.1 = m)) c <;> rfl

/-- **Right instance.** Whenever a connection is handed out for function `fn`, its target is the
non-empty endpoint of an Active revision of `fn`, and that is what the cache now holds for
`fn` — also when a connection to an older endpoint was cached (it is replaced). -/
theorem conn_target (revs : List Rev) (c : Conns) (fn ep : String)
    (h : (getConn revs c fn).1 = some ep) :
    (∃ r ∈ revs, r.fn = fn ∧ r.active = true ∧ r.endpoint = ep ∧ ep ≠ "") ∧
    cget (getConn revs c fn).2 fn = some ep := by
  unfold getConn at h ⊢
  cases hw : wanted revs fn with
  | none => simp [hw] at h
  | some e =>
    simp only [hw] at h ⊢
    have hee : e = ep := by
      split at h <;> simpa using h
    subst hee
    constructor
    · unfold wanted at hw
      split at hw
      · cases hw
      · rename_i r hf
        have hm := List.mem_of_find?_eq_some hf
        have hp := List.find?_some hf
        simp only [Bool.and_eq_true, decide_eq_true_eq] at hp
        split at hw
        · cases hw
        · rename_i hne
          simp only [Option.some.injEq] at hw
          exact ⟨r, hm, hp.1, hp.2, hw, hw ▸ hne⟩
    · split
      · rename_i hc; exact hc
      · exact cget_append_new c fn e

/-- No connection is handed out when the function has no Active revision or the Active
revision has no endpoint yet; the cache is left alone. -/
theorem conn_error_keeps_cache (revs : List Rev) (c : Conns) (fn : String)
    (h : (getConn revs c fn).1 = none) : (getConn revs c fn).2 = c := by
  unfold getConn at h ⊢
  cases hw : wanted revs fn with
  | none => rfl
  | some e => simp only [hw] at h; split at h <;> simp at h

/-- Connections of other functions are not touched by a call for `fn`. -/
theorem conn_others_untouched (revs : List Rev) (c : Conns) (fn m : String) (hm : m ≠ fn) :
    cget (getConn revs c fn).2 m = cget c m := by
  unfold getConn
  cases hw : wanted revs fn with
  | none => rfl
  | some e =>
    simp only []
    split
    · rfl
    · exact cget_other c fn e m hm

theorem filter_split_length {α : Type} (p : α → Bool) (l : List α) :
    (l.filter fun x => !p x).length + (l.filter p).length = l.length := by
  induction l with
  | nil => rfl
  | cons x xs ih =>
    simp only [List.filter_cons]
    cases p x <;> simp only [Bool.not_false, Bool.not_true, if_true, Bool.false_eq_true, if_false, List.length_cons] <;> omega

/-- **Collection.** Garbage collection keeps exactly the connections of installed functions and
reports how many it closed. -/
theorem conn_gc (fns : List String) (c : Conns) (p : String × String) :
    (p ∈ (gc fns c).2 ↔ p ∈ c ∧ p.1 ∈ fns) ∧ (gc fns c).1 + (gc fns c).2.length = c.length := by
  constructor
  · simp [gc, List.mem_filter]
  · simp only [gc]
    exact filter_split_length (fun p : String × String => fns.contains p.1) c

end Conn

/-! ### non-vacuity -/
example : (runFetching [⟨"EX", "x1", []⟩]
    (fun q => some ⟨[], none, [], if q.extra.isEmpty then [("e", ⟨"EX", "x1", []⟩)] else [("e", ⟨"EX", "x1", []⟩)], [], []⟩)
    6 ⟨[], [], none, [], [], "", []⟩ []).1.length = 2 := by decide

end Xp.C04

import Xp.Model.C04
import Xp.Model.C04Conn
import Xp.Model.C04Compose
import Xp.Proofs.C04
import Xp.Gen.C04Skel
/-
C04 — every pipeline step sees exactly the state the function contract promises.
Theorems about the reference interpreter (Xp/Model/C04.lean), for ALL functions
(`Fn = Request → Option Response`), pipelines, cluster contents and observed states.
-/
namespace Xp.C04

/-! ### the requirements loop (FetchingFunctionRunner.RunFunction) -/

def nextReq (cluster : List ClusterObj) (req : Request) (rsp : Response) : Request :=
  { req with extra := rsp.reqs.map (fun p => (p.1, fetch cluster p.2)), ctx := rsp.ctx }

theorem runFetching_zero (cluster : List ClusterObj) (f : Fn) (req : Request) (prev : List (String × Sel)) :
    runFetching cluster f 0 req prev = ([], .err) := rfl

theorem runFetching_none (cluster : List ClusterObj) (f : Fn) (n : Nat) (req : Request) (prev : List (String × Sel))
    (h : f req = none) : runFetching cluster f (n+1) req prev = ([req], .err) := by
  simp [runFetching, h]

theorem runFetching_fatal (cluster : List ClusterObj) (f : Fn) (n : Nat) (req : Request) (prev : List (String × Sel))
    (rsp : Response) (h : f req = some rsp) (hf : hasFatal rsp.results = true) :
    runFetching cluster f (n+1) req prev = ([req], .ok rsp) := by
  simp [runFetching, h, hf]

theorem runFetching_stable (cluster : List ClusterObj) (f : Fn) (n : Nat) (req : Request) (prev : List (String × Sel))
    (rsp : Response) (h : f req = some rsp) (hf : hasFatal rsp.results = false) (hs : rsp.reqs = prev) :
    runFetching cluster f (n+1) req prev = ([req], .ok rsp) := by
  simp [runFetching, h, hf, hs]

theorem runFetching_more (cluster : List ClusterObj) (f : Fn) (n : Nat) (req : Request) (prev : List (String × Sel))
    (rsp : Response) (h : f req = some rsp) (hf : hasFatal rsp.results = false) (hs : rsp.reqs ≠ prev) :
    runFetching cluster f (n+1) req prev =
      (req :: (runFetching cluster f n (nextReq cluster req rsp) rsp.reqs).1,
       (runFetching cluster f n (nextReq cluster req rsp) rsp.reqs).2) := by
  simp [runFetching, h, hf, hs, nextReq]

/-- case analysis of one round -/
theorem runFetching_cases (cluster : List ClusterObj) (f : Fn) (n : Nat) (req : Request) (prev : List (String × Sel)) :
    (f req = none ∧ runFetching cluster f (n+1) req prev = ([req], .err)) ∨
    (∃ rsp, f req = some rsp ∧ (hasFatal rsp.results = true ∨ rsp.reqs = prev) ∧
      runFetching cluster f (n+1) req prev = ([req], .ok rsp)) ∨
    (∃ rsp, f req = some rsp ∧ hasFatal rsp.results = false ∧ rsp.reqs ≠ prev ∧
      runFetching cluster f (n+1) req prev =
        (req :: (runFetching cluster f n (nextReq cluster req rsp) rsp.reqs).1,
         (runFetching cluster f n (nextReq cluster req rsp) rsp.reqs).2)) := by
  cases h : f req with
  | none => exact Or.inl ⟨rfl, runFetching_none cluster f n req prev h⟩
  | some rsp =>
    cases hf : hasFatal rsp.results with
    | true => exact Or.inr (Or.inl ⟨rsp, rfl, Or.inl hf, runFetching_fatal cluster f n req prev rsp h hf⟩)
    | false =>
      by_cases hs : rsp.reqs = prev
      · exact Or.inr (Or.inl ⟨rsp, rfl, Or.inr hs, runFetching_stable cluster f n req prev rsp h hf hs⟩)
      · exact Or.inr (Or.inr ⟨rsp, rfl, hf, hs, runFetching_more cluster f n req prev rsp h hf hs⟩)

/-- A function is called at most `fuel` times; with the initial fuel
`MaxRequirementsIterations + 1` that is the bound of the property. -/
theorem rounds_bounded (cluster : List ClusterObj) (f : Fn) (fuel : Nat) (req : Request) (prev : List (String × Sel)) :
    (runFetching cluster f fuel req prev).1.length ≤ fuel := by
  induction fuel generalizing req prev with
  | zero => simp [runFetching]
  | succ n ih =>
    rcases runFetching_cases cluster f n req prev with ⟨_, h⟩ | ⟨_, _, _, h⟩ | ⟨rsp, _, _, _, h⟩
    · rw [h]; simp
    · rw [h]; simp
    · rw [h]; simp only [List.length_cons]; exact Nat.succ_le_succ (ih _ _)

/-- Within the rounds of one step only `extra_resources` and `context` change: the
observed state, the desired state, the input and the credentials a function sees are
the same in every round. -/
theorem rounds_keep_contract (cluster : List ClusterObj) (f : Fn) (fuel : Nat) (req : Request) (prev : List (String × Sel)) :
    ∀ q ∈ (runFetching cluster f fuel req prev).1,
      q.observed = req.observed ∧ q.desired = req.desired ∧ q.xrReady = req.xrReady ∧
      q.input = req.input ∧ q.creds = req.creds := by
  induction fuel generalizing req prev with
  | zero => intro q hq; simp [runFetching] at hq
  | succ n ih =>
    intro q hq
    rcases runFetching_cases cluster f n req prev with ⟨_, h⟩ | ⟨_, _, _, h⟩ | ⟨rsp, _, _, _, h⟩
    · rw [h] at hq; simp at hq; subst hq; exact ⟨rfl, rfl, rfl, rfl, rfl⟩
    · rw [h] at hq; simp at hq; subst hq; exact ⟨rfl, rfl, rfl, rfl, rfl⟩
    · rw [h] at hq
      simp only [List.mem_cons] at hq
      rcases hq with rfl | hq
      · exact ⟨rfl, rfl, rfl, rfl, rfl⟩
      · have := ih (nextReq cluster req rsp) rsp.reqs q hq
        simpa [nextReq] using this

/-- The first call of a step receives the request the composer built. -/
theorem first_round_request (cluster : List ClusterObj) (f : Fn) (fuel : Nat) (req : Request) (prev : List (String × Sel)) :
    (runFetching cluster f (fuel + 1) req prev).1.head? = some req := by
  rcases runFetching_cases cluster f fuel req prev with ⟨_, h⟩ | ⟨_, _, _, h⟩ | ⟨rsp, _, _, _, h⟩ <;> rw [h] <;> rfl

/-- Round `r+1` is supplied exactly the resources matching the requirements returned in
round `r` (same keys, fetched contents, nothing left over from earlier rounds) and the
context returned in round `r`. -/
theorem round_inputs (cluster : List ClusterObj) (f : Fn) (fuel : Nat) (req : Request) (prev : List (String × Sel)) (r : Nat)
    (q q' : Request) (hq : (runFetching cluster f fuel req prev).1[r]? = some q)
    (hq' : (runFetching cluster f fuel req prev).1[r+1]? = some q') :
    ∃ rsp, f q = some rsp ∧ q' = nextReq cluster q rsp := by
  induction fuel generalizing req prev r with
  | zero => simp [runFetching] at hq
  | succ n ih =>
    rcases runFetching_cases cluster f n req prev with ⟨_, h⟩ | ⟨_, _, _, h⟩ | ⟨rsp, hf, _, _, h⟩
    · rw [h] at hq'; simp at hq'
    · rw [h] at hq'; simp at hq'
    · rw [h] at hq hq'
      cases r with
      | zero =>
        simp only [List.getElem?_cons_zero, Option.some.injEq] at hq
        subst hq
        simp only [List.getElem?_cons_succ] at hq'
        refine ⟨rsp, hf, ?_⟩
        cases n with
        | zero => simp [runFetching] at hq'
        | succ m =>
          have := first_round_request cluster f m (nextReq cluster req rsp) rsp.reqs
          rw [List.head?_eq_getElem?] at this
          rw [this] at hq'
          exact (Option.some.inj hq').symm
      | succ r' =>
        simp only [List.getElem?_cons_succ] at hq hq'
        exact ih _ _ r' hq hq'

/-- The loop returns a response only if it is the function's answer to the last request
and either carries a fatal result or repeats the requirements of the previous round
(`prev` when it is the first round). It errors when the function errors or the rounds
are exhausted. -/
theorem returns_when_stable (cluster : List ClusterObj) (f : Fn) (fuel : Nat) (req : Request) (prev : List (String × Sel))
    (rsp : Response) (h : (runFetching cluster f fuel req prev).2 = .ok rsp) :
    ∃ q p, (runFetching cluster f fuel req prev).1.getLast? = some q ∧ f q = some rsp ∧
      (hasFatal rsp.results = true ∨ rsp.reqs = p) ∧
      ((runFetching cluster f fuel req prev).1.length = 1 → p = prev) := by
  induction fuel generalizing req prev with
  | zero => simp [runFetching] at h
  | succ n ih =>
    rcases runFetching_cases cluster f n req prev with ⟨_, he⟩ | ⟨r, hf, hor, he⟩ | ⟨r, hf, _, _, he⟩
    · rw [he] at h; cases h
    · rw [he] at h ⊢
      cases h
      exact ⟨req, prev, rfl, hf, hor, fun _ => rfl⟩
    · rw [he] at h ⊢
      obtain ⟨q, p, hl, hfq, hor, _⟩ := ih _ _ h
      refine ⟨q, p, ?_, hfq, hor, ?_⟩
      · simp only [List.getLast?_cons]
        rw [hl]; rfl
      · intro hlen
        simp only [List.length_cons] at hlen
        have : (runFetching cluster f n (nextReq cluster req r) r.reqs).1 = [] := List.length_eq_zero_iff.mp (by omega)
        rw [this] at hl; simp at hl

/-! ### the pipeline loop (FunctionComposer.Compose) -/

/-- The first step starts from empty desired state and empty context. -/
theorem first_step_starts_empty (observed : List Res) (s : Step) :
    (stepRequest observed initState s).desired = [] ∧ (stepRequest observed initState s).ctx = [] ∧
    (stepRequest observed initState s).xrReady = none := ⟨rfl, rfl, rfl⟩

/-- Threading: when a step returns (non-fatal) response `rsp`, the rest of the pipeline
runs from the state whose desired, XR readiness and context are exactly `rsp`'s — so the
next step's request carries the previous step's output — and conditions / events are
appended in pipeline order. -/
theorem threading (cluster : List ClusterObj) (observed : List Res) (s : Step) (ss : List Step) (i : Nat) (st : PipeState)
    (hc : s.creds.any (·.2.isNone) = false) (rsp : Response)
    (hr : (runFetching cluster s.fn (Xp.Gen.maxRequirementsIterations + 1) (stepRequest observed st s) []).2 = .ok rsp)
    (hnf : (eventsUntilFatal s.name rsp.results).2 = false) :
    runPipeline cluster observed (s :: ss) i st =
      runPipeline cluster observed ss (i + 1)
        { desired := rsp.desired, xrReady := rsp.xrReady, ctx := rsp.ctx,
          events := st.events ++ (eventsUntilFatal s.name rsp.results).1,
          conds := st.conds ++ rsp.conds,
          trace := st.trace ++ (runFetching cluster s.fn (Xp.Gen.maxRequirementsIterations + 1) (stepRequest observed st s) []).1.map (fun r => (i, r)) } := by
  conv => lhs; unfold runPipeline
  simp only [hc, Bool.false_eq_true, if_false, hr, hnf]

/-- Every request any function receives during a pipeline run carries the same observed
state. -/
theorem observed_same_for_all (cluster : List ClusterObj) (observed : List Res) (ss : List Step) (i : Nat) (st : PipeState)
    (hst : ∀ p ∈ st.trace, p.2.observed = observed) :
    ∀ p ∈ traceOf (runPipeline cluster observed ss i st), p.2.observed = observed := by
  induction ss generalizing i st with
  | nil => simpa [runPipeline, traceOf] using hst
  | cons s ss ih =>
    unfold runPipeline
    by_cases hc : s.creds.any (·.2.isNone) = true
    · simp only [hc, if_true, traceOf]; exact hst
    · simp only [hc, Bool.false_eq_true, if_false]
      have htr : ∀ q ∈ (runFetching cluster s.fn (Xp.Gen.maxRequirementsIterations + 1) (stepRequest observed st s) []).1,
          q.observed = observed := by
        intro q hq
        exact (rounds_keep_contract cluster s.fn _ _ [] q hq).1
      have hst1 : ∀ p ∈ st.trace ++ (runFetching cluster s.fn (Xp.Gen.maxRequirementsIterations + 1)
          (stepRequest observed st s) []).1.map (fun q => (i, q)), p.2.observed = observed := by
        intro p hp
        rcases List.mem_append.mp hp with hp | hp
        · exact hst p hp
        · obtain ⟨q, hq, rfl⟩ := List.mem_map.mp hp
          exact htr q hq
      cases ho : (runFetching cluster s.fn (Xp.Gen.maxRequirementsIterations + 1) (stepRequest observed st s) []).2 with
      | err => simp only [traceOf]; exact hst1
      | ok rsp =>
        simp only []
        by_cases hf : (eventsUntilFatal s.name rsp.results).2 = true
        · simp only [hf, if_true, traceOf]; exact hst1
        · simp only [hf, Bool.false_eq_true, if_false]
          exact ih _ _ hst1

/-- Results are surfaced in pipeline order and none before the first fatal one is dropped:
the events of one response are exactly its non-fatal results, in order, up to the first
fatal result. -/
theorem events_in_order (step : String) (rs : List Result) :
    (eventsUntilFatal step rs).1 = (rs.takeWhile (fun r => decide (r.sev ≠ .fatal))).map (evOf step) ∧
    ((eventsUntilFatal step rs).2 = true ↔ ∃ r ∈ rs, r.sev = .fatal) := by
  induction rs with
  | nil => simp [eventsUntilFatal]
  | cons r rs ih =>
    unfold eventsUntilFatal
    by_cases h : r.sev = .fatal
    · simp only [h, if_true, List.takeWhile_cons, ne_eq, not_true_eq_false, decide_false]
      refine ⟨by simp, ?_⟩
      constructor
      · intro _; exact ⟨r, List.mem_cons_self .., h⟩
      · intro _; trivial
    · simp only [h, if_false, List.takeWhile_cons, ne_eq, not_false_eq_true, decide_true]
      refine ⟨by simp [ih.1], ?_⟩
      rw [ih.2]
      constructor
      · rintro ⟨x, hx, hf⟩; exact ⟨x, List.mem_cons_of_mem _ hx, hf⟩
      · rintro ⟨x, hx, hf⟩
        rcases List.mem_cons.mp hx with rfl | hx
        · exact absurd hf h
        · exact ⟨x, hx, hf⟩


/-! ### step k's request, exactly (every pipeline length, every k) -/

/-- **Step k's request, exactly.** For every pipeline `pre ++ s :: post` — every length, every
position `k = pre.length` — whose steps before `s` completed leaving the state `st`, and `s`'s
credentials being available: the trace of the run is the requests of the earlier steps (all with
an index `< k`), then `(k, stepRequest observed st s)`: the request that carries the SAME observed
state as every other step, the desired state / XR readiness / context of `st`, no extra
resources, and `s`'s own input and credentials; whatever follows carries an index `≥ k`. And `st`
is the initial (empty) state when `k = 0`, otherwise its desired state, XR readiness and context
are exactly those of the response the runner returned for step `k-1` (which carried no fatal
result) when it was started from the state its own predecessors left. -/
theorem step_request_exact (cluster : List ClusterObj) (observed : List Res)
    (pre : List Step) (s : Step) (post : List Step) (st : PipeState)
    (hpre : runPipeline cluster observed pre 0 initState = .done st)
    (hc : s.creds.any (·.2.isNone) = false) :
    (∃ tail, traceOf (runPipeline cluster observed (pre ++ s :: post) 0 initState) =
        st.trace ++ (pre.length, stepRequest observed st s) :: tail ∧ ∀ p ∈ tail, pre.length ≤ p.1) ∧
    (∀ p ∈ st.trace, p.1 < pre.length) ∧
    (pre = [] → st = initState) ∧
    (∀ pre' s', pre = pre' ++ [s'] → ∃ st' rsp,
        runPipeline cluster observed pre' 0 initState = .done st' ∧
        (runFetching cluster s'.fn (Xp.Gen.maxRequirementsIterations + 1) (stepRequest observed st' s') []).2 = .ok rsp ∧
        hasFatal rsp.results = false ∧
        st.desired = rsp.desired ∧ st.xrReady = rsp.xrReady ∧ st.ctx = rsp.ctx ∧
        st.conds = st'.conds ++ rsp.conds ∧ st.events = st'.events ++ (eventsUntilFatal s'.name rsp.results).1) := by
  refine ⟨?_, ?_, ?_, ?_⟩
  · rw [runPipeline_append_eq, hpre]
    simpa using cons_first_request cluster observed s post (0 + pre.length) st hc
  · obtain ⟨t, ht, hti⟩ := done_trace_bounds cluster observed pre 0 initState st hpre
    intro p hp
    rw [ht] at hp
    simp only [initState, List.nil_append] at hp
    have := (hti p hp).2
    omega
  · rintro rfl
    rw [runPipeline_nil] at hpre; cases hpre; rfl
  · rintro pre' s' rfl
    rw [runPipeline_append_eq] at hpre
    cases h1 : runPipeline cluster observed pre' 0 initState with
    | failed a b => rw [h1] at hpre; cases hpre
    | done st' =>
      rw [h1] at hpre
      obtain ⟨_, rsp, hr, hf, hst⟩ := single_done cluster observed s' _ st' st hpre
      exact ⟨st', rsp, rfl, hr, hf, by rw [hst]; rfl, by rw [hst]; rfl, by rw [hst]; rfl, by rw [hst]; rfl, by rw [hst]; rfl⟩

/-- hypotheses satisfiable: a two-step pipeline whose first step adds a resource and sets a context key -/
example : ∃ st, runPipeline [] [] [⟨"s0", fun _ => some ⟨[⟨"a", "KA", "", 1, true⟩], none, [("k", "v")], [], [], []⟩, "", []⟩] 0 initState = .done st ∧
    st.desired = [⟨"a", "KA", "", 1, true⟩] ∧ st.ctx = [("k", "v")] := ⟨_, rfl, rfl, rfl⟩

/-- **The final desired state is the last step's output**: a pipeline `pre ++ [s]` that completes
ends with exactly the desired state, XR readiness and context of the response the runner
returned for `s`. -/
theorem final_desired_is_last_output (cluster : List ClusterObj) (observed : List Res)
    (pre : List Step) (s : Step) (st : PipeState)
    (h : runPipeline cluster observed (pre ++ [s]) 0 initState = .done st) :
    ∃ st' rsp, runPipeline cluster observed pre 0 initState = .done st' ∧
      (runFetching cluster s.fn (Xp.Gen.maxRequirementsIterations + 1) (stepRequest observed st' s) []).2 = .ok rsp ∧
      st.desired = rsp.desired ∧ st.xrReady = rsp.xrReady ∧ st.ctx = rsp.ctx := by
  rw [runPipeline_append_eq] at h
  cases h1 : runPipeline cluster observed pre 0 initState with
  | failed a b => rw [h1] at h; cases h
  | done st' =>
    rw [h1] at h
    obtain ⟨_, rsp, hr, _, hst⟩ := single_done cluster observed s _ st' st h
    exact ⟨st', rsp, rfl, hr, by rw [hst]; rfl, by rw [hst]; rfl, by rw [hst]; rfl⟩

example : ∃ st, runPipeline [] [] ([] ++ [⟨"s0", fun _ => some ⟨[⟨"a", "KA", "", 1, true⟩], some true, [], [], [], []⟩, "", []⟩]) 0 initState = .done st :=
  ⟨_, rfl⟩

/-! ### the request as Compose builds it (Xp/Model/C04Compose.lean) -/

/-- **The full request of step k.** The step the pipeline loop runs for a `PipelineStep` whose
preparation succeeded (input decoded to `i`, credentials loaded to `cd`) starts, from the
accumulated state `st`, with a request whose full form is exactly `buildRequest o st i cd`: the
observed state `o` built once by AsState (XR, its connection details, every observed composed
resource with its connection details), `st`'s desired state / XR readiness / context, the step's
own input and its own credentials' data, no extra resources and no meta. -/
theorem compose_first_request (s : SecretStore) (o : ObservedState) (xs : XStep) (st : PipeState)
    (i : Bool × String) (cd : List (String × KV)) (hp : prepare s xs = some (i, cd)) :
    (toStep s o xs).creds.any (·.2.isNone) = false ∧
    embed o i cd (stepRequest (o.resources.map (·.res)) st (toStep s o xs)) = buildRequest o st i cd ∧
    ∀ q, (toStep s o xs).fn q = xs.fn (embed o i cd q) := by
  unfold toStep
  simp only [hp]
  refine ⟨?_, ?_, ?_⟩
  · simp [List.any_map]
  · simp [buildRequest, stepRequest, embed, keysOf, List.map_map, Function.comp_def]
  · intro q; trivial

example : prepare ⟨[("sec", [("u", "v")])], []⟩ ⟨"s0", fun _ => none, some (some "in"), [⟨"c", true, some "sec"⟩]⟩ =
    some ((true, "in"), [("c", [("u", "v")])]) := by decide

/-- **A step whose preparation fails is never called**: when the input does not decode or a
credentials Get fails, the pipeline stops at that step with the trace unchanged (no request is
sent to it or to any later step) and nothing is surfaced. -/
theorem prepare_failure_stops (s : SecretStore) (o : ObservedState) (xs : XStep) (ss : List Step) (k : Nat) (st : PipeState)
    (cluster : List ClusterObj) (hp : prepare s xs = none) :
    runPipeline cluster (o.resources.map (·.res)) (toStep s o xs :: ss) k st = .failed st false := by
  unfold toStep
  simp only [hp]
  unfold runPipeline
  simp

example : prepare ⟨[], []⟩ ⟨"s0", fun _ => none, none, [⟨"c", true, some "missing"⟩]⟩ = none := by decide
example : prepare ⟨[("sec", [])], []⟩ ⟨"s0", fun _ => none, some none, []⟩ = none := by decide

/-- **Credentials, error handling.** The credentials loop succeeds iff the Get of every
secret-sourced credential with a secret reference finds its Secret — NotFound fails the step
just like any other error; credentials of another source, or without a reference, are skipped. -/
theorem loadCreds_ok_iff (s : SecretStore) (cs : List Cred) (acc : List (String × KV)) :
    (loadCreds s acc cs).isSome ↔
      ∀ c ∈ cs, c.isSecret = true → ∀ ref, c.secretRef = some ref → ∃ d, s.get ref = .found d := by
  induction cs generalizing acc with
  | nil => simp [loadCreds]
  | cons c cs ih =>
    unfold loadCreds
    by_cases hs : c.isSecret = true
    · cases hr : c.secretRef with
      | none =>
        simp only [hs, Bool.not_true, Bool.false_eq_true, if_false, ih, List.mem_cons, forall_eq_or_imp, hr]
        simp
      | some ref =>
        cases hg : s.get ref with
        | found d =>
          simp only [hs, Bool.not_true, Bool.false_eq_true, if_false, hg, ih, List.mem_cons, forall_eq_or_imp, hr]
          simp [hg]
        | notFound =>
          simp only [hs, Bool.not_true, Bool.false_eq_true, if_false, hg, List.mem_cons, forall_eq_or_imp, hr]
          simp [hg]
        | error =>
          simp only [hs, Bool.not_true, Bool.false_eq_true, if_false, hg, List.mem_cons, forall_eq_or_imp, hr]
          simp [hg]
    · simp only [hs, Bool.not_false, if_true, ih, List.mem_cons, forall_eq_or_imp]
      simp

theorem mem_upsert {β : Type} (l : List (String × β)) (k : String) (v : β) (p : String × β) (h : p ∈ upsert l k v) :
    p ∈ l ∨ p = (k, v) := by
  unfold upsert at h
  split at h
  · obtain ⟨q, hq, rfl⟩ := List.mem_map.mp h
    by_cases hk : (q.1 == k) = true
    · simp [hk]
    · simp [hk, hq]
  · rcases List.mem_append.mp h with h | h
    · exact Or.inl h
    · exact Or.inr (by simpa using h)

/-- **Own credentials only.** Every entry of the credentials a step is sent is the data of a
Secret one of the step's OWN secret-sourced credential entries names, under that entry's name. -/
theorem loadCreds_sound (s : SecretStore) (cs : List Cred) (acc out : List (String × KV))
    (h : loadCreds s acc cs = some out) :
    ∀ p ∈ out, p ∈ acc ∨ ∃ c ∈ cs, c.name = p.1 ∧ c.isSecret = true ∧ ∃ ref, c.secretRef = some ref ∧ s.get ref = .found p.2 := by
  induction cs generalizing acc with
  | nil => simp [loadCreds] at h; subst h; intro p hp; exact Or.inl hp
  | cons c cs ih =>
    unfold loadCreds at h
    have lift : ∀ p : String × KV, (∃ c' ∈ cs, c'.name = p.1 ∧ c'.isSecret = true ∧ ∃ ref, c'.secretRef = some ref ∧ s.get ref = .found p.2) →
        ∃ c' ∈ c :: cs, c'.name = p.1 ∧ c'.isSecret = true ∧ ∃ ref, c'.secretRef = some ref ∧ s.get ref = .found p.2 := by
      rintro p ⟨c', hc', rest⟩; exact ⟨c', List.mem_cons_of_mem _ hc', rest⟩
    by_cases hs : c.isSecret = true
    · simp only [hs, Bool.not_true, Bool.false_eq_true, if_false] at h
      cases hr : c.secretRef with
      | none =>
        rw [hr] at h
        intro p hp
        rcases ih acc h p hp with h1 | h1
        · exact Or.inl h1
        · exact Or.inr (lift p h1)
      | some ref =>
        rw [hr] at h
        cases hg : s.get ref with
        | found d =>
          simp only [hg] at h
          intro p hp
          rcases ih _ h p hp with h1 | h1
          · rcases mem_upsert acc c.name d p h1 with h2 | h2
            · exact Or.inl h2
            · subst h2
              exact Or.inr ⟨c, List.mem_cons_self .., rfl, hs, ref, hr, hg⟩
          · exact Or.inr (lift p h1)
        | notFound => simp only [hg] at h; cases h
        | error => simp only [hg] at h; cases h
    · simp only [hs, Bool.not_false, if_true] at h
      intro p hp
      rcases ih acc h p hp with h1 | h1
      · exact Or.inl h1
      · exact Or.inr (lift p h1)

example : loadCreds ⟨[("sec", [("u", "v")])], []⟩ [] [⟨"c", true, some "sec"⟩, ⟨"d", false, some "sec"⟩] = some [("c", [("u", "v")])] := by decide

theorem beq_false_of_ne' {a b : String} (h : ¬a = b) : (a == b) = false := by simpa using h

theorem lookup_cons_ne {β : Type} (n a1 : String) (a2 : β) (l : List (String × β)) (h : ¬n = a1) :
    List.lookup n ((a1, a2) :: l) = List.lookup n l := by
  simp [List.lookup, beq_false_of_ne' h]

theorem lookup_cons_eq {β : Type} (n : String) (a2 : β) (l : List (String × β)) :
    List.lookup n ((n, a2) :: l) = some a2 := by
  simp [List.lookup]

theorem lookup_map_upsert {β : Type} (l : List (String × β)) (k : String) (v : β) (n : String) :
    (l.map (fun p => if p.1 == k then (k, v) else p)).lookup n =
      if n = k then (if l.any (·.1 == k) then some v else none) else l.lookup n := by
  induction l with
  | nil => simp
  | cons a l ih =>
    obtain ⟨a1, a2⟩ := a
    simp only [List.map_cons, List.any_cons]
    by_cases hak : a1 = k
    · subst hak
      simp only [BEq.rfl, if_true, Bool.true_or]
      by_cases hn : n = a1
      · subst hn; simp only [lookup_cons_eq, if_true]
      · rw [lookup_cons_ne _ _ _ _ hn, ih, lookup_cons_ne _ _ _ _ hn]; simp only [hn, if_false]
    · simp only [beq_false_of_ne' hak, Bool.false_eq_true, if_false, Bool.false_or]
      by_cases hna : n = a1
      · subst hna
        simp only [lookup_cons_eq, hak, if_false]
      · rw [lookup_cons_ne _ _ _ _ hna, ih, lookup_cons_ne _ _ _ _ hna]

theorem lookup_append_single {β : Type} (l : List (String × β)) (k : String) (v : β) (n : String) :
    (l ++ [(k, v)]).lookup n = match l.lookup n with
      | some x => some x
      | none => if n = k then some v else none := by
  induction l with
  | nil =>
    by_cases h : n = k
    · subst h; simp only [List.nil_append, lookup_cons_eq, List.lookup, if_true]
    · simp only [List.nil_append, lookup_cons_ne _ _ _ _ h, List.lookup, h, if_false]
  | cons a l ih =>
    obtain ⟨a1, a2⟩ := a
    by_cases hna : n = a1
    · subst hna; simp only [List.cons_append, lookup_cons_eq]
    · simp only [List.cons_append, lookup_cons_ne _ _ _ _ hna, ih]

theorem lookup_none_of_not_any {β : Type} (l : List (String × β)) (k : String) (h : l.any (·.1 == k) = false) :
    l.lookup k = none := by
  induction l with
  | nil => rfl
  | cons a l ih =>
    obtain ⟨a1, a2⟩ := a
    simp only [List.any_cons, Bool.or_eq_false_iff] at h
    have hne : ¬k = a1 := by
      intro e; subst e; simp at h
    rw [lookup_cons_ne _ _ _ _ hne]; exact ih h.2

/-- `upsert` is a map update -/
theorem lookup_upsert {β : Type} (l : List (String × β)) (k : String) (v : β) (n : String) :
    (upsert l k v).lookup n = if n = k then some v else l.lookup n := by
  unfold upsert
  by_cases ha : l.any (·.1 == k) = true
  · simp only [ha, if_true, lookup_map_upsert]
  · have ha' : l.any (·.1 == k) = false := (Bool.not_eq_true _).mp ha
    simp only [ha', Bool.false_eq_true, if_false, lookup_append_single]
    by_cases hn : n = k
    · subst hn; simp [lookup_none_of_not_any l n ha']
    · simp only [hn, if_false]; cases l.lookup n <;> rfl

/-- **Credentials are a map keyed by name; a later entry of the same name replaces an earlier
one.** When the credentials loop succeeds, the data sent under name `n` is that of the LAST of the
step's own entries named `n` that is secret-sourced with a reference (its Secret's data), and
there is no entry `n` when the step has none. -/
theorem loadCreds_lookup (s : SecretStore) (cs : List Cred) (acc out : List (String × KV))
    (h : loadCreds s acc cs = some out) (n : String) :
    out.lookup n = match (cs.filterMap (credEntry s)).reverse.lookup n with
      | some d => some d
      | none => acc.lookup n := by
  induction cs generalizing acc with
  | nil => simp [loadCreds] at h; subst h; simp
  | cons c cs ih =>
    unfold loadCreds at h
    by_cases hs : c.isSecret = true
    · simp only [hs, Bool.not_true, Bool.false_eq_true, if_false] at h
      cases hr : c.secretRef with
      | none =>
        rw [hr] at h
        have he : credEntry s c = none := by simp [credEntry, hs, hr]
        simpa [List.filterMap_cons, he] using ih acc h
      | some ref =>
        rw [hr] at h
        cases hg : s.get ref with
        | found d =>
          simp only [hg] at h
          have he : credEntry s c = some (c.name, d) := by simp [credEntry, hs, hr, hg]
          rw [ih _ h]
          simp only [List.filterMap_cons, he, List.reverse_cons, lookup_append_single, lookup_upsert]
          cases (List.filterMap (credEntry s) cs).reverse.lookup n with
          | some x => simp
          | none => by_cases hn : n = c.name <;> simp [hn]
        | notFound => simp only [hg] at h; cases h
        | error => simp only [hg] at h; cases h
    · simp only [hs, Bool.not_false, if_true] at h
      have he : credEntry s c = none := by simp [credEntry, hs]
      simpa [List.filterMap_cons, he] using ih acc h

example : loadCreds ⟨[("sec1", [("u", "1")]), ("sec2", [("t", "2")])], []⟩ [] [⟨"c", true, some "sec1"⟩, ⟨"c", true, some "sec2"⟩] =
    some [("c", [("t", "2")])] := by decide

/-- **Connection details, error handling.** FetchConnection fails only when a referenced Secret's
Get answers an error other than NotFound; no reference and NotFound both yield empty details. -/
theorem fetchConnection_cases (s : SecretStore) (ref : Option String) :
    (fetchConnection s ref = none ↔ ∃ n, ref = some n ∧ s.get n = .error) ∧
    (ref = none → fetchConnection s ref = some []) ∧
    (∀ n, ref = some n → s.get n = .notFound → fetchConnection s ref = some []) ∧
    (∀ n d, ref = some n → s.get n = .found d → fetchConnection s ref = some d) := by
  refine ⟨?_, ?_, ?_, ?_⟩
  · cases ref with
    | none => simp [fetchConnection]
    | some n => cases hg : s.get n <;> simp [fetchConnection, hg]
  · rintro rfl; rfl
  · rintro n rfl hg; simp [fetchConnection, hg]
  · rintro n d rfl hg; simp [fetchConnection, hg]

example : fetchConnection ⟨[("sec", [("u", "v")])], ["bad"]⟩ (some "bad") = none ∧
    fetchConnection ⟨[("sec", [("u", "v")])], ["bad"]⟩ (some "sec") = some [("u", "v")] := by decide

/-- **Observed composed resources and their connection details.** Every resource the observer
returns is a referenced object that is not controlled by someone else, under its
composition-resource-name, with exactly the connection details FetchConnection yields for its
own `writeConnectionSecretToRef`. -/
theorem observe_sound (s : SecretStore) (refs : List (String × String)) (objs : List CObj) (out : List ORes)
    (h : observeX s refs objs = some out) :
    ∀ r ∈ out, ∃ o ∈ objs, (o.kind, o.name) ∈ refs ∧ o.annot = r.res.rname ∧ o.annot ≠ "" ∧ (o.ctrl == "other") = false ∧
      r.res = ⟨o.annot, o.kind, o.name, o.content, false⟩ ∧ fetchConnection s o.connRef = some r.conn := by
  suffices H : ∀ (rs : List (String × String)) (acc out : List ORes),
      (∀ x ∈ rs, x ∈ refs) →
      (∀ r ∈ acc, ∃ o ∈ objs, (o.kind, o.name) ∈ refs ∧ o.annot = r.res.rname ∧ o.annot ≠ "" ∧ (o.ctrl == "other") = false ∧
        r.res = ⟨o.annot, o.kind, o.name, o.content, false⟩ ∧ fetchConnection s o.connRef = some r.conn) →
      rs.foldlM (observeStep s objs) acc = some out →
      ∀ r ∈ out, ∃ o ∈ objs, (o.kind, o.name) ∈ refs ∧ o.annot = r.res.rname ∧ o.annot ≠ "" ∧ (o.ctrl == "other") = false ∧
        r.res = ⟨o.annot, o.kind, o.name, o.content, false⟩ ∧ fetchConnection s o.connRef = some r.conn from
    H refs [] out (fun _ hx => hx) (by simp) h
  intro rs
  induction rs with
  | nil => intro acc out _ hacc h; simp [List.foldlM] at h; subst h; exact hacc
  | cons x rs ih =>
    intro acc out hsub hacc h
    simp only [List.foldlM_cons, Option.bind_eq_bind] at h
    cases hstep : observeStep s objs acc x with
    | none => rw [hstep] at h; simp at h
    | some acc' =>
      rw [hstep] at h
      simp only [Option.bind_some] at h
      refine ih acc' out (fun y hy => hsub y (List.mem_cons_of_mem _ hy)) ?_ h
      unfold observeStep at hstep
      split at hstep
      · cases hstep; exact hacc
      · split at hstep
        · cases hstep; exact hacc
        · rename_i o hfind
          split at hstep
          · cases hstep; exact hacc
          · rename_i hctrl
            split at hstep
            · cases hstep
            · rename_i hannot
              split at hstep
              · cases hstep
              · rename_i c hconn
                cases hstep
                intro r hr
                rcases List.mem_append.mp hr with hr | hr
                · exact hacc r (List.mem_filter.mp hr).1
                · simp only [List.mem_singleton] at hr
                  subst hr
                  have hm := List.mem_of_find?_eq_some hfind
                  have hp := List.find?_some hfind
                  simp only [Bool.and_eq_true, beq_iff_eq] at hp
                  have hx : (o.kind, o.name) = x := by
                    cases x; simp only [Prod.mk.injEq]; exact ⟨hp.1, hp.2⟩
                  exact ⟨o, hm, hx ▸ hsub x (List.mem_cons_self ..), rfl, by simpa using hannot, by simpa using hctrl, rfl, hconn⟩

example : observeX ⟨[("sec", [("u", "v")])], []⟩ [("KA", "a1")] [⟨"KA", "a1", "ra", "xr", 1, some "sec"⟩] =
    some [⟨⟨"ra", "KA", "a1", 1, false⟩, [("u", "v")]⟩] := by decide

theorem observeStep_keeps (s : SecretStore) (objs : List CObj) (acc acc' : List ORes) (x : String × String)
    (h : observeStep s objs acc x = some acc') (n : String) (hn : hasName acc n) : hasName acc' n := by
  unfold observeStep at h
  split at h
  · cases h; exact hn
  · split at h
    · cases h; exact hn
    · rename_i o _
      split at h
      · cases h; exact hn
      · split at h
        · cases h
        · split at h
          · cases h
          · rename_i c _
            cases h
            obtain ⟨r, hr, hrn⟩ := hn
            by_cases he : r.res.rname = o.annot
            · exact ⟨_, List.mem_append_right _ (List.mem_singleton.mpr rfl), by rw [← hrn, he]⟩
            · exact ⟨r, List.mem_append_left _ (List.mem_filter.mpr ⟨hr, by simpa using he⟩), hrn⟩

theorem observeStep_adds (s : SecretStore) (objs : List CObj) (acc acc' : List ORes) (x : String × String) (o : CObj)
    (h : observeStep s objs acc x = some acc') (hx : (x.2 == "") = false)
    (hfind : objs.find? (fun o => o.kind == x.1 && o.name == x.2) = some o) (hctrl : (o.ctrl == "other") = false) :
    hasName acc' o.annot := by
  unfold observeStep at h
  simp only [hx, Bool.false_eq_true, if_false, hfind, hctrl] at h
  split at h
  · cases h
  · split at h
    · cases h
    · cases h
      exact ⟨_, List.mem_append_right _ (List.mem_singleton.mpr rfl), rfl⟩

theorem observe_fold_keeps (s : SecretStore) (objs : List CObj) (rs : List (String × String)) (acc out : List ORes)
    (h : rs.foldlM (observeStep s objs) acc = some out) (n : String) (hn : hasName acc n) : hasName out n := by
  induction rs generalizing acc with
  | nil => simp [List.foldlM] at h; subst h; exact hn
  | cons x rs ih =>
    simp only [List.foldlM_cons, Option.bind_eq_bind] at h
    cases hstep : observeStep s objs acc x with
    | none => rw [hstep] at h; simp at h
    | some acc' =>
      rw [hstep] at h
      exact ih acc' h (observeStep_keeps s objs acc acc' x hstep n hn)

/-- **Every existing composed resource of this XR is observed.** When the observer succeeds,
every reference that names an object which exists and is not controlled by someone else is
represented in the observed state under the object's composition-resource-name (with
`observe_sound`: carrying its own connection details). -/
theorem observe_complete (s : SecretStore) (refs : List (String × String)) (objs : List CObj) (out : List ORes)
    (h : observeX s refs objs = some out) (x : String × String) (hx : x ∈ refs) (hname : (x.2 == "") = false)
    (o : CObj) (hfind : objs.find? (fun o => o.kind == x.1 && o.name == x.2) = some o) (hctrl : (o.ctrl == "other") = false) :
    ∃ r ∈ out, r.res.rname = o.annot := by
  suffices H : ∀ (rs : List (String × String)) (acc : List ORes), x ∈ rs →
      rs.foldlM (observeStep s objs) acc = some out → hasName out o.annot from H refs [] hx h
  intro rs
  induction rs with
  | nil => intro _ hm; cases hm
  | cons y rs ih =>
    intro acc hm hf
    simp only [List.foldlM_cons, Option.bind_eq_bind] at hf
    cases hstep : observeStep s objs acc y with
    | none => rw [hstep] at hf; simp at hf
    | some acc' =>
      rw [hstep] at hf
      simp only [Option.bind_some] at hf
      rcases List.mem_cons.mp hm with rfl | hm
      · exact observe_fold_keeps s objs rs acc' out hf _ (observeStep_adds s objs acc acc' x o hstep hname hfind hctrl)
      · exact ih acc' hm hf

example : observeX ⟨[], []⟩ [("KA", "a1"), ("KB", "gone")] [⟨"KA", "a1", "ra", "xr", 1, none⟩] =
    some [⟨⟨"ra", "KA", "a1", 1, false⟩, []⟩] := by decide

/-- **The constant part of every request.** Every full request of the run carries the observed
state AsState built once (the XR's name and connection details, the connection details of every
observed composed resource), no meta, and the input flag and credentials data that the
preparation of ITS OWN step produced. -/
theorem xtrace_constant_part (s : SecretStore) (o : ObservedState) (steps : List XStep) (tr : List (Nat × Request))
    (k : Nat) (xq : XRequest) (h : (k, xq) ∈ xtrace s o steps tr) :
    xq.xrName = o.xrName ∧ xq.xrConn = o.xrConn ∧ xq.obsConn = o.resources.map (fun r => (r.res.rname, r.conn)) ∧ xq.metaTag = "" ∧
    ∃ xs i cd q, steps[k]? = some xs ∧ prepare s xs = some (i, cd) ∧ (k, q) ∈ tr ∧ xq = embed o i cd q ∧
      xq.credData = cd ∧ xq.hasInput = i.1 := by
  unfold xtrace at h
  obtain ⟨p, hp, hsome⟩ := List.mem_filterMap.mp h
  cases hx : steps[p.1]? with
  | none => simp [hx] at hsome
  | some xs =>
    cases hprep : prepare s xs with
    | none => simp [hx, hprep] at hsome
    | some icd =>
      obtain ⟨i, cd⟩ := icd
      simp only [hx, hprep, Option.some.injEq, Prod.mk.injEq] at hsome
      obtain ⟨rfl, rfl⟩ := hsome
      exact ⟨rfl, rfl, rfl, rfl, xs, i, cd, p.2, hx, hprep, hp, rfl, rfl, rfl⟩

example : xtrace ⟨[], []⟩ ⟨"xr", [("a", "b")], []⟩ [⟨"s0", fun _ => none, none, []⟩] [(0, ⟨[], [], none, [], [], "", []⟩)] =
    [(0, ⟨⟨[], [], none, [], [], "", []⟩, "xr", [("a", "b")], [], [], false, ""⟩)] := by decide

theorem mem_xtrace_idx (s : SecretStore) (o : ObservedState) (steps : List XStep) (tr : List (Nat × Request))
    (y : Nat × XRequest) (h : y ∈ xtrace s o steps tr) : ∃ x ∈ tr, x.1 = y.1 := by
  unfold xtrace at h
  obtain ⟨p, hp, hsome⟩ := List.mem_filterMap.mp h
  refine ⟨p, hp, ?_⟩
  cases hx : steps[p.1]? with
  | none => simp [hx] at hsome
  | some xs =>
    cases hprep : prepare s xs with
    | none => simp [hx, hprep] at hsome
    | some icd => simp only [hx, hprep, Option.some.injEq] at hsome; rw [← hsome]

/-- **Step k's full request, for every pipeline and every k.** In a Compose run over the
pipeline `pre ++ xs :: post` (any length, position `k = pre.length`) in which the steps before
`xs` completed leaving the state `st` (so, by `step_request_exact`, `st` holds exactly the
desired state and context step `k-1` returned, or nothing when `k = 0`) and whose preparation of
`xs` gave input `i` and credentials `cd`: the full requests the functions received are the
requests of earlier steps (index `< k`), then `(k, buildRequest o st i cd)` — observed state `o`
with the XR's and every observed resource's connection details, `st`'s desired state and
context, `xs`'s own input and own credentials, no extra resources, no meta — then requests with
an index `≥ k`. -/
theorem compose_step_request_exact (w : XWorld) (pre : List XStep) (xs : XStep) (post : List XStep)
    (o : ObservedState) (r : PipeResult) (st : PipeState) (i : Bool × String) (cd : List (String × KV))
    (hrun : composeX w (pre ++ xs :: post) = .ran o r)
    (hpre : runPipeline w.cluster (o.resources.map (·.res)) (pre.map (toStep w.secrets o)) 0 initState = .done st)
    (hp : prepare w.secrets xs = some (i, cd)) :
    ∃ head tail, xtrace w.secrets o (pre ++ xs :: post) (traceOf r) = head ++ (pre.length, buildRequest o st i cd) :: tail ∧
      (∀ p ∈ head, p.1 < pre.length) ∧ (∀ p ∈ tail, pre.length ≤ p.1) := by
  have hr : r = runPipeline w.cluster (o.resources.map (·.res)) ((pre ++ xs :: post).map (toStep w.secrets o)) 0 initState := by
    unfold composeX at hrun
    split at hrun
    · cases hrun
    · split at hrun
      · cases hrun
      · simp only [XResult.ran.injEq] at hrun
        obtain ⟨ho, hr⟩ := hrun
        subst ho; exact hr.symm
  obtain ⟨hc, hemb, _⟩ := compose_first_request w.secrets o xs st i cd hp
  rw [List.map_append, List.map_cons] at hr
  obtain ⟨⟨tail, htr, htail⟩, hhead, _, _⟩ :=
    step_request_exact w.cluster (o.resources.map (·.res)) (pre.map (toStep w.secrets o)) (toStep w.secrets o xs)
      (post.map (toStep w.secrets o)) st hpre hc
  rw [← hr] at htr
  simp only [List.length_map] at htr htail hhead
  refine ⟨xtrace w.secrets o (pre ++ xs :: post) st.trace, xtrace w.secrets o (pre ++ xs :: post) tail, ?_, ?_, ?_⟩
  · rw [htr]
    have hk : (pre ++ xs :: post)[pre.length]? = some xs := by simp
    simp only [xtrace, List.filterMap_append, List.filterMap_cons, hk, hp, hemb]
  · intro p hp'
    obtain ⟨x, hx, hxe⟩ := mem_xtrace_idx _ _ _ _ p hp'
    rw [← hxe]; exact hhead x hx
  · intro p hp'
    obtain ⟨x, hx, hxe⟩ := mem_xtrace_idx _ _ _ _ p hp'
    rw [← hxe]; exact htail x hx

example : ∃ o r, composeX ⟨"xr", some "sec", [], [], ⟨[("sec", [("u", "v")])], []⟩, []⟩
    ([] ++ (⟨"s0", fun q => if q.xrConn = [("u", "v")] then some ⟨[], none, [], [], [], []⟩ else none, none, []⟩ : XStep) :: []) = .ran o r ∧
    (traceOf r).length = 1 := ⟨_, _, rfl, by decide⟩

/-! ### response handling -/

/-- the status switch of Compose maps every status to True, False or Unknown, and only the two
definite ones to themselves -/
theorem convStatus_cases (st : String) :
    (convStatus st = "True" ↔ st = "True") ∧ (convStatus st = "False" ↔ st = "False") ∧
    (convStatus st = "True" ∨ convStatus st = "False" ∨ convStatus st = "Unknown") := by
  unfold convStatus
  by_cases h1 : st = "True"
  · subst h1; decide
  · by_cases h2 : st = "False"
    · subst h2; decide
    · simp [h1, h2]

/-! ### regenerated facts: the modelled Go functions still have the modelled call skeleton -/

/-- `FunctionComposer.Compose`: observed state built once before the loop; per step: input, the
credentials loop with its secret Get, the call, threading of desired and context, conditions,
results with the severity switch; nothing reads meta / ttl. -/
theorem skeleton_compose : Xp.Gen.c04SkelCompose = skelCompose := by decide

/-- `FetchingFunctionRunner.RunFunction` -/
theorem skeleton_fetching : Xp.Gen.c04SkelFetching = skelFetching := by decide

/-- `ExistingExtraResourcesFetcher.Fetch` -/
theorem skeleton_fetch : Xp.Gen.c04SkelFetch = skelFetch := by decide

/-- `ExistingComposedResourceObserver.ObserveComposedResources` -/
theorem skeleton_observe : Xp.Gen.c04SkelObserve = skelObserve := by decide

/-- `AsState` -/
theorem skeleton_as_state : Xp.Gen.c04SkelAsState = skelAsState := by decide

/-- `SecretConnectionDetailsFetcher.FetchConnection` -/
theorem skeleton_fetch_connection : Xp.Gen.c04SkelFetchConnection = skelFetchConnection := by decide

/-- `convertTarget`, tabulated on the real function for every target value of the proto enum -/
theorem convert_target_table : ∀ p ∈ Xp.Gen.c04TargetTable, convertTarget p.1 = p.2 := by decide

/-- `PackagedFunctionRunner.RunFunction` -/
theorem skeleton_pkg_run : Xp.Gen.c04SkelPkgRun = Xp.C04Conn.skelPkgRun := by decide

/-- `PackagedFunctionRunner.getClientConn` -/
theorem skeleton_get_client_conn : Xp.Gen.c04SkelGetClientConn = Xp.C04Conn.skelGetClientConn := by decide

/-- `PackagedFunctionRunner.GarbageCollectConnectionsNow` -/
theorem skeleton_gc_conns : Xp.Gen.c04SkelGcConns = Xp.C04Conn.skelGcConns := by decide

/-- `BetaFallBackFunctionRunnerServiceClient.RunFunction`, `toBeta`, `fromBeta` -/
theorem skeleton_beta : Xp.Gen.c04SkelBeta = Xp.C04Conn.skelBeta ∧ Xp.Gen.c04SkelToBeta = Xp.C04Conn.skelReencode ∧
    Xp.Gen.c04SkelFromBeta = Xp.C04Conn.skelReencode := by decide

/-! ### results and conditions of the whole pipeline -/

theorem eventsUntilFatal_no_fatal (step : String) (rs : List Result) (h : hasFatal rs = false) :
    (eventsUntilFatal step rs).1 = rs.map (evOf step) := by
  induction rs with
  | nil => rfl
  | cons r rs ih =>
    have h1 : r.sev ≠ .fatal := by
      intro hr; simp [hasFatal, hr] at h
    have h2 : hasFatal rs = false := by
      simp only [hasFatal, List.any_cons, Bool.or_eq_false_iff] at h ⊢; exact h.2
    unfold eventsUntilFatal
    simp [h1, ih h2]

/-- **Results and conditions are surfaced in pipeline order and none is dropped**, for every
pipeline: whatever way the run ends, the events and conditions of its final state are, in
pipeline order, those of every accepted response (`accepted`: the responses the runner returned,
step by step, up to and including the first one with a fatal result) — all conditions of each,
and its results up to a fatal one. When the run completes, every step has exactly one accepted
response, none carries a fatal result, and the events are ALL results of ALL steps, in order. -/
theorem results_and_conditions_in_pipeline_order (cluster : List ClusterObj) (observed : List Res) (ss : List Step) :
    (finalState (runPipeline cluster observed ss 0 initState)).events =
      (accepted cluster observed ss 0 initState).flatMap (fun p => (eventsUntilFatal p.1 p.2.results).1) ∧
    (finalState (runPipeline cluster observed ss 0 initState)).conds =
      (accepted cluster observed ss 0 initState).flatMap (fun p => p.2.conds) ∧
    (∀ st, runPipeline cluster observed ss 0 initState = .done st →
      (accepted cluster observed ss 0 initState).map (·.1) = ss.map (·.name) ∧
      st.events = (accepted cluster observed ss 0 initState).flatMap (fun p => p.2.results.map (evOf p.1)) ∧
      st.conds = (accepted cluster observed ss 0 initState).flatMap (fun p => p.2.conds)) := by
  obtain ⟨h1, h2⟩ := events_conds_concat cluster observed ss 0 initState
  refine ⟨by simpa [initState] using h1, by simpa [initState] using h2, ?_⟩
  intro st hst
  obtain ⟨hn, hnf⟩ := accepted_of_done cluster observed ss 0 initState st hst
  rw [hst] at h1 h2
  refine ⟨hn, ?_, by simpa [initState, finalState] using h2⟩
  have : (accepted cluster observed ss 0 initState).flatMap (fun p => (eventsUntilFatal p.1 p.2.results).1) =
      (accepted cluster observed ss 0 initState).flatMap (fun p => p.2.results.map (evOf p.1)) := by
    exact flatMap_congr_mem _ _ _ (fun p hp => eventsUntilFatal_no_fatal p.1 p.2.results (hnf p hp))
  rw [← this]
  simpa [initState, finalState] using h1

example : (accepted [] [] [⟨"s0", fun _ => some ⟨[], none, [], [], [⟨.normal, "m", false⟩], [⟨"T", "True", "R", false, ""⟩]⟩, "", []⟩,
    ⟨"s1", fun _ => some ⟨[], none, [], [], [⟨.warning, "w", true⟩, ⟨.fatal, "f", false⟩, ⟨.normal, "late", false⟩], []⟩, "", []⟩] 0 initState).map (·.1)
    = ["s0", "s1"] := by decide

/-! ### which function instance a step is sent to (PackagedFunctionRunner) -/

section Conn
open Xp.C04Conn

theorem cget_append_new (c : Conns) (fn ep : String) : cget (cerase c fn ++ [(fn, ep)]) fn = some ep := by
  have h : (cerase c fn).find? (fun p => decide (p.1 = fn)) = none := by
    apply List.find?_eq_none.mpr
    intro p hp
    have := (List.mem_filter.mp hp).2
    simpa using this
  simp [cget, List.find?_append, h]

theorem cget_other (c : Conns) (fn ep m : String) (hm : m ≠ fn) :
    cget (cerase c fn ++ [(fn, ep)]) m = cget c m := by
  have h2 : ([(fn, ep)] : Conns).find? (fun p => decide (p.1 = m)) = none := by simp [Ne.symm hm]
  have h1 : (cerase c fn).find? (fun p => decide (p.1 = m)) = c.find? (fun p => decide (p.1 = m)) := by
    unfold cerase
    rw [List.find?_filter]
    congr 1
    funext a
    by_cases h : a.1 = m
    · simp [h, hm]
    · simp [h]
  simp only [cget, List.find?_append, h1, h2]
  cases List.find? (fun p => decide (p.1 = m)) c <;> rfl

/-- **Right instance.** Whenever a connection is handed out for function `fn`, its target is the
non-empty endpoint of an Active revision of `fn`, and that is what the cache now holds for
`fn` — also when a connection to an older endpoint was cached (it is replaced). -/
theorem conn_target (revs : List Rev) (c : Conns) (fn ep : String)
    (h : (getConn revs c fn).1 = some ep) :
    (∃ r ∈ revs, r.fn = fn ∧ r.active = true ∧ r.endpoint = ep ∧ ep ≠ "") ∧
    cget (getConn revs c fn).2 fn = some ep := by
  unfold getConn at h ⊢
  cases hw : wanted revs fn with
  | none => simp [hw] at h
  | some e =>
    simp only [hw] at h ⊢
    have hee : e = ep := by
      split at h <;> simpa using h
    subst hee
    constructor
    · unfold wanted at hw
      split at hw
      · cases hw
      · rename_i r hf
        have hm := List.mem_of_find?_eq_some hf
        have hp := List.find?_some hf
        simp only [Bool.and_eq_true, decide_eq_true_eq] at hp
        split at hw
        · cases hw
        · rename_i hne
          simp only [Option.some.injEq] at hw
          exact ⟨r, hm, hp.1, hp.2, hw, hw ▸ hne⟩
    · split
      · rename_i hc; exact hc
      · exact cget_append_new c fn e

/-- No connection is handed out when the function has no Active revision or the Active
revision has no endpoint yet; the cache is left alone. -/
theorem conn_error_keeps_cache (revs : List Rev) (c : Conns) (fn : String)
    (h : (getConn revs c fn).1 = none) : (getConn revs c fn).2 = c := by
  unfold getConn at h ⊢
  cases hw : wanted revs fn with
  | none => rfl
  | some e => simp only [hw] at h; split at h <;> simp at h

/-- Connections of other functions are not touched by a call for `fn`. -/
theorem conn_others_untouched (revs : List Rev) (c : Conns) (fn m : String) (hm : m ≠ fn) :
    cget (getConn revs c fn).2 m = cget c m := by
  unfold getConn
  cases hw : wanted revs fn with
  | none => rfl
  | some e =>
    simp only []
    split
    · rfl
    · exact cget_other c fn e m hm

/-- **A step is sent to the active revision of the function it names.** When
PackagedFunctionRunner.RunFunction sends the request at all, the connection it sends it over
targets the non-empty endpoint of an Active revision of the named function (whatever was
cached before); when the lookup fails nothing is sent and the cache is left alone. -/
theorem call_sent_to_active (revs : List Rev) (c : Conns) (fn : String) :
    (∀ ep, (runPackaged revs c fn).1 = some ep →
      (∃ r ∈ revs, r.fn = fn ∧ r.active = true ∧ r.endpoint = ep ∧ ep ≠ "") ∧ cget (runPackaged revs c fn).2 fn = some ep) ∧
    ((runPackaged revs c fn).1 = none → (runPackaged revs c fn).2 = c) :=
  ⟨fun ep h => conn_target revs c fn ep h, fun h => conn_error_keeps_cache revs c fn h⟩

example : (runPackaged [⟨"f-1", "f", false, "live0"⟩, ⟨"f-2", "f", true, "live2"⟩] [("f", "live0")] "f") =
    (some "live2", [("f", "live2")]) := by decide

/-- **A failing List changes nothing.** When the List of FunctionRevisions (getClientConn) or of
Functions (garbage collection) answers an error, no connection is handed out, none is closed and
the cache is exactly what it was; garbage collection of an empty cache does not even list. When
the List succeeds both are the functions the other theorems are about. -/
theorem list_failure_keeps_cache (revs : List Rev) (fns : List String) (c : Conns) (fn : String) :
    getConnF true revs c fn = (none, c) ∧ getConnF false revs c fn = getConn revs c fn ∧
    (c ≠ [] → gcF true fns c = (none, c)) ∧ gcF true fns [] = (some 0, []) ∧
    (gcF false fns c).2 = (gc fns c).2 ∧ (gcF false fns c).1 = some (gc fns c).1 := by
  refine ⟨rfl, rfl, ?_, rfl, ?_, ?_⟩
  · intro h; cases c with
    | nil => exact absurd rfl h
    | cons a l => rfl
  · cases c <;> rfl
  · cases c <;> rfl

example : gcF true ["f"] [("g", "live0")] = (none, [("g", "live0")]) := by decide

theorem filter_split_length {α : Type} (p : α → Bool) (l : List α) :
    (l.filter fun x => !p x).length + (l.filter p).length = l.length := by
  induction l with
  | nil => rfl
  | cons x xs ih =>
    simp only [List.filter_cons]
    cases p x <;> simp only [Bool.not_false, Bool.not_true, if_true, Bool.false_eq_true, if_false, List.length_cons] <;> omega

/-- **Collection.** Garbage collection keeps exactly the connections of installed functions and
reports how many it closed. -/
theorem conn_gc (fns : List String) (c : Conns) (p : String × String) :
    (p ∈ (gc fns c).2 ↔ p ∈ c ∧ p.1 ∈ fns) ∧ (gc fns c).1 + (gc fns c).2.length = c.length := by
  constructor
  · simp [gc, List.mem_filter]
  · simp only [gc]
    exact filter_split_length (fun p : String × String => fns.contains p.1) c

end Conn

/-! ### non-vacuity -/
example : (runFetching [⟨"EX", "x1", []⟩]
    (fun q => some ⟨[], none, [], if q.extra.isEmpty then [("e", ⟨"EX", "x1", []⟩)] else [("e", ⟨"EX", "x1", []⟩)], [], []⟩)
    6 ⟨[], [], none, [], [], "", []⟩ []).1.length = 2 := by decide

end Xp.C04

import Xp.Props.C01
import Xp.Props.C09
import Xp.Proofs.C02Crd
/-
C02 — Crossplane never modifies, adopts or deletes what another owner controls.

Sites proved here:
 * function composer (observe / garbage collect / apply) and P&T composer (associate /
   garbage collect / Apply with MustBeControllableBy): model of C01, for every fault plan,
   function output, template list and history;
 * XR connection secret (PublishConnection) and claim connection secret
   (PropagateConnection): model of C09.
The remaining sites of the property (derived CRDs, package revisions, established package
objects, RBAC roles and bindings) are proved in the modules of C08/C11, C14, C16 and C18 over
their own models and exercised through the C02 correspondence driver.
-/
namespace Xp.C02
open Xp.C01

/-- **Composers.** Every object that carried a controller reference to a different owner
when the history started is, at every instant of every (faulty) reconcile with either
composer, still in the store exactly as it was — not updated, not adopted, not deleted —
wherever it sits: named in spec.resourceRefs, bearing the name a desired resource asks
for, or annotated with a template name — and whatever composed resources are missing from the
informer cache while the reconcile runs (`s.miss` is arbitrary). -/
theorem composers_leave_foreign_untouched (s : St) (hg : Good s) (m : Mode) (hm : ModeOK s.miss m) (plan : Plan) :
    ∀ s' ∈ reach sem plan 0 (reconcile m) s, ∀ o ∈ s.foreign0, o.ctrl = .other ∧ o ∈ s'.objs := by
  intro s' hs' o ho
  have hg' := invariant_every_instant s hg m hm plan s' hs'
  -- the ghost list is never written
  have hf : s'.foreign0 = s.foreign0 := by
    have : ∀ x ∈ reach sem plan 0 (reconcile m) s, x.foreign0 = s.foreign0 := by
      apply reach_inv sem (fun x => x.foreign0 = s.foreign0) (fun _ => True)
      · intro s1 r h1 _
        rw [← h1]
        cases r <;> simp only [sem, exec] <;> (repeat' split) <;> rfl
      · exact issues_true _
      · rfl
    exact this s' hs'
  exact hg'.frame o (hf ▸ ho)
where
  issues_true : ∀ (p : P), Issues (fun _ => True) p := by
    intro p
    induction p with
    | ret a => exact Issues.ret a
    | call r c ih => exact Issues.call r c trivial ih

/-- The same over every history of faulty reconciles. -/
theorem composers_leave_foreign_untouched_history (h : List (Plan × Mode)) (s : St) (hok : ∀ pm ∈ h, ModeOK s.miss pm.2)
    (hg : Good s) :
    ∀ s' ∈ reachHistory sem (h.map fun pm => (pm.1, reconcile pm.2)) s,
      ∀ o ∈ s'.foreign0, o.ctrl = .other ∧ o ∈ s'.objs := by
  intro s' hs' o ho
  exact (invariant_every_history h s hok hg s' hs').frame o ho

/-- The same over every history in which every reconcile has its own set of cache misses. -/
theorem composers_leave_foreign_untouched_history_every_miss_set (h : List (List Ref × Plan × Mode))
    (hok : ∀ x ∈ h, ModeOK x.1 x.2.2) (s : St) (hg : Good s) :
    ∀ s' ∈ reachRounds h s, ∀ o ∈ s'.foreign0, o.ctrl = .other ∧ o ∈ s'.objs := by
  intro s' hs' o ho
  exact (invariant_every_history_every_miss_set h hok s hg s' hs').frame o ho

/-- The API-server model itself refuses to let the function composer's server-side apply
put a second controller reference on a foreign object: the object is left as it was and the
apply is reported invalid (the resource becomes unsynced). -/
theorem ssa_apply_on_foreign_is_refused (s : St) (k n a : String) (c : Nat) (o : CObj)
    (hf : findObj s.objs k n = some o) (hc : o.ctrl = .other) :
    exec s (.apply k n a c) = (s, .invalid) := by
  simp [exec, hf, hc]

/-- P&T: `Apply(MustBeControllableBy(xr))` reads the object (through the informer cache) and,
finding it controlled by someone else, goes straight to the error epilogue (one status update of
the XR): no write is addressed to the foreign object. (When the foreign object is missing from the
cache, Apply issues a Create, which the API server answers with AlreadyExists: `exec_create_exists`;
nothing is written either, and `composers_leave_foreign_untouched` covers that case too.) -/
theorem pt_apply_on_foreign_goes_to_error (lrv : Nat) (r : Rendered) (rs : List Rendered) (b : Bool) (k : Bool → P)
    (o : CObj) (hr : r.rendered = true) (hc : o.ctrl = .other) :
    ∃ c, applyPT lrv (r :: rs) b k = .call (.getCached r.d.kind r.name) c ∧ c (.found o) = onError lrv := by
  simp only [applyPT, hr, Bool.not_true, Bool.false_eq_true, if_false]
  exact ⟨_, rfl, by simp [hc]⟩

/-- **XR connection secret.** A destination secret controlled by someone else (or an
uncontrolled secret that is not of the connection type) is never written by
PublishConnection; the conflict surfaces as an error. -/
theorem xr_secret_foreign_untouched (filter : List String) (details : Xp.C09.Data) (s : Xp.C09.Secret)
    (h : s.ctrl = .other ∨ s.ctrl = .xr ∨ ((s.ctrl = .none ∨ s.ctrl = .xrPlain) ∧ s.conn = false)) :
    Xp.C09.publish true filter details (some s) = ⟨some s, false, true, 0⟩ := by
  apply Xp.C09.publish_guard
  rcases h with h | h | ⟨h | h, h'⟩ <;> simp [Xp.C09.controllable, *]

/-- **Claim connection secret.** Same guard for PropagateConnection. -/
theorem claim_secret_foreign_untouched (fs d : Xp.C09.Secret) (hx : fs.ctrl = .xr)
    (h : d.ctrl = .other ∨ d.ctrl = .xr ∨ ((d.ctrl = .none ∨ d.ctrl = .xrPlain) ∧ d.conn = false)) :
    Xp.C09.propagate true true (some fs) (some d) = ⟨some d, false, true, 0⟩ := by
  apply Xp.C09.propagate_guard fs d hx
  rcases h with h | h | ⟨h | h, h'⟩ <;> simp [Xp.C09.controllable, *]

/-- Objects without a controller reference may be adopted (non-vacuity of the guard). -/
example : (Xp.C09.publish true [] [("k", "v")] (some ⟨true, .none, []⟩)).slot = some ⟨true, .owner, [("k", "v")]⟩ := by decide

/-! ### An XRD defining its CRDs (definition / offered reconcilers; model `Xp.C02Crd`) -/

/-- **Derived CRDs: not updated, not adopted, not deleted.** A CRD with the name derived from
the XRD whose controller reference names another owner (another XRD, a previous incarnation
of this XRD, an object of another kind) is, at every instant of every faulty reconcile of the
definition or the offered reconciler — XRD live or deleting, with or without finalizer —
in the store exactly as it was. -/
theorem xrd_crd_foreign_untouched (w : Xp.C02Crd.Which) (plan : Plan) (s : Xp.C02Crd.St) (c : Xp.C02Crd.CRD)
    (hc : s.crd = some c) (ho : c.ctrl = .other) :
    ∀ s' ∈ reach Xp.C02Crd.sem plan 0 (Xp.C02Crd.reconcile w) s, s'.crd = some c :=
  Xp.C02Crd.crd_foreign_untouched w plan s c hc ho

/-- No applied request (create, update, delete) is addressed to such a CRD, under every plan. -/
theorem xrd_crd_foreign_no_write (w : Xp.C02Crd.Which) (plan : Plan) (s : Xp.C02Crd.St) (c : Xp.C02Crd.CRD)
    (hc : s.crd = some c) (ho : c.ctrl = .other) :
    ∀ r ∈ applied Xp.C02Crd.sem plan 0 (Xp.C02Crd.reconcile w) s, r.targetsCRD = false :=
  Xp.C02Crd.crd_foreign_no_write w plan s c hc ho

/-- **The conflict surfaces.** Fault-free, the reconcile of a live XRD against a CRD controlled
by another owner returns an error (and a warning event) and does not report Watching. -/
theorem xrd_crd_foreign_surfaces_error (w : Xp.C02Crd.Which) (s : Xp.C02Crd.St) (d : Xp.C02Crd.XRD) (c : Xp.C02Crd.CRD)
    (hx : s.xrd = some d) (hl : d.del = false) (hr : Xp.C02Crd.renderable w d)
    (hc : s.crd = some c) (ho : c.ctrl = .other) :
    (run Xp.C02Crd.sem Plan.allOk 0 (Xp.C02Crd.reconcile w) s).2 = some .err ∧
    ((run Xp.C02Crd.sem Plan.allOk 0 (Xp.C02Crd.reconcile w) s).1.xrd.map (·.cond)) = some d.cond :=
  Xp.C02Crd.crd_foreign_surfaces_error w s d c hx hl hr hc ho

/-- … and under every fault plan it never ends in plain success. -/
theorem xrd_crd_foreign_never_success (w : Xp.C02Crd.Which) (plan : Plan) (s : Xp.C02Crd.St) (d : Xp.C02Crd.XRD)
    (c : Xp.C02Crd.CRD) (hx : s.xrd = some d) (hl : d.del = false) (hr : Xp.C02Crd.renderable w d)
    (hc : s.crd = some c) (ho : c.ctrl = .other) :
    (run Xp.C02Crd.sem plan 0 (Xp.C02Crd.reconcile w) s).2 ≠ some .ok :=
  Xp.C02Crd.crd_foreign_never_success w plan s d c hx hl hr hc ho

/-- **Deletion guard.** A deleting XRD never deletes or otherwise touches a CRD it does not
control (controlled by somebody else, or by nobody): `metav1.IsControlledBy(crd, d)`. -/
theorem xrd_crd_deletion_guard (w : Xp.C02Crd.Which) (plan : Plan) (s : Xp.C02Crd.St) (d : Xp.C02Crd.XRD)
    (c : Xp.C02Crd.CRD) (hx : s.xrd = some d) (hd : d.del = true) (hc : s.crd = some c) (hn : c.ctrl ≠ .xrd) :
    ∀ s' ∈ reach Xp.C02Crd.sem plan 0 (Xp.C02Crd.reconcile w) s, s'.crd = some c :=
  Xp.C02Crd.crd_deletion_guard w plan s d c hx hd hc hn

/-- **Objects that have no controller reference may be adopted**: fault-free, a live XRD turns
an uncontrolled CRD into the rendered CRD controlled by the XRD. -/
theorem xrd_crd_uncontrolled_adopted (w : Xp.C02Crd.Which) (s : Xp.C02Crd.St) (d : Xp.C02Crd.XRD) (c : Xp.C02Crd.CRD)
    (hx : s.xrd = some d) (hl : d.del = false) (hr : Xp.C02Crd.renderable w d)
    (hc : s.crd = some c) (hn : c.ctrl = .none) (hnd : c.del = false) :
    ∃ c', (run Xp.C02Crd.sem Plan.allOk 0 (Xp.C02Crd.reconcile w) s).1.crd = some c' ∧
      c'.ctrl = .xrd ∧ c'.body = .rendered ∧ c'.plain = false ∧ c'.est = c.est ∧
      (run Xp.C02Crd.sem Plan.allOk 0 (Xp.C02Crd.reconcile w) s).2 = some (if c.est then .ok else .requeue) :=
  Xp.C02Crd.crd_uncontrolled_adopted w s d c hx hl hr hc hn hnd

/-- A CRD of the XRD itself ends with the rendered body. -/
theorem xrd_crd_own_updated (w : Xp.C02Crd.Which) (s : Xp.C02Crd.St) (d : Xp.C02Crd.XRD) (c : Xp.C02Crd.CRD)
    (hx : s.xrd = some d) (hl : d.del = false) (hr : Xp.C02Crd.renderable w d)
    (hc : s.crd = some c) (hn : c.ctrl = .xrd) (hnd : c.del = false) :
    ∃ c', (run Xp.C02Crd.sem Plan.allOk 0 (Xp.C02Crd.reconcile w) s).1.crd = some c' ∧
      c'.ctrl = .xrd ∧ c'.body = .rendered ∧ c'.plain = false ∧ c'.est = c.est :=
  Xp.C02Crd.crd_own_updated w s d c hx hl hr hc hn hnd

/-- non-vacuity: a concrete store with a foreign CRD; the reconcile adds the XRD's finalizer,
reads the CRD and fails, the CRD is untouched -/
example : run Xp.C02Crd.sem Plan.allOk 0 (Xp.C02Crd.reconcile .definition) Xp.C02Crd.exForeign =
    ({ Xp.C02Crd.exForeign with xrd := some ⟨false, true, false, true, .none, 3⟩, next := 3 }, some .err) := by decide

end Xp.C02

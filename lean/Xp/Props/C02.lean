import Xp.Props.C01
import Xp.Props.C09
import Xp.Proofs.C02Crd
import Xp.Proofs.C02World
import Xp.Proofs.C02CrdEnv
import Xp.Proofs.C02Two
import Xp.Model.C02Unpub
import Xp.Gen.C02Skel
import Xp.Model.C02Skel
/-
C02 — Crossplane never modifies, adopts or deletes what another owner controls.

Sites proved here:
 * function composer (observe / garbage collect / apply) and P&T composer (associate /
   garbage collect / Apply with MustBeControllableBy): model of C01, for every fault plan,
   function output, template list and history;
 * XR connection secret (PublishConnection) and claim connection secret
   (PropagateConnection): model of C09.
The remaining sites of the property (derived CRDs, package revisions, established package
objects, RBAC roles and bindings) are proved in the modules of C08/C11, C14, C16 and C18 over
their own models and exercised through the C02 correspondence driver.
-/
namespace Xp.C02
open Xp.C01

/-- **Composers.** Every object that carried a controller reference to a different owner
when the history started is, at every instant of every (faulty) reconcile with either
composer, still in the store exactly as it was — not updated, not adopted, not deleted —
wherever it sits: named in spec.resourceRefs, bearing the name a desired resource asks
for, or annotated with a template name — and whatever composed resources are missing from the
informer cache while the reconcile runs (`s.miss` is arbitrary). -/
theorem composers_leave_foreign_untouched (s : St) (hg : Good s) (m : Mode) (hm : ModeOK s.miss m) (plan : Plan) :
    ∀ s' ∈ reach sem plan 0 (reconcile m) s, ∀ o ∈ s.foreign0, o.ctrl = .other ∧ o ∈ s'.objs := by
  intro s' hs' o ho
  have hg' := invariant_every_instant s hg m hm plan s' hs'
  -- the ghost list is never written
  have hf : s'.foreign0 = s.foreign0 := by
    have : ∀ x ∈ reach sem plan 0 (reconcile m) s, x.foreign0 = s.foreign0 := by
      apply reach_inv sem (fun x => x.foreign0 = s.foreign0) (fun _ => True)
      · intro s1 r h1 _
        rw [← h1]
        cases r <;> simp only [sem, exec] <;> (repeat' split) <;> rfl
      · exact issues_true _
      · rfl
    exact this s' hs'
  exact hg'.frame o (hf ▸ ho)
where
  issues_true : ∀ (p : P), Issues (fun _ => True) p := by
    intro p
    induction p with
    | ret a => exact Issues.ret a
    | call r c ih => exact Issues.call r c trivial ih

/-- The same over every history of faulty reconciles. -/
theorem composers_leave_foreign_untouched_history (h : List (Plan × Mode)) (s : St) (hok : ∀ pm ∈ h, ModeOK s.miss pm.2)
    (hg : Good s) :
    ∀ s' ∈ reachHistory sem (h.map fun pm => (pm.1, reconcile pm.2)) s,
      ∀ o ∈ s'.foreign0, o.ctrl = .other ∧ o ∈ s'.objs := by
  intro s' hs' o ho
  exact (invariant_every_history h s hok hg s' hs').frame o ho

/-- The same over every history in which every reconcile has its own set of cache misses. -/
theorem composers_leave_foreign_untouched_history_every_miss_set (h : List (List Ref × Plan × Mode))
    (hok : ∀ x ∈ h, ModeOK x.1 x.2.2) (s : St) (hg : Good s) :
    ∀ s' ∈ reachRounds h s, ∀ o ∈ s'.foreign0, o.ctrl = .other ∧ o ∈ s'.objs := by
  intro s' hs' o ho
  exact (invariant_every_history_every_miss_set h hok s hg s' hs').frame o ho

/-- The API-server model itself refuses to let the function composer's server-side apply
put a second controller reference on a foreign object: the object is left as it was and the
apply is reported invalid (the resource becomes unsynced). -/
theorem ssa_apply_on_foreign_is_refused (s : St) (k n a : String) (c : Nat) (o : CObj)
    (hf : findObj s.objs k n = some o) (hc : o.ctrl = .other) :
    exec s (.apply k n a c) = (s, .invalid) := by
  simp [exec, hf, hc]

/-- P&T: `Apply(MustBeControllableBy(xr))` reads the object (through the informer cache) and,
finding it controlled by someone else, goes straight to the error epilogue (one status update of
the XR): no write is addressed to the foreign object. (When the foreign object is missing from the
cache, Apply issues a Create, which the API server answers with AlreadyExists: `exec_create_exists`;
nothing is written either, and `composers_leave_foreign_untouched` covers that case too.) -/
theorem pt_apply_on_foreign_goes_to_error (lrv : Nat) (r : Rendered) (rs : List Rendered) (b : Bool) (k : Bool → P)
    (o : CObj) (hr : r.rendered = true) (hc : o.ctrl = .other) :
    ∃ c, applyPT lrv (r :: rs) b k = .call (.getCached r.d.kind r.name) c ∧ c (.found o) = onError lrv := by
  simp only [applyPT, hr, Bool.not_true, Bool.false_eq_true, if_false]
  exact ⟨_, rfl, by simp [hc]⟩

/-- **XR connection secret.** A destination secret controlled by someone else (or an
uncontrolled secret that is not of the connection type) is never written by
PublishConnection; the conflict surfaces as an error. -/
theorem xr_secret_foreign_untouched (filter : List String) (details : Xp.C09.Data) (s : Xp.C09.Secret)
    (h : s.ctrl = .other ∨ s.ctrl = .xr ∨ ((s.ctrl = .none ∨ s.ctrl = .xrPlain) ∧ s.conn = false)) :
    Xp.C09.publish true filter details (some s) = ⟨some s, false, true, 0⟩ := by
  apply Xp.C09.publish_guard
  rcases h with h | h | ⟨h | h, h'⟩ <;> simp [Xp.C09.controllable, *]

/-- **Claim connection secret.** Same guard for PropagateConnection. -/
theorem claim_secret_foreign_untouched (fs d : Xp.C09.Secret) (hx : fs.ctrl = .xr)
    (h : d.ctrl = .other ∨ d.ctrl = .xr ∨ ((d.ctrl = .none ∨ d.ctrl = .xrPlain) ∧ d.conn = false)) :
    Xp.C09.propagate true true (some fs) (some d) = ⟨some d, false, true, 0⟩ := by
  apply Xp.C09.propagate_guard fs d hx
  rcases h with h | h | ⟨h | h, h'⟩ <;> simp [Xp.C09.controllable, *]

/-- Objects without a controller reference may be adopted (non-vacuity of the guard). -/
example : (Xp.C09.publish true [] [("k", "v")] (some ⟨true, .none, []⟩)).slot = some ⟨true, .owner, [("k", "v")]⟩ := by decide

/-! ### An XRD defining its CRDs (definition / offered reconcilers; model `Xp.C02Crd`) -/

/-- **Derived CRDs: not updated, not adopted, not deleted.** A CRD with the name derived from
the XRD whose controller reference names another owner (another XRD, a previous incarnation
of this XRD, an object of another kind) is, at every instant of every faulty reconcile of the
definition or the offered reconciler — XRD live or deleting, with or without finalizer —
in the store exactly as it was. -/
theorem xrd_crd_foreign_untouched (w : Xp.C02Crd.Which) (plan : Plan) (s : Xp.C02Crd.St) (c : Xp.C02Crd.CRD)
    (hc : s.crd = some c) (ho : c.ctrl = .other) :
    ∀ s' ∈ reach Xp.C02Crd.sem plan 0 (Xp.C02Crd.reconcile w) s, s'.crd = some c :=
  Xp.C02Crd.crd_foreign_untouched w plan s c hc ho

/-- No applied request (create, update, delete) is addressed to such a CRD, under every plan. -/
theorem xrd_crd_foreign_no_write (w : Xp.C02Crd.Which) (plan : Plan) (s : Xp.C02Crd.St) (c : Xp.C02Crd.CRD)
    (hc : s.crd = some c) (ho : c.ctrl = .other) :
    ∀ r ∈ applied Xp.C02Crd.sem plan 0 (Xp.C02Crd.reconcile w) s, r.targetsCRD = false :=
  Xp.C02Crd.crd_foreign_no_write w plan s c hc ho

/-- **The conflict surfaces.** Fault-free, the reconcile of a live XRD against a CRD controlled
by another owner returns an error (and a warning event) and does not report Watching. -/
theorem xrd_crd_foreign_surfaces_error (w : Xp.C02Crd.Which) (s : Xp.C02Crd.St) (d : Xp.C02Crd.XRD) (c : Xp.C02Crd.CRD)
    (hx : s.xrd = some d) (hl : d.del = false) (hr : Xp.C02Crd.renderable w d)
    (hc : s.crd = some c) (ho : c.ctrl = .other) :
    (run Xp.C02Crd.sem Plan.allOk 0 (Xp.C02Crd.reconcile w) s).2 = some .err ∧
    ((run Xp.C02Crd.sem Plan.allOk 0 (Xp.C02Crd.reconcile w) s).1.xrd.map (·.cond)) = some d.cond :=
  Xp.C02Crd.crd_foreign_surfaces_error w s d c hx hl hr hc ho

/-- … and under every fault plan it never ends in plain success. -/
theorem xrd_crd_foreign_never_success (w : Xp.C02Crd.Which) (plan : Plan) (s : Xp.C02Crd.St) (d : Xp.C02Crd.XRD)
    (c : Xp.C02Crd.CRD) (hx : s.xrd = some d) (hl : d.del = false) (hr : Xp.C02Crd.renderable w d)
    (hc : s.crd = some c) (ho : c.ctrl = .other) :
    (run Xp.C02Crd.sem plan 0 (Xp.C02Crd.reconcile w) s).2 ≠ some .ok :=
  Xp.C02Crd.crd_foreign_never_success w plan s d c hx hl hr hc ho

/-- **Deletion guard.** A deleting XRD never deletes or otherwise touches a CRD it does not
control (controlled by somebody else, or by nobody): `metav1.IsControlledBy(crd, d)`. -/
theorem xrd_crd_deletion_guard (w : Xp.C02Crd.Which) (plan : Plan) (s : Xp.C02Crd.St) (d : Xp.C02Crd.XRD)
    (c : Xp.C02Crd.CRD) (hx : s.xrd = some d) (hd : d.del = true) (hc : s.crd = some c) (hn : c.ctrl ≠ .xrd) :
    ∀ s' ∈ reach Xp.C02Crd.sem plan 0 (Xp.C02Crd.reconcile w) s, s'.crd = some c :=
  Xp.C02Crd.crd_deletion_guard w plan s d c hx hd hc hn

/-- **Objects that have no controller reference may be adopted**: fault-free, a live XRD turns
an uncontrolled CRD into the rendered CRD controlled by the XRD. -/
theorem xrd_crd_uncontrolled_adopted (w : Xp.C02Crd.Which) (s : Xp.C02Crd.St) (d : Xp.C02Crd.XRD) (c : Xp.C02Crd.CRD)
    (hx : s.xrd = some d) (hl : d.del = false) (hr : Xp.C02Crd.renderable w d)
    (hc : s.crd = some c) (hn : c.ctrl = .none) (hnd : c.del = false) :
    ∃ c', (run Xp.C02Crd.sem Plan.allOk 0 (Xp.C02Crd.reconcile w) s).1.crd = some c' ∧
      c'.ctrl = .xrd ∧ c'.body = .rendered ∧ c'.plain = false ∧ c'.est = c.est ∧
      (run Xp.C02Crd.sem Plan.allOk 0 (Xp.C02Crd.reconcile w) s).2 = some (if c.est then .ok else .requeue) :=
  Xp.C02Crd.crd_uncontrolled_adopted w s d c hx hl hr hc hn hnd

/-- A CRD of the XRD itself ends with the rendered body. -/
theorem xrd_crd_own_updated (w : Xp.C02Crd.Which) (s : Xp.C02Crd.St) (d : Xp.C02Crd.XRD) (c : Xp.C02Crd.CRD)
    (hx : s.xrd = some d) (hl : d.del = false) (hr : Xp.C02Crd.renderable w d)
    (hc : s.crd = some c) (hn : c.ctrl = .xrd) (hnd : c.del = false) :
    ∃ c', (run Xp.C02Crd.sem Plan.allOk 0 (Xp.C02Crd.reconcile w) s).1.crd = some c' ∧
      c'.ctrl = .xrd ∧ c'.body = .rendered ∧ c'.plain = false ∧ c'.est = c.est :=
  Xp.C02Crd.crd_own_updated w s d c hx hl hr hc hn hnd

/-- non-vacuity: a concrete store with a foreign CRD; the reconcile adds the XRD's finalizer,
reads the CRD and fails, the CRD is untouched -/
example : run Xp.C02Crd.sem Plan.allOk 0 (Xp.C02Crd.reconcile .definition) Xp.C02Crd.exForeign =
    ({ Xp.C02Crd.exForeign with xrd := some ⟨false, true, false, true, .none, 3⟩, next := 3 }, some .err) := by decide

/-! ### derived CRDs with concurrent writers between two API calls (model `Xp.C02CrdEnv`) -/

/-- **Derived CRDs, left exactly as they were under interference.** For every third party
obeying the rely (whatever it writes into the CRD slot gets a fresh resourceVersion), every
fault plan, both reconcilers, XRD live or deleting: at the moment of every own API call, a CRD
with the derived name that is controlled by somebody else AT THAT MOMENT is in the store after
the call exactly as it was — the `Update` of `Apply(crd, MustBeControllableBy(xrd))` is
refused (it carries the resourceVersion of the copy the guard was evaluated on), the `Create`
answers AlreadyExists — unless the call is the deletion branch's `Delete`, this reconcile's own
Get had returned the CRD controlled by the XRD, and somebody else wrote it since
(`xrd_crd_delete_window_witness`). -/
theorem xrd_crd_foreign_untouched_under_interference (w : Xp.C02Crd.Which) (env : Env Xp.C02CrdEnv.E)
    (henv : ∀ k e, Xp.C02CrdEnv.Rely e (env k e)) (plan : Plan) (e : Xp.C02CrdEnv.E) (he : Xp.C02CrdEnv.Inv e) :
    ∀ x ∈ ownE Xp.C02CrdEnv.sem env plan 0 (Xp.C02Crd.reconcile w) e, ∀ c, x.1.base.crd = some c → c.ctrl = .other →
      (Xp.C02CrdEnv.exec x.1 x.2).1.base.crd = some c ∨
      (x.2 = .deleteCRD ∧ ∃ c0, x.1.seen = some (some c0) ∧ c0.ctrl = .xrd ∧ c0.rv ≠ c.rv) :=
  Xp.C02CrdEnv.crd_foreign_untouched_under_interference w env henv plan e he

/-- Every write either reconciler addresses to the CRD rests on a Get of that same reconcile:
an Update carries the resourceVersion of a copy found controllable, a Delete follows a Get that
returned the CRD controlled by the XRD, a Create follows NotFound — under every third party and
fault plan. -/
theorem xrd_crd_writes_rest_on_a_read (w : Xp.C02Crd.Which) (env : Env Xp.C02CrdEnv.E)
    (henv : ∀ k e, Xp.C02CrdEnv.Rely e (env k e)) (plan : Plan) (e : Xp.C02CrdEnv.E) (he : Xp.C02CrdEnv.Inv e) :
    ∀ x ∈ ownE Xp.C02CrdEnv.sem env plan 0 (Xp.C02Crd.reconcile w) e, Xp.C02CrdEnv.guard x.1.seen x.2 :=
  fun x hx => (Xp.C02CrdEnv.interference_guarantees w env henv plan e he x hx).2

/-- the concurrent writers of the correspondence harness obey the rely -/
theorem harness_crd_writers_obey_rely (i : Nat) (a : Xp.C02CrdEnv.Act) :
    ∀ j e, Xp.C02CrdEnv.Rely e (Xp.C02CrdEnv.actAt i a j e) :=
  Xp.C02CrdEnv.actAt_rely i a

/-- a deleting XRD whose established CRD it controls (calls: 0 Get XRD, 1 status Terminating,
2 Get CRD, 3 DeleteAllOf, 4 List, 5 Delete CRD) -/
def exDeletingOwn : Xp.C02CrdEnv.E :=
  { base := Xp.C02Crd.exDeleting ⟨.xrd, false, .rendered, true, false, false, 2⟩ }

example : Xp.C02CrdEnv.Inv exDeletingOwn := Xp.C02CrdEnv.inv_start _ (by decide)

/-- **The deletion window is a property of the unchanged code**: another owner takes the CRD
over after the reconciler's Get (before call 4): `metav1.IsControlledBy` was evaluated on the
copy, `client.Delete` carries no precondition, the CRD that is somebody else's by now is
deleted. Taken over BEFORE the Get (call 2) it is left alone and the finalizer removed. -/
theorem xrd_crd_delete_window_witness :
    (runE Xp.C02CrdEnv.sem (Xp.C02CrdEnv.actAt 4 .adopt) Plan.allOk 0 (Xp.C02Crd.reconcile .definition) exDeletingOwn).1.base.crd = none ∧
    (runE Xp.C02CrdEnv.sem (Xp.C02CrdEnv.actAt 2 .adopt) Plan.allOk 0 (Xp.C02Crd.reconcile .definition) exDeletingOwn).1.base.crd
      = some ⟨.other, false, .rendered, true, false, false, 4⟩ := by
  decide

/-- a live XRD whose outdated CRD is taken over between Apply's Get (call 1) and its Update
(call 2): the Update is refused, the reconcile requeues, the CRD stays as the third party left it -/
example : runE Xp.C02CrdEnv.sem (Xp.C02CrdEnv.actAt 2 .adopt) Plan.allOk 0 (Xp.C02Crd.reconcile .offered)
      { base := { xrd := some ⟨false, true, false, true, .none, 1⟩, crd := some ⟨.xrd, false, .old, true, false, false, 2⟩, next := 2 } } =
    ({ base := { xrd := some ⟨false, true, false, true, .none, 1⟩, crd := some ⟨.other, false, .old, true, false, false, 3⟩, next := 3 },
       seen := some (some ⟨.xrd, false, .old, true, false, false, 2⟩) }, some .requeue) := by
  decide

/-! ### a third party between two API calls of one reconcile (model `Xp.C02World`)

`Xp.C02World.sem` is the API server of `Xp.C01` with resourceVersions (a label clean-up Update
of a composed resource that changed since this reconcile read it is refused) and with a third
party `env : Env W` acting before every call (`Xp.runE`), constrained only by
`Xp.C02World.Rely`: whatever it writes gets a new resourceVersion. The programs are the
unchanged `Xp.C01.reconcile` of both composers. -/

/-- **Left exactly as it was, also under interference.** For every third party obeying the
rely, every fault plan, either composer with every function output / template list /
generated name / loop order: at the moment of every own API call, every composed resource that
is controlled by somebody else AT THAT MOMENT is in the store after the call exactly as it was
before it — unless the call is a Delete or a (P&T) merge patch addressed to it, a Get of this
very reconcile had returned it NOT controlled by somebody else ("it was ours at the deciding
read"), and somebody else has written it since that Get. Those two windows exist in the
unchanged code (`delete_window_witness`, `patch_window_witness`; findings D36, D37). -/
theorem composers_foreign_untouched_under_interference (md : Mode) (hmd : Xp.C02World.ModeDisc md)
    (env : Env Xp.C02World.W) (henv : ∀ k w, Xp.C02World.Rely w (env k w)) (plan : Plan)
    (w : Xp.C02World.W) (hw : Xp.C02World.Inv w) :
    ∀ x ∈ ownE Xp.C02World.sem env plan 0 (reconcile md) w, ∀ o ∈ x.1.base.objs, o.ctrl = .other →
      o ∈ (Xp.C02World.exec x.1 x.2).1.base.objs ∨
      ((x.2 = .delete o.kind o.name ∨ ∃ a c, x.2 = .mergePatch o.kind o.name a c) ∧
        key o ∈ x.1.mine ∧ key o ∈ x.1.stale) :=
  Xp.C02World.foreign_untouched_under_interference md hmd env henv plan w hw

/-- **A write past the API server's own ownership checks is only ever addressed to an object
that was not foreign at the deciding read**: every label clean-up Update, Delete and merge patch
of a reconcile goes to a composed resource that a Get of that same reconcile returned not
controlled by somebody else — whatever the third party and the fault plan do. -/
theorem composers_write_only_what_they_read_as_theirs (md : Mode) (hmd : Xp.C02World.ModeDisc md)
    (env : Env Xp.C02World.W) (henv : ∀ k w, Xp.C02World.Rely w (env k w)) (plan : Plan)
    (w : Xp.C02World.W) (hw : Xp.C02World.Inv w) :
    ∀ x ∈ ownE Xp.C02World.sem env plan 0 (reconcile md) w, ∀ t, Xp.C02World.target x.2 = some t → t ∈ x.1.mine :=
  fun x hx => (Xp.C02World.interference_guarantees md hmd env henv plan w hw x hx).2

/-- **Adoption between observe and garbage collection.** The label clean-up Update in front of
both garbage collectors' Delete never lands on a composed resource that is controlled by somebody
else at that moment: it is answered 409 Conflict and writes nothing (and the composers then stop:
`Xp.C01.wcall` maps a Conflict to a requeue). -/
theorem composers_cleanup_update_never_applied_to_foreign (md : Mode) (hmd : Xp.C02World.ModeDisc md)
    (env : Env Xp.C02World.W) (henv : ∀ k w, Xp.C02World.Rely w (env k w)) (plan : Plan)
    (w : Xp.C02World.W) (hw : Xp.C02World.Inv w) :
    ∀ x ∈ ownE Xp.C02World.sem env plan 0 (reconcile md) w, ∀ k n, x.2 = .gcUpdate k n →
      Xp.C02World.foreignAt x.1 ⟨k, n⟩ = true → Xp.C02World.exec x.1 x.2 = (x.1, .conflict) :=
  Xp.C02World.cleanup_update_never_applied_to_foreign md hmd env henv plan w hw

/-- The syntactic discipline behind it: along EVERY path of either composer's program (every
reply the API server could give), an unchecked write is preceded by a Get of the same object
that returned it not foreign. -/
theorem composers_obey_read_before_write_discipline (md : Mode) (hmd : Xp.C02World.ModeDisc md) (m : List Ref) :
    Xp.C02World.Disc m (reconcile md) :=
  Xp.C02World.disc_reconcile md hmd m

/-- the third party of the correspondence harness (one adoption before call `i`) obeys the rely -/
theorem harness_adoption_obeys_rely (i : Nat) (k n : String) :
    ∀ j w, Xp.C02World.Rely w (Xp.C02World.adoptAt i k n j w) :=
  Xp.C02World.adoptAt_rely i k n

/-- a world within the hypotheses: the XR controls `KA/x` (desired resource `a`) -/
def exWorld : Xp.C02World.W :=
  { base := { xrFin := true, xrRv := 0, refs := [⟨"KA", "x"⟩], objs := [⟨"KA", "x", "a", .xr, false, false, 1, true⟩] } }

/-- function composer, the pipeline returns no desired resources (`KA/x` is garbage) -/
def exDropAll : Mode := .fn (fun _ => .desired []) ⟨"v1", [], id, id⟩
/-- P&T composer, one template `a` of kind KA with content 2 -/
def exKeepPT : Mode := .pt [⟨"a", "KA", 2, true⟩] [] "v1"

example : Xp.C02World.Inv exWorld := Xp.C02World.inv_start _ (by decide) []
example : Xp.C02World.ModeDisc exDropAll := fun _ _ h => h
example : Xp.C02World.ModeDisc exKeepPT := trivial

/-- the calls of the garbage-collecting reconcile: 0 Get XR, 1 Get KA/x, 2 Update (labels),
3 Delete, 4 apply refs, 5 apply status, 6 status update. Adoption before call 2 (between
observe and garbage collection): the Update is refused, the adopted object stays, exactly as
the third party left it, and the reconcile requeues. -/
example : (runE Xp.C02World.sem (Xp.C02World.adoptAt 2 "KA" "x") Plan.allOk 0 (reconcile exDropAll) exWorld).1.base.objs
      = [⟨"KA", "x", "a", .other, false, false, 1, true⟩] ∧
    (runE Xp.C02World.sem (Xp.C02World.adoptAt 2 "KA" "x") Plan.allOk 0 (reconcile exDropAll) exWorld).2 = some .handled := by
  decide

/-- P&T composer whose composition has no template left (`KA/x` is garbage): calls 0 Get XR,
1 Get KA/x, 2 Update (labels), 3 Delete, 4 Update XR, … -/
def exDropAllPT : Mode := .pt [] [] "v1"
example : Xp.C02World.ModeDisc exDropAllPT := trivial

/-- **D36 is a property of the unchanged code**: adoption before call 3 (between this
reconcile's own successful label clean-up and the Delete): the Delete carries no precondition
and removes the object the third party controls — both garbage collectors (for the function
composer the run is cut right after the Delete: the rest of it sorts references, which the
kernel does not evaluate). The exception clause of
`composers_foreign_untouched_under_interference` cannot be dropped. -/
theorem delete_window_witness :
    (runE Xp.C02World.sem (Xp.C02World.adoptAt 3 "KA" "x") Plan.allOk 0 (reconcile exDropAllPT) exWorld).1.base.objs = [] ∧
    (runE Xp.C02World.sem (Xp.C02World.adoptAt 3 "KA" "x") (Plan.at 3 .crashAfter) 0 (reconcile exDropAll) exWorld).1.base.objs = [] ∧
    -- the same adoption one call earlier is fenced off by the resourceVersion check
    (runE Xp.C02World.sem (Xp.C02World.adoptAt 2 "KA" "x") Plan.allOk 0 (reconcile exDropAllPT) exWorld).1.base.objs
      = [⟨"KA", "x", "a", .other, false, false, 1, true⟩] := by
  decide

/-- **D37 is a property of the unchanged code**: P&T, calls 0 Get XR, 1 Get KA/x (associate),
2 Update XR, 3 Get KA/x (Apply), 4 merge patch. Adoption before call 4: the patch carries no
resourceVersion, its ownerReferences replace the third party's, the object is taken back. -/
theorem patch_window_witness :
    (runE Xp.C02World.sem (Xp.C02World.adoptAt 4 "KA" "x") Plan.allOk 0 (reconcile exKeepPT) exWorld).1.base.objs
      = [⟨"KA", "x", "a", .xr, false, false, 2, true⟩] := by
  decide

/-- … whereas an adoption before the Apply's own Get (call 3) is seen: MustBeControllableBy
fails, nothing is written -/
example : (runE Xp.C02World.sem (Xp.C02World.adoptAt 3 "KA" "x") Plan.allOk 0 (reconcile exKeepPT) exWorld).1.base.objs
      = [⟨"KA", "x", "a", .other, false, false, 1, true⟩] := by
  decide

/-! ### two XRs whose pipelines ask for the same explicit composed-resource name (model `Xp.C02Two`) -/

/-- **The server-side-apply guard, with its hypothesis.** `ssa_apply_on_foreign_is_refused`
takes "a second controller reference is Invalid" from the API-server model; that rests on the
two XRs applying with different field managers. Stated with the managers explicit: for every
field-manager function that separates XR `x` from XR `y`, a reconcile of `x` — whatever
explicit name its pipeline asks for, the name of `y`'s object included — leaves every object
controlled by `y` in the store exactly as it was. -/
theorem two_xrs_other_object_untouched (mgr : Nat → String) (res : Nat → String) (x y c : Nat) (s : Xp.C02Two.St)
    (hwf : Xp.C02Two.WF mgr s) (hnd : (s.objs.map (·.name)).Nodup) (hxy : y ≠ x) (hm : mgr y ≠ mgr x)
    (o : Xp.C02Two.Obj) (ho : o ∈ s.objs) (hy : o.ctrl = some y) : o ∈ (Xp.C02Two.step mgr res x c s).1.objs :=
  Xp.C02Two.step_leaves_other_xr_untouched mgr res x y c s hwf hnd hxy hm o ho hy

/-- … over every history of reconciles of other XRs. -/
theorem two_xrs_other_object_untouched_history (mgr : Nat → String) (res : Nat → String) (y : Nat)
    (h : List (Nat × Nat)) (hh : ∀ p ∈ h, p.1 ≠ y ∧ mgr y ≠ mgr p.1) (s : Xp.C02Two.St)
    (hwf : Xp.C02Two.WF mgr s) (hnd : (s.objs.map (·.name)).Nodup) :
    ∀ o ∈ s.objs, o.ctrl = some y → o ∈ (Xp.C02Two.runSteps mgr res h s).objs :=
  Xp.C02Two.history_leaves_other_xr_untouched mgr res y h hh s hwf hnd

/-- XR 0 has applied `shared` (content 1) with its own manager -/
def exTwo : Xp.C02Two.St := { objs := [⟨"shared", [(0, "m0")], 1⟩], hasRef := [0] }

/-- with separate managers XR 1's apply of the same name is rejected and reported unsynced … -/
example : Xp.C02Two.step (fun i => if i = 0 then "m0" else "m1") (fun _ => "shared") 1 2 exTwo =
    ({ objs := [⟨"shared", [(0, "m0")], 1⟩], hasRef := [1, 0] },
     { calls := ["patch KA/shared apply ok>invalid"], synced := false }) := by decide

/-- **… and the hypothesis is needed**: were the field manager the same for both XRs (a name
cut at the 128-character limit, a hash over too little), XR 1's apply would drop XR 0's
controller reference and take the object over. -/
theorem shared_field_manager_takes_over_witness :
    (Xp.C02Two.step (fun _ => "m") (fun _ => "shared") 1 2 { objs := [⟨"shared", [(0, "m")], 1⟩], hasRef := [0] }).1.objs =
      [⟨"shared", [(1, "m")], 2⟩] := by decide

/-- **`ComposedFieldOwnerName` separates XRs whose names share a long prefix** (regenerated
from the current tree): the name it returns has the same length (prefix, '/', 64 hex digits)
for a 1-character and for 204-character XR names, within the 128 characters a field-manager
name may have, and differs for two XRs whose names share their first 200 characters. -/
theorem field_owner_name_is_not_cut_and_separates_long_names :
    Xp.Gen.c02FieldOwnerLens = [101, 101, 101] ∧ Xp.Gen.c02FieldOwnerLongNamesDiffer = true ∧
    Xp.Gen.c02FieldOwnerComposedPrefix = "apiextensions.crossplane.io/composed" := by decide

/-! ### histories of reconciles, each with its own third party -/

/-- `composers_foreign_untouched_under_interference` over every history of reconciles, each with
its own third party, fault plan, composer, function output / templates, names and loop orders
(every reconcile starts without copies of composed resources). -/
theorem composers_foreign_untouched_under_interference_history
    (h : List (Env Xp.C02World.W × Plan × Mode))
    (hh : ∀ e ∈ h, (∀ k w, Xp.C02World.Rely w (e.1 k w)) ∧ Xp.C02World.ModeDisc e.2.2)
    (w : Xp.C02World.W) (hw : Xp.C02World.Inv w) :
    ∀ x ∈ Xp.C02World.ownRounds h w, ∀ o ∈ x.1.base.objs, o.ctrl = .other →
      o ∈ (Xp.C02World.exec x.1 x.2).1.base.objs ∨
      ((x.2 = .delete o.kind o.name ∨ ∃ a c, x.2 = .mergePatch o.kind o.name a c) ∧
        key o ∈ x.1.mine ∧ key o ∈ x.1.stale) :=
  Xp.C02World.foreign_untouched_under_interference_history h hh w hw

/-- `xrd_crd_foreign_untouched_under_interference` over every history of reconciles of the
definition and offered reconcilers in any interleaving, each with its own third party. -/
theorem xrd_crd_foreign_untouched_under_interference_history
    (h : List (Env Xp.C02CrdEnv.E × Plan × Xp.C02Crd.Which)) (hh : ∀ r ∈ h, ∀ k e, Xp.C02CrdEnv.Rely e (r.1 k e))
    (e : Xp.C02CrdEnv.E) (he : Xp.C02CrdEnv.Inv e) :
    ∀ x ∈ Xp.C02CrdEnv.ownRounds h e, ∀ c, x.1.base.crd = some c → c.ctrl = .other →
      (Xp.C02CrdEnv.exec x.1 x.2).1.base.crd = some c ∨
      (x.2 = .deleteCRD ∧ ∃ c0, x.1.seen = some (some c0) ∧ c0.ctrl = .xrd ∧ c0.rv ≠ c.rv) :=
  Xp.C02CrdEnv.crd_foreign_untouched_under_interference_history h hh e he

example : Xp.C02World.ownRounds [(Xp.C02World.adoptAt 2 "KA" "x", Plan.allOk, exDropAllPT)] exWorld ≠ [] := by decide

/-! ### the claim's connection secret when the claim is deleted (model `Xp.C02Unpub`) -/

/-- **Not deleted either.** However often a deleting claim is reconciled, the secret its
`writeConnectionSecretToRef` names — controlled by another claim, by nobody, or by this claim —
is what it was, and no API call is addressed to a secret: the reconciler's default
ConnectionUnpublisher is the no-op (`claim_default_unpublisher_is_nop` ties that to the tree). -/
theorem claim_deletion_leaves_named_secret (c : Xp.C02Unpub.Claim) (n : Nat) (s : Option Xp.C02Unpub.Ctrl) :
    Xp.C02Unpub.unpublishN c n s = ([], s) := by
  induction n generalizing s with
  | zero => rfl
  | succ n ih => simp [Xp.C02Unpub.unpublishN, Xp.C02Unpub.unpublish, ih]

/-- regenerated from the current tree: the claim reconciler built by `claim.NewReconciler` with
default options unpublishes with a `NopConnectionUnpublisher`, whose `UnpublishConnection`
issues no call; and the reconciler's delete / unpublish / finalizer / propagate calls are in
the order the model assumes. -/
theorem claim_default_unpublisher_is_nop :
    Xp.Gen.c02ClaimDefaultUnpublisher = "*claim.NopConnectionUnpublisher" ∧ Xp.Gen.c02SkelNopUnpublish = [] ∧
    Xp.Gen.c02SkelClaimReconcile =
      ["client.Delete", "claim.UnpublishConnection", "claim.RemoveFinalizer", "claim.AddFinalizer", "composite.PropagateConnection"] := by
  decide

example : Xp.C02Unpub.unpublishN ⟨true, true⟩ 3 (some .other) = ([], some .other) := by decide

/-! ### call skeletons of the modelled Go functions, regenerated from the source on every run

Inserting, removing or reordering an API call, a wrapped helper or an ownership guard
(`GetControllerOf`, `IsControlledBy`, `MustBeControllableBy`, `ConnectionSecretMustBeControllableBy`)
in one of these functions breaks the obligation before any scenario runs; the declared lists
(`Xp.C02Skel`) say, entry by entry, which model step mirrors the call. -/

theorem skeleton_definition_reconcile : Xp.Gen.c02SkelDefinitionReconcile = Xp.C02Skel.definitionReconcile := by decide
theorem skeleton_offered_reconcile : Xp.Gen.c02SkelOfferedReconcile = Xp.C02Skel.offeredReconcile := by decide
theorem skeleton_observe : Xp.Gen.c02SkelObserve = Xp.C02Skel.observe := by decide
theorem skeleton_garbage_collect : Xp.Gen.c02SkelGarbageCollect = Xp.C02Skel.garbageCollect := by decide
theorem skeleton_fn_compose : Xp.Gen.c02SkelFnCompose = Xp.C02Skel.fnCompose := by decide
theorem skeleton_associate : Xp.Gen.c02SkelAssociate = Xp.C02Skel.associate := by decide
theorem skeleton_pt_compose : Xp.Gen.c02SkelPTCompose = Xp.C02Skel.ptCompose := by decide
theorem skeleton_xr_reconcile : Xp.Gen.c02SkelXRReconcile = Xp.C02Skel.xrReconcile := by decide
theorem skeleton_publish : Xp.Gen.c02SkelPublish = Xp.C02Skel.publish := by decide
theorem skeleton_propagate : Xp.Gen.c02SkelPropagate = Xp.C02Skel.propagate := by decide

end Xp.C02

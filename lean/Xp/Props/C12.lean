import Xp.Proofs.C12T
/-
C12 — composition revisions form a faithful, monotonic history.

The theorems are about `Xp.C12.reconcile` (the revision controller with
fixes/D4.diff applied) and `Xp.C12.fetch` (APIRevisionFetcher.Fetch), for every
fault plan (`Plan`, an outcome for every API call index), every history of
environment actions (Composition edits incl. label/annotation-only edits and
A-B-A reverts, owner references stripped or replaced, restores under a new UID,
XR edits) interleaved with faulty reconciles, and every store `WF` describes —
the empty store and every store any such history reaches.

Recorded assumption (`Naming.Inj H D`): the content hash is collision-free on the
set `D` of contents the Compositions ever have (also on the 63-character prefix
used as label). `D` is arbitrary; nothing else is assumed about hashing.

The unchanged tree violates `numbers_monotone` and `current_is_highest` (defect
D4); the negation is proved on a concrete witness for `reconcileD4`, the mirror of
the unchanged ordering, at the end of this file.
-/
namespace Xp.C12

variable {H : Naming} {D : Content → Prop}

/-! ### tie to the source (regenerated on every run) -/

/-- The order of API calls and of the `LatestRevision` computation in the Go
`Reconcile` (go/ast walk of the current tree) is the one the model mirrors:
adoption loop, then `LatestRevision`, then the renumbering loop, then `Create`. -/
theorem skeleton_matches : Xp.Gen.compositionReconcileSkeleton = reconcileSkeleton := by decide

/-- the label keys the model's selector evaluation special-cases are the ones of the API package -/
theorem label_keys_distinct : Xp.Gen.labelCompositionName ≠ Xp.Gen.labelCompositionHash := by decide

/-! ### histories -/

/-- Every store visible at any instant of any history is well-formed: revision
names are unique, every revision is the faithful image of one content (name,
hash label, spec, labels), numbers start at 1 and are unique per Composition. -/
theorem history_wf (hi : H.Inj D) (h : List Ev) (s : Store) (w : WF H D s) (hev : ∀ e ∈ h, EvOK D e) :
    ∀ s' ∈ reachHist H h s, WF H D s' :=
  fun s' hs' => ((reachHist_ok hi h s w hev).1 s' hs').1

/-- **Revision numbers only grow**, per revision, across every history, fault and
crash: for any two instants (the earlier store `a`, the later store `b`), every
revision of `a` still exists in `b` and its number did not decrease. -/
theorem numbers_monotone (hi : H.Inj D) (h : List Ev) (s : Store) (w : WF H D s) (hev : ∀ e ∈ h, EvOK D e) :
    (reachHist H h s).Pairwise fun a b => ∀ r ∈ a.revs, ∃ r' ∈ b.revs, r'.name = r.name ∧ r.num ≤ r'.num := by
  refine (reachHist_ok hi h s w hev).2.1.imp ?_
  intro a b hab r hr
  obtain ⟨r', hr', e1, _, _, _, _, e6⟩ := hab r hr
  exact ⟨r', hr', e1, e6⟩

/-- **Apart from its number (and owner reference) a revision is never edited
afterwards**, nor deleted: at any later instant the revision of that name carries
the same spec, the same labels (the two crossplane.io labels included). -/
theorem spec_never_edited (hi : H.Inj D) (h : List Ev) (s : Store) (w : WF H D s) (hev : ∀ e ∈ h, EvOK D e) :
    (reachHist H h s).Pairwise fun a b => ∀ r ∈ a.revs, ∃ r' ∈ b.revs,
      r'.name = r.name ∧ r'.spec = r.spec ∧ r'.labels = r.labels ∧ r'.comp = r.comp ∧ r'.hash = r.hash := by
  refine (reachHist_ok hi h s w hev).2.1.imp ?_
  intro a b hab r hr
  obtain ⟨r', hr', e1, e2, e3, e4, e5, _⟩ := hab r hr
  exact ⟨r', hr', e1, e4, e5, e2, e3⟩

/-- **After a reconcile that returned without error the revision matching the
Composition's current content has the strictly highest number** of all revisions
of that Composition, is controlled by it and carries exactly that content — from
every well-formed store, hence also when the Composition was reverted to earlier
content (A-B-A) and after owner references were stripped, under every fault plan. -/
theorem current_is_highest (hi : H.Inj D) (s : Store) (w : WF H D s) (comp : String) (plan : Plan) (c : Comp)
    (hc : s.comps.find? (·.name = comp) = some c) (hd : c.deleting = false)
    (hok : (run sem plan 0 (reconcile H comp) s).2 = some .done ∨
           (run sem plan 0 (reconcile H comp) s).2 = some .created) :
    ∃ r ∈ (run sem plan 0 (reconcile H comp) s).1.revs,
      r.comp = comp ∧ r.hash = H.hash c.content ∧ r.spec = c.content.spec ∧ r.labels = c.content.labels ∧
      r.ctrl = some c.uid ∧
      ∀ r' ∈ (run sem plan 0 (reconcile H comp) s).1.revs, r'.comp = comp → r'.name ≠ r.name → r'.num < r.num := by
  have hp := reconcile_safe hi comp s w false (fun h => by cases h)
  have hcn : c.name = comp := find_name (f := Comp.name) hc
  have post : ∀ res, (run sem plan 0 (reconcile H comp) s).2 = some res → (res = .done ∨ res = .created) →
      Good H c (run sem plan 0 (reconcile H comp) s).1 := by
    intro res hres hr
    obtain ⟨_, hb⟩ := safeP_run sem (WF H D) Le _ plan 0 _ _ s hp res hres
    exact hb.2 hr c hc hd
  have g : Good H c (run sem plan 0 (reconcile H comp) s).1 := by
    rcases hok with h | h
    · exact post _ h (Or.inl rfl)
    · exact post _ h (Or.inr rfl)
  obtain ⟨r, hr, g1, g2, g3, g4, g5, g6⟩ := g
  exact ⟨r, hr, hcn ▸ g1, g2, g3, g4, g5, fun r' hr' hc' hn => g6 r' hr' (hcn ▸ hc') hn⟩

/-- **Every content a Composition has had at a successful reconcile is captured by
exactly one revision whose spec and labels equal that content**, at every instant
of every continuation of the history. -/
theorem one_rev_per_content (hi : H.Inj D) (s : Store) (w : WF H D s) (comp : String) (plan : Plan) (c : Comp)
    (hc : s.comps.find? (·.name = comp) = some c) (hd : c.deleting = false)
    (hok : (run sem plan 0 (reconcile H comp) s).2 = some .done ∨
           (run sem plan 0 (reconcile H comp) s).2 = some .created)
    (h : List Ev) (hev : ∀ e ∈ h, EvOK D e) :
    ∀ s' ∈ reachHist H h (run sem plan 0 (reconcile H comp) s).1,
      ∃ r ∈ s'.revs, r.comp = comp ∧ r.hash = H.hash c.content ∧
        r.spec = c.content.spec ∧ r.labels = c.content.labels ∧
        ∀ r' ∈ s'.revs, r'.comp = comp → r'.hash = H.hash c.content → r' = r := by
  intro s' hs'
  obtain ⟨r, hr, g1, g2, g3, g4, _, _⟩ := current_is_highest hi s w comp plan c hc hd hok
  have w1 : WF H D (run sem plan 0 (reconcile H comp) s).1 :=
    (reachEv_ok hi w (.reconcile comp plan) trivial).2.2.1
  obtain ⟨w', le'⟩ := (reachHist_ok hi h _ w1 hev).1 s' hs'
  obtain ⟨r', hr', e1, e2, e3, e4, e5, _⟩ := le' r hr
  refine ⟨r', hr', e2.trans g1, e3.trans g2, e4.trans g3, e5.trans g4, ?_⟩
  intro x hx hxc hxh
  have hn : x.name = r'.name :=
    w'.name_of_hash hi hx hr' (hxc.trans (e2.trans g1).symm) (hxh.trans (e3.trans g2).symm)
  exact eq_of_name_eq w'.names hx hr' hn

/-- **Progress**: a reconcile that meets no fault returns without error — unless a
revision of the Composition is controlled by somebody else, which makes every
reconcile fail by design. Together with `one_rev_per_content` and
`current_is_highest`: one fault-free reconcile after an edit captures the new
content. (This is where the collision-freedom of the 7-character name prefix is used.) -/
theorem reconcile_succeeds_without_faults (hi : H.Inj D) (s : Store) (w : WF H D s) (comp : String) (c : Comp)
    (hc : s.comps.find? (·.name = comp) = some c)
    (hown : ∀ x ∈ s.revs, x.comp = comp → x.ctrl = none ∨ x.ctrl = some c.uid) :
    (run sem Plan.allOk 0 (reconcile H comp) s).2 = some .done ∨
    (run sem Plan.allOk 0 (reconcile H comp) s).2 = some .created := by
  have hcn : c.name = comp := find_name (f := Comp.name) hc
  have hp := reconcile_safe hi comp s w true (fun _ c' hc' x hx hxc => by
    rw [hc] at hc'; cases hc'; exact hown x hx (hxc.trans hcn))
  obtain ⟨a, ha, hpost⟩ := safeP_run_allOk sem (WF H D) Le _ 0 _ _ s hp
  rcases hpost.1 rfl with e | e
  · exact Or.inl (e ▸ ha)
  · exact Or.inr (e ▸ ha)

/-! ### XR side -/

/-- **An XR with the Manual policy keeps using the revision it references**: under
every fault plan the fetch writes nothing (the store, hence the XR's reference, is
the same at every instant) and the only revision it can hand to the XR
reconciler is the stored revision of that name. -/
theorem manual_pins (s : Store) (n : String) (x : XR) (p : String)
    (hx : s.xrs.find? (·.name = n) = some x) (hpol : x.policy = some .manual) (href : x.ref = some p) (plan : Plan) :
    (∀ s' ∈ reach sem plan 0 (fetch n) s, s' = s) ∧
    ∀ r, (run sem plan 0 (fetch n) s).2 = some (.rev r) → r.name = p ∧ s.revs.find? (·.name = p) = some r := by
  constructor
  · intro s' hs'
    exact (safeP_reach sem (fun s' => s' = s) (fun _ _ => True) _ (fun _ => trivial) (fun _ _ _ _ _ => trivial)
      plan 0 _ _ s rfl (fetch_manual_safe s n x p hx hpol href) s' hs').1
  · intro r hr
    obtain ⟨_, hb⟩ := safeP_run sem _ _ _ plan 0 _ _ s (fetch_safe s n) (.rev r) hr
    have := hb r rfl x hx
    simp only [hpol, href] at this
    exact ⟨find_name (f := Rev.name) this.2, this.2⟩

/-- **An XR with the Automatic policy (or without a selected revision) moves to the
highest-numbered revision controlled by its Composition, restricted by its
revision selector** (the selector counts only under an explicit Automatic
policy): the revision handed over is stored, labelled with and controlled by the
XR's Composition, matches the selector, no such revision has a higher number,
and the XR references it in the final store. Revisions and Compositions are
never written by a fetch. -/
theorem automatic_follows_highest_controlled (s : Store) (n : String) (x : XR)
    (hx : s.xrs.find? (·.name = n) = some x) (hnot : ∀ p, x.policy = some .manual → x.ref ≠ some p)
    (plan : Plan) (r : Rev) (hr : (run sem plan 0 (fetch n) s).2 = some (.rev r)) :
    (∃ c, s.comps.find? (·.name = x.comp) = some c ∧ r ∈ s.revs ∧ r.comp = c.name ∧ r.ctrl = some c.uid ∧
      selOK (effSel x) r = true ∧
      (∀ r' ∈ s.revs, r'.comp = c.name → r'.ctrl = some c.uid → selOK (effSel x) r' = true → r'.num ≤ r.num) ∧
      xrRef (run sem plan 0 (fetch n) s).1 x.name = some r.name) ∧
    (run sem plan 0 (fetch n) s).1.revs = s.revs ∧ (run sem plan 0 (fetch n) s).1.comps = s.comps := by
  have hp := fetch_safe s n
  obtain ⟨_, hb⟩ := safeP_run sem _ _ _ plan 0 _ _ s hp (.rev r) hr
  have hpost := hb r rfl x hx
  have hinv := (safeP_reach sem (FetchInv s) (fun a b => b.revs = a.revs) _ (fun _ => rfl)
    (fun _ _ _ h1 h2 => h2.trans h1) plan 0 _ _ s ⟨rfl, rfl⟩ hp _ (run_mem_reach sem plan 0 (fetch n) s)).1
  refine ⟨?_, hinv.1, hinv.2⟩
  split at hpost
  · rename_i p hp1 hp2; exact absurd hp2 (hnot p hp1)
  · exact hpost

/-- End to end: after a successful reconcile of Composition `c`, an XR of that
Composition without selector that is not pinned is handed exactly the revision of
the Composition's current content. -/
theorem automatic_gets_current (hi : H.Inj D) (s : Store) (w : WF H D s) (comp : String) (plan : Plan) (c : Comp)
    (hc : s.comps.find? (·.name = comp) = some c) (hd : c.deleting = false)
    (hok : (run sem plan 0 (reconcile H comp) s).2 = some .done ∨
           (run sem plan 0 (reconcile H comp) s).2 = some .created)
    (n : String) (x : XR) (hx : (run sem plan 0 (reconcile H comp) s).1.xrs.find? (·.name = n) = some x)
    (hxc : x.comp = comp) (hnot : ∀ p, x.policy = some .manual → x.ref ≠ some p) (hsel : effSel x = [])
    (plan' : Plan) (r : Rev)
    (hr : (run sem plan' 0 (fetch n) (run sem plan 0 (reconcile H comp) s).1).2 = some (.rev r)) :
    r.hash = H.hash c.content ∧ r.spec = c.content.spec ∧ r.labels = c.content.labels := by
  obtain ⟨g, hg, g1, g2, g3, g4, g5, g6⟩ := current_is_highest hi s w comp plan c hc hd hok
  have w1 : WF H D (run sem plan 0 (reconcile H comp) s).1 :=
    (reachEv_ok hi w (.reconcile comp plan) trivial).2.2.1
  obtain ⟨⟨c', hc', a1, a2, a3, _, a5, _⟩, _, _⟩ :=
    automatic_follows_highest_controlled _ n x hx hnot plan' r hr
  have hcomps : (run sem plan 0 (reconcile H comp) s).1.comps = s.comps := by
    have : ∀ (p : P Res) (k : Nat) (t : Store), (run sem plan k p t).1.comps = t.comps := by
      intro p
      induction p with
      | ret a => intro k t; rfl
      | call q cont ih =>
        intro k t
        unfold run
        split
        · rw [ih]; exact exec_comps t q
        · rw [ih]
        · rw [ih]
        · rfl
        · exact exec_comps t q
    exact this _ 0 s
  rw [hcomps, hxc, hc] at hc'
  cases hc'
  have hcn : c.name = comp := find_name (f := Comp.name) hc
  have hle : g.num ≤ r.num := a5 g hg (g1.trans hcn.symm) g5 (by rw [hsel]; rfl)
  have hname : r.name = g.name := by
    by_cases e : r.name = g.name
    · exact e
    · have := g6 r a1 (a2.trans hcn) e
      omega
  have : r = g := eq_of_name_eq w1.names a1 hg hname
  exact this ▸ ⟨g2, g3, g4⟩

/-! ### the hypotheses are satisfiable; A-B-A -/

def cA : Content := ⟨[("channel", "dev")], 0, 0⟩
def cB : Content := ⟨[("channel", "dev")], 1, 0⟩   -- annotation-only edit of cA
def cC : Content := ⟨[], 0, 1⟩

/-- a concrete naming on three contents -/
def HW : Naming where
  hash := fun c => if c = cA then "ha" else if c = cB then "hb" else "hc"
  name := fun n c => n ++ (if c = cA then "-a" else if c = cB then "-b" else "-c")

def DW (c : Content) : Prop := c = cA ∨ c = cB ∨ c = cC

instance : DecidablePred DW := fun c => by unfold DW; infer_instance

theorem HW_hash_inj : ∀ c c', DW c → DW c' → HW.hash c = HW.hash c' → c = c' := by
  intro c c' h h'
  rcases h with h | h | h <;> rcases h' with h' | h' | h' <;> subst h <;> subst h' <;> decide

def comp0 (c : Content) : Comp := ⟨"comp", 1, c, false⟩

/-- the empty store with one Composition is well-formed (non-trivial start of every history) -/
example : WF HW DW ⟨[comp0 cA], [], []⟩ where
  comps := fun c h => by simp at h; subst h; exact Or.inl rfl
  names := List.Pairwise.nil
  faithful := fun _ h => by cases h
  pos := fun _ h => by cases h
  nums := fun _ h => by cases h

theorem HW_name_inj : ∀ n c n' c', DW c → DW c' → HW.name n c = HW.name n' c' → n = n' ∧ c = c' := by
  intro n c n' c' h h' e
  rcases h with h | h | h <;> rcases h' with h' | h' | h' <;> subst h <;> subst h' <;>
    (simp only [HW] at e
     have := append_inj_of_len _ _ _ _ (by decide) e
     first
     | exact ⟨this.1, rfl⟩
     | exact absurd this.2 (by decide))

/-- the naming is collision-free on its three contents -/
theorem HW_inj : HW.Inj DW := ⟨HW_hash_inj, HW_name_inj⟩

def abaHistory : List Ev :=
  [.reconcile "comp" Plan.allOk, .putComp (comp0 cB), .reconcile "comp" Plan.allOk,
   .putComp (comp0 cA), .reconcile "comp" Plan.allOk]

/-- A → B → A: two revisions, the revision of A is renumbered 1 → 3 and is the highest -/
example : (runHist HW abaHistory ⟨[comp0 cA], [], []⟩).revs.map (fun r => (r.name, r.num)) =
    [("comp-a", 3), ("comp-b", 2)] := by decide

/-- same history, then every owner reference is stripped and the Composition
restored under a new UID, with a crash right after the first re-adoption write and a
retry: the numbers are untouched and the revision of A is still the highest -/
example : (runHist HW (abaHistory ++ [.putComp ⟨"comp", 7, cA, false⟩, .setCtrl ["comp-a", "comp-b"] none,
      .reconcile "comp" (Plan.at 2 .crashAfter), .reconcile "comp" Plan.allOk]) ⟨[comp0 cA], [], []⟩).revs.map
      (fun r => (r.name, r.num, r.ctrl)) = [("comp-a", 3, some 7), ("comp-b", 2, some 7)] := by decide

theorem abaHistory_ok : ∀ e ∈ abaHistory, EvOK DW e := by
  intro e he
  simp only [abaHistory, List.mem_cons, List.mem_nil_iff, or_false] at he
  rcases he with h | h | h | h | h <;> subst h <;> simp [EvOK, DW, comp0]

def start0 : Store := ⟨[comp0 cA], [], []⟩

theorem start0_wf : WF HW DW start0 where
  comps := fun c h => by simp [start0] at h; subst h; exact Or.inl rfl
  names := List.Pairwise.nil
  faithful := fun _ h => by cases h
  pos := fun _ h => by cases h
  nums := fun _ h => by cases h

/-- the hypotheses of the history theorems are met by the A-B-A history (whose
stores are non-trivial, see above) -/
example : (reachHist HW abaHistory start0).Pairwise fun a b =>
    ∀ r ∈ a.revs, ∃ r' ∈ b.revs, r'.name = r.name ∧ r.num ≤ r'.num :=
  numbers_monotone HW_inj abaHistory start0 start0_wf abaHistory_ok

/-- … and those of `current_is_highest` / `reconcile_succeeds_without_faults` by its
last reconcile (the revert to A, where revision `comp-a` goes 1 → 3) -/
example : ∃ s c, WF HW DW s ∧ s.comps.find? (·.name = "comp") = some c ∧ c.deleting = false ∧
    s.revs.map (fun r => (r.name, r.num)) = [("comp-a", 1), ("comp-b", 2)] ∧
    (run sem Plan.allOk 0 (reconcile HW "comp") s).2 = some .done :=
  ⟨runHist HW (abaHistory.take 4) start0, comp0 cA,
   (reachHist_ok HW_inj (abaHistory.take 4) start0 start0_wf
      (fun e he => abaHistory_ok e (List.mem_of_mem_take he))).2.2,
   by decide, rfl, by decide, by decide⟩

/-! ### defect D4: the ordering of the unchanged tree violates the property -/

/-- three revisions 1, 2, 3 of contents A, B, C (current: C) whose owner
references were stripped by a backup/restore; the Composition has a new UID -/
def d4Store : Store :=
  ⟨[⟨"comp", 10, cC, false⟩],
   [⟨"comp-a", "comp", "ha", 1, none, [("channel", "dev")], 0, 2⟩,
    ⟨"comp-b", "comp", "hb", 2, none, [("channel", "dev")], 0, 2⟩,
    ⟨"comp-c", "comp", "hc", 3, none, [], 1, 2⟩], []⟩

/-- what one fault-free reconcile of the unchanged ordering does to it: the current revision goes 3 → 1 -/
theorem d4_unfixed_run :
    (run sem Plan.allOk 0 (reconcileD4 HW "comp") d4Store).1.revs.map (fun r => (r.name, r.num)) =
      [("comp-a", 1), ("comp-b", 2), ("comp-c", 1)] ∧
    (run sem Plan.allOk 0 (reconcileD4 HW "comp") d4Store).2 = some .done := by decide

/-- `numbers_monotone` is false for the unchanged ordering: the number of `comp-c` decreased -/
theorem numbers_monotone_fails_on_unfixed_witness :
    ¬ ∀ r ∈ d4Store.revs, ∃ r' ∈ (run sem Plan.allOk 0 (reconcileD4 HW "comp") d4Store).1.revs,
        r'.name = r.name ∧ r.num ≤ r'.num := by decide

/-- `current_is_highest` is false for the unchanged ordering: after a successful
reconcile the revision of the current content C does not have the highest number -/
theorem current_is_highest_fails_on_unfixed_witness :
    (run sem Plan.allOk 0 (reconcileD4 HW "comp") d4Store).2 = some .done ∧
    ¬ ∃ r ∈ (run sem Plan.allOk 0 (reconcileD4 HW "comp") d4Store).1.revs, r.hash = HW.hash cC ∧
        ∀ r' ∈ (run sem Plan.allOk 0 (reconcileD4 HW "comp") d4Store).1.revs, r'.name ≠ r.name → r'.num < r.num := by
  decide

/-- the repaired ordering on the same witness: numbers 1, 2, 3 kept, all re-adopted -/
theorem d4_fixed_run :
    (run sem Plan.allOk 0 (reconcile HW "comp") d4Store).1.revs.map (fun r => (r.name, r.num, r.ctrl)) =
      [("comp-a", 1, some 10), ("comp-b", 2, some 10), ("comp-c", 3, some 10)] := by decide

/-- the order of calls of the defective model is the other one (what the walk of the unchanged tree yields) -/
theorem d4_skeleton_differs : reconcileD4Skeleton ≠ reconcileSkeleton := by decide

/-! ### interference between API calls, error classes, informer-cache lag

`runX sm env plan`: other clients act on the store right before every API call
(`env k`), a call may be answered with any error class without being applied
(`Fault.reply`), reads may be served by a lagging informer cache (`semV (v k)`, a view
per call). The theorems above are the special case without any of this (`runX_plain`). -/

/-- the setting of the theorems above is `runX` without interference, error classes and lag -/
theorem interference_free_is_special_case {α : Type} (plan : Plan) (p : P α) (s : Store) :
    runX (fun _ => semV View.fresh) Env.none (FPlan.ofPlan plan) 0 p s = run sem plan 0 p s :=
  runX_plain plan p 0 s

/-- **Numbers only grow, no revision is edited or deleted, every revision stays the
faithful image of one content with a unique name — under ANY interference, error class,
crash and cache lag**: whatever other clients do between two API calls of a reconcile (as
long as they themselves keep `WF0` and `Le`: users, backup/restore, other controllers, other
replicas of this controller), whichever error class any call is answered with, and
whatever lagging views the informer cache serves at each call, every instant of the
reconcile is `WF0`, later instants are `Le`-above earlier ones (per revision: same name,
labels, spec, number not decreased), and every write the reconcile applies is an `Update`
that only raises a number / changes the owner or a `Create` of a faithful revision. -/
theorem history_safe_under_interference (v : Nat → View) (hv : ∀ k, ViewOK D (v k)) (env : Env Store)
    (henv : ∀ k s, WF0 H D s → WF0 H D (env k s) ∧ Le s (env k s)) (plan : FPlan) (hplan : plan.errOnly)
    (comp : String) (s : Store) (w : WF0 H D s) :
    (∀ s' ∈ reachX (fun k => semV (v k)) env plan 0 (reconcile H comp) s, WF0 H D s' ∧ Le s s') ∧
    (reachX (fun k => semV (v k)) env plan 0 (reconcile H comp) s).Pairwise Le ∧
    (∀ x ∈ ownX (fun k => semV (v k)) env plan 0 (reconcile H comp) s, WF0 H D x.1 ∧ GoodReq H D x.2) :=
  issuesG_reach v env plan hv henv hplan _ (reconcile_issues comp) 0 s w

/-- … in particular **numbers only grow** across any two instants of such a reconcile -/
theorem numbers_monotone_under_interference (v : Nat → View) (hv : ∀ k, ViewOK D (v k)) (env : Env Store)
    (henv : ∀ k s, WF0 H D s → WF0 H D (env k s) ∧ Le s (env k s)) (plan : FPlan) (hplan : plan.errOnly)
    (comp : String) (s : Store) (w : WF0 H D s) :
    (reachX (fun k => semV (v k)) env plan 0 (reconcile H comp) s).Pairwise fun a b =>
      ∀ r ∈ a.revs, ∃ r' ∈ b.revs, r'.name = r.name ∧ r'.spec = r.spec ∧ r'.labels = r.labels ∧ r.num ≤ r'.num := by
  refine (history_safe_under_interference v hv env henv plan hplan comp s w).2.1.imp ?_
  intro a b hab r hr
  obtain ⟨r', hr', e1, _, _, e4, e5, e6⟩ := hab r hr
  exact ⟨r', hr', e1, e4, e5, e6⟩

/-- … and **a content is never captured twice**: at every instant two revisions of one
Composition carrying the same content hash are the same object -/
theorem one_rev_per_content_under_interference (hi : H.Inj D) (v : Nat → View) (hv : ∀ k, ViewOK D (v k))
    (env : Env Store) (henv : ∀ k s, WF0 H D s → WF0 H D (env k s) ∧ Le s (env k s)) (plan : FPlan)
    (hplan : plan.errOnly) (comp : String) (s : Store) (w : WF0 H D s) :
    ∀ s' ∈ reachX (fun k => semV (v k)) env plan 0 (reconcile H comp) s,
      ∀ a ∈ s'.revs, ∀ b ∈ s'.revs, a.comp = b.comp → a.hash = b.hash → a = b := by
  intro s' hs' a ha b hb hc hh
  have w' := ((history_safe_under_interference v hv env henv plan hplan comp s w).1 s' hs').1
  exact eq_of_name_eq w'.names ha hb (w'.name_of_hash hi ha hb hc hh)

/-- the same for the XR side: a fetch keeps the revision history intact whatever happens around it -/
theorem fetch_safe_under_interference (v : Nat → View) (hv : ∀ k, ViewOK D (v k)) (env : Env Store)
    (henv : ∀ k s, WF0 H D s → WF0 H D (env k s) ∧ Le s (env k s)) (plan : FPlan) (hplan : plan.errOnly)
    (xr : String) (s : Store) (w : WF0 H D s) :
    (∀ s' ∈ reachX (fun k => semV (v k)) env plan 0 (fetch xr) s, WF0 H D s' ∧ Le s s') ∧
    (reachX (fun k => semV (v k)) env plan 0 (fetch xr) s).Pairwise Le :=
  ⟨(issuesG_reach v env plan hv henv hplan _ (fetch_issues xr) 0 s w).1,
   (issuesG_reach v env plan hv henv hplan _ (fetch_issues xr) 0 s w).2.1⟩

/-- **After a reconcile that returned without error the revision of the content it read
has the strictly highest number — also when third parties act between its API calls**
(`RelyT`: users editing / re-creating Compositions and XRs, backup/restore or other
controllers stripping or replacing the owner references of revisions) and whichever
error class any later call is answered with. `c` is the Composition the reconcile's `Get`
returned (the store after the interference preceding that call). Lists are read fresh. -/
theorem current_is_highest_under_interference (hi : H.Inj D) (s : Store) (w : WF H D s) (env : Env Store)
    (henv : ∀ k s, RelyT D s (env k s)) (plan : FPlan) (hplan : plan.errOnly) (hp0 : plan 0 = .out .ok)
    (comp : String) (c : Comp) (hc : (env 0 s).comps.find? (·.name = comp) = some c) (hd : c.deleting = false)
    (hok : (runX (fun _ => sem) env plan 0 (reconcile H comp) s).2 = some .done ∨
           (runX (fun _ => sem) env plan 0 (reconcile H comp) s).2 = some .created) :
    ∃ r ∈ (runX (fun _ => sem) env plan 0 (reconcile H comp) s).1.revs,
      r.comp = comp ∧ r.hash = H.hash c.content ∧ r.spec = c.content.spec ∧ r.labels = c.content.labels ∧
      ∀ r' ∈ (runX (fun _ => sem) env plan 0 (reconcile H comp) s).1.revs,
        r'.comp = comp → r'.name ≠ r.name → r'.num < r.num := by
  have hcn : c.name = comp := find_name (f := Comp.name) hc
  have w1 : WF H D (env 0 s) := (henv 0 s).wf w
  have hD : D c.content := w1.comps c (List.mem_of_find?_eq_some hc)
  rw [runX_reconcile_head env plan hp0 s comp c hc] at hok ⊢
  have post := safeE_run env henv plan hplan (recTail H c) 1 (env 0 s) (recTail_safeE hi c hD (env 0 s) w1)
  have g : Good' H c (runX (fun _ => sem) env plan 1 (recTail H c) (env 0 s)).1 := by
    rcases hok with h | h
    · exact post _ h (Or.inl rfl) hd
    · exact post _ h (Or.inr rfl) hd
  obtain ⟨r, hr, g1, g2, g3, g4, g5⟩ := g
  exact ⟨r, hr, hcn ▸ g1, g2, g3, g4, fun r' hr' hc' hn => g5 r' hr' (hcn ▸ hc') hn⟩

/-- **An XR that is Manual and references a revision keeps using it — whatever happens
around the fetch**: if the XR the fetch read (through a possibly lagging cache, after
whatever other clients did) is Manual and references `p`, the fetch applies no write at
all, under every interference, error class and cache lag, and the only revision it can
hand over is named `p`. -/
theorem manual_pins_under_interference (v : Nat → View) (env : Env Store) (plan : FPlan) (hplan : plan.errOnly)
    (hp0 : plan 0 = .out .ok) (s : Store) (n : String) (x : XR) (p : String)
    (hx : ((v 0).apply (env 0 s)).xrs.find? (·.name = n) = some x)
    (hpol : x.policy = some .manual) (href : x.ref = some p) :
    (∀ y ∈ ownX (fun k => semV (v k)) env plan 0 (fetch n) s, y.2.isWrite = false) ∧
    ∀ r, (runX (fun k => semV (v k)) env plan 0 (fetch n) s).2 = some (.rev r) → r.name = p := by
  obtain ⟨e1, e2⟩ := fetch_head_manual v env plan hp0 s n x p hx hpol href
  rw [e1, e2]
  constructor
  · intro y hy
    rcases List.mem_cons.mp hy with h | h
    · subst h; rfl
    · exact manualTail_own _ env plan 1 _ p y h
  · intro r hr
    exact manualTail_run v env plan hplan 1 _ p r hr

/-- the rely of the previous theorem is met by every environment action of the histories -/
theorem envStep_is_third_party (s : Store) (w : WF H D s) (e : Ev) (he : EvOK D e) : RelyT D s (envStep s e) :=
  ⟨envStep_map_er s e, envStep_comps w.comps e he⟩

/-! ### the revision-created handler of the XR controller -/

/-- **Every XR that is not Manual and uses the Composition of a newly created revision is
enqueued** (so that its next fetch moves it to that revision), and nothing else is. -/
theorem enqueue_exactly_automatic (xrs : List XR) (r : Rev) (hr : r.comp ≠ "") (n : String) :
    n ∈ enqueueFor xrs r ↔ ∃ x ∈ xrs, x.name = n ∧ x.comp = r.comp ∧ x.policy ≠ some .manual := by
  simp only [enqueueFor, hr, if_false, List.mem_map, List.mem_filter, Bool.and_eq_true, decide_eq_true_eq,
    ne_eq]
  constructor
  · rintro ⟨x, ⟨hx, hp, hc⟩, e⟩; exact ⟨x, hx, e, hc, hp⟩
  · rintro ⟨x, hx, e, hc, hp⟩; exact ⟨x, ⟨hx, hp, hc⟩, e⟩

/-! ### finding D22: with a lagging revision list the current content does not get the highest number -/

def revA : Rev := ⟨"comp-a", "comp", "ha", 1, some 1, [("channel", "dev")], 0, 1⟩
def revB : Rev := ⟨"comp-b", "comp", "hb", 2, some 1, [("channel", "dev")], 0, 1⟩

/-- contents A, B captured as revisions 1, 2; the Composition was just edited to C -/
def staleStore : Store := ⟨[comp0 cC], [revA, revB], [⟨"xr", "comp", some .automatic, none, none, 0⟩]⟩

/-- the informer cache has not yet seen revision B (created by the previous reconcile) -/
def staleView : View := { revs := some [revA] }

def afterStale : Store := (runX (fun _ => semV staleView) Env.none (FPlan.ofPlan Plan.allOk) 0 (reconcile HW "comp") staleStore).1

/-- the reconcile on the lagging list creates the revision of C with number 2, which B already carries -/
theorem stale_list_run :
    (runX (fun _ => semV staleView) Env.none (FPlan.ofPlan Plan.allOk) 0 (reconcile HW "comp") staleStore).2 = some .created ∧
    afterStale.revs.map (fun r => (r.name, r.num)) = [("comp-a", 1), ("comp-b", 2), ("comp-c", 2)] := by decide

/-- `current_is_highest` is false with a lagging list: the reconcile returned without error
and the revision of the current content C does not have the strictly highest number -/
theorem current_is_highest_fails_with_stale_list_witness :
    (runX (fun _ => semV staleView) Env.none (FPlan.ofPlan Plan.allOk) 0 (reconcile HW "comp") staleStore).2 = some .created ∧
    ¬ ∃ r ∈ afterStale.revs, r.hash = HW.hash cC ∧ ∀ r' ∈ afterStale.revs, r'.name ≠ r.name → r'.num < r.num := by
  decide

/-- … and no later reconcile repairs it: on fresh reads the reconcile returns `done` and
leaves the tie, and an Automatic XR is handed the revision of the PREVIOUS content B -/
theorem stale_list_tie_is_never_repaired_witness :
    run sem Plan.allOk 0 (reconcile HW "comp") afterStale = (afterStale, some .done) ∧
    ((run sem Plan.allOk 0 (fetch "xr") afterStale).2.map fun | .rev r => r.name | .err => "err") = some "comp-b" := by
  decide

end Xp.C12

import Xp.Proofs.C12T
import Xp.Proofs.C12H
import Xp.Gen.C12Skel
/-
C12 — composition revisions form a faithful, monotonic history.

The theorems are about `Xp.C12.reconcile` (the revision controller with
fixes/D4.diff applied) and `Xp.C12.fetch` (APIRevisionFetcher.Fetch), for every
fault plan (`Plan`, an outcome for every API call index), every history of
environment actions (Composition edits incl. label/annotation-only edits and
A-B-A reverts, owner references stripped or replaced, restores under a new UID,
XR edits) interleaved with faulty reconciles, and every store `WF` describes —
the empty store and every store any such history reaches.

Recorded assumption (`Naming.Inj H D`): the content hash is collision-free on the
set `D` of contents the Compositions ever have (also on the 63-character prefix
used as label). `D` is arbitrary; nothing else is assumed about hashing.

The unchanged tree violates `numbers_monotone` and `current_is_highest` (defect
D4); the negation is proved on a concrete witness for `reconcileD4`, the mirror of
the unchanged ordering, at the end of this file.
-/
namespace Xp.C12

variable {H : Naming} {D : Content → Prop}

/-! ### tie to the source (regenerated on every run) -/

def specW (fn : String) : Spec := ⟨"example.org/v1", "XThing", some "Pipeline", [], [], [("compose", fn)], none, none⟩
def rs0 : RevSpec := toRevisionSpec (specW "function-0")
def rs1 : RevSpec := toRevisionSpec (specW "function-1")
def cA0 : Content := ⟨[("channel", "dev")], [], specW "function-0"⟩
/-- a naming for the path theorems below -/
def HW0 : Naming := ⟨fun _ => "ha", fun n _ => n ++ "-a"⟩

/-- The order of API calls and of the `LatestRevision` computation in the Go
`Reconcile` (go/ast walk of the current tree) is the one the model mirrors:
adoption loop, then `LatestRevision`, then the renumbering loop, then `Create`. -/
theorem skeleton_matches : Xp.Gen.compositionReconcileSkeleton = reconcileSkeleton := by decide

/-- the label keys the model's selector evaluation special-cases are the ones of the API package -/
theorem label_keys_distinct : Xp.Gen.labelCompositionName ≠ Xp.Gen.labelCompositionHash := by decide

/-- `Reconciler.Reconcile`: every client call and every helper whose position decides the
outcome, in source order, is the step of `reconcile` / `adoptLoop` / `renumLoop` named in
`reconcileCallSkel` -/
theorem skeleton_Reconcile : Xp.Gen.c12ReconcileSkel = reconcileCallSkel := by decide

/-- `NewCompositionRevision` ↔ `newRev`, field by field -/
theorem skeleton_NewCompositionRevision : Xp.Gen.c12NewRevisionSkel = newRevSkel := by decide

/-- `NewCompositionRevisionSpec` ↔ `toRevisionSpec` + `Rev.num` -/
theorem skeleton_NewCompositionRevisionSpec : Xp.Gen.c12NewRevisionSpecSkel = newRevisionSpecSkel := by decide

/-- the generated converter calls one helper per structured field -/
theorem skeleton_ToRevisionSpec : Xp.Gen.c12ToRevisionSpecSkel = toRevisionSpecSkel := by decide

/-- `Composition.Hash`: three `yaml.Marshal`, two `append` without separator, one digest -/
theorem skeleton_Hash : Xp.Gen.c12HashSkel = hashSkel := by decide

/-- `v1.LatestRevision` ↔ `latestGo` -/
theorem skeleton_LatestRevision : Xp.Gen.c12LatestRevisionSkel = latestRevisionSkel := by decide

/-- `APIRevisionFetcher.Fetch` ↔ `fetch` -/
theorem skeleton_Fetch : Xp.Gen.c12FetchSkel = fetchSkel := by decide

/-- `APIRevisionFetcher.getCompositionRevisionList` ↔ `fetchSel` + `.listRevs` -/
theorem skeleton_getCompositionRevisionList : Xp.Gen.c12RevisionListSkel = revisionListSkel := by decide

/-- `EnqueueForCompositionRevision` ↔ `enqueueFor` -/
theorem skeleton_EnqueueForCompositionRevision : Xp.Gen.c12EnqueueSkel = enqueueSkel := by decide

/-- The client calls of the declared `Reconcile` skeleton are **the requests the model's program
issues**: along the path that re-adopts and renumbers one revision (Get, List, Update,
Update) followed by the `Create` of the path that finds no revision (Get, List, Create). -/
theorem skeleton_Reconcile_is_model_path :
    let r0 : Rev := ⟨"comp-a", "comp", "ha", 1, none, [], rs0, 1⟩
    let adoptRenum := pathVerbs (reconcile HW0 "comp") [.comp ⟨"comp", 1, cA0, false⟩, .revs [r0, { r0 with name := "comp-b", hash := "hb", num := 2, ctrl := some 1 }],
      .rev { r0 with ctrl := some 1 }, .rev { r0 with ctrl := some 1, num := 3 }]
    let create := pathVerbs (reconcile HW0 "comp") [.comp ⟨"comp", 1, cA0, false⟩, .revs [], .ok]
    adoptRenum = ["Get", "List", "Update", "Update"] ∧ create = ["Get", "List", "Create"] ∧
    (adoptRenum ++ create.drop 2).map ("client." ++ ·) =
      reconcileCallSkel.filter (["client.Get", "client.List", "client.Update", "client.Create"].contains ·) := by decide

/-- … and those of `Fetch` / `getCompositionRevisionList`: the Manual path (the reconciler's
Get of the XR, Get of the referenced revision) and the Automatic path (Get of the XR, Get of
the Composition, List, then `Apply` = Get + Patch) -/
theorem skeleton_Fetch_is_model_path :
    let r0 : Rev := ⟨"comp-a", "comp", "ha", 1, some 1, [], rs0, 1⟩
    let xm : XR := ⟨"xr", "comp", some .manual, none, some "comp-a", 0⟩
    let xa : XR := ⟨"xr", "comp", some .automatic, none, none, 0⟩
    pathVerbs (fetch "xr") [.xr xm, .rev r0] = ["Get", "Get"] ∧
    pathVerbs (fetch "xr") [.xr xa, .comp ⟨"comp", 1, cA0, false⟩, .revs [r0], .xr xa, .ok] = ["Get", "Get", "List", "Get", "Patch"] ∧
    (fetchSkel.filter (["ca.Get", "ca.Apply"].contains ·)).length + 1 = 4 ∧
    revisionListSkel.filter (· == "ca.List") = ["ca.List"] := by decide

/-- one `key: value` line per map entry, as the model renders it (probed on `yaml.Marshal`) -/
theorem yaml_entry_line : Xp.Gen.yamlOneEntry = (Tok.entry "k" "v").render (fun _ => "") := by decide

/-- the lengths `NewCompositionRevision` truncates to (probed on the real function): a sha256
in hex, a 63-character label value, a 7-character name suffix -/
theorem hash_lengths : Xp.Gen.compositionHashLen = 64 ∧ Xp.Gen.revisionHashLabelLen = 63 ∧
    Xp.Gen.revisionNameSuffixLen = 7 := by decide

/-- the two truncations of `NewCompositionRevision` are within the digest: 7 ≤ 63 ≤ 64 -/
theorem hash_truncations : Xp.Gen.revisionNameSuffixLen ≤ Xp.Gen.revisionHashLabelLen ∧
    Xp.Gen.revisionHashLabelLen ≤ Xp.Gen.compositionHashLen := by decide

/-! ### the revision is a field-by-field copy; the hash input -/

/-- **`NewCompositionRevision` copies the Composition field by field**, for every naming,
Composition and number: the spec of the revision read back is the Composition's spec (every
field), the labels are the Composition's, the two crossplane.io labels are the Composition's
name and the hash label of its content, it is controlled by the Composition. -/
theorem new_revision_is_copy (H : Naming) (c : Comp) (n : Nat) :
    (newRev H c n).spec.toSpec = c.content.spec ∧ (newRev H c n).spec = toRevisionSpec c.content.spec ∧
    (newRev H c n).labels = c.content.labels ∧ (newRev H c n).comp = c.name ∧
    (newRev H c n).hash = H.hash c.content ∧ (newRev H c n).name = H.name c.name c.content ∧
    (newRev H c n).ctrl = some c.uid ∧ (newRev H c n).num = n :=
  ⟨by cases c with | mk _ _ ct _ => cases ct with | mk _ _ sp => cases sp; rfl, rfl, rfl, rfl, rfl, rfl, rfl, rfl⟩

/-- `toRevisionSpec` loses nothing: reading the revision spec back gives the spec -/
theorem revision_spec_roundtrip (s : Spec) : (toRevisionSpec s).toSpec = s := by cases s; rfl

/-- … and is injective: two Compositions with different specs never share a revision spec -/
theorem toRevisionSpec_inj {s s' : Spec} (h : toRevisionSpec s = toRevisionSpec s') : s = s' := by
  rw [← revision_spec_roundtrip s, ← revision_spec_roundtrip s', h]

/-- for the naming the code implements the hash label and the revision name are functions of
the hash input `yaml(labels) ++ yaml(annotations) ++ yaml(spec)` alone -/
theorem hash_label_function_of_input (dg : List Tok → String) (c c' : Content) (n : String)
    (h : hashToks c = hashToks c') :
    (Naming.ofDigest dg).hash c = (Naming.ofDigest dg).hash c' ∧
    (Naming.ofDigest dg).name n c = (Naming.ofDigest dg).name n c' := by
  simp only [Naming.ofDigest, h, and_self]

/-- **For which pairs of contents the input of `Composition.Hash` is injective**: two contents
have the same input iff they are equal or a label<->annotation move of each other (`Shift`:
same spec, labels and annotations all non-empty, the label entries followed by the
annotation entries are the same sequence). -/
theorem hash_input_eq_iff (c c' : Content) : hashToks c = hashToks c' ↔ c = c' ∨ Shift c c' :=
  hashToks_eq_iff' c c'

/-- whatever collides, **the hash input determines the spec** … -/
theorem hash_input_determines_spec {c c' : Content} (h : hashToks c = hashToks c') : c.spec = c'.spec :=
  hashToks_spec h

/-- … and the labels a colliding content's revision carries are a prefix of the other
content's label entries followed by its annotation entries -/
theorem shift_labels_prefix {c c' : Content} (h : hashToks c = hashToks c') :
    c.labels <+: c'.labels ++ c'.annos := by
  rw [← hashToks_entries h]; exact List.prefix_append _ _

/-- **The naming assumption of the history theorems, made precise**: for the naming the code
implements, `Naming.Inj` on a set `D` of contents holds when the digest is collision-free on
the inputs of `D` (also truncated) and `D` contains no label<->annotation move … -/
theorem naming_inj_of_digest {dg : List Tok → String} (hd : DigestInj dg D) (hs : Separated D) :
    (Naming.ofDigest dg).Inj D := ofDigest_inj' hd hs

/-- … and fails, whatever the digest, as soon as `D` contains one -/
theorem naming_not_inj_on_move (dg : List Tok → String) {c c' : Content} (d : D c) (d' : D c')
    (hne : c ≠ c') (hsh : Shift c c') : ¬ (Naming.ofDigest dg).Inj D := ofDigest_not_inj' dg d d' hne hsh

/-- **A listed revision carrying the current hash label is reused**: the renumbering loop never
falls through to the `Create` when the (re-adopted) list contains a revision whose hash
label is the current hash — for every list with numbers ≥ 1, every continuation that
creates only when no revision was found. This is what happens after a label<->annotation
move: the revision of the colliding content is kept as the current one. -/
theorem matching_hash_never_creates (h : String) (latest : Nat) (k : Nat → P Res)
    (hk : ∀ n, 0 < n → NoCreate (k n)) (l : List Rev) (hpos : ∀ r ∈ l, 1 ≤ r.num)
    (hex : ∃ r ∈ l, r.hash = h) : NoCreate (renumLoop h latest l 0 k) :=
  renumLoop_noCreate h latest k hk l 0 hpos (Or.inr hex)

/-! ### histories -/

/-- Every store visible at any instant of any history is well-formed: revision
names are unique, every revision is the faithful image of one content (name,
hash label, spec, labels), numbers start at 1 and are unique per Composition. -/
theorem history_wf (hi : H.Inj D) (h : List Ev) (s : Store) (w : WF H D s) (hev : ∀ e ∈ h, EvOK D e) :
    ∀ s' ∈ reachHist H h s, WF H D s' :=
  fun s' hs' => ((reachHist_ok hi h s w hev).1 s' hs').1

/-- **Revision numbers only grow**, per revision, across every history, fault and
crash: for any two instants (the earlier store `a`, the later store `b`), every
revision of `a` still exists in `b` and its number did not decrease. -/
theorem numbers_monotone (hi : H.Inj D) (h : List Ev) (s : Store) (w : WF H D s) (hev : ∀ e ∈ h, EvOK D e) :
    (reachHist H h s).Pairwise fun a b => ∀ r ∈ a.revs, ∃ r' ∈ b.revs, r'.name = r.name ∧ r.num ≤ r'.num := by
  refine (reachHist_ok hi h s w hev).2.1.imp ?_
  intro a b hab r hr
  obtain ⟨r', hr', e1, _, _, _, _, e6⟩ := hab r hr
  exact ⟨r', hr', e1, e6⟩

/-- **Apart from its number (and owner reference) a revision is never edited
afterwards**, nor deleted: at any later instant the revision of that name carries
the same spec, the same labels (the two crossplane.io labels included). -/
theorem spec_never_edited (hi : H.Inj D) (h : List Ev) (s : Store) (w : WF H D s) (hev : ∀ e ∈ h, EvOK D e) :
    (reachHist H h s).Pairwise fun a b => ∀ r ∈ a.revs, ∃ r' ∈ b.revs,
      r'.name = r.name ∧ r'.spec = r.spec ∧ r'.labels = r.labels ∧ r'.comp = r.comp ∧ r'.hash = r.hash := by
  refine (reachHist_ok hi h s w hev).2.1.imp ?_
  intro a b hab r hr
  obtain ⟨r', hr', e1, e2, e3, e4, e5, _⟩ := hab r hr
  exact ⟨r', hr', e1, e4, e5, e2, e3⟩

/-- **After a reconcile that returned without error the revision matching the
Composition's current content has the strictly highest number** of all revisions
of that Composition, is controlled by it and carries exactly that content — from
every well-formed store, hence also when the Composition was reverted to earlier
content (A-B-A) and after owner references were stripped, under every fault plan. -/
theorem current_is_highest (hi : H.Inj D) (s : Store) (w : WF H D s) (comp : String) (plan : Plan) (c : Comp)
    (hc : s.comps.find? (·.name = comp) = some c) (hd : c.deleting = false)
    (hok : (run sem plan 0 (reconcile H comp) s).2 = some .done ∨
           (run sem plan 0 (reconcile H comp) s).2 = some .created) :
    ∃ r ∈ (run sem plan 0 (reconcile H comp) s).1.revs,
      r.comp = comp ∧ r.hash = H.hash c.content ∧ r.spec = toRevisionSpec c.content.spec ∧ r.labels = c.content.labels ∧
      r.ctrl = some c.uid ∧
      ∀ r' ∈ (run sem plan 0 (reconcile H comp) s).1.revs, r'.comp = comp → r'.name ≠ r.name → r'.num < r.num := by
  have hp := reconcile_safe hi comp s w false (fun h => by cases h)
  have hcn : c.name = comp := find_name (f := Comp.name) hc
  have post : ∀ res, (run sem plan 0 (reconcile H comp) s).2 = some res → (res = .done ∨ res = .created) →
      Good H c (run sem plan 0 (reconcile H comp) s).1 := by
    intro res hres hr
    obtain ⟨_, hb⟩ := safeP_run sem (WF H D) Le _ plan 0 _ _ s hp res hres
    exact hb.2 hr c hc hd
  have g : Good H c (run sem plan 0 (reconcile H comp) s).1 := by
    rcases hok with h | h
    · exact post _ h (Or.inl rfl)
    · exact post _ h (Or.inr rfl)
  obtain ⟨r, hr, g1, g2, g3, g4, g5, g6⟩ := g
  exact ⟨r, hr, hcn ▸ g1, g2, g3, g4, g5, fun r' hr' hc' hn => g6 r' hr' (hcn ▸ hc') hn⟩

/-- Clause 1 in the property's words: **the revision of the current content, read back as a
Composition spec, is exactly the Composition's spec** (every field), after every reconcile
that returned without error, under every fault plan. -/
theorem current_revision_spec_eq_composition_spec (hi : H.Inj D) (s : Store) (w : WF H D s) (comp : String)
    (plan : Plan) (c : Comp) (hc : s.comps.find? (·.name = comp) = some c) (hd : c.deleting = false)
    (hok : (run sem plan 0 (reconcile H comp) s).2 = some .done ∨
           (run sem plan 0 (reconcile H comp) s).2 = some .created) :
    ∃ r ∈ (run sem plan 0 (reconcile H comp) s).1.revs,
      r.comp = comp ∧ r.hash = H.hash c.content ∧ r.spec.toSpec = c.content.spec := by
  obtain ⟨r, hr, g1, g2, g3, _⟩ := current_is_highest hi s w comp plan c hc hd hok
  exact ⟨r, hr, g1, g2, by rw [g3]; exact revision_spec_roundtrip _⟩

/-- **Every content a Composition has had at a successful reconcile is captured by
exactly one revision whose spec and labels equal that content**, at every instant
of every continuation of the history. -/
theorem one_rev_per_content (hi : H.Inj D) (s : Store) (w : WF H D s) (comp : String) (plan : Plan) (c : Comp)
    (hc : s.comps.find? (·.name = comp) = some c) (hd : c.deleting = false)
    (hok : (run sem plan 0 (reconcile H comp) s).2 = some .done ∨
           (run sem plan 0 (reconcile H comp) s).2 = some .created)
    (h : List Ev) (hev : ∀ e ∈ h, EvOK D e) :
    ∀ s' ∈ reachHist H h (run sem plan 0 (reconcile H comp) s).1,
      ∃ r ∈ s'.revs, r.comp = comp ∧ r.hash = H.hash c.content ∧
        r.spec = toRevisionSpec c.content.spec ∧ r.labels = c.content.labels ∧
        ∀ r' ∈ s'.revs, r'.comp = comp → r'.hash = H.hash c.content → r' = r := by
  intro s' hs'
  obtain ⟨r, hr, g1, g2, g3, g4, _, _⟩ := current_is_highest hi s w comp plan c hc hd hok
  have w1 : WF H D (run sem plan 0 (reconcile H comp) s).1 :=
    (reachEv_ok hi w (.reconcile comp plan) trivial).2.2.1
  obtain ⟨w', le'⟩ := (reachHist_ok hi h _ w1 hev).1 s' hs'
  obtain ⟨r', hr', e1, e2, e3, e4, e5, _⟩ := le' r hr
  refine ⟨r', hr', e2.trans g1, e3.trans g2, e4.trans g3, e5.trans g4, ?_⟩
  intro x hx hxc hxh
  have hn : x.name = r'.name :=
    w'.name_of_hash hi hx hr' (hxc.trans (e2.trans g1).symm) (hxh.trans (e3.trans g2).symm)
  exact eq_of_name_eq w'.names hx hr' hn

/-- **Progress**: a reconcile that meets no fault returns without error — unless a
revision of the Composition is controlled by somebody else, which makes every
reconcile fail by design. Together with `one_rev_per_content` and
`current_is_highest`: one fault-free reconcile after an edit captures the new
content. (This is where the collision-freedom of the 7-character name prefix is used.) -/
theorem reconcile_succeeds_without_faults (hi : H.Inj D) (s : Store) (w : WF H D s) (comp : String) (c : Comp)
    (hc : s.comps.find? (·.name = comp) = some c)
    (hown : ∀ x ∈ s.revs, x.comp = comp → x.ctrl = none ∨ x.ctrl = some c.uid) :
    (run sem Plan.allOk 0 (reconcile H comp) s).2 = some .done ∨
    (run sem Plan.allOk 0 (reconcile H comp) s).2 = some .created := by
  have hcn : c.name = comp := find_name (f := Comp.name) hc
  have hp := reconcile_safe hi comp s w true (fun _ c' hc' x hx hxc => by
    rw [hc] at hc'; cases hc'; exact hown x hx (hxc.trans hcn))
  obtain ⟨a, ha, hpost⟩ := safeP_run_allOk sem (WF H D) Le _ 0 _ _ s hp
  rcases hpost.1 rfl with e | e
  · exact Or.inl (e ▸ ha)
  · exact Or.inr (e ▸ ha)

/-! ### XR side -/

/-- **An XR with the Manual policy keeps using the revision it references**: under
every fault plan the fetch writes nothing (the store, hence the XR's reference, is
the same at every instant) and the only revision it can hand to the XR
reconciler is the stored revision of that name. -/
theorem manual_pins (s : Store) (n : String) (x : XR) (p : String)
    (hx : s.xrs.find? (·.name = n) = some x) (hpol : x.policy = some .manual) (href : x.ref = some p) (plan : Plan) :
    (∀ s' ∈ reach sem plan 0 (fetch n) s, s' = s) ∧
    ∀ r, (run sem plan 0 (fetch n) s).2 = some (.rev r) → r.name = p ∧ s.revs.find? (·.name = p) = some r := by
  constructor
  · intro s' hs'
    exact (safeP_reach sem (fun s' => s' = s) (fun _ _ => True) _ (fun _ => trivial) (fun _ _ _ _ _ => trivial)
      plan 0 _ _ s rfl (fetch_manual_safe s n x p hx hpol href) s' hs').1
  · intro r hr
    obtain ⟨_, hb⟩ := safeP_run sem _ _ _ plan 0 _ _ s (fetch_safe s n) (.rev r) hr
    have := hb r rfl x hx
    simp only [hpol, href] at this
    exact ⟨find_name (f := Rev.name) this.2, this.2⟩

/-- **An XR with the Automatic policy (or without a selected revision) moves to the
highest-numbered revision controlled by its Composition, restricted by its
revision selector** (the selector counts only under an explicit Automatic
policy): the revision handed over is stored, labelled with and controlled by the
XR's Composition, matches the selector, no such revision has a higher number,
and the XR references it in the final store. Revisions and Compositions are
never written by a fetch. -/
theorem automatic_follows_highest_controlled (s : Store) (n : String) (x : XR)
    (hx : s.xrs.find? (·.name = n) = some x) (hnot : ∀ p, x.policy = some .manual → x.ref ≠ some p)
    (plan : Plan) (r : Rev) (hr : (run sem plan 0 (fetch n) s).2 = some (.rev r)) :
    (∃ c, s.comps.find? (·.name = x.comp) = some c ∧ r ∈ s.revs ∧ r.comp = c.name ∧ r.ctrl = some c.uid ∧
      selOK (effSel x) r = true ∧
      (∀ r' ∈ s.revs, r'.comp = c.name → r'.ctrl = some c.uid → selOK (effSel x) r' = true → r'.num ≤ r.num) ∧
      xrRef (run sem plan 0 (fetch n) s).1 x.name = some r.name) ∧
    (run sem plan 0 (fetch n) s).1.revs = s.revs ∧ (run sem plan 0 (fetch n) s).1.comps = s.comps := by
  have hp := fetch_safe s n
  obtain ⟨_, hb⟩ := safeP_run sem _ _ _ plan 0 _ _ s hp (.rev r) hr
  have hpost := hb r rfl x hx
  have hinv := (safeP_reach sem (FetchInv s) (fun a b => b.revs = a.revs) _ (fun _ => rfl)
    (fun _ _ _ h1 h2 => h2.trans h1) plan 0 _ _ s ⟨rfl, rfl⟩ hp _ (run_mem_reach sem plan 0 (fetch n) s)).1
  refine ⟨?_, hinv.1, hinv.2⟩
  split at hpost
  · rename_i p hp1 hp2; exact absurd hp2 (hnot p hp1)
  · exact hpost

/-- End to end: after a successful reconcile of Composition `c`, an XR of that
Composition without selector that is not pinned is handed exactly the revision of
the Composition's current content. -/
theorem automatic_gets_current (hi : H.Inj D) (s : Store) (w : WF H D s) (comp : String) (plan : Plan) (c : Comp)
    (hc : s.comps.find? (·.name = comp) = some c) (hd : c.deleting = false)
    (hok : (run sem plan 0 (reconcile H comp) s).2 = some .done ∨
           (run sem plan 0 (reconcile H comp) s).2 = some .created)
    (n : String) (x : XR) (hx : (run sem plan 0 (reconcile H comp) s).1.xrs.find? (·.name = n) = some x)
    (hxc : x.comp = comp) (hnot : ∀ p, x.policy = some .manual → x.ref ≠ some p) (hsel : effSel x = [])
    (plan' : Plan) (r : Rev)
    (hr : (run sem plan' 0 (fetch n) (run sem plan 0 (reconcile H comp) s).1).2 = some (.rev r)) :
    r.hash = H.hash c.content ∧ r.spec = toRevisionSpec c.content.spec ∧ r.labels = c.content.labels := by
  obtain ⟨g, hg, g1, g2, g3, g4, g5, g6⟩ := current_is_highest hi s w comp plan c hc hd hok
  have w1 : WF H D (run sem plan 0 (reconcile H comp) s).1 :=
    (reachEv_ok hi w (.reconcile comp plan) trivial).2.2.1
  obtain ⟨⟨c', hc', a1, a2, a3, _, a5, _⟩, _, _⟩ :=
    automatic_follows_highest_controlled _ n x hx hnot plan' r hr
  have hcomps : (run sem plan 0 (reconcile H comp) s).1.comps = s.comps := by
    have : ∀ (p : P Res) (k : Nat) (t : Store), (run sem plan k p t).1.comps = t.comps := by
      intro p
      induction p with
      | ret a => intro k t; rfl
      | call q cont ih =>
        intro k t
        unfold run
        split
        · rw [ih]; exact exec_comps t q
        · rw [ih]
        · rw [ih]
        · rfl
        · exact exec_comps t q
    exact this _ 0 s
  rw [hcomps, hxc, hc] at hc'
  cases hc'
  have hcn : c.name = comp := find_name (f := Comp.name) hc
  have hle : g.num ≤ r.num := a5 g hg (g1.trans hcn.symm) g5 (by rw [hsel]; rfl)
  have hname : r.name = g.name := by
    by_cases e : r.name = g.name
    · exact e
    · have := g6 r a1 (a2.trans hcn) e
      omega
  have : r = g := eq_of_name_eq w1.names a1 hg hname
  exact this ▸ ⟨g2, g3, g4⟩

/-! ### the hypotheses are satisfiable; A-B-A -/

def cA : Content := ⟨[("channel", "dev")], [], specW "function-0"⟩
def cB : Content := ⟨[("channel", "dev")], [("example.org/note", "v1")], specW "function-0"⟩   -- annotation-only edit of cA
def cC : Content := ⟨[], [], specW "function-1"⟩

/-- a concrete naming on three contents -/
def HW : Naming where
  hash := fun c => if c = cA then "ha" else if c = cB then "hb" else "hc"
  name := fun n c => n ++ (if c = cA then "-a" else if c = cB then "-b" else "-c")

def DW (c : Content) : Prop := c = cA ∨ c = cB ∨ c = cC

instance : DecidablePred DW := fun c => by unfold DW; infer_instance

theorem HW_hash_inj : ∀ c c', DW c → DW c' → HW.hash c = HW.hash c' → c = c' := by
  intro c c' h h'
  rcases h with h | h | h <;> rcases h' with h' | h' | h' <;> subst h <;> subst h' <;> decide

def comp0 (c : Content) : Comp := ⟨"comp", 1, c, false⟩

/-- the empty store with one Composition is well-formed (non-trivial start of every history) -/
example : WF HW DW ⟨[comp0 cA], [], []⟩ where
  comps := fun c h => by simp at h; subst h; exact Or.inl rfl
  names := List.Pairwise.nil
  faithful := fun _ h => by cases h
  pos := fun _ h => by cases h
  nums := fun _ h => by cases h

theorem HW_name_inj : ∀ n c n' c', DW c → DW c' → HW.name n c = HW.name n' c' → n = n' ∧ c = c' := by
  intro n c n' c' h h' e
  rcases h with h | h | h <;> rcases h' with h' | h' | h' <;> subst h <;> subst h' <;>
    (simp only [HW] at e
     have := append_inj_of_len _ _ _ _ (by decide) e
     first
     | exact ⟨this.1, rfl⟩
     | exact absurd this.2 (by decide))

/-- the naming is collision-free on its three contents -/
theorem HW_inj : HW.Inj DW := ⟨HW_hash_inj, HW_name_inj⟩

def abaHistory : List Ev :=
  [.reconcile "comp" Plan.allOk, .putComp (comp0 cB), .reconcile "comp" Plan.allOk,
   .putComp (comp0 cA), .reconcile "comp" Plan.allOk]

/-- A → B → A: two revisions, the revision of A is renumbered 1 → 3 and is the highest -/
example : (runHist HW abaHistory ⟨[comp0 cA], [], []⟩).revs.map (fun r => (r.name, r.num)) =
    [("comp-a", 3), ("comp-b", 2)] := by decide

/-- same history, then every owner reference is stripped and the Composition
restored under a new UID, with a crash right after the first re-adoption write and a
retry: the numbers are untouched and the revision of A is still the highest -/
example : (runHist HW (abaHistory ++ [.putComp ⟨"comp", 7, cA, false⟩, .setCtrl ["comp-a", "comp-b"] none,
      .reconcile "comp" (Plan.at 2 .crashAfter), .reconcile "comp" Plan.allOk]) ⟨[comp0 cA], [], []⟩).revs.map
      (fun r => (r.name, r.num, r.ctrl)) = [("comp-a", 3, some 7), ("comp-b", 2, some 7)] := by decide

theorem abaHistory_ok : ∀ e ∈ abaHistory, EvOK DW e := by
  intro e he
  simp only [abaHistory, List.mem_cons, List.mem_nil_iff, or_false] at he
  rcases he with h | h | h | h | h <;> subst h <;> simp [EvOK, DW, comp0]

def start0 : Store := ⟨[comp0 cA], [], []⟩

theorem start0_wf : WF HW DW start0 where
  comps := fun c h => by simp [start0] at h; subst h; exact Or.inl rfl
  names := List.Pairwise.nil
  faithful := fun _ h => by cases h
  pos := fun _ h => by cases h
  nums := fun _ h => by cases h

/-- the hypotheses of the history theorems are met by the A-B-A history (whose
stores are non-trivial, see above) -/
example : (reachHist HW abaHistory start0).Pairwise fun a b =>
    ∀ r ∈ a.revs, ∃ r' ∈ b.revs, r'.name = r.name ∧ r.num ≤ r'.num :=
  numbers_monotone HW_inj abaHistory start0 start0_wf abaHistory_ok

/-- … and those of `current_is_highest` / `reconcile_succeeds_without_faults` by its
last reconcile (the revert to A, where revision `comp-a` goes 1 → 3) -/
example : ∃ s c, WF HW DW s ∧ s.comps.find? (·.name = "comp") = some c ∧ c.deleting = false ∧
    s.revs.map (fun r => (r.name, r.num)) = [("comp-a", 1), ("comp-b", 2)] ∧
    (run sem Plan.allOk 0 (reconcile HW "comp") s).2 = some .done :=
  ⟨runHist HW (abaHistory.take 4) start0, comp0 cA,
   (reachHist_ok HW_inj (abaHistory.take 4) start0 start0_wf
      (fun e he => abaHistory_ok e (List.mem_of_mem_take he))).2.2,
   by decide, rfl, by decide, by decide⟩

/-! ### defect D4: the ordering of the unchanged tree violates the property -/

/-- three revisions 1, 2, 3 of contents A, B, C (current: C) whose owner
references were stripped by a backup/restore; the Composition has a new UID -/
def d4Store : Store :=
  ⟨[⟨"comp", 10, cC, false⟩],
   [⟨"comp-a", "comp", "ha", 1, none, [("channel", "dev")], rs0, 2⟩,
    ⟨"comp-b", "comp", "hb", 2, none, [("channel", "dev")], rs0, 2⟩,
    ⟨"comp-c", "comp", "hc", 3, none, [], rs1, 2⟩], []⟩

/-- what one fault-free reconcile of the unchanged ordering does to it: the current revision goes 3 → 1 -/
theorem d4_unfixed_run :
    (run sem Plan.allOk 0 (reconcileD4 HW "comp") d4Store).1.revs.map (fun r => (r.name, r.num)) =
      [("comp-a", 1), ("comp-b", 2), ("comp-c", 1)] ∧
    (run sem Plan.allOk 0 (reconcileD4 HW "comp") d4Store).2 = some .done := by decide

/-- `numbers_monotone` is false for the unchanged ordering: the number of `comp-c` decreased -/
theorem numbers_monotone_fails_on_unfixed_witness :
    ¬ ∀ r ∈ d4Store.revs, ∃ r' ∈ (run sem Plan.allOk 0 (reconcileD4 HW "comp") d4Store).1.revs,
        r'.name = r.name ∧ r.num ≤ r'.num := by decide

/-- `current_is_highest` is false for the unchanged ordering: after a successful
reconcile the revision of the current content C does not have the highest number -/
theorem current_is_highest_fails_on_unfixed_witness :
    (run sem Plan.allOk 0 (reconcileD4 HW "comp") d4Store).2 = some .done ∧
    ¬ ∃ r ∈ (run sem Plan.allOk 0 (reconcileD4 HW "comp") d4Store).1.revs, r.hash = HW.hash cC ∧
        ∀ r' ∈ (run sem Plan.allOk 0 (reconcileD4 HW "comp") d4Store).1.revs, r'.name ≠ r.name → r'.num < r.num := by
  decide

/-- the repaired ordering on the same witness: numbers 1, 2, 3 kept, all re-adopted -/
theorem d4_fixed_run :
    (run sem Plan.allOk 0 (reconcile HW "comp") d4Store).1.revs.map (fun r => (r.name, r.num, r.ctrl)) =
      [("comp-a", 1, some 10), ("comp-b", 2, some 10), ("comp-c", 3, some 10)] := by decide

/-- the order of calls of the defective model is the other one (what the walk of the unchanged tree yields) -/
theorem d4_skeleton_differs : reconcileD4Skeleton ≠ reconcileSkeleton := by decide

/-! ### interference between API calls, error classes, informer-cache lag

`runX sm env plan`: other clients act on the store right before every API call
(`env k`), a call may be answered with any error class without being applied
(`Fault.reply`), reads may be served by a lagging informer cache (`semV (v k)`, a view
per call). The theorems above are the special case without any of this (`runX_plain`). -/

/-- the setting of the theorems above is `runX` without interference, error classes and lag -/
theorem interference_free_is_special_case {α : Type} (plan : Plan) (p : P α) (s : Store) :
    runX (fun _ => semV View.fresh) Env.none (FPlan.ofPlan plan) 0 p s = run sem plan 0 p s :=
  runX_plain plan p 0 s

/-- **Numbers only grow, no revision is edited or deleted, every revision stays the
faithful image of one content with a unique name — under ANY interference, error class,
crash and cache lag**: whatever other clients do between two API calls of a reconcile (as
long as they themselves keep `WF0` and `Le`: users, backup/restore, other controllers, other
replicas of this controller), whichever error class any call is answered with, and
whatever lagging views the informer cache serves at each call, every instant of the
reconcile is `WF0`, later instants are `Le`-above earlier ones (per revision: same name,
labels, spec, number not decreased), and every write the reconcile applies is an `Update`
that only raises a number / changes the owner or a `Create` of a faithful revision. -/
theorem history_safe_under_interference (v : Nat → View) (hv : ∀ k, ViewOK D (v k)) (env : Env Store)
    (henv : ∀ k s, WF0 H D s → WF0 H D (env k s) ∧ Le s (env k s)) (plan : FPlan) (hplan : plan.errOnly)
    (comp : String) (s : Store) (w : WF0 H D s) :
    (∀ s' ∈ reachX (fun k => semV (v k)) env plan 0 (reconcile H comp) s, WF0 H D s' ∧ Le s s') ∧
    (reachX (fun k => semV (v k)) env plan 0 (reconcile H comp) s).Pairwise Le ∧
    (∀ x ∈ ownX (fun k => semV (v k)) env plan 0 (reconcile H comp) s, WF0 H D x.1 ∧ GoodReq H D x.2) :=
  issuesG_reach v env plan hv henv hplan _ (reconcile_issues comp) 0 s w

/-- … in particular **numbers only grow** across any two instants of such a reconcile -/
theorem numbers_monotone_under_interference (v : Nat → View) (hv : ∀ k, ViewOK D (v k)) (env : Env Store)
    (henv : ∀ k s, WF0 H D s → WF0 H D (env k s) ∧ Le s (env k s)) (plan : FPlan) (hplan : plan.errOnly)
    (comp : String) (s : Store) (w : WF0 H D s) :
    (reachX (fun k => semV (v k)) env plan 0 (reconcile H comp) s).Pairwise fun a b =>
      ∀ r ∈ a.revs, ∃ r' ∈ b.revs, r'.name = r.name ∧ r'.spec = r.spec ∧ r'.labels = r.labels ∧ r.num ≤ r'.num := by
  refine (history_safe_under_interference v hv env henv plan hplan comp s w).2.1.imp ?_
  intro a b hab r hr
  obtain ⟨r', hr', e1, _, _, e4, e5, e6⟩ := hab r hr
  exact ⟨r', hr', e1, e4, e5, e6⟩

/-- … and **a content is never captured twice**: at every instant two revisions of one
Composition carrying the same content hash are the same object -/
theorem one_rev_per_content_under_interference (hi : H.Inj D) (v : Nat → View) (hv : ∀ k, ViewOK D (v k))
    (env : Env Store) (henv : ∀ k s, WF0 H D s → WF0 H D (env k s) ∧ Le s (env k s)) (plan : FPlan)
    (hplan : plan.errOnly) (comp : String) (s : Store) (w : WF0 H D s) :
    ∀ s' ∈ reachX (fun k => semV (v k)) env plan 0 (reconcile H comp) s,
      ∀ a ∈ s'.revs, ∀ b ∈ s'.revs, a.comp = b.comp → a.hash = b.hash → a = b := by
  intro s' hs' a ha b hb hc hh
  have w' := ((history_safe_under_interference v hv env henv plan hplan comp s w).1 s' hs').1
  exact eq_of_name_eq w'.names ha hb (w'.name_of_hash hi ha hb hc hh)

/-- the same for the XR side: a fetch keeps the revision history intact whatever happens around it -/
theorem fetch_safe_under_interference (v : Nat → View) (hv : ∀ k, ViewOK D (v k)) (env : Env Store)
    (henv : ∀ k s, WF0 H D s → WF0 H D (env k s) ∧ Le s (env k s)) (plan : FPlan) (hplan : plan.errOnly)
    (xr : String) (s : Store) (w : WF0 H D s) :
    (∀ s' ∈ reachX (fun k => semV (v k)) env plan 0 (fetch xr) s, WF0 H D s' ∧ Le s s') ∧
    (reachX (fun k => semV (v k)) env plan 0 (fetch xr) s).Pairwise Le :=
  ⟨(issuesG_reach v env plan hv henv hplan _ (fetch_issues xr) 0 s w).1,
   (issuesG_reach v env plan hv henv hplan _ (fetch_issues xr) 0 s w).2.1⟩

/-- **After a reconcile that returned without error the revision of the content it read
has the strictly highest number — also when third parties act between its API calls**
(`RelyT`: users editing / re-creating Compositions and XRs, backup/restore or other
controllers stripping or replacing the owner references of revisions) and whichever
error class any later call is answered with. `c` is the Composition the reconcile's `Get`
returned (the store after the interference preceding that call). Lists are read fresh. -/
theorem current_is_highest_under_interference (hi : H.Inj D) (s : Store) (w : WF H D s) (env : Env Store)
    (henv : ∀ k s, RelyT D s (env k s)) (plan : FPlan) (hplan : plan.errOnly) (hp0 : plan 0 = .out .ok)
    (comp : String) (c : Comp) (hc : (env 0 s).comps.find? (·.name = comp) = some c) (hd : c.deleting = false)
    (hok : (runX (fun _ => sem) env plan 0 (reconcile H comp) s).2 = some .done ∨
           (runX (fun _ => sem) env plan 0 (reconcile H comp) s).2 = some .created) :
    ∃ r ∈ (runX (fun _ => sem) env plan 0 (reconcile H comp) s).1.revs,
      r.comp = comp ∧ r.hash = H.hash c.content ∧ r.spec = toRevisionSpec c.content.spec ∧ r.labels = c.content.labels ∧
      ∀ r' ∈ (runX (fun _ => sem) env plan 0 (reconcile H comp) s).1.revs,
        r'.comp = comp → r'.name ≠ r.name → r'.num < r.num := by
  have hcn : c.name = comp := find_name (f := Comp.name) hc
  have w1 : WF H D (env 0 s) := (henv 0 s).wf w
  have hD : D c.content := w1.comps c (List.mem_of_find?_eq_some hc)
  rw [runX_reconcile_head env plan hp0 s comp c hc] at hok ⊢
  have post := safeE_run env henv plan hplan (recTail H c) 1 (env 0 s) (recTail_safeE hi c hD (env 0 s) w1)
  have g : Good' H c (runX (fun _ => sem) env plan 1 (recTail H c) (env 0 s)).1 := by
    rcases hok with h | h
    · exact post _ h (Or.inl rfl) hd
    · exact post _ h (Or.inr rfl) hd
  obtain ⟨r, hr, g1, g2, g3, g4, g5⟩ := g
  exact ⟨r, hr, hcn ▸ g1, g2, g3, g4, fun r' hr' hc' hn => g5 r' hr' (hcn ▸ hc') hn⟩

/-- **An XR that is Manual and references a revision keeps using it — whatever happens
around the fetch**: if the XR the fetch read (through a possibly lagging cache, after
whatever other clients did) is Manual and references `p`, the fetch applies no write at
all, under every interference, error class and cache lag, and the only revision it can
hand over is named `p`. -/
theorem manual_pins_under_interference (v : Nat → View) (env : Env Store) (plan : FPlan) (hplan : plan.errOnly)
    (hp0 : plan 0 = .out .ok) (s : Store) (n : String) (x : XR) (p : String)
    (hx : ((v 0).apply (env 0 s)).xrs.find? (·.name = n) = some x)
    (hpol : x.policy = some .manual) (href : x.ref = some p) :
    (∀ y ∈ ownX (fun k => semV (v k)) env plan 0 (fetch n) s, y.2.isWrite = false) ∧
    ∀ r, (runX (fun k => semV (v k)) env plan 0 (fetch n) s).2 = some (.rev r) → r.name = p := by
  obtain ⟨e1, e2⟩ := fetch_head_manual v env plan hp0 s n x p hx hpol href
  rw [e1, e2]
  constructor
  · intro y hy
    rcases List.mem_cons.mp hy with h | h
    · subst h; rfl
    · exact manualTail_own _ env plan 1 _ p y h
  · intro r hr
    exact manualTail_run v env plan hplan 1 _ p r hr

/-- the rely of the previous theorem is met by every environment action of the histories -/
theorem envStep_is_third_party (s : Store) (w : WF H D s) (e : Ev) (he : EvOK D e) : RelyT D s (envStep s e) :=
  ⟨envStep_map_er s e, envStep_comps w.comps e he⟩

/-! ### the revision-created handler of the XR controller -/

/-- **Every XR that is not Manual and uses the Composition of a newly created revision is
enqueued** (so that its next fetch moves it to that revision), and nothing else is. -/
theorem enqueue_exactly_automatic (xrs : List XR) (r : Rev) (hr : r.comp ≠ "") (n : String) :
    n ∈ enqueueFor xrs r ↔ ∃ x ∈ xrs, x.name = n ∧ x.comp = r.comp ∧ x.policy ≠ some .manual := by
  simp only [enqueueFor, hr, if_false, List.mem_map, List.mem_filter, Bool.and_eq_true, decide_eq_true_eq,
    ne_eq]
  constructor
  · rintro ⟨x, ⟨hx, hp, hc⟩, e⟩; exact ⟨x, hx, e, hc, hp⟩
  · rintro ⟨x, hx, e, hc, hp⟩; exact ⟨x, ⟨hx, hp, hc⟩, e⟩

/-! ### finding D22: with a lagging revision list the current content does not get the highest number -/

def revA : Rev := ⟨"comp-a", "comp", "ha", 1, some 1, [("channel", "dev")], rs0, 1⟩
def revB : Rev := ⟨"comp-b", "comp", "hb", 2, some 1, [("channel", "dev")], rs0, 1⟩

/-- contents A, B captured as revisions 1, 2; the Composition was just edited to C -/
def staleStore : Store := ⟨[comp0 cC], [revA, revB], [⟨"xr", "comp", some .automatic, none, none, 0⟩]⟩

/-- the informer cache has not yet seen revision B (created by the previous reconcile) -/
def staleView : View := { revs := some [revA] }

def afterStale : Store := (runX (fun _ => semV staleView) Env.none (FPlan.ofPlan Plan.allOk) 0 (reconcile HW "comp") staleStore).1

/-- the reconcile on the lagging list creates the revision of C with number 2, which B already carries -/
theorem stale_list_run :
    (runX (fun _ => semV staleView) Env.none (FPlan.ofPlan Plan.allOk) 0 (reconcile HW "comp") staleStore).2 = some .created ∧
    afterStale.revs.map (fun r => (r.name, r.num)) = [("comp-a", 1), ("comp-b", 2), ("comp-c", 2)] := by decide

/-- `current_is_highest` is false with a lagging list: the reconcile returned without error
and the revision of the current content C does not have the strictly highest number -/
theorem current_is_highest_fails_with_stale_list_witness :
    (runX (fun _ => semV staleView) Env.none (FPlan.ofPlan Plan.allOk) 0 (reconcile HW "comp") staleStore).2 = some .created ∧
    ¬ ∃ r ∈ afterStale.revs, r.hash = HW.hash cC ∧ ∀ r' ∈ afterStale.revs, r'.name ≠ r.name → r'.num < r.num := by
  decide

/-- … and no later reconcile repairs it: on fresh reads the reconcile returns `done` and
leaves the tie, and an Automatic XR is handed the revision of the PREVIOUS content B -/
theorem stale_list_tie_is_never_repaired_witness :
    run sem Plan.allOk 0 (reconcile HW "comp") afterStale = (afterStale, some .done) ∧
    ((run sem Plan.allOk 0 (fetch "xr") afterStale).2.map fun | .rev r => r.name | .err => "err") = some "comp-b" := by
  decide

/-! ### observation: a label<->annotation move does not change the hash input

`Composition.Hash` concatenates yaml(labels), yaml(annotations), yaml(spec) without separator
(`skeleton_Hash`, `hash_input_eq_iff`). Moving the last label entries to the front of the
annotations (both maps staying non-empty) is a label/annotation-only edit that leaves the
input, hence the hash label, unchanged: no new revision is created, the revision of the
previous content stays the current one. Its spec equals the new content's spec
(`hash_input_determines_spec`); the labels copied at its creation are those of the previous
content (`shift_labels_prefix`). The clauses of the property (spec equals the content, numbers,
highest, Manual / Automatic selection) hold; what does not carry over is the strengthening
`r.labels = c.content.labels` of `current_is_highest`, whose hypothesis `Naming.Inj` is false
for such a pair (`naming_not_inj_on_move`). -/

def cX : Content := ⟨[("channel", "dev"), ("tier", "gold")], [("zone", "z1")], specW "function-0"⟩
/-- `cX` with the label `tier: gold` moved to the annotations -/
def cY : Content := ⟨[("channel", "dev")], [("tier", "gold"), ("zone", "z1")], specW "function-0"⟩

/-- the move is a `Shift`: two distinct contents with the same hash input -/
theorem move_collides_witness : cX ≠ cY ∧ Shift cX cY ∧ hashToks cX = hashToks cY := by decide

/-- a digest on the inputs of `cX` (= that of `cY`), `cA`, and everything else -/
def dgW (t : List Tok) : String :=
  if t = hashToks cX then "1111111aaaa" else if t = hashToks cA then "2222222bbbb" else "3333333cccc"

def HD : Naming := Naming.ofDigest dgW

def xrGold : XR := ⟨"xr", "comp", some .automatic, some [("tier", "gold")], none, 0⟩

/-- X, reconcile, move edit to Y, reconcile -/
def moveHistory : List Ev :=
  [.reconcile "comp" Plan.allOk, .putComp (comp0 cY), .reconcile "comp" Plan.allOk]

/-- **What the move edit does**, on the model of the unchanged code: the second reconcile
returns `done` without creating anything; the one revision keeps number 1 and the labels of
X (`tier: gold` is no label of Y any more); its spec is Y's spec; an Automatic XR selecting
`tier: gold` is still handed it. -/
theorem move_edit_keeps_revision_witness :
    (runHist HD moveHistory ⟨[comp0 cX], [], [xrGold]⟩).revs.map (fun r => (r.name, r.num, r.labels, decide (r.spec = toRevisionSpec cY.spec))) =
      [("comp-1111111", 1, cX.labels, true)] ∧
    (run sem Plan.allOk 0 (reconcile HD "comp") (runHist HD (moveHistory.take 2) ⟨[comp0 cX], [], [xrGold]⟩)).2 = some .done ∧
    ((run sem Plan.allOk 0 (fetch "xr") (runHist HD moveHistory ⟨[comp0 cX], [], [xrGold]⟩)).2.map
      fun | .rev r => r.name | .err => "err") = some "comp-1111111" := by decide

/-- the move in the other direction (Y first, then the label added by moving it out of the
annotations): no revision carries the new label, the selecting XR finds no revision -/
theorem move_edit_reverse_witness :
    (runHist HD [.reconcile "comp" Plan.allOk, .putComp (comp0 cX), .reconcile "comp" Plan.allOk]
      ⟨[comp0 cY], [], [xrGold]⟩).revs.map (fun r => (r.name, r.num, r.labels)) = [("comp-1111111", 1, cY.labels)] ∧
    ((run sem Plan.allOk 0 (fetch "xr") (runHist HD [.reconcile "comp" Plan.allOk, .putComp (comp0 cX),
      .reconcile "comp" Plan.allOk] ⟨[comp0 cY], [], [xrGold]⟩)).2.map fun | .rev r => r.name | .err => "err") = some "err" := by
  decide

/-! the hypotheses of the new theorems are satisfiable -/

def DW2 (c : Content) : Prop := c = cX ∨ c = cA ∨ c = cC

/-- a set of three contents without a move … -/
theorem DW2_separated : Separated DW2 := by
  intro c c' h h' hs
  rcases h with h | h | h <;> rcases h' with h' | h' | h' <;> subst h <;> subst h' <;>
    first | rfl | exact absurd hs (by decide)

/-- … on which `dgW` is collision-free, so that `naming_inj_of_digest` applies to `HD` -/
example : DigestInj dgW DW2 where
  label := fun c c' h h' e => by
    rcases h with h | h | h <;> rcases h' with h' | h' | h' <;> subst h <;> subst h' <;>
      first | rfl | exact absurd e (by decide)
  name := fun n c n' c' h h' e => by
    rcases h with h | h | h <;> rcases h' with h' | h' | h' <;> subst h <;> subst h' <;>
      (simp only [Naming.ofDigest] at e
       have h1 := append_inj_of_len _ _ _ _ (by decide) e
       have h2 := append_inj_of_len _ _ _ _ (by decide) h1.1
       first
       | exact ⟨h2.1, rfl⟩
       | exact absurd h1.2 (by decide))

/-- `naming_not_inj_on_move` applies to every set containing `cX` and `cY` -/
example : ¬ HD.Inj (fun c => c = cX ∨ c = cY) :=
  naming_not_inj_on_move dgW (Or.inl rfl) (Or.inr rfl) move_collides_witness.1 move_collides_witness.2.1

/-- `hash_input_eq_iff` / `hash_input_determines_spec` / `shift_labels_prefix` on the witness -/
example : cX.spec = cY.spec ∧ cX.labels <+: cY.labels ++ cY.annos ∧ cY.labels <+: cX.labels ++ cX.annos :=
  ⟨hash_input_determines_spec move_collides_witness.2.2, shift_labels_prefix move_collides_witness.2.2,
   shift_labels_prefix move_collides_witness.2.2.symm⟩

/-- `matching_hash_never_creates` on the list and the continuation of `reconcile` after the move -/
example : NoCreate (renumLoop (HD.hash cY) 1 [newRev HD (comp0 cX) 1] 0 fun ex =>
    if ex > 0 then .ret .done else .call (.createRev (newRev HD (comp0 cY) 2)) fun _ => .ret .err) :=
  matching_hash_never_creates _ _ _ (fun n hn => by simp [hn, NoCreate]) _ (by decide) ⟨_, List.mem_cons_self .., by decide⟩

/-- `new_revision_is_copy` on a spec with every field set -/
example : (newRev HD ⟨"comp", 1, ⟨[("a", "b")], [], ⟨"example.org/v1", "XThing", some "Resources", ["common"], ["bucket"],
    [("compose", "fn")], some "ns", some "vault"⟩⟩, false⟩ 4).spec.toSpec =
    ⟨"example.org/v1", "XThing", some "Resources", ["common"], ["bucket"], [("compose", "fn")], some "ns", some "vault"⟩ := by decide

end Xp.C12

import Xp.Proofs.C03PT
import Xp.Proofs.C03Ext
import Xp.Model.C04
/-
C03 — a failing composition pipeline is never destructive; garbage collection is exact.

Uses the reconcile model of C01 (Xp/Model/C01.lean) and the pipeline interpreter of C04
(Xp/Model/C04.lean): `pipelineOut` plugs the pipeline in as the function output of the
function composer.

Definitions used in the statements that live in the helper files:
* Xp/Proofs/C03.lean — `Xp.C04.Diverges` (a step's `RunFunction` ends in an error: some round's
  call errors, or the rounds are used up with the requirements still changing),
  `Xp.C04.StepFails` (credentials missing ∨ `Diverges` ∨ fatal result), `Xp.Emits`;
* Xp/Proofs/C03Fn.lean — `observePure` (ObserveComposedResources as a pure function of the
  store), `ObservedAs` (what being in the observation means), `NoGc`;
* Xp/Proofs/C03PT.lean — lemmas on the P&T associator.

Informer cache: the store `s` of every theorem below is arbitrary, and with it the set `s.miss` of
composed resources that exist but are missing from the informer cache while the reconcile runs
(Xp/Model/C01.lean: the first read of a reference and the name probes go through the cache, a
cached NotFound is repeated against the API server). So every statement holds for every such set;
the justifications `FnGcJustified` / `PtGcJustified` and the observation `observePure` speak about
the objects and references of the store only — what the cache misses changes none of them.
-/
namespace Xp.C03
open Xp.C01

/-- requests that cannot change a composed resource or spec.resourceRefs -/
def Harmless : Req → Prop   -- (`getCached`: a read through the informer cache)
  | .getXR | .addFinalizer _ | .getObj _ _ | .getCached _ _ | .statusUpdate _ => True
  | _ => False

theorem harmless_keeps (s : St) (r : Req) (h : Harmless r) :
    (exec s r).1.refs = s.refs ∧ (exec s r).1.objs = s.objs := by
  cases r with
  | getXR => exact ⟨rfl, rfl⟩
  | addFinalizer rv => simp only [exec]; split <;> exact ⟨rfl, rfl⟩
  | getObj k n => simp only [exec]; split <;> exact ⟨rfl, rfl⟩
  | getCached k n => simp only [exec]; (repeat' split) <;> exact ⟨rfl, rfl⟩
  | statusUpdate rv => simp only [exec]; split <;> exact ⟨rfl, rfl⟩
  | _ => exact absurd h (by simp [Harmless])

theorem issues_onErrorO (l : Option Nat) : Issues Harmless (onErrorO l) := by
  unfold onErrorO
  refine Issues.call _ _ trivial ?_
  intro x; cases x <;> exact Issues.ret _

theorem issues_observeFn (lrv : Nat) (k : Obs → P) (hk : ∀ obs, Issues Harmless (k obs)) :
    ∀ (rs : List Ref) (acc : Obs), Issues Harmless (observeFn lrv rs acc k) := by
  intro rs
  induction rs with
  | nil => intro acc; simp only [observeFn]; exact hk acc
  | cons r rs ih =>
    intro acc
    simp only [observeFn]
    split
    · exact ih acc
    · have hfound : ∀ o : CObj, Issues Harmless (if o.ctrl = .other then observeFn lrv rs acc k
          else if o.annot = "" then onError lrv else observeFn lrv rs (obsInsert acc o.annot o) k) := by
        intro o
        split
        · exact ih acc
        · split
          · exact issues_onErrorO _
          · exact ih _
      refine Issues.call _ _ trivial ?_
      intro x
      cases x with
      | found o => exact hfound o
      | notFound =>
        refine Issues.call _ _ trivial ?_
        intro y
        cases y with
        | found o => exact hfound o
        | notFound => exact ih acc
        | _ => exact issues_onErrorO _
      | _ => exact issues_onErrorO _

/-- **No mutation on failure.** If the function pipeline fails — a step errors, returns a
fatal result, lacks its credentials, or its requirements never stabilise — or observing
the existing composed resources fails, then under every fault plan, at every instant of
the reconcile, no composed resource was created, updated or deleted and spec.resourceRefs
is untouched. -/
theorem fail_no_write (out : Obs → FnOut) (ch : Choices) (hfail : ∀ obs, out obs = .failed)
    (plan : Plan) (s : St) :
    ∀ s' ∈ reach sem plan 0 (reconcile (.fn out ch)) s, s'.refs = s.refs ∧ s'.objs = s.objs := by
  have hiss : Issues Harmless (reconcile (.fn out ch)) := by
    unfold reconcile
    refine Issues.call _ _ trivial ?_
    intro x
    cases x with
    | xr fin rv refs =>
      have hbody : ∀ lrv, Issues Harmless (composeFn lrv refs out ch) := by
        intro lrv
        unfold composeFn
        apply issues_observeFn
        intro obs
        rw [hfail obs]
        exact issues_onErrorO _
      simp only []
      split
      · exact hbody _
      · refine Issues.call _ _ trivial ?_
        intro y
        cases y with
        | okRv rv' => exact hbody _
        | conflict => exact Issues.ret _
        | _ => exact issues_onErrorO _
    | _ => exact Issues.ret _
  exact reach_inv sem (fun s' => s'.refs = s.refs ∧ s'.objs = s.objs) Harmless
    (by intro s1 r ⟨h1, h2⟩ hq
        have := harmless_keeps s1 r hq
        exact ⟨this.1.trans h1, this.2.trans h2⟩)
    plan 0 _ hiss s ⟨rfl, rfl⟩

/-! ### the pipeline as the function output of the composer -/

def toRes (p : String × CObj) : Xp.C04.Res := ⟨p.1, p.2.kind, p.2.name, p.2.content, false⟩

def toDesired (r : Xp.C04.Res) : Desired := ⟨r.rname, r.kind, r.content, r.ready⟩

/-- the function composer's desired state as computed by the pipeline of C04 -/
def pipelineOut (cluster : List Xp.C04.ClusterObj) (steps : List Xp.C04.Step) : Obs → FnOut := fun obs =>
  match Xp.C04.runPipeline cluster (obs.map toRes) steps 0 Xp.C04.initState with
  | .done st => .desired (st.desired.map toDesired)
  | .failed _ _ => .failed

/-- Instance for pipelines: a pipeline whose run fails on every observation writes nothing. -/
theorem failing_pipeline_no_write (cluster : List Xp.C04.ClusterObj) (steps : List Xp.C04.Step) (ch : Choices)
    (hfail : ∀ obs : Obs, ∃ st fatal, Xp.C04.runPipeline cluster (obs.map toRes) steps 0 Xp.C04.initState = .failed st fatal)
    (plan : Plan) (s : St) :
    ∀ s' ∈ reach sem plan 0 (reconcile (.fn (pipelineOut cluster steps) ch)) s, s'.refs = s.refs ∧ s'.objs = s.objs := by
  apply fail_no_write
  intro obs
  obtain ⟨st, fatal, h⟩ := hfail obs
  simp [pipelineOut, h]

/-- a first step that errors, or returns a fatal result, or never stabilises, fails the pipeline -/
theorem first_step_failure_fails (cluster : List Xp.C04.ClusterObj) (observed : List Xp.C04.Res)
    (s : Xp.C04.Step) (ss : List Xp.C04.Step)
    (h : s.creds.any (·.2.isNone) = true ∨
         (Xp.C04.runFetching cluster s.fn (Xp.Gen.maxRequirementsIterations + 1)
            (Xp.C04.stepRequest observed Xp.C04.initState s) []).2 = .err ∨
         ∃ rsp, (Xp.C04.runFetching cluster s.fn (Xp.Gen.maxRequirementsIterations + 1)
            (Xp.C04.stepRequest observed Xp.C04.initState s) []).2 = .ok rsp ∧
            (Xp.C04.eventsUntilFatal s.name rsp.results).2 = true) :
    ∃ st fatal, Xp.C04.runPipeline cluster observed (s :: ss) 0 Xp.C04.initState = .failed st fatal := by
  unfold Xp.C04.runPipeline
  rcases h with h | h | ⟨rsp, h, hf⟩
  · simp only [h, if_true]; exact ⟨_, _, rfl⟩
  · by_cases hc : s.creds.any (·.2.isNone) = true
    · simp only [hc, if_true]; exact ⟨_, _, rfl⟩
    · simp only [hc, Bool.false_eq_true, if_false, h]; exact ⟨_, _, rfl⟩
  · by_cases hc : s.creds.any (·.2.isNone) = true
    · simp only [hc, if_true]; exact ⟨_, _, rfl⟩
    · simp only [hc, Bool.false_eq_true, if_false, h, hf, if_true]; exact ⟨_, _, rfl⟩

/-! ### garbage collection is exact -/

/-- what the function composer hands to its garbage collector -/
def gcTargets (obs : Obs) (ds : List Desired) : List CObj :=
  (obs.filter fun p => !(ds.any (·.rname = p.1))).map (·.2)

/-- The function composer's garbage-collection targets are exactly the observed composed
resources (referenced, not controlled by someone else, annotated) whose resource name is
absent from the final desired state: nothing still desired is ever targeted. -/
theorem gc_targets_exact (obs : Obs) (ds : List Desired) (o : CObj) :
    o ∈ gcTargets obs ds ↔ ∃ a, (a, o) ∈ obs ∧ ∀ d ∈ ds, d.rname ≠ a := by
  simp only [gcTargets, List.mem_map, List.mem_filter, Bool.not_eq_true', List.any_eq_false, decide_eq_true_eq]
  constructor
  · rintro ⟨⟨a, o'⟩, ⟨hm, hn⟩, rfl⟩
    exact ⟨a, hm, fun d hd => by simpa using hn d hd⟩
  · rintro ⟨a, hm, hn⟩
    exact ⟨(a, o), ⟨hm, fun d hd => by simpa using hn d hd⟩, rfl⟩

/-- The garbage-collection loop issues update/delete requests for its targets and for
nothing else (whatever the continuation does afterwards is not counted here). -/
theorem gcFn_requests (lrv : Nat) (os : List CObj) (k : P) (Q : Req → Prop)
    (hQ : ∀ o ∈ os, Q (.gcUpdate o.kind o.name) ∧ Q (.delete o.kind o.name))
    (hs : Q (.statusUpdate (some lrv))) (hk : Issues Q k) : Issues Q (gcFn lrv os k) := by
  have herr : Issues Q (onError lrv) := by
    unfold onError onErrorO
    refine Issues.call _ _ hs ?_
    intro x; cases x <;> exact Issues.ret _
  induction os with
  | nil => simpa [gcFn] using hk
  | cons o os ih =>
    simp only [gcFn, wcall]
    refine Issues.call _ _ (hQ o (List.mem_cons_self ..)).1 ?_
    intro x
    have inner : Issues Q (Prog.call (Req.delete o.kind o.name) fun
        | Resp.err => onError lrv | Resp.conflict => onConflict | _ => gcFn lrv os k) := by
      refine Issues.call _ _ (hQ o (List.mem_cons_self ..)).2 ?_
      intro y
      have := ih (fun o' ho' => hQ o' (List.mem_cons_of_mem _ ho'))
      cases y <;> first | exact herr | exact Issues.ret _ | exact this
    cases x <;> first | exact herr | exact Issues.ret _ | exact inner

/-! ### failure at any step index -/

/-- `RunFunction` of a step ends in an error exactly when some round's call errors (before the
requirements stabilise) or the allowed rounds are used up with the requirements still
changing (`Diverges` spells this out round by round). -/
theorem fetching_errs_iff (cluster : List Xp.C04.ClusterObj) (f : Xp.C04.Fn) (fuel : Nat) (req : Xp.C04.Request)
    (prev : List (String × Xp.C04.Sel)) :
    (Xp.C04.runFetching cluster f fuel req prev).2 = .err ↔ Xp.C04.Diverges cluster f fuel req prev :=
  Xp.C04.runFetching_err_iff cluster f fuel req prev

/-- a function whose requirements differ from the previous round's in every round never
stabilises: `RunFunction` errors whatever the iteration bound is -/
theorem never_stabilising_errs (cluster : List Xp.C04.ClusterObj) (f : Xp.C04.Fn)
    (hf : ∀ req prev, ∃ rsp, f req = some rsp ∧ Xp.C04.hasFatal rsp.results = false ∧ rsp.reqs ≠ prev)
    (fuel : Nat) (req : Xp.C04.Request) (prev : List (String × Xp.C04.Sel)) :
    (Xp.C04.runFetching cluster f fuel req prev).2 = .err := by
  rw [Xp.C04.runFetching_err_iff]
  induction fuel generalizing req prev with
  | zero => trivial
  | succ n ih =>
    obtain ⟨rsp, h1, h2, h3⟩ := hf req prev
    exact Or.inr ⟨rsp, h1, h2, h3, ih _ _⟩

/-- The same with an invariant: it is enough that the requirements differ from the previous
round's along the rounds actually played (`I` holds of the first round and is kept from one round
to the next). `never_stabilising_errs` is the instance `I := fun _ _ => True`, whose hypothesis
no deterministic function satisfies (take `prev := (f req).reqs`); this form is satisfiable, see
the example below it. -/
theorem never_stabilising_errs_inv (cluster : List Xp.C04.ClusterObj) (f : Xp.C04.Fn)
    (I : Xp.C04.Request → List (String × Xp.C04.Sel) → Prop)
    (hf : ∀ req prev, I req prev → ∃ rsp, f req = some rsp ∧ Xp.C04.hasFatal rsp.results = false ∧ rsp.reqs ≠ prev ∧
      I { req with extra := rsp.reqs.map (fun p => (p.1, Xp.C04.fetch cluster p.2)), ctx := rsp.ctx } rsp.reqs)
    (fuel : Nat) (req : Xp.C04.Request) (prev : List (String × Xp.C04.Sel)) (h0 : I req prev) :
    (Xp.C04.runFetching cluster f fuel req prev).2 = .err := by
  rw [Xp.C04.runFetching_err_iff]
  induction fuel generalizing req prev with
  | zero => trivial
  | succ n ih =>
    obtain ⟨rsp, h1, h2, h3, h4⟩ := hf req prev h0
    exact Or.inr ⟨rsp, h1, h2, h3, ih _ _ h4⟩

/-- the invariant form is satisfiable: a function that asks for an extra resource exactly when it
was handed none flips its requirements in every round, for every iteration bound -/
example (fuel : Nat) (req : Xp.C04.Request) (h : req.extra = []) :
    (Xp.C04.runFetching [] (fun rq => some ⟨rq.desired, none, [], if rq.extra = [] then [("x", ⟨"K", "n", []⟩)] else [], [], []⟩)
      fuel req []).2 = .err :=
  never_stabilising_errs_inv [] _ (fun rq prev => (rq.extra = [] ↔ prev = []))
    (fun rq prev hI => by
      by_cases he : rq.extra = []
      · refine ⟨_, rfl, rfl, ?_, ?_⟩
        · simp [he, hI.mp he]
        · simp [he]
      · refine ⟨_, rfl, rfl, ?_, ?_⟩
        · simp only [he, if_false]; intro h'; exact he (hI.mpr h'.symm)
        · simp [he])
    fuel req [] (by simp [h])

/-- **Failure at any step index.** If the steps in front of step `s` succeed (whatever they
do) and `s` lacks its credentials, or its call errors in some round, or its requirements
never stabilise within the bound, or it returns a fatal result, then the pipeline as a whole
fails, whatever follows `s`. -/
theorem step_failure_fails (cluster : List Xp.C04.ClusterObj) (observed : List Xp.C04.Res)
    (pre : List Xp.C04.Step) (s : Xp.C04.Step) (post : List Xp.C04.Step) (i : Nat) (st0 st : Xp.C04.PipeState)
    (hpre : Xp.C04.runPipeline cluster observed pre i st0 = .done st)
    (h : s.creds.any (·.2.isNone) = true ∨
         Xp.C04.Diverges cluster s.fn (Xp.Gen.maxRequirementsIterations + 1) (Xp.C04.stepRequest observed st s) [] ∨
         ∃ rsp, (Xp.C04.runFetching cluster s.fn (Xp.Gen.maxRequirementsIterations + 1)
            (Xp.C04.stepRequest observed st s) []).2 = .ok rsp ∧ Xp.C04.hasFatal rsp.results = true) :
    ∃ st' fatal, Xp.C04.runPipeline cluster observed (pre ++ s :: post) i st0 = .failed st' fatal :=
  (Xp.C04.runPipeline_failed_iff cluster observed _ i st0).mpr ⟨pre, s, post, st, rfl, hpre, h⟩

/-- A pipeline fails **iff** one of its steps fails after all earlier steps succeeded (so a
pipeline none of whose steps fails completes, and the failing step may be any index). -/
theorem pipeline_fails_iff (cluster : List Xp.C04.ClusterObj) (observed : List Xp.C04.Res)
    (steps : List Xp.C04.Step) (i : Nat) (st0 : Xp.C04.PipeState) :
    (∃ st' fatal, Xp.C04.runPipeline cluster observed steps i st0 = .failed st' fatal) ↔
    ∃ pre s post st, steps = pre ++ s :: post ∧ Xp.C04.runPipeline cluster observed pre i st0 = .done st ∧
      Xp.C04.StepFails cluster observed st s :=
  Xp.C04.runPipeline_failed_iff cluster observed steps i st0

/-- **No mutation when any step fails.** If, for every observation, some step of the pipeline
(any index, possibly a different one per observation) fails after its predecessors succeeded,
then under every fault plan, at every instant of the reconcile, no composed resource was
created, updated or deleted and spec.resourceRefs is untouched. -/
theorem step_failure_no_write (cluster : List Xp.C04.ClusterObj) (steps : List Xp.C04.Step) (ch : Choices)
    (hfail : ∀ obs : Obs, ∃ pre s post st, steps = pre ++ s :: post ∧
      Xp.C04.runPipeline cluster (obs.map toRes) pre 0 Xp.C04.initState = .done st ∧
      Xp.C04.StepFails cluster (obs.map toRes) st s)
    (plan : Plan) (s : St) :
    ∀ s' ∈ reach sem plan 0 (reconcile (.fn (pipelineOut cluster steps) ch)) s, s'.refs = s.refs ∧ s'.objs = s.objs :=
  failing_pipeline_no_write cluster steps ch
    (fun obs => (Xp.C04.runPipeline_failed_iff cluster (obs.map toRes) steps 0 Xp.C04.initState).mpr (hfail obs)) plan s

/-! ### the function composer never deletes what is still desired -/

/-- The justification every garbage-collection request `(kind, name)` of the function composer
has: the observation of the store the reconcile started from succeeded, the pipeline returned
a desired state for it, and `(kind, name)` is an observed composed resource — referenced,
existing, not controlled by someone else, annotated `a` — whose resource name `a` is not in
that desired state. -/
def FnGcJustified (out : Obs → FnOut) (s : St) (kind name : String) : Prop :=
  ∃ obs ds a o, observePure s.objs s.refs [] = some obs ∧ out obs = .desired ds ∧ (a, o) ∈ obs ∧
    o.kind = kind ∧ o.name = name ∧ (∀ d ∈ ds, d.rname ≠ a) ∧ ObservedAs s a o

/-- every entry of an observation is a referenced, existing object that is not controlled by
someone else, under its own (non-empty) annotation -/
theorem observed_sound (s : St) (obs : Obs) (h : observePure s.objs s.refs [] = some obs) :
    ∀ p ∈ obs, ObservedAs s p.1 p.2 :=
  observePure_sound s s.refs [] obs (fun _ hr => hr) (fun _ hp => by cases hp) h

/-- in a store satisfying the C01 invariant the observation misses nothing: every referenced,
existing object that is not controlled by someone else is in it under its annotation -/
theorem observed_complete (s : St) (hg : Good s) (obs : Obs) (h : observePure s.objs s.refs [] = some obs)
    (o : CObj) (ho : o ∈ s.objs) (hr : key o ∈ s.refs) (hc : o.ctrl ≠ .other) :
    o.annot ≠ "" ∧ (o.annot, o) ∈ obs := by
  have h0 : ObsOKp s [] [] := by
    refine ⟨?_, ?_, ?_⟩
    · intro o _ h; cases h
    · intro a o h; simp [obsLookup] at h
    · intro p h; cases h
  have hok : ObsOKp s ([] ++ s.refs) obs :=
    observePure_complete hg s.refs [] [] obs (fun _ hr => hr) (by intro r h; cases h) h0 h
  obtain ⟨hne, hl⟩ := hok.1 o ho (by simpa using hr) hc
  exact ⟨hne, mem_of_obsLookup hl⟩

/-- **Nothing still desired is ever targeted, under any fault plan, at any instant.** Every
`delete` and every label-stripping `gcUpdate` the function-composer reconcile *issues*
(whether or not it is applied, whatever the plan does before or after) targets an observed
composed resource of this XR whose resource name is absent from the desired state the
pipeline returned for that observation. -/
theorem fn_gc_only_undesired (out : Obs → FnOut) (ch : Choices) (hgc : ∀ l x, x ∈ ch.gcOrder l → x ∈ l)
    (plan : Plan) (s : St) :
    ∀ e ∈ callLog sem plan 0 (reconcile (.fn out ch)) s, ∀ kind name,
      (e.1 = .delete kind name ∨ e.1 = .gcUpdate kind name) → FnGcJustified out s kind name := by
  let Q : Req → Prop := fun r => ∀ kind name, (r = .delete kind name ∨ r = .gcUpdate kind name) →
    FnGcJustified out s kind name
  have hQ : ∀ r, NoGc r → Q r := by
    intro r hr kind name h
    rcases h with rfl | rfl <;> exact absurd hr (by simp [NoGc])
  have hem : Emits sem Q (reconcile (.fn out ch)) s := by
    apply emits_reconcile hQ
    intro lrv s' hobjs
    show Emits sem Q (composeFn lrv s.refs out ch) s'
    apply emits_composeFn hQ
    intro obs ds hobs hout o ho
    rw [hobjs] at hobs
    obtain ⟨a, hm, hn⟩ := (gc_targets_exact obs ds o).mp (hgc _ _ ho)
    have hj : FnGcJustified out s o.kind o.name :=
      ⟨obs, ds, a, o, hobs, hout, hm, rfl, rfl, hn, observed_sound s obs hobs _ hm⟩
    constructor
    · intro kind name h
      rcases h with h | h
      · cases h
      · cases h; exact hj
    · intro kind name h
      rcases h with h | h
      · cases h; exact hj
      · cases h
  exact callLog_emits sem Q plan _ 0 s hem

/-- Corollary, in the property's words: a composed resource that is observed and still desired
is never the target of a `delete` or `gcUpdate` request — not at the end, not transiently,
under no fault plan. -/
theorem fn_desired_never_deleted (out : Obs → FnOut) (ch : Choices) (hgc : ∀ l x, x ∈ ch.gcOrder l → x ∈ l)
    (plan : Plan) (s : St) (obs : Obs) (ds : List Desired)
    (hobs : observePure s.objs s.refs [] = some obs) (hout : out obs = .desired ds)
    (a : String) (o : CObj) (hm : (a, o) ∈ obs) (d : Desired) (hd : d ∈ ds) (hda : d.rname = a) :
    ∀ e ∈ callLog sem plan 0 (reconcile (.fn out ch)) s, e.1 ≠ .delete o.kind o.name ∧ e.1 ≠ .gcUpdate o.kind o.name := by
  intro e he
  have key : ¬ FnGcJustified out s o.kind o.name := by
    rintro ⟨obs', ds', a', o', hobs', hout', _, hk, hn, hnd, hoa'⟩
    rw [hobs] at hobs'; cases hobs'
    rw [hout] at hout'; cases hout'
    have := (observedAs_key_unique (observed_sound s obs hobs _ hm) hoa' hk hn).2
    exact hnd d hd (hda.trans this.symm)
  exact ⟨fun h => key (fn_gc_only_undesired out ch hgc plan s e he _ _ (Or.inl h)),
    fun h => key (fn_gc_only_undesired out ch hgc plan s e he _ _ (Or.inr h))⟩

/-- The same for the pipeline of C04 plugged in as the function output: a composed resource
whose resource name is in the final desired state of the pipeline run for this observation is
never the target of a `delete` or `gcUpdate`, under any fault plan, at any instant. -/
theorem pipeline_desired_never_deleted (cluster : List Xp.C04.ClusterObj) (steps : List Xp.C04.Step) (ch : Choices)
    (hgc : ∀ l x, x ∈ ch.gcOrder l → x ∈ l) (plan : Plan) (s : St) (obs : Obs)
    (hobs : observePure s.objs s.refs [] = some obs) (st : Xp.C04.PipeState)
    (hrun : Xp.C04.runPipeline cluster (obs.map toRes) steps 0 Xp.C04.initState = .done st)
    (a : String) (o : CObj) (hm : (a, o) ∈ obs) (r : Xp.C04.Res) (hr : r ∈ st.desired) (hra : r.rname = a) :
    ∀ e ∈ callLog sem plan 0 (reconcile (.fn (pipelineOut cluster steps) ch)) s,
      e.1 ≠ .delete o.kind o.name ∧ e.1 ≠ .gcUpdate o.kind o.name :=
  fn_desired_never_deleted (pipelineOut cluster steps) ch hgc plan s obs (st.desired.map toDesired) hobs
    (by simp [pipelineOut, hrun]) a o hm (toDesired r) (List.mem_map.mpr ⟨r, hr, rfl⟩) hra

/-- an object that is not in the observation at all — controlled by someone else, unreferenced,
or missing — is never targeted either -/
theorem fn_foreign_never_deleted (out : Obs → FnOut) (ch : Choices) (hgc : ∀ l x, x ∈ ch.gcOrder l → x ∈ l)
    (plan : Plan) (s : St) (kind name : String)
    (h : (⟨kind, name⟩ : Ref) ∉ s.refs ∨ findObj s.objs kind name = none ∨
         ∃ o, findObj s.objs kind name = some o ∧ o.ctrl = .other) :
    ∀ e ∈ callLog sem plan 0 (reconcile (.fn out ch)) s, e.1 ≠ .delete kind name ∧ e.1 ≠ .gcUpdate kind name := by
  intro e he
  have key : ¬ FnGcJustified out s kind name := by
    rintro ⟨_, _, a', o', _, _, _, hk, hn, _, hoa'⟩
    subst hk; subst hn
    rcases h with h | h | ⟨o, h, hc⟩
    · exact h hoa'.ref
    · rw [hoa'.found] at h; cases h
    · rw [hoa'.found] at h; cases h; exact hoa'.notForeign hc
  exact ⟨fun h => key (fn_gc_only_undesired out ch hgc plan s e he _ _ (Or.inl h)),
    fun h => key (fn_gc_only_undesired out ch hgc plan s e he _ _ (Or.inr h))⟩

/-- **Exactness on a fault-free run.** If the fault-free reconcile succeeds — or merely gets as
far as persisting the new references — then the observation succeeded, the pipeline returned
a desired state for it, and the `delete` (and `gcUpdate`) requests applied are exactly those
for the observed composed resources whose resource name is absent from that desired state. -/
theorem fn_gc_exact (out : Obs → FnOut) (ch : Choices) (hgc : ∀ l x, x ∈ ch.gcOrder l ↔ x ∈ l) (s : St)
    (hdone : (run sem Plan.allOk 0 (reconcile (.fn out ch)) s).2 = some .success ∨
             ∃ v rf, Req.patchRefs v rf ∈ applied sem Plan.allOk 0 (reconcile (.fn out ch)) s) :
    ∃ obs ds, observePure s.objs s.refs [] = some obs ∧ out obs = .desired ds ∧
      ∀ kind name,
        (Req.delete kind name ∈ applied sem Plan.allOk 0 (reconcile (.fn out ch)) s ↔
          ∃ a o, (a, o) ∈ obs ∧ o.kind = kind ∧ o.name = name ∧ ∀ d ∈ ds, d.rname ≠ a) ∧
        (Req.gcUpdate kind name ∈ applied sem Plan.allOk 0 (reconcile (.fn out ch)) s ↔
          ∃ a o, (a, o) ∈ obs ∧ o.kind = kind ∧ o.name = name ∧ ∀ d ∈ ds, d.rname ≠ a) := by
  let C : Req → Prop := fun r => ∃ v rf, r = .patchRefs v rf
  have hget : ∀ k n, ¬ C (.getObj k n) := by rintro k n ⟨_, _, h⟩; cases h
  have hgetc : ∀ k n, ¬ C (.getCached k n) := by rintro k n ⟨_, _, h⟩; cases h
  have hst : ∀ l, ¬ C (.statusUpdate l) := by rintro l ⟨_, _, h⟩; cases h
  have hreach : Reached C (reconcile (.fn out ch)) s := by
    rcases hdone with h | ⟨v, rf, h⟩
    · exact Or.inl h
    · exact Or.inr ⟨_, h, v, rf, rfl⟩
  obtain ⟨lrv, s', hobjs, hr1, hsub1⟩ := reached_reconcile (C := C) (fun r hc => Or.inr (Or.inl hc)) _ s hreach
  change Reached C (composeFn lrv s.refs out ch) s' at hr1
  change ∀ r ∈ okApplied (composeFn lrv s.refs out ch) s', _ at hsub1
  rw [composeFn_eq] at hr1 hsub1
  obtain ⟨obs, hobs, hr2, hsub2⟩ := reached_observeFn hget hgetc hst s' lrv _ _ _ hr1
  rw [hobjs] at hobs
  cases hout : out obs with
  | failed => rw [composeTail_failed hout] at hr2; exact absurd hr2 (not_reached_onError hst)
  | desired ds =>
    rw [composeTail_desired hout] at hr2 hsub2
    obtain ⟨named, _, hsub3⟩ := reached_renderFn hgetc hst s' lrv obs _ _ _ _ hr2
    refine ⟨obs, ds, hobs, hout, ?_⟩
    have hback : ∀ kind name, FnGcJustified out s kind name →
        ∃ a o, (a, o) ∈ obs ∧ o.kind = kind ∧ o.name = name ∧ ∀ d ∈ ds, d.rname ≠ a := by
      rintro kind name ⟨obs', ds', a, o, hobs', hout', hm, hk, hn, hnd, _⟩
      rw [hobs] at hobs'; cases hobs'
      rw [hout] at hout'; cases hout'
      exact ⟨a, o, hm, hk, hn, hnd⟩
    have hfwd : ∀ kind name, (∃ a o, (a, o) ∈ obs ∧ o.kind = kind ∧ o.name = name ∧ ∀ d ∈ ds, d.rname ≠ a) →
        Req.gcUpdate kind name ∈ applied sem Plan.allOk 0 (reconcile (.fn out ch)) s ∧
        Req.delete kind name ∈ applied sem Plan.allOk 0 (reconcile (.fn out ch)) s := by
      rintro kind name ⟨a, o, hm, rfl, rfl, hnd⟩
      have ht : o ∈ ch.gcOrder ((obs.filter fun p => !(ds.any (·.rname = p.1))).map (·.2)) :=
        (hgc _ _).mpr ((gc_targets_exact obs ds o).mpr ⟨a, hm, hnd⟩)
      exact ⟨hsub1 _ (hsub2 _ (hsub3 _ (okApplied_gcFn lrv _ _ s' o ht).1)),
        hsub1 _ (hsub2 _ (hsub3 _ (okApplied_gcFn lrv _ _ s' o ht).2))⟩
    intro kind name
    constructor
    · constructor
      · intro h
        obtain ⟨e, he, hreq⟩ := applied_sub_callLog sem Plan.allOk _ 0 s _ h
        exact hback _ _ (fn_gc_only_undesired out ch (fun l x => (hgc l x).mp) Plan.allOk s e he _ _ (Or.inl hreq))
      · exact fun h => (hfwd _ _ h).2
    · constructor
      · intro h
        obtain ⟨e, he, hreq⟩ := applied_sub_callLog sem Plan.allOk _ 0 s _ h
        exact hback _ _ (fn_gc_only_undesired out ch (fun l x => (hgc l x).mp) Plan.allOk s e he _ _ (Or.inr hreq))
      · exact fun h => (hfwd _ _ h).1

/-! ### the patch-and-transform associator -/

/-- The justification every garbage-collection request `(kind, name)` of the P&T composer has:
`(kind, name)` is a (named) reference of the XR whose object, in the store the reconcile
started from, is annotated with a name that is no template of the composition, and is not
controlled by someone else. -/
def PtGcJustified (tmpl : List Desired) (s : St) (kind name : String) : Prop :=
  ∃ o, (⟨kind, name⟩ : Ref) ∈ s.refs ∧ name ≠ "" ∧ findObj s.objs kind name = some o ∧ o.annot ≠ "" ∧
    (∀ t ∈ tmpl, t.rname ≠ o.annot) ∧ o.ctrl ≠ .other

/-- **P&T: only references whose template is gone are ever targeted, under any fault plan, at
any instant.** Every `delete` and `gcUpdate` the P&T reconcile issues targets a referenced
object whose annotation names no template and which is not controlled by another owner. -/
theorem pt_gc_only_templateless (tmpl : List Desired) (fresh : List String) (ver : String) (plan : Plan) (s : St) :
    ∀ e ∈ callLog sem plan 0 (reconcile (.pt tmpl fresh ver)) s, ∀ kind name,
      (e.1 = .delete kind name ∨ e.1 = .gcUpdate kind name) → PtGcJustified tmpl s kind name := by
  let Q : Req → Prop := fun r => ∀ kind name, (r = .delete kind name ∨ r = .gcUpdate kind name) →
    PtGcJustified tmpl s kind name
  have hQ : ∀ r, NoGc r → Q r := by
    intro r hr kind name h
    rcases h with rfl | rfl <;> exact absurd hr (by simp [NoGc])
  have hem : Emits sem Q (reconcile (.pt tmpl fresh ver)) s := by
    apply emits_reconcile hQ
    intro lrv s' hobjs
    show Emits sem Q (composePT lrv s.refs tmpl fresh ver) s'
    apply emits_composePT hQ tmpl fresh ver lrv s s' hobjs
    intro kk n o hr hn hf ha ht hc
    have hj : PtGcJustified tmpl s kk n :=
      ⟨o, hr, hn, hf, ha, fun t htm he => by
        have := List.any_eq_false.mp ht t htm
        simp [he] at this, hc⟩
    constructor
    · intro kind name h
      rcases h with h | h
      · cases h
      · cases h; exact hj
    · intro kind name h
      rcases h with h | h
      · cases h; exact hj
      · cases h
  exact callLog_emits sem Q plan _ 0 s hem

/-- Corollary: an object whose annotation names an existing template, or that is controlled by
another owner, or that is not referenced, is never the target of a `delete` or `gcUpdate`. -/
theorem pt_templated_never_deleted (tmpl : List Desired) (fresh : List String) (ver : String) (plan : Plan) (s : St)
    (kind name : String)
    (h : (⟨kind, name⟩ : Ref) ∉ s.refs ∨ findObj s.objs kind name = none ∨
         ∃ o, findObj s.objs kind name = some o ∧ (o.ctrl = .other ∨ ∃ t ∈ tmpl, t.rname = o.annot)) :
    ∀ e ∈ callLog sem plan 0 (reconcile (.pt tmpl fresh ver)) s, e.1 ≠ .delete kind name ∧ e.1 ≠ .gcUpdate kind name := by
  intro e he
  have key : ¬ PtGcJustified tmpl s kind name := by
    rintro ⟨o', hr, _, hf, _, hnt, hc⟩
    rcases h with h | h | ⟨o, h, h2⟩
    · exact h hr
    · rw [hf] at h; cases h
    · rw [hf] at h; cases h
      rcases h2 with h2 | ⟨t, ht, hta⟩
      · exact hc h2
      · exact hnt t ht hta
  exact ⟨fun h => key (pt_gc_only_templateless tmpl fresh ver plan s e he _ _ (Or.inl h)),
    fun h => key (pt_gc_only_templateless tmpl fresh ver plan s e he _ _ (Or.inr h))⟩

/-- **P&T exactness on a fault-free run.** If the fault-free reconcile succeeds — or merely
gets as far as persisting the new references — the `delete` (and `gcUpdate`) requests applied
are exactly those for the named references whose object exists and is annotated with a name
that is no template; each of these objects is annotated and not controlled by another owner
(otherwise the association would have aborted). -/
theorem pt_gc_exact (tmpl : List Desired) (fresh : List String) (ver : String) (s : St)
    (hdone : (run sem Plan.allOk 0 (reconcile (.pt tmpl fresh ver)) s).2 = some .success ∨
             ∃ rv v rf, Req.updateXR rv v rf ∈ applied sem Plan.allOk 0 (reconcile (.pt tmpl fresh ver)) s) :
    ∀ kind name,
      (Req.delete kind name ∈ applied sem Plan.allOk 0 (reconcile (.pt tmpl fresh ver)) s ↔
        ∃ o, (⟨kind, name⟩ : Ref) ∈ s.refs ∧ name ≠ "" ∧ findObj s.objs kind name = some o ∧
          ∀ t ∈ tmpl, t.rname ≠ o.annot) ∧
      (Req.gcUpdate kind name ∈ applied sem Plan.allOk 0 (reconcile (.pt tmpl fresh ver)) s ↔
        ∃ o, (⟨kind, name⟩ : Ref) ∈ s.refs ∧ name ≠ "" ∧ findObj s.objs kind name = some o ∧
          ∀ t ∈ tmpl, t.rname ≠ o.annot) ∧
      (∀ o, (⟨kind, name⟩ : Ref) ∈ s.refs → name ≠ "" → findObj s.objs kind name = some o →
        (∀ t ∈ tmpl, t.rname ≠ o.annot) → o.annot ≠ "" ∧ o.ctrl ≠ .other) := by
  let C : Req → Prop := fun r => ∃ rv v rf, r = .updateXR rv v rf
  have hget : ∀ k n, ¬ C (.getObj k n) := by rintro k n ⟨_, _, _, h⟩; cases h
  have hgetc : ∀ k n, ¬ C (.getCached k n) := by rintro k n ⟨_, _, _, h⟩; cases h
  have hst : ∀ l, ¬ C (.statusUpdate l) := by rintro l ⟨_, _, _, h⟩; cases h
  have hgu : ∀ k n, ¬ C (.gcUpdate k n) := by rintro k n ⟨_, _, _, h⟩; cases h
  have hdel : ∀ k n, ¬ C (.delete k n) := by rintro k n ⟨_, _, _, h⟩; cases h
  have hreach : Reached C (reconcile (.pt tmpl fresh ver)) s := by
    rcases hdone with h | ⟨rv, v, rf, h⟩
    · exact Or.inl h
    · exact Or.inr ⟨_, h, rv, v, rf, rfl⟩
  obtain ⟨lrv, s', hobjs, hr1, hsub1⟩ := reached_reconcile (C := C) (fun r hc => Or.inr (Or.inr hc)) _ s hreach
  change Reached C (composePT lrv s.refs tmpl fresh ver) s' at hr1
  change ∀ r ∈ okApplied (composePT lrv s.refs tmpl fresh ver) s', _ at hsub1
  rw [composePT_eq] at hr1 hsub1
  have hfwd : ∀ kind name, (∃ o, (⟨kind, name⟩ : Ref) ∈ s.refs ∧ name ≠ "" ∧ findObj s.objs kind name = some o ∧
        ∀ t ∈ tmpl, t.rname ≠ o.annot) →
      Req.gcUpdate kind name ∈ applied sem Plan.allOk 0 (reconcile (.pt tmpl fresh ver)) s ∧
      Req.delete kind name ∈ applied sem Plan.allOk 0 (reconcile (.pt tmpl fresh ver)) s := by
    rintro kind name ⟨o, hr, hn, hf, hnt⟩
    have ht : tmpl.any (·.rname = o.annot) = false := by
      apply List.any_eq_false.mpr
      intro t htm
      simpa using hnt t htm
    have := reached_associatePT hget hgetc hst hgu hdel lrv tmpl _ s.refs [] s' hr1 ⟨kind, name⟩ hr hn o
      (by rw [hobjs]; exact hf) ht
    exact ⟨hsub1 _ this.1, hsub1 _ this.2⟩
  have hback : ∀ kind name, PtGcJustified tmpl s kind name →
      ∃ o, (⟨kind, name⟩ : Ref) ∈ s.refs ∧ name ≠ "" ∧ findObj s.objs kind name = some o ∧
        ∀ t ∈ tmpl, t.rname ≠ o.annot := by
    rintro kind name ⟨o, hr, hn, hf, _, hnt, _⟩
    exact ⟨o, hr, hn, hf, hnt⟩
  intro kind name
  refine ⟨⟨?_, fun h => (hfwd _ _ h).2⟩, ⟨?_, fun h => (hfwd _ _ h).1⟩, ?_⟩
  · intro h
    obtain ⟨e, he, hreq⟩ := applied_sub_callLog sem Plan.allOk _ 0 s _ h
    exact hback _ _ (pt_gc_only_templateless tmpl fresh ver Plan.allOk s e he _ _ (Or.inl hreq))
  · intro h
    obtain ⟨e, he, hreq⟩ := applied_sub_callLog sem Plan.allOk _ 0 s _ h
    exact hback _ _ (pt_gc_only_templateless tmpl fresh ver Plan.allOk s e he _ _ (Or.inr hreq))
  · intro o hr hn hf hnt
    have h := (hfwd kind name ⟨o, hr, hn, hf, hnt⟩).2
    obtain ⟨e, he, hreq⟩ := applied_sub_callLog sem Plan.allOk _ 0 s _ h
    obtain ⟨o', _, _, hf', ha, _, hc⟩ := pt_gc_only_templateless tmpl fresh ver Plan.allOk s e he _ _ (Or.inl hreq)
    rw [hf] at hf'; cases hf'
    exact ⟨ha, hc⟩

/-! ### non-vacuity -/
example : ∃ st fatal, Xp.C04.runPipeline [] [] [⟨"s0", fun _ => none, "", []⟩] 0 Xp.C04.initState = .failed st fatal :=
  ⟨_, _, rfl⟩

/-- step 0 succeeds (it desires "a"); step 1 asks for different requirements in every round -/
def exOkFn : Xp.C04.Fn := fun _ => some ⟨[⟨"a", "KA", "", 1, true⟩], none, [], [], [], []⟩
def exFlipFn : Xp.C04.Fn := fun req =>
  some ⟨req.desired, none, [], if req.extra = [] then [("x", ⟨"K", "n", []⟩)] else [], [], []⟩
def exFatalFn : Xp.C04.Fn := fun req => some ⟨req.desired, none, [], [], [⟨.fatal, "boom", false⟩], []⟩
def exErrFn : Xp.C04.Fn := fun _ => none

/-- the hypotheses of `step_failure_fails` are met with a non-empty successful prefix: step 1
never stabilises -/
example : ∃ st, Xp.C04.runPipeline [] [] [⟨"s0", exOkFn, "", []⟩] 0 Xp.C04.initState = .done st ∧
    Xp.C04.StepFails [] [] st ⟨"s1", exFlipFn, "", []⟩ :=
  ⟨_, rfl, Or.inr (Or.inl ((Xp.C04.runFetching_err_iff _ _ _ _ _).mp rfl))⟩

/-- ... step 2 returns a fatal result after two successful steps -/
example : ∃ st, Xp.C04.runPipeline [] [] [⟨"s0", exOkFn, "", []⟩, ⟨"s1", exOkFn, "", []⟩] 0 Xp.C04.initState = .done st ∧
    Xp.C04.StepFails [] [] st ⟨"s2", exFatalFn, "", []⟩ :=
  ⟨_, rfl, Or.inr (Or.inr ⟨_, rfl, rfl⟩)⟩

/-- ... step 1's call errors; and the whole pipelines fail -/
example : ∃ st, Xp.C04.runPipeline [] [] [⟨"s0", exOkFn, "", []⟩] 0 Xp.C04.initState = .done st ∧
    Xp.C04.StepFails [] [] st ⟨"s1", exErrFn, "", []⟩ :=
  ⟨_, rfl, Or.inr (Or.inl (Or.inl rfl))⟩

example : ∃ st fatal, Xp.C04.runPipeline [] [] [⟨"s0", exOkFn, "", []⟩, ⟨"s1", exFlipFn, "", []⟩, ⟨"s2", exOkFn, "", []⟩]
    0 Xp.C04.initState = .failed st fatal := ⟨_, _, rfl⟩

/-- a pipeline that does not fail exists too (the `iff` of `pipeline_fails_iff` is not one-sided) -/
example : ∃ st, Xp.C04.runPipeline [] [] [⟨"s0", exOkFn, "", []⟩, ⟨"s1", exOkFn, "", []⟩] 0 Xp.C04.initState = .done st :=
  ⟨_, rfl⟩

/-- An XR with three referenced composed resources: `xr-a` (resource name "a", still desired /
template exists), `xr-b` (resource name "b", no longer desired / template gone) and `xr-f`
(controlled by someone else). -/
def gcObjA : CObj := ⟨"KA", "xr-a", "a", .xr, false, false, 1, true⟩
def gcObjB : CObj := ⟨"KB", "xr-b", "b", .xr, false, false, 0, true⟩
def gcObjF : CObj := ⟨"KF", "xr-f", "f", .other, false, false, 0, false⟩
def gcStore : St :=
  { xrFin := true, xrRv := 3,
    refs := [⟨"KA", "xr-a"⟩, ⟨"KB", "xr-b"⟩, ⟨"KF", "xr-f"⟩],
    objs := [gcObjA, gcObjB, gcObjF] }
def gcOut : Obs → FnOut := fun _ => .desired [⟨"a", "KA", 1, true⟩]
def gcCh : Choices := ⟨"v1", [], id, id⟩

/-- the observation: the foreign-controlled object is skipped -/
def gcObs : Obs := [("a", gcObjA), ("b", gcObjB)]
theorem gcStore_observed : observePure gcStore.objs gcStore.refs [] = some gcObs := by decide

/-- the fault-free function-composer run: "a" kept, "b" collected, the foreign one skipped -/
theorem gcStore_fn_run :
    (applied sem Plan.allOk 0 (reconcile (.fn gcOut gcCh)) gcStore).take 7 =
      [.getXR, .getCached "KA" "xr-a", .getCached "KB" "xr-b", .getCached "KF" "xr-f",
       .gcUpdate "KB" "xr-b", .delete "KB" "xr-b",
       .patchRefs "v1" (refsOf [⟨⟨"a", "KA", 1, true⟩, "xr-a", false⟩])] := rfl

/-- the same run with `xr-b` missing from the informer cache: the cached read answers NotFound,
the live read finds it, and it is collected all the same -/
example :
    (applied sem Plan.allOk 0 (reconcile (.fn gcOut gcCh)) { gcStore with miss := [⟨"KB", "xr-b"⟩] }).take 8 =
      [.getXR, .getCached "KA" "xr-a", .getCached "KB" "xr-b", .getObj "KB" "xr-b", .getCached "KF" "xr-f",
       .gcUpdate "KB" "xr-b", .delete "KB" "xr-b",
       .patchRefs "v1" (refsOf [⟨⟨"a", "KA", 1, true⟩, "xr-a", false⟩])] := rfl

/-- the hypothesis of `fn_gc_exact` is met -/
example : ∃ v rf, Req.patchRefs v rf ∈ applied sem Plan.allOk 0 (reconcile (.fn gcOut gcCh)) gcStore :=
  ⟨"v1", refsOf [⟨⟨"a", "KA", 1, true⟩, "xr-a", false⟩], List.mem_of_mem_take (by rw [gcStore_fn_run]; simp)⟩

/-- the justification of `fn_gc_only_undesired` holds of the undesired resource, and of neither
the desired nor the foreign-controlled one -/
example : FnGcJustified gcOut gcStore "KB" "xr-b" :=
  ⟨gcObs, _, "b", gcObjB, gcStore_observed, rfl, by decide, rfl, rfl, by decide,
    ⟨by decide, by decide, by decide, by decide, rfl, by decide⟩⟩

example (plan : Plan) : ∀ e ∈ callLog sem plan 0 (reconcile (.fn gcOut gcCh)) gcStore,
    e.1 ≠ .delete "KA" "xr-a" ∧ e.1 ≠ .gcUpdate "KA" "xr-a" :=
  fn_desired_never_deleted gcOut gcCh (fun _ _ h => h) plan gcStore gcObs _ gcStore_observed rfl "a" gcObjA (by decide)
    ⟨"a", "KA", 1, true⟩ (by decide) rfl

example (plan : Plan) : ∀ e ∈ callLog sem plan 0 (reconcile (.fn gcOut gcCh)) gcStore,
    e.1 ≠ .delete "KF" "xr-f" ∧ e.1 ≠ .gcUpdate "KF" "xr-f" :=
  fn_foreign_never_deleted gcOut gcCh (fun _ _ h => h) plan gcStore _ _ (Or.inr (Or.inr ⟨gcObjF, by decide, rfl⟩))

/-- P&T with the single template "a" on the same store: "b" is collected, then the association
stops at the foreign-controlled `xr-f` (whose annotation names no template) without touching it -/
def gcTmpl : List Desired := [⟨"a", "KA", 1, true⟩]

theorem gcStore_pt_run :
    applied sem Plan.allOk 0 (reconcile (.pt gcTmpl [] "v1")) gcStore =
      [.getXR, .getCached "KA" "xr-a", .getCached "KB" "xr-b", .gcUpdate "KB" "xr-b", .delete "KB" "xr-b",
       .getCached "KF" "xr-f", .statusUpdate (some 3)] := rfl

example : PtGcJustified gcTmpl gcStore "KB" "xr-b" :=
  ⟨gcObjB, by decide, by decide, by decide, by decide, by decide, by decide⟩

example (plan : Plan) : ∀ e ∈ callLog sem plan 0 (reconcile (.pt gcTmpl [] "v1")) gcStore,
    (e.1 ≠ .delete "KA" "xr-a" ∧ e.1 ≠ .gcUpdate "KA" "xr-a") ∧ (e.1 ≠ .delete "KF" "xr-f" ∧ e.1 ≠ .gcUpdate "KF" "xr-f") :=
  fun e he =>
    ⟨pt_templated_never_deleted gcTmpl [] "v1" plan gcStore _ _
        (Or.inr (Or.inr ⟨gcObjA, by decide, Or.inr ⟨_, List.mem_cons_self .., rfl⟩⟩)) e he,
     pt_templated_never_deleted gcTmpl [] "v1" plan gcStore _ _
        (Or.inr (Or.inr ⟨gcObjF, by decide, Or.inl rfl⟩)) e he⟩

/-- without the foreign-controlled reference the P&T run gets past the association (the
hypothesis of `pt_gc_exact` is met): "a" kept, "b" collected -/
def gcStore2 : St := { gcStore with refs := [⟨"KA", "xr-a"⟩, ⟨"KB", "xr-b"⟩] }

theorem gcStore2_pt_run :
    (applied sem Plan.allOk 0 (reconcile (.pt gcTmpl [] "v1")) gcStore2).take 6 =
      [.getXR, .getCached "KA" "xr-a", .getCached "KB" "xr-b", .gcUpdate "KB" "xr-b", .delete "KB" "xr-b",
       .updateXR 3 "v1" [⟨"KA", "xr-a"⟩]] := rfl

example : ∃ rv v rf, Req.updateXR rv v rf ∈ applied sem Plan.allOk 0 (reconcile (.pt gcTmpl [] "v1")) gcStore2 :=
  ⟨3, "v1", [⟨"KA", "xr-a"⟩], List.mem_of_mem_take (by rw [gcStore2_pt_run]; simp)⟩

/-! ### the success hypothesis of the exactness theorems is necessary

Exactness without "the composition gets past rendering / association" is false of the model (and
of the code it mirrors: both return the error before, or in the middle of, the collection). -/

/-- function composer: the pipeline succeeds and "b" is undesired, but a new resource "c" cannot
be named (the generator gives up), so the fault-free reconcile errors before collecting -/
theorem fn_gc_unconditional_exactness_fails_witness :
    observePure gcStore.objs gcStore.refs [] = some gcObs ∧
    ("b", gcObjB) ∈ gcObs ∧ (∀ d ∈ [(⟨"a", "KA", 1, true⟩ : Desired), ⟨"c", "KA", 0, false⟩], d.rname ≠ "b") ∧
    Req.delete "KB" "xr-b" ∉ applied sem Plan.allOk 0
      (reconcile (.fn (fun _ => .desired [⟨"a", "KA", 1, true⟩, ⟨"c", "KA", 0, false⟩]) gcCh)) gcStore := by
  refine ⟨gcStore_observed, by decide, by decide, ?_⟩
  have : applied sem Plan.allOk 0
      (reconcile (.fn (fun _ => .desired [⟨"a", "KA", 1, true⟩, ⟨"c", "KA", 0, false⟩]) gcCh)) gcStore =
      [.getXR, .getCached "KA" "xr-a", .getCached "KB" "xr-b", .getCached "KF" "xr-f", .statusUpdate (some 3)] := rfl
  rw [this]; simp

/-- P&T: the foreign-controlled, template-less `xr-f` is referenced *before* `xr-b`; the
association errors at `xr-f` and `xr-b` (referenced, existing, controllable, template gone) is
not collected in this reconcile -/
theorem pt_gc_unconditional_exactness_fails_witness :
    let s : St := { gcStore with refs := [⟨"KF", "xr-f"⟩, ⟨"KB", "xr-b"⟩] }
    (⟨"KB", "xr-b"⟩ : Ref) ∈ s.refs ∧ findObj s.objs "KB" "xr-b" = some gcObjB ∧ gcObjB.ctrl ≠ .other ∧
    (∀ t ∈ gcTmpl, t.rname ≠ gcObjB.annot) ∧
    Req.delete "KB" "xr-b" ∉ applied sem Plan.allOk 0 (reconcile (.pt gcTmpl [] "v1")) s := by
  intro s
  refine ⟨by decide, by decide, by decide, by decide, ?_⟩
  have : applied sem Plan.allOk 0 (reconcile (.pt gcTmpl [] "v1")) s =
      [.getXR, .getCached "KF" "xr-f", .statusUpdate (some 3)] := rfl
  rw [this]; simp

/-! ### call skeletons regenerated from the source tree (Xp/Gen/C03Skel.lean) -/

/-- `FetchingFunctionRunner.RunFunction`: call, fatal check, `reflect.DeepEqual`, fetch loop, context, exits -/
theorem skeleton_run_function : Xp.Gen.c03SkelRunFunction = skelRunFunction := by decide
/-- `ExistingExtraResourcesFetcher.Fetch`: nil check, by name (Get, NotFound ⇒ nil), by labels (List), unknown match -/
theorem skeleton_fetch : Xp.Gen.c03SkelFetch = skelFetch := by decide
/-- `DeletingComposedResourceGarbageCollector.GarbageCollectComposedResources` -/
theorem skeleton_gc_fn : Xp.Gen.c03SkelGcFn = skelGcFn := by decide
/-- `GarbageCollectingAssociator.AssociateTemplates` -/
theorem skeleton_associate : Xp.Gen.c03SkelAssociate = skelAssociator := by decide
/-- `ExistingComposedResourceObserver.ObserveComposedResources` -/
theorem skeleton_observe : Xp.Gen.c03SkelObserve = skelObserver := by decide
/-- `FunctionComposer.Compose` -/
theorem skeleton_compose_fn : Xp.Gen.c03SkelComposeFn = skelComposeFn := by decide
/-- the bound used by `runFunctionTop` is the constant of the source tree (and the one the C04 model uses) -/
theorem max_iterations_tied : Xp.Gen.c03MaxRequirementsIterations = Xp.Gen.maxRequirementsIterations := by decide

/-! ### `RunFunction` and `Fetch`, call by call, under every fault plan -/

/-- `RunFunction` (with every `Fetch` it performs) only reads: under every fault plan the
cluster is the same at every instant. -/
theorem run_function_never_writes (f : XFn) (order : Reqs → Reqs) (fuel : Nat) (req : Xp.C04.Request) (prev : Option Reqs)
    (tr : List Xp.C04.Request) (plan : Plan) (k : Nat) (cl : List Xp.C04.ClusterObj) :
    ∀ s' ∈ reach fsem plan k (runFunctionP f order fuel req prev tr) cl, s' = cl :=
  reach_inv fsem (fun s' => s' = cl) (fun _ => True)
    (by intro s r hs _; rw [hs]; exact fexec_fst cl r) plan k _ (issues_any _) cl rfl

/-- **An answer is accepted only if it is fatal or its requirements equal the previous round's**
— under every fault plan, for every function, every map order and every bound: what
`RunFunction` returns is the function's answer to the last request it was sent; every earlier
round's answer was non-fatal, had requirements different from its predecessor's, all of which
were fetched, and the next request carried exactly the cluster's answers to them (`Rounds`); and
at most `MaxRequirementsIterations + 1` requests were sent. -/
theorem run_function_accepts_only_stable (f : XFn) (order : Reqs → Reqs) (plan : Plan) (cl : List Xp.C04.ClusterObj)
    (req : Xp.C04.Request) (tr' : List Xp.C04.Request) (rsp : Rsp)
    (h : (run fsem plan 0 (runFunctionTop f order req) cl).2 = some (tr', .ok rsp)) :
    ∃ n rq pv, Rounds f cl order n req none rq pv ∧ f rq = some rsp ∧
      (Xp.C04.hasFatal rsp.base.results = true ∨ rsp.reqs = pv) ∧
      n ≤ Xp.Gen.c03MaxRequirementsIterations ∧ tr'.length = n + 1 := by
  obtain ⟨n, rq, pv, h1, h2, h3, h4, h5⟩ := runFunctionP_ok f order plan cl _ req none [] 0 tr' rsp h
  exact ⟨n, rq, pv, h1, h2, h3, Nat.lt_succ_iff.mp h4, by simpa using h5⟩

/-- the requirements an accepted, non-fatal answer is compared with are those of the previous
round's (non-fatal) answer — or, in the first round, the nil requirements the loop starts with -/
theorem run_function_previous_round {f : XFn} {cl : List Xp.C04.ClusterObj} {order : Reqs → Reqs} {n : Nat}
    {req rq : Xp.C04.Request} {pv : Option Reqs} (h : Rounds f cl order n req none rq pv) :
    n = 0 ∧ pv = none ∨ ∃ rq0 rsp0, f rq0 = some rsp0 ∧ rsp0.reqs = pv ∧ Xp.C04.hasFatal rsp0.base.results = false :=
  rounds_prev h

/-- **The bound holds however the call ends** (answer, error, any fault plan): the function is
sent at most `MaxRequirementsIterations + 1` requests. -/
theorem run_function_bounded (f : XFn) (order : Reqs → Reqs) (plan : Plan) (cl : List Xp.C04.ClusterObj)
    (req : Xp.C04.Request) (tr' : List Xp.C04.Request) (r : RunResult)
    (h : (run fsem plan 0 (runFunctionTop f order req) cl).2 = some (tr', r)) :
    tr'.length ≤ Xp.Gen.c03MaxRequirementsIterations + 1 := by
  simpa using runFunctionP_bounded f order plan cl _ req none [] 0 tr' r h

/-- **A failed read of an extra resource is never swallowed.** If any Get / List issued by
`RunFunction` is answered with an error (fault `fail` or `conflict`, at any call index), the call
ends in an error — never in an answer computed from partial extra resources. -/
theorem run_function_fault_never_swallowed (f : XFn) (order : Reqs → Reqs) (fuel : Nat) (req : Xp.C04.Request)
    (prev : Option Reqs) (tr : List Xp.C04.Request) (plan : Plan) (k : Nat) (cl : List Xp.C04.ClusterObj)
    (hf : ∃ e ∈ callLog fsem plan k (runFunctionP f order fuel req prev tr) cl, e.2.1 = .fail ∨ e.2.1 = .conflict)
    (t : List Xp.C04.Request) (r : RunResult)
    (hr : (run fsem plan k (runFunctionP f order fuel req prev tr) cl).2 = some (t, r)) : r = .err :=
  (abortsOnErr_runFunctionP f order fuel req prev tr).run plan k cl hf t r hr

/-- **The call-by-call model refines to the pure interpreter.** On a fault-free run, for a
function of the C04 model (whose selectors match by name or by labels, not both), `runFunctionP`
sends the same requests and ends the same way as `Xp.C04.runFetching` — so the pipeline theorems
above (`fetching_errs_iff`, `pipeline_fails_iff`, …) speak about the loop modelled here. -/
theorem run_function_refines_interpreter (f : Xp.C04.Fn) (hwf : ∀ rq r, f rq = some r → WFReqs r.reqs)
    (cl : List Xp.C04.ClusterObj) (fuel : Nat) (req : Xp.C04.Request) :
    (run fsem Plan.allOk 0 (runFunctionP (liftFn f) id fuel req none []) cl).2 =
      some ((Xp.C04.runFetching cl f fuel req []).1, liftOutcome (Xp.C04.runFetching cl f fuel req []).2) := by
  have := runFunctionP_allOk f hwf cl fuel req [] [] 0 (by intro p hp; cases hp)
  simpa [ofReqs] using this

/-- a by-name `Fetch` of a missing object hands the function a nil entry and is NOT an error;
unknown / nil selectors are errors without any call -/
theorem fetch_outcomes (cl : List Xp.C04.ClusterObj) (kind n : String) (c : Option Fetched → Prog FReq FResp Nat) (k : Nat) :
    (cl.any (fun o => o.kind = kind ∧ o.name = n) = false →
      run fsem Plan.allOk k (fetchP (some ⟨kind, .name n⟩) c) cl = run fsem Plan.allOk (k + 1) (c (some none)) cl) ∧
    fetchP (some ⟨kind, .unset⟩) c = c none ∧ fetchP none c = c none := by
  refine ⟨fun h => ?_, rfl, rfl⟩
  rw [run_fetchP_ok Plan.allOk k cl ⟨kind, .name n⟩ c rfl rfl]
  simp only [fetchVal, h]
  rfl

/-! non-vacuity of the `RunFunction` theorems -/

/-- asks for `x` by name until it is handed something for `x`; the second answer repeats the
requirements and is accepted -/
def exStableFn : XFn := fun rq =>
  some ⟨⟨rq.desired, none, [], [], [], []⟩, some [("x", some ⟨"K", .name "n"⟩)]⟩
/-- present-but-empty requirements: not equal to the nil requirements of round 0, so a second call is made -/
def exEmptyFn : XFn := fun rq => some ⟨⟨rq.desired, none, [], [], [], []⟩, some []⟩
def exReq : Xp.C04.Request := ⟨[], [], none, [], [], "", []⟩
def exCluster : List Xp.C04.ClusterObj := [⟨"K", "n", []⟩]

/-- fault-free: two calls, one Get, accepted (hypothesis of `run_function_accepts_only_stable`) -/
example : ∃ tr rsp, (run fsem Plan.allOk 0 (runFunctionTop exStableFn id exReq) exCluster).2 = some (tr, .ok rsp) ∧
    tr.length = 2 ∧ (tr.getLast?.map (·.extra)) = some [("x", some ["n"])] := ⟨_, _, rfl, rfl, rfl⟩
/-- the same with the Get failing: the call ends in an error (hypothesis of `run_function_fault_never_swallowed`) -/
example : (callLog fsem (Plan.at 0 .fail) 0 (runFunctionTop exStableFn id exReq) exCluster).map (·.2.1) = [.fail] ∧
    ∃ tr, (run fsem (Plan.at 0 .fail) 0 (runFunctionTop exStableFn id exReq) exCluster).2 = some (tr, .err) :=
  ⟨rfl, _, rfl⟩
/-- present-but-empty requirements cost a second call (nil ≠ empty under `reflect.DeepEqual`) -/
example : ∃ tr rsp, (run fsem Plan.allOk 0 (runFunctionTop exEmptyFn id exReq) exCluster).2 = some (tr, .ok rsp) ∧ tr.length = 2 :=
  ⟨_, _, rfl, rfl⟩
/-- `Rounds` with one round played -/
example : Rounds exStableFn exCluster id 1 exReq none { exReq with extra := [("x", some ["n"])] } (some [("x", some ⟨"K", .name "n"⟩)]) :=
  Rounds.next (f := exStableFn) ⟨⟨[], none, [], [], [], []⟩, some [("x", some ⟨"K", .name "n"⟩)]⟩ rfl rfl (by decide)
    (by intro p hp; simp at hp; subst hp; rfl) (Rounds.here _ _)
/-- `run_function_refines_interpreter` applies to a function with requirements -/
example : ∀ rq r, exOkFn rq = some r → WFReqs r.reqs := by
  intro rq r h p hp; simp [exOkFn] at h; subst h; cases hp

/-! ### the function composer's collector with its controller check -/

/-- **The composer built on the collector WITH its controller check is the composer of the
theorems above**: the real observer never lets a foreign-controlled resource into the
observation, so the check never decides. Every theorem about `composeFn` / `reconcile (.fn …)`
(no write on failure, only undesired resources targeted, exactness) is therefore a theorem
about the code including `errFmtControllerMismatch`. -/
theorem compose_with_controller_check_eq (lrv : Nat) (refs : List Ref) (out : Obs → FnOut) (ch : Choices)
    (hgc : ∀ l x, x ∈ ch.gcOrder l → x ∈ l) :
    composeFnFull lrv refs out ch = composeFn lrv refs out ch :=
  composeFnFull_eq lrv refs out ch hgc

/-- **The collector itself never touches what someone else controls**, whatever it is handed
(even a list no real observation can be): every update / delete request it can issue, under any
fault plan, targets an entry that is not controlled by another owner. -/
theorem gc_collector_spares_foreign (lrv : Nat) (os : List CObj) (k : P) (plan : Plan) (i : Nat) (s : St)
    (hk : Issues NoGc k) :
    ∀ e ∈ callLog sem plan i (gcFnFull lrv os k) s, ∀ kind name,
      (e.1 = .delete kind name ∨ e.1 = .gcUpdate kind name) → ∃ o ∈ os, o.kind = kind ∧ o.name = name ∧ o.ctrl ≠ .other := by
  let Q : Req → Prop := fun r => ∀ kind name, (r = .delete kind name ∨ r = .gcUpdate kind name) →
    ∃ o ∈ os, o.kind = kind ∧ o.name = name ∧ o.ctrl ≠ .other
  have hQ : ∀ r, NoGc r → Q r := by
    intro r hr kind name h
    rcases h with rfl | rfl <;> exact absurd hr (by simp [NoGc])
  have hiss : Issues Q (gcFnFull lrv os k) := by
    apply issues_gcFnFull lrv k (hQ _ trivial) (hk.mono hQ)
    intro o ho hc
    constructor
    · intro kind name h
      rcases h with h | h
      · cases h
      · cases h; exact ⟨o, ho, rfl, rfl, hc⟩
    · intro kind name h
      rcases h with h | h
      · cases h; exact ⟨o, ho, rfl, rfl, hc⟩
      · cases h
  exact callLog_emits sem Q plan _ i s (hiss.emits s)

/-- a list with a foreign-controlled entry between two collectable ones: the first is collected,
the collection stops at the foreign one, the third is not touched -/
example : (callLog sem Plan.allOk 0 (gcFnFull 3 [gcObjB, gcObjF, gcObjA] (.ret .success)) gcStore).map (·.1) =
    [.gcUpdate "KB" "xr-b", .delete "KB" "xr-b", .statusUpdate (some 3)] := rfl

example : composeFnFull 3 gcStore.refs gcOut gcCh = composeFn 3 gcStore.refs gcOut gcCh :=
  compose_with_controller_check_eq 3 _ gcOut gcCh (fun _ _ h => h)

end Xp.C03

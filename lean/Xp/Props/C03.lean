import Xp.Proofs.C01PT
import Xp.Model.C04
/-
C03 — a failing composition pipeline is never destructive; garbage collection is exact.

Uses the reconcile model of C01 (Xp/Model/C01.lean) and the pipeline interpreter of C04
(Xp/Model/C04.lean): `pipelineOut` plugs the pipeline in as the function output of the
function composer.
-/
namespace Xp.C03
open Xp.C01

/-- requests that cannot change a composed resource or spec.resourceRefs -/
def Harmless : Req → Prop
  | .getXR | .addFinalizer _ | .getObj _ _ | .statusUpdate _ => True
  | _ => False

theorem harmless_keeps (s : St) (r : Req) (h : Harmless r) :
    (exec s r).1.refs = s.refs ∧ (exec s r).1.objs = s.objs := by
  cases r with
  | getXR => exact ⟨rfl, rfl⟩
  | addFinalizer rv => simp only [exec]; split <;> exact ⟨rfl, rfl⟩
  | getObj k n => simp only [exec]; split <;> exact ⟨rfl, rfl⟩
  | statusUpdate rv => simp only [exec]; split <;> exact ⟨rfl, rfl⟩
  | _ => exact absurd h (by simp [Harmless])

theorem issues_onErrorO (l : Option Nat) : Issues Harmless (onErrorO l) := by
  unfold onErrorO
  refine Issues.call _ _ trivial ?_
  intro x; cases x <;> exact Issues.ret _

theorem issues_observeFn (lrv : Nat) (k : Obs → P) (hk : ∀ obs, Issues Harmless (k obs)) :
    ∀ (rs : List Ref) (acc : Obs), Issues Harmless (observeFn lrv rs acc k) := by
  intro rs
  induction rs with
  | nil => intro acc; simp only [observeFn]; exact hk acc
  | cons r rs ih =>
    intro acc
    simp only [observeFn]
    split
    · exact ih acc
    · have hfound : ∀ o : CObj, Issues Harmless (if o.ctrl = .other then observeFn lrv rs acc k
          else if o.annot = "" then onError lrv else observeFn lrv rs (obsInsert acc o.annot o) k) := by
        intro o
        split
        · exact ih acc
        · split
          · exact issues_onErrorO _
          · exact ih _
      refine Issues.call _ _ trivial ?_
      intro x
      cases x with
      | found o => exact hfound o
      | notFound =>
        refine Issues.call _ _ trivial ?_
        intro y
        cases y with
        | found o => exact hfound o
        | notFound => exact ih acc
        | _ => exact issues_onErrorO _
      | _ => exact issues_onErrorO _

/-- **No mutation on failure.** If the function pipeline fails — a step errors, returns a
fatal result, lacks its credentials, or its requirements never stabilise — or observing
the existing composed resources fails, then under every fault plan, at every instant of
the reconcile, no composed resource was created, updated or deleted and spec.resourceRefs
is untouched. -/
theorem fail_no_write (out : Obs → FnOut) (ch : Choices) (hfail : ∀ obs, out obs = .failed)
    (plan : Plan) (s : St) :
    ∀ s' ∈ reach sem plan 0 (reconcile (.fn out ch)) s, s'.refs = s.refs ∧ s'.objs = s.objs := by
  have hiss : Issues Harmless (reconcile (.fn out ch)) := by
    unfold reconcile
    refine Issues.call _ _ trivial ?_
    intro x
    cases x with
    | xr fin rv refs =>
      have hbody : ∀ lrv, Issues Harmless (composeFn lrv refs out ch) := by
        intro lrv
        unfold composeFn
        apply issues_observeFn
        intro obs
        rw [hfail obs]
        exact issues_onErrorO _
      simp only []
      split
      · exact hbody _
      · refine Issues.call _ _ trivial ?_
        intro y
        cases y with
        | okRv rv' => exact hbody _
        | conflict => exact Issues.ret _
        | _ => exact issues_onErrorO _
    | _ => exact Issues.ret _
  exact reach_inv sem (fun s' => s'.refs = s.refs ∧ s'.objs = s.objs) Harmless
    (by intro s1 r ⟨h1, h2⟩ hq
        have := harmless_keeps s1 r hq
        exact ⟨this.1.trans h1, this.2.trans h2⟩)
    plan 0 _ hiss s ⟨rfl, rfl⟩

/-! ### the pipeline as the function output of the composer -/

def toRes (p : String × CObj) : Xp.C04.Res := ⟨p.1, p.2.kind, p.2.name, p.2.content, false⟩

def toDesired (r : Xp.C04.Res) : Desired := ⟨r.rname, r.kind, r.content, r.ready⟩

/-- the function composer's desired state as computed by the pipeline of C04 -/
def pipelineOut (cluster : List Xp.C04.ClusterObj) (steps : List Xp.C04.Step) : Obs → FnOut := fun obs =>
  match Xp.C04.runPipeline cluster (obs.map toRes) steps 0 Xp.C04.initState with
  | .done st => .desired (st.desired.map toDesired)
  | .failed _ _ => .failed

/-- Instance for pipelines: a pipeline whose run fails on every observation writes nothing. -/
theorem failing_pipeline_no_write (cluster : List Xp.C04.ClusterObj) (steps : List Xp.C04.Step) (ch : Choices)
    (hfail : ∀ obs : Obs, ∃ st fatal, Xp.C04.runPipeline cluster (obs.map toRes) steps 0 Xp.C04.initState = .failed st fatal)
    (plan : Plan) (s : St) :
    ∀ s' ∈ reach sem plan 0 (reconcile (.fn (pipelineOut cluster steps) ch)) s, s'.refs = s.refs ∧ s'.objs = s.objs := by
  apply fail_no_write
  intro obs
  obtain ⟨st, fatal, h⟩ := hfail obs
  simp [pipelineOut, h]

/-- a first step that errors, or returns a fatal result, or never stabilises, fails the pipeline -/
theorem first_step_failure_fails (cluster : List Xp.C04.ClusterObj) (observed : List Xp.C04.Res)
    (s : Xp.C04.Step) (ss : List Xp.C04.Step)
    (h : s.creds.any (·.2.isNone) = true ∨
         (Xp.C04.runFetching cluster s.fn (Xp.Gen.maxRequirementsIterations + 1)
            (Xp.C04.stepRequest observed Xp.C04.initState s) []).2 = .err ∨
         ∃ rsp, (Xp.C04.runFetching cluster s.fn (Xp.Gen.maxRequirementsIterations + 1)
            (Xp.C04.stepRequest observed Xp.C04.initState s) []).2 = .ok rsp ∧
            (Xp.C04.eventsUntilFatal s.name rsp.results).2 = true) :
    ∃ st fatal, Xp.C04.runPipeline cluster observed (s :: ss) 0 Xp.C04.initState = .failed st fatal := by
  unfold Xp.C04.runPipeline
  rcases h with h | h | ⟨rsp, h, hf⟩
  · simp only [h, if_true]; exact ⟨_, _, rfl⟩
  · by_cases hc : s.creds.any (·.2.isNone) = true
    · simp only [hc, if_true]; exact ⟨_, _, rfl⟩
    · simp only [hc, Bool.false_eq_true, if_false, h]; exact ⟨_, _, rfl⟩
  · by_cases hc : s.creds.any (·.2.isNone) = true
    · simp only [hc, if_true]; exact ⟨_, _, rfl⟩
    · simp only [hc, Bool.false_eq_true, if_false, h, hf, if_true]; exact ⟨_, _, rfl⟩

/-! ### garbage collection is exact -/

/-- what the function composer hands to its garbage collector -/
def gcTargets (obs : Obs) (ds : List Desired) : List CObj :=
  (obs.filter fun p => !(ds.any (·.rname = p.1))).map (·.2)

/-- The function composer's garbage-collection targets are exactly the observed composed
resources (referenced, not controlled by someone else, annotated) whose resource name is
absent from the final desired state: nothing still desired is ever targeted. -/
theorem gc_targets_exact (obs : Obs) (ds : List Desired) (o : CObj) :
    o ∈ gcTargets obs ds ↔ ∃ a, (a, o) ∈ obs ∧ ∀ d ∈ ds, d.rname ≠ a := by
  simp only [gcTargets, List.mem_map, List.mem_filter, Bool.not_eq_true', List.any_eq_false, decide_eq_true_eq]
  constructor
  · rintro ⟨⟨a, o'⟩, ⟨hm, hn⟩, rfl⟩
    exact ⟨a, hm, fun d hd => by simpa using hn d hd⟩
  · rintro ⟨a, hm, hn⟩
    exact ⟨(a, o), ⟨hm, fun d hd => by simpa using hn d hd⟩, rfl⟩

/-- The garbage-collection loop issues update/delete requests for its targets and for
nothing else (whatever the continuation does afterwards is not counted here). -/
theorem gcFn_requests (lrv : Nat) (os : List CObj) (k : P) (Q : Req → Prop)
    (hQ : ∀ o ∈ os, Q (.gcUpdate o.kind o.name) ∧ Q (.delete o.kind o.name))
    (hs : Q (.statusUpdate (some lrv))) (hk : Issues Q k) : Issues Q (gcFn lrv os k) := by
  have herr : Issues Q (onError lrv) := by
    unfold onError onErrorO
    refine Issues.call _ _ hs ?_
    intro x; cases x <;> exact Issues.ret _
  induction os with
  | nil => simpa [gcFn] using hk
  | cons o os ih =>
    simp only [gcFn, wcall]
    refine Issues.call _ _ (hQ o (List.mem_cons_self ..)).1 ?_
    intro x
    have inner : Issues Q (Prog.call (Req.delete o.kind o.name) fun
        | Resp.err => onError lrv | Resp.conflict => onConflict | _ => gcFn lrv os k) := by
      refine Issues.call _ _ (hQ o (List.mem_cons_self ..)).2 ?_
      intro y
      have := ih (fun o' ho' => hQ o' (List.mem_cons_of_mem _ ho'))
      cases y <;> first | exact herr | exact Issues.ret _ | exact this
    cases x <;> first | exact herr | exact Issues.ret _ | exact inner

/-! ### non-vacuity -/
example : ∃ st fatal, Xp.C04.runPipeline [] [] [⟨"s0", fun _ => none, "", []⟩] 0 Xp.C04.initState = .failed st fatal :=
  ⟨_, _, rfl⟩

end Xp.C03

import Xp.Model.C10World
import Xp.Proofs.C10Compose
/-
Helper lemmas for C10: the apply loop of PTComposer.Compose in a world that interferes, and
patch-set inlining.
-/
namespace Xp.C10

/-! ## patch sets -/

theorem lookupSet_some (n : String) : ∀ (pss : List PatchSet) (qs : List Patch),
    lookupSet n pss = some qs → ∃ s ∈ pss, s.name = n ∧ s.patches = qs := by
  intro pss
  induction pss with
  | nil => intro qs h; simp [lookupSet] at h
  | cons s rest ih =>
    intro qs h
    unfold lookupSet at h
    split at h
    · rename_i ps hps
      simp only [Option.some.injEq] at h
      subst h
      obtain ⟨s', hs', h1, h2⟩ := ih ps hps
      exact ⟨s', List.mem_cons_of_mem _ hs', h1, h2⟩
    · split at h
      · rename_i hn
        simp only [Option.some.injEq] at h
        exact ⟨s, List.mem_cons_self, hn, h⟩
      · cases h

theorem lookupSet_none (n : String) : ∀ (pss : List PatchSet),
    lookupSet n pss = none ↔ ∀ s ∈ pss, s.name ≠ n := by
  intro pss
  induction pss with
  | nil => simp [lookupSet]
  | cons s rest ih =>
    unfold lookupSet
    constructor
    · intro h
      split at h
      · cases h
      · rename_i hr
        split at h
        · cases h
        · rename_i hn
          intro s' hs'
          simp only [List.mem_cons] at hs'
          rcases hs' with hs' | hs'
          · subst hs'; exact hn
          · exact ih.mp hr s' hs'
    · intro h
      have hr : lookupSet n rest = none := ih.mpr fun s' hs' => h s' (List.mem_cons_of_mem _ hs')
      rw [hr]
      have hn : s.name ≠ n := h s List.mem_cons_self
      simp [hn]

theorem inlinePatches_plain (pss : List PatchSet) : ∀ (ps : List Patch),
    (∀ p ∈ ps, p.type ≠ "PatchSet") → inlinePatches pss ps = some ps := by
  intro ps
  induction ps with
  | nil => intro _; rfl
  | cons p ps ih =>
    intro h
    unfold inlinePatches
    have hp : p.type ≠ "PatchSet" := h p List.mem_cons_self
    rw [if_neg hp, ih fun q hq => h q (List.mem_cons_of_mem _ hq)]
    rfl

theorem inlinePatches_undefined (pss : List PatchSet) (p : Patch) (n : String) (post : List Patch)
    (ht : p.type = "PatchSet") (hn : p.setName = some n) (hund : ∀ s ∈ pss, s.name ≠ n) :
    ∀ (pre : List Patch), inlinePatches pss (pre ++ p :: post) = none := by
  have hl : lookupSet n pss = none := (lookupSet_none n pss).mpr hund
  intro pre
  induction pre with
  | nil =>
    simp only [List.nil_append]
    unfold inlinePatches
    rw [if_pos ht, hn]
    simp [hl]
  | cons q pre ih =>
    simp only [List.cons_append]
    unfold inlinePatches
    rw [ih]
    split
    · split
      · rfl
      · split <;> rfl
    · rfl

theorem inlinePatches_unnamed (pss : List PatchSet) (p : Patch) (post : List Patch)
    (ht : p.type = "PatchSet") (hn : p.setName = none) :
    ∀ (pre : List Patch), inlinePatches pss (pre ++ p :: post) = none := by
  intro pre
  induction pre with
  | nil =>
    simp only [List.nil_append]
    unfold inlinePatches
    rw [if_pos ht, hn]
  | cons q pre ih =>
    simp only [List.cons_append]
    unfold inlinePatches
    rw [ih]
    split
    · split
      · rfl
      · split <;> rfl
    · rfl

/-- everything the inlining yields is one of the template's own patches, or a patch of a patch set
whose name is EXACTLY the one a PatchSet patch of the template gives -/
theorem inlinePatches_mem (pss : List PatchSet) : ∀ (ps qs : List Patch), inlinePatches pss ps = some qs →
    ∀ q ∈ qs, (q ∈ ps ∧ q.type ≠ "PatchSet") ∨
      ∃ s ∈ pss, q ∈ s.patches ∧ ∃ p ∈ ps, p.type = "PatchSet" ∧ p.setName = some s.name := by
  intro ps
  induction ps with
  | nil => intro qs h q hq; simp only [inlinePatches, Option.some.injEq] at h; subst h; cases hq
  | cons p ps ih =>
    intro qs h q hq
    unfold inlinePatches at h
    split at h
    · rename_i ht
      split at h
      · cases h
      · rename_i n hn
        split at h
        · cases h
        · rename_i ss hl
          cases hr : inlinePatches pss ps with
          | none => rw [hr] at h; cases h
          | some rs =>
            rw [hr] at h
            simp only [Option.map_some, Option.some.injEq] at h
            subst h
            simp only [List.mem_append] at hq
            rcases hq with hq | hq
            · obtain ⟨s, hs, h1, h2⟩ := lookupSet_some n pss ss hl
              subst h2
              exact .inr ⟨s, hs, hq, p, List.mem_cons_self, ht, by rw [hn, h1]⟩
            · rcases ih rs hr q hq with ⟨h1, h2⟩ | ⟨s, hs, h1, p', hp', h2, h3⟩
              · exact .inl ⟨List.mem_cons_of_mem _ h1, h2⟩
              · exact .inr ⟨s, hs, h1, p', List.mem_cons_of_mem _ hp', h2, h3⟩
    · rename_i ht
      cases hr : inlinePatches pss ps with
      | none => rw [hr] at h; cases h
      | some rs =>
        rw [hr] at h
        simp only [Option.map_some, Option.some.injEq] at h
        subst h
        simp only [List.mem_cons] at hq
        rcases hq with hq | hq
        · subst hq; exact .inl ⟨List.mem_cons_self, ht⟩
        · rcases ih rs hr q hq with ⟨h1, h2⟩ | ⟨s, hs, h1, p', hp', h2, h3⟩
          · exact .inl ⟨List.mem_cons_of_mem _ h1, h2⟩
          · exact .inr ⟨s, hs, h1, p', List.mem_cons_of_mem _ hp', h2, h3⟩

theorem inlineEach_get (pss : List PatchSet) : ∀ (tpls r : List (List Patch)), inlineEach pss tpls = some r →
    r.length = tpls.length ∧ ∀ i (h1 : i < tpls.length) (h2 : i < r.length), inlinePatches pss tpls[i] = some r[i] := by
  intro tpls
  induction tpls with
  | nil => intro r h; simp only [inlineEach, Option.some.injEq] at h; subst h; exact ⟨rfl, fun i h => by cases h⟩
  | cons ps rest ih =>
    intro r h
    unfold inlineEach at h
    split at h
    · cases h
    · rename_i q hq
      cases hr : inlineEach pss rest with
      | none => rw [hr] at h; cases h
      | some rs =>
        rw [hr] at h
        simp only [Option.map_some, Option.some.injEq] at h
        subst h
        obtain ⟨hl, hg⟩ := ih rs hr
        refine ⟨by simp [hl], ?_⟩
        intro i h1 h2
        cases i with
        | zero => simpa using hq
        | succ j => simpa using hg j (by simpa using h1) (by simpa using h2)

/-! ## one Apply -/

/-- what the API server holds after accepting the write -/
def storedW (e : Env) (body : V) : V :=
  match e.got with
  | .notFound => body
  | .found _ => (match e.live with | some l => mergePatchV l body | none => .null)
  | .err _ => .null

theorem applyW_write (uid : String) (i : Nat) (t : Tpl) (e : Env) (cd : V) (w : Write)
    (h : (applyW uid i t e cd).write = some w) : w.idx = some i := by
  unfold applyW at h
  split at h
  · cases h
  · simp only [Option.some.injEq] at h; subst h; rfl
  · split at h
    · cases h
    · split at h
      · cases h
      · simp only [Option.some.injEq] at h; subst h; rfl

theorem applyW_sent (uid : String) (i : Nat) (t : Tpl) (e : Env) (cd : V) (s : Sent)
    (h : (applyW uid i t e cd).sent = some s) :
    s.idx = i ∧ bodyW t cd e.got = some s.body ∧ s.stored = storedW e s.body := by
  unfold applyW at h
  split at h
  · cases h
  · rename_i hg
    simp only [Option.some.injEq] at h
    subst h
    simp [bodyW, storedW, hg]
  · rename_i cur hg
    split at h
    · cases h
    · split at h
      · cases h
      · rename_i d hd
        simp only [Option.some.injEq] at h
        subst h
        refine ⟨rfl, by simp [bodyW, hg, hd], ?_⟩
        simp only [storedW, hg]
        cases e.live <;> rfl

/-- a write and something sent go together -/
theorem applyW_write_iff_sent (uid : String) (i : Nat) (t : Tpl) (e : Env) (cd : V) :
    (applyW uid i t e cd).write.isSome = (applyW uid i t e cd).sent.isSome := by
  unfold applyW
  split
  · rfl
  · rfl
  · split
    · rfl
    · split <;> rfl

/-- nothing is written unless the Get answered (an object or NotFound) -/
theorem applyW_err_no_write (uid : String) (i : Nat) (t : Tpl) (e : Env) (cd : V) (c : String)
    (h : e.got = .err c) : (applyW uid i t e cd).write = none ∧ (applyW uid i t e cd).outcome = some c := by
  unfold applyW
  rw [h]
  exact ⟨rfl, rfl⟩

/-- an accepted or a write-rejected Apply did address a write to the resource -/
theorem applyW_write_of_got (uid : String) (i : Nat) (t : Tpl) (e : Env) (cd : V)
    (hg : ∀ c, e.got ≠ .err c) (ho : (applyW uid i t e cd).outcome = none ∨ (applyW uid i t e cd).outcome = some "invalid") :
    ∃ w, (applyW uid i t e cd).write = some w := by
  unfold applyW at ho ⊢
  split
  · rename_i c hc
    exact absurd hc (hg c)
  · exact ⟨_, rfl⟩
  · rename_i cur hc
    rw [hc] at ho
    simp only at ho
    split
    · rename_i hnc
      rw [if_pos hnc] at ho
      rcases ho with ho | ho <;> simp at ho
    · rename_i hnc
      rw [if_neg hnc] at ho
      split
      · rename_i e' he
        rw [he] at ho
        rcases ho with ho | ho <;> simp at ho
      · exact ⟨_, rfl⟩

/-! ## the apply loop -/

/-- the outcome of template j's Apply in the loop over `l` started at index `i0` -/
def outcomeAt (uid : String) (env : Nat → Env) (i0 : Nat) (l : List (Tpl × Rendered)) (j : Nat) (h : j < l.length) : Option String :=
  (applyW uid (i0 + j) (l[j]).1 (env (i0 + j)) (l[j]).2.cd).outcome

theorem applyLoopW_writes (uid : String) (env : Nat → Env) (l : List (Tpl × Rendered)) :
    ∀ (i0 : Nat) (w : Write), w ∈ (applyLoopW uid env i0 l).writes →
    ∃ j, ∃ h : j < l.length, w.idx = some (i0 + j) ∧ (l[j]).2.rendered = true ∧
      (applyW uid (i0 + j) (l[j]).1 (env (i0 + j)) (l[j]).2.cd).write = some w := by
  induction l with
  | nil => intro i0 w h; simp [applyLoopW] at h
  | cons x xs ih =>
    obtain ⟨t, r⟩ := x
    intro i0 w hw
    have later : ∀ w, w ∈ (applyLoopW uid env (i0 + 1) xs).writes →
        ∃ j, ∃ h : j < ((t, r) :: xs).length, w.idx = some (i0 + j) ∧ (((t, r) :: xs)[j]).2.rendered = true ∧
          (applyW uid (i0 + j) (((t, r) :: xs)[j]).1 (env (i0 + j)) (((t, r) :: xs)[j]).2.cd).write = some w := by
      intro w hw
      obtain ⟨j, hj, h1, h2, h3⟩ := ih (i0 + 1) w hw
      refine ⟨j + 1, by simp; omega, by rw [h1]; congr 1; omega, by simpa using h2, ?_⟩
      have e : i0 + (j + 1) = i0 + 1 + j := by omega
      simp only [List.getElem_cons_succ, e]
      exact h3
    unfold applyLoopW at hw
    split at hw
    · exact later w hw
    · rename_i hr
      have hrend : r.rendered = true := by simpa using hr
      have here : ∀ w, w ∈ (applyW uid i0 t (env i0) r.cd).write.toList →
          ∃ j, ∃ h : j < ((t, r) :: xs).length, w.idx = some (i0 + j) ∧ (((t, r) :: xs)[j]).2.rendered = true ∧
            (applyW uid (i0 + j) (((t, r) :: xs)[j]).1 (env (i0 + j)) (((t, r) :: xs)[j]).2.cd).write = some w := by
        intro w hw
        have hw' : (applyW uid i0 t (env i0) r.cd).write = some w := by
          cases hx : (applyW uid i0 t (env i0) r.cd).write with
          | none => rw [hx] at hw; cases hw
          | some y => rw [hx] at hw; simp at hw; rw [hw]
        exact ⟨0, by simp, by simpa using applyW_write uid i0 t (env i0) r.cd w hw', by simpa using hrend, by simpa using hw'⟩
      dsimp only at hw
      split at hw
      · simp only [List.mem_append] at hw
        rcases hw with hw | hw
        · exact here w hw
        · exact later w hw
      · split at hw
        · simp only [List.mem_append] at hw
          rcases hw with hw | hw
          · exact here w hw
          · exact later w hw
        · exact here w hw

theorem applyLoopW_sent (uid : String) (env : Nat → Env) (l : List (Tpl × Rendered)) :
    ∀ (i0 : Nat) (s : Sent), s ∈ (applyLoopW uid env i0 l).sent →
    ∃ j, ∃ h : j < l.length, s.idx = i0 + j ∧ (l[j]).2.rendered = true ∧
      bodyW (l[j]).1 (l[j]).2.cd (env (i0 + j)).got = some s.body ∧ s.stored = storedW (env (i0 + j)) s.body := by
  induction l with
  | nil => intro i0 s h; simp [applyLoopW] at h
  | cons x xs ih =>
    obtain ⟨t, r⟩ := x
    intro i0 s hs
    have later : ∀ s, s ∈ (applyLoopW uid env (i0 + 1) xs).sent →
        ∃ j, ∃ h : j < ((t, r) :: xs).length, s.idx = i0 + j ∧ (((t, r) :: xs)[j]).2.rendered = true ∧
          bodyW (((t, r) :: xs)[j]).1 (((t, r) :: xs)[j]).2.cd (env (i0 + j)).got = some s.body ∧
          s.stored = storedW (env (i0 + j)) s.body := by
      intro s hs
      obtain ⟨j, hj, h1, h2, h3, h4⟩ := ih (i0 + 1) s hs
      have e : i0 + (j + 1) = i0 + 1 + j := by omega
      refine ⟨j + 1, by simp; omega, by rw [h1]; omega, by simpa using h2, ?_, ?_⟩
      · simp only [List.getElem_cons_succ, e]; exact h3
      · rw [e]; exact h4
    unfold applyLoopW at hs
    split at hs
    · exact later s hs
    · rename_i hr
      have hrend : r.rendered = true := by simpa using hr
      have here : ∀ s, s ∈ (applyW uid i0 t (env i0) r.cd).sent.toList →
          ∃ j, ∃ h : j < ((t, r) :: xs).length, s.idx = i0 + j ∧ (((t, r) :: xs)[j]).2.rendered = true ∧
            bodyW (((t, r) :: xs)[j]).1 (((t, r) :: xs)[j]).2.cd (env (i0 + j)).got = some s.body ∧
            s.stored = storedW (env (i0 + j)) s.body := by
        intro s hs
        have hs' : (applyW uid i0 t (env i0) r.cd).sent = some s := by
          cases hx : (applyW uid i0 t (env i0) r.cd).sent with
          | none => rw [hx] at hs; cases hs
          | some y => rw [hx] at hs; simp at hs; rw [hs]
        obtain ⟨h1, h2, h3⟩ := applyW_sent uid i0 t (env i0) r.cd s hs'
        exact ⟨0, by simp, by simpa using h1, by simpa using hrend, by simpa using h2, by simpa using h3⟩
      dsimp only at hs
      split at hs
      · simp only [List.mem_append] at hs
        rcases hs with hs | hs
        · exact here s hs
        · exact later s hs
      · split at hs
        · simp only [List.mem_append] at hs
          rcases hs with hs | hs
          · exact here s hs
          · exact later s hs
        · exact here s hs

/-- if the loop does not abort, the Apply of every rendered template was accepted or answered Invalid -/
theorem applyLoopW_outcomes (uid : String) (env : Nat → Env) (l : List (Tpl × Rendered)) :
    ∀ (i0 : Nat), (applyLoopW uid env i0 l).aborted = false →
    ∀ j (h : j < l.length), (l[j]).2.rendered = true →
      outcomeAt uid env i0 l j h = none ∨ ∃ c, outcomeAt uid env i0 l j h = some c ∧ tolerated c = true := by
  induction l with
  | nil => intro i0 _ j h; cases h
  | cons x xs ih =>
    obtain ⟨t, r⟩ := x
    intro i0 hab j hj hr
    have later : (applyLoopW uid env (i0 + 1) xs).aborted = false → ∀ k (hk : k + 1 < ((t, r) :: xs).length),
        (((t, r) :: xs)[k + 1]).2.rendered = true →
        outcomeAt uid env i0 ((t, r) :: xs) (k + 1) hk = none ∨
          ∃ c, outcomeAt uid env i0 ((t, r) :: xs) (k + 1) hk = some c ∧ tolerated c = true := by
      intro hab' k hk hr'
      have e : i0 + (k + 1) = i0 + 1 + k := by omega
      have := ih (i0 + 1) hab' k (by simpa using hk) (by simpa using hr')
      unfold outcomeAt at this ⊢
      simp only [List.getElem_cons_succ, e]
      exact this
    unfold applyLoopW at hab
    split at hab
    · rename_i hnr
      cases j with
      | zero => simp at hr; simp [hr] at hnr
      | succ k => exact later hab k hj hr
    · dsimp only at hab
      split at hab
      · rename_i ho
        cases j with
        | zero => left; unfold outcomeAt; simpa using ho
        | succ k => exact later hab k hj hr
      · rename_i c ho
        split at hab
        · rename_i htol
          cases j with
          | zero => right; exact ⟨c, by unfold outcomeAt; simpa using ho, htol⟩
          | succ k => exact later hab k hj hr
        · cases hab

/-- a write addressed to template k's resource means that the Apply of every rendered template
before it was accepted or answered Invalid: an error of any other class ends the loop -/
theorem applyLoopW_prefix (uid : String) (env : Nat → Env) (l : List (Tpl × Rendered)) :
    ∀ (i0 : Nat) (w : Write) (k : Nat), w ∈ (applyLoopW uid env i0 l).writes → w.idx = some (i0 + k) →
    ∀ j (h : j < l.length), j < k → (l[j]).2.rendered = true →
      outcomeAt uid env i0 l j h = none ∨ ∃ c, outcomeAt uid env i0 l j h = some c ∧ tolerated c = true := by
  induction l with
  | nil => intro i0 w k _ _ j h; cases h
  | cons x xs ih =>
    obtain ⟨t, r⟩ := x
    intro i0 w k hw hk j hj hjk hr
    have later : w ∈ (applyLoopW uid env (i0 + 1) xs).writes → ∀ m (hm : m + 1 < ((t, r) :: xs).length), m + 1 < k →
        (((t, r) :: xs)[m + 1]).2.rendered = true →
        outcomeAt uid env i0 ((t, r) :: xs) (m + 1) hm = none ∨
          ∃ c, outcomeAt uid env i0 ((t, r) :: xs) (m + 1) hm = some c ∧ tolerated c = true := by
      intro hw' m hm hmk hr'
      have e : i0 + (m + 1) = i0 + 1 + m := by omega
      have := ih (i0 + 1) w (k - 1) hw' (by rw [hk]; congr 1; omega) m (by simpa using hm) (by omega) (by simpa using hr')
      unfold outcomeAt at this ⊢
      simp only [List.getElem_cons_succ, e]
      exact this
    -- a write of the head has index i0, so k = 0 and there is no j < k
    have headIdx : w ∈ (applyW uid i0 t (env i0) r.cd).write.toList → False := by
      intro hw'
      have hw'' : (applyW uid i0 t (env i0) r.cd).write = some w := by
        cases hx : (applyW uid i0 t (env i0) r.cd).write with
        | none => rw [hx] at hw'; cases hw'
        | some y => rw [hx] at hw'; simp at hw'; rw [hw']
      have := applyW_write uid i0 t (env i0) r.cd w hw''
      rw [this] at hk
      simp only [Option.some.injEq] at hk
      omega
    unfold applyLoopW at hw
    split at hw
    · rename_i hnr
      cases j with
      | zero => simp at hr; simp [hr] at hnr
      | succ m => exact later hw m hj hjk hr
    · dsimp only at hw
      split at hw
      · rename_i ho
        simp only [List.mem_append] at hw
        rcases hw with hw | hw
        · exact absurd hw headIdx
        · cases j with
          | zero => left; unfold outcomeAt; simpa using ho
          | succ m => exact later hw m hj hjk hr
      · rename_i c ho
        split at hw
        · rename_i htol
          simp only [List.mem_append] at hw
          rcases hw with hw | hw
          · exact absurd hw headIdx
          · cases j with
            | zero => right; exact ⟨c, by unfold outcomeAt; simpa using ho, htol⟩
            | succ m => exact later hw m hj hjk hr
        · exact absurd hw headIdx

/-- if the loop does not abort, the write of every rendered template's Apply is among its writes -/
theorem applyLoopW_has_write (uid : String) (env : Nat → Env) (l : List (Tpl × Rendered)) :
    ∀ (i0 : Nat), (applyLoopW uid env i0 l).aborted = false →
    ∀ j (h : j < l.length), (l[j]).2.rendered = true → ∀ wr,
      (applyW uid (i0 + j) (l[j]).1 (env (i0 + j)) (l[j]).2.cd).write = some wr →
      wr ∈ (applyLoopW uid env i0 l).writes := by
  induction l with
  | nil => intro i0 _ j h; cases h
  | cons x xs ih =>
    obtain ⟨t, r⟩ := x
    intro i0 hab j hj hr wr hwr
    have later : (applyLoopW uid env (i0 + 1) xs).aborted = false → ∀ k (hk : k + 1 < ((t, r) :: xs).length),
        (((t, r) :: xs)[k + 1]).2.rendered = true →
        (applyW uid (i0 + (k + 1)) (((t, r) :: xs)[k + 1]).1 (env (i0 + (k + 1))) (((t, r) :: xs)[k + 1]).2.cd).write = some wr →
        wr ∈ (applyLoopW uid env (i0 + 1) xs).writes := by
      intro hab' k hk hr' hwr'
      have e : i0 + (k + 1) = i0 + 1 + k := by omega
      simp only [List.getElem_cons_succ, e] at hwr'
      exact ih (i0 + 1) hab' k (by simpa using hk) (by simpa using hr') wr hwr'
    unfold applyLoopW at hab ⊢
    split
    · rename_i hnr
      rw [if_pos hnr] at hab
      cases j with
      | zero => simp at hr; simp [hr] at hnr
      | succ k => exact later hab k hj hr hwr
    · rename_i hnr
      rw [if_neg hnr] at hab
      dsimp only at hab ⊢
      split
      · rename_i ho
        rw [ho] at hab
        cases j with
        | zero =>
          simp only [Nat.add_zero, List.getElem_cons_zero] at hwr
          simp [hwr]
        | succ k => exact List.mem_append_right _ (later hab k hj hr hwr)
      · rename_i c ho
        rw [ho] at hab
        simp only at hab
        split
        · rename_i htol
          rw [if_pos htol] at hab
          cases j with
          | zero =>
            simp only [Nat.add_zero, List.getElem_cons_zero] at hwr
            simp [hwr]
          | succ k => exact List.mem_append_right _ (later hab k hj hr hwr)
        · rename_i htol
          rw [if_neg htol] at hab
          cases hab

/-- no composed resource is written twice in one reconcile -/
theorem applyLoopW_nodup (uid : String) (env : Nat → Env) (l : List (Tpl × Rendered)) :
    ∀ (i0 : Nat), ((applyLoopW uid env i0 l).writes.map (·.idx)).Nodup := by
  induction l with
  | nil => intro i0; simp [applyLoopW]
  | cons x xs ih =>
    obtain ⟨t, r⟩ := x
    intro i0
    have tailNot : ∀ w ∈ (applyLoopW uid env (i0 + 1) xs).writes, w.idx ≠ some i0 := by
      intro w hw hidx
      obtain ⟨j, _, h1, _⟩ := applyLoopW_writes uid env xs (i0 + 1) w hw
      rw [h1] at hidx
      simp only [Option.some.injEq] at hidx
      omega
    have combine : ((applyW uid i0 t (env i0) r.cd).write.toList ++ (applyLoopW uid env (i0 + 1) xs).writes).map (·.idx) |>.Nodup := by
      cases hx : (applyW uid i0 t (env i0) r.cd).write with
      | none => simpa using ih (i0 + 1)
      | some y =>
        have hy := applyW_write uid i0 t (env i0) r.cd y hx
        simp only [Option.toList_some, List.cons_append, List.nil_append, List.map_cons, List.nodup_cons, List.mem_map, not_exists, not_and]
        refine ⟨?_, ih (i0 + 1)⟩
        intro w hw hidx
        exact tailNot w hw (by rw [hidx, hy])
    have single : ((applyW uid i0 t (env i0) r.cd).write.toList.map (·.idx)).Nodup := by
      cases (applyW uid i0 t (env i0) r.cd).write <;> simp
    unfold applyLoopW
    split
    · exact ih (i0 + 1)
    · dsimp only
      split
      · exact combine
      · split
        · exact combine
        · exact single

/-- `applied` is set exactly for the rendered templates whose Apply was accepted -/
theorem applyLoopW_applied (uid : String) (env : Nat → Env) (l : List (Tpl × Rendered)) :
    ∀ (i0 : Nat) (j : Nat) (h : j < l.length), (applyLoopW uid env i0 l).applied.getD j false = true →
      (l[j]).2.rendered = true ∧ outcomeAt uid env i0 l j h = none := by
  induction l with
  | nil => intro i0 j h; cases h
  | cons x xs ih =>
    obtain ⟨t, r⟩ := x
    intro i0 j hj ha
    have later : ∀ m (hm : m + 1 < ((t, r) :: xs).length), (applyLoopW uid env (i0 + 1) xs).applied.getD m false = true →
        (((t, r) :: xs)[m + 1]).2.rendered = true ∧ outcomeAt uid env i0 ((t, r) :: xs) (m + 1) hm = none := by
      intro m hm ha'
      have e : i0 + (m + 1) = i0 + 1 + m := by omega
      have := ih (i0 + 1) m (by simpa using hm) ha'
      unfold outcomeAt at this ⊢
      simp only [List.getElem_cons_succ, e]
      exact this
    unfold applyLoopW at ha
    split at ha
    · cases j with
      | zero => simp at ha
      | succ m => exact later m hj (by simpa using ha)
    · rename_i hr
      have hrend : r.rendered = true := by simpa using hr
      dsimp only at ha
      split at ha
      · rename_i ho
        cases j with
        | zero => exact ⟨by simpa using hrend, by unfold outcomeAt; simpa using ho⟩
        | succ m => exact later m hj (by simpa using ha)
      · split at ha
        · cases j with
          | zero => simp at ha
          | succ m => exact later m hj (by simpa using ha)
        · cases j with
          | zero => simp at ha
          | succ m => simp at ha

/-! ## the quiet world is the single-call model -/

theorem applyLoopW_quiet (uid : String) (env : Nat → Env) (l : List (Tpl × Rendered)) :
    ∀ (i0 : Nat), (∀ j (h : j < l.length), env (i0 + j) = Env.quiet (l[j]).1) →
    (∀ j (h : j < l.length), (l[j]).1.refName ≠ "" → notControllable uid ((l[j]).1.cur.getD .null) = false) →
    (applyLoopW uid env i0 l).writes = (applyLoop i0 l).1 ∧
    (applyLoopW uid env i0 l).sent = (applyLoop i0 l).2.1 ∧
    (applyLoopW uid env i0 l).applied = (applyLoop i0 l).2.2.1 ∧
    (applyLoopW uid env i0 l).aborted = (applyLoop i0 l).2.2.2 := by
  induction l with
  | nil => intro i0 _ _; simp [applyLoopW, applyLoop]
  | cons x xs ih =>
    obtain ⟨t, r⟩ := x
    intro i0 henv hctl
    have henv0 : env i0 = Env.quiet t := by
      have := henv 0 (by simp)
      simp only [List.getElem_cons_zero, Nat.add_zero] at this
      exact this
    have hctl0 : t.refName ≠ "" → notControllable uid (t.cur.getD .null) = false := by
      have := hctl 0 (by simp)
      simp only [List.getElem_cons_zero] at this
      exact this
    obtain ⟨ih1, ih2, ih3, ih4⟩ := ih (i0 + 1)
      (fun j h => by have := henv (j + 1) (by simpa using h); simpa [Nat.add_assoc, Nat.add_comm 1 j] using this)
      (fun j h => by have := hctl (j + 1) (by simpa using h); simpa using this)
    unfold applyLoopW applyLoop
    by_cases hr : r.rendered = true
    · simp only [hr, Bool.not_true, Bool.false_eq_true, if_false]
      rw [henv0]
      by_cases hn : t.refName = ""
      · -- a new resource: created as rendered
        have hb : (t.refName == "") = true := by simp [hn]
        simp only [sentFor, hb, if_true]
        cases ho : t.applyOutcome <;>
          simp [applyW, Env.quiet, hb, ho, natural, tolerated, ih1, ih2, ih3, ih4]
      · have hb : (t.refName == "") = false := by simp [hn]
        have hc := hctl0 hn
        simp only [sentFor, hb, Bool.false_eq_true, if_false]
        cases hopt : applyOpts (t.cur.getD .null) r.cd t.patches with
        | error e =>
          simp [applyW, Env.quiet, hb, hc, hopt, tolerated]
        | ok d =>
          cases ho : t.applyOutcome <;>
            simp [applyW, Env.quiet, hb, hc, hopt, ho, natural, tolerated, ih1, ih2, ih3, ih4]
    · have hr' : r.rendered = false := by simpa using hr
      simp [hr', ih1, ih2, ih3, ih4]

end Xp.C10

namespace Xp.C10

/-! ## Compose in the world -/

/-- every write of a reconcile is one of the two writes of the composite itself or a write of the apply loop -/
theorem composeW_writes (xr : V) (tpls : List Tpl) (w : World) (rs : List Rendered) (hr : renderAll xr tpls = some rs)
    (wr : Write) (hw : wr ∈ (composeW xr tpls w).writes) :
    wr.idx = none ∨ wr ∈ (applyLoopW (getMetaStr xr "uid") w.env 0 (tpls.zip rs)).writes := by
  unfold composeW at hw
  rw [hr] at hw
  dsimp only at hw
  split at hw
  · simp only [List.mem_singleton] at hw
    subst hw; exact .inl rfl
  · split at hw
    · simp only [List.mem_cons] at hw
      rcases hw with hw | hw
      · subst hw; exact .inl rfl
      · exact .inr hw
    · split at hw
      · simp only [List.mem_cons] at hw
        rcases hw with hw | hw
        · subst hw; exact .inl rfl
        · exact .inr hw
      · split at hw
        all_goals
          simp only [List.mem_cons, List.mem_append, List.not_mem_nil, or_false] at hw
          rcases hw with (hw | hw) | hw
          · subst hw; exact .inl rfl
          · exact .inr hw
          · subst hw; exact .inl rfl

theorem composeW_sent (xr : V) (tpls : List Tpl) (w : World) (rs : List Rendered) (hr : renderAll xr tpls = some rs)
    (s : Sent) (hs : s ∈ (composeW xr tpls w).sent) :
    s ∈ (applyLoopW (getMetaStr xr "uid") w.env 0 (tpls.zip rs)).sent := by
  unfold composeW at hs
  rw [hr] at hs
  dsimp only at hs
  split at hs
  · simp at hs
  · split at hs
    · exact hs
    · split at hs
      · exact hs
      · split at hs <;> exact hs

/-- a reconcile that reports no error did not abort its apply loop, and wrote everything the loop wrote -/
theorem composeW_ok (xr : V) (tpls : List Tpl) (w : World) (rs : List Rendered) (hr : renderAll xr tpls = some rs)
    (hok : (composeW xr tpls w).err = "") :
    (applyLoopW (getMetaStr xr "uid") w.env 0 (tpls.zip rs)).aborted = false ∧
    (∀ wr ∈ (applyLoopW (getMetaStr xr "uid") w.env 0 (tpls.zip rs)).writes, wr ∈ (composeW xr tpls w).writes) ∧
    (composeW xr tpls w).synced = (applyLoopW (getMetaStr xr "uid") w.env 0 (tpls.zip rs)).applied := by
  unfold composeW at hok ⊢
  rw [hr] at hok ⊢
  dsimp only at hok ⊢
  split
  · rename_i h; rw [if_pos h] at hok; simp at hok
  · rename_i h; rw [if_neg h] at hok
    split
    · rename_i h2; rw [if_pos h2] at hok; simp at hok
    · rename_i h2; rw [if_neg h2] at hok
      split
      · rename_i h3; rw [if_pos h3] at hok; simp at hok
      · rename_i h3; rw [if_neg h3] at hok
        split
        · rename_i h4; rw [if_pos h4] at hok; simp at hok
        · refine ⟨by simpa using h2, ?_, rfl⟩
          intro wr hwr
          simp [hwr]

end Xp.C10

import Xp.Model.C07
/-
Helper lemmas for the C07 theorems: association lists, the key filters, mergo's
map merge, JSON merge patch and the server-side-apply approximation only ever
touch the bindings of the keys they are given.
-/
namespace Xp.C07
open Xp

/-! ### association lists -/

section AL
variable {α : Type}

@[simp] theorem alookup_nil (k : String) : alookup k ([] : AL α) = none := rfl

theorem alookup_cons (k k' : String) (v : α) (r : AL α) :
    alookup k ((k', v) :: r) = if k' = k then some v else alookup k r := rfl

theorem alookup_aset_self (k : String) (v : α) (l : AL α) : alookup k (aset k v l) = some v := by
  induction l with
  | nil => simp [aset, alookup]
  | cons x xs ih =>
    obtain ⟨k', v'⟩ := x
    unfold aset
    split
    · simp [alookup]
    · simp [alookup, *]

theorem alookup_aset_ne (k k2 : String) (v : α) (h : k2 ≠ k) (l : AL α) :
    alookup k2 (aset k v l) = alookup k2 l := by
  induction l with
  | nil => simp [aset, alookup, Ne.symm h]
  | cons x xs ih =>
    obtain ⟨k', v'⟩ := x
    unfold aset
    split
    · rename_i h'; subst h'; simp [alookup, Ne.symm h]
    · simp [alookup, ih]

theorem alookup_aset (k k2 : String) (v : α) (l : AL α) :
    alookup k2 (aset k v l) = if k2 = k then some v else alookup k2 l := by
  by_cases h : k2 = k
  · subst h; simp [alookup_aset_self]
  · simp [h, alookup_aset_ne k k2 v h]

theorem alookup_aerase_self (k : String) (l : AL α) : alookup k (aerase k l) = none := by
  induction l with
  | nil => rfl
  | cons x xs ih =>
    obtain ⟨k', v⟩ := x
    unfold aerase
    split
    · exact ih
    · simp [alookup, *]

theorem alookup_aerase_ne (k k2 : String) (h : k2 ≠ k) (l : AL α) :
    alookup k2 (aerase k l) = alookup k2 l := by
  induction l with
  | nil => rfl
  | cons x xs ih =>
    obtain ⟨k', v⟩ := x
    unfold aerase
    split
    · rename_i h'; subst h'; simp [alookup, ih, Ne.symm h]
    · simp [alookup, ih]

/-- filtering on a predicate of the key -/
theorem alookup_filter_key (p : String → Bool) (k : String) (l : AL α) :
    alookup k (l.filter fun kv => p kv.1) = if p k then alookup k l else none := by
  induction l with
  | nil => simp [alookup]
  | cons x xs ih =>
    obtain ⟨k', v⟩ := x
    simp only [List.filter]
    by_cases hk : k' = k
    · subst hk
      by_cases hp : p k' <;> simp [hp, alookup, ih]
    · by_cases hp : p k' <;> simp [hp, alookup, hk, ih]

theorem alookup_withoutKeys (ks : List String) (k : String) (l : AL α) :
    alookup k (withoutKeys l ks) = if ks.contains k then none else alookup k l := by
  unfold withoutKeys
  rw [alookup_filter_key (fun k => !ks.contains k) k l]
  by_cases h : ks.contains k <;> simp [h]

theorem alookup_addAll_none (k : String) (d s : AL α) (h : alookup k s = none) :
    alookup k (addAll d s) = alookup k d := by
  induction s generalizing d with
  | nil => rfl
  | cons x xs ih =>
    obtain ⟨k', v⟩ := x
    simp only [alookup] at h
    split at h
    · cases h
    · rename_i hk
      simp only [addAll]
      rw [ih _ h, alookup_aset_ne k' k v (Ne.symm hk)]

theorem alookup_eraseAll_not_mem (k : String) (l : AL α) (ks : List String) (h : k ∉ ks) :
    alookup k (eraseAll l ks) = alookup k l := by
  induction ks generalizing l with
  | nil => rfl
  | cons x xs ih =>
    simp only [List.mem_cons, not_or] at h
    simp only [eraseAll]
    rw [ih _ h.2, alookup_aerase_ne x k h.1]

end AL

theorem alookup_withoutReserved (k : String) (l : AL String) :
    alookup k (withoutReserved l) = if reserved k then none else alookup k l := by
  unfold withoutReserved
  rw [alookup_filter_key (fun k => !reserved k) k l]
  by_cases h : reserved k <;> simp [h]

/-! ### mergo -/

theorem mergeF_untouched (ov : Bool) (k : String) (s : AL J) :
    ∀ d : AL J, alookup k s = none → alookup k (mergeF ov d s) = alookup k d := by
  induction s with
  | nil => intro d _; simp [mergeF]
  | cons x xs ih =>
    obtain ⟨k', v⟩ := x
    intro d h
    simp only [alookup] at h
    split at h
    · cases h
    · rename_i hk
      rw [mergeF]
      split
      · rw [ih _ h, alookup_aset_ne k' k _ (Ne.symm hk)]
      · exact ih _ h

/-! ### JSON merge patch -/

theorem mpF_untouched (k : String) (p : AL J) :
    ∀ d : AL J, alookup k p = none → alookup k (mpF d p) = alookup k d := by
  induction p with
  | nil => intro d _; simp [mpF]
  | cons x xs ih =>
    obtain ⟨k', v⟩ := x
    intro d h
    simp only [alookup] at h
    split at h
    · cases h
    · rename_i hk
      cases v with
      | null => rw [mpF, ih _ h, alookup_aerase_ne k' k (Ne.symm hk)]
      | _ =>
        rw [mpF, ih _ h, alookup_aset_ne k' k _ (Ne.symm hk)]
        intro hn; cases hn

/-! ### server-side apply -/

theorem ssaMergeF_untouched (k : String) (cfg : AL J) :
    ∀ d : AL J, alookup k cfg = none → alookup k (ssaMergeF d cfg) = alookup k d := by
  induction cfg with
  | nil => intro d _; simp [ssaMergeF]
  | cons x xs ih =>
    obtain ⟨k', v⟩ := x
    intro d h
    simp only [alookup] at h
    split at h
    · cases h
    · rename_i hk
      rw [ssaMergeF, ih _ h, alookup_aset_ne k' k _ (Ne.symm hk)]

theorem ssaRemoveV_other (d cfg : AL J) (k k' : String) (pv : J) (h : k ≠ k') :
    alookup k (ssaRemoveV d cfg k' pv) = alookup k d := by
  unfold ssaRemoveV
  split
  · split
    · simp only []
      split
      · exact alookup_aerase_ne k' k h d
      · exact alookup_aset_ne k' k _ h d
    · rfl
  · split
    · exact alookup_aerase_ne k' k h d
    · rfl

theorem ssaRemoveF_untouched (k : String) (cfg prev : AL J) :
    ∀ d : AL J, alookup k prev = none → alookup k (ssaRemoveF d cfg prev) = alookup k d := by
  induction prev with
  | nil => intro d _; simp [ssaRemoveF]
  | cons x xs ih =>
    obtain ⟨k', v⟩ := x
    intro d h
    simp only [alookup] at h
    split at h
    · cases h
    · rename_i hk
      rw [ssaRemoveF, ih _ h, ssaRemoveV_other d cfg k k' v (Ne.symm hk)]

/-! ### the generated tables against the partition -/

theorem claimFilter_false_eq : claimFilter false =
    ["compositeDeletePolicy", "compositionRevisionRef", "publishConnectionDetailsTo", "resourceRef", "writeConnectionSecretToRef"] := by decide
theorem claimFilter_true_eq : claimFilter true =
    ["compositeDeletePolicy", "publishConnectionDetailsTo", "resourceRef", "writeConnectionSecretToRef"] := by decide
theorem xrFilter_eq : xrFilter =
    ["claimRef", "compositionRevisionRef", "publishConnectionDetailsTo", "resourceRefs", "writeConnectionSecretToRef"] := by decide

/-- every top-level spec key either side treats specially -/
def machineryKeys : List String :=
  ["resourceRef", "compositeDeletePolicy", "claimRef", "resourceRefs", "writeConnectionSecretToRef",
   "publishConnectionDetailsTo", "compositionRef", "compositionSelector", "compositionUpdatePolicy",
   "compositionRevisionSelector", "compositionRevisionRef"]

theorem owner_user_of_not_machinery (k : String) (h : k ∉ machineryKeys) : owner k = .user := by
  simp only [machineryKeys, List.mem_cons, List.not_mem_nil, or_false, not_or] at h
  simp [owner, h]

/-- The claim-side filter built from the generated tables removes exactly the keys the
partition calls claim-only or each-side, plus the revision reference unless the XR's policy is Manual. -/
theorem claimFilter_contains (manual : Bool) (k : String) :
    (claimFilter manual).contains k =
      match owner k with
      | .claimOnly | .eachSide => true
      | .revision => !manual
      | _ => false := by
  by_cases hk : k ∈ machineryKeys
  · revert k
    cases manual <;> decide
  · rw [owner_user_of_not_machinery k hk]
    simp only [machineryKeys, List.mem_cons, List.not_mem_nil, or_false, not_or] at hk
    cases manual
    · rw [claimFilter_false_eq]; simp [hk]
    · rw [claimFilter_true_eq]; simp [hk]

/-- The XR-side filter of the client-side syncer removes exactly XR-only, each-side and revision keys. -/
theorem xrFilter_contains (k : String) :
    xrFilter.contains k =
      match owner k with
      | .xrOnly | .eachSide | .revision => true
      | _ => false := by
  by_cases hk : k ∈ machineryKeys
  · revert k; decide
  · rw [owner_user_of_not_machinery k hk]
    simp only [machineryKeys, List.mem_cons, List.not_mem_nil, or_false, not_or] at hk
    rw [xrFilter_eq]; simp [hk]

theorem statusProps_contains (k : String) : Xp.Gen.statusProps.contains k = statusMachinery k := by
  by_cases hk : k ∈ ["conditions", "connectionDetails", "claimConditionTypes"]
  · revert k; decide
  · simp only [List.mem_cons, List.not_mem_nil, or_false, not_or] at hk
    simp [Xp.Gen.statusProps, statusMachinery, hk]

/-! ### claim → XR -/

theorem alookup_specToXR (c : Cfg) (cm : KObj) (manual : Bool) (cs : AL J) (k : String) :
    alookup k (specToXR c cm manual cs) =
      if k = "claimRef" then some (claimRefJ c cm)
      else match owner k with
        | .claimOnly | .eachSide => none
        | .revision => if manual then alookup k cs else none
        | _ => alookup k cs := by
  unfold specToXR
  rw [alookup_aset, alookup_withoutKeys, claimFilter_contains]
  by_cases h : k = "claimRef"
  · simp [h]
  · simp only [h, if_false]
    cases owner k <;> cases manual <;> simp

/-! ### labels and annotations of the server-side apply body -/

theorem reserved_extName : reserved extNameKey = false := by decide
theorem claimLabelKeys_ne : Xp.Gen.labelKeyClaimName ≠ Xp.Gen.labelKeyClaimNamespace := by decide

/-- labels of the server-side apply body -/
theorem ssaPatch_labels (c : Cfg) (gen : String) (cm : KObj) (xr : Option KObj) (cs : AL J) (k : String) :
    alookup k (ssaPatch c gen cm xr cs).labels =
      if k = Xp.Gen.labelKeyClaimNamespace then some c.claimNS
      else if k = Xp.Gen.labelKeyClaimName then some cm.name
      else if reserved k then none else alookup k cm.labels := by
  simp only [ssaPatch, claimLabels, addAll]
  rw [alookup_aset, alookup_aset, alookup_withoutReserved]

theorem anns_setAnn (cur : Option (AL String)) (k v k2 : String) :
    alookup k2 ((setAnn cur k v).getD []) = if k2 = k then some v else alookup k2 (cur.getD []) := by
  cases cur with
  | none =>
    by_cases h : k2 = k
    · subst h; simp [setAnn, addAnn, alookup]
    · simp [setAnn, addAnn, alookup, h, Ne.symm h]
  | some a => simp [setAnn, addAnn, addAll, alookup_aset]

theorem alookup_nonEmptyUnreserved (a : Option (AL String)) (k : String) :
    alookup k ((nonEmptyUnreserved a).getD []) = if reserved k then none else alookup k (a.getD []) := by
  cases a with
  | none => simp [nonEmptyUnreserved]
  | some a =>
    simp only [nonEmptyUnreserved, Option.getD_some]
    rw [← alookup_withoutReserved]
    by_cases he : (withoutReserved a).isEmpty
    · have : withoutReserved a = [] := List.isEmpty_iff.mp he
      simp [this]
    · simp [he]

theorem ssaPatch_anns (c : Cfg) (gen : String) (cm : KObj) (xr : Option KObj) (cs : AL J) (k : String) :
    alookup k (ssaPatch c gen cm xr cs).anns =
      if k = extNameKey ∧ extName xr ≠ "" then some (extName xr)
      else if reserved k then none else alookup k cm.anns := by
  simp only [ssaPatch, KObj.anns]
  by_cases hen : extName xr = ""
  · simp only [hen, bne_self_eq_false, Bool.false_eq_true, if_false, ne_eq, not_true_eq_false, and_false]
    exact alookup_nonEmptyUnreserved _ k
  · have : (extName xr != "") = true := by simp [hen]
    simp only [this, if_true, anns_setAnn, alookup_nonEmptyUnreserved, ne_eq, hen, not_false_eq_true, and_true]

/-! ### XR → claim, server-side syncer -/

/-- spec of the claim the server-side syncer sends to Update -/
theorem ssaClaim_spec (c : Cfg) (name : String) (cm : KObj) (xr : Option KObj) (cs : AL J) (k : String) :
    alookup k (ssaClaim c name cm xr cs).specFields =
      if k = "resourceRef" then some (xrRefJ c name)
      else if k = "compositionRef" then
        (match alookup k cs with
         | some v => some v
         | none => alookup k (xrSpecFields xr))
      else if k = "compositionRevisionRef" then
        (if policyOf (xrSpecFields xr) = some "Automatic" then
          match alookup k (xrSpecFields xr) with
          | some r => some r
          | none => alookup k cs
         else alookup k cs)
      else alookup k cs := by
  simp only [ssaClaim, KObj.specFields, objFields]
  have hne1 : ("compositionRef" : String) ≠ "resourceRef" := by decide
  have hne2 : ("compositionRevisionRef" : String) ≠ "resourceRef" := by decide
  have hne3 : ("compositionRevisionRef" : String) ≠ "compositionRef" := by decide
  -- s1, s2
  generalize hxs : xrSpecFields xr = xs
  have hs1 : alookup "compositionRef" (aset "resourceRef" (xrRefJ c name) cs) = alookup "compositionRef" cs :=
    alookup_aset_ne _ _ _ hne1 _
  rw [hs1]
  by_cases ha : policyOf xs = some "Automatic"
  · simp only [ha, beq_self_eq_true, if_true]
    cases hx : alookup "compositionRevisionRef" xs <;> cases hr : alookup "compositionRef" xs <;>
      cases hc : alookup "compositionRef" cs <;>
      simp only [alookup_aset] <;>
      (by_cases h1 : k = "resourceRef" <;> by_cases h2 : k = "compositionRef" <;> by_cases h3 : k = "compositionRevisionRef" <;>
        simp_all)
  · have : (policyOf xs == some "Automatic") = false := by simp [ha]
    simp only [this, Bool.false_eq_true, if_false, ha]
    cases hr : alookup "compositionRef" xs <;> cases hc : alookup "compositionRef" cs <;>
      simp only [alookup_aset] <;>
      (by_cases h1 : k = "resourceRef" <;> by_cases h2 : k = "compositionRef" <;> by_cases h3 : k = "compositionRevisionRef" <;>
        simp_all)

theorem alookup_keepConditions (cst st : AL J) (k : String) :
    alookup k (keepConditions cst st) =
      if k = "conditions" then (match alookup "conditions" cst with | some v => some v | none => alookup k st)
      else alookup k st := by
  unfold keepConditions
  cases alookup "conditions" cst with
  | none => by_cases hk : k = "conditions" <;> simp [hk]
  | some v => simp only [alookup_aset]

theorem alookup_keepPublished (cst st : AL J) (k : String) :
    alookup k (keepPublished cst st) =
      if k = "connectionDetails" then (match ownPublished cst with | some v => some v | none => alookup k st)
      else alookup k st := by
  unfold keepPublished ownPublished
  cases h1 : alookup "connectionDetails" cst with
  | none => by_cases hk : k = "connectionDetails" <;> simp [hk]
  | some v =>
    cases v with
    | obj cd =>
      cases h2 : alookup "lastPublishedTime" cd with
      | none => simp only [h2]; by_cases hk : k = "connectionDetails" <;> simp [hk]
      | some t => simp only [h2, alookup_aset]
    | _ => by_cases hk : k = "connectionDetails" <;> simp [hk]

theorem alookup_ssaStatus (cst xst : AL J) (k : String) :
    alookup k (ssaStatus cst xst) =
      if k = "connectionDetails" then ownPublished cst
      else if k = "conditions" then alookup "conditions" cst
      else if statusMachinery k then none else alookup k xst := by
  have hcd : statusMachinery "connectionDetails" = true := by decide
  have hco : statusMachinery "conditions" = true := by decide
  have hne : ("connectionDetails" : String) ≠ "conditions" := by decide
  unfold ssaStatus
  rw [alookup_keepPublished, alookup_keepConditions, alookup_withoutKeys, statusProps_contains]
  by_cases h1 : k = "connectionDetails"
  · subst h1
    simp only [if_true, hne, if_false, hcd]
    cases ownPublished cst <;> rfl
  · by_cases h2 : k = "conditions"
    · subst h2
      simp only [h1, if_false, if_true, hco]
      cases alookup "conditions" cst <;> rfl
    · simp [h1, h2]

theorem applySSA_status (cur prev : Option KObj) (p : KObj) :
    (applySSA cur prev p).status = match cur with | none => none | some x => x.status := by
  cases cur <;> rfl


theorem syncSSA_cm (c : Cfg) (gen : String) (s : St) (cs : AL J) (h : s.cm.spec = some (.obj cs)) :
    (syncSSA c gen s).st.cm =
      (let p := ssaPatch c gen s.cm s.xr cs
       let cm1 := storeClaimUpdate s.cm (ssaClaim c p.name s.cm s.xr cs)
       match (applySSA s.xr s.prev p).status with
       | some (.obj xst) => storeClaimStatus cm1 { cm1 with status := some (.obj (ssaStatus cm1.statusFields xst)) }
       | _ => cm1) := by
  unfold syncSSA
  rw [h]
  simp only []
  split <;> simp_all

theorem syncSSA_xr (c : Cfg) (gen : String) (s : St) (cs : AL J) (h : s.cm.spec = some (.obj cs)) :
    (syncSSA c gen s).st.xr = some (applySSA s.xr s.prev (ssaPatch c gen s.cm s.xr cs)) := by
  unfold syncSSA
  rw [h]
  simp only []
  split <;> rfl

theorem syncSSA_prev (c : Cfg) (gen : String) (s : St) (cs : AL J) (h : s.cm.spec = some (.obj cs)) :
    (syncSSA c gen s).st.prev = some (ssaPatch c gen s.cm s.xr cs) := by
  unfold syncSSA
  rw [h]
  simp only []
  split <;> rfl


section WF
variable {α : Type}

theorem alookup_none_of_not_mem (k : String) (l : AL α) (h : k ∉ akeys l) : alookup k l = none := by
  induction l with
  | nil => rfl
  | cons x xs ih =>
    obtain ⟨k', v⟩ := x
    simp only [akeys, List.map_cons, List.mem_cons, not_or] at h
    simp only [alookup]
    rw [if_neg (Ne.symm h.1)]
    exact ih h.2

theorem alookup_addAll (k : String) (d s : AL α) (hs : NoDup s) :
    alookup k (addAll d s) = (alookup k s).or (alookup k d) := by
  induction s generalizing d with
  | nil => rfl
  | cons x xs ih =>
    obtain ⟨k', v⟩ := x
    simp only [NoDup, akeys, List.map_cons, List.nodup_cons] at hs
    simp only [addAll, alookup]
    by_cases hk : k' = k
    · subst hk
      simp only [if_true]
      rw [alookup_addAll_none k' _ xs (alookup_none_of_not_mem k' xs hs.1), alookup_aset_self]
      rfl
    · simp only [hk, if_false]
      rw [ih _ hs.2, alookup_aset_ne k' k v (Ne.symm hk)]

theorem akeys_aset_subset (k : String) (v : α) (l : AL α) (k2 : String) (h : k2 ∈ akeys (aset k v l)) :
    k2 = k ∨ k2 ∈ akeys l := by
  induction l with
  | nil => simp [aset, akeys] at h; exact Or.inl h
  | cons x xs ih =>
    obtain ⟨k', v'⟩ := x
    unfold aset at h
    split at h
    · rename_i he
      simp only [akeys, List.map_cons, List.mem_cons] at h ⊢
      rcases h with h | h
      · exact Or.inl h
      · exact Or.inr (Or.inr h)
    · simp only [akeys, List.map_cons, List.mem_cons] at h ⊢
      rcases h with h | h
      · exact Or.inr (Or.inl h)
      · rcases ih h with h | h
        · exact Or.inl h
        · exact Or.inr (Or.inr h)

theorem NoDup_aset (k : String) (v : α) (l : AL α) (h : NoDup l) : NoDup (aset k v l) := by
  induction l with
  | nil => simp [aset, NoDup, akeys]
  | cons x xs ih =>
    obtain ⟨k', v'⟩ := x
    simp only [NoDup, akeys, List.map_cons, List.nodup_cons] at h
    unfold aset
    split
    · rename_i he
      subst he
      simp only [NoDup, akeys, List.map_cons, List.nodup_cons]
      exact h
    · rename_i hne
      simp only [NoDup, akeys, List.map_cons, List.nodup_cons]
      refine ⟨?_, ih h.2⟩
      intro hm
      rcases akeys_aset_subset k v xs k' hm with e | e
      · exact hne e
      · exact h.1 e

theorem NoDup_filter (p : String × α → Bool) (l : AL α) (h : NoDup l) : NoDup (l.filter p) := by
  unfold NoDup akeys at *
  exact (List.Sublist.map _ List.filter_sublist).nodup h

end WF

/-! ### what the stored XR keeps -/

/-- Server-side apply leaves alone every top-level spec key that neither the applied
configuration nor the manager's previous configuration mentions. -/
theorem applySSA_spec_untouched (x : KObj) (prev : Option KObj) (p : KObj) (pf : AL J) (k : String)
    (hp : p.spec = some (.obj pf)) (hk : alookup k pf = none)
    (hprev : ∀ q, prev = some q → alookup k q.specFields = none) :
    alookup k (applySSA (some x) prev p).specFields = alookup k x.specFields := by
  have hprev' : alookup k (match prev with | some q => q.specFields | none => []) = none := by
    cases prev with
    | none => rfl
    | some q => exact hprev q rfl
  simp only [applySSA, KObj.specFields, hp]
  cases hx : x.spec with
  | none =>
    simp only [ssaMergeV, objFields]
    exact ssaMergeF_untouched k pf [] hk
  | some v =>
    cases v with
    | obj xs =>
      simp only [ssaMergeV, objFields]
      have hpf : objFields p.spec = pf := by rw [hp]; rfl
      rw [ssaMergeF_untouched k pf _ hk]
      simp only [KObj.specFields] at hprev' ⊢
      exact ssaRemoveF_untouched k pf _ xs hprev'
    | _ =>
      simp only [ssaMergeV, objFields]
      exact ssaMergeF_untouched k pf [] hk

theorem applySSA_status_some (x : KObj) (prev : Option KObj) (p : KObj) :
    (applySSA (some x) prev p).status = x.status := rfl

/-- A JSON merge patch leaves alone every top-level spec key the patch does not mention. -/
theorem mergePatchXR_spec_untouched (x d : KObj) (pf : AL J) (k : String)
    (hp : d.spec = some (.obj pf)) (hk : alookup k pf = none) :
    alookup k (mergePatchXR x d).specFields = alookup k x.specFields := by
  simp only [mergePatchXR, KObj.specFields, hp, mpV, objFields]
  exact mpF_untouched k pf _ hk

theorem mergePatchXR_status (x d : KObj) : (mergePatchXR x d).status = x.status := rfl


/-! ### client-side syncer -/

theorem csaMergeStatus_machinery (a b st' : Option J) (h : csaMergeStatus a b = .ok st') (k : String)
    (hk : statusMachinery k = true) : alookup k (objFields st') = alookup k (objFields a) := by
  unfold csaMergeStatus at h
  split at h
  · cases h; rfl
  · cases h; rfl
  · cases h
    simp only [objFields]
    apply mergeF_untouched
    rw [alookup_withoutKeys, statusProps_contains, hk]; rfl
  · cases h

theorem alookup_csaClaimSpec_filtered (cs xs : AL J) (k : String) (hk : owner k = .xrOnly ∨ owner k = .eachSide) :
    alookup k (csaClaimSpec cs xs) = alookup k cs := by
  have hf : xrFilter.contains k = true := by
    rw [xrFilter_contains]; rcases hk with h | h <;> rw [h]
  have hne : k ≠ "compositionRevisionRef" := by
    intro e; subst e
    have : owner "compositionRevisionRef" = .revision := by decide
    rw [this] at hk; rcases hk with h | h <;> cases h
  unfold csaClaimSpec
  simp only []
  rw [mergeF_untouched]
  · split
    · exact alookup_aset_ne _ _ _ hne _
    · rfl
  · rw [alookup_withoutKeys, hf]; rfl

theorem csaBack_ok (c : Cfg) (cm1 xrA : KObj) (s1 : St) (w : List Write) (cs1 : AL J)
    (h : cm1.spec = some (.obj cs1)) (herr : (csaBack c cm1 xrA s1 w).err = "") :
    (∀ k, statusMachinery k = true →
      alookup k (csaBack c cm1 xrA s1 w).st.cm.statusFields = alookup k cm1.statusFields) ∧
    (∀ k, owner k = .xrOnly ∨ owner k = .eachSide →
      alookup k (csaBack c cm1 xrA s1 w).st.cm.specFields = alookup k cs1) := by
  unfold csaBack at herr ⊢
  cases hm : csaMergeStatus cm1.status xrA.status with
  | error e =>
    exfalso
    simp only [hm] at herr
    subst herr
    unfold csaMergeStatus at hm
    split at hm <;> simp at hm
  | ok st' =>
    simp only [storeClaimStatus, h, storeClaimUpdate, KObj.statusFields, KObj.specFields, objFields]
    refine ⟨?_, ?_⟩
    · intro k hk
      exact csaMergeStatus_machinery _ _ _ hm k hk
    · intro k hk
      exact alookup_csaClaimSpec_filtered cs1 _ k hk


theorem syncCSA_eq (c : Cfg) (gen : String) (s : St) (cs : AL J) (h : s.cm.spec = some (.obj cs)) :
    ∃ w, syncCSA c gen s =
      csaBack c (csaBound c gen s cs) (csaApplied c gen s cs)
        { s with cm := csaBound c gen s cs, xr := some (csaApplied c gen s cs) } w := by
  unfold syncCSA
  rw [h]
  exact ⟨_, rfl⟩

theorem csaBack_xr (c : Cfg) (cm1 xrA : KObj) (s1 : St) (w : List Write) (h : s1.xr = some xrA) :
    (csaBack c cm1 xrA s1 w).st.xr = some xrA := by
  unfold csaBack
  split
  · exact h
  · simp only []
    split <;> rfl

theorem csaBound_status (c : Cfg) (gen : String) (s : St) (cs : AL J) :
    (csaBound c gen s cs).status = s.cm.status := by
  unfold csaBound
  simp only []
  split <;> rfl

theorem csaBound_spec (c : Cfg) (gen : String) (s : St) (cs : AL J) (h : s.cm.spec = some (.obj cs)) :
    ∃ cs1, (csaBound c gen s cs).spec = some (.obj cs1) ∧
      ∀ k, k ≠ "resourceRef" → alookup k cs1 = alookup k cs := by
  unfold csaBound
  simp only []
  split
  · exact ⟨cs, h, fun _ _ => rfl⟩
  · exact ⟨_, rfl, fun k hk => alookup_aset_ne _ _ _ hk _⟩


/-! ### invariants of histories -/

section
variable {α : Type}
theorem alookup_filter_none (p : String × α → Bool) (k : String) (l : AL α) (h : alookup k l = none) :
    alookup k (l.filter p) = none := by
  induction l with
  | nil => rfl
  | cons x xs ih =>
    obtain ⟨k', v⟩ := x
    simp only [alookup] at h
    split at h
    · cases h
    · rename_i hk
      simp only [List.filter]
      split
      · simp only [alookup, hk, if_false]; exact ih h
      · exact ih h

theorem alookup_aerase_none (k k' : String) (l : AL α) (h : alookup k l = none) :
    alookup k (aerase k' l) = none := by
  by_cases e : k = k'
  · subst e; exact alookup_aerase_self _ _
  · rw [alookup_aerase_ne k' k e]; exact h

theorem alookup_eraseAll_none (k : String) (l : AL α) (ks : List String) (h : alookup k l = none) :
    alookup k (eraseAll l ks) = none := by
  induction ks generalizing l with
  | nil => exact h
  | cons x xs ih => exact ih _ (alookup_aerase_none k x l h)
end

theorem dropNullSpec_valid (o : KObj) (h : ClaimValid o.specFields) : ClaimValid (dropNullSpec o).specFields := by
  unfold dropNullSpec
  split
  · rename_i fs hs
    intro k hk
    have := h k hk
    simp only [KObj.specFields, hs, objFields] at this ⊢
    exact alookup_filter_none _ k fs this
  · exact h

theorem csaClaimSpec_valid (cs xs : AL J) (h : ClaimValid cs) : ClaimValid (csaClaimSpec cs xs) := by
  intro k hk
  rw [alookup_csaClaimSpec_filtered cs xs k (Or.inl hk)]
  exact h k hk

theorem csaBack_valid (c : Cfg) (cm1 xrA : KObj) (s1 : St) (w : List Write)
    (hs1 : s1.cm = cm1) (h : ClaimValid cm1.specFields) :
    ClaimValid (csaBack c cm1 xrA s1 w).st.cm.specFields := by
  unfold csaBack
  split
  · simp only [hs1]; exact h
  · simp only [storeClaimStatus]
    split
    · rename_i cs hcs
      simp only [storeClaimUpdate, KObj.specFields, objFields]
      apply csaClaimSpec_valid
      simp only [KObj.specFields, hcs, objFields] at h
      exact h
    · exact h

theorem csaBack_prev (c : Cfg) (cm1 xrA : KObj) (s1 : St) (w : List Write) :
    (csaBack c cm1 xrA s1 w).st.prev = s1.prev := by
  unfold csaBack
  split
  · rfl
  · simp only []
    split <;> rfl


theorem NoDup_setAnn (cur : Option (AL String)) (k v : String) (h : NoDup (cur.getD [])) :
    NoDup ((setAnn cur k v).getD []) := by
  cases cur with
  | none => simp [setAnn, addAnn, NoDup, akeys]
  | some a =>
    simp only [setAnn, addAnn, addAll, Option.getD_some] at h ⊢
    exact NoDup_aset k v a h

theorem NoDup_nonEmptyUnreserved (a : Option (AL String)) (h : NoDup (a.getD [])) :
    NoDup ((nonEmptyUnreserved a).getD []) := by
  cases a with
  | none => simp [nonEmptyUnreserved, NoDup, akeys]
  | some a =>
    simp only [nonEmptyUnreserved, Option.getD_some] at h ⊢
    split
    · simp [NoDup, akeys]
    · exact NoDup_filter _ a h


/-! ### what the stored XR receives -/

/-- what server-side apply stores for a key the configuration sets (no duplicate keys) -/
theorem ssaMergeF_set (k : String) (v : J) (cfg : AL J) :
    ∀ d : AL J, NoDup cfg → alookup k cfg = some v →
      alookup k (ssaMergeF d cfg) = some (ssaMergeV (alookup k d) v) := by
  induction cfg with
  | nil => intro d _ h; simp at h
  | cons x xs ih =>
    obtain ⟨k', v'⟩ := x
    intro d hnd h
    simp only [NoDup, akeys, List.map_cons, List.nodup_cons] at hnd
    simp only [alookup] at h
    rw [ssaMergeF]
    split at h
    · rename_i hk
      cases h; subst hk
      rw [ssaMergeF_untouched k' xs _ (alookup_none_of_not_mem k' xs hnd.1), alookup_aset_self]
    · rename_i hk
      rw [ih _ hnd.2 h, alookup_aset_ne k' k _ (Ne.symm hk)]

theorem NoDup_specToXR (c : Cfg) (cm : KObj) (manual : Bool) (cs : AL J) (h : NoDup cs) :
    NoDup (specToXR c cm manual cs) := by
  unfold specToXR withoutKeys
  exact NoDup_aset _ _ _ (NoDup_filter _ cs h)

/-- a non-object value is stored as is -/
theorem ssaMergeV_atom (d : Option J) (v : J) (hv : ∀ l, v ≠ .obj l) : ssaMergeV d v = v := by
  cases v with
  | obj l => exact absurd rfl (hv l)
  | _ => rfl

/-- the stored spec after a server-side apply of an object spec -/
theorem applySSA_spec_set (cur : Option KObj) (prev : Option KObj) (p : KObj) (pf : AL J) (k : String) (v : J)
    (hp : p.spec = some (.obj pf)) (hnd : NoDup pf) (hk : alookup k pf = some v) (hv : ∀ l, v ≠ .obj l) :
    alookup k (applySSA cur prev p).specFields = some v := by
  cases cur with
  | none =>
    simp only [applySSA, KObj.specFields, hp, objFields]; exact hk
  | some x =>
    simp only [applySSA, KObj.specFields, hp]
    cases hx : x.spec with
    | none =>
      simp only [ssaMergeV, objFields]
      rw [ssaMergeF_set k v pf _ hnd hk, ssaMergeV_atom _ v hv]
    | some w =>
      cases w with
      | obj xs =>
        simp only [ssaMergeV, objFields]
        rw [ssaMergeF_set k v pf _ hnd hk, ssaMergeV_atom _ v hv]
      | _ =>
        simp only [ssaMergeV, objFields]
        rw [ssaMergeF_set k v pf _ hnd hk, ssaMergeV_atom _ v hv]


theorem getD_addAnn (cur m : Option (AL String)) (k : String) (hnd : NoDup (m.getD [])) :
    alookup k ((addAnn cur m).getD []) = (alookup k (m.getD [])).or (alookup k (cur.getD [])) := by
  cases cur with
  | none =>
    simp only [addAnn, Option.getD_none]
    cases alookup k (m.getD []) <;> simp
  | some a =>
    simp only [addAnn, Option.getD_some]
    exact alookup_addAll k a _ hnd


end Xp.C07

import Xp.Model.C15Tee
/-
Lemmas about the model of `teeReadCloser` (core Lean only).
-/
namespace Xp.C15

theorem reads_succ (s : Bool) (n : Nat) (t : Tee) :
    Tee.reads s (n + 1) t = ((t.read s).1 :: (Tee.reads s n (t.read s).2).1, (Tee.reads s n (t.read s).2).2) := rfl

/-- with a recorded error a (sticky) read returns it and changes nothing -/
theorem read_of_err (t : Tee) (e : RRes) (h : t.err = some e) : t.read true = (([], e), t) := by
  simp [Tee.read, h]

theorem reads_of_err (t : Tee) (e : RRes) (h : t.err = some e) (n : Nat) :
    (Tee.reads true n t).2 = t ∧ ∀ r ∈ (Tee.reads true n t).1, r = ([], e) := by
  induction n with
  | zero => simp [Tee.reads]
  | succ n ih =>
    rw [reads_succ, read_of_err t e h]
    refine ⟨ih.1, ?_⟩
    intro r hr
    simp only [List.mem_cons] at hr
    rcases hr with rfl | hr
    · rfl
    · exact ih.2 r hr

/-- one read from a state without recorded error: either it reports no error and records none,
or it reports an error and records exactly that one -/
theorem read_err_cases (t : Tee) (h : t.err = none) :
    ((t.read true).1.2.isErr = false ∧ (t.read true).2.err = none) ∨
    ((t.read true).1.2.isErr = true ∧ (t.read true).2.err = some (t.read true).1.2) := by
  unfold Tee.read
  simp only [h, if_true]
  cases hs : t.src with
  | nil => left; simp [RRes.isErr, h]
  | cons ev rest =>
    simp only
    split
    · right; simp [RRes.isErr]
    · cases he : ev.res.isErr
      · left; simp [he, h]
      · right; simp [he]

/-- a read hands the consumer exactly the bytes it handed the writer -/
theorem read_out (s : Bool) (t : Tee) : (t.read s).2.out = t.out ++ (t.read s).1.1 := by
  unfold Tee.read
  split
  · simp
  · split
    · simp
    · split <;> simp

theorem reads_out (s : Bool) (n : Nat) (t : Tee) :
    (Tee.reads s n t).2.out = t.out ++ seenBytes (Tee.reads s n t).1 := by
  induction n generalizing t with
  | zero => simp [Tee.reads, seenBytes]
  | succ n ih =>
    rw [reads_succ]
    simp only [seenBytes, List.flatMap_cons]
    rw [ih, read_out]
    simp [seenBytes, List.append_assoc]

/-- a read that reports no error consumed one source event (if there was one), handed on all
of its bytes, and that event did not fail -/
theorem read_clean (t : Tee) (h : t.err = none) (hc : (t.read true).1.2.isErr = false) :
    (t.read true).1.1 = srcBytes (t.src.take 1) ∧ (t.read true).2.src = t.src.drop 1 ∧
    (∀ e ∈ t.src.take 1, e.res.isErr = false) := by
  unfold Tee.read at hc ⊢
  simp only [h, if_true] at hc ⊢
  cases hs : t.src with
  | nil => simp [srcBytes, hs]
  | cons ev rest =>
    simp only [hs] at hc ⊢
    split
    · rename_i hw
      simp [hw, RRes.isErr] at hc
    · rename_i hw
      simp only [hw, if_false] at hc
      simp [srcBytes, hc]

/-- The last of `k+1` reads reports a clean EOF ⇒ the consumer was handed exactly the bytes of
the first `k+1` source events, none of which failed. -/
theorem reads_eof (k : Nat) (t : Tee) (h : t.err = none) (d : List Nat)
    (hl : (Tee.reads true (k + 1) t).1.getLast? = some (d, .eof)) :
    seenBytes (Tee.reads true (k + 1) t).1 = srcBytes (t.src.take (k + 1)) ∧
    (∀ e ∈ t.src.take (k + 1), e.res.isErr = false) := by
  induction k generalizing t with
  | zero =>
    rw [reads_succ] at hl ⊢
    simp only [Tee.reads, List.getLast?_singleton, Option.some.injEq] at hl
    have hc : (t.read true).1.2.isErr = false := by rw [hl]; rfl
    obtain ⟨h1, _, h3⟩ := read_clean t h hc
    refine ⟨?_, h3⟩
    simp [seenBytes, Tee.reads, h1]
  | succ k ih =>
    rw [reads_succ] at hl ⊢
    have hne : (Tee.reads true (k + 1) (t.read true).2).1 ≠ [] := by rw [reads_succ]; simp
    rw [List.getLast?_cons_of_ne_nil hne] at hl
    rcases read_err_cases t h with ⟨hc, he⟩ | ⟨hc, he⟩
    · obtain ⟨h1, h2, h3⟩ := read_clean t h hc
      obtain ⟨i1, i2⟩ := ih (t.read true).2 he hl
      rw [h2] at i1 i2
      constructor
      · simp only [seenBytes, List.flatMap_cons] at i1 ⊢
        rw [i1, h1]
        cases hs : t.src with
        | nil => simp [srcBytes]
        | cons ev rest => simp [srcBytes]
      · intro e hm
        cases hs : t.src with
        | nil => rw [hs] at hm; simp at hm
        | cons ev rest =>
          rw [hs] at hm h3 i2
          simp only [List.take_succ_cons, List.mem_cons] at hm
          rcases hm with rfl | hm
          · exact h3 _ (by simp)
          · exact i2 e (by simpa using hm)
    · -- the first read reported an error: every later read reports the same one, never EOF
      exfalso
      obtain ⟨_, hall⟩ := reads_of_err _ _ he (k + 1)
      have hmem := List.mem_of_getLast? hl
      have := hall _ hmem
      simp only [Prod.mk.injEq] at this
      rw [← this.2] at hc
      cases hc

end Xp.C15

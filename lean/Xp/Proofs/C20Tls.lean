import Xp.Proofs.C20Inv
/-
C20 helper lemmas, part 6: the TLS step – what a completed run establishes, that
an established state is a fixpoint, and that newly issued certificates chain to
the stored CA and carry the configured DNS names (for every fault plan).
-/
namespace Xp.C20
open Xp

variable {α β : Type}

/-! ### secret lookups after a write -/

theorem find_append_new (l : List Secret) (x : Secret) (h : l.find? (fun y => decide (y.name = x.name)) = none) :
    (l ++ [x]).find? (fun y => decide (y.name = x.name)) = some x := by
  simp [List.find?_append, h]

theorem find_append_other (l : List Secret) (x : Secret) (n : String) (h : n ≠ x.name) :
    (l ++ [x]).find? (fun y => decide (y.name = n)) = l.find? (fun y => decide (y.name = n)) := by
  have : ¬ x.name = n := fun e => h e.symm
  simp [List.find?_append, this]

theorem find_map_replace_self (l : List Secret) (new cur : Secret)
    (h : l.find? (fun y => decide (y.name = new.name)) = some cur) :
    (l.map fun x => if x.name = new.name then new else x).find? (fun y => decide (y.name = new.name)) = some new := by
  induction l with
  | nil => simp at h
  | cons x xs ih =>
    simp only [List.map_cons, List.find?_cons] at h ⊢
    by_cases hx : x.name = new.name
    · simp [hx]
    · simp only [hx, decide_false, Bool.false_eq_true, if_false] at h ⊢
      exact ih h

theorem exec_create_absent (s : Store) (x : Secret) (h : findSecret s x.name = none) :
    exec s (.createSecret x) = ({ s with secrets := s.secrets ++ [x] }, .ok) := by
  simp [exec, h]

theorem exec_update_match (s : Store) (old new : Secret) (h : findSecret s new.name = some old) :
    exec s (.updateSecret old new) =
      ({ s with secrets := s.secrets.map fun x => if x.name = new.name then new else x }, .ok) := by
  simp [exec, h]

theorem exec_getSecret (s : Store) (n : String) :
    exec s (.getSecret n) = (s, match findSecret s n with | some x => .secret x | none => .err .notFound) := rfl

/-- the write the TLS step issues after reading `old` under name `new.name` always succeeds fault-free and
stores `new` -/
theorem exec_write (s : Store) (old : Option Secret) (new : Secret) (h : findSecret s new.name = old) :
    (exec s (writeSecret old new)).2 = .ok ∧ findSecret (exec s (writeSecret old new)).1 new.name = some new ∧
    (∀ n, n ≠ new.name → findSecret (exec s (writeSecret old new)).1 n = findSecret s n) := by
  cases old with
  | none =>
    simp only [writeSecret]
    rw [exec_create_absent s new h]
    refine ⟨rfl, ?_, ?_⟩
    · exact find_append_new _ _ h
    · intro n hn; exact find_append_other _ _ _ hn
  | some o =>
    simp only [writeSecret]
    rw [exec_update_match s o new h]
    refine ⟨rfl, ?_, ?_⟩
    · exact find_map_replace_self _ _ _ h
    · intro n hn; exact find_map_replace _ _ _ hn

@[simp] theorem caSecret_name (ca : String) (old : Option Secret) (kp : Nat) (c : CertInfo) : (caSecret ca old kp c).name = ca := rfl
@[simp] theorem leafSecret_name (nm : String) (old : Option Secret) (kp : Nat) (c : CertInfo) (sg : Signer) :
    (leafSecret nm old kp c sg).name = nm := rfl

/-! ### what the TLS step establishes, and its fixpoint -/

def CAok (s : Store) (ca : String) : Prop :=
  ∃ sec sg, findSecret s ca = some sec ∧ isComplete sec = true ∧ parseSigner sec.key sec.crt = some sg

def Mat (s : Store) (n : String) : Prop := ∃ l, findSecret s n = some l ∧ hasMaterial l = true

def optMat (s : Store) (ref : Option TlsRef) : Prop := ∀ r, ref = some r → Mat s r.name

def TlsDone (ca : String) (sv cl : Option TlsRef) (s : Store) : Prop :=
  (sv = none ∧ cl = none) ∨ (CAok s ca ∧ optMat s sv ∧ optMat s cl)

theorem CAok_mat {s : Store} {ca : String} (h : CAok s ca) : Mat s ca := by
  obtain ⟨sec, _, h1, h2, _⟩ := h
  exact ⟨sec, h1, isComplete_hasMaterial h2⟩

/-- in a state where the CA loads and the configured secrets hold material, the step reads only -/
theorem tls_fix (g : Generator) (ca : String) (sv cl : Option TlsRef) (n : Nat) (s : Store)
    (h : TlsDone ca sv cl s) :
    evalOk (tlsStep g ca sv cl n) s = (s, (.ok, n)) ∧ ∀ x ∈ statesOk (tlsStep g ca sv cl n) s, x = s := by
  have leaf : ∀ (ref : Option TlsRef) (sg : Signer), optMat s ref →
      evalOk (ensureOpt g ref sg n) s = (s, (.ok, n)) ∧ ∀ x ∈ statesOk (ensureOpt g ref sg n) s, x = s := by
    intro ref sg hm
    cases ref with
    | none => simp [ensureOpt, statesOk]
    | some r =>
      obtain ⟨l, hl, hml⟩ := hm r rfl
      simp [ensureOpt, ensureLeaf, statesOk, exec_getSecret, hl, hml]
  unfold tlsStep
  rcases h with ⟨h1, h2⟩ | ⟨⟨sec, sg, hs, hc, hp⟩, hsv, hcl⟩
  · subst h1 h2; simp [statesOk]
  · split
    · simp [statesOk]
    · have hload : evalOk (loadOrGenerateCA g ca n) s = (s, (some sg, n)) ∧
          ∀ x ∈ statesOk (loadOrGenerateCA g ca n) s, x = s := by
        simp [loadOrGenerateCA, statesOk, exec_getSecret, hs, hc, hp]
      obtain ⟨h1, h1'⟩ := leaf sv sg hsv
      obtain ⟨h2, h2'⟩ := leaf cl sg hcl
      constructor
      · rw [evalOk_bind, hload.1]; simp only
        rw [evalOk_bind, h1]; simp only
        exact h2
      · intro x hx
        rw [statesOk_bind] at hx
        rcases hx with hx | hx
        · exact hload.2 x hx
        · rw [hload.1] at hx; simp only at hx
          rw [statesOk_bind] at hx
          rcases hx with hx | hx
          · exact h1' x hx
          · rw [h1] at hx; simp only at hx
            exact h2' x hx


/-! ### material is never removed -/

/-- every secret update of the initializer stores a secret that holds material -/
def MatReq : Req → Prop
  | .updateSecret _ new => hasMaterial new = true
  | _ => True

def TlsClass (cas : List String) (r : Req) : Prop := SafeReq cas r ∧ MatReq r

theorem exec_CAok {s : Store} {ca : String} {cas : List String} {r : Req} (h : CAok s ca) (hq : SafeReq cas r) :
    CAok (exec s r).1 ca := by
  obtain ⟨sec, sg, h1, h2, h3⟩ := h
  exact ⟨sec, sg, exec_kept (keptFrom_refl cas s) hq ca sec h1 (Or.inl h2), h2, h3⟩

theorem exec_Mat {s : Store} {n : String} {r : Req} (h : Mat s n) (hq : MatReq r) : Mat (exec s r).1 n := by
  obtain ⟨l, hl, hm⟩ := h
  by_cases hw : r.comp = some .secrets
  · cases r <;> simp [Req.comp] at hw
    case createSecret x =>
      simp only [exec]
      split
      · exact ⟨l, hl, hm⟩
      · exact ⟨l, find_append_some _ _ _ _ hl, hm⟩
    case updateSecret old new =>
      simp only [exec]
      split
      · exact ⟨l, hl, hm⟩
      · rename_i cur hcur
        split
        · by_cases hn : n = new.name
          · subst hn
            exact ⟨new, find_map_replace_self _ _ _ hcur, hq⟩
          · exact ⟨l, by simp only [findSecret] at hl ⊢; rw [find_map_replace _ _ _ hn]; exact hl, hm⟩
        · exact ⟨l, hl, hm⟩
  · refine ⟨l, ?_, hm⟩
    simp only [findSecret] at hl ⊢
    rw [frame_secrets s r hw]; exact hl

theorem exec_tlsDone {s : Store} {ca : String} {sv cl : Option TlsRef} {cas : List String} {r : Req}
    (h : TlsDone ca sv cl s) (hq : TlsClass cas r) : TlsDone ca sv cl (exec s r).1 := by
  rcases h with h | ⟨h1, h2, h3⟩
  · exact Or.inl h
  · exact Or.inr ⟨exec_CAok h1 hq.1, fun r' hr => exec_Mat (h2 r' hr) hq.2, fun r' hr => exec_Mat (h3 r' hr) hq.2⟩

theorem only_tlsClass {c : Comp} (hc : c ≠ .secrets) (cas : List String) (r : Req) (h : Only c r) : TlsClass cas r := by
  refine ⟨only_safe hc cas r h, ?_⟩
  cases r <;> simp [MatReq, Only, Req.comp] at h ⊢
  exact absurd h.symm hc

theorem mat_write (old : Option Secret) (new : Secret) (h : hasMaterial new = true) : MatReq (writeSecret old new) := by
  cases old <;> simp [writeSecret, MatReq, h]

theorem tlsStep_issues_mat (g : Generator) (ca : String) (sv cl : Option TlsRef) (n : Nat) :
    Issues MatReq (tlsStep g ca sv cl n) := by
  have hleaf : ∀ (ref : Option TlsRef) (sg : Signer) (n : Nat), Issues MatReq (ensureOpt g ref sg n) := by
    intro ref sg n
    unfold ensureOpt ensureLeaf issueLeaf
    split
    · exact .ret _
    · refine .call _ _ trivial ?_
      intro x
      have : ∀ old, Issues MatReq (if (‹TlsRef›).dns = [] then (.ret (.err "tls: no DNS names", n) : P (Res × Nat)) else
          match g (‹TlsRef›).dns false (some sg) n with
          | none => .ret (.err "tls: generate", n + 1)
          | some (kp, c) =>
            .call (writeSecret old (leafSecret (‹TlsRef›).name old kp c sg)) fun r =>
              match r with
              | .ok => .ret (.ok, n + 1)
              | _ => .ret (.err "tls: write", n + 1)) := by
        intro old
        split
        · exact .ret _
        · split
          · exact .ret _
          · refine .call _ _ (mat_write _ _ (by simp [leafSecret, hasMaterial])) ?_
            intro y; split <;> exact .ret _
      split
      · exact this none
      · split
        · exact .ret _
        · exact this _
      · exact .ret _
  have hgen : ∀ old n, Issues MatReq (genCA g ca old n) := by
    intro old n
    unfold genCA
    split
    · exact .ret _
    · refine .call _ _ (mat_write _ _ (by simp [caSecret, hasMaterial])) ?_
      intro y; split <;> exact .ret _
  unfold tlsStep
  split
  · exact .ret _
  · refine issues_bind ?_ ?_
    · unfold loadOrGenerateCA
      refine .call _ _ trivial ?_
      intro x; split
      · exact hgen _ _
      · split
        · exact .ret _
        · exact hgen _ _
      · exact .ret _
    · rintro ⟨sg, n'⟩
      simp only
      split
      · exact .ret _
      · refine issues_bind (hleaf _ _ _) ?_
        rintro ⟨r, n''⟩
        simp only
        split
        · exact hleaf _ _ _
        · exact .ret _

theorem issues_and {Q Q' : Req → Prop} {p : P α} (h : Issues Q p) (h' : Issues Q' p) : Issues (fun r => Q r ∧ Q' r) p := by
  induction h with
  | ret a => exact .ret a
  | call r c hq _ ih =>
    cases h' with
    | call _ _ hq' hc' => exact .call r c ⟨hq, hq'⟩ (fun x => ih x (hc' x))

/-- every step of the initializer is in the class, for every set of CA names containing its own -/
theorem step_issues_tlsClass (g : Generator) (n : Nat) (cas : List String) (st : Step)
    (h : ∀ ca ∈ caNames [st], ca ∈ cas) : Issues (TlsClass cas) (st.prog g n) := by
  cases st with
  | tls ca sv cl => exact issues_and (tlsStep_issues g ca (h ca (by simp [caNames])) sv cl n) (tlsStep_issues_mat g ca sv cl n)
  | crds ref d => exact withNonce_issues n (issues_mono (only_tlsClass (by decide) cas) (crdsStep_issues ref d))
  | whcs ref svc d => exact withNonce_issues n (issues_mono (only_tlsClass (by decide) cas) (whcsStep_issues ref svc d))
  | mig crd old => exact withNonce_issues n (issues_mono (only_tlsClass (by decide) cas) (migrateStep_issues crd old))
  | lock => exact withNonce_issues n (issues_mono (only_tlsClass (by decide) cas) lockStep_issues)
  | install p c f => exact withNonce_issues n (issues_mono (only_tlsClass (by decide) cas) (installWith_issues _ p c f))
  | sc ns => exact withNonce_issues n (issues_mono (only_tlsClass (by decide) cas) (scStep_issues ns))
  | drc => exact withNonce_issues n (issues_mono (only_tlsClass (by decide) cas) drcStep_issues)

/-- an established TLS state stays established at every instant of any step, under any fault plan -/
theorem tlsDone_stable (g : Generator) (n : Nat) (st : Step) (ca : String) (sv cl : Option TlsRef)
    (plan : Plan) (k : Nat) (s : Store) (h : TlsDone ca sv cl s) :
    ∀ x ∈ reach sem plan k (st.prog g n) s, TlsDone ca sv cl x :=
  reach_inv sem (TlsDone ca sv cl) (TlsClass (caNames [st])) (fun _ _ hi hq => exec_tlsDone hi hq) plan k _
    (step_issues_tlsClass g n _ st (fun _ h => h)) s h


/-! ### what a completed (fault-free) run establishes -/

/-- the CA secret is complete and is exactly the signer's key and certificate -/
def CAsigner (s : Store) (ca : String) (sg : Signer) : Prop :=
  ∃ sec, findSecret s ca = some sec ∧ isComplete sec = true ∧ sec.key = .key sg.key ∧ sec.crt = .cert sg.cert

theorem CAsigner_ok {s : Store} {ca : String} {sg : Signer} (h : CAsigner s ca sg) : CAok s ca := by
  obtain ⟨sec, h1, h2, h3, h4⟩ := h
  exact ⟨sec, sg, h1, h2, by simp [parseSigner, h3, h4]⟩

theorem parseSigner_inv {kd cd : Blob} {sg : Signer} (h : parseSigner kd cd = some sg) :
    kd = .key sg.key ∧ cd = .cert sg.cert := by
  unfold parseSigner at h
  split at h
  · cases h; exact ⟨rfl, rfl⟩
  · cases h

theorem genCA_ok (g : Generator) (ca : String) (old : Option Secret) (n : Nat) (s t : Store) (sg : Signer) (n' : Nat)
    (ho : findSecret s ca = old)
    (h : evalOk (genCA g ca old n) s = (t, (some sg, n'))) :
    CAsigner t ca sg ∧ ∀ name, name ≠ ca → findSecret t name = findSecret s name := by
  unfold genCA at h
  split at h
  · simp at h
  · rename_i kp c hg
    obtain ⟨e1, e2, e3⟩ := exec_write s old (caSecret ca old kp c) (by simpa using ho)
    simp only [evalOk_call, e1, evalOk_ret, Prod.mk.injEq, Option.some.injEq] at h
    obtain ⟨ht, hsg, _⟩ := h
    subst ht hsg
    refine ⟨⟨_, by simpa using e2, by simp [caSecret, isComplete], rfl, rfl⟩, ?_⟩
    intro name hn
    exact e3 name (by simpa using hn)

theorem loadCA_ok (g : Generator) (ca : String) (n : Nat) (s t : Store) (sg : Signer) (n' : Nat)
    (h : evalOk (loadOrGenerateCA g ca n) s = (t, (some sg, n'))) :
    CAsigner t ca sg ∧ ∀ name, name ≠ ca → findSecret t name = findSecret s name := by
  unfold loadOrGenerateCA at h
  simp only [evalOk_call, exec_getSecret] at h
  cases hf : findSecret s ca with
  | none =>
    simp only [hf] at h
    exact genCA_ok g ca none n s t sg n' hf h
  | some sec =>
    simp only [hf] at h
    split at h
    · rename_i hc
      simp only [evalOk_ret, Prod.mk.injEq] at h
      obtain ⟨ht, hp, _⟩ := h
      subst ht
      obtain ⟨hk, hcr⟩ := parseSigner_inv hp
      exact ⟨⟨sec, hf, hc, hk, hcr⟩, fun _ _ => rfl⟩
    · exact genCA_ok g ca (some sec) n s t sg n' hf h

theorem issueLeaf_ok (g : Generator) (ref : TlsRef) (sg : Signer) (n : Nat) (old : Option Secret) (s t : Store) (n' : Nat)
    (ho : findSecret s ref.name = old)
    (h : evalOk (issueLeaf g ref sg n old) s = (t, (Res.ok, n'))) :
    ∃ kp c, g ref.dns false (some sg) n = some (kp, c) ∧ ref.dns ≠ [] ∧
      findSecret t ref.name = some (leafSecret ref.name old kp c sg) ∧
      ∀ name, name ≠ ref.name → findSecret t name = findSecret s name := by
  unfold issueLeaf at h
  split at h
  · simp at h
  · rename_i hd
    split at h
    · simp at h
    · rename_i kp c hg
      obtain ⟨e1, e2, e3⟩ := exec_write s old (leafSecret ref.name old kp c sg) (by simpa using ho)
      simp only [evalOk_call, e1, evalOk_ret, Prod.mk.injEq] at h
      obtain ⟨ht, _⟩ := h
      subst ht
      exact ⟨kp, c, hg, hd, by simpa using e2, fun name hn => e3 name (by simpa using hn)⟩

theorem ensureLeaf_ok (g : Generator) (ref : TlsRef) (sg : Signer) (n : Nat) (s t : Store) (n' : Nat)
    (h : evalOk (ensureLeaf g ref sg n) s = (t, (Res.ok, n'))) : Mat t ref.name := by
  unfold ensureLeaf at h
  simp only [evalOk_call, exec_getSecret] at h
  cases hf : findSecret s ref.name with
  | none =>
    simp only [hf] at h
    obtain ⟨kp, c, _, _, h2, _⟩ := issueLeaf_ok g ref sg n none s t n' hf h
    exact ⟨_, h2, by simp [leafSecret, hasMaterial]⟩
  | some sec =>
    simp only [hf] at h
    split at h
    · rename_i hm
      simp only [evalOk_ret, Prod.mk.injEq] at h
      obtain ⟨ht, _⟩ := h
      subst ht
      exact ⟨sec, hf, hm⟩
    · obtain ⟨kp, c, _, _, h2, _⟩ := issueLeaf_ok g ref sg n (some sec) s t n' hf h
      exact ⟨_, h2, by simp [leafSecret, hasMaterial]⟩

theorem ensureOpt_ok (g : Generator) (ref : Option TlsRef) (sg : Signer) (n : Nat) (s t : Store) (n' : Nat)
    (h : evalOk (ensureOpt g ref sg n) s = (t, (Res.ok, n'))) : optMat t ref := by
  intro r hr
  subst hr
  exact ensureLeaf_ok g r sg n s t n' h

/-- fault-free evaluation keeps every invariant of a request class -/
theorem evalOk_inv (Inv : Store → Prop) (Q : Req → Prop) (hstep : ∀ s r, Inv s → Q r → Inv (exec s r).1)
    (p : P α) (hp : Issues Q p) (s : Store) (hs : Inv s) : Inv (evalOk p s).1 := by
  have := reach_inv sem Inv Q hstep Plan.allOk 0 p hp s hs
  rw [reach_allOk] at this
  exact this _ (end_mem_statesOk p s)

theorem ensureOpt_issues_mat (g : Generator) (ref : Option TlsRef) (sg : Signer) (n : Nat) :
    Issues MatReq (ensureOpt g ref sg n) := by
  unfold ensureOpt ensureLeaf issueLeaf
  split
  · exact .ret _
  · rename_i r
    refine .call _ _ trivial ?_
    intro x
    have : ∀ old, Issues MatReq (if r.dns = [] then (.ret (.err "tls: no DNS names", n) : P (Res × Nat)) else
        match g r.dns false (some sg) n with
        | none => .ret (.err "tls: generate", n + 1)
        | some (kp, c) =>
          .call (writeSecret old (leafSecret r.name old kp c sg)) fun r =>
            match r with
            | .ok => .ret (.ok, n + 1)
            | _ => .ret (.err "tls: write", n + 1)) := by
      intro old
      split
      · exact .ret _
      · split
        · exact .ret _
        · refine .call _ _ (mat_write _ _ (by simp [leafSecret, hasMaterial])) ?_
          intro y; split <;> exact .ret _
    split
    · exact this none
    · split
      · exact .ret _
      · exact this _
    · exact .ret _

theorem ensureOpt_issues_class (g : Generator) (ref : Option TlsRef) (sg : Signer) (n : Nat) (cas : List String) :
    Issues (TlsClass cas) (ensureOpt g ref sg n) :=
  issues_and (ensureOpt_issues g ref sg n) (ensureOpt_issues_mat g ref sg n)

/-- a completed TLS step leaves the CA loadable and every configured secret holding material -/
theorem tls_establishes (g : Generator) (ca : String) (sv cl : Option TlsRef) (n : Nat) (s t : Store) (n' : Nat)
    (h : evalOk (tlsStep g ca sv cl n) s = (t, (Res.ok, n'))) : TlsDone ca sv cl t := by
  unfold tlsStep at h
  split at h
  · rename_i hn
    simp only [Bool.and_eq_true, Option.isNone_iff_eq_none] at hn
    exact Or.inl hn
  · rw [evalOk_bind] at h
    cases h1 : evalOk (loadOrGenerateCA g ca n) s with
    | mk t1 r1 =>
      obtain ⟨osg, n1⟩ := r1
      rw [h1] at h
      simp only at h
      cases osg with
      | none => simp at h
      | some sg =>
        simp only at h
        rw [evalOk_bind] at h
        cases h2 : evalOk (ensureOpt g sv sg n1) t1 with
        | mk t2 r2 =>
          obtain ⟨r, n2⟩ := r2
          rw [h2] at h
          simp only at h
          cases r with
          | err e => simp at h
          | ok =>
            simp only at h
            have hca1 : CAok t1 ca := CAsigner_ok (loadCA_ok g ca n s t1 sg n1 h1).1
            have hca2 : CAok t2 ca := by
              have := evalOk_inv (fun x => CAok x ca) (TlsClass [ca]) (fun _ _ hi hq => exec_CAok hi hq.1) _
                (ensureOpt_issues_class g sv sg n1 [ca]) t1 hca1
              rw [h2] at this; exact this
            have hca3 : CAok t ca := by
              have := evalOk_inv (fun x => CAok x ca) (TlsClass [ca]) (fun _ _ hi hq => exec_CAok hi hq.1) _
                (ensureOpt_issues_class g cl sg n2 [ca]) t2 hca2
              rw [h] at this; exact this
            have hsv2 : optMat t2 sv := ensureOpt_ok g sv sg n1 t1 t2 n2 h2
            have hsv3 : optMat t sv := by
              intro r hr
              have := evalOk_inv (fun x => Mat x r.name) (TlsClass [ca]) (fun _ _ hi hq => exec_Mat hi hq.2) _
                (ensureOpt_issues_class g cl sg n2 [ca]) t2 (hsv2 r hr)
              rw [h] at this; exact this
            exact Or.inr ⟨hca3, hsv3, ensureOpt_ok g cl sg n2 t2 t n' h⟩

end Xp.C20

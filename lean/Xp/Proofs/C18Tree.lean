import Xp.Model.C18
/-
C18 helper lemmas, part 1: what the rule tree decides.

`tree_allowed`: a path is allowed by the tree built from an allow list iff some expanded
allow rule's path matches it component-wise, each component being equal or the wildcard
(`pm`).  Nothing here is specific to RBAC: it is a statement about the trie.
-/
namespace Xp.C18
open Xp.Gen

/-- an inserted path `q` matches (a prefix of) the requested path `p`, component-wise,
each component of `q` being equal to the requested one or the wildcard -/
def pm : Path → Path → Bool
  | [], _ => true
  | _ :: _, [] => false
  | a :: q, b :: p => (a == b || a == wildcard) && pm q p

theorem lookup_upsert (x k : String) (f : Node → Node) (cs : List (String × Node)) :
    lookup x (upsert k f cs) =
      if k = x then some (f ((lookup k cs).getD Node.empty)) else lookup x cs := by
  induction cs with
  | nil =>
    simp only [upsert, lookup]
    split <;> simp
  | cons c rest ih =>
    obtain ⟨k', c⟩ := c
    simp only [upsert]
    by_cases hk : k' = k
    · subst hk
      simp only [if_true, lookup]
      by_cases hx : k' = x
      · simp [hx]
      · simp [hx]
    · simp only [hk, if_false, lookup]
      by_cases hx : k' = x
      · subst hx
        have : ¬ k = k' := fun e => hk e.symm
        simp [this]
      · simp only [hx, if_false]
        exact ih

theorem allowed_nil (n : Node) : n.allowed [] = false := by
  cases n; rfl

theorem allowed_cons (k : String) (p : Path) (a : Bool) (cs : List (String × Node)) :
    (Node.mk a cs).allowed (k :: p) =
      (look (Node.allowed p) cs k || look (Node.allowed p) cs wildcard) := rfl

theorem allowed_empty (p : Path) : Node.empty.allowed p = false := by
  cases p with
  | nil => rfl
  | cons k p => simp [Node.empty, allowed_cons, look, lookup]

theorem isAllowed_allow (q : Path) (n : Node) :
    (n.allow q).isAllowed = (n.isAllowed || q.isEmpty) := by
  cases n with
  | mk a cs =>
    cases q with
    | nil => simp [Node.allow, Node.isAllowed]
    | cons k q => simp [Node.allow, Node.isAllowed]

/-- one `Allow` adds exactly the paths matched by the inserted one -/
theorem allowed_allow (q p : Path) (n : Node) :
    (n.allow q).allowed p = (n.allowed p || (!q.isEmpty && pm q p)) := by
  induction q generalizing n p with
  | nil =>
    cases n with
    | mk a cs =>
      cases p with
      | nil => simp [Node.allow, allowed_nil]
      | cons j p => simp [Node.allow, allowed_cons]
  | cons k q ih =>
    cases n with
    | mk a cs =>
      cases p with
      | nil => simp [allowed_nil, pm]
      | cons j p =>
        simp only [Node.allow, allowed_cons]
        have hl : ∀ x : String, look (Node.allowed p) (upsert k (Node.allow q) cs) x =
            (look (Node.allowed p) cs x || (k == x && pm q p)) := by
          intro x
          simp only [look, lookup_upsert]
          by_cases hx : k = x
          · subst hx
            simp only [if_true, beq_self_eq_true, Bool.true_and]
            rw [isAllowed_allow, ih]
            cases hq : lookup k cs with
            | none =>
              have he : Node.empty.isAllowed = false := rfl
              simp only [Option.getD_none, allowed_empty, he, Bool.false_or]
              cases q <;> simp [pm]
            | some c =>
              simp only [Option.getD_some]
              cases q with
              | nil => simp [pm]
              | cons _ _ => simp [Bool.or_assoc]
          · have : (k == x) = false := by simp [hx]
            simp [hx, this]
        rw [hl j, hl wildcard]
        simp only [pm, List.isEmpty_cons, Bool.not_false, Bool.true_and]
        cases look (Node.allowed p) cs j <;> cases look (Node.allowed p) cs wildcard <;>
          cases (k == j) <;> cases (k == wildcard) <;> cases pm q p <;> rfl

theorem foldl_allow_allowed (qs : List Path) (n : Node) (p : Path) :
    (qs.foldl (fun t q => t.allow q) n).allowed p =
      (n.allowed p || qs.any (fun q => !q.isEmpty && pm q p)) := by
  induction qs generalizing n with
  | nil => simp
  | cons q qs ih =>
    simp only [List.foldl_cons, List.any_cons]
    rw [ih, allowed_allow, Bool.or_assoc]

theorem path_ne_nil (r : Rule) : r.path.isEmpty = false := by
  unfold Rule.path; split <;> rfl

/-- **What the rule tree decides.** -/
theorem tree_allowed (allow : List PolicyRule) (p : Path) :
    (tree allow).allowed p = (expand allow).any (fun r => pm r.path p) := by
  unfold tree
  have h : ∀ (rs : List Rule) (n : Node),
      rs.foldl (fun t r => t.allow r.path) n = (rs.map Rule.path).foldl (fun t q => t.allow q) n := by
    intro rs
    induction rs with
    | nil => intro n; rfl
    | cons r rs ih => intro n; simp only [List.foldl_cons, List.map_cons]; exact ih _
  rw [h, foldl_allow_allowed, allowed_empty, Bool.false_or, List.any_map]
  congr 1
  funext r
  simp [path_ne_nil]

/-! membership in `expandOne` -/

theorem mem_expandOne (o : PolicyRule) (r : Rule) :
    r ∈ expandOne o ↔
      (∃ u ∈ o.nonResourceURLs, ∃ v ∈ o.verbs, r = ⟨"", "", "", u, v⟩) ∨
      (∃ g ∈ o.apiGroups, ∃ rs ∈ o.resources,
        ∃ n ∈ (if o.resourceNames.isEmpty then [wildcard] else o.resourceNames),
        ∃ v ∈ o.verbs, r = ⟨g, rs, n, "", v⟩) := by
  unfold expandOne
  simp only [List.mem_append, List.mem_flatMap, List.mem_map]
  constructor
  · rintro (⟨u, hu, v, hv, rfl⟩ | ⟨g, hg, rs, hrs, n, hn, v, hv, rfl⟩)
    · exact Or.inl ⟨u, hu, v, hv, rfl⟩
    · exact Or.inr ⟨g, hg, rs, hrs, n, hn, v, hv, rfl⟩
  · rintro (⟨u, hu, v, hv, rfl⟩ | ⟨g, hg, rs, hrs, n, hn, v, hv, rfl⟩)
    · exact Or.inl ⟨u, hu, v, hv, rfl⟩
    · exact Or.inr ⟨g, hg, rs, hrs, n, hn, v, hv, rfl⟩

theorem mem_expand (A : List PolicyRule) (r : Rule) :
    r ∈ expand A ↔ ∃ o ∈ A, r ∈ expandOne o := by
  simp [expand, List.mem_flatMap]

end Xp.C18

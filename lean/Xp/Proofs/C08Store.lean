import Xp.Model.C08
/-
C08 store lemmas: every API call of the modelled alphabet, every environment
action and a crash move the store "forward" in the teardown order `Le`:
objects are never created, immutable fields never change, a deletionTimestamp is
never unset, the Lock only loses packages and no controller is started.
-/
namespace Xp.C08

/-- `o'` is a later version of `o` -/
def Obj.Mono (o o' : Obj) : Prop :=
  o'.key = o.key ∧ o'.uid = o.uid ∧ o'.ref = o.ref ∧ o'.of = o.of ∧ o'.flag = o.flag ∧ o'.owners = o.owners ∧
  (o.del = true → o'.del = true) ∧ (∀ p ∈ o'.pkgs, p ∈ o.pkgs)

theorem Obj.Mono.refl (o : Obj) : Obj.Mono o o := ⟨rfl, rfl, rfl, rfl, rfl, rfl, id, fun _ h => h⟩

theorem Obj.Mono.trans {a b c : Obj} (h1 : Obj.Mono a b) (h2 : Obj.Mono b c) : Obj.Mono a c := by
  obtain ⟨a1, a2, a3, a4, a5, a6, a7, a8⟩ := h1
  obtain ⟨b1, b2, b3, b4, b5, b6, b7, b8⟩ := h2
  exact ⟨b1.trans a1, b2.trans a2, b3.trans a3, b4.trans a4, b5.trans a5, b6.trans a6,
    fun h => b7 (a7 h), fun p hp => a8 p (b8 p hp)⟩

/-- `s'` is a teardown-successor of `s` -/
structure Le (s s' : St) : Prop where
  keys : ∀ o' ∈ s'.objs, ∃ o ∈ s.objs, o.key = o'.key
  find : ∀ k o', find s' k = some o' → ∃ o, find s k = some o ∧ Obj.Mono o o'
  run : ∀ c ∈ s'.running, c ∈ s.running

theorem Le.refl (s : St) : Le s s :=
  ⟨fun o h => ⟨o, h, rfl⟩, fun _ o h => ⟨o, h, Obj.Mono.refl o⟩, fun _ h => h⟩

theorem Le.trans {a b c : St} (h1 : Le a b) (h2 : Le b c) : Le a c := by
  refine ⟨?_, ?_, fun x hx => h1.run x (h2.run x hx)⟩
  · intro o hc
    obtain ⟨ob, hb, eb⟩ := h2.keys o hc
    obtain ⟨oa, ha, ea⟩ := h1.keys ob hb
    exact ⟨oa, ha, ea.trans eb⟩
  · intro k o hc
    obtain ⟨ob, hb, mb⟩ := h2.find k o hc
    obtain ⟨oa, ha, ma⟩ := h1.find k ob hb
    exact ⟨oa, ha, ma.trans mb⟩

/-! ### find / put / erase -/

theorem find_key {s : St} {k : Key} {o : Obj} (h : find s k = some o) : o.key = k := by
  have := List.find?_some h
  simpa using this

theorem find_mem {s : St} {k : Key} {o : Obj} (h : find s k = some o) : o ∈ s.objs :=
  List.mem_of_find?_eq_some h

theorem find_nextRv (s : St) (n : Nat) (k : Key) : find { s with nextRv := n } k = find s k := rfl

theorem find_running (s : St) (r : List String) (k : Key) : find { s with running := r } k = find s k := rfl

theorem find_put_list (l : List Obj) (o : Obj) (k : Key) :
    (l.map (fun x => if x.key = o.key then o else x)).find? (fun x => x.key = k) =
      if k = o.key then (l.find? (fun x => x.key = k)).map (fun _ => o) else l.find? (fun x => x.key = k) := by
  induction l with
  | nil => simp
  | cons x xs ih =>
    simp only [List.map_cons, List.find?_cons]
    by_cases hx : x.key = o.key
    · by_cases hk : k = o.key
      · subst hk; simp [hx]
      · have : ¬ x.key = k := fun e => hk (e ▸ hx)
        have h2 : ¬ o.key = k := fun e => hk e.symm
        simp only [hx, if_true, h2, decide_false, hk, if_false] at ih ⊢
        exact ih
    · simp only [hx, if_false]
      by_cases hxk : x.key = k
      · have : ¬ k = o.key := fun e => hx (hxk.trans e)
        simp [hxk, this]
      · simp only [hxk, decide_false]
        exact ih

theorem find_put (s : St) (o : Obj) (k : Key) :
    find (put s o) k = if k = o.key then (find s k).map (fun _ => o) else find s k := by
  unfold find put
  exact find_put_list s.objs o k

theorem find_erase_list (l : List Obj) (k0 k : Key) :
    (l.filter (fun o => o.key ≠ k0)).find? (fun o => o.key = k) =
      if k = k0 then none else l.find? (fun o => o.key = k) := by
  induction l with
  | nil => simp
  | cons x xs ih =>
    by_cases hx : x.key = k0
    · have e : (x :: xs).filter (fun o => o.key ≠ k0) = xs.filter (fun o => o.key ≠ k0) := by
        simp [hx]
      rw [e, ih]
      by_cases hk : k = k0
      · simp [hk]
      · have : ¬ x.key = k := fun e => hk (e ▸ hx)
        simp [hk, this]
    · have e : (x :: xs).filter (fun o => o.key ≠ k0) = x :: xs.filter (fun o => o.key ≠ k0) := by
        simp [hx]
      rw [e]
      simp only [List.find?_cons]
      by_cases hxk : x.key = k
      · have : ¬ k = k0 := fun e => hx (hxk.trans e)
        simp [hxk, this]
      · simp only [hxk, decide_false]
        exact ih

theorem find_erase (s : St) (k0 k : Key) :
    find (erase s k0) k = if k = k0 then none else find s k := by
  unfold find erase
  exact find_erase_list s.objs k0 k

theorem le_put (s : St) (o : Obj) (h : ∀ o0, find s o.key = some o0 → Obj.Mono o0 o) : Le s (put s o) := by
  refine ⟨?_, ?_, fun _ h => h⟩
  · intro o' ho'
    simp only [put, List.mem_map] at ho'
    obtain ⟨x, hx, rfl⟩ := ho'
    refine ⟨x, hx, ?_⟩
    split
    · rename_i e; exact e
    · rfl
  · intro k o' hf
    rw [find_put] at hf
    split at hf
    · rename_i hk
      subst hk
      cases h0 : find s o.key with
      | none => rw [h0] at hf; simp at hf
      | some o0 =>
        rw [h0] at hf
        simp only [Option.map_some, Option.some.injEq] at hf
        subst hf
        exact ⟨o0, rfl, h o0 h0⟩
    · exact ⟨o', hf, Obj.Mono.refl _⟩

theorem le_erase (s : St) (k : Key) : Le s (erase s k) := by
  refine ⟨?_, ?_, fun _ h => h⟩
  · intro o' ho'
    simp only [erase, List.mem_filter] at ho'
    exact ⟨o', ho'.1, rfl⟩
  · intro k' o' hf
    rw [find_erase] at hf
    split at hf
    · cases hf
    · exact ⟨o', hf, Obj.Mono.refl _⟩

theorem le_nextRv (s : St) (n : Nat) : Le s { s with nextRv := n } :=
  ⟨fun o h => ⟨o, h, rfl⟩, fun _ o h => ⟨o, h, Obj.Mono.refl o⟩, fun _ h => h⟩

theorem le_running (s : St) (r : List String) (h : ∀ c ∈ r, c ∈ s.running) : Le s { s with running := r } :=
  ⟨fun o h => ⟨o, h, rfl⟩, fun _ o h => ⟨o, h, Obj.Mono.refl o⟩, h⟩

/-! ### the operations -/

theorem le_commit (s : St) (o o' : Obj) (ho : find s o.key = some o) (hm : Obj.Mono o o') :
    Le s (commit s o o').1 := by
  unfold commit
  split
  · exact Le.refl s
  · simp only []
    split
    · exact (le_nextRv s _).trans (le_erase _ _)
    · refine (le_nextRv s _).trans (le_put _ _ ?_)
      intro o0 h0
      have hk : ({ o' with rv := s.nextRv } : Obj).key = o.key := hm.1
      rw [hk, find_nextRv, ho] at h0
      cases h0
      exact hm

theorem le_withObj (s : St) (k : Key) (rv : Nat) (f : Obj → Obj) (hf : ∀ o, Obj.Mono o (f o)) :
    Le s (withObj s k rv f).1 := by
  unfold withObj
  cases h : find s k with
  | none => exact Le.refl s
  | some o =>
    simp only []
    split
    · exact Le.refl s
    · have hk := find_key h
      exact le_commit s o (f o) (by rw [hk]; exact h) (hf o)

theorem le_deleteWith (s : St) (o : Obj) (fins : List String) (ho : find s o.key = some o) : Le s (deleteWith s o fins) := by
  unfold deleteWith
  split
  · exact le_erase _ _
  · split
    · exact Le.refl s
    · refine (le_nextRv s _).trans (le_put _ _ ?_)
      intro o0 h0
      simp only [find_nextRv] at h0
      rw [ho] at h0
      cases h0
      exact ⟨rfl, rfl, rfl, rfl, rfl, rfl, fun _ => rfl, fun _ h => h⟩

theorem le_deleteObj (s : St) (o : Obj) (fg : Bool) (ho : find s o.key = some o) : Le s (deleteObj s o fg) :=
  le_deleteWith s o _ ho

theorem le_deleteKey (s : St) (k : Key) (fg : Bool) : Le s (deleteKey s k fg) := by
  unfold deleteKey
  cases h : find s k with
  | none => exact Le.refl s
  | some o =>
    have hk := find_key h
    exact le_deleteObj s o fg (by rw [hk]; exact h)

theorem le_foldl {α : Type} (f : St → α → St) (hf : ∀ s a, Le s (f s a)) (l : List α) (s : St) : Le s (l.foldl f s) := by
  induction l generalizing s with
  | nil => exact Le.refl s
  | cons a rest ih => exact (hf s a).trans (ih _)

theorem le_exec (s : St) (r : Req) : Le s (exec s r).1 := by
  cases r with
  | get k => exact Le.refl s
  | list kd => exact Le.refl s
  | listUsagesOf n => exact Le.refl s
  | setStatus k rv conds =>
    exact le_withObj s k rv _ (fun o => ⟨rfl, rfl, rfl, rfl, rfl, rfl, id, fun _ h => h⟩)
  | removeFin k rv fin =>
    exact le_withObj s k rv _ (fun o => ⟨rfl, rfl, rfl, rfl, rfl, rfl, id, fun _ h => h⟩)
  | delete k fg =>
    simp only [exec]
    cases h : find s k with
    | none => exact Le.refl s
    | some o =>
      have hk := find_key h
      exact le_deleteObj s o fg (by rw [hk]; exact h)
  | deleteAll kd =>
    simp only [exec]
    exact le_foldl _ (fun s (o : Obj) => le_deleteKey s o.key false) _ _
  | lockRemove rv pkg =>
    exact le_withObj s lockKey rv _ (fun o => ⟨rfl, rfl, rfl, rfl, rfl, rfl, id, fun p h => (List.mem_filter.mp h).1⟩)
  | unlabel k rv =>
    exact le_withObj s k rv _ (fun o => ⟨rfl, rfl, rfl, rfl, rfl, rfl, id, fun _ h => h⟩)
  | stop c =>
    simp only [exec]
    exact le_running s _ (fun c h => (List.mem_filter.mp h).1)
  | cacheDelete n => exact Le.refl s

theorem le_envUnfin (s : St) (k : Key) (f : String) : Le s (envUnfin s k f) := by
  unfold envUnfin
  cases h : find s k with
  | none => exact Le.refl s
  | some o =>
    have hk := find_key h
    exact le_commit s o _ (by rw [hk]; exact h) ⟨rfl, rfl, rfl, rfl, rfl, rfl, id, fun _ h => h⟩

theorem le_crash (s : St) : Le s (crash s) := le_running s [] (fun _ h => by cases h)

theorem le_gcStep (s : St) : Le s (gcStep s) := by
  unfold gcStep
  simp only []
  refine Le.trans (le_foldl _ ?_ _ _) (le_foldl _ ?_ _ _)
  · intro acc o
    cases h : find acc o.key with
    | none => exact Le.refl _
    | some c =>
      simp only []
      have hk := find_key h
      split
      · split
        · exact Le.refl _
        · refine (le_nextRv acc _).trans (le_put _ _ ?_)
          intro o0 h0
          simp only [find_nextRv] at h0
          rw [hk, h] at h0
          cases h0
          exact ⟨rfl, rfl, rfl, rfl, rfl, rfl, fun _ => rfl, fun _ h => h⟩
      · exact le_erase _ _
  · intro acc o
    cases h : find acc o.key with
    | none => exact Le.refl _
    | some c =>
      simp only []
      have hk := find_key h
      split
      · split
        · exact (le_nextRv acc _).trans (le_erase _ _)
        · refine (le_nextRv acc _).trans (le_put _ _ ?_)
          intro o0 h0
          simp only [find_nextRv] at h0
          rw [hk, h] at h0
          cases h0
          exact ⟨rfl, rfl, rfl, rfl, rfl, rfl, id, fun _ h => h⟩
      · exact Le.refl _

end Xp.C08

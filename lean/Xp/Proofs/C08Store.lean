import Xp.Model.C08
/-
C08 store lemmas: every API call of the modelled alphabet, every environment
action (deletion, garbage collection, finalizer removal, third-party edit) and a crash
move a well-formed store "forward" in the teardown order `Le`: objects are never
created, identity fields never change, editable fields change only together with the
resourceVersion, a deletionTimestamp is never unset, the Lock only loses packages and
no controller is started.
-/
namespace Xp.C08

/-- `o'` is a later version of `o`: identity fields never change, a deletionTimestamp is
never unset, a Lock only loses packages, resourceVersions only grow, and the fields a
third party may edit (`ref`, `flag` of an editable kind) are the same whenever the
resourceVersion is. -/
structure Obj.Mono (o o' : Obj) : Prop where
  key : o'.key = o.key
  uid : o'.uid = o.uid
  of_ : o'.of = o.of
  owners : o'.owners = o.owners
  refKind : o'.refKind = o.refKind
  ofKind : o'.ofKind = o.ofKind
  del : o.del = true → o'.del = true
  pkgs : ∀ p ∈ o'.pkgs, p ∈ o.pkgs
  rv : o.rv ≤ o'.rv
  same : (o'.rv = o.rv ∨ editable o.key.kind = false) → o'.ref = o.ref ∧ o'.flag = o.flag

theorem Obj.Mono.refl (o : Obj) : Obj.Mono o o :=
  ⟨rfl, rfl, rfl, rfl, rfl, rfl, id, fun _ h => h, Nat.le_refl _, fun _ => ⟨rfl, rfl⟩⟩

theorem Obj.Mono.trans {a b c : Obj} (h1 : Obj.Mono a b) (h2 : Obj.Mono b c) : Obj.Mono a c where
  key := h2.key.trans h1.key
  uid := h2.uid.trans h1.uid
  of_ := h2.of_.trans h1.of_
  owners := h2.owners.trans h1.owners
  refKind := h2.refKind.trans h1.refKind
  ofKind := h2.ofKind.trans h1.ofKind
  del := fun h => h2.del (h1.del h)
  pkgs := fun p hp => h1.pkgs p (h2.pkgs p hp)
  rv := Nat.le_trans h1.rv h2.rv
  same := by
    intro h
    have hk : b.key.kind = a.key.kind := by rw [h1.key]
    rcases h with h | h
    · have e1 : b.rv = a.rv := Nat.le_antisymm (h ▸ h2.rv) h1.rv
      have e2 : c.rv = b.rv := h.trans e1.symm
      have s1 := h1.same (.inl e1)
      have s2 := h2.same (.inl e2)
      exact ⟨s2.1.trans s1.1, s2.2.trans s1.2⟩
    · have s1 := h1.same (.inr h)
      have s2 := h2.same (.inr (hk ▸ h))
      exact ⟨s2.1.trans s1.1, s2.2.trans s1.2⟩

/-- what a write may do to the object it replaces, the resourceVersion aside: `ref` and
`flag` may change only on the editable kinds -/
structure Obj.Upd (o o' : Obj) : Prop where
  key : o'.key = o.key
  uid : o'.uid = o.uid
  of_ : o'.of = o.of
  owners : o'.owners = o.owners
  refKind : o'.refKind = o.refKind
  ofKind : o'.ofKind = o.ofKind
  del : o.del = true → o'.del = true
  pkgs : ∀ p ∈ o'.pkgs, p ∈ o.pkgs
  same : editable o.key.kind = false → o'.ref = o.ref ∧ o'.flag = o.flag

/-- a write that leaves `ref` and `flag` alone -/
theorem Obj.Upd.of_eq {o o' : Obj} (key : o'.key = o.key) (uid : o'.uid = o.uid) (of_ : o'.of = o.of)
    (owners : o'.owners = o.owners) (refKind : o'.refKind = o.refKind) (ofKind : o'.ofKind = o.ofKind)
    (del : o.del = true → o'.del = true) (pkgs : ∀ p ∈ o'.pkgs, p ∈ o.pkgs)
    (ref : o'.ref = o.ref) (flag : o'.flag = o.flag) : Obj.Upd o o' :=
  ⟨key, uid, of_, owners, refKind, ofKind, del, pkgs, fun _ => ⟨ref, flag⟩⟩

/-- stored under a fresh resourceVersion, an updated object is a later version -/
theorem Obj.Upd.mono {o o' : Obj} (h : Obj.Upd o o') (n : Nat) (hn : o.rv < n) : Obj.Mono o { o' with rv := n } where
  key := h.key
  uid := h.uid
  of_ := h.of_
  owners := h.owners
  refKind := h.refKind
  ofKind := h.ofKind
  del := h.del
  pkgs := h.pkgs
  rv := Nat.le_of_lt hn
  same := by
    intro hh
    rcases hh with hh | hh
    · exact absurd (show n = o.rv from hh) (Nat.ne_of_gt hn)
    · exact h.same hh

/-- `s'` is a teardown-successor of `s` -/
structure Le (s s' : St) : Prop where
  keys : ∀ o' ∈ s'.objs, ∃ o ∈ s.objs, o.key = o'.key
  find : ∀ k o', find s' k = some o' → ∃ o, find s k = some o ∧ Obj.Mono o o'
  run : ∀ c ∈ s'.running, c ∈ s.running

theorem Le.refl (s : St) : Le s s :=
  ⟨fun o h => ⟨o, h, rfl⟩, fun _ o h => ⟨o, h, Obj.Mono.refl o⟩, fun _ h => h⟩

theorem Le.trans {a b c : St} (h1 : Le a b) (h2 : Le b c) : Le a c := by
  refine ⟨?_, ?_, fun x hx => h1.run x (h2.run x hx)⟩
  · intro o hc
    obtain ⟨ob, hb, eb⟩ := h2.keys o hc
    obtain ⟨oa, ha, ea⟩ := h1.keys ob hb
    exact ⟨oa, ha, ea.trans eb⟩
  · intro k o hc
    obtain ⟨ob, hb, mb⟩ := h2.find k o hc
    obtain ⟨oa, ha, ma⟩ := h1.find k ob hb
    exact ⟨oa, ha, ma.trans mb⟩

/-! ### find / put / erase -/

theorem find_key {s : St} {k : Key} {o : Obj} (h : find s k = some o) : o.key = k := by
  have := List.find?_some h
  simpa using this

theorem find_mem {s : St} {k : Key} {o : Obj} (h : find s k = some o) : o ∈ s.objs :=
  List.mem_of_find?_eq_some h

theorem find_nextRv (s : St) (n : Nat) (k : Key) : find { s with nextRv := n } k = find s k := rfl

theorem find_running (s : St) (r : List String) (k : Key) : find { s with running := r } k = find s k := rfl

theorem find_put_list (l : List Obj) (o : Obj) (k : Key) :
    (l.map (fun x => if x.key = o.key then o else x)).find? (fun x => x.key = k) =
      if k = o.key then (l.find? (fun x => x.key = k)).map (fun _ => o) else l.find? (fun x => x.key = k) := by
  induction l with
  | nil => simp
  | cons x xs ih =>
    simp only [List.map_cons, List.find?_cons]
    by_cases hx : x.key = o.key
    · by_cases hk : k = o.key
      · subst hk; simp [hx]
      · have : ¬ x.key = k := fun e => hk (e ▸ hx)
        have h2 : ¬ o.key = k := fun e => hk e.symm
        simp only [hx, if_true, h2, decide_false, hk, if_false] at ih ⊢
        exact ih
    · simp only [hx, if_false]
      by_cases hxk : x.key = k
      · have : ¬ k = o.key := fun e => hx (hxk.trans e)
        simp [hxk, this]
      · simp only [hxk, decide_false]
        exact ih

theorem find_put (s : St) (o : Obj) (k : Key) :
    find (put s o) k = if k = o.key then (find s k).map (fun _ => o) else find s k := by
  unfold find put
  exact find_put_list s.objs o k

theorem find_erase_list (l : List Obj) (k0 k : Key) :
    (l.filter (fun o => o.key ≠ k0)).find? (fun o => o.key = k) =
      if k = k0 then none else l.find? (fun o => o.key = k) := by
  induction l with
  | nil => simp
  | cons x xs ih =>
    by_cases hx : x.key = k0
    · have e : (x :: xs).filter (fun o => o.key ≠ k0) = xs.filter (fun o => o.key ≠ k0) := by
        simp [hx]
      rw [e, ih]
      by_cases hk : k = k0
      · simp [hk]
      · have : ¬ x.key = k := fun e => hk (e ▸ hx)
        simp [hk, this]
    · have e : (x :: xs).filter (fun o => o.key ≠ k0) = x :: xs.filter (fun o => o.key ≠ k0) := by
        simp [hx]
      rw [e]
      simp only [List.find?_cons]
      by_cases hxk : x.key = k
      · have : ¬ k = k0 := fun e => hx (hxk.trans e)
        simp [hxk, this]
      · simp only [hxk, decide_false]
        exact ih

theorem find_erase (s : St) (k0 k : Key) :
    find (erase s k0) k = if k = k0 then none else find s k := by
  unfold find erase
  exact find_erase_list s.objs k0 k

theorem le_put (s : St) (o : Obj) (h : ∀ o0, find s o.key = some o0 → Obj.Mono o0 o) : Le s (put s o) := by
  refine ⟨?_, ?_, fun _ h => h⟩
  · intro o' ho'
    simp only [put, List.mem_map] at ho'
    obtain ⟨x, hx, rfl⟩ := ho'
    refine ⟨x, hx, ?_⟩
    split
    · rename_i e; exact e
    · rfl
  · intro k o' hf
    rw [find_put] at hf
    split at hf
    · rename_i hk
      subst hk
      cases h0 : find s o.key with
      | none => rw [h0] at hf; simp at hf
      | some o0 =>
        rw [h0] at hf
        simp only [Option.map_some, Option.some.injEq] at hf
        subst hf
        exact ⟨o0, rfl, h o0 h0⟩
    · exact ⟨o', hf, Obj.Mono.refl _⟩

theorem le_erase (s : St) (k : Key) : Le s (erase s k) := by
  refine ⟨?_, ?_, fun _ h => h⟩
  · intro o' ho'
    simp only [erase, List.mem_filter] at ho'
    exact ⟨o', ho'.1, rfl⟩
  · intro k' o' hf
    rw [find_erase] at hf
    split at hf
    · cases hf
    · exact ⟨o', hf, Obj.Mono.refl _⟩

theorem le_nextRv (s : St) (n : Nat) : Le s { s with nextRv := n } :=
  ⟨fun o h => ⟨o, h, rfl⟩, fun _ o h => ⟨o, h, Obj.Mono.refl o⟩, fun _ h => h⟩

theorem le_running (s : St) (r : List String) (h : ∀ c ∈ r, c ∈ s.running) : Le s { s with running := r } :=
  ⟨fun o h => ⟨o, h, rfl⟩, fun _ o h => ⟨o, h, Obj.Mono.refl o⟩, h⟩

/-! ### well-formed stores -/

theorem wf_put {s : St} (hw : WF s) (o : Obj) (ho : o.rv < s.nextRv) : WF (put s o) := by
  intro x hx
  simp only [put, List.mem_map] at hx
  obtain ⟨y, hy, rfl⟩ := hx
  split
  · exact ho
  · exact hw y hy

theorem wf_erase {s : St} (hw : WF s) (k : Key) : WF (erase s k) := by
  intro x hx
  simp only [erase, List.mem_filter] at hx
  exact hw x hx.1

theorem wf_bump {s : St} (hw : WF s) : WF { s with nextRv := s.nextRv + 1 } :=
  fun o ho => Nat.lt_succ_of_lt (hw o ho)

theorem wf_running {s : St} (hw : WF s) (r : List String) : WF { s with running := r } := hw

/-- a step of the store that stays well-formed -/
structure Step (s s' : St) : Prop where
  le : Le s s'
  wf : WF s'

theorem Step.refl {s : St} (hw : WF s) : Step s s := ⟨Le.refl s, hw⟩

theorem Step.trans {a b c : St} (h1 : Step a b) (h2 : Step b c) : Step a c := ⟨h1.le.trans h2.le, h2.wf⟩

/-- replace the stored `o` by `o'` under the next resourceVersion -/
theorem step_bump_put {s : St} (hw : WF s) (o o' : Obj) (ho : find s o.key = some o) (hu : Obj.Upd o o') :
    Step s (put { s with nextRv := s.nextRv + 1 } { o' with rv := s.nextRv }) := by
  have hlt : o.rv < s.nextRv := hw o (find_mem ho)
  refine ⟨(le_nextRv s _).trans (le_put _ _ ?_), wf_put (wf_bump hw) _ (Nat.lt_succ_self _)⟩
  intro o0 h0
  have hk : ({ o' with rv := s.nextRv } : Obj).key = o.key := hu.key
  rw [hk, find_nextRv, ho] at h0
  cases h0
  exact hu.mono _ hlt

theorem step_bump_erase {s : St} (hw : WF s) (k : Key) : Step s (erase { s with nextRv := s.nextRv + 1 } k) :=
  ⟨(le_nextRv s _).trans (le_erase _ _), wf_erase (wf_bump hw) _⟩

/-! ### the operations -/

theorem step_commit {s : St} (hw : WF s) (o o' : Obj) (ho : find s o.key = some o) (hu : Obj.Upd o o') :
    Step s (commit s o o').1 := by
  unfold commit
  split
  · exact Step.refl hw
  · simp only []
    split
    · exact step_bump_erase hw _
    · exact step_bump_put hw o o' ho hu

theorem step_withObj {s : St} (hw : WF s) (k : Key) (rv : Nat) (f : Obj → Obj) (hf : ∀ o, Obj.Upd o (f o)) :
    Step s (withObj s k rv f).1 := by
  unfold withObj
  cases h : find s k with
  | none => exact Step.refl hw
  | some o =>
    simp only []
    split
    · exact Step.refl hw
    · have hk := find_key h
      exact step_commit hw o (f o) (by rw [hk]; exact h) (hf o)

theorem step_deleteWith {s : St} (hw : WF s) (o : Obj) (fins : List String) (ho : find s o.key = some o) :
    Step s (deleteWith s o fins) := by
  unfold deleteWith
  split
  · exact ⟨le_erase _ _, wf_erase hw _⟩
  · split
    · exact Step.refl hw
    · exact step_bump_put hw o { o with fins := fins, del := true } ho
        (.of_eq rfl rfl rfl rfl rfl rfl (fun _ => rfl) (fun _ h => h) rfl rfl)

theorem step_deleteObj {s : St} (hw : WF s) (o : Obj) (fg : Bool) (ho : find s o.key = some o) : Step s (deleteObj s o fg) :=
  step_deleteWith hw o _ ho

theorem step_deleteKey {s : St} (hw : WF s) (k : Key) (fg : Bool) : Step s (deleteKey s k fg) := by
  unfold deleteKey
  cases h : find s k with
  | none => exact Step.refl hw
  | some o =>
    have hk := find_key h
    exact step_deleteObj hw o fg (by rw [hk]; exact h)

theorem step_foldl {α : Type} (f : St → α → St) (hf : ∀ s a, WF s → Step s (f s a)) (l : List α) (s : St) (hw : WF s) :
    Step s (l.foldl f s) := by
  induction l generalizing s with
  | nil => exact Step.refl hw
  | cons a rest ih => exact (hf s a hw).trans (ih _ (hf s a hw).wf)

theorem step_exec {s : St} (hw : WF s) (r : Req) : Step s (exec s r).1 := by
  cases r with
  | get k => exact Step.refl hw
  | list kd => exact Step.refl hw
  | listUsagesOf kd n => exact Step.refl hw
  | listSel kd n => exact Step.refl hw
  | setStatus k rv conds =>
    exact step_withObj hw k rv _ (fun o => .of_eq rfl rfl rfl rfl rfl rfl id (fun _ h => h) rfl rfl)
  | removeFin k rv fin =>
    exact step_withObj hw k rv _ (fun o => .of_eq rfl rfl rfl rfl rfl rfl id (fun _ h => h) rfl rfl)
  | delete k fg =>
    simp only [exec]
    cases h : find s k with
    | none => exact Step.refl hw
    | some o =>
      have hk := find_key h
      exact step_deleteObj hw o fg (by rw [hk]; exact h)
  | deleteAll kd =>
    simp only [exec]
    exact step_foldl _ (fun s (o : Obj) hw => step_deleteKey hw o.key false) _ _ hw
  | lockRemove rv pkg =>
    exact step_withObj hw lockKey rv _
      (fun o => .of_eq rfl rfl rfl rfl rfl rfl id (fun p h => (List.mem_filter.mp h).1) rfl rfl)
  | unlabel k rv =>
    exact step_withObj hw k rv _ (fun o => .of_eq rfl rfl rfl rfl rfl rfl id (fun _ h => h) rfl rfl)
  | stop c =>
    simp only [exec]
    exact ⟨le_running s _ (fun c h => (List.mem_filter.mp h).1), wf_running hw _⟩
  | cacheDelete n => exact Step.refl hw

theorem le_exec {s : St} (hw : WF s) (r : Req) : Le s (exec s r).1 := (step_exec hw r).le

theorem step_envUnfin {s : St} (hw : WF s) (k : Key) (f : String) : Step s (envUnfin s k f) := by
  unfold envUnfin
  cases h : find s k with
  | none => exact Step.refl hw
  | some o =>
    have hk := find_key h
    exact step_commit hw o _ (by rw [hk]; exact h) (.of_eq rfl rfl rfl rfl rfl rfl id (fun _ h => h) rfl rfl)

/-- an edit changes `ref` / `flag` of an editable kind only -/
theorem step_envEdit {s : St} (hw : WF s) (k : Key) (e : Edit) : Step s (envEdit s k e) := by
  unfold envEdit
  split
  · rename_i hed
    cases h : find s k with
    | none => exact Step.refl hw
    | some o =>
      have hk := find_key h
      refine step_commit hw o _ (by rw [hk]; exact h) ?_
      have hne : ¬ editable o.key.kind = false := by rw [hk, hed]; simp
      cases e with
      | flip => exact ⟨rfl, rfl, rfl, rfl, rfl, rfl, id, fun _ h => h, fun h => absurd h hne⟩
      | ref v => exact ⟨rfl, rfl, rfl, rfl, rfl, rfl, id, fun _ h => h, fun h => absurd h hne⟩
  · exact Step.refl hw

theorem step_crash {s : St} (hw : WF s) : Step s (crash s) :=
  ⟨le_running s [] (fun _ h => by cases h), wf_running hw _⟩

theorem step_gcStep {s : St} (hw : WF s) : Step s (gcStep s) := by
  unfold gcStep
  simp only []
  refine Step.trans (step_foldl _ ?_ _ _ hw) (step_foldl _ ?_ _ _ ?_)
  · intro acc o hw
    cases h : find acc o.key with
    | none => exact Step.refl hw
    | some c =>
      simp only []
      have hk := find_key h
      have hc : find acc c.key = some c := by rw [hk]; exact h
      split
      · split
        · exact Step.refl hw
        · exact step_bump_put hw c { c with del := true } hc
            (.of_eq rfl rfl rfl rfl rfl rfl (fun _ => rfl) (fun _ h => h) rfl rfl)
      · exact ⟨le_erase _ _, wf_erase hw _⟩
  · intro acc o hw
    cases h : find acc o.key with
    | none => exact Step.refl hw
    | some c =>
      simp only []
      have hk := find_key h
      have hc : find acc c.key = some c := by rw [hk]; exact h
      split
      · split
        · exact step_bump_erase hw _
        · exact step_bump_put hw c { c with fins := c.fins.filter (· ≠ fgFin) } hc
            (.of_eq rfl rfl rfl rfl rfl rfl id (fun _ h => h) rfl rfl)
      · exact Step.refl hw
  · exact (step_foldl _ (fun acc (o : Obj) hw => by
      cases h : find acc o.key with
      | none => exact Step.refl hw
      | some c =>
        simp only []
        have hk := find_key h
        have hc : find acc c.key = some c := by rw [hk]; exact h
        split
        · split
          · exact Step.refl hw
          · exact step_bump_put hw c { c with del := true } hc
              (.of_eq rfl rfl rfl rfl rfl rfl (fun _ => rfl) (fun _ h => h) rfl rfl)
        · exact ⟨le_erase _ _, wf_erase hw _⟩) _ _ hw).wf

end Xp.C08

import Xp.Model.C11Hook
import Xp.Proofs.C11
/-
Helper lemmas for the call-level model of the XRD webhook (Model/C11Hook):
rely/guarantee weakest preconditions (`Xp.WpE`) of attempt / retryOnConflict /
the two loops under an ARBITRARY environment, and the fault-free evaluator used
for the quiet special case.
-/
namespace Xp.C11
open Xp

/-- the rely: other clients, the informer and the network may do anything -/
abbrev anyEnv : World → World → Prop := fun _ _ => True

/-- the guarantee: the webhook issues reads and dry-run writes only -/
abbrev harmlessG : World → Req → Prop := fun _ r => r.harmless = true

theorem exec_update_ok {accept : Crd → Bool} {w : World} {dry : Bool} {rv : Nat} {crd : Crd}
    (h : (execHook accept w (.update dry rv crd)).2 = .ok) : accept crd = true := by
  unfold execHook at h
  split at h
  · cases h
  · simp only at h
    split at h
    · cases h
    · split at h
      · cases h
      · split at h
        · cases h
        · rename_i hacc; simpa using hacc

theorem exec_create_ok {accept : Crd → Bool} {w : World} {dry : Bool} {crd : Crd}
    (h : (execHook accept w (.create dry crd)).2 = .ok) : accept crd = true := by
  unfold execHook at h
  split at h
  · cases h
  · simp only at h
    split at h
    · cases h
    · split at h
      · cases h
      · rename_i hacc; simpa using hacc

theorem errResp_ne_ok (accept : Crd → Bool) (o : Outcome) (r : Req) : (hookSem accept).errResp o r ≠ .ok := by
  cases o <;> simp [hookSem]

/-- a write call followed by `ret`: its reply is `ok` only if the server accepted the CRD -/
theorem wp_write (accept : Crd → Bool) (r : Req) (crd : Crd) (hr : r.harmless = true)
    (hok : ∀ w, ((hookSem accept).exec w r).2 = .ok → accept crd = true) (s : World) :
    WpE (hookSem accept) anyEnv harmlessG (.call r .ret) (fun _ x => x = .ok → accept crd = true) s := by
  intro s' _
  refine ⟨hr, ?_, ?_, ?_⟩
  · exact hok s'
  · intro h; exact absurd h (errResp_ne_ok accept .fail r)
  · intro h; exact absurd h (errResp_ne_ok accept .conflict r)

theorem wp_attempt (accept : Crd → Bool) (crd : Crd) (s : World) :
    WpE (hookSem accept) anyEnv harmlessG (attempt crd) (fun _ x => x = .ok → accept crd = true) s := by
  have key : ∀ (x : Resp) (t : World), WpE (hookSem accept) anyEnv harmlessG
      (match x with
        | .found rv => Prog.call (.update true rv crd) .ret
        | .err .notFound => .call (.create true crd) .ret
        | .err e => .ret (.err e)
        | .ok => .ret (.err .internal)) (fun _ x => x = .ok → accept crd = true) t := by
    intro x t
    cases x with
    | found rv => exact wp_write accept _ crd rfl (fun w h => exec_update_ok h) t
    | ok => intro h; cases h
    | err e =>
      cases e <;> first
        | exact wp_write accept _ crd rfl (fun w h => exec_create_ok h) t
        | (intro h; cases h)
  intro s' _
  refine ⟨rfl, ?_, ?_, ?_⟩
  · exact key ((hookSem accept).exec s' (.get crd.name)).2 _
  · exact key ((hookSem accept).errResp .fail (.get crd.name)) _
  · exact key ((hookSem accept).errResp .conflict (.get crd.name)) _

theorem wp_retry (accept : Crd → Bool) (crd : Crd) (n : Nat) (hn : 1 ≤ n) (s : World) :
    WpE (hookSem accept) anyEnv harmlessG (retryOnConflict n crd) (fun _ x => x = .ok → accept crd = true) s := by
  induction n generalizing s with
  | zero => omega
  | succ n ih =>
    unfold retryOnConflict
    apply wpE_bind
    refine wpE_mono _ _ _ _ (fun _ _ h => h) _ _ _ ?_ s (wp_attempt accept crd s)
    intro t a ha
    cases a with
    | found rv => intro h; cases h
    | ok => exact ha
    | err e =>
      cases e <;> first
        | (intro h; cases h)
        | (by_cases h0 : n = 0
           · simp only [h0, if_true]; intro h; cases h
           · simp only [h0, if_false]; exact ih (by omega) t)

theorem wp_dryRunAllUpdate (accept : Crd → Bool) (steps : Nat) (hs : 1 ≤ steps) (crds : List (String × Crd)) (s : World) :
    WpE (hookSem accept) anyEnv harmlessG (dryRunAllUpdate steps crds)
      (fun _ v => v = .allowed → ∀ p ∈ crds, accept p.2 = true) s := by
  induction crds generalizing s with
  | nil => intro _ p hp; cases hp
  | cons x rest ih =>
    obtain ⟨w, c⟩ := x
    unfold dryRunAllUpdate
    apply wpE_bind
    refine wpE_mono _ _ _ _ (fun _ _ h => h) _ _ _ ?_ s (wp_retry accept c steps hs s)
    intro t a ha
    cases a with
    | found rv => intro h; unfold rewriteError at h; split at h <;> cases h
    | err e => intro h; unfold rewriteError at h; split at h <;> cases h
    | ok =>
      refine wpE_mono _ _ _ _ (fun _ _ h => h) _ _ _ ?_ t (ih t)
      intro _ v hv hall p hp
      cases List.mem_cons.mp hp with
      | inl e => subst e; exact ha rfl
      | inr h' => exact hv hall p h'

theorem wp_dryRunAllCreate (accept : Crd → Bool) (crds : List (String × Crd)) (s : World) :
    WpE (hookSem accept) anyEnv harmlessG (dryRunAllCreate crds)
      (fun _ v => v = .allowed → ∀ p ∈ crds, accept p.2 = true) s := by
  induction crds generalizing s with
  | nil => intro _ p hp; cases hp
  | cons x rest ih =>
    obtain ⟨w, c⟩ := x
    unfold dryRunAllCreate
    have key : ∀ (a : Resp) (t : World), (a = .ok → accept c = true) →
        WpE (hookSem accept) anyEnv harmlessG
          (match a with
            | .ok => dryRunAllCreate rest
            | .err e => .ret (rewriteError w e)
            | .found _ => .ret (rewriteError w .internal))
          (fun _ v => v = .allowed → ∀ p ∈ (w, c) :: rest, accept p.2 = true) t := by
      intro a t ha
      cases a with
      | found rv => intro h; unfold rewriteError at h; split at h <;> cases h
      | err e => intro h; unfold rewriteError at h; split at h <;> cases h
      | ok =>
        refine wpE_mono _ _ _ _ (fun _ _ h => h) _ _ _ ?_ t (ih t)
        intro _ v hv hall p hp
        cases List.mem_cons.mp hp with
        | inl e => subst e; exact ha rfl
        | inr h' => exact hv hall p h'
    intro s' _
    refine ⟨rfl, ?_, ?_, ?_⟩
    · exact key ((hookSem accept).exec s' (.create true c)).2 _ (fun h => exec_create_ok h)
    · exact key ((hookSem accept).errResp .fail (.create true c)) _ (fun h => absurd h (errResp_ne_ok accept .fail _))
    · exact key ((hookSem accept).errResp .conflict (.create true c)) _ (fun h => absurd h (errResp_ne_ok accept .conflict _))

/-- what an allowed request means -/
def AllowedMeans (errs : List String) (xrd : Xrd) (accept : Crd → Bool) (v : Verdict) : Prop :=
  v = .allowed → errs = [] ∧ ∃ crds, allCrds xrd = .ok crds ∧ ∀ p ∈ crds, accept p.2 = true

theorem wp_hook (accept : Crd → Bool) (errs : List String) (xrd : Xrd)
    (loop : List (String × Crd) → Prog Req Resp Verdict)
    (hloop : ∀ crds s, WpE (hookSem accept) anyEnv harmlessG (loop crds)
      (fun _ v => v = .allowed → ∀ p ∈ crds, accept p.2 = true) s) (s : World) :
    WpE (hookSem accept) anyEnv harmlessG (hook errs xrd loop) (fun _ v => AllowedMeans errs xrd accept v) s := by
  unfold hook
  by_cases he : errs = []
  · simp only [he, ne_eq, not_true_eq_false, if_false]
    cases hc : allCrds xrd with
    | error e => obtain ⟨w, e'⟩ := e; intro h; cases h
    | ok crds =>
      refine wpE_mono _ _ _ _ (fun _ _ h => h) _ _ _ ?_ s (hloop crds s)
      intro _ v hv hall
      exact ⟨rfl, crds, hc, hv hall⟩
  · simp only [ne_eq, he, not_false_eq_true, if_true]
    intro h; cases h

/-! ### fault-free, interference-free evaluation -/

def runOk (sem : Sem S Req Resp) : Prog Req Resp α → S → S × α
  | .ret a, s => (s, a)
  | .call r c, s => runOk sem (c (sem.exec s r).2) (sem.exec s r).1

theorem run_allOk (sem : Sem S Req Resp) (k : Nat) (p : Prog Req Resp α) (s : S) :
    run sem Plan.allOk k p s = ((runOk sem p s).1, some (runOk sem p s).2) := by
  induction p generalizing k s with
  | ret a => rfl
  | call r c ih => simp only [run, Plan.allOk, runOk]; exact ih _ _ _

theorem runOk_bind {β : Type} (sem : Sem S Req Resp) (p : Prog Req Resp α) (f : α → Prog Req Resp β) (s : S) :
    runOk sem (Prog.bind p f) s = runOk sem (f (runOk sem p s).2) (runOk sem p s).1 := by
  induction p generalizing s with
  | ret a => rfl
  | call r c ih => simp only [Prog.bind, runOk]; exact ih _ _

/-- in a quiet world one attempt is answered by the server's verdict, and the world stays as it is -/
theorem runOk_attempt_quiet (accept : Crd → Bool) (crd : Crd) (w : World) (hq : w.quiet) :
    runOk (hookSem accept) (attempt crd) w = (w, if accept crd then .ok else .err .invalid) := by
  obtain ⟨hi, hc⟩ := hq
  unfold attempt
  simp only [runOk, hookSem, execHook, hi]
  cases hl : lookup crd.name w.live with
  | none =>
    have : lookup crd.name w.cache = none := by rw [hc, hl]
    simp only [this, runOk, execHook, hi, hl]
    cases accept crd <;> simp
  | some rv =>
    have : lookup crd.name w.cache = some rv := by rw [hc, hl]
    simp only [this, runOk, execHook, hi, hl]
    cases accept crd <;> simp

theorem runOk_retry_quiet (accept : Crd → Bool) (crd : Crd) (n : Nat) (w : World) (hq : w.quiet) :
    runOk (hookSem accept) (retryOnConflict (n+1) crd) w = (w, if accept crd then .ok else .err .invalid) := by
  unfold retryOnConflict
  rw [runOk_bind, runOk_attempt_quiet accept crd w hq]
  cases accept crd <;> simp [runOk]

theorem dryRun_abs (accept : Crd → Bool) (n : Nat) (crds : List (String × Crd)) (w : World) (hq : w.quiet) :
    (runOk (hookSem accept) (dryRunAllUpdate (n+1) crds) w).1 = w ∧
    (runOk (hookSem accept) (dryRunAllUpdate (n+1) crds) w).2.abs = dryRun accept crds := by
  induction crds with
  | nil => exact ⟨rfl, rfl⟩
  | cons x rest ih =>
    obtain ⟨wh, c⟩ := x
    unfold dryRunAllUpdate
    rw [runOk_bind, runOk_retry_quiet accept c n w hq]
    cases ha : accept c with
    | true => simpa [dryRun, ha] using ih
    | false => simp [dryRun, ha, runOk, rewriteError, Verdict.abs]

theorem dryRunCreate_abs (accept : Crd → Bool) (crds : List (String × Crd)) (w : World) (hq : w.quiet)
    (hnew : ∀ p ∈ crds, lookup p.2.name w.live = none) :
    (runOk (hookSem accept) (dryRunAllCreate crds) w).1 = w ∧
    (runOk (hookSem accept) (dryRunAllCreate crds) w).2.abs = dryRun accept crds := by
  induction crds with
  | nil => exact ⟨rfl, rfl⟩
  | cons x rest ih =>
    obtain ⟨wh, c⟩ := x
    have hl : lookup c.name w.live = none := hnew (wh, c) (List.mem_cons_self ..)
    have hexec : (hookSem accept).exec w (.create true c) = (w, if accept c then .ok else .err .invalid) := by
      simp only [hookSem, execHook, hq.1, hl]
      cases accept c <;> simp
    unfold dryRunAllCreate
    simp only [runOk, hexec]
    cases ha : accept c with
    | true => simpa [dryRun, ha] using ih (fun p hp => hnew p (List.mem_cons_of_mem _ hp))
    | false => simp [dryRun, ha, runOk, rewriteError, Verdict.abs]

/-! ### what the webhook submits: a property of EVERY request on EVERY path of the program tree -/

/-- every request the program can ever issue (whatever the replies) satisfies `P` -/
def ProgAll {Rq Rs α : Type} (P : Rq → Prop) : Prog Rq Rs α → Prop
  | .ret _ => True
  | .call r k => P r ∧ ∀ x, ProgAll P (k x)

theorem progAll_mono {Rq Rs α : Type} {P Q : Rq → Prop} (h : ∀ r, P r → Q r) (p : Prog Rq Rs α) (hp : ProgAll P p) :
    ProgAll Q p := by
  induction p with
  | ret a => trivial
  | call r k ih => exact ⟨h r hp.1, fun x => ih x (hp.2 x)⟩

theorem progAll_bind {Rq Rs α β : Type} {P : Rq → Prop} (p : Prog Rq Rs α) (f : α → Prog Rq Rs β)
    (hp : ProgAll P p) (hf : ∀ a, ProgAll P (f a)) : ProgAll P (Prog.bind p f) := by
  induction p with
  | ret a => exact hf a
  | call r k ih => exact ⟨hp.1, fun x => ih x (hp.2 x)⟩

/-- ... hence every request the run actually issues, under any environment and fault plan -/
theorem ownE_all {S Rq Rs α : Type} (sem : Sem S Rq Rs) (env : Env S) (plan : Plan) {P : Rq → Prop}
    (p : Prog Rq Rs α) (h : ProgAll P p) (k : Nat) (s : S) : ∀ x ∈ ownE sem env plan k p s, P x.2 := by
  induction p generalizing k s with
  | ret a => intro x hx; simp [ownE] at hx
  | call r c ih =>
    intro x hx
    unfold ownE at hx
    split at hx
    · rcases List.mem_cons.mp hx with e | e
      · subst e; exact h.1
      · exact ih _ (h.2 _) _ _ x e
    · exact ih _ (h.2 _) _ _ x hx
    · exact ih _ (h.2 _) _ _ x hx
    · simp at hx
    · simp at hx; subst hx; exact h.1

/-- the request is about the derived CRD `c`: a read of its name, or a DRY-RUN write carrying exactly `c` -/
def Req.about (c : Crd) : Req → Prop
  | .get n => n = c.name
  | .update dry _ c' => dry = true ∧ c' = c
  | .create dry c' => dry = true ∧ c' = c

theorem all_attempt (c : Crd) : ProgAll (Req.about c) (attempt c) := by
  refine ⟨rfl, fun x => ?_⟩
  cases x with
  | found rv => exact ⟨⟨rfl, rfl⟩, fun _ => trivial⟩
  | ok => trivial
  | err e => cases e <;> first | exact ⟨⟨rfl, rfl⟩, fun _ => trivial⟩ | trivial

theorem all_retry (c : Crd) : ∀ n, ProgAll (Req.about c) (retryOnConflict n c)
  | 0 => trivial
  | n+1 => by
    unfold retryOnConflict
    refine progAll_bind _ _ (all_attempt c) (fun r => ?_)
    split
    · split
      · trivial
      · exact all_retry c n
    · trivial

theorem all_dryRunAllUpdate (steps : Nat) (all : List (String × Crd)) :
    ∀ crds, (∀ p ∈ crds, p ∈ all) → ProgAll (fun r => ∃ p ∈ all, Req.about p.2 r) (dryRunAllUpdate steps crds)
  | [], _ => trivial
  | (w, c) :: rest, hsub => by
    unfold dryRunAllUpdate
    refine progAll_bind _ _ (progAll_mono (fun r hr => ⟨(w, c), hsub _ (List.mem_cons_self ..), hr⟩) _ (all_retry c steps)) (fun r => ?_)
    cases r with
    | ok => exact all_dryRunAllUpdate steps all rest (fun p hp => hsub p (List.mem_cons_of_mem _ hp))
    | err e => trivial
    | found rv => trivial

theorem all_dryRunAllCreate (all : List (String × Crd)) :
    ∀ crds, (∀ p ∈ crds, p ∈ all) → ProgAll (fun r => ∃ p ∈ all, Req.about p.2 r) (dryRunAllCreate crds)
  | [], _ => trivial
  | (w, c) :: rest, hsub => by
    unfold dryRunAllCreate
    refine ⟨⟨(w, c), hsub _ (List.mem_cons_self ..), rfl, rfl⟩, fun r => ?_⟩
    cases r with
    | ok => exact all_dryRunAllCreate all rest (fun p hp => hsub p (List.mem_cons_of_mem _ hp))
    | err e => trivial
    | found rv => trivial

/-- what a request of the webhook is: about one of the CRDs derived from `xrd` -/
def AboutDerived (xrd : Xrd) (r : Req) : Prop :=
  ∃ crds, allCrds xrd = .ok crds ∧ ∃ p ∈ crds, Req.about p.2 r

theorem all_hook (errs : List String) (xrd : Xrd) (loop : List (String × Crd) → Prog Req Resp Verdict)
    (hloop : ∀ crds, ProgAll (fun r => ∃ p ∈ crds, Req.about p.2 r) (loop crds)) :
    ProgAll (AboutDerived xrd) (hook errs xrd loop) := by
  unfold hook
  split
  · trivial
  · cases hc : allCrds xrd with
    | error e => obtain ⟨a, b⟩ := e; trivial
    | ok crds => exact progAll_mono (fun r ⟨p, hp, hr⟩ => ⟨crds, hc, p, hp, hr⟩) _ (hloop crds)

end Xp.C11

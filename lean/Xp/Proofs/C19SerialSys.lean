import Xp.Proofs.C19Serial
/-
C19 helper lemmas, part 9: the serial system invariant (MaxConcurrentReconciles = 1)
is preserved by every action, for every schedule and fault plan.
-/
namespace Xp.C19

structure SerialInv (sys : Sys) : Prop where
  base : SysInv sys
  one : sys.maxc = 1
  marker : Marker sys.store
  facts : ∀ t ∈ sys.threads, serialFacts sys.store t.uname t.u t.pc

theorem SerialInv.init : SerialInv (Sys.init 1) :=
  ⟨SysInv.init 1, rfl, Marker.empty, by simp [Sys.init]⟩

/-- the Usage a reconcile holds the finalizer of is in the store with the same spec.of -/
theorem holder {s : Store} {t : Thread} (hb : ThreadBase s t) (hf : t.u.fin = true) :
    ∃ x ∈ s.usages, x.of = t.u.of := by
  obtain ⟨x, hx, _, _, hxo, _⟩ := hb.hold hf
  exact ⟨x, hx, hxo⟩

theorem serialFacts_resChange {s s' : Store} {t : Thread} (ht : TInv s t) (h : serialFacts s t.uname t.u t.pc)
    (hu : s'.usages = s.usages)
    (hl : ∀ u, Labelled s u → (∃ x ∈ s.usages, x.of = u.of) → Labelled s' u) :
    serialFacts s' t.uname t.u t.pc := by
  obtain ⟨nm, pc, u, orv, ord, seen⟩ := t
  cases pc with
  | dUnlabel used => intro y hy; rw [hu] at hy; exact h y hy
  | getUsing =>
    rcases ht with h' | ⟨hb, hf⟩
    · cases h'
    · exact hl u h (holder hb hf.2.2.2.1)
  | addOwner ref =>
    rcases ht with h' | ⟨hb, hf⟩
    · cases h'
    · exact hl u h (holder hb hf.2.2.2.1)
  | status =>
    rcases ht with h' | ⟨hb, hf⟩
    · cases h'
    · exact hl u h (holder hb hf.2.2.2.1)
  | _ => trivial

theorem serialFacts_usageChange {s s' : Store} {nm : String} {u : Usage} {pc : Pc} (h : serialFacts s nm u pc)
    (hr : s'.res = s.res)
    (hy : ∀ y' ∈ s'.usages,
      (∃ y ∈ s.usages, y.name = y'.name ∧ y.of = y'.of ∧ y.ready = y'.ready) ∨ y'.ready = false) :
    serialFacts s' nm u pc := by
  cases pc with
  | dUnlabel used =>
    intro y' hy' hi
    rcases hy y' hy' with ⟨y, hys, hn, ho, hrd⟩ | hnr
    · have hi' : y.indexedBy (indexValue u.of.av u.of.kind u.of.name) = true := by
        simp only [Usage.indexedBy_iff] at hi ⊢
        rw [ho]; exact hi
      rcases h y hys hi' with h1 | h2
      · left; rw [← hn]; exact h1
      · right; rw [← hrd]; exact h2
    · right; exact hnr
  | getUsing => exact Labelled.sameRes h hr
  | addOwner ref => exact Labelled.sameRes h hr
  | status => exact Labelled.sameRes h hr
  | _ => trivial

theorem createUsage_from (s : Store) (nm : String) (of : RSpec) (b : Option RSpec) (r : Option String) (c : Bool)
    (ct : String) : ∀ y' ∈ (s.createUsage nm of b r c ct).1.usages,
      (∃ y ∈ s.usages, y.name = y'.name ∧ y.of = y'.of ∧ y.ready = y'.ready) ∨ y'.ready = false := by
  intro y' hy'
  unfold Store.createUsage at hy'
  split at hy'
  · exact .inl ⟨y', hy', rfl, rfl, rfl⟩
  · split at hy'
    · exact .inl ⟨y', hy', rfl, rfl, rfl⟩
    · simp only [List.mem_append, List.mem_singleton] at hy'
      rcases hy' with hy' | rfl
      · exact .inl ⟨y', hy', rfl, rfl, rfl⟩
      · exact .inr rfl

theorem deleteUsage_from (s : Store) (nm : String) : ∀ y' ∈ (s.deleteUsage nm).1.usages,
      (∃ y ∈ s.usages, y.name = y'.name ∧ y.of = y'.of ∧ y.ready = y'.ready) ∨ y'.ready = false := by
  intro y' hy'
  unfold Store.deleteUsage at hy'
  split at hy'
  · exact .inl ⟨y', hy', rfl, rfl, rfl⟩
  · next x hg =>
    have hx := getU_some hg
    split at hy'
    · split at hy'
      · exact .inl ⟨y', hy', rfl, rfl, rfl⟩
      · rw [bump_usages] at hy'
        rcases mem_putU.mp hy' with ⟨hy'', _⟩ | ⟨rfl, _⟩
        · exact .inl ⟨y', hy'', rfl, rfl, rfl⟩
        · exact .inl ⟨x, hx.1, rfl, rfl, rfl⟩
    · exact .inl ⟨y', (mem_dropU.mp hy').1, rfl, rfl, rfl⟩

theorem gcUsage_from (s : Store) (nm : String) : ∀ y' ∈ (s.gcUsage nm).1.usages,
      (∃ y ∈ s.usages, y.name = y'.name ∧ y.of = y'.of ∧ y.ready = y'.ready) ∨ y'.ready = false := by
  unfold Store.gcUsage
  split
  · exact fun y' hy' => .inl ⟨y', hy', rfl, rfl, rfl⟩
  · split
    · exact fun y' hy' => .inl ⟨y', hy', rfl, rfl, rfl⟩
    · split
      · exact fun y' hy' => .inl ⟨y', hy', rfl, rfl, rfl⟩
      · exact deleteUsage_from s nm

theorem reapplyUsage_from (s : Store) (nm c : String) : ∀ y' ∈ (s.reapplyUsage nm c).1.usages,
      (∃ y ∈ s.usages, y.name = y'.name ∧ y.of = y'.of ∧ y.ready = y'.ready) ∨ y'.ready = false := by
  intro y' hy'
  unfold Store.reapplyUsage at hy'
  split at hy'
  · exact .inl ⟨y', hy', rfl, rfl, rfl⟩
  · next x hg =>
    have hx := getU_some hg
    split at hy'
    · exact .inl ⟨y', hy', rfl, rfl, rfl⟩
    · split at hy'
      · exact .inl ⟨y', hy', rfl, rfl, rfl⟩
      · split at hy'
        · exact .inl ⟨y', hy', rfl, rfl, rfl⟩
        · rw [bump_usages] at hy'
          rcases mem_putU.mp hy' with ⟨hy'', _⟩ | ⟨rfl, _⟩
          · exact .inl ⟨y', hy'', rfl, rfl, rfl⟩
          · exact .inl ⟨x, hx.1, rfl, rfl, rfl⟩

theorem gcUsage_res (s : Store) (nm : String) : (s.gcUsage nm).1.res = s.res := by
  unfold Store.gcUsage
  split
  · rfl
  · split
    · rfl
    · split
      · rfl
      · exact deleteUsage_res s nm

theorem SerialInv.envStep {sys : Sys} (h : SerialInv sys) {s' : Store} (hb : SysInv { sys with store := s' })
    (hm : Marker s') (hf : ∀ t ∈ sys.threads, serialFacts s' t.uname t.u t.pc) :
    SerialInv { sys with store := s' } := ⟨hb, h.one, hm, hf⟩

theorem only_thread {sys : Sys} (h : SerialInv sys) {t : Thread} (ht : t ∈ sys.threads) :
    ∀ y ∈ sys.threads, y = t := by
  have hc := h.base.cap
  rw [h.one] at hc
  intro y hy
  match hl : sys.threads, hc, ht, hy with
  | [a], _, ht, hy =>
    simp only [List.mem_singleton] at ht hy
    rw [ht, hy]
  | [], _, ht, _ => cases ht
  | _ :: _ :: _, hc, _, _ => simp at hc

theorem SerialInv.exec {sys : Sys} (h : SerialInv sys) (a : Action) (hf : a.fresh = true) :
    SerialInv (sys.exec a).1 := by
  have hbase := h.base.exec a hf
  cases a with
  | cr g k n l iu c =>
    exact h.envStep hbase (h.marker.createRes g k n l iu c) fun t ht =>
      serialFacts_resChange (h.base.threads t ht) (h.facts t ht) (SameUsages.createRes _ g k n l iu c).usages
        (fun u hl _ => hl.createRes g k n l iu c)
  | cu n o b r c ct =>
    exact h.envStep hbase (h.marker.createUsage n o b r c ct) fun t ht =>
      serialFacts_usageChange (h.facts t ht) (createUsage_res _ n o b r c ct) (createUsage_from _ n o b r c ct)
  | du n =>
    exact h.envStep hbase (h.marker.deleteUsage n) fun t ht =>
      serialFacts_usageChange (h.facts t ht) (deleteUsage_res _ n) (deleteUsage_from _ n)
  | dr g k n p lo po st =>
    have hst : st = none := by
      cases st with
      | none => rfl
      | some _ => simp [Action.fresh] at hf
    subst hst
    exact h.envStep hbase (h.marker.deleteRes g k n p lo po) fun t ht =>
      serialFacts_resChange (h.base.threads t ht) (h.facts t ht) (SameUsages.deleteRes _ g k n p lo po none).usages
        (fun u hl hidx => hl.deleteRes hidx g k n p lo po)
  | gcU n =>
    exact h.envStep hbase (h.marker.gcUsage n) fun t ht =>
      serialFacts_usageChange (h.facts t ht) (gcUsage_res _ n) (gcUsage_from _ n)
  | xa n c =>
    exact h.envStep hbase (h.marker.reapplyUsage n c) fun t ht =>
      serialFacts_usageChange (h.facts t ht) (reapplyUsage_res _ n c) (reapplyUsage_from _ n c)
  | gcR g k n =>
    exact h.envStep hbase (h.marker.gcRes g k n) fun t ht =>
      serialFacts_resChange (h.base.threads t ht) (h.facts t ht) (SameUsages.gcRes _ g k n).usages
        (fun u hl hidx => hl.gcRes hidx g k n)
  | er g k n l =>
    exact h.envStep hbase (h.marker.touchRes h.base.store g k n l) fun t ht =>
      serialFacts_resChange (h.base.threads t ht) (h.facts t ht) (SameUsages.touchRes _ g k n l).usages
        (fun u hl _ => hl.touchRes h.base.store g k n l)
  | stepW n o c => simp [Action.fresh] at hf
  | xaRaw n c => simp [Action.fresh] at hf
  | ef n0 => simp [Action.fresh] at hf
  | start n =>
    refine ⟨hbase, ?_, ?_, ?_⟩
    · simp only [Sys.exec]
      split
      · exact h.one
      · split
        · exact h.one
        · exact h.one
    · simp only [Sys.exec]
      split
      · exact h.marker
      · split
        · exact h.marker
        · exact h.marker
    · simp only [Sys.exec]
      split
      · exact h.facts
      · split
        · exact h.facts
        · intro t ht
          simp only [List.mem_append, List.mem_singleton] at ht
          rcases ht with ht | rfl
          · exact h.facts t ht
          · trivial
  | step n o st =>
    have hst : st = none := by
      cases st with
      | none => rfl
      | some _ => simp [Action.fresh] at hf
    subst hst
    refine ⟨hbase, ?_, ?_, ?_⟩
    · simp only [Sys.exec]
      split
      · exact h.one
      · split <;> exact h.one
    all_goals
      simp only [Sys.exec]
      split
      · first | exact h.marker | exact h.facts
      · next t hsome =>
        obtain ⟨htm, htn⟩ := thread?_some hsome
        have hes := exec_serial h.base.store h.marker (h.base.threads t htm) (h.facts t htm)
        have honly := only_thread h htm
        have hstore : Marker (t.step o none sys.store).store := by
          unfold Thread.step
          cases o <;> first | exact hes.1 | exact h.marker
        first
        | (split <;> exact hstore)
        | (split
           · next t' hafter =>
             intro x hx
             simp only [List.mem_map] at hx
             obtain ⟨y, hy, rfl⟩ := hx
             have hyt := honly y hy
             subst hyt
             simp only [htn, beq_self_eq_true, if_true]
             have : AfterSerial (y.step o none sys.store).store (y.step o none sys.store).after := by
               unfold Thread.step
               cases o with
               | ok => simp only [staleResp_none]; exact hes.2
               | fail =>
                 obtain ⟨r, hr⟩ := next_fault y sys.store.usages .fail
                 simp only [hr]; trivial
               | conflict =>
                 obtain ⟨r, hr⟩ := next_fault y sys.store.usages .conflict
                 simp only [hr]; trivial
               | crashBefore => trivial
               | crashAfter => trivial
             rw [hafter] at this
             exact this
           · intro x hx
             simp only [List.mem_filter, Bool.not_eq_eq_eq_not, Bool.not_true, beq_eq_false_iff_ne] at hx
             have := honly x hx.1
             rw [this] at hx
             exact absurd htn hx.2)

theorem SerialInv.run {sys : Sys} (h : SerialInv sys) (as : List Action) (hf : listFresh as) :
    SerialInv (sys.run as) := by
  induction as generalizing sys with
  | nil => exact h
  | cons a as ih =>
    exact ih (h.exec a (hf a List.mem_cons_self)) (fun b hb => hf b (List.mem_cons_of_mem _ hb))

end Xp.C19

import Xp.Proofs.C13f
/-
C13 helper lemmas, part g: progress (no deadlock). Valid for both code variants: it only
needs mutual exclusion and the shape of the lock protocol.
-/
namespace Xp.C13

def Thread.finished (t : Thread) : Prop := ∃ r, t.pc = .done r

theorem Held.compat_nothing (a : Held) : a.compat ⟨.n, none⟩ = true := by
  obtain ⟨e, c⟩ := a
  cases e <;> cases c <;> rfl

theorem isPerm_self (l : List Wid) : l.isPerm l = true := List.isPerm_iff.2 (List.Perm.refl l)

theorem spLoop_pick {srcs : List (Wid × Nat)} (h : srcs ≠ []) : ∃ w reg, aget w srcs = some reg := by
  cases srcs with
  | nil => exact absurd rfl h
  | cons p m => obtain ⟨k, v⟩ := p; exact ⟨k, v, by simp [aget_cons]⟩

/-- a thread whose every lock request would be granted can step -/
theorem next_enabled_of_free {cfg : Cfg} {s : Sys} {i : Nat} {t : Thread}
    (hfree : ∀ pc' : Pc, free s i pc'.held = true) (hnd : ¬ t.finished) :
    ∃ ch r, next cfg s i t ch = some r := by
  obtain ⟨op, pc⟩ := t
  cases pc
  case done r => exact absurd ⟨r, rfl⟩ hnd
  case idle =>
    cases op <;> simp only [next, acquire, hfree, if_true]
    case gc n refs => exact ⟨{}, _, rfl⟩
    all_goals exact ⟨{}, _, rfl⟩
  case spLoop n cid =>
    simp only [next]
    cases hs : srcsOf s cid with
    | nil => exact ⟨{}, _, rfl⟩
    | cons p m =>
      obtain ⟨w, reg, hw⟩ := spLoop_pick (srcs := p :: m) (by simp)
      refine ⟨{ pick := w }, (.spGI n cid w reg, .nop), ?_⟩
      simp only [hw]
  case gcCRrel cid l n refs =>
    simp only [next]
    cases hg : gcStop cfg l refs with
    | nil => exact ⟨{}, _, rfl⟩
    | cons w ws =>
      refine ⟨{ perm := w :: ws }, (.xw0 n (w :: ws), .nop), ?_⟩
      simp only [isPerm_self, if_true]
  case swLU o ws => cases o <;> exact ⟨{}, _, rfl⟩
  case xwLU o ws => cases o <;> exact ⟨{}, _, rfl⟩
  case gwLU o => cases o <;> exact ⟨{}, _, rfl⟩
  case gcLU o n refs => cases o <;> exact ⟨{}, _, rfl⟩
  case swCRrel cid ws a start => cases start <;> exact ⟨{}, _, rfl⟩
  case xwCRrel cid ws stop => cases stop <;> exact ⟨{}, _, rfl⟩
  case swAH cid a st wid rest h => exact ⟨{ fault := true }, (.relC cid .err, .nop), by simp [next]⟩
  all_goals (simp only [next, acquire, hfree, if_true]; exact ⟨{}, _, rfl⟩)

/-- a thread that holds a lock can step, provided the one request made while holding a lock
(Stop asking for the controller's lock while holding the engine's) is granted -/
theorem next_enabled_of_held {cfg : Cfg} {s : Sys} {i : Nat} {t : Thread}
    (hheld : t.pc.held ≠ ⟨.n, none⟩)
    (hspc : ∀ n cid, t.pc = .spC n cid → free s i ⟨.w, some (cid, .w)⟩ = true) :
    ∃ ch r, next cfg s i t ch = some r := by
  obtain ⟨op, pc⟩ := t
  cases pc
  case spC n cid =>
    have := hspc n cid rfl
    simp only [next, acquire, Pc.held, this, if_true]
    exact ⟨{}, _, rfl⟩
  case spLoop n cid =>
    simp only [next]
    cases hs : srcsOf s cid with
    | nil => exact ⟨{}, _, rfl⟩
    | cons p m =>
      obtain ⟨w, reg, hw⟩ := spLoop_pick (srcs := p :: m) (by simp)
      refine ⟨{ pick := w }, (.spGI n cid w reg, .nop), ?_⟩
      simp only [hw]
  case gcCRrel cid l n refs =>
    simp only [next]
    cases hg : gcStop cfg l refs with
    | nil => exact ⟨{}, _, rfl⟩
    | cons w ws =>
      refine ⟨{ perm := w :: ws }, (.xw0 n (w :: ws), .nop), ?_⟩
      simp only [isPerm_self, if_true]
  case swLU o ws => cases o <;> exact ⟨{}, _, rfl⟩
  case xwLU o ws => cases o <;> exact ⟨{}, _, rfl⟩
  case gwLU o => cases o <;> exact ⟨{}, _, rfl⟩
  case gcLU o n refs => cases o <;> exact ⟨{}, _, rfl⟩
  case swCRrel cid ws a start => cases start <;> exact ⟨{}, _, rfl⟩
  case xwCRrel cid ws stop => cases stop <;> exact ⟨{}, _, rfl⟩
  case swAH cid a st wid rest h => exact ⟨{ fault := true }, (.relC cid .err, .nop), by simp [next]⟩
  all_goals first
    | (exact absurd rfl hheld)
    | (simp only [next]; exact ⟨{}, _, rfl⟩)

/-- No deadlock: in a state with mutual exclusion, if some thread has not finished then some
thread can step. -/
theorem progress_of_mutex {cfg : Cfg} {s : Sys} (hm : Mutex s)
    (h : ∃ (i : Nat) (t : Thread), s.threads[i]? = some t ∧ ¬ t.finished) :
    ∃ i ch s', step cfg s i ch = some s' := by
  have stepOf : ∀ (j : Nat) (tj : Thread), s.threads[j]? = some tj → (∃ ch r, next cfg s j tj ch = some r) →
      ∃ i ch s', step cfg s i ch = some s' := by
    intro j tj hj ⟨ch, r, hr⟩
    obtain ⟨pc', act⟩ := r
    exact ⟨j, ch, act.apply { s with threads := s.threads.set j { tj with pc := pc' } }, by simp only [step, hj, hr]⟩
  by_cases hA : ∃ (j : Nat) (tj : Thread), s.threads[j]? = some tj ∧ tj.pc.held ≠ ⟨.n, none⟩
  · -- some thread holds a lock. Prefer one that holds a controller lock.
    by_cases hC : ∃ (j : Nat) (tj : Thread), s.threads[j]? = some tj ∧ tj.pc.held.c ≠ none
    · obtain ⟨j, tj, hj, hc⟩ := hC
      apply stepOf j tj hj
      apply next_enabled_of_held
      · intro e; rw [e] at hc; exact hc rfl
      · intro n cid hpc; rw [hpc] at hc; exact absurd rfl hc
    · obtain ⟨j, tj, hj, hh⟩ := hA
      apply stepOf j tj hj
      apply next_enabled_of_held hh
      intro n cid hpc
      rw [free_iff]
      intro k tk hk hkj
      have hcn : tk.pc.held.c = none := by
        apply Classical.byContradiction
        intro hx; exact hC ⟨k, tk, hk, hx⟩
      have he : tk.pc.held.e = .n := hm.excl_e (fun e => hkj e.symm) hj hk (by rw [hpc]; rfl)
      simp only [Held.compat, he, hcn, Mode.compat, Bool.and_self]
  · -- nobody holds a lock: every request is granted
    obtain ⟨i, t, hi, hnd⟩ := h
    apply stepOf i t hi
    apply next_enabled_of_free _ hnd
    intro pc'
    rw [free_iff]
    intro k tk hk _
    have : tk.pc.held = ⟨.n, none⟩ := by
      apply Classical.byContradiction
      intro hx; exact hA ⟨k, tk, hk, hx⟩
    rw [this]
    exact Held.compat_nothing _

/-- a thread that holds a read lock (of the engine or of a controller) is never waiting -/
theorem reader_can_step {cfg : Cfg} {s : Sys} {i : Nat} {t : Thread}
    (hr : t.pc.held.e = .r ∨ ∃ cid, t.pc.held.c = some (cid, .r)) :
    ∃ ch r, next cfg s i t ch = some r := by
  apply next_enabled_of_held
  · intro e; rw [e] at hr
    rcases hr with h | ⟨cid, h⟩ <;> cases h
  · intro n cid hpc; rw [hpc] at hr
    rcases hr with h | ⟨cid, h⟩ <;> cases h

/-- a thread that holds a controller's lock is never waiting (lock order e.mx ≺ c.mx) -/
theorem ctl_lock_holder_can_step {cfg : Cfg} {s : Sys} {i : Nat} {t : Thread}
    (hc : t.pc.held.c ≠ none) : ∃ ch r, next cfg s i t ch = some r := by
  apply next_enabled_of_held
  · intro e; rw [e] at hc; exact hc rfl
  · intro n cid hpc; rw [hpc] at hc; exact absurd rfl hc

end Xp.C13

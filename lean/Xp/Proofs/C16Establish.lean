import Xp.Proofs.C16Evolve
/-
C16: the master invariant of Establish (every fault plan, every completion
order) and of ReleaseObjects.
-/
namespace Xp.C16

/-- what one Establish of parent `p` (active iff `control`) may do to an existing object -/
structure QE (p : Parent) (control : Bool) (o o' : Obj) : Prop where
  key : o'.key = o.key
  /-- no owner entry is dropped -/
  uids : ∀ u, hasUid o.owners u → hasUid o'.owners u
  /-- nobody becomes controller except an active parent -/
  ctrls : ∀ u, ctrl o'.owners u → ctrl o.owners u ∨ (control = true ∧ u = p.uid)
  /-- an inactive revision does not touch the content -/
  body : control = false → o'.body = o.body
  /-- the parent is controller (active) / plain owner (inactive) -/
  mine : (if control then asController p else asOwner p) ∈ o'.owners
  /-- the package is a non-controlling owner -/
  pkg : ∀ q, pkgRef p = some q → q.uid ≠ p.uid → q ∈ o'.owners
  valid : ctrlCount o'.owners ≤ 1
  /-- an inactive parent's own entry (the first with its uid, as `ReleaseObjects` and
  `meta.AddOwnerReference` look it up) is not a controller reference afterwards -/
  released : control = false → ∀ x, o'.owners.find? (fun r => r.uid = p.uid) = some x → x.isCtrl = false

/-- what Establish may create -/
structure CE (p : Parent) (control : Bool) (o' : Obj) : Prop where
  active : control = true
  mine : asController p ∈ o'.owners
  pkg : ∀ q, pkgRef p = some q → q.uid ≠ p.uid → q ∈ o'.owners
  ctrls : ∀ u, ctrl o'.owners u → u = p.uid
  valid : ctrlCount o'.owners ≤ 1

theorem QE.trans (p : Parent) (control : Bool) (a b c : Obj) (h1 : QE p control a b) (h2 : QE p control b c) :
    QE p control a c where
  key := h2.key.trans h1.key
  uids := fun u h => h2.uids u (h1.uids u h)
  ctrls := fun u h => by
    rcases h2.ctrls u h with h | h
    · exact h1.ctrls u h
    · exact Or.inr h
  body := fun h => (h2.body h).trans (h1.body h)
  mine := h2.mine
  pkg := h2.pkg
  valid := h2.valid
  released := h2.released

theorem CE.step (p : Parent) (control : Bool) (a b : Obj) (h1 : CE p control a) (h2 : QE p control a b) :
    CE p control b where
  active := h1.active
  mine := by have := h2.mine; rw [h1.active] at this; exact this
  pkg := h2.pkg
  ctrls := fun u h => by
    rcases h2.ctrls u h with h | h
    · exact h1.ctrls u h
    · exact h.2
  valid := h2.valid

theorem addController_ok (l : List ORef) (r : ORef) (refs : List ORef) (h : addController l r = .ok refs) :
    refs = addOwner l r := by
  unfold addController at h
  split at h
  · split at h
    · simpa using h.symm
    · cases h
  · simpa using h.symm

/-- the mutated `current` kept from validate to establish still describes the stored object `c₀` -/
def CDInv (s₀ : Store) (cd : CD) : Prop :=
  ∀ cur, cd.current = some cur → ∃ c₀ ∈ s₀.objs, c₀.key = cd.desired.key ∧ cur.key = c₀.key ∧
    cur.rv = c₀.rv ∧ cur.body = c₀.body ∧ (∀ u, hasUid c₀.owners u → hasUid cur.owners u) ∧
    (∀ u, ctrl cur.owners u → ctrl c₀.owners u)

theorem createRefs_CE (p : Parent) (o : Obj) (n : Nat) (h : ctrlCount (createRefs p) ≤ 1) :
    CE p true { o with owners := createRefs p, rv := n } where
  active := rfl
  mine := by simp [createRefs]
  pkg := fun q hq _ => by simp [createRefs, hq]
  ctrls := fun u ⟨r, hr, hu, hc⟩ => by
    simp only [createRefs, List.mem_cons] at hr
    rcases hr with e | e
    · subst e; exact hu.symm
    · cases hq : pkgRef p with
      | none => simp [hq] at e
      | some q =>
        simp [hq] at e
        subst e
        rw [pkgRef_not_ctrl p r hq] at hc
        cases hc
  valid := h

/-- the object `update` submits, relative to the stored object it was computed from -/
theorem updateSub_QE (p : Parent) (control : Bool) (c₀ cur des sub : Obj) (n : Nat)
    (hk : cur.key = c₀.key) (hdk : c₀.key = des.key) (hb : cur.body = c₀.body)
    (hu : ∀ u, hasUid c₀.owners u → hasUid cur.owners u) (hc : ∀ u, ctrl cur.owners u → ctrl c₀.owners u)
    (h : updateSub p control cur des = .ok sub) (hv : ctrlCount sub.owners ≤ 1) :
    QE p control c₀ { sub with rv := n } := by
  unfold updateSub at h
  cases control with
  | true =>
    simp only [if_true] at h
    split at h
    · cases h
    · rename_i refs hrefs
      have e := addController_ok _ _ _ hrefs
      simp only [Except.ok.injEq] at h
      subst h
      subst e
      simp only at hv
      refine ⟨hdk.symm, ?_, ?_, (fun h => nomatch h), mem_addOwner_self _ _, ?_, hv, (fun h => nomatch h)⟩
      · intro u h
        exact hasUid_addOwner _ _ _ (hasUid_withPkg p _ _ (hu u h))
      · intro u ⟨r, hr, hru, hrc⟩
        have := ctrl_unique _ r (asController p) hv hr (mem_addOwner_self _ _) hrc rfl
        subst this
        exact Or.inr ⟨rfl, hru.symm⟩
      · intro q hq hne
        exact mem_addOwner_of_ne _ _ q (pkg_mem_withPkg p _ q hq) hne
  | false =>
    simp only [Bool.false_eq_true, if_false, Except.ok.injEq] at h
    subst h
    simp only at hv
    refine ⟨hk, ?_, ?_, fun _ => hb, mem_addOwner_self _ _, ?_, hv,
      fun _ x hx => by rw [← asOwner_uid p, find_addOwner_self] at hx; cases hx; rfl⟩
    · intro u h
      exact hasUid_addOwner _ _ _ (hasUid_withPkg p _ _ (hu u h))
    · intro u h
      exact Or.inl (hc u (ctrl_withPkg p _ _ (ctrl_addOwner_of_not _ _ _ rfl h)))
    · intro q hq hne
      exact mem_addOwner_of_ne _ _ q (pkg_mem_withPkg p _ q hq) hne

theorem updateSub_key (p : Parent) (control : Bool) (cur des sub : Obj) (h : updateSub p control cur des = .ok sub) :
    sub.key = (if control then des.key else cur.key) ∧ sub.rv = cur.rv := by
  unfold updateSub at h
  cases control with
  | true =>
    simp only [if_true] at h
    split at h
    · cases h
    · simp only [Except.ok.injEq] at h; subst h; exact ⟨rfl, rfl⟩
  | false =>
    simp only [Bool.false_eq_true, if_false, Except.ok.injEq] at h
    subst h; exact ⟨rfl, rfl⟩

/-- the invariant carried through the establish phase -/
structure EInv (p : Parent) (control : Bool) (s₀ s : Store) : Prop where
  wf : WF s
  frozen : Frozen s₀ s
  ev : Evolves (QE p control) (CE p control) s₀.objs s.objs

theorem EInv.refl (p : Parent) (control : Bool) (s : Store) (hw : WF s) : EInv p control s s :=
  ⟨hw, Frozen.refl s, Evolves.refl _ _ _⟩

theorem EInv.create (p : Parent) (control : Bool) (s₀ s s' : Store) (o : Obj) (hi : EInv p control s₀ s)
    (he : CEffect s s' o)
    (hC : s.get o.key = none → ctrlCount o.owners ≤ 1 → CE p control { o with rv := s.nextRv }) :
    EInv p control s₀ s' :=
  ⟨effect_wf s s' o he.toEffect hi.wf, effect_frozen s₀ s s' o he.toEffect hi.frozen,
   Evolves.trans (QE.trans p control) (CE.step p control) hi.ev (ceffect_evolves _ _ s s' o he hC)⟩

theorem EInv.update (p : Parent) (control : Bool) (s₀ s s' : Store) (o : Obj) (hi : EInv p control s₀ s)
    (he : UEffect s s' o)
    (hQ : ∀ c, s.get o.key = some c → c.rv = o.rv → ctrlCount o.owners ≤ 1 → QE p control c { o with rv := s.nextRv }) :
    EInv p control s₀ s' :=
  ⟨effect_wf s s' o he.toEffect hi.wf, effect_frozen s₀ s s' o he.toEffect hi.frozen,
   Evolves.trans (QE.trans p control) (CE.step p control) hi.ev (ueffect_evolves _ _ s s' o he hi.wf hQ)⟩

theorem establishOne_inv (rejects : Obj → Bool) (fault : Fault) (p : Parent) (control : Bool)
    (s₀ s : Store) (i : Nat) (cd : CD) (hw₀ : WF s₀) (hi : EInv p control s₀ s) (hcd : CDInv s₀ cd) :
    EInv p control s₀ (establishOne rejects fault p control s i cd).1 := by
  unfold establishOne
  split
  · split
    · rename_i hc
      rw [liftW_fst]
      refine EInv.create p control s₀ s _ _ hi (apiCreate_effect _ _ _ _ _) ?_
      intro _ hv
      subst hc
      exact createRefs_CE p cd.desired s.nextRv hv
    · exact hi
  · rename_i cur hcur
    split
    · exact hi
    · rename_i sub hsub
      rw [liftW_fst]
      obtain ⟨c₀, hc₀, hk₀, hck, hrv, hbody, hu, hc⟩ := hcd cur hcur
      have ⟨hsk, hsrv⟩ := updateSub_key p control cur cd.desired sub hsub
      have hsubkey : sub.key = c₀.key := by
        rw [hsk]; cases control <;> simp [hck, hk₀]
      refine EInv.update p control s₀ s _ _ hi (apiUpdate_effect _ _ _ _ _) ?_
      intro c hget hrvc hv
      -- the stored object with this resourceVersion is still c₀
      have hcmem := get_mem s _ c hget
      have hckey := get_key s _ c hget
      have hlt : c.rv < s₀.nextRv := by
        rw [hrvc, hsrv, hrv]; exact hw₀.rvs c₀ hc₀
      have hc0 : c ∈ s₀.objs := hi.frozen.old c hcmem hlt
      have : c = c₀ := hw₀.keys c hc0 c₀ hc₀ (hckey.trans hsubkey)
      subst this
      exact updateSub_QE p control c cur cd.desired sub s.nextRv hck hk₀ hbody hu hc hsub hv

theorem liftW_ok {α : Type} (a b : α) (x : Store × WR) (h : (liftW a x).2 = .ok b) : b = a := by
  obtain ⟨s, r⟩ := x
  cases r <;> simp [liftW] at h
  exact h.symm

theorem updateSub_false (p : Parent) (cur des : Obj) :
    updateSub p false cur des = .ok { cur with owners := addOwner (withPkg p cur.owners) (asOwner p) } := by
  simp [updateSub]

theorem validateGo_cdinv (rejects : Obj → Bool) (fault : Fault) (p : Parent) (control : Bool)
    (s : Store) (i : Nat) (d : Desired) (cd : CD)
    (h : (validateGo rejects fault p control s i d).2 = .ok cd) : CDInv s cd := by
  unfold validateGo at h
  split at h <;> try (simp at h; done)
  split at h
  · split at h
    · have := liftW_ok _ _ _ h
      subst this
      intro cur hcur; cases hcur
    · simp only [R.ok.injEq] at h
      subst h
      intro cur hcur; cases hcur
  · rename_i c₀ hget
    split at h
    · simp at h
    · rename_i sub hsub
      have := liftW_ok _ _ _ h
      subst this
      have hmem := get_mem s _ c₀ hget
      have hkey := get_key s _ c₀ hget
      intro cur hcur
      cases control with
      | true =>
        simp only [if_true, Option.some.injEq] at hcur
        subst hcur
        have ⟨hsk, _⟩ := updateSub_key p true c₀ (desiredObj d) sub hsub
        refine ⟨c₀, hmem, ?_, rfl, rfl, rfl, fun u hu => hasUid_withPkg p _ _ hu, fun u hu => ctrl_withPkg p _ _ hu⟩
        simp only [if_true]
        rw [hsk]
        simp [desiredObj, hkey]
      | false =>
        simp only [Bool.false_eq_true, if_false, Option.some.injEq] at hcur
        subst hcur
        rw [updateSub_false] at hsub
        simp only [Except.ok.injEq] at hsub
        subst hsub
        refine ⟨c₀, hmem, ?_, rfl, rfl, rfl, fun u hu => hasUid_addOwner _ _ _ (hasUid_withPkg p _ _ hu),
          fun u hu => ctrl_withPkg p _ _ (ctrl_addOwner_of_not _ _ _ rfl hu)⟩
        simp [desiredObj, hkey]

theorem validateOne_cdinv (rejects : Obj → Bool) (fault : Fault) (p : Parent) (control : Bool)
    (s : Store) (i : Nat) (d : Desired) (cd : CD)
    (h : (validateOne rejects fault p control s i d).2 = .ok cd) : CDInv s cd := by
  unfold validateOne at h
  split at h
  · simp at h
  · exact validateGo_cdinv rejects fault p control s i d cd h

theorem validateAll_cdinv (rejects : Obj → Bool) (fault : Fault) (p : Parent) (control : Bool)
    (s : Store) (xs : List (Nat × Desired)) (cds : List (Nat × CD))
    (h : (validateAll rejects fault p control s xs).2 = .ok cds) : ∀ x ∈ cds, CDInv s x.2 := by
  induction xs generalizing cds with
  | nil =>
    simp [validateAll] at h
    subst h
    intro x hx; cases hx
  | cons x rest ih =>
    obtain ⟨i, d⟩ := x
    unfold validateAll at h
    have h1 := validateOne_store rejects fault p control s i d
    split at h <;> rename_i s1 _ heq <;> (rw [heq] at h1; simp only at h1; subst h1)
    · simp at h
    · split at h <;> simp at h
    · rename_i cd
      have hcd := validateOne_cdinv rejects fault p control s1 i d cd (by rw [heq])
      split at h <;> rename_i s2 _ heq2
      · simp only [R.ok.injEq] at h
        subst h
        rename_i cds'
        have := ih cds' (by rw [heq2])
        intro x hx
        rcases List.mem_cons.mp hx with e | e
        · subst e; exact hcd
        · exact this x e
      · simp at h
      · simp at h

theorem mem_pickCD (cds : List (Nat × CD)) (order : List Nat) (x : Nat × CD) (h : x ∈ pickCD cds order) : x ∈ cds := by
  unfold pickCD at h
  obtain ⟨i, _, hi⟩ := List.mem_filterMap.mp h
  exact List.mem_of_find?_eq_some hi

theorem establishAll_inv (rejects : Obj → Bool) (fault : Fault) (p : Parent) (control : Bool)
    (s₀ s : Store) (ys : List (Nat × CD)) (hw₀ : WF s₀) (hi : EInv p control s₀ s)
    (hcd : ∀ y ∈ ys, CDInv s₀ y.2) : EInv p control s₀ (establishAll rejects fault p control s ys).1 := by
  induction ys generalizing s with
  | nil => exact hi
  | cons y rest ih =>
    obtain ⟨i, cd⟩ := y
    have h1 := establishOne_inv rejects fault p control s₀ s i cd hw₀ hi (hcd (i, cd) List.mem_cons_self)
    have hrest : ∀ y ∈ rest, CDInv s₀ y.2 := fun y hy => hcd y (List.mem_cons_of_mem _ hy)
    unfold establishAll
    split <;> rename_i s1 _ heq <;> (rw [heq] at h1; simp only at h1)
    · exact h1
    · have h2 := ih s1 h1 hrest
      split <;> rename_i s2 _ heq2 <;> (rw [heq2] at h2; exact h2)
    · have h2 := ih s1 h1 hrest
      split <;> rename_i s2 _ heq2 <;> (rw [heq2] at h2; exact h2)

/-- the step-relative form of `establishOne_inv`: the goroutine's own effect -/
theorem establishOne_step (rejects : Obj → Bool) (fault : Fault) (p : Parent) (control : Bool)
    (s₀ s : Store) (i : Nat) (cd : CD) (hw₀ : WF s₀) (hi : EInv p control s₀ s) (hcd : CDInv s₀ cd) :
    Evolves (QE p control) (CE p control) s.objs (establishOne rejects fault p control s i cd).1.objs := by
  unfold establishOne
  split
  · split
    · rename_i hc
      rw [liftW_fst]
      refine ceffect_evolves _ _ s _ _ (apiCreate_effect _ _ _ _ _) ?_
      intro _ hv
      subst hc
      exact createRefs_CE p cd.desired s.nextRv hv
    · exact Evolves.refl _ _ _
  · rename_i cur hcur
    split
    · exact Evolves.refl _ _ _
    · rename_i sub hsub
      rw [liftW_fst]
      obtain ⟨c₀, hc₀, hk₀, hck, hrv, hbody, hu, hc⟩ := hcd cur hcur
      have ⟨hsk, hsrv⟩ := updateSub_key p control cur cd.desired sub hsub
      have hsubkey : sub.key = c₀.key := by
        rw [hsk]; cases control <;> simp [hck, hk₀]
      refine ueffect_evolves _ _ s _ _ (apiUpdate_effect _ _ _ _ _) hi.wf ?_
      intro c hget hrvc hv
      have hcmem := get_mem s _ c hget
      have hckey := get_key s _ c hget
      have hlt : c.rv < s₀.nextRv := by
        rw [hrvc, hsrv, hrv]; exact hw₀.rvs c₀ hc₀
      have hc0 : c ∈ s₀.objs := hi.frozen.old c hcmem hlt
      have : c = c₀ := hw₀.keys c hc0 c₀ hc₀ (hckey.trans hsubkey)
      subst this
      exact updateSub_QE p control c cur cd.desired sub s.nextRv hck hk₀ hbody hu hc hsub hv

theorem establishAll_step (rejects : Obj → Bool) (fault : Fault) (p : Parent) (control : Bool)
    (s₀ s : Store) (ys : List (Nat × CD)) (hw₀ : WF s₀) (hi : EInv p control s₀ s)
    (hcd : ∀ y ∈ ys, CDInv s₀ y.2) :
    Evolves (QE p control) (CE p control) s.objs (establishAll rejects fault p control s ys).1.objs := by
  induction ys generalizing s with
  | nil => exact Evolves.refl _ _ _
  | cons y rest ih =>
    obtain ⟨i, cd⟩ := y
    have hcd0 := hcd (i, cd) List.mem_cons_self
    have h1 := establishOne_inv rejects fault p control s₀ s i cd hw₀ hi hcd0
    have e1 := establishOne_step rejects fault p control s₀ s i cd hw₀ hi hcd0
    have hrest : ∀ y ∈ rest, CDInv s₀ y.2 := fun y hy => hcd y (List.mem_cons_of_mem _ hy)
    unfold establishAll
    split <;> rename_i s1 _ heq <;> (rw [heq] at h1 e1; simp only at h1 e1)
    · exact e1
    · have h2 := ih s1 h1 hrest
      split <;> rename_i s2 _ heq2 <;> (rw [heq2] at h2; exact Evolves.trans (QE.trans p control) (CE.step p control) e1 h2)
    · have h2 := ih s1 h1 hrest
      split <;> rename_i s2 _ heq2 <;> (rw [heq2] at h2; exact Evolves.trans (QE.trans p control) (CE.step p control) e1 h2)

/-- Master invariant of Establish: whatever the faults and the completion orders,
the final store is well formed and arises from the initial one by `QE`-replacements
and `CE`-creations only. -/
theorem establishCore_inv (rejects : Obj → Bool) (fault : Fault) (p : Parent) (control : Bool)
    (s : Store) (objs : List Desired) (vorder eorder : List Nat) (hw : WF s) :
    EInv p control s (establishCore rejects fault p control s objs vorder eorder).1 := by
  unfold establishCore
  have h1 := validateAll_store rejects fault p control s (pick objs vorder)
  split
  · rename_i s1 cds heq
    rw [heq] at h1; simp only at h1; subst h1
    have hcds := validateAll_cdinv rejects fault p control s1 _ cds (by rw [heq])
    exact establishAll_inv rejects fault p control s1 s1 _ hw (EInv.refl p control s1 hw)
      (fun y hy => hcds y (mem_pickCD cds eorder y hy))
  · rename_i s1 e heq
    rw [heq] at h1; simp only at h1; subst h1
    exact EInv.refl p control s1 hw
  · rename_i s1 heq
    rw [heq] at h1; simp only at h1; subst h1
    exact EInv.refl p control s1 hw

theorem establish_inv (rejects : Obj → Bool) (fault : Fault) (p : Parent) (control : Bool)
    (s : Store) (objs : List Desired) (vorder eorder : List Nat) (hw : WF s) :
    EInv p control s (establish rejects fault p control s objs vorder eorder).1 := by
  unfold establish
  split
  · exact EInv.refl p control s hw
  · exact EInv.refl p control s hw
  · exact establishCore_inv rejects fault p control s objs vorder eorder hw

end Xp.C16

import Xp.Model.C17
/-
C17 helper lemmas: what `init` (MapDag.Init / MapUpgradingDag.Init) builds from the lock
contents: the neighbour function of the DAG is `lockNb pkgs`, node identifiers are
unique, and (MapDag) the implied nodes are exactly the dependencies absent from the lock.
Core Lean only.
-/
namespace Xp.C17

/-! ### get / has / nb -/

theorem Dag.has_eq (d : Dag) (id : String) : d.has id = (d.nb id).isSome := by
  unfold Dag.has Dag.nb; cases d.get id <;> rfl

theorem Dag.get_append (d e : Dag) (id : String) : Dag.get (d ++ e) id = (d.get id).or (e.get id) := by
  unfold Dag.get; rw [List.find?_append]

theorem Dag.nb_append_of_has {d e : Dag} {id : String} (h : d.has id = true) : Dag.nb (d ++ e) id = d.nb id := by
  unfold Dag.nb; rw [Dag.get_append]
  unfold Dag.has at h
  cases hg : d.get id with
  | none => rw [hg] at h; cases h
  | some n => rfl

theorem Dag.nb_append_of_not_has {d e : Dag} {id : String} (h : d.has id = false) : Dag.nb (d ++ e) id = e.nb id := by
  unfold Dag.nb; rw [Dag.get_append]
  unfold Dag.has at h
  cases hg : d.get id with
  | none => rfl
  | some n => rw [hg] at h; cases h

theorem Dag.get_map_same_id (d : Dag) (f : Node → Node) (hf : ∀ n, (f n).id = n.id) (id : String) :
    Dag.get (d.map f) id = (d.get id).map f := by
  unfold Dag.get
  rw [List.find?_map]
  have : ((fun n : Node => n.id == id) ∘ f) = (fun n => n.id == id) := by
    funext n; simp [Function.comp, hf]
  rw [this]

theorem addParents_nb (d : Dag) (x : String) (cs : List String) (id : String) :
    Dag.nb (addParents d x cs) id = d.nb id := by
  unfold addParents Dag.nb
  rw [Dag.get_map_same_id]
  · cases d.get id with
    | none => rfl
    | some n => simp only [Option.map_some]; split <;> rfl
  · intro n; split <;> rfl

theorem addParents_keys (d : Dag) (x : String) (cs : List String) : Dag.keys (addParents d x cs) = d.keys := by
  unfold addParents Dag.keys
  rw [List.map_map]
  apply List.map_congr_left
  intro n _
  simp only [Function.comp]
  split <;> rfl

theorem Dag.has_iff_mem_keys (d : Dag) (id : String) : d.has id = true ↔ id ∈ d.keys := by
  unfold Dag.has Dag.get Dag.keys
  rw [List.find?_isSome]
  simp only [List.mem_map, beq_iff_eq]

theorem Dag.nb_isSome_iff (d : Dag) (id : String) : (d.nb id).isSome = true ↔ id ∈ d.keys := by
  rw [← Dag.has_eq]; exact d.has_iff_mem_keys id

/-! ### the lock's own dependency graph -/

/-- neighbour function read off the lock contents: a lock package points at its dependencies;
a dependency that is not itself a lock package is a node without neighbours -/
def lockNb (pkgs : List Pkg) (id : String) : Option (List String) :=
  match pkgs.find? (fun p => p.source == id) with
  | some p => some (p.deps.map (·.pkg))
  | none => if (pkgs.flatMap (·.deps)).any (fun e => e.pkg == id) then some [] else none

theorem lockNb_closed (pkgs : List Pkg) : Closed (lockNb pkgs) := by
  intro n m h
  unfold Edge lockNb at h
  cases hf : pkgs.find? (fun p => p.source == n) with
  | none =>
    rw [hf] at h
    simp only [] at h
    split at h <;> simp at h
  | some p =>
    rw [hf] at h
    simp only [Option.getD_some, List.mem_map] at h
    obtain ⟨e, he, rfl⟩ := h
    have hp : p ∈ pkgs := List.mem_of_find?_eq_some hf
    unfold lockNb
    cases pkgs.find? (fun p => p.source == e.pkg) with
    | some _ => rfl
    | none =>
      have : (pkgs.flatMap (·.deps)).any (fun x => x.pkg == e.pkg) = true := by
        rw [List.any_eq_true]
        exact ⟨e, List.mem_flatMap.2 ⟨p, hp, he⟩, by simp⟩
      simp [this]

/-! ### addNodes -/

theorem addNodes_eq : ∀ (ns : List Node) (d0 d : Dag), addNodes d0 ns = .ok d → d = d0 ++ ns := by
  intro ns
  induction ns with
  | nil => intro d0 d h; simp [addNodes] at h; simp [h]
  | cons n rest ih =>
    intro d0 d h
    unfold addNodes at h
    cases ha : addNode d0 n with
    | error e => rw [ha] at h; cases h
    | ok d' =>
      rw [ha] at h
      unfold addNode at ha
      split at ha
      · cases ha
      · cases ha
        have := ih _ _ h
        simp [this]

theorem addNodes_nodup : ∀ (ns : List Node) (d0 d : Dag), addNodes d0 ns = .ok d → d0.keys.Nodup → d.keys.Nodup := by
  intro ns
  induction ns with
  | nil => intro d0 d h hn; simp [addNodes] at h; rw [← h]; exact hn
  | cons n rest ih =>
    intro d0 d h hn
    unfold addNodes at h
    cases ha : addNode d0 n with
    | error e => rw [ha] at h; cases h
    | ok d' =>
      rw [ha] at h
      unfold addNode at ha
      split at ha
      · cases ha
      · rename_i hhas
        cases ha
        apply ih _ _ h
        unfold Dag.keys
        rw [List.map_append, List.nodup_append]
        refine ⟨hn, by simp, ?_⟩
        intro a ha b hb
        simp only [List.map_cons, List.map_nil, List.mem_singleton] at hb
        subst hb
        intro e; subst e
        exact hhas ((d0.has_iff_mem_keys _).2 ha)

theorem nb_pkgNodes (pkgs : List Pkg) (id : String) :
    Dag.nb (pkgs.map pkgNode) id = (pkgs.find? (fun p => p.source == id)).map (fun p => p.deps.map (·.pkg)) := by
  unfold Dag.nb Dag.get
  rw [List.find?_map]
  have : ((fun n : Node => n.id == id) ∘ pkgNode) = (fun p : Pkg => p.source == id) := rfl
  rw [this]
  cases pkgs.find? (fun p : Pkg => p.source == id) <;> rfl

/-! ### edges -/

/-- effect of adding edges towards `es` on the neighbour function -/
structure EdgeSpec (d d' : Dag) (es : List Dep) : Prop where
  old : ∀ id, d.has id = true → d'.nb id = d.nb id
  new : ∀ id, d.has id = false → d'.nb id = if es.any (fun e => e.pkg == id) then some [] else none
  nodup : d.keys.Nodup → d'.keys.Nodup

theorem EdgeSpec.refl (d : Dag) : EdgeSpec d d [] := by
  refine ⟨fun _ _ => rfl, ?_, id⟩
  intro id h
  rw [Dag.has_eq] at h
  cases hn : d.nb id with
  | none => rfl
  | some _ => rw [hn] at h; cases h

theorem EdgeSpec.has_mono {d d' : Dag} {es : List Dep} (s : EdgeSpec d d' es) {id : String} (h : d.has id = true) :
    d'.has id = true := by
  rw [Dag.has_eq, s.old id h, ← Dag.has_eq]; exact h

theorem EdgeSpec.trans {d d1 d2 : Dag} {es1 es2 : List Dep} (s1 : EdgeSpec d d1 es1) (s2 : EdgeSpec d1 d2 es2) :
    EdgeSpec d d2 (es1 ++ es2) := by
  refine ⟨?_, ?_, fun h => s2.nodup (s1.nodup h)⟩
  · intro id h
    rw [s2.old id (s1.has_mono h), s1.old id h]
  · intro id h
    rw [List.any_append]
    cases h1 : d1.has id with
    | true =>
      have e1 := s1.new id h
      have : es1.any (fun e => e.pkg == id) = true := by
        cases ha : es1.any (fun e => e.pkg == id) with
        | true => rfl
        | false =>
          rw [ha] at e1
          rw [Dag.has_eq, e1] at h1
          cases h1
      rw [s2.old id h1, e1, this]
      simp
    | false =>
      have e1 := s1.new id h
      have : es1.any (fun e => e.pkg == id) = false := by
        cases ha : es1.any (fun e => e.pkg == id) with
        | false => rfl
        | true =>
          rw [ha] at e1
          rw [Dag.has_eq, e1] at h1
          cases h1
      rw [s2.new id h1, this]
      simp

theorem addEdge_spec (o : Oracle) (upg : Bool) (d : Dag) (frm : String) (to : Dep) (d' : Dag) (i : Bool)
    (h : addEdge o upg d frm to = .ok (d', i)) :
    EdgeSpec d d' [to] ∧ d'.has to.pkg = true ∧ (d.has to.pkg = false → i = true) ∧ (upg = false → i = !d.has to.pkg) := by
  unfold addEdge at h
  split at h
  · cases h
  · rename_i f _
    simp only [] at h
    cases hg : d.get to.pkg with
    | none =>
      rw [hg] at h
      simp only [Except.ok.injEq, Prod.mk.injEq] at h
      obtain ⟨rfl, rfl⟩ := h
      have hh : d.has to.pkg = false := by unfold Dag.has; rw [hg]; rfl
      have hnew : ∀ (n : Node), n.id = to.pkg → n.deps = [] → ∀ id, d.has id = false →
          Dag.nb (d ++ [n]) id = if [to].any (fun e => e.pkg == id) then some [] else none := by
        intro n hid hdeps id hid'
        rw [Dag.nb_append_of_not_has hid']
        unfold Dag.nb Dag.get
        simp only [List.find?_cons, List.find?_nil, hid, List.any_cons, List.any_nil, Bool.or_false]
        cases to.pkg == id <;> simp [hdeps]
      refine ⟨⟨?_, ?_, ?_⟩, ?_, (fun _ => rfl), (fun _ => by rw [hh]; rfl)⟩
      · intro id hid; exact Dag.nb_append_of_has hid
      · exact hnew _ rfl rfl
      · intro hn
        unfold Dag.keys
        rw [List.map_append, List.nodup_append]
        refine ⟨hn, by simp, ?_⟩
        intro a ha b hb
        simp only [List.map_cons, List.map_nil, List.mem_singleton] at hb
        subst hb
        intro e; subst e
        have := (d.has_iff_mem_keys _).2 ha
        simp only [depNode] at this
        rw [hh] at this; cases this
      · rw [Dag.has_eq, Dag.nb_append_of_not_has hh]
        unfold Dag.nb Dag.get
        simp [depNode]
    | some org =>
      rw [hg] at h
      have hh : d.has to.pkg = true := by unfold Dag.has; rw [hg]; rfl
      have same : ∀ d'', (∀ id, Dag.nb d'' id = d.nb id) → d''.keys = d.keys →
          EdgeSpec d d'' [to] ∧ d''.has to.pkg = true := by
        intro d'' hnb hkeys
        refine ⟨⟨fun id _ => hnb id, ?_, fun hn => by rw [hkeys]; exact hn⟩, by rw [Dag.has_eq, hnb, ← Dag.has_eq]; exact hh⟩
        intro id hid
        rw [hnb]
        have hne : (to.pkg == id) = false := by
          cases hb : to.pkg == id with
          | false => rfl
          | true =>
            have : to.pkg = id := by simpa using hb
            rw [this] at hh; rw [hh] at hid; cases hid
        simp only [List.any_cons, List.any_nil, Bool.or_false, hne, Bool.false_eq_true, if_false]
        rw [Dag.has_eq] at hid
        cases hn : d.nb id with
        | none => rfl
        | some _ => rw [hn] at hid; cases hid
      cases upg with
      | false =>
        simp only [Bool.false_eq_true, if_false, Except.ok.injEq, Prod.mk.injEq] at h
        obtain ⟨rfl, rfl⟩ := h
        have := same _ (fun _ => rfl) rfl
        exact ⟨this.1, this.2, (fun hc => absurd (hh.symm.trans hc) (by decide)), (fun _ => by rw [hh]; rfl)⟩
      | true =>
        simp only [if_true] at h
        split at h
        all_goals
          simp only [Except.ok.injEq, Prod.mk.injEq] at h
          obtain ⟨rfl, rfl⟩ := h
          have := same (addParents d to.pkg (neighborCons f to.pkg)) (addParents_nb d to.pkg _) (addParents_keys d to.pkg _)
          exact ⟨this.1, this.2, (fun hc => absurd (hh.symm.trans hc) (by decide)), (fun hc => by cases hc)⟩

/-- the implied list of MapDag grows by exactly the targets that were absent -/
structure ImpSpec (d : Dag) (es : List Dep) (imp imp' : List Dep) : Prop where
  ext : ∃ new, imp' = imp ++ new ∧ (∀ x, x ∈ new.map (·.pkg) ↔ (d.has x = false ∧ x ∈ es.map (·.pkg))) ∧
    (new.map (·.pkg)).Nodup

/-- every absent target is implied (both DAG kinds) -/
def ImpSup (d : Dag) (es : List Dep) (imp imp' : List Dep) : Prop :=
  (∀ x ∈ imp, x ∈ imp') ∧ ∀ e ∈ es, d.has e.pkg = false → e.pkg ∈ imp'.map (·.pkg)

theorem addEdges_spec (o : Oracle) (upg : Bool) (frm : String) :
    ∀ (es : List Dep) (d : Dag) (imp : List Dep) (d' : Dag) (imp' : List Dep),
      addEdges o upg frm d es imp = .ok (d', imp') →
      EdgeSpec d d' es ∧ (∀ e ∈ es, d'.has e.pkg = true) ∧ ImpSup d es imp imp' ∧
        (upg = false → ImpSpec d es imp imp') := by
  intro es
  induction es with
  | nil =>
    intro d imp d' imp' h
    simp only [addEdges, Except.ok.injEq, Prod.mk.injEq] at h
    obtain ⟨rfl, rfl⟩ := h
    refine ⟨EdgeSpec.refl d, (fun _ h => by cases h), ⟨fun _ h => h, (fun _ h => by cases h)⟩, fun _ => ⟨[], by simp, by simp, by simp⟩⟩
  | cons e rest ih =>
    intro d imp d' imp' h
    unfold addEdges at h
    split at h
    · cases h
    · rename_i d1 i h1
      obtain ⟨s1, hhas1, hi1, hi2⟩ := addEdge_spec o upg d frm e d1 i h1
      obtain ⟨s2, hhas2, sup2, imp2⟩ := ih d1 _ d' imp' h
      have st : EdgeSpec d d' ([e] ++ rest) := s1.trans s2
      refine ⟨st, ?_, ?_, ?_⟩
      · intro x hx
        cases hx with
        | head => exact s2.has_mono hhas1
        | tail _ hx' => exact hhas2 x hx'
      · refine ⟨fun x hx => sup2.1 x (by split <;> simp [hx]), ?_⟩
        intro x hx hnot
        cases hx with
        | head =>
          have := hi1 hnot
          subst this
          exact List.mem_map.2 ⟨e, sup2.1 e (by simp), rfl⟩
        | tail _ hx' =>
          by_cases h1' : d1.has x.pkg = true
          · -- added by this very edge: x.pkg = e.pkg
            have e1 := s1.new x.pkg hnot
            have : (e.pkg == x.pkg) = true := by
              cases hb : e.pkg == x.pkg with
              | true => rfl
              | false =>
                simp only [List.any_cons, List.any_nil, hb, Bool.or_false, Bool.false_eq_true, if_false] at e1
                rw [Dag.has_eq, e1] at h1'; cases h1'
            have hpe : e.pkg = x.pkg := by simpa using this
            have hi : i = true := hi1 (by rw [hpe]; exact hnot)
            subst hi
            rw [← hpe]
            exact List.mem_map.2 ⟨e, sup2.1 e (by simp), rfl⟩
          · have : d1.has x.pkg = false := by cases hb : d1.has x.pkg <;> simp_all
            exact sup2.2 x hx' this
      · intro hupg
        obtain ⟨new2, he2, hm2, hn2⟩ := (imp2 hupg).ext
        have hi := hi2 hupg
        cases hd : d.has e.pkg with
        | true =>
          rw [hd] at hi
          simp only [Bool.not_true] at hi
          subst hi
          simp only [Bool.false_eq_true, if_false] at he2
          refine ⟨new2, he2, ?_, hn2⟩
          intro x
          rw [hm2 x]
          constructor
          · rintro ⟨a, b⟩
            refine ⟨?_, List.mem_cons_of_mem _ b⟩
            cases hb : d.has x with
            | false => rfl
            | true => rw [s1.has_mono hb] at a; cases a
          · rintro ⟨a, b⟩
            have hne : x ≠ e.pkg := by intro hx; rw [hx, hd] at a; cases a
            refine ⟨?_, ?_⟩
            · have e1 := s1.new x a
              have : (e.pkg == x) = false := by
                cases hb : e.pkg == x with
                | false => rfl
                | true => exact absurd (by simpa using hb : e.pkg = x).symm hne
              simp only [List.any_cons, List.any_nil, this, Bool.or_false, Bool.false_eq_true, if_false] at e1
              cases hb : d1.has x with
              | false => rfl
              | true => rw [Dag.has_eq, e1] at hb; cases hb
            · simp only [List.map_cons, List.mem_cons] at b
              cases b with
              | inl h => exact absurd h hne
              | inr h => exact h
        | false =>
          rw [hd] at hi
          simp only [Bool.not_false] at hi
          subst hi
          simp only [if_true] at he2
          refine ⟨e :: new2, by rw [he2]; simp, ?_, ?_⟩
          · intro x
            simp only [List.map_cons, List.mem_cons]
            rw [hm2 x]
            constructor
            · rintro (h | ⟨a, b⟩)
              · subst h; exact ⟨hd, Or.inl rfl⟩
              · refine ⟨?_, Or.inr b⟩
                cases hb : d.has x with
                | false => rfl
                | true => rw [s1.has_mono hb] at a; cases a
            · rintro ⟨a, b⟩
              by_cases hx : x = e.pkg
              · exact Or.inl hx
              · refine Or.inr ⟨?_, b.resolve_left hx⟩
                have e1 := s1.new x a
                have : (e.pkg == x) = false := by
                  cases hb : e.pkg == x with
                  | false => rfl
                  | true => exact absurd (by simpa using hb : e.pkg = x).symm hx
                simp only [List.any_cons, List.any_nil, this, Bool.or_false, Bool.false_eq_true, if_false] at e1
                cases hb : d1.has x with
                | false => rfl
                | true => rw [Dag.has_eq, e1] at hb; cases hb
          · simp only [List.map_cons]
            refine List.nodup_cons.2 ⟨?_, hn2⟩
            intro hmem
            have := ((hm2 e.pkg).1 hmem).1
            rw [hhas1] at this; cases this

theorem any_pkg_iff {es : List Dep} {x : String} : es.any (fun e => e.pkg == x) = true ↔ x ∈ es.map (·.pkg) := by
  rw [List.any_eq_true, List.mem_map]
  constructor
  · rintro ⟨e, he, hx⟩; exact ⟨e, he, by simpa using hx⟩
  · rintro ⟨e, he, hx⟩; exact ⟨e, he, by simpa using hx⟩

/-- a target that exists after adding edges towards `es1` but did not before is one of `es1` -/
theorem EdgeSpec.new_mem {d d1 : Dag} {es1 : List Dep} (s1 : EdgeSpec d d1 es1) {x : String}
    (h0 : d.has x = false) (h1 : d1.has x = true) : x ∈ es1.map (·.pkg) := by
  have e1 := s1.new x h0
  rw [Dag.has_eq, e1] at h1
  cases ha : es1.any (fun e => e.pkg == x) with
  | true => exact any_pkg_iff.1 ha
  | false => rw [ha] at h1; cases h1

theorem ImpSup.trans {d d1 : Dag} {es1 es2 : List Dep} {imp imp1 imp2 : List Dep}
    (s1 : EdgeSpec d d1 es1) (a : ImpSup d es1 imp imp1) (b : ImpSup d1 es2 imp1 imp2) :
    ImpSup d (es1 ++ es2) imp imp2 := by
  have mapmono : ∀ x, x ∈ imp1.map (·.pkg) → x ∈ imp2.map (·.pkg) := by
    intro x hx
    obtain ⟨e, he, rfl⟩ := List.mem_map.1 hx
    exact List.mem_map.2 ⟨e, b.1 e he, rfl⟩
  refine ⟨fun x hx => b.1 x (a.1 x hx), ?_⟩
  intro e he hnot
  cases List.mem_append.1 he with
  | inl h => exact mapmono _ (a.2 e h hnot)
  | inr h =>
    cases h1 : d1.has e.pkg with
    | false => exact b.2 e h h1
    | true =>
      obtain ⟨e', he', hpe⟩ := List.mem_map.1 (s1.new_mem hnot h1)
      have := a.2 e' he' (by rw [hpe]; exact hnot)
      rw [hpe] at this
      exact mapmono _ this

theorem ImpSpec.trans {d d1 : Dag} {es1 es2 : List Dep} {imp imp1 imp2 : List Dep}
    (s1 : EdgeSpec d d1 es1) (hhas1 : ∀ e ∈ es1, d1.has e.pkg = true)
    (a : ImpSpec d es1 imp imp1) (b : ImpSpec d1 es2 imp1 imp2) :
    ImpSpec d (es1 ++ es2) imp imp2 := by
  obtain ⟨new1, e1, m1, n1⟩ := a.ext
  obtain ⟨new2, e2, m2, n2⟩ := b.ext
  refine ⟨new1 ++ new2, by rw [e2, e1, List.append_assoc], ?_, ?_⟩
  · intro x
    rw [List.map_append, List.mem_append, List.map_append, List.mem_append, m1 x, m2 x]
    constructor
    · rintro (⟨p, q⟩ | ⟨p, q⟩)
      · exact ⟨p, Or.inl q⟩
      · refine ⟨?_, Or.inr q⟩
        cases hb : d.has x with
        | false => rfl
        | true => rw [s1.has_mono hb] at p; cases p
    · rintro ⟨p, q | q⟩
      · exact Or.inl ⟨p, q⟩
      · cases h1 : d1.has x with
        | false => exact Or.inr ⟨rfl, q⟩
        | true => exact Or.inl ⟨p, s1.new_mem p h1⟩
  · rw [List.map_append, List.nodup_append]
    refine ⟨n1, n2, ?_⟩
    intro x hx y hy hxy
    subst hxy
    obtain ⟨e, he, hpe⟩ := List.mem_map.1 ((m1 x).1 hx).2
    have := hhas1 e he
    rw [hpe, ((m2 x).1 hy).1] at this
    cases this

theorem initEdges_spec (o : Oracle) (upg : Bool) :
    ∀ (ps : List Pkg) (d : Dag) (imp : List Dep) (d' : Dag) (imp' : List Dep),
      initEdges o upg d ps imp = .ok (d', imp') →
      EdgeSpec d d' (ps.flatMap (·.deps)) ∧ (∀ e ∈ ps.flatMap (·.deps), d'.has e.pkg = true) ∧
        ImpSup d (ps.flatMap (·.deps)) imp imp' ∧ (upg = false → ImpSpec d (ps.flatMap (·.deps)) imp imp') := by
  intro ps
  induction ps with
  | nil =>
    intro d imp d' imp' h
    simp only [initEdges, Except.ok.injEq, Prod.mk.injEq] at h
    obtain ⟨rfl, rfl⟩ := h
    exact ⟨EdgeSpec.refl d, (fun _ h => by cases h), ⟨fun _ h => h, (fun _ h => by cases h)⟩, fun _ => ⟨[], by simp, by simp, by simp⟩⟩
  | cons p rest ih =>
    intro d imp d' imp' h
    unfold initEdges at h
    split at h
    · cases h
    · rename_i d1 imp1 h1
      obtain ⟨s1, hhas1, sup1, spec1⟩ := addEdges_spec o upg p.source p.deps d imp d1 imp1 h1
      obtain ⟨s2, hhas2, sup2, spec2⟩ := ih d1 imp1 d' imp' h
      rw [List.flatMap_cons]
      refine ⟨s1.trans s2, ?_, ImpSup.trans s1 sup1 sup2, fun hu => ImpSpec.trans s1 hhas1 (spec1 hu) (spec2 hu)⟩
      intro e he
      cases List.mem_append.1 he with
      | inl h' => exact s2.has_mono (hhas1 e h')
      | inr h' => exact hhas2 e h'

/-- What Init builds. -/
theorem init_spec {o : Oracle} {upg : Bool} {pkgs : List Pkg} {d : Dag} {imp : List Dep}
    (h : init o upg pkgs = .ok (d, imp)) :
    (∀ id, d.nb id = lockNb pkgs id) ∧ d.keys.Nodup ∧
    (∀ e ∈ pkgs.flatMap (·.deps), e.pkg ∉ pkgs.map (·.source) → e.pkg ∈ imp.map (·.pkg)) ∧
    (upg = false → (imp.map (·.pkg)).Nodup ∧
      ∀ x, x ∈ imp.map (·.pkg) ↔ (x ∈ (pkgs.flatMap (·.deps)).map (·.pkg) ∧ x ∉ pkgs.map (·.source))) := by
  unfold init at h
  cases ha : addNodes [] (pkgs.map pkgNode) with
  | error e => rw [ha] at h; cases h
  | ok d0 =>
    rw [ha] at h
    simp only [] at h
    have hd0 : d0 = pkgs.map pkgNode := by simpa using addNodes_eq _ _ _ ha
    have hn0 : d0.keys.Nodup := addNodes_nodup _ _ _ ha List.nodup_nil
    obtain ⟨s, _, sup, spec⟩ := initEdges_spec o upg pkgs d0 [] d imp h
    have hsrc : ∀ x, d0.has x = true ↔ x ∈ pkgs.map (·.source) := by
      intro x
      rw [Dag.has_iff_mem_keys, hd0]
      unfold Dag.keys
      rw [List.map_map]
      rfl
    have hsrcF : ∀ x, x ∉ pkgs.map (·.source) → d0.has x = false := by
      intro x hx
      cases hb : d0.has x with
      | false => rfl
      | true => exact absurd ((hsrc x).1 hb) hx
    refine ⟨?_, s.nodup hn0, ?_, ?_⟩
    · intro id
      unfold lockNb
      cases hb : d0.has id with
      | true =>
        rw [s.old id hb, hd0, nb_pkgNodes]
        rw [Dag.has_eq, hd0, nb_pkgNodes] at hb
        cases hf : pkgs.find? (fun p => p.source == id) with
        | none => rw [hf] at hb; cases hb
        | some p => rfl
      | false =>
        rw [s.new id hb]
        rw [Dag.has_eq, hd0, nb_pkgNodes] at hb
        cases hf : pkgs.find? (fun p => p.source == id) with
        | none => rfl
        | some p => rw [hf] at hb; cases hb
    · intro e he hns
      exact sup.2 e he (hsrcF _ hns)
    · intro hu
      obtain ⟨new, e1, m1, n1⟩ := (spec hu).ext
      simp only [List.nil_append] at e1
      subst e1
      refine ⟨n1, ?_⟩
      intro x
      rw [m1 x]
      constructor
      · rintro ⟨p, q⟩
        exact ⟨q, fun hx => by rw [(hsrc x).2 hx] at p; cases p⟩
      · rintro ⟨p, q⟩
        exact ⟨hsrcF x q, p⟩

end Xp.C17

import Xp.Proofs.C06Run
/-
C06 helper lemmas, part 4: several claims of the kind in one store.

The model is per claim: `St` holds the claim under reconciliation (`me`, `claim`, `hist`, `trace`) and the
XRs; the other claims of the kind sit in `St.others`, and `swap s j` makes the claim in slot `j` the
current one (that is how the correspondence driver runs ONE long-lived reconciler over a sequence of
different claims). This file ties that construction to the per-claim theorems: seen from the claim in
slot `j`, everything a reconcile of the CURRENT claim does to the store — every applied call of it, under
its guarantee that a claimRef it writes is its own — is a finite sequence of environment steps `Env`
of a world with peers (`Env.peerWrite`: XRs created / rebound / rewritten by another claim's controller,
never bound to the viewing claim; `Env.xrRemove`, `Env.xrSet`, `Env.xrWrite` for deletes; `Env.tick`
for its writes to its own claim object). So whatever is proved about `Reach` for every environment
holds for each claim of a world in which the same controller also reconciles the others.
-/
namespace Xp.C06

/-- finitely many environment steps -/
inductive Envs : St → St → Prop where
  | refl (s : St) : Envs s s
  | step (a b c : St) : Envs a b → Env b c → Envs a c

theorem Envs.one {a b : St} (h : Env a b) : Envs a b := .step _ _ _ (.refl a) h

theorem Envs.trans {a b c : St} (h1 : Envs a b) (h2 : Envs b c) : Envs a c := by
  induction h2 with
  | refl => exact h1
  | step x y _ he ih => exact .step _ _ _ ih he

/-- environment steps keep a system state reachable -/
theorem reach_envs {s0 : St} {s s' : St} {t : Option P} (h : Reach s0 ⟨s, t⟩) (he : Envs s s') : Reach s0 ⟨s', t⟩ := by
  induction he with
  | refl => exact h
  | step a b _ e ih => exact Reach.step _ _ ih (Step.env _ _ t e)

theorem delState_others (s : St) (n : Name) (x x1 : XR) : (delState s n x x1).others = s.others := by
  unfold delState
  repeat' split
  all_goals rfl

theorem exec_others (s : St) (r : Req) : (exec s r).1.others = s.others := by
  cases r <;> simp only [exec] <;> repeat' split
  all_goals first | rfl | exact delState_others _ _ _ _

/-- the view of the claim in slot `j` of a state `s'` that has the `others` of `s` -/
theorem swap_of_frame (s s' : St) (j : Nat) (d : Side) (hd : s.others[j]? = some d) (ho : s'.others = s.others) :
    swap s' j = ⟨d.me, d.claim, d.hist, s'.xrs, s'.xhist, s'.nextRv, d.trace, s'.peers, s.others.set j s'.side⟩ := by
  unfold swap
  rw [ho, hd]
  rfl

/-- a step of the current claim that leaves the XRs alone (a write to its own claim object, a ghost
event, nothing at all) is, for the claim in slot `j`, a `tick` -/
theorem envs_frame (s s' : St) (j : Nat) (d : Side) (hd : s.others[j]? = some d) (ho : s'.others = s.others)
    (hx : s'.xrs = s.xrs) (hxh : s'.xhist = s.xhist) (hp : s'.peers = s.peers) (k : Nat) (hn : s'.nextRv = s.nextRv + k) :
    Envs (swap s j) (swap s' j) := by
  rw [swap_of_frame s s' j d hd ho, swap_of_frame s s j d hd rfl, hx, hxh, hp, hn]
  exact Envs.one (Env.tick _ k _)

/-- a step of the current claim that changes the XRs the way the environment step `hW` does -/
theorem envs_step (s s' : St) (j : Nat) (d : Side) (hd : s.others[j]? = some d) (ho : s'.others = s.others)
    (W : St) (hW : Env (swap s j) W) (hx : s'.xrs = W.xrs) (hxh : s'.xhist = W.xhist) (hn : s'.nextRv = W.nextRv)
    (hp : s'.peers = W.peers) (hme : W.me = d.me) (hc : W.claim = d.claim) (hh : W.hist = d.hist) (ht : W.trace = d.trace) :
    Envs (swap s j) (swap s' j) := by
  refine Envs.step _ _ _ (Envs.one hW) ?_
  rw [swap_of_frame s s' j d hd ho, hx, hxh, hn, hp, ← hme, ← hc, ← hh, ← ht]
  exact Env.tick W 0 _

/-- the claimRef a request writes, if any -/
def reqCref : Req → Option CRef
  | .createXR _ _ c | .patchXR _ _ c | .applyXR _ c => some c
  | _ => none

theorem reqCref_of_G {s : St} {r : Req} (h : G s r) : ∀ c, reqCref r = some c → c = s.me := by
  intro c hc
  cases r with
  | createXR n b c' => cases hc; exact h.2
  | patchXR n rv c' => cases hc; exact h.1.2
  | applyXR n c' => cases hc; exact h.2
  | _ => cases hc

/-- ONE applied call of the current claim's reconcile, in a world with peers, seen from the claim in slot
`j` (another claim: `d.me ≠ s.me`): a finite sequence of environment steps, provided a claimRef the call
writes is the current claim's own (its guarantee `G`). -/
theorem peer_call_is_env (s : St) (r : Req) (j : Nat) (d : Side) (hd : s.others[j]? = some d) (hp : s.peers = true)
    (hne : d.me ≠ s.me) (hc : ∀ c, reqCref r = some c → c = s.me) :
    Envs (swap s j) (swap (exec s r).1 j) := by
  have hV : swap s j = ⟨d.me, d.claim, d.hist, s.xrs, s.xhist, s.nextRv, d.trace, s.peers, s.others.set j s.side⟩ :=
    swap_of_frame s s j d hd rfl
  -- XR `n` rewritten to `x'` by the current claim: a peer write for the claim in slot `j`
  have put : ∀ (n : Name) (x' : XR) (ev : Ev),
      (x'.cref = some d.me → ∃ y, s.xrs n = some y ∧ y.cref = some d.me) →
      Envs (swap s j) (swap (emit (putXR s n x').1 ev) j) := by
    intro n x' ev hb
    refine envs_step s _ j d hd rfl (putXR (swap s j) n x').1 (Env.peerWrite _ n x' ?_ ?_) ?_ ?_ ?_ ?_ ?_ ?_ ?_ ?_
    · rw [hV]; exact hp
    · rw [hV]; exact hb
    all_goals (rw [hV]; rfl)
  cases r with
  | getClaim pick =>
    have : (exec s (.getClaim pick)).1 = s := by
      simp only [exec]; split
      · rfl
      · split <;> rfl
    rw [this]; exact Envs.refl _
  | getXR n sel =>
    have : (exec s (.getXR n sel)).1 = s := by
      simp only [exec]; split <;> rfl
    rw [this]; exact Envs.refl _
  | updClaim c =>
    simp only [exec]
    split
    · exact Envs.refl _
    · split
      · exact Envs.refl _
      · exact envs_frame s _ j d hd rfl rfl rfl rfl 1 rfl
  | updClaimStatus rv =>
    simp only [exec]
    split
    · exact Envs.refl _
    · split
      · exact Envs.refl _
      · exact envs_frame s _ j d hd rfl rfl rfl rfl 1 rfl
  | upgradeXR n rv valid =>
    simp only [exec]
    split
    · exact Envs.refl _
    · rename_i x hx
      split
      · exact Envs.refl _
      · split
        · exact Envs.refl _
        · exact put n { x with mf := (applyUpDec valid x.mf).getD x.mf } _ (fun h => ⟨x, hx, h⟩)
  | deleteXR n fg =>
    simp only [exec]
    split
    · exact Envs.refl _
    · rename_i x hx
      have hcref : (if fg then { x with fin := true } else x).cref = x.cref := by split <;> rfl
      have hrvx : (if fg then { x with fin := true } else x).rv = x.rv := by split <;> rfl
      generalize (if fg then { x with fin := true } else x) = x1 at hcref hrvx
      unfold delState
      by_cases h1 : x1.fin = true
      · by_cases h2 : x1.deleting = true
        · rw [if_pos h1, if_pos h2]
          by_cases h3 : x1 = x
          · rw [if_pos h3]
            exact envs_frame s _ j d hd rfl rfl rfl rfl 0 rfl
          · rw [if_neg h3]
            refine envs_step s _ j d hd rfl (setXR (swap s j) n (some x1)) (Env.xrSet _ n x x1 ?_ hcref hrvx) ?_ ?_ ?_ ?_ ?_ ?_ ?_ ?_
            · rw [hV]; exact hx
            all_goals (rw [hV]; rfl)
        · rw [if_pos h1, if_neg h2]
          refine envs_step s _ j d hd rfl (putXR (swap s j) n { x1 with deleting := true }).1
            (Env.xrWrite _ n x _ ?_ hcref) ?_ ?_ ?_ ?_ ?_ ?_ ?_ ?_
          · rw [hV]; exact hx
          all_goals (rw [hV]; rfl)
      · rw [if_neg h1]
        refine envs_step s _ j d hd rfl (setXR (swap s j) n none) (Env.xrRemove _ n) ?_ ?_ ?_ ?_ ?_ ?_ ?_ ?_
        all_goals (rw [hV]; rfl)
  | createXR n rvSet cref =>
    have hcm : cref = s.me := hc cref rfl
    simp only [exec]
    split
    · exact Envs.refl _
    · split
      · exact Envs.refl _
      · exact put n _ _ (fun h => absurd ((Option.some.inj h).symm.trans hcm) hne)
  | patchXR n rv cref =>
    have hcm : cref = s.me := hc cref rfl
    simp only [exec]
    split
    · exact Envs.refl _
    · cases rv with
      | none =>
        simp only [Bool.false_eq_true, if_false]
        exact put n _ _ (fun h => absurd ((Option.some.inj h).symm.trans hcm) hne)
      | some v =>
        dsimp only
        split
        · exact Envs.refl _
        · exact put n _ _ (fun h => absurd ((Option.some.inj h).symm.trans hcm) hne)
  | applyXR n cref =>
    have hcm : cref = s.me := hc cref rfl
    simp only [exec]
    split
    · exact put n _ _ (fun h => absurd ((Option.some.inj h).symm.trans hcm) hne)
    · exact put n _ _ (fun h => absurd ((Option.some.inj h).symm.trans hcm) hne)

theorem swap_me_peers_others (s : St) (j : Nat) (d : Side) (hd : s.others[j]? = some d) :
    (swap s j).me = d.me ∧ (swap s j).peers = s.peers := by
  rw [swap_of_frame s s j d hd rfl]
  exact ⟨rfl, rfl⟩

/-- A whole scheduled reconcile of the CURRENT claim (any fault plan: error classes, lost replies,
crashes; no scripted environment action), started in a reachable state of its own system in a world
with peers, is — seen from the claim in slot `j` — a finite sequence of environment steps. Hence
(`reach_envs`) it keeps every reachable state of THAT claim's system reachable, and all theorems about
`Reach` apply to each claim of a world in which one controller reconciles them one after the other. -/
theorem peer_reconcile_is_env {s0 : St} (h0 : Init s0) (plan : Nat → Flt) (k : Nat) (p : P) (s : St)
    (h : Reach s0 ⟨s, some p⟩) (hp : s0.peers = true) (j : Nat) (d : Side) (hd : s.others[j]? = some d) (hne : d.me ≠ s0.me) :
    Envs (swap s j) (swap (runRec plan (fun _ => []) k p s).1 j) := by
  induction p generalizing k s d with
  | ret a => exact Envs.refl _
  | call r c ih =>
    have hmp := reach_me_peers h
    have hps : s.peers = true := hmp.2.trans hp
    have hnes : d.me ≠ s.me := by rw [hmp.1]; exact hne
    have hg : G s r := ((reach_inv h0.inv h).2 _ rfl s (Fut.refl s) (reach_inv h0.inv h).1).1
    have hcall := peer_call_is_env s r j d hd hps hnes (reqCref_of_G hg)
    have hd' : (exec s r).1.others[j]? = some d := by rw [exec_others]; exact hd
    unfold runRec
    simp only [List.foldl_nil]
    split
    · exact hcall.trans (ih _ _ _ (Reach.step _ _ h (Step.callOk s r c)) d hd' hne)
    · exact Envs.refl _
    · exact hcall
    · exact hcall.trans (ih _ _ _ (Reach.step _ _ h (Step.callLost s r c _ (admissible_fltErr _ r))) d hd' hne)
    · exact ih _ _ _ (Reach.step _ _ h (Step.callErr s r c _ (admissible_fltErr _ r))) d hd hne

end Xp.C06

import Xp.Model.C20
/-
C20: xpkg.ParsePackageSourceFromReference as string logic (Model/C20.lean `parseSourceChars`):
for every reference as written `[host/]path[:tag][@digest]` the parsed source is `[host/]path` –
tag and digest stripped and nothing else changed, whichever of the two the reference carries.
-/
namespace Xp.C20

theorem cutAt_of_not_mem (c : Char) (l : List Char) (h : c ∉ l) : cutAt c l = l := by
  induction l with
  | nil => rfl
  | cons x xs ih =>
    have hx : x ≠ c := fun e => h (by simp [e])
    have hxs : c ∉ xs := fun e => h (by simp [e])
    simp [cutAt, hx, ih hxs]

theorem cutAt_append_sep (c : Char) (a b : List Char) (h : c ∉ a) : cutAt c (a ++ c :: b) = a := by
  induction a with
  | nil => simp [cutAt]
  | cons x xs ih =>
    have hx : x ≠ c := fun e => h (by simp [e])
    have hxs : c ∉ xs := fun e => h (by simp [e])
    simp [cutAt, hx, ih hxs]

theorem lastIndex_bounds (c : Char) (l : List Char) : -1 ≤ lastIndex c l ∧ lastIndex c l < l.length := by
  induction l with
  | nil => simp [lastIndex]
  | cons x xs ih =>
    simp only [lastIndex, List.length_cons]
    split
    · omega
    · split <;> omega

theorem lastIndex_of_not_mem (c : Char) (l : List Char) (h : c ∉ l) : lastIndex c l = -1 := by
  induction l with
  | nil => rfl
  | cons x xs ih =>
    have hx : x ≠ c := fun e => h (by simp [e])
    have hxs : c ∉ xs := fun e => h (by simp [e])
    simp [lastIndex, ih hxs, hx]

/-- the separator occurs in `b`: the last index lies in `b` -/
theorem lastIndex_append_ge (c : Char) (a b : List Char) (h : 0 ≤ lastIndex c b) :
    lastIndex c (a ++ b) = a.length + lastIndex c b := by
  induction a with
  | nil => simp
  | cons x xs ih =>
    simp only [List.cons_append, lastIndex, List.length_cons]
    rw [ih]
    have : (0 : Int) ≤ xs.length + lastIndex c b := by omega
    simp only [this, if_true]
    omega

theorem lastIndex_cons_self_not_mem (c : Char) (b : List Char) (h : c ∉ b) : lastIndex c (c :: b) = 0 := by
  simp [lastIndex, lastIndex_of_not_mem c b h]

theorem lastIndex_cons_self_ge (c : Char) (b : List Char) : 0 ≤ lastIndex c (c :: b) := by
  have := lastIndex_bounds c b
  simp only [lastIndex]
  split
  · omega
  · simp

/-- the separator does not occur in `b`: the last index is the one of `a` -/
theorem lastIndex_append_not_mem (c : Char) (a b : List Char) (h : c ∉ b) :
    lastIndex c (a ++ b) = lastIndex c a := by
  induction a with
  | nil => simpa [lastIndex] using lastIndex_of_not_mem c b h
  | cons x xs ih => simp only [List.cons_append, lastIndex, ih]

theorem lastIndex_append_sep (c : Char) (a b : List Char) (h : c ∉ b) :
    lastIndex c (a ++ c :: b) = a.length := by
  rw [lastIndex_append_ge c a (c :: b) (lastIndex_cons_self_ge c b), lastIndex_cons_self_not_mem c b h]
  omega

theorem lastIndex_append_sep_ge (c : Char) (a b : List Char) : (a.length : Int) ≤ lastIndex c (a ++ c :: b) := by
  rw [lastIndex_append_ge c a (c :: b) (lastIndex_cons_self_ge c b)]
  have := lastIndex_cons_self_ge c b
  omega

theorem Written.repoChars_no_at (w : Written) (h : w.WF) : '@' ∉ w.repoChars := by
  obtain ⟨h1, _, h3, _, _⟩ := h
  unfold Written.repoChars
  split <;> simp_all

/-- no tag: the last ':' (if any: a port) does not come after the last '/' -/
theorem Written.repoChars_no_tag_cut (w : Written) (h : w.WF) :
    ¬ (lastIndex ':' w.repoChars > lastIndex '/' w.repoChars) := by
  obtain ⟨_, _, _, h4, _⟩ := h
  unfold Written.repoChars
  split
  · -- no host: no ':' at all
    simp only [List.nil_append]
    rw [lastIndex_of_not_mem ':' w.path h4]
    have := lastIndex_bounds '/' w.path
    omega
  · -- host/path: the last ':' is inside the host, the '/' after the host comes later
    rw [List.append_assoc]
    have hc : ':' ∉ (['/'] ++ w.path) := by simp [h4]
    rw [lastIndex_append_not_mem ':' w.host _ hc]
    have h1 := lastIndex_bounds ':' w.host
    have h2 := lastIndex_append_sep_ge '/' w.host w.path
    simp only [List.singleton_append]
    omega

/-- **ParsePackageSourceFromReference strips exactly the identifier**: for every reference as written,
with a tag, a digest, both or neither, with or without a registry host (with or without a port), the
source is `[host/]path`. -/
theorem parseSourceChars_written (w : Written) (h : w.WF) : parseSourceChars w.chars = w.repoChars := by
  have hat := w.repoChars_no_at h
  have hnt := w.repoChars_no_tag_cut h
  obtain ⟨_, _, _, _, ht⟩ := h
  -- the part in front of the digest
  have hfront : '@' ∉ w.repoChars ++ optPart ':' w.tag := by
    cases htag : w.tag with
    | none => simpa [optPart] using hat
    | some t =>
      have := (ht t htag).1
      simp [optPart, hat, this]
  have hcut : cutAt '@' w.chars = w.repoChars ++ optPart ':' w.tag := by
    unfold Written.chars
    cases hd : w.digest with
    | none => simpa [optPart] using cutAt_of_not_mem '@' _ hfront
    | some d => exact cutAt_append_sep '@' _ d hfront
  unfold parseSourceChars
  simp only [hcut]
  cases htag : w.tag with
  | none =>
    simp only [optPart, List.append_nil]
    simp [hnt]
  | some t =>
    obtain ⟨_, htc, hts⟩ := ht t htag
    have hi : lastIndex ':' (w.repoChars ++ ':' :: t) = w.repoChars.length := lastIndex_append_sep ':' _ t htc
    have hj : lastIndex '/' (w.repoChars ++ ':' :: t) = lastIndex '/' w.repoChars :=
      lastIndex_append_not_mem '/' _ _ (by simp [hts])
    have hb := lastIndex_bounds '/' w.repoChars
    simp only [optPart, hi, hj]
    have : (w.repoChars.length : Int) > lastIndex '/' w.repoChars := by omega
    simp [this]

/-- Two references that name the same repository on the same host – whatever tag and / or digest each of
them carries – have the same source. -/
theorem parseSourceChars_same_repository (w w' : Written) (h : w.WF) (h' : w'.WF)
    (hh : w.host = w'.host) (hp : w.path = w'.path) : parseSourceChars w.chars = parseSourceChars w'.chars := by
  rw [parseSourceChars_written w h, parseSourceChars_written w' h']
  simp [Written.repoChars, hh, hp]

/-- … and references to different repositories (or hosts) have different sources. -/
theorem parseSourceChars_injective (w w' : Written) (h : w.WF) (h' : w'.WF)
    (he : parseSourceChars w.chars = parseSourceChars w'.chars) : w.repoChars = w'.repoChars := by
  rwa [parseSourceChars_written w h, parseSourceChars_written w' h'] at he

end Xp.C20

import Xp.Proofs.C19Owner
/-
C19 helper lemmas, part 10: calls answered by the world (`Thread.stepW`): error classes,
informer-cache answers.
-/
namespace Xp.C19

/-! ### error classes -/

/-- the reconciler's handling of a failed call depends only on IsNotFound / IsConflict -/
theorem next_err_class (t : Thread) (seen : List Usage) (e : Err) (h1 : e ≠ .notFound) (h2 : e ≠ .conflict) :
    t.next seen (.err e) = t.next seen (.err .other) := by
  obtain ⟨uname, pc, u, orv, ord, sn⟩ := t
  cases e <;> first | exact absurd rfl h1 | exact absurd rfl h2 | (cases pc <;> rfl)

/-- a failed call ends the reconcile, whatever its class - except NotFound for the using / used
resource of a Usage being deleted, which the code takes as "already gone" -/
theorem next_err_done (t : Thread) (seen : List Usage) (e : Err) :
    (∃ r, t.next seen (.err e) = .done r) ∨ (e = .notFound ∧ (t.pc = .dGetUsing ∨ t.pc = .dGetUsed)) := by
  obtain ⟨uname, pc, u, orv, ord, sn⟩ := t
  cases e <;> cases pc <;>
    first
    | exact .inl ⟨_, rfl⟩
    | exact .inr ⟨rfl, .inl rfl⟩
    | exact .inr ⟨rfl, .inr rfl⟩

theorem stepW_fail_store (t : Thread) (c : Call) (s : Store) : (t.stepW .fail c s).store = s := rfl

theorem step_fail_after (t : Thread) (s : Store) : ∃ r, (t.step .fail none s).after = .done r := by
  unfold Thread.step
  exact next_fault t s.usages .fail

/-- an injected failure of any class but NotFound leaves the system exactly where a generic
failure leaves it: the store untouched, the reconcile over -/
theorem exec_fail_class (sys : Sys) (n : String) (c : Call) (h : c.cls ≠ .notFound) :
    (sys.exec (.stepW n .fail c)).1 = (sys.exec (.step n .fail none)).1 := by
  simp only [Sys.exec]
  cases hth : sys.thread? n with
  | none => rfl
  | some t =>
    simp only []
    obtain ⟨r1, h1⟩ : ∃ r, (t.stepW .fail c sys.store).after = .done r := by
      rcases next_err_done t sys.store.usages c.cls with h' | ⟨h', _⟩
      · exact h'
      · exact absurd h' h
    obtain ⟨r2, h2⟩ := step_fail_after t sys.store
    rw [h1, h2]
    rfl

/-- schedules whose world-answered calls are injected failures carrying an error class -/
def Action.classOnly : Action → Bool
  | .stepW _ .fail c => c.cls != .notFound
  | a => a.fresh

/-- forget the class -/
def Action.unclass : Action → Action
  | .stepW n .fail _ => .step n .fail none
  | a => a

theorem unclass_fresh (a : Action) (h : a.classOnly = true) : a.unclass.fresh = true := by
  cases a with
  | stepW n o c => cases o <;> simp_all [Action.classOnly, Action.unclass, Action.fresh]
  | _ => simpa [Action.classOnly, Action.unclass] using h

theorem exec_unclass (sys : Sys) (a : Action) (h : a.classOnly = true) :
    (sys.exec a).1 = (sys.exec a.unclass).1 := by
  cases a with
  | stepW n o c =>
    cases o with
    | fail =>
      simp only [Action.unclass]
      exact exec_fail_class sys n c (by simpa [Action.classOnly] using h)
    | _ => simp [Action.classOnly, Action.fresh] at h
  | _ => rfl

theorem run_unclass (sys : Sys) (as : List Action) (h : ∀ a ∈ as, a.classOnly = true) :
    sys.run as = sys.run (as.map Action.unclass) ∧ listFresh (as.map Action.unclass) := by
  induction as generalizing sys with
  | nil => exact ⟨rfl, fun a ha => by cases ha⟩
  | cons a as ih =>
    have ha := h a List.mem_cons_self
    obtain ⟨h1, h2⟩ := ih (sys.exec a).1 (fun b hb => h b (List.mem_cons_of_mem _ hb))
    constructor
    · simp only [Sys.run, List.map_cons]
      rw [h1, exec_unclass sys a ha]
    · intro b hb
      simp only [List.map_cons, List.mem_cons] at hb
      rcases hb with rfl | hb
      · exact unclass_fresh a ha
      · exact h2 b hb

/-! ### the informer cache -/

/-- a write of the Usage carrying another resourceVersion than the stored one changes nothing -/
theorem updU_stale (s : Store) (u x : Usage) (hg : s.getU u.name = some x) (hrv : x.rv ≠ u.rv) :
    (s.updU u).1 = s := by
  unfold Store.updU
  simp only [hg, hrv, ne_eq, not_false_eq_true, if_true]

theorem updStatus_stale (s : Store) (u x : Usage) (hg : s.getU u.name = some x) (hrv : x.rv ≠ u.rv) :
    (s.updStatus u).1 = s := by
  unfold Store.updStatus
  simp only [hg, hrv, ne_eq, not_false_eq_true, if_true]

theorem updU_absent (s : Store) (u : Usage) (hg : s.getU u.name = none) : (s.updU u).1 = s := by
  unfold Store.updU
  simp only [hg]

theorem updStatus_absent (s : Store) (u : Usage) (hg : s.getU u.name = none) : (s.updStatus u).1 = s := by
  unfold Store.updStatus
  simp only [hg]

theorem request_updStatus_rv {t : Thread} {u' : Usage} (h : t.request = .updStatus u') : u'.rv = t.u.rv := by
  obtain ⟨nm, pc, u, orv, ord, seen⟩ := t
  cases pc with
  | status => simp only [Thread.request] at h; cases h; rfl
  | byList => simp only [Thread.request] at h; split at h <;> cases h
  | dGetUsing => simp only [Thread.request] at h; split at h <;> cases h
  | getUsing => simp only [Thread.request] at h; split at h <;> cases h
  | _ => simp only [Thread.request] at h; cases h

/-- the API call of a reconcile whose copy of the Usage is not the stored version (the informer
cache handed it an older one, or one that is gone) leaves every Usage as it is -/
theorem exec_request_lagging (s : Store) (t : Thread) (hn : t.u.name = t.uname)
    (h : ∀ x, s.getU t.uname = some x → x.rv ≠ t.u.rv) : (s.exec t.request).1.usages = s.usages := by
  cases hr : t.request with
  | getU n => rfl
  | getR g k n => rfl
  | listR g k l => rfl
  | listU key => rfl
  | updR r => simp only [Store.exec]; exact updR_usages s r
  | updU u' =>
    obtain ⟨h1, h2, _⟩ := request_updU hr
    simp only [Store.exec]
    cases hg : s.getU u'.name with
    | none => rw [updU_absent s u' hg]
    | some x =>
      have hx : x.rv ≠ u'.rv := by rw [h2]; exact h x (by rw [← hn, ← h1]; exact hg)
      rw [updU_stale s u' x hg hx]
  | updStatus u' =>
    have h1 := request_updStatus hr
    have h2 := request_updStatus_rv hr
    simp only [Store.exec]
    cases hg : s.getU u'.name with
    | none => rw [updStatus_absent s u' hg]
    | some x =>
      have hx : x.rv ≠ u'.rv := by rw [h2]; exact h x (by rw [← hn, ← h1]; exact hg)
      rw [updStatus_stale s u' x hg hx]

theorem stepW_lagging (s : Store) (t : Thread) (o : Outcome) (c : Call) (hn : t.u.name = t.uname)
    (h : ∀ x, s.getU t.uname = some x → x.rv ≠ t.u.rv) : (t.stepW o c s).store.usages = s.usages := by
  unfold Thread.stepW
  cases o <;> first | rfl | exact exec_request_lagging s t hn h

end Xp.C19

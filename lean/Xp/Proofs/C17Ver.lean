import Xp.Model.C17
/-
C17 helper lemmas: the SemVer precedence order of the model is a total preorder; the two
selection scans pick the greatest / least admissible element of a sorted list.
Core Lean only.
-/
namespace Xp.C17

/-! ### identifiers -/

theorem Ident.le_refl (a : Ident) : Ident.le a a = true := by
  cases a <;> simp [Ident.le]

theorem Ident.le_total (a b : Ident) : Ident.le a b = true ∨ Ident.le b a = true := by
  cases a <;> cases b <;> simp only [Ident.le, decide_eq_true_eq]
  · omega
  · exact Or.inl trivial
  · exact Or.inr trivial
  · exact String.le_total _ _

theorem Ident.le_trans {a b c : Ident} (h1 : Ident.le a b = true) (h2 : Ident.le b c = true) : Ident.le a c = true := by
  cases a <;> cases b <;> cases c <;> simp only [Ident.le, decide_eq_true_eq] at * <;>
    first | trivial | omega | exact String.le_trans h1 h2 | contradiction

theorem Ident.le_antisymm {a b : Ident} (h1 : Ident.le a b = true) (h2 : Ident.le b a = true) : a = b := by
  cases a <;> cases b <;> simp only [Ident.le, decide_eq_true_eq] at *
  · congr 1; omega
  · cases h2
  · cases h1
  · congr 1; exact String.le_antisymm h1 h2

/-! ### pre-release lists -/

theorem preLe_refl : ∀ p : List Ident, preLe p p = true
  | [] => rfl
  | a :: as => by simp [preLe, preLe_refl as]

theorem preLe_total : ∀ p q : List Ident, preLe p q = true ∨ preLe q p = true
  | [], _ => Or.inl (by simp [preLe])
  | _ :: _, [] => Or.inr (by simp [preLe])
  | a :: as, b :: bs => by
    by_cases h : a = b
    · subst h
      simp only [preLe, if_true]
      exact preLe_total as bs
    · have h' : ¬ b = a := fun e => h e.symm
      simp only [preLe, h, h', if_false]
      exact Ident.le_total a b

theorem preLe_trans : ∀ {p q r : List Ident}, preLe p q = true → preLe q r = true → preLe p r = true
  | [], _, _, _, _ => by simp [preLe]
  | _ :: _, [], _, h1, _ => by simp [preLe] at h1
  | _ :: _, _ :: _, [], _, h2 => by simp [preLe] at h2
  | a :: as, b :: bs, c :: cs, h1, h2 => by
    simp only [preLe] at h1 h2 ⊢
    by_cases hab : a = b
    · subst hab
      simp only [if_true] at h1
      by_cases hac : a = c
      · subst hac
        simp only [if_true] at h2 ⊢
        exact preLe_trans h1 h2
      · simp only [hac, if_false] at h2 ⊢
        exact h2
    · simp only [hab, if_false] at h1
      by_cases hbc : b = c
      · subst hbc
        simp only [hab, if_false]
        exact h1
      · simp only [hbc, if_false] at h2
        have hac : ¬ a = c := by
          intro e; subst e
          exact hab (Ident.le_antisymm h1 h2)
        simp only [hac, if_false]
        exact Ident.le_trans h1 h2

theorem relLe_refl (p : List Ident) : relLe p p = true := by
  cases p with
  | nil => rfl
  | cons a as => simp only [relLe]; exact preLe_refl _

theorem relLe_total (p q : List Ident) : relLe p q = true ∨ relLe q p = true := by
  cases p <;> cases q <;> simp only [relLe]
  · exact Or.inl trivial
  · exact Or.inr trivial
  · exact Or.inl trivial
  · exact preLe_total _ _

theorem relLe_trans {p q r : List Ident} (h1 : relLe p q = true) (h2 : relLe q r = true) : relLe p r = true := by
  cases p <;> cases q <;> cases r <;> simp only [relLe] at * <;>
    first | trivial | exact preLe_trans h1 h2 | contradiction

/-! ### versions -/

theorem Ver.le_iff (v w : Ver) : v.le w = true ↔
    (v.major < w.major ∨ (v.major = w.major ∧ (v.minor < w.minor ∨ (v.minor = w.minor ∧
      (v.patch < w.patch ∨ (v.patch = w.patch ∧ relLe v.pre w.pre = true)))))) := by
  unfold Ver.le
  by_cases h1 : v.major = w.major
  · by_cases h2 : v.minor = w.minor
    · by_cases h3 : v.patch = w.patch
      · simp [h1, h2, h3]
      · simp only [h1, h2, h3, ne_eq, not_true_eq_false, if_false, not_false_eq_true, if_true, decide_eq_true_eq]
        constructor
        · intro h; exact Or.inr ⟨trivial, Or.inr ⟨trivial, Or.inl h⟩⟩
        · rintro (h | ⟨_, h | ⟨_, h | ⟨h, _⟩⟩⟩) <;> first | omega | contradiction
    · simp only [h1, h2, ne_eq, not_true_eq_false, if_false, not_false_eq_true, if_true, decide_eq_true_eq]
      constructor
      · intro h; exact Or.inr ⟨trivial, Or.inl h⟩
      · rintro (h | ⟨_, h | ⟨h, _⟩⟩) <;> first | omega | contradiction
  · simp only [h1, ne_eq, not_false_eq_true, if_true, decide_eq_true_eq]
    constructor
    · intro h; exact Or.inl h
    · rintro (h | ⟨h, _⟩) <;> first | omega | contradiction

theorem Ver.le_refl (v : Ver) : v.le v = true := by
  rw [Ver.le_iff]
  exact Or.inr ⟨rfl, Or.inr ⟨rfl, Or.inr ⟨rfl, relLe_refl _⟩⟩⟩

theorem Ver.le_total (a b : Ver) : a.le b = true ∨ b.le a = true := by
  rw [Ver.le_iff, Ver.le_iff]
  rcases Nat.lt_trichotomy a.major b.major with h | h | h
  · exact Or.inl (Or.inl h)
  · rcases Nat.lt_trichotomy a.minor b.minor with h' | h' | h'
    · exact Or.inl (Or.inr ⟨h, Or.inl h'⟩)
    · rcases Nat.lt_trichotomy a.patch b.patch with h'' | h'' | h''
      · exact Or.inl (Or.inr ⟨h, Or.inr ⟨h', Or.inl h''⟩⟩)
      · rcases relLe_total a.pre b.pre with r | r
        · exact Or.inl (Or.inr ⟨h, Or.inr ⟨h', Or.inr ⟨h'', r⟩⟩⟩)
        · exact Or.inr (Or.inr ⟨h.symm, Or.inr ⟨h'.symm, Or.inr ⟨h''.symm, r⟩⟩⟩)
      · exact Or.inr (Or.inr ⟨h.symm, Or.inr ⟨h'.symm, Or.inl h''⟩⟩)
    · exact Or.inr (Or.inr ⟨h.symm, Or.inl h'⟩)
  · exact Or.inr (Or.inl h)

theorem Ver.le_trans {a b c : Ver} (h1 : a.le b = true) (h2 : b.le c = true) : a.le c = true := by
  rw [Ver.le_iff] at *
  rcases h1 with h1 | ⟨e1, h1 | ⟨e1', h1 | ⟨e1'', h1⟩⟩⟩ <;>
  rcases h2 with h2 | ⟨e2, h2 | ⟨e2', h2 | ⟨e2'', h2⟩⟩⟩
  all_goals first
    | exact Or.inl (by omega)
    | exact Or.inr ⟨by omega, Or.inl (by omega)⟩
    | exact Or.inr ⟨by omega, Or.inr ⟨by omega, Or.inl (by omega)⟩⟩
    | exact Or.inr ⟨by omega, Or.inr ⟨by omega, Or.inr ⟨by omega, relLe_trans h1 h2⟩⟩⟩

/-! ### sorted tag lists -/

def tagLe (a b : VTag) : Bool := a.ver.le b.ver

theorem sortTags_sorted (vs : List VTag) : (sortTags vs).Pairwise (fun a b => tagLe a b = true) := by
  unfold sortTags
  apply List.pairwise_mergeSort
  · intro a b c h1 h2; exact Ver.le_trans h1 h2
  · intro a b
    rcases Ver.le_total a.ver b.ver with h | h <;> simp [tagLe, h]

theorem mem_sortTags {v : VTag} {vs : List VTag} : v ∈ sortTags vs ↔ v ∈ vs := by
  unfold sortTags; exact List.mem_mergeSort

theorem mem_parseTags {o : Oracle} {tags : List String} {v : VTag} :
    v ∈ parseTags o tags ↔ v.tag ∈ tags ∧ o.ver v.tag = some v.ver := by
  unfold parseTags
  rw [List.mem_filterMap]
  constructor
  · rintro ⟨t, ht, hv⟩
    cases hver : o.ver t with
    | none => rw [hver] at hv; cases hv
    | some w =>
      rw [hver] at hv
      simp only [Option.map_some, Option.some.injEq] at hv
      subst hv
      exact ⟨ht, hver⟩
  · rintro ⟨ht, hv⟩
    exact ⟨v.tag, ht, by rw [hv]; rfl⟩

/-! ### the install scan: last satisfying element of a sorted list -/

theorem lastSat_spec (sat : String → Bool) :
    ∀ (l : List VTag) (acc : String), l.Pairwise (fun a b => tagLe a b = true) →
      (lastSat sat l acc = acc ∧ ∀ v ∈ l, sat v.tag = false) ∨
      (∃ v ∈ l, lastSat sat l acc = v.tag ∧ sat v.tag = true ∧ ∀ w ∈ l, sat w.tag = true → w.ver.le v.ver = true) := by
  intro l
  induction l with
  | nil => intro acc _; exact Or.inl ⟨rfl, fun _ h => by cases h⟩
  | cons x xs ih =>
    intro acc hp
    have hx : ∀ y ∈ xs, tagLe x y = true := (List.pairwise_cons.1 hp).1
    have hxs := (List.pairwise_cons.1 hp).2
    unfold lastSat
    rcases ih (if sat x.tag then x.tag else acc) hxs with ⟨e, none⟩ | ⟨v, hv, e, hs, hmax⟩
    · cases hsx : sat x.tag with
      | false =>
        rw [hsx] at e
        simp only [Bool.false_eq_true, if_false] at e
        simp only [Bool.false_eq_true, if_false]
        refine Or.inl ⟨e, ?_⟩
        intro v hv
        cases hv with
        | head => exact hsx
        | tail _ h => exact none v h
      | true =>
        rw [hsx] at e
        simp only [if_true] at e ⊢
        refine Or.inr ⟨x, List.mem_cons_self .., e, hsx, ?_⟩
        intro w hw hsw
        cases hw with
        | head => exact Ver.le_refl _
        | tail _ h => rw [none w h] at hsw; cases hsw
    · refine Or.inr ⟨v, List.mem_cons_of_mem _ hv, e, hs, ?_⟩
      intro w hw hsw
      cases hw with
      | head => exact hx v hv
      | tail _ h => exact hmax w h hsw

/-! ### the update scan -/

theorem pickUpdate_spec (valid : String → Bool) (cur : Ver) (down : Bool) :
    ∀ (l : List VTag) (target : Option String), l.Pairwise (fun a b => tagLe a b = true) →
      (∃ v ∈ l, pickUpdate valid cur down l target = some v.tag ∧ cur.le v.ver = true ∧ valid v.tag = true ∧
          ∀ w ∈ l, cur.le w.ver = true → valid w.tag = true → v.ver.le w.ver = true) ∨
      ((∀ w ∈ l, cur.le w.ver = true → valid w.tag = false) ∧
        ((down = true ∧ ∃ v ∈ l, pickUpdate valid cur down l target = some v.tag ∧ valid v.tag = true ∧
            ∀ w ∈ l, valid w.tag = true → w.ver.le v.ver = true) ∨
         ((down = false ∨ ∀ w ∈ l, valid w.tag = false) ∧ pickUpdate valid cur down l target = target))) := by
  intro l
  induction l with
  | nil =>
    intro target _
    exact Or.inr ⟨(fun _ h => by cases h), Or.inr ⟨Or.inr (fun _ h => by cases h), rfl⟩⟩
  | cons x xs ih =>
    intro target hp
    have hx : ∀ y ∈ xs, tagLe x y = true := (List.pairwise_cons.1 hp).1
    have hxs := (List.pairwise_cons.1 hp).2
    unfold pickUpdate
    by_cases hup : (cur.le x.ver && valid x.tag) = true
    · simp only [hup, if_true]
      have h1 : cur.le x.ver = true := by simp only [Bool.and_eq_true] at hup; exact hup.1
      have h2 : valid x.tag = true := by simp only [Bool.and_eq_true] at hup; exact hup.2
      refine Or.inl ⟨x, List.mem_cons_self .., rfl, h1, h2, ?_⟩
      intro w hw _ _
      cases hw with
      | head => exact Ver.le_refl _
      | tail _ h => exact hx w h
    · simp only [hup, Bool.false_eq_true, if_false]
      have hxno : cur.le x.ver = true → valid x.tag = false := by
        intro h1
        cases hv : valid x.tag with
        | false => rfl
        | true => exact absurd (by simp [h1, hv]) hup
      rcases ih (if (down && valid x.tag) = true then some x.tag else target) hxs with
        ⟨v, hv, e, h1, h2, hmin⟩ | ⟨hnone, hrest⟩
      · refine Or.inl ⟨v, List.mem_cons_of_mem _ hv, e, h1, h2, ?_⟩
        intro w hw hw1 hw2
        cases hw with
        | head => rw [hxno hw1] at hw2; cases hw2
        | tail _ h => exact hmin w h hw1 hw2
      · have hnone' : ∀ w ∈ x :: xs, cur.le w.ver = true → valid w.tag = false := by
          intro w hw
          cases hw with
          | head => exact hxno
          | tail _ h => exact hnone w h
        refine Or.inr ⟨hnone', ?_⟩
        rcases hrest with ⟨hd, v, hv, e, h2, hmax⟩ | ⟨hcond, e⟩
        · refine Or.inl ⟨hd, v, List.mem_cons_of_mem _ hv, e, h2, ?_⟩
          intro w hw hw2
          cases hw with
          | head => exact hx v hv
          | tail _ h => exact hmax w h hw2
        · by_cases hdv : (down && valid x.tag) = true
          · simp only [hdv, if_true] at e ⊢
            have hd : down = true := by simp only [Bool.and_eq_true] at hdv; exact hdv.1
            have hvx : valid x.tag = true := by simp only [Bool.and_eq_true] at hdv; exact hdv.2
            have hnov : ∀ w ∈ xs, valid w.tag = false := by
              rcases hcond with h | h
              · rw [hd] at h; cases h
              · exact h
            refine Or.inl ⟨hd, x, List.mem_cons_self .., e, hvx, ?_⟩
            intro w hw hw2
            cases hw with
            | head => exact Ver.le_refl _
            | tail _ h => rw [hnov w h] at hw2; cases hw2
          · simp only [hdv, Bool.false_eq_true, if_false] at e ⊢
            refine Or.inr ⟨?_, e⟩
            rcases hcond with h | h
            · exact Or.inl h
            · cases hd : down with
              | false => exact Or.inl rfl
              | true =>
                refine Or.inr ?_
                intro w hw
                cases hw with
                | head =>
                  cases hvx : valid x.tag with
                  | false => rfl
                  | true => exact absurd (by simp [hd, hvx]) hdv
                | tail _ h' => exact h w h'

/-! ### findDigestToUpdate -/

theorem digestLoop_spec (o : Oracle) (hdig : ∀ c dg, o.digest c = some dg → dg ≠ "") :
    ∀ (cs : List String) (found : String) (ver : Bool) (dg : String),
      digestLoop o cs found ver = .ok dg → ¬ (ver = true ∧ found ≠ "") →
      (dg ≠ "" → ver = false ∧ (found = "" ∨ found = dg) ∧ ∀ c ∈ cs, o.digest c = some dg) ∧
      (dg = "" → found = "" ∧ ∀ c ∈ cs, o.digest c = none) := by
  intro cs
  induction cs with
  | nil =>
    intro found ver dg h hI
    simp only [digestLoop, Except.ok.injEq] at h
    subst h
    refine ⟨fun hne => ⟨?_, Or.inr rfl, fun _ h => by cases h⟩, fun he => ⟨he, fun _ h => by cases h⟩⟩
    cases ver with
    | false => rfl
    | true => exact absurd ⟨rfl, hne⟩ hI
  | cons c cs ih =>
    intro found ver dg h hI
    unfold digestLoop at h
    cases hd : o.digest c with
    | some d =>
      rw [hd] at h
      simp only [] at h
      have hdne : d ≠ "" := hdig c d hd
      split at h
      · cases h
      · rename_i hc1
        split at h
        · cases h
        · rename_i hc2
          have hver : ver = false := by
            cases ver with
            | false => rfl
            | true => exact absurd (by simp [hdne]) hc2
          have hfound : found = "" ∨ found = d := by
            by_cases h1 : found = ""
            · exact Or.inl h1
            · by_cases h2 : found = d
              · exact Or.inr h2
              · exact absurd (by simp [h1, h2]) hc1
          obtain ⟨a, b⟩ := ih d ver dg h (by rw [hver]; simp)
          constructor
          · intro hne
            obtain ⟨_, hfd, hall⟩ := a hne
            have hddg : d = dg := by
              rcases hfd with h' | h'
              · exact absurd h' hdne
              · exact h'
            subst hddg
            refine ⟨hver, hfound, ?_⟩
            intro x hx
            cases hx with
            | head => exact hd
            | tail _ hx' => exact hall x hx'
          · intro he
            exact absurd (b he).1 hdne
    | none =>
      rw [hd] at h
      simp only [] at h
      split at h
      · cases h
      · rename_i hc1
        have hf : found = "" := by
          by_cases h1 : found = ""
          · exact h1
          · exact absurd (by simp [h1]) hc1
        obtain ⟨a, b⟩ := ih found true dg h (by rw [hf]; simp)
        constructor
        · intro hne
          have := (a hne).1
          cases this
        · intro he
          refine ⟨hf, ?_⟩
          intro x hx
          cases hx with
          | head => exact hd
          | tail _ hx' => exact (b he).2 x hx'

end Xp.C17

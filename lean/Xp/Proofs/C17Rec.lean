import Xp.Model.C17Rec
/-
C17, lock reconciler at the level of its API calls: the coherence invariant is kept by every
call, every third-party act and the cache; every write the reconciler issues is justified by
what the running Reconcile was served (`Guar`), whatever the others do in between.
-/
namespace Xp.C17

/-! ### list helpers -/

theorem mem_setImage {kind name : String} {img : Option String} {rv : Nat} :
    ∀ (ps : List PkgObj), ∃ p0 : PkgObj, ∀ q ∈ setImage kind name img rv ps, q ∈ ps ∨ q = { p0 with image := img, rv := rv }
  | [] => ⟨⟨"", "", none, 0⟩, fun q h => by simp [setImage] at h⟩
  | p :: ps => by
    unfold setImage
    by_cases hk : sameKey kind name p = true
    · refine ⟨p, fun q h => ?_⟩
      simp only [hk, if_true] at h
      rcases List.mem_cons.mp h with h | h
      · exact Or.inr h
      · exact Or.inl (List.mem_cons_of_mem _ h)
    · obtain ⟨p0, ih⟩ := mem_setImage (kind := kind) (name := name) (img := img) (rv := rv) ps
      refine ⟨p0, fun q h => ?_⟩
      simp only [hk] at h
      rcases List.mem_cons.mp h with h | h
      · exact Or.inl (h ▸ List.mem_cons_self ..)
      · rcases ih q h with h' | h'
        · exact Or.inl (List.mem_cons_of_mem _ h')
        · exact Or.inr h'

theorem mem_putCached {p : PkgObj} : ∀ (qs : List PkgObj), ∀ q ∈ putCached p qs, q ∈ qs ∨ q = p
  | [], q, h => by simp [putCached] at h; exact Or.inr h
  | x :: xs, q, h => by
    unfold putCached at h
    by_cases hk : sameKey p.kind p.name x = true
    · simp only [hk, if_true] at h
      rcases List.mem_cons.mp h with h | h
      · exact Or.inr h
      · exact Or.inl (List.mem_cons_of_mem _ h)
    · simp only [hk] at h
      rcases List.mem_cons.mp h with h | h
      · exact Or.inl (h ▸ List.mem_cons_self ..)
      · rcases mem_putCached xs q h with h' | h'
        · exact Or.inl (List.mem_cons_of_mem _ h')
        · exact Or.inr h'

/-- the match found by the loop is a member of the list served, its image parses to `pref` and
`pref` names the repository looked for -/
theorem lastMatch_spec (refOf : String → Option RefInfo) (repo : String) :
    ∀ (ps : List PkgObj) (acc : Option (PkgObj × RefInfo)) (p : PkgObj) (pref : RefInfo),
      lastMatch refOf repo ps acc = some (p, pref) →
      (acc = some (p, pref)) ∨ (p ∈ ps ∧ p.image.bind refOf = some pref ∧ pref.repo = repo)
  | [], acc, p, pref, h => Or.inl (by simpa [lastMatch] using h)
  | x :: xs, acc, p, pref, h => by
    unfold lastMatch at h
    cases hx : x.image.bind refOf with
    | none =>
      rw [hx] at h
      rcases lastMatch_spec refOf repo xs acc p pref h with h' | ⟨h1, h2⟩
      · exact Or.inl h'
      · exact Or.inr ⟨List.mem_cons_of_mem _ h1, h2⟩
    | some r =>
      rw [hx] at h
      simp only [] at h
      rcases lastMatch_spec refOf repo xs _ p pref h with h' | ⟨h1, h2⟩
      · by_cases hr : r.repo = repo
        · simp only [hr, if_true] at h'
          injection h' with h'
          injection h' with hp hq
          subst hp; subst hq
          exact Or.inr ⟨List.mem_cons_self .., hx, hr⟩
        · simp only [hr, if_false] at h'
          exact Or.inl h'
      · exact Or.inr ⟨List.mem_cons_of_mem _ h1, h2⟩

/-! ### one call: what it does to the ghost record -/

theorem exec_inject {w : RWorld} {e : ErrClass} (h : w.inject = some e) (r : Req) :
    execRec w r = ({ w with inject := none }, .err e) := by
  unfold execRec; rw [h]

/-- a call never un-serves anything and only `getLock` / `listPkgs` / `tags` serve something -/
theorem exec_seen (w : RWorld) (r : Req) :
    let w' := (execRec w r).1
    (w'.seen.lock = w.seen.lock ∨ ∃ l, r = .getLock ∧ (execRec w r).2 = .lock l ∧ w'.seen.lock = some l) ∧
    (w'.seen.pkgs = w.seen.pkgs ∨ ∃ k ps, r = .listPkgs k ∧ (execRec w r).2 = .pkgs ps ∧ w'.seen.pkgs = some ps) ∧
    (w'.seen.tags = w.seen.tags ∨ ∃ rp ts, r = .tags rp ∧ (execRec w r).2 = .tags ts ∧ w'.seen.tags = some ts) ∧
    (w'.seen.writes = w.seen.writes ∨ (r.isPkgWrite = true ∧ w'.seen.writes = w.seen.writes + 1)) := by
  intro w'
  show _ ∧ _ ∧ _ ∧ _
  cases hi : w.inject with
  | some e =>
    have : w' = { w with inject := none } := by show (execRec w r).1 = _; rw [exec_inject hi]
    rw [this]
    exact ⟨Or.inl rfl, Or.inl rfl, Or.inl rfl, Or.inl rfl⟩
  | none =>
    cases r with
    | getLock =>
      cases hc : w.clock with
      | none =>
        have : w' = w := by show (execRec w .getLock).1 = _; simp [execRec, hi, hc]
        rw [this]; exact ⟨Or.inl rfl, Or.inl rfl, Or.inl rfl, Or.inl rfl⟩
      | some l =>
        have h1 : execRec w .getLock = ({ w with seen := { w.seen with lock := some l } }, .lock l) := by
          simp [execRec, hi, hc]
        have : w' = { w with seen := { w.seen with lock := some l } } := by show (execRec w .getLock).1 = _; rw [h1]
        rw [this]
        exact ⟨Or.inr ⟨l, rfl, by rw [h1], rfl⟩, Or.inl rfl, Or.inl rfl, Or.inl rfl⟩
    | updateLock pkgs fin rv =>
      have : w'.seen = w.seen := by
        show (execRec w (.updateLock pkgs fin rv)).1.seen = _
        unfold execRec; rw [hi]; simp only []
        cases w.lock with
        | none => rfl
        | some l => by_cases h : l.rv ≠ rv <;> simp [h]
      rw [this]; exact ⟨Or.inl rfl, Or.inl rfl, Or.inl rfl, Or.inl rfl⟩
    | statusLock c rv =>
      have : w'.seen = w.seen := by
        show (execRec w (.statusLock c rv)).1.seen = _
        unfold execRec; rw [hi]; simp only []
        cases w.lock with
        | none => rfl
        | some l => by_cases h : l.rv ≠ rv <;> simp [h]
      rw [this]; exact ⟨Or.inl rfl, Or.inl rfl, Or.inl rfl, Or.inl rfl⟩
    | listPkgs kind =>
      have h1 : execRec w (.listPkgs kind) =
          ({ w with seen := { w.seen with pkgs := some (w.cpkgs.filter (fun p => p.kind == kind)) } },
           .pkgs (w.cpkgs.filter (fun p => p.kind == kind))) := by simp [execRec, hi]
      have : w' = { w with seen := { w.seen with pkgs := some (w.cpkgs.filter (fun p => p.kind == kind)) } } := by
        show (execRec w (.listPkgs kind)).1 = _; rw [h1]
      rw [this]
      exact ⟨Or.inl rfl, Or.inr ⟨kind, _, rfl, by rw [h1], rfl⟩, Or.inl rfl, Or.inl rfl⟩
    | pullSecret ref =>
      have : w' = w := by show (execRec w (.pullSecret ref)).1 = _; simp [execRec, hi]
      rw [this]; exact ⟨Or.inl rfl, Or.inl rfl, Or.inl rfl, Or.inl rfl⟩
    | tags repo =>
      cases ht : lookupTags repo w.tags with
      | none =>
        have : w' = w := by show (execRec w (.tags repo)).1 = _; simp [execRec, hi, ht]
        rw [this]; exact ⟨Or.inl rfl, Or.inl rfl, Or.inl rfl, Or.inl rfl⟩
      | some ts =>
        have h1 : execRec w (.tags repo) = ({ w with seen := { w.seen with tags := some ts } }, .tags ts) := by
          simp [execRec, hi, ht]
        have : w' = { w with seen := { w.seen with tags := some ts } } := by show (execRec w (.tags repo)).1 = _; rw [h1]
        rw [this]
        exact ⟨Or.inl rfl, Or.inl rfl, Or.inr ⟨repo, ts, rfl, by rw [h1], rfl⟩, Or.inl rfl⟩
    | getPkg kind name =>
      cases hf : w.cpkgs.find? (sameKey kind name) with
      | none =>
        have : w' = w := by show (execRec w (.getPkg kind name)).1 = _; simp [execRec, hi, hf]
        rw [this]; exact ⟨Or.inl rfl, Or.inl rfl, Or.inl rfl, Or.inl rfl⟩
      | some p =>
        have : w' = { w with seen := { w.seen with existing := some p } } := by
          show (execRec w (.getPkg kind name)).1 = _; simp [execRec, hi, hf]
        rw [this]; exact ⟨Or.inl rfl, Or.inl rfl, Or.inl rfl, Or.inl rfl⟩
    | createPkg kind name image =>
      by_cases hx : w.pkgs.any (sameKey kind name) = true
      · have : w' = { w with seen := { w.seen with taken := true } } := by
          show (execRec w (.createPkg kind name image)).1 = _; simp [execRec, hi, hx]
        rw [this]; exact ⟨Or.inl rfl, Or.inl rfl, Or.inl rfl, Or.inl rfl⟩
      · have : w' = { w with pkgs := w.pkgs ++ [⟨kind, name, some image, w.next⟩], next := w.next + 1,
                              seen := { w.seen with writes := w.seen.writes + 1 } } := by
          show (execRec w (.createPkg kind name image)).1 = _; simp [execRec, hi, hx]
        rw [this]; exact ⟨Or.inl rfl, Or.inl rfl, Or.inl rfl, Or.inr ⟨rfl, rfl⟩⟩
    | updatePkg kind name image rv =>
      cases hf : w.pkgs.find? (sameKey kind name) with
      | none =>
        have : w' = w := by show (execRec w (.updatePkg kind name image rv)).1 = _; simp [execRec, hi, hf]
        rw [this]; exact ⟨Or.inl rfl, Or.inl rfl, Or.inl rfl, Or.inl rfl⟩
      | some p =>
        by_cases hr : p.rv ≠ rv
        · have : w' = w := by show (execRec w (.updatePkg kind name image rv)).1 = _; simp [execRec, hi, hf, hr]
          rw [this]; exact ⟨Or.inl rfl, Or.inl rfl, Or.inl rfl, Or.inl rfl⟩
        · have : w' = { w with pkgs := setImage kind name (some image) w.next w.pkgs, next := w.next + 1,
                                seen := { w.seen with writes := w.seen.writes + 1 } } := by
            show (execRec w (.updatePkg kind name image rv)).1 = _; simp [execRec, hi, hf, hr]
          rw [this]; exact ⟨Or.inl rfl, Or.inl rfl, Or.inl rfl, Or.inr ⟨rfl, rfl⟩⟩

/-! ### coherence is kept -/

/-- nothing the invariant looks at changed -/
theorem Coh.congr {w w' : RWorld} (hc : Coh w) (h1 : w'.lock = w.lock) (h2 : w'.pkgs = w.pkgs)
    (h3 : w'.clock = w.clock) (h4 : w'.cpkgs = w.cpkgs) (h5 : w'.next = w.next)
    (h6 : w'.seen.lock = w.seen.lock) (h7 : w'.seen.pkgs = w.seen.pkgs) : Coh w' where
  lockRv := by rw [h1, h5]; exact hc.lockRv
  pkgRv := by rw [h2, h5]; exact hc.pkgRv
  clockRv := by rw [h3, h5]; exact hc.clockRv
  cpkgRv := by rw [h4, h5]; exact hc.cpkgRv
  seenLockRv := by rw [h6, h5]; exact hc.seenLockRv
  seenPkgRv := by rw [h7, h5]; exact hc.seenPkgRv
  pkgUniq := by rw [h2]; exact hc.pkgUniq
  clockEq := by rw [h3, h1]; exact hc.clockEq
  seenLockEq := by rw [h6, h1]; exact hc.seenLockEq
  cpkgEq := by rw [h4, h2]; exact hc.cpkgEq
  seenPkgEq := by rw [h7, h2]; exact hc.seenPkgEq

/-- a write: the object written gets the resourceVersion `next`, everything else stays -/
theorem Coh.bump {w w' : RWorld} (hc : Coh w) (hn : w'.next = w.next + 1)
    (hl : w'.lock = w.lock ∨ ∃ l', w'.lock = some l' ∧ l'.rv = w.next)
    (hp : ∀ q ∈ w'.pkgs, q ∈ w.pkgs ∨ q.rv = w.next)
    (hu : ∀ q ∈ w'.pkgs, ∀ q' ∈ w'.pkgs, q.rv = w.next → q'.rv = w.next → q = q')
    (h3 : w'.clock = w.clock) (h4 : w'.cpkgs = w.cpkgs)
    (h6 : w'.seen.lock = w.seen.lock) (h7 : w'.seen.pkgs = w.seen.pkgs) : Coh w' where
  lockRv := by
    intro l h
    rcases hl with hl | ⟨l', hl, hr⟩
    · rw [hl] at h; have := hc.lockRv l h; omega
    · rw [hl] at h; injection h with h; subst h; omega
  pkgRv := by
    intro p h
    rcases hp p h with h' | h'
    · have := hc.pkgRv p h'; omega
    · omega
  clockRv := by intro l h; rw [h3] at h; have := hc.clockRv l h; omega
  cpkgRv := by intro p h; rw [h4] at h; have := hc.cpkgRv p h; omega
  seenLockRv := by intro l h; rw [h6] at h; have := hc.seenLockRv l h; omega
  seenPkgRv := by intro ps h p hp'; rw [h7] at h; have := hc.seenPkgRv ps h p hp'; omega
  pkgUniq := by
    intro p hp1 q hq1 he
    rcases hp p hp1 with h1 | h1 <;> rcases hp q hq1 with h2 | h2
    · exact hc.pkgUniq p h1 q h2 he
    · have := hc.pkgRv p h1; omega
    · have := hc.pkgRv q h2; omega
    · exact hu p hp1 q hq1 h1 h2
  clockEq := by
    intro c l h1 h2 he
    rw [h3] at h1
    rcases hl with hl | ⟨l', hl, hr⟩
    · rw [hl] at h2; exact hc.clockEq c l h1 h2 he
    · rw [hl] at h2; injection h2 with h2; subst h2
      have := hc.clockRv c h1; omega
  seenLockEq := by
    intro c l h1 h2 he
    rw [h6] at h1
    rcases hl with hl | ⟨l', hl, hr⟩
    · rw [hl] at h2; exact hc.seenLockEq c l h1 h2 he
    · rw [hl] at h2; injection h2 with h2; subst h2
      have := hc.seenLockRv c h1; omega
  cpkgEq := by
    intro c h1 p h2 he
    rw [h4] at h1
    rcases hp p h2 with h | h
    · exact hc.cpkgEq c h1 p h he
    · have := hc.cpkgRv c h1; omega
  seenPkgEq := by
    intro ps h0 c h1 p h2 he
    rw [h7] at h0
    rcases hp p h2 with h | h
    · exact hc.seenPkgEq ps h0 c h1 p h he
    · have := hc.seenPkgRv ps h0 c h1; omega

/-- stored objects disappear (a delete), the rest stays -/
theorem Coh.shrink {w w' : RWorld} (hc : Coh w) (hn : w'.next = w.next)
    (hl : w'.lock = w.lock ∨ w'.lock = none) (hp : ∀ q ∈ w'.pkgs, q ∈ w.pkgs)
    (h3 : w'.clock = w.clock) (h4 : w'.cpkgs = w.cpkgs)
    (h6 : w'.seen.lock = w.seen.lock) (h7 : w'.seen.pkgs = w.seen.pkgs) : Coh w' where
  lockRv := by
    intro l h
    rcases hl with hl | hl
    · rw [hl] at h; rw [hn]; exact hc.lockRv l h
    · rw [hl] at h; cases h
  pkgRv := by intro p h; rw [hn]; exact hc.pkgRv p (hp p h)
  clockRv := by rw [h3, hn]; exact hc.clockRv
  cpkgRv := by rw [h4, hn]; exact hc.cpkgRv
  seenLockRv := by rw [h6, hn]; exact hc.seenLockRv
  seenPkgRv := by rw [h7, hn]; exact hc.seenPkgRv
  pkgUniq := fun p h1 q h2 he => hc.pkgUniq p (hp p h1) q (hp q h2) he
  clockEq := by
    intro c l h1 h2 he
    rw [h3] at h1
    rcases hl with hl | hl
    · rw [hl] at h2; exact hc.clockEq c l h1 h2 he
    · rw [hl] at h2; cases h2
  seenLockEq := by
    intro c l h1 h2 he
    rw [h6] at h1
    rcases hl with hl | hl
    · rw [hl] at h2; exact hc.seenLockEq c l h1 h2 he
    · rw [hl] at h2; cases h2
  cpkgEq := by intro c h1 p h2 he; rw [h4] at h1; exact hc.cpkgEq c h1 p (hp p h2) he
  seenPkgEq := by intro ps h0 c h1 p h2 he; rw [h7] at h0; exact hc.seenPkgEq ps h0 c h1 p (hp p h2) he

/-- the cache / the ghost record receive copies of stored or cached objects -/
theorem Coh.serve {w w' : RWorld} (hc : Coh w) (hn : w'.next = w.next) (h1 : w'.lock = w.lock) (h2 : w'.pkgs = w.pkgs)
    (hcl : w'.clock = w.clock ∨ w'.clock = w.lock)
    (hcp : ∀ q ∈ w'.cpkgs, q ∈ w.cpkgs ∨ q ∈ w.pkgs)
    (hsl : w'.seen.lock = w.seen.lock ∨ w'.seen.lock = w.clock)
    (hsp : w'.seen.pkgs = w.seen.pkgs ∨ ∃ ps, w'.seen.pkgs = some ps ∧ ∀ q ∈ ps, q ∈ w.cpkgs) : Coh w' where
  lockRv := by rw [h1, hn]; exact hc.lockRv
  pkgRv := by rw [h2, hn]; exact hc.pkgRv
  clockRv := by
    intro l h; rw [hn]
    rcases hcl with hcl | hcl <;> rw [hcl] at h
    · exact hc.clockRv l h
    · exact hc.lockRv l h
  cpkgRv := by
    intro p h; rw [hn]
    rcases hcp p h with h' | h'
    · exact hc.cpkgRv p h'
    · exact hc.pkgRv p h'
  seenLockRv := by
    intro l h; rw [hn]
    rcases hsl with hsl | hsl <;> rw [hsl] at h
    · exact hc.seenLockRv l h
    · exact hc.clockRv l h
  seenPkgRv := by
    intro ps h p hp; rw [hn]
    rcases hsp with hsp | ⟨ps', hsp, hm⟩
    · rw [hsp] at h; exact hc.seenPkgRv ps h p hp
    · rw [hsp] at h; injection h with h; subst h; exact hc.cpkgRv p (hm p hp)
  pkgUniq := by rw [h2]; exact hc.pkgUniq
  clockEq := by
    intro c l h3 h4 he
    rw [h1] at h4
    rcases hcl with hcl | hcl <;> rw [hcl] at h3
    · exact hc.clockEq c l h3 h4 he
    · rw [h3] at h4; injection h4
  seenLockEq := by
    intro c l h3 h4 he
    rw [h1] at h4
    rcases hsl with hsl | hsl <;> rw [hsl] at h3
    · exact hc.seenLockEq c l h3 h4 he
    · exact hc.clockEq c l h3 h4 he
  cpkgEq := by
    intro c h3 p h4 he
    rw [h2] at h4
    rcases hcp c h3 with h' | h'
    · exact hc.cpkgEq c h' p h4 he
    · exact hc.pkgUniq c h' p h4 he
  seenPkgEq := by
    intro ps h0 c h3 p h4 he
    rw [h2] at h4
    rcases hsp with hsp | ⟨ps', hsp, hm⟩
    · rw [hsp] at h0; exact hc.seenPkgEq ps h0 c h3 p h4 he
    · rw [hsp] at h0; injection h0 with h0; subst h0; exact hc.cpkgEq c (hm c h3) p h4 he

/-- every call of whatever kind keeps the resourceVersions coherent -/
theorem coh_exec {w : RWorld} (hc : Coh w) (r : Req) : Coh (execRec w r).1 := by
  cases hi : w.inject with
  | some e => rw [exec_inject hi]; exact hc.congr rfl rfl rfl rfl rfl rfl rfl
  | none =>
    cases r with
    | getLock =>
      cases hcl : w.clock with
      | none =>
        have : (execRec w .getLock).1 = w := by simp [execRec, hi, hcl]
        rw [this]; exact hc
      | some l =>
        have : (execRec w .getLock).1 = { w with seen := { w.seen with lock := some l } } := by simp [execRec, hi, hcl]
        rw [this]
        exact hc.serve rfl rfl rfl (Or.inl rfl) (fun q h => Or.inl h) (Or.inr hcl.symm) (Or.inl rfl)
    | updateLock pkgs fin rv =>
      cases hl : w.lock with
      | none =>
        have : (execRec w (.updateLock pkgs fin rv)).1 = w := by simp [execRec, hi, hl]
        rw [this]; exact hc
      | some l =>
        by_cases hr : l.rv ≠ rv
        · have : (execRec w (.updateLock pkgs fin rv)).1 = w := by simp [execRec, hi, hl, hr]
          rw [this]; exact hc
        · have : (execRec w (.updateLock pkgs fin rv)).1 =
              { w with lock := some { l with pkgs := pkgs, fin := fin, rv := w.next }, next := w.next + 1 } := by
            simp [execRec, hi, hl, hr]
          rw [this]
          exact hc.bump rfl (Or.inr ⟨_, rfl, rfl⟩) (fun q h => Or.inl h)
            (fun q h q' _ he _ => absurd he (by have := hc.pkgRv q h; omega)) rfl rfl rfl rfl
    | statusLock c rv =>
      cases hl : w.lock with
      | none =>
        have : (execRec w (.statusLock c rv)).1 = w := by simp [execRec, hi, hl]
        rw [this]; exact hc
      | some l =>
        by_cases hr : l.rv ≠ rv
        · have : (execRec w (.statusLock c rv)).1 = w := by simp [execRec, hi, hl, hr]
          rw [this]; exact hc
        · have : (execRec w (.statusLock c rv)).1 =
              { w with lock := some { l with resolved := c, rv := w.next }, next := w.next + 1 } := by
            simp [execRec, hi, hl, hr]
          rw [this]
          exact hc.bump rfl (Or.inr ⟨_, rfl, rfl⟩) (fun q h => Or.inl h)
            (fun q h q' _ he _ => absurd he (by have := hc.pkgRv q h; omega)) rfl rfl rfl rfl
    | listPkgs kind =>
      have : (execRec w (.listPkgs kind)).1 =
          { w with seen := { w.seen with pkgs := some (w.cpkgs.filter (fun p => p.kind == kind)) } } := by
        simp [execRec, hi]
      rw [this]
      exact hc.serve rfl rfl rfl (Or.inl rfl) (fun q h => Or.inl h) (Or.inl rfl)
        (Or.inr ⟨_, rfl, fun q h => (List.mem_filter.mp h).1⟩)
    | pullSecret ref =>
      have : (execRec w (.pullSecret ref)).1 = w := by simp [execRec, hi]
      rw [this]; exact hc
    | tags repo =>
      cases ht : lookupTags repo w.tags with
      | none =>
        have : (execRec w (.tags repo)).1 = w := by simp [execRec, hi, ht]
        rw [this]; exact hc
      | some ts =>
        have : (execRec w (.tags repo)).1 = { w with seen := { w.seen with tags := some ts } } := by
          simp [execRec, hi, ht]
        rw [this]; exact hc.congr rfl rfl rfl rfl rfl rfl rfl
    | getPkg kind name =>
      cases hf : w.cpkgs.find? (sameKey kind name) with
      | none =>
        have : (execRec w (.getPkg kind name)).1 = w := by simp [execRec, hi, hf]
        rw [this]; exact hc
      | some p =>
        have : (execRec w (.getPkg kind name)).1 = { w with seen := { w.seen with existing := some p } } := by
          simp [execRec, hi, hf]
        rw [this]; exact hc.congr rfl rfl rfl rfl rfl rfl rfl
    | createPkg kind name image =>
      by_cases hx : w.pkgs.any (sameKey kind name) = true
      · have : (execRec w (.createPkg kind name image)).1 = { w with seen := { w.seen with taken := true } } := by
          simp [execRec, hi, hx]
        rw [this]; exact hc.congr rfl rfl rfl rfl rfl rfl rfl
      · have : (execRec w (.createPkg kind name image)).1 =
            { w with pkgs := w.pkgs ++ [⟨kind, name, some image, w.next⟩], next := w.next + 1,
                     seen := { w.seen with writes := w.seen.writes + 1 } } := by
          simp [execRec, hi, hx]
        rw [this]
        refine hc.bump rfl (Or.inl rfl) ?_ ?_ rfl rfl rfl rfl
        · intro q h
          rcases List.mem_append.mp h with h | h
          · exact Or.inl h
          · simp at h; subst h; exact Or.inr rfl
        · intro q h q' h' he he'
          rcases List.mem_append.mp h with h | h
          · have := hc.pkgRv q h; omega
          · rcases List.mem_append.mp h' with h' | h'
            · have := hc.pkgRv q' h'; omega
            · simp at h h'; rw [h, h']
    | updatePkg kind name image rv =>
      cases hf : w.pkgs.find? (sameKey kind name) with
      | none =>
        have : (execRec w (.updatePkg kind name image rv)).1 = w := by simp [execRec, hi, hf]
        rw [this]; exact hc
      | some p =>
        by_cases hr : p.rv ≠ rv
        · have : (execRec w (.updatePkg kind name image rv)).1 = w := by simp [execRec, hi, hf, hr]
          rw [this]; exact hc
        · have : (execRec w (.updatePkg kind name image rv)).1 =
              { w with pkgs := setImage kind name (some image) w.next w.pkgs, next := w.next + 1,
                       seen := { w.seen with writes := w.seen.writes + 1 } } := by
            simp [execRec, hi, hf, hr]
          rw [this]
          obtain ⟨p0, hp0⟩ := mem_setImage (kind := kind) (name := name) (img := some image) (rv := w.next) w.pkgs
          refine hc.bump rfl (Or.inl rfl) ?_ ?_ rfl rfl rfl rfl
          · intro q h
            rcases hp0 q h with h | h
            · exact Or.inl h
            · exact Or.inr (by rw [h])
          · intro q h q' h' he he'
            rcases hp0 q h with h | h
            · have := hc.pkgRv q h; omega
            · rcases hp0 q' h' with h' | h'
              · have := hc.pkgRv q' h'; omega
              · rw [h, h']

/-- every third-party act, the cache catching up and the registry keep them coherent too and
leave the ghost record alone -/
theorem applyWAct_rely (w : RWorld) (a : WAct) : RelyW w (applyWAct w a) := by
  cases a with
  | setLock pkgs =>
    cases hl : w.lock with
    | some l =>
      have : applyWAct w (.setLock pkgs) = { w with lock := some { l with pkgs := pkgs, rv := w.next }, next := w.next + 1 } := by
        simp [applyWAct, hl]
      rw [this]
      exact ⟨rfl, fun hc => hc.bump rfl (Or.inr ⟨_, rfl, rfl⟩) (fun q h => Or.inl h)
        (fun q h q' _ he _ => absurd he (by have := hc.pkgRv q h; omega)) rfl rfl rfl rfl⟩
    | none =>
      have : applyWAct w (.setLock pkgs) = { w with lock := some ⟨pkgs, false, none, w.next⟩, next := w.next + 1 } := by
        simp [applyWAct, hl]
      rw [this]
      exact ⟨rfl, fun hc => hc.bump rfl (Or.inr ⟨_, rfl, rfl⟩) (fun q h => Or.inl h)
        (fun q h q' _ he _ => absurd he (by have := hc.pkgRv q h; omega)) rfl rfl rfl rfl⟩
  | delLock =>
    exact ⟨rfl, fun hc => hc.shrink rfl (Or.inr rfl) (fun q h => h) rfl rfl rfl rfl⟩
  | setPkg kind name image =>
    by_cases hx : w.pkgs.any (sameKey kind name) = true
    · have : applyWAct w (.setPkg kind name image) = { w with pkgs := setImage kind name image w.next w.pkgs, next := w.next + 1 } := by
        simp [applyWAct, hx]
      rw [this]
      refine ⟨rfl, fun hc => ?_⟩
      obtain ⟨p0, hp0⟩ := mem_setImage (kind := kind) (name := name) (img := image) (rv := w.next) w.pkgs
      refine hc.bump rfl (Or.inl rfl) ?_ ?_ rfl rfl rfl rfl
      · intro q h
        rcases hp0 q h with h | h
        · exact Or.inl h
        · exact Or.inr (by rw [h])
      · intro q h q' h' he he'
        rcases hp0 q h with h | h
        · have := hc.pkgRv q h; omega
        · rcases hp0 q' h' with h' | h'
          · have := hc.pkgRv q' h'; omega
          · rw [h, h']
    · have : applyWAct w (.setPkg kind name image) = { w with pkgs := w.pkgs ++ [⟨kind, name, image, w.next⟩], next := w.next + 1 } := by
        simp [applyWAct, hx]
      rw [this]
      refine ⟨rfl, fun hc => hc.bump rfl (Or.inl rfl) ?_ ?_ rfl rfl rfl rfl⟩
      · intro q h
        rcases List.mem_append.mp h with h | h
        · exact Or.inl h
        · simp at h; subst h; exact Or.inr rfl
      · intro q h q' h' he he'
        rcases List.mem_append.mp h with h | h
        · have := hc.pkgRv q h; omega
        · rcases List.mem_append.mp h' with h' | h'
          · have := hc.pkgRv q' h'; omega
          · simp at h h'; rw [h, h']
  | delPkg kind name =>
    exact ⟨rfl, fun hc => hc.shrink rfl (Or.inl rfl) (fun q h => (List.mem_filter.mp h).1) rfl rfl rfl rfl⟩
  | syncLock =>
    exact ⟨rfl, fun hc => hc.serve rfl rfl rfl (Or.inr rfl) (fun q h => Or.inl h) (Or.inl rfl) (Or.inl rfl)⟩
  | syncPkg kind name =>
    cases hf : w.pkgs.find? (sameKey kind name) with
    | some p =>
      have : applyWAct w (.syncPkg kind name) = { w with cpkgs := putCached p w.cpkgs } := by simp [applyWAct, hf]
      rw [this]
      refine ⟨rfl, fun hc => hc.serve rfl rfl rfl (Or.inl rfl) ?_ (Or.inl rfl) (Or.inl rfl)⟩
      intro q h
      rcases mem_putCached w.cpkgs q h with h | h
      · exact Or.inl h
      · exact Or.inr (h ▸ List.mem_of_find?_eq_some hf)
    | none =>
      have : applyWAct w (.syncPkg kind name) = { w with cpkgs := w.cpkgs.filter (fun p => !sameKey kind name p) } := by
        simp [applyWAct, hf]
      rw [this]
      exact ⟨rfl, fun hc => hc.serve rfl rfl rfl (Or.inl rfl) (fun q h => Or.inl (List.mem_filter.mp h).1) (Or.inl rfl) (Or.inl rfl)⟩
  | setTags repo t => exact ⟨rfl, fun hc => hc.congr rfl rfl rfl rfl rfl rfl rfl⟩
  | err e => exact ⟨rfl, fun hc => hc.congr rfl rfl rfl rfl rfl rfl rfl⟩

theorem RelyW.refl (w : RWorld) : RelyW w w := ⟨rfl, id⟩

theorem RelyW.trans {a b c : RWorld} (h1 : RelyW a b) (h2 : RelyW b c) : RelyW a c :=
  ⟨h2.1.trans h1.1, fun h => h2.2 (h1.2 h)⟩

/-- the scripts of the harness are environments of the kind the theorems quantify over -/
theorem scriptEnvW_rely (acts : List (Nat × WAct)) (k : Nat) (w : RWorld) : RelyW w (scriptEnvW acts k w) := by
  unfold scriptEnvW
  generalize acts.filter (·.1 = k) = l
  induction l generalizing w with
  | nil => exact RelyW.refl w
  | cons a rest ih => exact (applyWAct_rely w a.2).trans (ih _)

/-! ### what a call keeps of the ghost record -/

theorem exec_keep_lock {w : RWorld} {r : Req} (h : r ≠ .getLock) : (execRec w r).1.seen.lock = w.seen.lock := by
  rcases (exec_seen w r).1 with h' | ⟨_, h', _⟩
  · exact h'
  · exact absurd h' h

theorem exec_keep_pkgs {w : RWorld} {r : Req} (h : ∀ k, r ≠ .listPkgs k) : (execRec w r).1.seen.pkgs = w.seen.pkgs := by
  rcases (exec_seen w r).2.1 with h' | ⟨k, _, h', _⟩
  · exact h'
  · exact absurd h' (h k)

theorem exec_keep_tags {w : RWorld} {r : Req} (h : ∀ rp, r ≠ .tags rp) : (execRec w r).1.seen.tags = w.seen.tags := by
  rcases (exec_seen w r).2.2.1 with h' | ⟨rp, _, h', _⟩
  · exact h'
  · exact absurd h' (h rp)

theorem exec_keep_writes {w : RWorld} {r : Req} (h : r.isPkgWrite = false) : (execRec w r).1.seen.writes = w.seen.writes := by
  rcases (exec_seen w r).2.2.2 with h' | ⟨h', _⟩
  · exact h'
  · rw [h] at h'; cases h'

theorem exec_writes_le (w : RWorld) (r : Req) : (execRec w r).1.seen.writes ≤ w.seen.writes + 1 := by
  rcases (exec_seen w r).2.2.2 with h' | ⟨_, h'⟩ <;> omega

theorem exec_getLock_resp {w : RWorld} {l : LockObj} (h : (execRec w .getLock).2 = .lock l) :
    (execRec w .getLock).1.seen.lock = some l := by
  rcases (exec_seen w .getLock).1 with h' | ⟨l', _, h1, h2⟩
  · revert h h'
    unfold execRec
    cases w.inject with
    | some e => intro h; cases h
    | none =>
      cases w.clock with
      | none => intro h; cases h
      | some l' => intro h _; injection h with h; subst h; rfl
  · rw [h] at h1; injection h1 with h1; subst h1; exact h2

theorem exec_list_resp {w : RWorld} {k : String} {ps : List PkgObj} (h : (execRec w (.listPkgs k)).2 = .pkgs ps) :
    (execRec w (.listPkgs k)).1.seen.pkgs = some ps := by
  revert h
  unfold execRec
  cases w.inject with
  | some e => intro h; cases h
  | none => intro h; injection h with h; subst h; rfl

theorem exec_tags_resp {w : RWorld} {rp : String} {ts : List String} (h : (execRec w (.tags rp)).2 = .tags ts) :
    (execRec w (.tags rp)).1.seen.tags = some ts := by
  revert h
  unfold execRec
  cases w.inject with
  | some e => intro h; cases h
  | none =>
    simp only []
    cases lookupTags rp w.tags with
    | none => intro h; cases h
    | some ts' => intro h; injection h with h; subst h; rfl

theorem exec_statusLock_seen (w : RWorld) (c : Option Bool) (rv : Nat) : (execRec w (.statusLock c rv)).1.seen = w.seen := by
  unfold execRec
  cases w.inject with
  | some e => rfl
  | none =>
    simp only []
    cases w.lock with
    | none => rfl
    | some l => by_cases h : l.rv ≠ rv <;> simp [h]

/-- only a Create answered AlreadyExists raises the `taken` flag -/
theorem exec_taken (w : RWorld) (r : Req) :
    (execRec w r).1.seen.taken = w.seen.taken ∨ (∃ k n i, r = .createPkg k n i ∧ (execRec w r).2 = .err .alreadyExists) := by
  cases hi : w.inject with
  | some e => rw [exec_inject hi]; exact Or.inl rfl
  | none =>
    cases r with
    | getLock => left; unfold execRec; rw [hi]; simp only []; cases w.clock <;> rfl
    | updateLock pkgs fin rv =>
      left; unfold execRec; rw [hi]; simp only []
      cases w.lock with
      | none => rfl
      | some l => by_cases h : l.rv ≠ rv <;> simp [h]
    | statusLock c rv => left; rw [exec_statusLock_seen]
    | listPkgs kind => left; unfold execRec; rw [hi]
    | pullSecret ref => left; unfold execRec; rw [hi]
    | tags repo => left; unfold execRec; rw [hi]; simp only []; cases lookupTags repo w.tags <;> rfl
    | getPkg kind name => left; unfold execRec; rw [hi]; simp only []; cases w.cpkgs.find? (sameKey kind name) <;> rfl
    | updatePkg kind name image rv =>
      left; unfold execRec; rw [hi]; simp only []
      cases w.pkgs.find? (sameKey kind name) with
      | none => rfl
      | some p => by_cases h : p.rv ≠ rv <;> simp [h]
    | createPkg kind name image =>
      by_cases hx : w.pkgs.any (sameKey kind name) = true
      · right; exact ⟨kind, name, image, rfl, by simp [execRec, hi, hx]⟩
      · left; simp [execRec, hi, hx]

theorem exec_keep_taken {w : RWorld} {r : Req} (h : r.isPkgWrite = false) : (execRec w r).1.seen.taken = w.seen.taken := by
  rcases exec_taken w r with h' | ⟨k, n, i, h', _⟩
  · exact h'
  · rw [h'] at h; cases h

theorem exec_getPkg_resp {w : RWorld} {k n : String} {p : PkgObj} (h : (execRec w (.getPkg k n)).2 = .pkg p) :
    (execRec w (.getPkg k n)).1.seen.existing = some p ∧ p.kind = k ∧ p.name = n := by
  revert h
  unfold execRec
  cases w.inject with
  | some e => intro h; cases h
  | none =>
    simp only []
    cases hf : w.cpkgs.find? (sameKey k n) with
    | none => intro h; cases h
    | some q =>
      intro h
      injection h with h
      subst h
      have hk := List.find?_some hf
      simp [sameKey] at hk
      exact ⟨rfl, hk.1, hk.2⟩

/-! ### every write is justified: the weakest-precondition proof, call by call -/

/-- at the end: coherent, at most one package write was applied, and success has a reason
(`NameOk`) when a Create was answered AlreadyExists -/
abbrev RPost (cfg : RCfg) : RWorld → RRes → Prop :=
  fun s res => Coh s ∧ s.seen.writes ≤ 1 ∧ (res.err = .none → NameOk cfg s.seen)

abbrev Wp (cfg : RCfg) (p : RProg) (s : RWorld) : Prop := WpE recSem RelyW (GuarC cfg) p (RPost cfg) s

theorem wp_call {cfg : RCfg} {r : Req} {k : Resp → RProg} {s : RWorld}
    (h : ∀ s', RelyW s s' → GuarC cfg s' r ∧ Wp cfg (k (execRec s' r).2) (execRec s' r).1 ∧ ∀ e, Wp cfg (k (.err e)) s') :
    Wp cfg (.call r k) s := by
  intro s' hr
  obtain ⟨hg, h1, h2⟩ := h s' hr
  exact ⟨hg, h1, h2 .internal, h2 .conflict⟩

theorem wp_finishWrap {cfg : RCfg} {s : RWorld} (c : Option Bool) (rv : Nat) (hc : Coh s) (hw : s.seen.writes ≤ 1)
    (hn : NameOk cfg s.seen) : Wp cfg (finishWrap c rv) s := by
  unfold finishWrap
  apply wp_call
  intro s' hr
  have hc' := hr.2 hc
  have hw' : s'.seen.writes ≤ 1 := by rw [hr.1]; exact hw
  have hn' : NameOk cfg s'.seen := by rw [hr.1]; exact hn
  refine ⟨⟨hc', trivial⟩, ?_, ?_⟩
  · have h1 : Coh (execRec s' (.statusLock c rv)).1 := coh_exec hc' _
    have h2 : (execRec s' (.statusLock c rv)).1.seen.writes ≤ 1 := by rw [exec_statusLock_seen]; exact hw'
    have h3 : NameOk cfg (execRec s' (.statusLock c rv)).1.seen := by rw [exec_statusLock_seen]; exact hn'
    cases (execRec s' (.statusLock c rv)).2 <;> exact ⟨h1, h2, fun _ => h3⟩
  · intro e; exact ⟨hc', hw', fun _ => hn'⟩

theorem wp_finishErr {cfg : RCfg} {s : RWorld} (rv : Nat) (e : RErr) (he : e ≠ .none) (hc : Coh s) (hw : s.seen.writes ≤ 1) :
    Wp cfg (finishErr rv e) s := by
  unfold finishErr
  apply wp_call
  intro s' hr
  have hc' := hr.2 hc
  have hw' : s'.seen.writes ≤ 1 := by rw [hr.1]; exact hw
  refine ⟨⟨hc', trivial⟩, ⟨coh_exec hc' _, ?_, fun h => absurd h he⟩, fun _ => ⟨hc', hw', fun h => absurd h he⟩⟩
  rw [exec_statusLock_seen]; exact hw'

/-- what the running Reconcile knows after its Get -/
structure Ctx (s : RWorld) (l : LockObj) : Prop where
  coh : Coh s
  lock : s.seen.lock = some l
  writes : s.seen.writes = 0
  taken : s.seen.taken = false

theorem Ctx.rely {s s' : RWorld} {l : LockObj} (h : Ctx s l) (hr : RelyW s s') : Ctx s' l :=
  ⟨hr.2 h.coh, by rw [hr.1]; exact h.lock, by rw [hr.1]; exact h.writes, by rw [hr.1]; exact h.taken⟩

theorem Ctx.exec {s : RWorld} {l : LockObj} (h : Ctx s l) {r : Req} (h1 : r ≠ .getLock) (h2 : r.isPkgWrite = false) :
    Ctx (execRec s r).1 l :=
  ⟨coh_exec h.coh r, by rw [exec_keep_lock h1]; exact h.lock, by rw [exec_keep_writes h2]; exact h.writes,
   by rw [exec_keep_taken h2]; exact h.taken⟩

theorem Ctx.le {s : RWorld} {l : LockObj} (h : Ctx s l) : s.seen.writes ≤ 1 := by rw [h.writes]; omega

theorem Ctx.nameOk {cfg : RCfg} {s : RWorld} {l : LockObj} (h : Ctx s l) : NameOk cfg s.seen := Or.inl h.taken

/-- what the Lock served says about `dep` -/
structure Dec (cfg : RCfg) (l : LockObj) (d : Dag) (dep : Dep) (ref : RefInfo) : Prop where
  served : ∃ rest, init cfg.o cfg.upg l.pkgs = .ok (d, dep :: rest) ∧ ∃ res, sort d d.keys = .ok res
  ref : cfg.refOf dep.pkg = some ref

theorem Dec.servedDep' {cfg : RCfg} {l : LockObj} {d : Dag} {dep : Dep} {ref : RefInfo} (h : Dec cfg l d dep ref)
    {s : RWorld} (hl : s.seen.lock = some l) : ServedDep cfg s.seen d dep := by
  obtain ⟨rest, hi, hs⟩ := h.served
  exact ⟨l, rest, hl, hi, hs⟩

theorem Dec.servedDep {cfg : RCfg} {l : LockObj} {d : Dag} {dep : Dep} {ref : RefInfo} (h : Dec cfg l d dep ref)
    {s : RWorld} (hx : Ctx s l) : ServedDep cfg s.seen d dep := h.servedDep' hx.lock

/-- checkExistingPackage: the Get of the object that holds the name, and the verdict on it -/
theorem wp_getExisting {cfg : RCfg} {s : RWorld} {l : LockObj} {d : Dag} {dep : Dep} {ref : RefInfo} (rv : Nat)
    (hc : Coh s) (hw : s.seen.writes ≤ 1) (hl : s.seen.lock = some l) (hd : Dec cfg l d dep ref) :
    Wp cfg (.call (.getPkg (cfg.kindOf dep.pkg) ref.pkgName) (kExisting cfg ref rv)) s := by
  apply wp_call
  intro s' hr
  have hc' := hr.2 hc
  have hw' : s'.seen.writes ≤ 1 := by rw [hr.1]; exact hw
  have hl' : s'.seen.lock = some l := by rw [hr.1]; exact hl
  refine ⟨⟨hc', trivial⟩, ?_, ?_⟩
  · have h1 : Coh (execRec s' (.getPkg (cfg.kindOf dep.pkg) ref.pkgName)).1 := coh_exec hc' _
    have h2 : (execRec s' (.getPkg (cfg.kindOf dep.pkg) ref.pkgName)).1.seen.writes ≤ 1 := by
      rw [exec_keep_writes rfl]; exact hw'
    have h3 : (execRec s' (.getPkg (cfg.kindOf dep.pkg) ref.pkgName)).1.seen.lock = some l := by
      rw [exec_keep_lock (by intro h; cases h)]; exact hl'
    cases hresp : (execRec s' (.getPkg (cfg.kindOf dep.pkg) ref.pkgName)).2 with
    | pkg p =>
      obtain ⟨he, hk, hn⟩ := exec_getPkg_resp hresp
      unfold kExisting
      simp only []
      cases himg : p.image.bind cfg.refOf with
      | none => exact wp_finishErr _ _ (by simp) h1 h2
      | some eref =>
        simp only []
        by_cases hrepo : eref.repo = ref.repo
        · rw [if_pos hrepo]
          exact wp_finishWrap _ _ h1 h2 (Or.inr ⟨d, dep, ref, p, eref, hd.servedDep' h3, hd.ref, he, hk, hn, himg, hrepo⟩)
        · rw [if_neg hrepo]; exact wp_finishErr _ _ (by simp) h1 h2
    | err e => exact wp_finishErr _ _ (by simp) h1 h2
    | lock _ => exact wp_finishErr _ _ (by simp) h1 h2
    | pkgs _ => exact wp_finishErr _ _ (by simp) h1 h2
    | tags _ => exact wp_finishErr _ _ (by simp) h1 h2
    | ok _ => exact wp_finishErr _ _ (by simp) h1 h2
  · intro e; exact wp_finishErr _ _ (by simp) hc' hw'

theorem wp_createP {cfg : RCfg} {s : RWorld} {l : LockObj} {d : Dag} {dep : Dep} {ref : RefInfo} (rv : Nat) {v : String}
    (hx : Ctx s l) (hd : Dec cfg l d dep ref) (hv : toInstall cfg.o dep.con s.seen.tags = .ok v)
    (hu : cfg.upg = true → ∃ ps, s.seen.pkgs = some ps ∧ lastMatch cfg.refOf ref.repo ps none = none) :
    Wp cfg (createP cfg dep ref rv v) s := by
  unfold createP
  by_cases hv0 : v = ""
  · rw [if_pos hv0]; exact wp_finishWrap _ _ hx.coh hx.le hx.nameOk
  · rw [if_neg hv0]
    by_cases hk : cfg.kindOf dep.pkg = ""
    · rw [if_pos hk]; exact wp_finishErr _ _ (by simp) hx.coh hx.le
    · rw [if_neg hk]
      apply wp_call
      intro s' hr
      have hx' := hx.rely hr
      refine ⟨⟨hx'.coh, ?_⟩, ?_, ?_⟩
      · show Guar cfg s' (.createPkg _ _ _)
        unfold Guar
        refine ⟨hx'.writes, d, dep, ref, v, hd.servedDep hx', hd.ref, rfl, rfl, rfl, hv0, ?_, ?_⟩
        · rw [hr.1]; exact hv
        · rw [hr.1]; exact hu
      · have h1 : Coh (execRec s' (.createPkg (cfg.kindOf dep.pkg) ref.pkgName (fmtImage ref.str v))).1 := coh_exec hx'.coh _
        have h2 : (execRec s' (.createPkg (cfg.kindOf dep.pkg) ref.pkgName (fmtImage ref.str v))).1.seen.writes ≤ 1 := by
          have := exec_writes_le s' (.createPkg (cfg.kindOf dep.pkg) ref.pkgName (fmtImage ref.str v))
          rw [hx'.writes] at this; omega
        have h3 : (execRec s' (.createPkg (cfg.kindOf dep.pkg) ref.pkgName (fmtImage ref.str v))).1.seen.lock = some l := by
          rw [exec_keep_lock (by intro h; cases h)]; exact hx'.lock
        have h4 := exec_taken s' (.createPkg (cfg.kindOf dep.pkg) ref.pkgName (fmtImage ref.str v))
        cases hresp : (execRec s' (.createPkg (cfg.kindOf dep.pkg) ref.pkgName (fmtImage ref.str v))).2 with
        | err e =>
          unfold kCreate
          cases e <;> first
            | exact wp_getExisting rv h1 h2 h3 hd
            | exact wp_finishErr _ _ (by simp) h1 h2
        | ok _ =>
          have ht : (execRec s' (.createPkg (cfg.kindOf dep.pkg) ref.pkgName (fmtImage ref.str v))).1.seen.taken = false := by
            rcases h4 with h4 | ⟨_, _, _, _, h4⟩
            · rw [h4]; exact hx'.taken
            · rw [hresp] at h4; cases h4
          exact wp_finishWrap _ _ h1 h2 (Or.inl ht)
        | lock _ =>
          have ht : (execRec s' (.createPkg (cfg.kindOf dep.pkg) ref.pkgName (fmtImage ref.str v))).1.seen.taken = false := by
            rcases h4 with h4 | ⟨_, _, _, _, h4⟩
            · rw [h4]; exact hx'.taken
            · rw [hresp] at h4; cases h4
          exact wp_finishWrap _ _ h1 h2 (Or.inl ht)
        | pkgs _ =>
          have ht : (execRec s' (.createPkg (cfg.kindOf dep.pkg) ref.pkgName (fmtImage ref.str v))).1.seen.taken = false := by
            rcases h4 with h4 | ⟨_, _, _, _, h4⟩
            · rw [h4]; exact hx'.taken
            · rw [hresp] at h4; cases h4
          exact wp_finishWrap _ _ h1 h2 (Or.inl ht)
        | tags _ =>
          have ht : (execRec s' (.createPkg (cfg.kindOf dep.pkg) ref.pkgName (fmtImage ref.str v))).1.seen.taken = false := by
            rcases h4 with h4 | ⟨_, _, _, _, h4⟩
            · rw [h4]; exact hx'.taken
            · rw [hresp] at h4; cases h4
          exact wp_finishWrap _ _ h1 h2 (Or.inl ht)
        | pkg _ =>
          have ht : (execRec s' (.createPkg (cfg.kindOf dep.pkg) ref.pkgName (fmtImage ref.str v))).1.seen.taken = false := by
            rcases h4 with h4 | ⟨_, _, _, _, h4⟩
            · rw [h4]; exact hx'.taken
            · rw [hresp] at h4; cases h4
          exact wp_finishWrap _ _ h1 h2 (Or.inl ht)
      · intro e
        unfold kCreate
        cases e <;> first
          | exact wp_getExisting rv hx'.coh hx'.le hx'.lock hd
          | exact wp_finishErr _ _ (by simp) hx'.coh hx'.le

/-- config.PullSecretFor and fetcher.Tags: afterwards the tag list served is recorded, the rest of
what was served is as before -/
theorem wp_fetchP {cfg : RCfg} {s : RWorld} {l : LockObj} {ref : RefInfo} {onPull onFetch : RProg} {k : List String → RProg}
    (hx : Ctx s l)
    (hpull : ∀ s', Coh s' → s'.seen.writes ≤ 1 → Wp cfg onPull s')
    (hfetch : ∀ s', Coh s' → s'.seen.writes ≤ 1 → Wp cfg onFetch s')
    (hk : ∀ s' ts, Ctx s' l → s'.seen.tags = some ts → s'.seen.pkgs = s.seen.pkgs → Wp cfg (k ts) s') :
    Wp cfg (fetchP ref onPull onFetch k) s := by
  unfold fetchP
  apply wp_call
  intro s1 hr1
  have hx1 := hx.rely hr1
  have hp1 : s1.seen.pkgs = s.seen.pkgs := by rw [hr1.1]
  have tagsCall : ∀ s2, Ctx s2 l → s2.seen.pkgs = s.seen.pkgs → Wp cfg (.call (.tags ref.repo) (kTags onFetch k)) s2 := by
    intro s2 hx2 hp2
    apply wp_call
    intro s3 hr3
    have hx3 := hx2.rely hr3
    have hp3 : s3.seen.pkgs = s.seen.pkgs := by rw [hr3.1]; exact hp2
    refine ⟨⟨hx3.coh, trivial⟩, ?_, ?_⟩
    · have hx4 : Ctx (execRec s3 (.tags ref.repo)).1 l := hx3.exec (by intro h; cases h) rfl
      have hp4 : (execRec s3 (.tags ref.repo)).1.seen.pkgs = s.seen.pkgs := by
        rw [exec_keep_pkgs (by intro k h; cases h)]; exact hp3
      cases hresp : (execRec s3 (.tags ref.repo)).2 with
      | tags ts => exact hk _ ts hx4 (exec_tags_resp hresp) hp4
      | lock _ => exact hfetch _ hx4.coh hx4.le
      | pkgs _ => exact hfetch _ hx4.coh hx4.le
      | pkg _ => exact hfetch _ hx4.coh hx4.le
      | ok _ => exact hfetch _ hx4.coh hx4.le
      | err _ => exact hfetch _ hx4.coh hx4.le
    · intro e; exact hfetch _ hx3.coh hx3.le
  refine ⟨⟨hx1.coh, trivial⟩, ?_, ?_⟩
  · have hx2 : Ctx (execRec s1 (.pullSecret ref.str)).1 l := hx1.exec (by intro h; cases h) rfl
    have hp2 : (execRec s1 (.pullSecret ref.str)).1.seen.pkgs = s.seen.pkgs := by
      rw [exec_keep_pkgs (by intro k h; cases h)]; exact hp1
    cases (execRec s1 (.pullSecret ref.str)).2 with
    | err _ => exact hpull _ hx2.coh hx2.le
    | lock _ => exact tagsCall _ hx2 hp2
    | pkgs _ => exact tagsCall _ hx2 hp2
    | pkg _ => exact tagsCall _ hx2 hp2
    | tags _ => exact tagsCall _ hx2 hp2
    | ok _ => exact tagsCall _ hx2 hp2
  · intro e; exact hpull _ hx1.coh hx1.le

theorem wp_installP {cfg : RCfg} {s : RWorld} {l : LockObj} {d : Dag} {dep : Dep} {ref : RefInfo} (rv : Nat)
    (hx : Ctx s l) (hd : Dec cfg l d dep ref)
    (hu : cfg.upg = true → ∃ ps, s.seen.pkgs = some ps ∧ lastMatch cfg.refOf ref.repo ps none = none) :
    Wp cfg (installP cfg dep ref rv) s := by
  unfold installP
  cases hdg : cfg.o.digest dep.con with
  | some dg =>
    exact wp_createP rv hx hd (by simp [toInstall, hdg]) hu
  | none =>
    by_cases hcon : cfg.o.conOk dep.con = true
    · simp only [hcon, Bool.not_true, Bool.false_eq_true, if_false]
      refine wp_fetchP hx (fun s' hc hw => wp_finishErr _ _ (by simp) hc hw) (fun s' hc hw => wp_finishErr _ _ (by simp) hc hw) ?_
      intro s' ts hx' ht hp
      refine wp_createP rv hx' hd ?_ ?_
      · rw [ht]; simp [toInstall, hdg, hcon]
      · rw [hp]; exact hu
    · simp only [hcon, Bool.not_false, if_true]
      exact wp_finishErr _ _ (by simp) hx.coh hx.le

theorem wp_writeUpdP {cfg : RCfg} {s : RWorld} {l : LockObj} {d : Dag} {dep : Dep} {ref : RefInfo} (rv : Nat)
    {ps : List PkgObj} {p : PkgObj} {pref : RefInfo} {v : String}
    (hx : Ctx s l) (hd : Dec cfg l d dep ref) (hupg : cfg.upg = true)
    (hps : s.seen.pkgs = some ps) (hm : lastMatch cfg.refOf ref.repo ps none = some (p, pref))
    (hv : toUpdate cfg.o (parentsOf d dep.pkg) pref.ident cfg.down s.seen.tags = .ok v) :
    Wp cfg (writeUpdP ref rv p v) s := by
  unfold writeUpdP
  apply wp_call
  intro s' hr
  have hx' := hx.rely hr
  refine ⟨⟨hx'.coh, ?_⟩, ?_, ?_⟩
  · show Guar cfg s' (.updatePkg _ _ _ _)
    unfold Guar
    refine ⟨hx'.writes, hupg, d, dep, ref, ps, p, pref, v, hd.servedDep hx', hd.ref, ?_, hm, rfl, rfl, rfl, rfl, ?_⟩
    · rw [hr.1]; exact hps
    · rw [hr.1]; exact hv
  · have h1 : Coh (execRec s' (.updatePkg p.kind p.name (fmtImage ref.str v) p.rv)).1 := coh_exec hx'.coh _
    have h2 : (execRec s' (.updatePkg p.kind p.name (fmtImage ref.str v) p.rv)).1.seen.writes ≤ 1 := by
      have := exec_writes_le s' (.updatePkg p.kind p.name (fmtImage ref.str v) p.rv)
      rw [hx'.writes] at this; omega
    have h3 : (execRec s' (.updatePkg p.kind p.name (fmtImage ref.str v) p.rv)).1.seen.taken = false := by
      rcases exec_taken s' (.updatePkg p.kind p.name (fmtImage ref.str v) p.rv) with h | ⟨_, _, _, h, _⟩
      · rw [h]; exact hx'.taken
      · cases h
    generalize (execRec s' (.updatePkg p.kind p.name (fmtImage ref.str v) p.rv)).2 = resp
    generalize (execRec s' (.updatePkg p.kind p.name (fmtImage ref.str v) p.rv)).1 = s2 at h1 h2 h3
    unfold kUpdate
    split
    · exact wp_finishErr _ _ (by simp) h1 h2
    · exact wp_finishWrap _ _ h1 h2 (Or.inl h3)
  · intro e
    exact wp_finishErr _ _ (by simp) hx'.coh hx'.le

theorem wp_updateP {cfg : RCfg} {s : RWorld} {l : LockObj} {d : Dag} {dep : Dep} {ref : RefInfo} (rv : Nat)
    {ps : List PkgObj} {p : PkgObj} {pref : RefInfo}
    (hx : Ctx s l) (hd : Dec cfg l d dep ref) (hupg : cfg.upg = true)
    (hps : s.seen.pkgs = some ps) (hm : lastMatch cfg.refOf ref.repo ps none = some (p, pref)) :
    Wp cfg (updateP cfg d dep ref rv p pref) s := by
  unfold updateP
  cases hdg : digestToUpdate cfg.o (parentsOf d dep.pkg) with
  | error e => exact wp_finishErr _ _ (by simp) hx.coh hx.le
  | ok dg =>
    simp only []
    by_cases hne : dg = ""
    · subst hne
      simp only [ne_eq, not_true_eq_false, if_false]
      refine wp_fetchP hx (fun s' hc hw => wp_finishErr _ _ (by simp) hc hw) (fun s' hc hw => wp_finishErr _ _ (by simp) hc hw) ?_
      intro s' ts hx' ht hp
      unfold pickP
      by_cases hall : (parentsOf d dep.pkg).all cfg.o.conOk = true
      · simp only [hall, Bool.not_true, Bool.false_eq_true, if_false]
        cases hver : cfg.o.ver pref.ident with
        | none => exact ⟨hx'.coh, hx'.le, fun h => by cases h⟩
        | some cur =>
          simp only []
          cases hpick : pickUpdate (satAll cfg.o (parentsOf d dep.pkg)) cur cfg.down (sortTags (parseTags cfg.o ts)) none with
          | none => exact wp_finishErr _ _ (by simp) hx'.coh hx'.le
          | some v =>
            refine wp_writeUpdP rv hx' hd hupg (by rw [hp]; exact hps) hm ?_
            rw [ht]
            simp [toUpdate, hdg, hall, hver, hpick]
      · simp only [hall, Bool.not_false, if_true]
        exact wp_finishErr _ _ (by simp) hx'.coh hx'.le
    · simp only [ne_eq, hne, not_false_eq_true, if_true]
      refine wp_writeUpdP rv hx hd hupg hps hm ?_
      simp [toUpdate, hdg, hne]

theorem wp_depP {cfg : RCfg} {s : RWorld} {l : LockObj} {d : Dag} {dep : Dep} (rv : Nat)
    (hx : Ctx s l) (hsv : ∃ rest, init cfg.o cfg.upg l.pkgs = .ok (d, dep :: rest) ∧ ∃ res, sort d d.keys = .ok res) :
    Wp cfg (depP cfg d dep rv) s := by
  unfold depP
  cases href : cfg.refOf dep.pkg with
  | none => exact wp_finishWrap _ _ hx.coh hx.le hx.nameOk
  | some ref =>
    have hd : Dec cfg l d dep ref := ⟨hsv, href⟩
    simp only []
    by_cases hupg : cfg.upg = true
    · rw [if_pos hupg]
      by_cases hk : cfg.kindOf dep.pkg = ""
      · rw [if_pos hk]; exact wp_finishErr _ _ (by simp) hx.coh hx.le
      · rw [if_neg hk]
        apply wp_call
        intro s' hr
        have hx' := hx.rely hr
        refine ⟨⟨hx'.coh, trivial⟩, ?_, ?_⟩
        · have hx2 : Ctx (execRec s' (.listPkgs (cfg.kindOf dep.pkg))).1 l := hx'.exec (by intro h; cases h) rfl
          cases hresp : (execRec s' (.listPkgs (cfg.kindOf dep.pkg))).2 with
          | pkgs ps =>
            have hps := exec_list_resp hresp
            unfold kList
            simp only []
            cases hm : lastMatch cfg.refOf ref.repo ps none with
            | none => exact wp_installP rv hx2 hd (fun _ => ⟨ps, hps, hm⟩)
            | some pp =>
              obtain ⟨p, pref⟩ := pp
              exact wp_updateP rv hx2 hd hupg hps hm
          | err e => exact wp_finishErr _ _ (by simp) hx2.coh hx2.le
          | lock _ => exact wp_finishErr _ _ (by simp) hx2.coh hx2.le
          | pkg _ => exact wp_finishErr _ _ (by simp) hx2.coh hx2.le
          | tags _ => exact wp_finishErr _ _ (by simp) hx2.coh hx2.le
          | ok _ => exact wp_finishErr _ _ (by simp) hx2.coh hx2.le
        · intro e; exact wp_finishErr _ _ (by simp) hx'.coh hx'.le
    · rw [if_neg hupg]
      exact wp_installP rv hx hd (fun h => absurd h hupg)

theorem wp_afterFin {cfg : RCfg} {s : RWorld} {l : LockObj} (rv : Nat) (hx : Ctx s l) :
    Wp cfg (afterFin cfg l rv) s := by
  unfold afterFin
  cases hi : init cfg.o cfg.upg l.pkgs with
  | error e => exact wp_finishErr _ _ (by simp) hx.coh hx.le
  | ok di =>
    obtain ⟨d, implied⟩ := di
    simp only []
    cases hs : sort d d.keys with
    | error e => exact wp_finishErr _ _ (by simp) hx.coh hx.le
    | ok res =>
      simp only []
      cases implied with
      | nil => exact wp_finishWrap _ _ hx.coh hx.le hx.nameOk
      | cons dep rest => exact wp_depP rv hx ⟨rest, hi, res, hs⟩

theorem wp_ensureFin {cfg : RCfg} {s : RWorld} {l : LockObj} (want : Bool) (onErr : ErrClass → RErr)
    (hne : ∀ e, onErr e ≠ .none) {k : Nat → RProg}
    (hx : Ctx s l) (hk : ∀ s' rv, Ctx s' l → Wp cfg (k rv) s') : Wp cfg (ensureFin l want onErr k) s := by
  unfold ensureFin
  by_cases hf : l.fin = want
  · rw [if_pos hf]; exact hk _ _ hx
  · rw [if_neg hf]
    apply wp_call
    intro s' hr
    have hx' := hx.rely hr
    have hkFin : ∀ s2 resp, Ctx s2 l → Wp cfg (kFin l want onErr k resp) s2 := by
      intro s2 resp hx2
      unfold kFin
      split
      · exact hk _ _ hx2
      · exact ⟨hx2.coh, hx2.le, fun _ => hx2.nameOk⟩
      · split
        · exact hk _ _ hx2
        · exact ⟨hx2.coh, hx2.le, fun h => absurd h (hne _)⟩
      · exact ⟨hx2.coh, hx2.le, fun h => absurd h (hne _)⟩
    refine ⟨⟨hx'.coh, ?_⟩, hkFin _ _ (hx'.exec (by intro h; cases h) rfl), fun e => hkFin _ _ hx'⟩
    show Guar cfg s' (.updateLock _ _ _)
    unfold Guar
    refine ⟨l, hx'.lock, rfl, rfl, ?_⟩
    cases hlf : l.fin <;> cases want <;> simp_all

/-- **Every call the reconciler issues is justified by what this Reconcile was served**, from any
coherent world in which nothing has been served yet, whatever the other clients, the cache and
the registry do between its calls and whichever calls fail. -/
theorem reconcileP_wp (cfg : RCfg) (w : RWorld) (hc : Coh w) (hs : w.seen = {}) : Wp cfg (reconcileP cfg) w := by
  unfold reconcileP
  apply wp_call
  intro s' hr
  have hc' := hr.2 hc
  have hs' : s'.seen = {} := by rw [hr.1]; exact hs
  have hw' : s'.seen.writes = 0 := by rw [hs']
  have ht' : s'.seen.taken = false := by rw [hs']
  refine ⟨⟨hc', trivial⟩, ?_, ?_⟩
  · have h1 : Coh (execRec s' .getLock).1 := coh_exec hc' _
    have h2 : (execRec s' .getLock).1.seen.writes = 0 := by rw [exec_keep_writes rfl]; exact hw'
    have h2' : (execRec s' .getLock).1.seen.writes ≤ 1 := by omega
    have h3 : (execRec s' .getLock).1.seen.taken = false := by rw [exec_keep_taken rfl]; exact ht'
    have h3' : NameOk cfg (execRec s' .getLock).1.seen := Or.inl h3
    cases hresp : (execRec s' .getLock).2 with
    | lock l =>
      have hx : Ctx (execRec s' .getLock).1 l := ⟨h1, exec_getLock_resp hresp, h2, h3⟩
      unfold kGet
      simp only []
      by_cases he : l.pkgs.isEmpty = true
      · rw [if_pos he]
        exact wp_ensureFin false _ (by intro e; simp) hx (fun s2 rv hx2 => wp_finishWrap _ _ hx2.coh hx2.le hx2.nameOk)
      · rw [if_neg he]
        exact wp_ensureFin true _ (by intro e; simp) hx (fun s2 rv hx2 => wp_afterFin rv hx2)
    | err e => cases e <;> exact ⟨h1, h2', fun _ => h3'⟩
    | pkgs _ => exact ⟨h1, h2', fun _ => h3'⟩
    | pkg _ => exact ⟨h1, h2', fun _ => h3'⟩
    | tags _ => exact ⟨h1, h2', fun _ => h3'⟩
    | ok _ => exact ⟨h1, h2', fun _ => h3'⟩
  · intro e
    have : s'.seen.writes ≤ 1 := by omega
    cases e <;> exact ⟨hc', this, fun _ => Or.inl ht'⟩

/-- a new Reconcile starts: forgetting what was served keeps the world coherent -/
theorem Coh.fresh {w : RWorld} (hc : Coh w) : Coh w.fresh where
  lockRv := hc.lockRv
  pkgRv := hc.pkgRv
  clockRv := hc.clockRv
  cpkgRv := hc.cpkgRv
  seenLockRv := by intro l h; simp [RWorld.fresh] at h
  seenPkgRv := by intro ps h; simp [RWorld.fresh] at h
  pkgUniq := hc.pkgUniq
  clockEq := hc.clockEq
  seenLockEq := by intro c l h; simp [RWorld.fresh] at h
  cpkgEq := hc.cpkgEq
  seenPkgEq := by intro ps h; simp [RWorld.fresh] at h

end Xp.C17

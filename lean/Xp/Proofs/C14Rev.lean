import Xp.Proofs.C14
set_option linter.unusedSimpArgs false
set_option linter.unusedVariables false
/-
Helper lemmas for the revisioner clauses of C14: the characterisation of
`revisionName` (the model of `PackageRevisioner.Revision`) by package state, pull policy
and fetch outcome, the symbolic execution of a reconcile whose revisioner fails (it leaves
the revisions and the recorded current revision/identifier alone under every fault plan),
and the shape of every status write of a reconcile.
-/
namespace Xp.C14

variable {α β : Type}

/-! ### the revisioner as a function of the package and the fetch outcome -/

theorem skipsFetch_false_iff (p : Pkg) :
    skipsFetch p = false ↔ p.spec.pull ≠ .never ∧ ¬(p.spec.pull = .ifNotPresent ∧ p.status.curId = p.spec.source) := by
  unfold skipsFetch
  by_cases h1 : p.spec.pull = .never <;> by_cases h2 : p.spec.pull = .ifNotPresent <;>
    by_cases h3 : p.status.curId = p.spec.source <;> simp [h1, h2, h3]

theorem revisionName_of_fetch (env : Env) (p : Pkg) (h : skipsFetch p = false) :
    revisionName env p =
      if !env.parseOk p.spec.source then .error ()
      else match env.head p.spec.source with
        | .err _ => .error ()
        | .nil => .ok ""
        | .digest d => .ok (friendlyID p.name d) := by
  obtain ⟨h1, h2⟩ := (skipsFetch_false_iff p).mp h
  simp only [revisionName, if_neg h1, if_neg h2]
  cases env.parseOk p.spec.source <;> cases env.head p.spec.source <;> rfl

theorem revisionName_ok_iff (env : Env) (p : Pkg) (cur : String) :
    revisionName env p = .ok cur ↔
      (p.spec.pull = .never ∧ cur = friendlyID p.name p.spec.source) ∨
      (p.spec.pull = .ifNotPresent ∧ p.status.curId = p.spec.source ∧ cur = p.status.curRev) ∨
      (skipsFetch p = false ∧ env.parseOk p.spec.source = true ∧
        ((env.head p.spec.source = .nil ∧ cur = "") ∨
         ∃ d, env.head p.spec.source = .digest d ∧ cur = friendlyID p.name d)) := by
  by_cases h1 : p.spec.pull = .never
  · have hs : skipsFetch p = true := by simp [skipsFetch, h1]
    have hne : p.spec.pull ≠ .ifNotPresent := by rw [h1]; decide
    have e : revisionName env p = .ok (friendlyID p.name p.spec.source) := by simp [revisionName, h1]
    rw [e]
    constructor
    · intro h; cases h; exact .inl ⟨h1, rfl⟩
    · rintro (h | h | h)
      · rw [h.2]
      · exact absurd h.1 hne
      · rw [hs] at h; cases h.1
  · by_cases h2 : p.spec.pull = .ifNotPresent ∧ p.status.curId = p.spec.source
    · have hs : skipsFetch p = true := by simp [skipsFetch, h2.1, h2.2]
      have e : revisionName env p = .ok p.status.curRev := by
        simp only [revisionName, if_neg h1, if_pos h2]
      rw [e]
      constructor
      · intro h; cases h; exact .inr (.inl ⟨h2.1, h2.2, rfl⟩)
      · rintro (h | h | h)
        · exact absurd h.1 h1
        · rw [h.2.2]
        · rw [hs] at h; cases h.1
    · have hs : skipsFetch p = false := (skipsFetch_false_iff p).mpr ⟨h1, h2⟩
      rw [revisionName_of_fetch env p hs]
      have h2' : ¬(p.spec.pull = .ifNotPresent ∧ p.status.curId = p.spec.source ∧ cur = p.status.curRev) :=
        fun h => h2 ⟨h.1, h.2.1⟩
      cases hpo : env.parseOk p.spec.source with
      | false => simp [h1, h2', hs]
      | true =>
        cases hh : env.head p.spec.source with
        | err c => simp [h1, h2', hs]
        | nil =>
          have e : (if (!true) = true then (Except.error () : Except Unit String) else
              match Head.nil with
              | .err _ => .error ()
              | .nil => .ok ""
              | .digest d => .ok (friendlyID p.name d)) = .ok "" := by simp
          rw [e]
          constructor
          · intro h; cases h; exact .inr (.inr ⟨hs, rfl, .inl ⟨rfl, rfl⟩⟩)
          · rintro (h | h | ⟨_, _, ⟨_, e'⟩ | ⟨d, hd, _⟩⟩)
            · exact absurd h.1 h1
            · exact absurd h h2'
            · rw [e']
            · cases hd
        | digest d =>
          have e : (if (!true) = true then (Except.error () : Except Unit String) else
              match Head.digest d with
              | .err _ => .error ()
              | .nil => .ok ""
              | .digest d => .ok (friendlyID p.name d)) = .ok (friendlyID p.name d) := by simp
          rw [e]
          constructor
          · intro h; cases h; exact .inr (.inr ⟨hs, rfl, .inr ⟨d, rfl, rfl⟩⟩)
          · rintro (h | h | ⟨_, _, ⟨hd, _⟩ | ⟨d', hd, e'⟩⟩)
            · exact absurd h.1 h1
            · exact absurd h h2'
            · cases hd
            · cases hd; rw [e']

theorem revisionName_error_iff (env : Env) (p : Pkg) :
    revisionName env p = .error () ↔
      skipsFetch p = false ∧ (env.parseOk p.spec.source = false ∨ ∃ c, env.head p.spec.source = .err c) := by
  by_cases h1 : p.spec.pull = .never
  · have hs : skipsFetch p = true := by simp [skipsFetch, h1]
    simp [revisionName, h1, hs]
  · by_cases h2 : p.spec.pull = .ifNotPresent ∧ p.status.curId = p.spec.source
    · have hs : skipsFetch p = true := by simp [skipsFetch, h2.1, h2.2]
      simp [revisionName, h1, h2, hs]
    · have hs : skipsFetch p = false := (skipsFetch_false_iff p).mpr ⟨h1, h2⟩
      rw [revisionName_of_fetch env p hs]
      cases hpo : env.parseOk p.spec.source with
      | false => simp [hs]
      | true =>
        cases hh : env.head p.spec.source with
        | err c => simp [hs]
        | nil => simp [hs]
        | digest d => simp [hs]

/-! ### a reconcile whose revisioner fails -/

/-- what such a reconcile must leave alone: the revisions, the package's identity and spec, and
the recorded current revision / current identifier (only conditions may change) -/
def core (s : Store) : List Rev × Option (String × String × Spec × String × String) :=
  (s.revs, s.pkg.map fun q => (q.name, q.uid, q.spec, q.status.curRev, q.status.curId))

theorem core_statusPkg (s : Store) (n : String) (st : Status)
    (h : ∀ q, s.pkg = some q → st.curRev = q.status.curRev ∧ st.curId = q.status.curId) :
    core (exec s (.statusPkg n st)).1 = core s := by
  simp only [exec]
  cases hq : s.pkg with
  | none => simp [core, hq]
  | some q =>
    obtain ⟨e1, e2⟩ := h q hq
    by_cases hn : q.name = n
    · simp [core, hq, hn, e1, e2]
    · simp [core, hq, hn]

/-- the verdict on the result: never `done`/`requeue`; exactly `err` for an unpaused package of that name -/
def QErr (pname : String) (p : Pkg) (_ : Store) (r : Res) : Prop :=
  (r = .err ∨ r = .paused ∨ r = .gone) ∧
  (p.name = pname → p.spec.paused = false → p.status.pausedCond = false → r = .err)

theorem QErr_err (pname : String) (p : Pkg) (s : Store) : QErr pname p s .err :=
  ⟨.inl rfl, fun _ _ _ => rfl⟩

theorem reconcile_err_tri (env : Env) (pname : String) (s : Store) (p : Pkg)
    (hp : s.pkg = some p) (herr : revisionName env p = .error ()) :
    Tri (fun s' => core s' = core s) (fun r => isRevWrite r = false) (QErr pname p)
      (pkgReconcile env pname) s := by
  have herrq := QErr_err pname p
  have hst : ∀ (st : Status), st.curRev = p.status.curRev → st.curId = p.status.curId →
      ∀ n, core (exec s (.statusPkg n st)).1 = core s := by
    intro st e1 e2 n
    apply core_statusPkg
    intro q hq
    rw [hp] at hq; cases hq
    exact ⟨e1, e2⟩
  unfold pkgReconcile reconcileWith
  refine ⟨⟨rfl, ?_, ?_⟩, herrq _, herrq _⟩
  · simp only [exec, hp]; split <;> rfl
  · by_cases hn : p.name = pname
    · have hex : exec s (.getPkg pname) = (s, .pkg p) := by simp [exec, hp, hn]
      rw [hex]
      show Tri _ _ _ (if p.spec.paused = true then _ else _) s
      by_cases hpa : p.spec.paused = true
      · rw [if_pos hpa]
        refine statusCall_tri _ _ _ _ rfl (hst { p.status with pausedCond := true } rfl rfl _) (fun _ => ⟨.inr (.inl rfl), ?_⟩) herrq
        intro _ h _; rw [hpa] at h; cases h
      · rw [if_neg hpa]
        by_cases hpc : p.status.pausedCond = true
        · rw [if_pos hpc]
          refine statusCall_tri _ _ _ _ rfl (hst { p.status with pausedCond := false } rfl rfl _) (fun _ => ⟨.inr (.inl rfl), ?_⟩) herrq
          intro _ _ h; rw [hpc] at h; cases h
        · rw [if_neg hpc]
          refine ⟨⟨rfl, rfl, ?_⟩, herrq _, herrq _⟩
          show Tri _ _ _ (Prog.call .listImageConfigs _) s
          refine ⟨⟨rfl, rfl, ?_⟩, ?_, ?_⟩
          · show Tri _ _ _ (match revisionName env p with | .error _ => _ | .ok cur => _) s
            rw [herr]
            exact statusCall_tri _ _ _ _ rfl (hst _ rfl rfl _) herrq herrq
          · exact ⟨⟨rfl, hst _ rfl rfl _, herrq _⟩, herrq _, herrq _⟩
          · exact ⟨⟨rfl, hst _ rfl rfl _, herrq _⟩, herrq _, herrq _⟩
    · have hex : exec s (.getPkg pname) = (s, .err .notFound) := by simp [exec, hp, hn]
      rw [hex]
      exact ⟨.inr (.inr rfl), fun h => absurd h hn⟩

/-! ### the status writes of a reconcile -/

theorem Issues.bind' {Q : Req → Prop} {p : P α} {f : α → P β}
    (hp : Issues Q p) (hf : ∀ a, Issues Q (f a)) : Issues Q (Prog.bind p f) := by
  induction hp with
  | ret a => exact hf a
  | call r c hq _ ih => exact Issues.call r _ hq ih

/-- a program that only issues `R`-requests is `Tri`-safe for `R` (no store invariant, no verdict) -/
theorem Tri_of_issues {R : Req → Prop} {p : P α} (hp : Issues R p) (s : Store) :
    Tri (fun _ => True) R (fun _ _ => True) p s := by
  induction hp generalizing s with
  | ret a => trivial
  | call r c hq _ ih => exact ⟨⟨hq, trivial, ih _ _⟩, ih _ _, ih _ _⟩

theorem Tri.weakenR {I : Store → Prop} {R R' : Req → Prop} {Q : Store → α → Prop}
    (hR : ∀ r, R r → R' r) (p : P α) (s : Store) (h : Tri I R Q p s) : Tri I R' Q p s := by
  induction p generalizing s with
  | ret a => exact h
  | call r c ih =>
    obtain ⟨⟨h0, h1, h2⟩, h3, h4⟩ := h
    exact ⟨⟨hR _ h0, h1, ih _ _ h2⟩, ih _ _ h3, ih _ _ h4⟩

/-- every status write issued once the revision name `cur` is known records exactly
(`cur`, the package's source) -/
def RStat (p : Pkg) (cur : String) (r : Req) : Prop :=
  ∀ n st, r = .statusPkg n st → st.curRev = cur ∧ st.curId = p.spec.source

theorem RStat_get (p : Pkg) (cur n : String) : RStat p cur (.getRev n) := fun _ _ e => by cases e
theorem RStat_patch (p : Pkg) (cur : String) (d : Rev) : RStat p cur (.patchRev d) := fun _ _ e => by cases e
theorem RStat_create (p : Pkg) (cur : String) (d : Rev) (b : Bool) : RStat p cur (.createRev d b) := fun _ _ e => by cases e
theorem RStat_update (p : Pkg) (cur : String) (d : Rev) : RStat p cur (.updateRev d) := fun _ _ e => by cases e
theorem RStat_delete (p : Pkg) (cur n : String) : RStat p cur (.deleteRev n) := fun _ _ e => by cases e

theorem applyRev_issues (p : Pkg) (cur : String) (d : Rev) (b : Bool) (uid : String) :
    Issues (RStat p cur) (applyRev d b uid) := by
  unfold applyRev
  refine Issues.call _ _ (RStat_get _ _ _) ?_
  intro x
  split
  · split
    · exact Issues.call _ _ (RStat_patch _ _ _) (fun _ => Issues.ret _)
    · exact Issues.ret _
  · exact Issues.call _ _ (RStat_create _ _ _ _) (fun _ => Issues.ret _)
  · exact Issues.ret _

theorem deactLoop_issues (p : Pkg) (cur uid : String) (l : List Rev) :
    Issues (RStat p cur) (deactLoop uid cur l) := by
  induction l with
  | nil => exact Issues.ret _
  | cons r rest ih =>
    unfold deactLoop
    split
    · exact ih
    · split
      · refine Issues.bind' (applyRev_issues _ _ _ _ _) ?_
        intro a
        cases a with
        | ok _ => exact ih
        | conflict => exact Issues.ret _
        | err => exact Issues.ret _
      · exact ih

theorem finishStatus_issues (p : Pkg) (cur : String) : Issues (RStat p cur) (finishStatus p cur) := by
  unfold finishStatus
  refine Issues.call _ _ ?_ ?_
  · intro n st e; cases e; exact ⟨rfl, rfl⟩
  · intro x; split <;> exact Issues.ret _

theorem applyCurrent_issues (p : Pkg) (cur : String) (listed : List Rev) :
    Issues (RStat p cur) (applyCurrent p cur listed) := by
  unfold applyCurrent
  refine Issues.bind' (applyRev_issues _ _ _ _ _) ?_
  intro a
  cases a with
  | conflict => exact Issues.ret _
  | err => exact Issues.ret _
  | ok pr =>
    show Issues _ (if pr.labels = p.spec.labels then _ else _)
    split
    · exact finishStatus_issues p cur
    · refine Issues.call _ _ (RStat_update _ _ _) ?_
      intro x
      split
      · exact finishStatus_issues p cur
      · exact Issues.ret _
      · exact Issues.ret _

theorem stage2With_issues (v : Option Rev) (p : Pkg) (cur : String) (listed : List Rev) :
    Issues (RStat p cur) (stage2With v p cur listed) := by
  unfold stage2With
  refine Issues.bind' (deactLoop_issues _ _ _ _) ?_
  intro a
  cases a with
  | some r => exact Issues.ret _
  | none =>
    cases v with
    | none => exact applyCurrent_issues p cur listed
    | some w =>
      refine Issues.call _ _ (RStat_delete _ _ _) ?_
      intro x
      split
      · exact applyCurrent_issues p cur listed
      · exact Issues.ret _

/-- a status write of a reconcile started with package `p` in the store: it either keeps the
recorded (currentRevision, currentIdentifier), or records (the non-empty name the revisioner
resolved for `p`, `p`'s source) -/
def RTop (env : Env) (p : Pkg) (r : Req) : Prop :=
  ∀ n st, r = .statusPkg n st →
    (st.curRev = p.status.curRev ∧ st.curId = p.status.curId) ∨
    (st.curId = p.spec.source ∧ st.curRev ≠ "" ∧ revisionName env p = .ok st.curRev)

theorem reconcile_status_tri (env : Env) (pname : String) (s : Store) (p : Pkg) (hp : s.pkg = some p) :
    Tri (fun _ => True) (RTop env p) (fun _ _ => True) (pkgReconcile env pname) s := by
  have hkeep : ∀ (n : String) (st : Status), st.curRev = p.status.curRev → st.curId = p.status.curId →
      RTop env p (.statusPkg n st) := by
    intro n st e1 e2 n' st' e; cases e; exact .inl ⟨e1, e2⟩
  have hno : ∀ r : Req, (∀ n st, r ≠ .statusPkg n st) → RTop env p r := fun r h n st e => absurd e (h n st)
  unfold pkgReconcile reconcileWith
  refine ⟨⟨hno _ (by intro n st e; cases e), trivial, ?_⟩, trivial, trivial⟩
  by_cases hn : p.name = pname
  · have hex : exec s (.getPkg pname) = (s, .pkg p) := by simp [exec, hp, hn]
    rw [hex]
    show Tri _ _ _ (if p.spec.paused = true then _ else _) s
    by_cases hpa : p.spec.paused = true
    · rw [if_pos hpa]
      exact statusCall_tri _ _ _ _ (hkeep _ _ rfl rfl) trivial (fun _ => trivial) (fun _ => trivial)
    · rw [if_neg hpa]
      by_cases hpc : p.status.pausedCond = true
      · rw [if_pos hpc]
        exact statusCall_tri _ _ _ _ (hkeep _ _ rfl rfl) trivial (fun _ => trivial) (fun _ => trivial)
      · rw [if_neg hpc]
        refine ⟨⟨hno _ (by intro n st e; cases e), trivial, ?_⟩, trivial, trivial⟩
        show Tri _ _ _ (Prog.call .listImageConfigs _) s
        refine ⟨⟨hno _ (by intro n st e; cases e), trivial, ?_⟩, ?_, ?_⟩
        · show Tri _ _ _ (match revisionName env p with | .error _ => _ | .ok cur => _) s
          cases hr : revisionName env p with
          | error u =>
            exact statusCall_tri _ _ _ _ (hkeep _ _ rfl rfl) trivial (fun _ => trivial) (fun _ => trivial)
          | ok cur =>
            show Tri _ _ _ (if cur = "" then _ else _) s
            by_cases hce : cur = ""
            · rw [if_pos hce]
              exact statusCall_tri _ _ _ _ (hkeep _ _ rfl rfl) trivial (fun _ => trivial) (fun _ => trivial)
            · rw [if_neg hce]
              show Tri _ _ _ (stage2 p cur _) s
              unfold stage2
              refine Tri.weakenR ?_ _ _ (Tri_of_issues (stage2With_issues _ p cur _) s)
              intro r h0 n st e
              obtain ⟨e1, e2⟩ := h0 n st e
              exact .inr ⟨e2, e1 ▸ hce, e1 ▸ hr⟩
        · exact ⟨⟨hkeep _ _ rfl rfl, trivial, trivial⟩, trivial, trivial⟩
        · exact ⟨⟨hkeep _ _ rfl rfl, trivial, trivial⟩, trivial, trivial⟩
  · have hex : exec s (.getPkg pname) = (s, .err .notFound) := by simp [exec, hp, hn]
    rw [hex]; trivial

end Xp.C14

import Xp.Model.C16Enrich
/-
C16 helper lemmas about `addLabels` / `enrichControlledResource` (Model/C16Enrich.lean).
-/
namespace Xp.C16

/-! ### client configs -/

theorem enrichCC_filled' (ns label cert : String) (cc : CC) :
    (enrichCC ns label cert cc).filled ns label cert = true := by
  simp [enrichCC, CC.filled]

theorem enrichCC_frame' (ns label cert : String) (cc : CC) :
    (enrichCC ns label cert cc).frame = cc.frame := by
  cases cc with
  | mk url service ca =>
    cases service <;> simp [enrichCC, CC.frame]

theorem enrichCC_idem (ns label cert : String) (cc : CC) :
    enrichCC ns label cert (enrichCC ns label cert cc) = enrichCC ns label cert cc := by
  simp [enrichCC]

theorem enrichHooks_frame (ns label cert : String) (hs : List Hook) :
    (enrichHooks ns label cert hs).map Hook.frame = hs.map Hook.frame := by
  induction hs with
  | nil => rfl
  | cons h t ih =>
    simp only [enrichHooks, List.map_cons, List.map_map] at ih ⊢
    rw [ih]
    simp [Hook.frame, enrichCC_frame']

theorem enrichHooks_idem (ns label cert : String) (hs : List Hook) :
    enrichHooks ns label cert (enrichHooks ns label cert hs) = enrichHooks ns label cert hs := by
  induction hs with
  | nil => rfl
  | cons h t ih =>
    simp only [enrichHooks, List.map_cons, List.map_map] at ih ⊢
    rw [ih]
    simp [enrichCC_idem]

theorem enrichHooks_filled (ns label cert : String) (hs : List Hook) :
    ∀ h ∈ enrichHooks ns label cert hs, h.cc.filled ns label cert = true := by
  intro h hh
  simp only [enrichHooks, List.mem_map] at hh
  obtain ⟨h0, _, rfl⟩ := hh
  exact enrichCC_filled' ns label cert h0.cc

theorem enrichHooks_shape (ns label cert : String) (hs : List Hook) :
    (enrichHooks ns label cert hs).map (fun h => (h.name, h.rest)) = hs.map (fun h => (h.name, h.rest)) := by
  simp [enrichHooks, List.map_map, Function.comp_def]

/-! ### conversions -/

theorem enrichConv_frame (ns label cert : String) (c c' : Conv)
    (h : enrichConv ns label cert c = .ok c') : c'.frame = c.frame := by
  unfold enrichConv at h
  by_cases hs : c.strategy = webhookStrategy
  · rw [if_pos hs] at h
    by_cases hc : cert = ""
    · rw [if_pos hc] at h; cases h
    · rw [if_neg hc] at h
      injection h with h
      subst h
      cases c with
      | mk strategy webhook =>
        simp only at hs
        cases webhook with
        | none => simp [Conv.frame, hs, enrichCC_frame']
        | some w =>
          cases w with
          | mk cc rv => cases cc <;> simp [Conv.frame, hs, enrichCC_frame']
  · rw [if_neg hs] at h
    injection h with h
    subst h; rfl

theorem enrichConv_error_iff (ns label cert : String) (c : Conv) :
    (∃ e, enrichConv ns label cert c = .error e) ↔ (c.strategy = webhookStrategy ∧ cert = "") := by
  unfold enrichConv
  by_cases hs : c.strategy = webhookStrategy <;> by_cases hc : cert = "" <;> simp [hs, hc]

theorem enrichConv_idem (ns label cert : String) (c c' : Conv)
    (h : enrichConv ns label cert c = .ok c') : enrichConv ns label cert c' = .ok c' := by
  unfold enrichConv at h
  by_cases hs : c.strategy = webhookStrategy
  · rw [if_pos hs] at h
    by_cases hc : cert = ""
    · rw [if_pos hc] at h; cases h
    · rw [if_neg hc] at h
      injection h with h
      subst h
      simp [enrichConv, hs, hc, enrichCC_idem]
  · rw [if_neg hs] at h
    injection h with h
    subst h
    simp [enrichConv, hs]

theorem enrichConv_filled (ns label cert : String) (c c' : Conv)
    (h : enrichConv ns label cert c = .ok c') (hs : c.strategy = webhookStrategy) :
    c'.strategy = webhookStrategy ∧
    ∃ w cc, c'.webhook = some w ∧ w.cc = some cc ∧ cc.filled ns label cert = true ∧
      w.reviewVersions = (c.webhook.map (·.reviewVersions)).getD [] := by
  unfold enrichConv at h
  rw [if_pos hs] at h
  by_cases hc : cert = ""
  · rw [if_pos hc] at h; cases h
  · rw [if_neg hc] at h
    injection h with h
    subst h
    refine ⟨hs, _, _, rfl, rfl, enrichCC_filled' _ _ _ _, ?_⟩
    cases c.webhook <;> rfl

/-! ### the parent -/

theorem find_map_name (l : List PRef) (kind : PRef → String) (lbl : String) :
    ((l.map fun r => (⟨kind r, r.name⟩ : POwner)).find? (fun r => r.name = lbl)) =
      (l.find? (fun r => r.name = lbl)).map fun r => ⟨kind r, r.name⟩ := by
  induction l with
  | nil => rfl
  | cons x t ih =>
    simp only [List.map_cons, List.find?_cons]
    by_cases h : x.name = lbl
    · simp [h]
    · simp [h, ih]

theorem validateGo_needsCA (rejects : Obj → Bool) (fault : Fault) (p : Parent) (control : Bool)
    (s : Store) (i : Nat) (k : String) (b : Nat) (n m : Bool) :
    validateGo rejects fault p control s i ⟨k, b, n⟩ = validateGo rejects fault p control s i ⟨k, b, m⟩ := rfl

/-! ### labels -/

theorem lookup_setLabel (l : List (String × String)) (k v k' : String) :
    getLabel (setLabel l k v) k' = if k' = k then some v else getLabel l k' := by
  induction l with
  | nil =>
    by_cases h : k' = k
    · simp [setLabel, getLabel, h]
    · have : ¬ k = k' := fun e => h e.symm
      simp [setLabel, getLabel, h, this]
  | cons x t ih =>
    obtain ⟨a, b⟩ := x
    unfold setLabel
    by_cases hx : a = k
    · rw [if_pos hx]
      by_cases h : k' = k
      · simp [getLabel, h]
      · have h1 : ¬ k = k' := fun e => h e.symm
        have h2 : ¬ a = k' := by rw [hx]; exact h1
        simp [getLabel, h, h1, h2]
    · rw [if_neg hx]
      by_cases ha : a = k'
      · have : ¬ k' = k := by rw [← ha]; exact hx
        simp [getLabel, ha, this]
      · simp [getLabel, ha, ih]

theorem lookup_foldl_other (c : List (String × String)) (k : String) (hk : ∀ kv ∈ c, kv.1 ≠ k) :
    ∀ l : List (String × String), getLabel (c.foldl (fun acc kv => setLabel acc kv.1 kv.2) l) k = getLabel l k := by
  induction c with
  | nil => intro l; rfl
  | cons x t ih =>
    intro l
    simp only [List.foldl_cons]
    rw [ih (fun kv h => hk kv (List.mem_cons_of_mem _ h)), lookup_setLabel]
    have : ¬ k = x.1 := fun e => hk x (List.mem_cons_self) e.symm
    simp [this]

theorem lookup_foldl_mem (c : List (String × String)) (k v : String)
    (hu : c.Pairwise (fun a b => a.1 ≠ b.1)) (hm : (k, v) ∈ c) :
    ∀ l : List (String × String), getLabel (c.foldl (fun acc kv => setLabel acc kv.1 kv.2) l) k = some v := by
  induction c with
  | nil => cases hm
  | cons x t ih =>
    intro l
    simp only [List.foldl_cons]
    rw [List.pairwise_cons] at hu
    rcases List.mem_cons.mp hm with h | h
    · subst h
      rw [lookup_foldl_other t k (fun kv hkv => (hu.1 kv hkv).symm), lookup_setLabel]
      simp
    · exact ih hu.2 h _

end Xp.C16
